import Nsq.Proofs.RelayOpts
/-!
# C20, option surface of nsq_to_http / nsq_to_nsq (round 6)

Models: `Nsq/Model/RelayOpts.lean`. `parseCustomHeaders` is TRANSLATED from the tree and proved equal to the
model (`Tie/ToolsRelayOpts.lean`); everything else is driven through the real functions by
`harness/e8/{n2h,n2n}_opts_test.go` (correspondence + direct oracles).
-/
namespace Nsq.Props.C20Opts
open Nsq.Model.RelayOpts Nsq.Proofs.RelayOpts

/-! ### `--header` -/

/-- A `--header` value without a colon is rejected — in particular the `key=value` form that the tool's own
fatal message advertises (`--header value format should be 'key=value'`). -/
theorem header_without_colon_rejected (s : Str) (h : (58 : UInt8) ∉ s) : parseHeader s = none := by
  unfold parseHeader; rw [cut_none 58 s h]

/-- An accepted value is split at its FIRST colon (the value may contain further colons); key and value are
non-empty and carry no leading / trailing ASCII white space. -/
theorem header_split_exact (s k v : Str) (h : parseHeader s = some (k, v)) :
    ∃ k0 v0, s = k0 ++ 58 :: v0 ∧ (58 : UInt8) ∉ k0 ∧ k = trimSpace k0 ∧ v = trimSpace v0 ∧ k ≠ [] ∧ v ≠ [] ∧
      (∀ b, k.head? = some b → isSpace b = false) ∧ (∀ b, k.getLast? = some b → isSpace b = false) ∧
      (∀ b, v.head? = some b → isSpace b = false) ∧ (∀ b, v.getLast? = some b → isSpace b = false) := by
  unfold parseHeader at h
  cases hc : cut 58 s with
  | none => simp [hc] at h
  | some kv =>
    obtain ⟨k0, v0⟩ := kv
    simp only [hc] at h
    by_cases he : trimSpace k0 = [] ∨ trimSpace v0 = []
    · simp [he] at h
    · simp only [he, if_false, Option.some.injEq, Prod.mk.injEq] at h
      obtain ⟨rfl, rfl⟩ := h
      have := cut_some 58 s k0 v0 hc
      simp only [not_or] at he
      exact ⟨k0, v0, this.1, this.2, rfl, rfl, he.1, he.2, trimSpace_head k0, trimSpace_last k0,
        trimSpace_head v0, trimSpace_last v0⟩

/-- All or nothing: the parse succeeds iff every value is acceptable (one bad `--header` is fatal), it never
panics, and the LAST flag for a key wins. -/
theorem header_parse_all_or_nothing (strs : List Str) :
    parseCustomHeaders strs ≠ .panic ∧
    (∀ m, parseCustomHeaders strs = .ok m → ∀ s ∈ strs, (parseHeader s).isSome) :=
  ⟨foldSteps_no_panic [] strs, fun m h => foldSteps_ok [] m strs h⟩

theorem header_last_wins (strs : List Str) (s k v : Str) (m : List (Str × Str))
    (hs : parseHeader s = some (k, v)) (h : parseCustomHeaders (strs ++ [s]) = .ok m) : mapGet m k = some v := by
  unfold parseCustomHeaders at h
  rw [foldSteps_snoc] at h
  cases hf : foldSteps headerStep [] strs with
  | ok m' =>
    simp only [hf, headerStep, hs] at h
    cases h
    exact mapGet_mapSet m' k v
  | err => simp [hf] at h
  | panic => simp [hf] at h

/-- What a request carries: without a custom header of that name, POST has `Content-Type: --content-type`
and `User-Agent: nsq_to_http v…`, GET has the User-Agent and no Content-Type from the tool. -/
theorem request_default_headers (post : Bool) (ct ua : Str) (custom : List (Str × Str))
    (hct : ∀ kv ∈ custom, lower kv.1 ≠ ofAscii "content-type")
    (hua : ∀ kv ∈ custom, lower kv.1 ≠ ofAscii "user-agent") :
    headerOnRequest post ct ua custom (ofAscii "User-Agent") = some ua ∧
    headerOnRequest post ct ua custom (ofAscii "Content-Type") = (if post then some ct else none) := by
  have l1 : lower (ofAscii "User-Agent") = ofAscii "user-agent" := by decide
  have l2 : lower (ofAscii "Content-Type") = ofAscii "content-type" := by decide
  have h1 : custom.filter (fun kv => lower kv.1 = lower (ofAscii "User-Agent")) = [] := by
    rw [List.filter_eq_nil_iff]; intro kv hkv; rw [l1]; simpa using hua kv hkv
  have h2 : custom.filter (fun kv => lower kv.1 = lower (ofAscii "Content-Type")) = [] := by
    rw [List.filter_eq_nil_iff]; intro kv hkv; rw [l2]; simpa using hct kv hkv
  unfold headerOnRequest
  rw [h1, h2, l1, l2]
  have l3 : (ofAscii "content-type" = ofAscii "user-agent") = False := by decide
  cases post <;> simp [l3]

/-- A custom header is set on every request (GET and POST) and overrides the tool's own header of that name. -/
theorem request_custom_header (post : Bool) (ct ua : Str) (custom : List (Str × Str)) (name : Str)
    (h : ∃ kv ∈ custom, lower kv.1 = lower name) :
    ∃ kv ∈ custom, lower kv.1 = lower name ∧ headerOnRequest post ct ua custom name = some kv.2 := by
  obtain ⟨kv0, hm, hl⟩ := h
  have hne : custom.filter (fun kv => lower kv.1 = lower name) ≠ [] := by
    intro he
    have : kv0 ∈ custom.filter (fun kv => lower kv.1 = lower name) := by simp [List.mem_filter, hm, hl]
    rw [he] at this; cases this
  unfold headerOnRequest
  cases hg : (custom.filter (fun kv => lower kv.1 = lower name)).getLast? with
  | none => rw [List.getLast?_eq_none_iff] at hg; exact absurd hg hne
  | some kv =>
    have hmem := List.mem_of_getLast? hg
    simp only [List.mem_filter, decide_eq_true_eq] at hmem
    exact ⟨kv, hmem.1, hmem.2, rfl⟩

/-! ### nsq_to_http `main()` -/

/-- The tool starts only with: headers parsed, topic and channel, exactly one of --nsqd-tcp-address /
--lookupd-http-address, exactly one of --get / --post, every GET address with exactly one `%s`, sample within
[0,1], and a non-default --content-type only together with --post and non-empty. -/
theorem n2h_starts_only_when_valid (a : HttpArgs) (h : validateHttp a = none) :
    a.headersOk = true ∧ a.topicEmpty = false ∧ a.channelEmpty = false ∧
    (a.contentTypeGiven = true → a.posts > 0 ∧ a.contentTypeEmpty = false) ∧
    ((a.nsqd > 0 ∧ a.lookupd = 0) ∨ (a.nsqd = 0 ∧ a.lookupd > 0)) ∧
    ((a.posts > 0 ∧ a.getCounts = []) ∨ (a.posts = 0 ∧ a.getCounts ≠ [])) ∧
    (∀ c ∈ a.getCounts, c = 1) ∧ a.sampleOk = true := by
  unfold validateHttp at h
  split at h; · cases h
  rename_i h1
  split at h; · cases h
  rename_i h2
  split at h; · cases h
  rename_i h3
  split at h; · cases h
  rename_i h4
  split at h; · cases h
  rename_i h5
  split at h; · cases h
  rename_i h6
  split at h; · cases h
  rename_i h7
  split at h; · cases h
  rename_i h8
  split at h; · cases h
  rename_i h9
  split at h; · cases h
  rename_i h10
  simp only [not_or, Bool.not_eq_true] at h2
  simp only [Bool.not_eq_false] at h1 h10
  refine ⟨h1, h2.1, h2.2, ?_, ?_, ?_, ?_, h10⟩
  · intro hg
    constructor
    · false_or_by_contra; exact h3 ⟨hg, by omega⟩
    · cases hc : a.contentTypeEmpty
      · rfl
      · exact absurd ⟨hg, hc⟩ h4
  · omega
  · cases hgc : a.getCounts with
    | nil => simp [hgc] at h7; left; exact ⟨by omega, rfl⟩
    | cons c cs => simp [hgc] at h8; right; exact ⟨h8, by simp⟩
  · intro c hc
    false_or_by_contra
    apply h9
    rw [List.any_eq_true]
    exact ⟨c, hc, by simpa using ‹¬c = 1›⟩

/-- An unknown `--mode` is not rejected: nsq_to_http silently publishes to ALL addresses (ModeAll is the zero
value), nsq_to_nsq silently round-robins. -/
theorem unknown_mode_is_default (mode : String) (h1 : mode ≠ "round-robin") (h2 : mode ≠ "hostpool")
    (h3 : mode ≠ "epsilon-greedy") : httpMode mode = 0 ∧ n2nMode mode = 0 := by
  simp [httpMode, n2nMode, h1, h2, h3]

/-! ### nsq_to_nsq JSON stage, topics, hostpool marks -/

/-- Exactly which messages pass `--require-json-field` / `--require-json-value`. -/
theorem require_json_pass_iff (r : Req) (v : Option JVal) :
    (shouldPass r v).1 = true ↔
      r.field = [] ∨ ∃ jv, v = some jv ∧ (r.value = [] ∨ jv = .str r.value ∨ (jv = .num true ∧ r.valueIsNumber = true)) := by
  unfold shouldPass
  by_cases hf : r.field = []
  · simp [hf]
  · cases v with
    | none => simp [hf]
    | some jv =>
      by_cases hv : r.value = []
      · simp [hf, hv]
      · cases jv with
        | str s => simp [hf, hv]
        | num eq => cases eq <;> simp [hf, hv]
        | other => simp [hf, hv]

/-- `backoff` (the handler returns an error: REQUEUE) exactly when a value is required and the field is absent;
such a message can never pass, so it is requeued until the consumer gives up. -/
theorem require_json_backoff_iff (r : Req) (v : Option JVal) :
    (shouldPass r v).2 = true ↔ r.field ≠ [] ∧ r.value ≠ [] ∧ v = none := by
  unfold shouldPass
  by_cases hf : r.field = []
  · simp [hf]
  · cases v with
    | none => simp [hf]
    | some jv =>
      by_cases hv : r.value = []
      · simp [hf, hv]
      · cases jv <;> simp [hf, hv]

/-- `--whitelist-json-field`: the published object contains exactly the whitelisted keys that were present,
each once, with the value of the input. -/
theorem whitelist_exact {V : Type} (wl : List Str) (js : Str → Option V) :
    (∀ k, k ∈ (whitelist wl js).map Prod.fst ↔ k ∈ wl ∧ (js k).isSome) ∧
    (∀ k v, (k, v) ∈ whitelist wl js → js k = some v) ∧
    ((whitelist wl js).map Prod.fst).Nodup := by
  refine ⟨?_, ?_, ?_⟩
  · intro k
    simp only [whitelist, List.mem_map, List.mem_filterMap, Option.map_eq_some_iff]
    constructor
    · rintro ⟨⟨k', v⟩, ⟨k2, hk2, v2, hv2, heq⟩, rfl⟩
      cases heq
      exact ⟨(mem_dedup wl _).1 hk2, by simp [hv2]⟩
    · rintro ⟨hk, hs⟩
      obtain ⟨v, hv⟩ := Option.isSome_iff_exists.1 hs
      exact ⟨(k, v), ⟨k, (mem_dedup wl k).2 hk, v, hv, rfl⟩, rfl⟩
  · intro k v h
    simp only [whitelist, List.mem_filterMap, Option.map_eq_some_iff] at h
    obtain ⟨k2, _, v2, hv2, heq⟩ := h
    cases heq; exact hv2
  · have hsub : ((whitelist wl js).map Prod.fst).Sublist (dedup wl) := by
      unfold whitelist
      generalize dedup wl = ks
      induction ks with
      | nil => simp
      | cons x rest ih =>
        simp only [List.filterMap_cons]
        cases js x with
        | none => simpa using ih.cons x
        | some v => simpa using ih.cons_cons x
    exact hsub.nodup (nodup_dedup wl)

/-- "the whitelist leaves every value unchanged" also for numbers as WRITTEN in the message — FALSE: the tool
decodes into float64 (open finding `whitelist-rewrites-large-integers`). -/
def whitelist_integers_exact : Prop := ∀ n : Nat, f64round n = n

theorem whitelist_integers_exact_false : ¬ whitelist_integers_exact := by
  intro h; have := h 9007199254740993; revert this; decide

/-- the provable part: integers below 2^53 (forced hypothesis) are forwarded exactly -/
theorem whitelist_integers_exact_partial (n : Nat) (h : n < 2 ^ 53) : f64round n = n := by
  unfold f64round; simp [h]

/-- Destination topic: `--destination-topic` is ONE string (not a list): when set, every message of every
consumed topic is published to it; otherwise each message goes to the topic it was consumed from. A message is
published to exactly one topic on exactly one destination nsqd. -/
theorem destination_topic (dest consumed : Str) :
    (dest ≠ [] → publishTopic dest consumed = dest) ∧ (dest = [] → publishTopic dest consumed = consumed) := by
  unfold publishTopic; constructor <;> intro h <;> simp [h]

/-- hostpool (also epsilon-greedy): every `Get` is answered by exactly one `Mark`, carrying the publish outcome:
nsq_to_http marks at once; nsq_to_nsq marks in `HandleMessage` only when `PublishAsync` failed, otherwise in
the responder when the transaction completes (an outstanding transaction has no mark yet). -/
theorem hostpool_mark_once (accepted asyncErr ok : Bool) :
    httpMarks true false accepted = [accepted] ∧ httpMarks true true accepted = [] ∧
    httpMarks false false accepted = [] ∧
    n2nMarks true true (some ok) = [false] ∧ n2nMarks true true none = [false] ∧
    n2nMarks true false (some ok) = [ok] ∧ n2nMarks true false none = [] ∧
    n2nMarks false asyncErr (some ok) = [] := by
  cases accepted <;> cases asyncErr <;> cases ok <;> decide

/-! ### non-vacuity -/
def s (x : String) : Str := ofAscii x

example : parseHeader (s " X-Tok : a:b c\t") = some (s "X-Tok", s "a:b c") := by decide
example : parseHeader (s "key=value") = none ∧ parseHeader (s ": v") = none ∧ parseHeader (s "k:  ") = none := by decide
example : parseCustomHeaders [s "A: 1", s "B:2", s "A:3"] = .ok [(s "A", s "3"), (s "B", s "2")] := by decide
example : parseCustomHeaders [s "A: 1", s "B=2"] = .err := by decide
example : headerOnRequest true (s "text/plain") (s "ua") [(s "content-type", s "application/json")] (s "Content-Type")
    = some (s "application/json") := by decide
example : headerOnRequest false (s "text/plain") (s "ua") [] (s "Content-Type") = none := by decide
example : validateHttp ⟨true, false, false, true, false, 1, 0, 1, [], true⟩ = none := by decide
example : validateHttp ⟨true, false, false, false, false, 1, 0, 0, [1, 2], true⟩ = some .badGet := by decide
example : validateHttp ⟨true, false, false, true, false, 1, 0, 0, [1], true⟩ = some .ctNeedsPost := by decide
example : httpMode "round_robin" = 0 ∧ httpMode "round-robin" = 1 ∧ n2nMode "hostpol" = 0 := by decide
example : shouldPass ⟨s "f", s "1", true⟩ (some (.num true)) = (true, false) ∧
    shouldPass ⟨s "f", s "1", true⟩ none = (false, true) ∧ shouldPass ⟨s "f", [], false⟩ (some .other) = (true, false) := by decide
example : f64round 9007199254740993 = 9007199254740992 ∧ f64round 1234567890123456789 = 1234567890123456768 ∧
    f64round 42 = 42 := by decide
example : whitelist [s "a", s "b", s "a", s "c"] (fun k => if k = s "a" then some 1 else if k = s "c" then some 2 else none)
    = [(s "a", 1), (s "c", 2)] := by decide

end Nsq.Props.C20Opts
