import Nsq.Proofs.AdminGate
import Nsq.Proofs.AdminFanout
import Nsq.Tie.AdminGate
/-!
# C17 — nsqadmin state-changing actions require an admin identity

Property theorems only. They quantify over the route table and the handler skeletons that
`tools/go2lean` (kind `adminroutes`) regenerates from `nsqadmin/http.go` on every run
(`Nsq.Gen.AdminRoutes.adminRoutes / adminHandlers`), over every configuration, every request and
every behaviour of the upstreams (`Env`). The decidable judgements on the finite table
(`Nsq.Tie.AdminGate`) are lifted to all requests by the interpreter lemmas of
`Nsq.Proofs.AdminGate`.
-/
namespace Nsq.Props.C17
open Nsq.Model.AdminGate Nsq.Proofs.AdminGate Nsq.Proofs.AdminFanout Nsq.Tie.AdminGate
open Nsq.Gen.AdminRoutes

/-- **mutating_guarded.** Every POST / PUT / DELETE route below `/api` in the regenerated table
has a handler skeleton, and for every configuration, request and upstream behaviour: a request
without an admin identity is answered 403 and performs *nothing* — no upstream call, no
notification, not even a read of the request body. -/
theorem mutating_guarded (r : Route) (hr : r ∈ adminRoutes) (hm : r.mutating = true) :
    ∃ sk, skelOf r = some sk ∧
      ∀ env : Env, isAdmin env.conf env.req = false → run env sk = (403, []) := by
  have h := mutating_routes_guarded
  simp only [checkAll, List.all_eq_true, List.mem_filter] at h
  have h' := h r ⟨hr, hm⟩
  cases hs : skelOf r with
  | none => simp [hs] at h'
  | some sk =>
    simp only [hs] at h'
    exact ⟨sk, rfl, fun env hna => guarded_run env sk h' hna⟩

example : ∃ r ∈ adminRoutes, r.mutating = true ∧ r.method = "DELETE" := by decide

/-- Non-vacuity: a configuration with admins and a request of somebody else. -/
def sampleEnv (users : List String) (hdrs : List (String × String)) : Env :=
  { conf := { adminUsers := users, aclHeader := "X-Forwarded-User", cidrSet := true,
              lookupdMode := true, notifyOn := false },
    req := { method := "POST", headers := hdrs, action := "empty", opt := "",
             nonEmptyParams := ["topic", "channel"], nonEmptyBody := [] },
    inNet := false, bodyOk := true, upstreamErr := fun _ _ => .none,
    localErr := fun _ _ => false, otherCond := fun _ => false }

example : isAdmin (sampleEnv ["alice"] [("X-Forwarded-User", "mallory")]).conf
    (sampleEnv ["alice"] [("X-Forwarded-User", "mallory")]).req = false := by decide

/-- **isAdmin_exact.** The check is exact string equality between the first value of the
configured ACL header and one of the configured admin users; with no admin list everyone is an
admin. (`isAdmin` is the regenerated `isAuthorizedAdminRequest`: `Tie.isAuthorized_eq`.) -/
theorem isAdmin_exact (conf : Conf) (req : Req) :
    isAuthorizedAdminRequest conf req = true ↔
      conf.adminUsers = [] ∨ headerGet req.headers conf.aclHeader ∈ conf.adminUsers := by
  rw [isAuthorized_eq]; exact isAdmin_iff conf req

/-- No look-alike passes: an identity that is not literally in the (non-empty) admin list is
refused — whatever its case, surrounding whitespace, or prefix/suffix relation to an admin
name; an absent header reads as the empty string and is refused unless "" is listed. -/
theorem isAdmin_no_lookalike (conf : Conf) (req : Req) (hne : conf.adminUsers ≠ [])
    (hnot : headerGet req.headers conf.aclHeader ∉ conf.adminUsers) :
    isAuthorizedAdminRequest conf req = false := by
  cases h : isAuthorizedAdminRequest conf req with
  | false => rfl
  | true => rcases (isAdmin_exact conf req).1 h with h1 | h1 <;> contradiction

example : isAdmin { adminUsers := ["alice"], aclHeader := "x-forwarded-user", cidrSet := false,
                    lookupdMode := true, notifyOn := false }
    { method := "POST", headers := [("X-Forwarded-User", "alice")], action := "", opt := "",
      nonEmptyParams := [], nonEmptyBody := [] } = true := by decide
example : isAdmin { adminUsers := ["alice"], aclHeader := "X-Forwarded-User", cidrSet := false,
                    lookupdMode := true, notifyOn := false }
    { method := "POST", headers := [("X-Forwarded-User", "Alice")], action := "", opt := "",
      nonEmptyParams := [], nonEmptyBody := [] } = false := by decide
example : isAdmin { adminUsers := ["alice"], aclHeader := "X-Forwarded-User", cidrSet := false,
                    lookupdMode := true, notifyOn := false }
    { method := "POST", headers := [("X-Forwarded-User", "alice ")], action := "", opt := "",
      nonEmptyParams := [], nonEmptyBody := [] } = false := by decide

/-- **readonly_open.** No GET view below `/api` (and no page / static route) consults the admin
check for its answer: status and upstream calls are the same for every identity, admin list and
ACL header name. -/
theorem readonly_open (r : Route) (hr : r ∈ adminRoutes)
    (hv : Route.apiView r = true ∨ Route.page r = true) :
    ∃ sk, skelOf r = some sk ∧
      ∀ (env : Env) (users : List String) (hdr : String) (hs : List (String × String)),
        run (withIdentity env users hdr hs) sk = run env sk := by
  have hfree : ∃ sk, skelOf r = some sk ∧ authFree sk = true := by
    rcases hv with hv | hv
    · have h := api_views_authFree
      simp only [checkAll, List.all_eq_true, List.mem_filter] at h
      have h' := h r ⟨hr, hv⟩
      cases hs : skelOf r with
      | none => simp [hs] at h'
      | some sk => exact ⟨sk, rfl, by simpa [hs] using h'⟩
    · have h := pages_authFree
      simp only [checkAll, List.all_eq_true, List.mem_filter] at h
      have h' := h r ⟨hr, hv⟩
      cases hs : skelOf r with
      | none => simp [hs] at h'
      | some sk => exact ⟨sk, rfl, by simpa [hs] using h'⟩
  obtain ⟨sk, h1, h2⟩ := hfree
  exact ⟨sk, h1, fun env users hdr hs => by
    simpa [run] using authFree_runSt env users hdr hs sk {} h2⟩

example : (adminRoutes.filter Route.apiView).length = 7 := by decide

/-- **config_cidr.** With an allowed CIDR configured, `GET` and `PUT /config/:opt` from a
client address outside the network are refused with a 4xx and nothing happens: the body is not
read, the configuration is not written, no upstream is called. -/
theorem config_cidr (r : Route) (hr : r ∈ adminRoutes) (hc : r.isConfig = true) :
    ∃ sk, skelOf r = some sk ∧
      ∀ env : Env, env.conf.cidrSet = true → env.inNet = false →
        (400 ≤ (run env sk).1 ∧ (run env sk).1 < 500) ∧ (run env sk).2 = [] := by
  have h := config_routes_cidrGuarded
  simp only [checkAll, List.all_eq_true, List.mem_filter] at h
  have h' := h r ⟨hr, hc⟩
  cases hs : skelOf r with
  | none => simp [hs] at h'
  | some sk =>
    simp only [hs] at h'
    exact ⟨sk, rfl, fun env h1 h2 => cidrGuarded_run env sk h' h1 h2⟩

/-- … and the status is exactly 403 whenever the client address parses (`net.SplitHostPort`
and `net.ParseIP` succeed), for GET and PUT alike. -/
theorem config_cidr_403 (env : Env) (hset : env.conf.cidrSet = true) (hout : env.inNet = false)
    (hsplit : env.localErr "net.SplitHostPort" 0 = false) (hip : env.otherCond "ip == nil" = false) :
    run env adminSkel_doConfig = (403, []) := by
  simp [run, runSt, adminSkel_doConfig, evalCond, doEff, hset, hout, hsplit, hip]

example : (run (sampleEnv [] []) adminSkel_doConfig) = (403, []) := by decide

/-- Without a configured CIDR the gate is open (this is what the code does; the property only
speaks about a configured CIDR): a PUT of a known option is carried out. -/
example : (run { sampleEnv [] [] with
    conf := { adminUsers := [], aclHeader := "", cidrSet := false, lookupdMode := true, notifyOn := false },
    req := { method := "PUT", headers := [], action := "", opt := "log_level",
             nonEmptyParams := ["opt"], nonEmptyBody := [] } } adminSkel_doConfig)
    = (200, [.bodyRead, .configWrite]) := by decide

/-- **admin_fanout (handler level).** For every mutating route and every request that gets past
the gate to an answer 200 or 502, the handler performs exactly one `ClusterInfo` action — the
one the table `expectedAction` lists for (handler, body action, channel parameter); any other
answer (400/403) performs none. What that action sends to which nsqlookupd / nsqd is
`admin_fanout_requests` below. -/
theorem admin_fanout (r : Route) (hr : r ∈ adminRoutes) (hm : r.mutating = true) :
    ∃ sk, skelOf r = some sk ∧ ∀ env : Env,
      (((run env sk).1 = 200 ∨ (run env sk).1 = 502) →
        upstreamObs (run env sk).2 =
          [expectedAction r.handler env.req.action (env.req.nonEmptyParams.contains "channel")]) ∧
      (¬((run env sk).1 = 200 ∨ (run env sk).1 = 502) → upstreamObs (run env sk).2 = []) := by
  have h := mutating_routes_fanout
  simp only [List.all_eq_true, List.mem_filter] at h
  have h' := h r ⟨hr, hm⟩
  cases hs : skelOf r with
  | none => simp [hs] at h'
  | some sk =>
    simp only [hs] at h'
    exact ⟨sk, rfl, fun env => fanout_lift r.handler sk h' env⟩

/-- Non-vacuity: an admin emptying a channel reaches `EmptyChannel` and is answered 200. -/
example : run (sampleEnv ["alice"] [("X-Forwarded-User", "alice")]) adminSkel_channelActionHandler
    = (200, [.bodyRead, .upstream "EmptyChannel"]) := by decide
example : run (sampleEnv [] []) adminSkel_channelActionHandler
    = (200, [.bodyRead, .upstream "EmptyChannel"]) := by decide
example : run (sampleEnv ["alice"] []) adminSkel_channelActionHandler = (403, []) := by decide

/-- **admin_fanout (request level).** The `ClusterInfo` actions as sets of upstream requests
(model `Nsq.Model.AdminFanout`, tied to `internal/clusterinfo/data.go` by the correspondence
harness): every action POSTs its command to *every* producer of the topic that the responding
nsqlookupds (or, without lookupds, the configured nsqds) report, and the create / delete /
tombstone actions additionally to *every* configured nsqlookupd. -/
theorem admin_fanout_requests (w : Nsq.Model.AdminFanout.World) (act : Nsq.Model.AdminFanout.Action) :
    (∀ p ∈ Nsq.Model.AdminFanout.producersFor w act,
        Nsq.Model.AdminFanout.Req.post p (Nsq.Model.AdminFanout.nsqdCommand act) ∈
          Nsq.Model.AdminFanout.requests w act) ∧
    (∀ c ∈ Nsq.Model.AdminFanout.lookupdCommands w act, ∀ l ∈ w.lookupds,
        Nsq.Model.AdminFanout.Req.post l.addr c ∈ Nsq.Model.AdminFanout.requests w act) :=
  ⟨fun p hp => producers_posted w act p hp, fun c hc l hl => lookupds_posted w act c hc l hl⟩

end Nsq.Props.C17
