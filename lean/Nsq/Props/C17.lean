import Nsq.Proofs.AdminGate
import Nsq.Proofs.AdminFanout
import Nsq.Tie.AdminGate
import Nsq.Proofs.AdminProg
import Nsq.Tie.AdminProg
import Nsq.Tie.AdminNotify
import Nsq.Proofs.AdminReach
/-!
# C17 — nsqadmin state-changing actions require an admin identity

Property theorems only. They quantify over the route table and the handler skeletons that
`tools/go2lean` (kind `adminroutes`) regenerates from `nsqadmin/http.go` on every run
(`Nsq.Gen.AdminRoutes.adminRoutes / adminHandlers`), over every configuration, every request and
every behaviour of the upstreams (`Env`). The decidable judgements on the finite table
(`Nsq.Tie.AdminGate`) are lifted to all requests by the interpreter lemmas of
`Nsq.Proofs.AdminGate`.
-/
namespace Nsq.Props.C17
open Nsq.Model.AdminGate Nsq.Proofs.AdminGate Nsq.Proofs.AdminFanout Nsq.Tie.AdminGate
open Nsq.Gen.AdminRoutes Nsq.Proofs.AdminReach

/-- **mutating_guarded.** Every POST / PUT / DELETE route below `/api` in the regenerated table
has a handler skeleton, and for every configuration, request and upstream behaviour: a request
without an admin identity is answered 403 and performs *nothing* — no upstream call, no
notification, not even a read of the request body. -/
theorem mutating_guarded (r : Route) (hr : r ∈ adminRoutes) (hm : r.mutating = true) :
    ∃ sk, skelOf r = some sk ∧
      ∀ env : Env, isAdmin env.conf env.req = false → run env sk = (403, []) := by
  have h := mutating_routes_guarded
  simp only [checkAll, List.all_eq_true, List.mem_filter] at h
  have h' := h r ⟨hr, hm⟩
  cases hs : skelOf r with
  | none => simp [hs] at h'
  | some sk =>
    simp only [hs] at h'
    exact ⟨sk, rfl, fun env hna => guarded_run env sk h' hna⟩

example : ∃ r ∈ adminRoutes, r.mutating = true ∧ r.method = "DELETE" := by decide

/-- Non-vacuity: a configuration with admins and a request of somebody else. -/
def sampleEnv (users : List String) (hdrs : List (String × String)) : Env :=
  { conf := { adminUsers := users, aclHeader := "X-Forwarded-User", cidrSet := true,
              lookupdMode := true, notifyOn := false },
    req := { method := "POST", headers := hdrs, action := "empty", opt := "",
             nonEmptyParams := ["topic", "channel"], nonEmptyBody := [] },
    inNet := false, bodyOk := true, upstreamErr := fun _ _ => .none,
    localErr := fun _ _ => false, otherCond := fun _ => false }

example : isAdmin (sampleEnv ["alice"] [("X-Forwarded-User", "mallory")]).conf
    (sampleEnv ["alice"] [("X-Forwarded-User", "mallory")]).req = false := by decide

/-- **isAdmin_exact.** The check is exact string equality between the first value of the
configured ACL header and one of the configured admin users; with no admin list everyone is an
admin. (`isAdmin` is the regenerated `isAuthorizedAdminRequest`: `Tie.isAuthorized_eq`.) -/
theorem isAdmin_exact (conf : Conf) (req : Req) :
    isAuthorizedAdminRequest conf req = true ↔
      conf.adminUsers = [] ∨ headerGet req.headers conf.aclHeader ∈ conf.adminUsers := by
  rw [isAuthorized_eq]; exact isAdmin_iff conf req

/-- No look-alike passes: an identity that is not literally in the (non-empty) admin list is
refused — whatever its case, surrounding whitespace, or prefix/suffix relation to an admin
name; an absent header reads as the empty string and is refused unless "" is listed. -/
theorem isAdmin_no_lookalike (conf : Conf) (req : Req) (hne : conf.adminUsers ≠ [])
    (hnot : headerGet req.headers conf.aclHeader ∉ conf.adminUsers) :
    isAuthorizedAdminRequest conf req = false := by
  cases h : isAuthorizedAdminRequest conf req with
  | false => rfl
  | true => rcases (isAdmin_exact conf req).1 h with h1 | h1 <;> contradiction

example : isAdmin { adminUsers := ["alice"], aclHeader := "x-forwarded-user", cidrSet := false,
                    lookupdMode := true, notifyOn := false }
    { method := "POST", headers := [("X-Forwarded-User", "alice")], action := "", opt := "",
      nonEmptyParams := [], nonEmptyBody := [] } = true := by decide
example : isAdmin { adminUsers := ["alice"], aclHeader := "X-Forwarded-User", cidrSet := false,
                    lookupdMode := true, notifyOn := false }
    { method := "POST", headers := [("X-Forwarded-User", "Alice")], action := "", opt := "",
      nonEmptyParams := [], nonEmptyBody := [] } = false := by decide
example : isAdmin { adminUsers := ["alice"], aclHeader := "X-Forwarded-User", cidrSet := false,
                    lookupdMode := true, notifyOn := false }
    { method := "POST", headers := [("X-Forwarded-User", "alice ")], action := "", opt := "",
      nonEmptyParams := [], nonEmptyBody := [] } = false := by decide

/-- **readonly_open.** No GET view below `/api` (and no page / static route) consults the admin
check for its answer: status and upstream calls are the same for every identity, admin list and
ACL header name. -/
theorem readonly_open (r : Route) (hr : r ∈ adminRoutes)
    (hv : Route.apiView r = true ∨ Route.page r = true) :
    ∃ sk, skelOf r = some sk ∧
      ∀ (env : Env) (users : List String) (hdr : String) (hs : List (String × String)),
        run (withIdentity env users hdr hs) sk = run env sk := by
  have hfree : ∃ sk, skelOf r = some sk ∧ authFree sk = true := by
    rcases hv with hv | hv
    · have h := api_views_authFree
      simp only [checkAll, List.all_eq_true, List.mem_filter] at h
      have h' := h r ⟨hr, hv⟩
      cases hs : skelOf r with
      | none => simp [hs] at h'
      | some sk => exact ⟨sk, rfl, by simpa [hs] using h'⟩
    · have h := pages_authFree
      simp only [checkAll, List.all_eq_true, List.mem_filter] at h
      have h' := h r ⟨hr, hv⟩
      cases hs : skelOf r with
      | none => simp [hs] at h'
      | some sk => exact ⟨sk, rfl, by simpa [hs] using h'⟩
  obtain ⟨sk, h1, h2⟩ := hfree
  exact ⟨sk, h1, fun env users hdr hs => by
    simpa [run] using authFree_runSt env users hdr hs sk {} h2⟩

example : (adminRoutes.filter Route.apiView).length = 7 := by decide

/-- **config_cidr.** With an allowed CIDR configured, `GET` and `PUT /config/:opt` from a
client address outside the network are refused with a 4xx and nothing happens: the body is not
read, the configuration is not written, no upstream is called. -/
theorem config_cidr (r : Route) (hr : r ∈ adminRoutes) (hc : r.isConfig = true) :
    ∃ sk, skelOf r = some sk ∧
      ∀ env : Env, env.conf.cidrSet = true → env.inNet = false →
        (400 ≤ (run env sk).1 ∧ (run env sk).1 < 500) ∧ (run env sk).2 = [] := by
  have h := config_routes_cidrGuarded
  simp only [checkAll, List.all_eq_true, List.mem_filter] at h
  have h' := h r ⟨hr, hc⟩
  cases hs : skelOf r with
  | none => simp [hs] at h'
  | some sk =>
    simp only [hs] at h'
    exact ⟨sk, rfl, fun env h1 h2 => cidrGuarded_run env sk h' h1 h2⟩

/-- … and the status is exactly 403 whenever the client address parses (`net.SplitHostPort`
and `net.ParseIP` succeed), for GET and PUT alike. -/
theorem config_cidr_403 (env : Env) (hset : env.conf.cidrSet = true) (hout : env.inNet = false)
    (hsplit : env.localErr "net.SplitHostPort" 0 = false) (hip : env.otherCond "ip == nil" = false) :
    run env adminSkel_doConfig = (403, []) := by
  simp [run, runSt, adminSkel_doConfig, evalCond, doEff, hset, hout, hsplit, hip]

example : (run (sampleEnv [] []) adminSkel_doConfig) = (403, []) := by decide

/-- Without a configured CIDR the gate is open (this is what the code does; the property only
speaks about a configured CIDR): a PUT of a known option is carried out. -/
example : (run { sampleEnv [] [] with
    conf := { adminUsers := [], aclHeader := "", cidrSet := false, lookupdMode := true, notifyOn := false },
    req := { method := "PUT", headers := [], action := "", opt := "log_level",
             nonEmptyParams := ["opt"], nonEmptyBody := [] } } adminSkel_doConfig)
    = (200, [.bodyRead, .configWrite]) := by decide

/-- **admin_fanout (handler level).** For every mutating route and every request that gets past
the gate to an answer 200 or 502, the handler performs exactly one `ClusterInfo` action — the
one the table `expectedAction` lists for (handler, body action, channel parameter); any other
answer (400/403) performs none. What that action sends to which nsqlookupd / nsqd is
`admin_fanout_requests` below. -/
theorem admin_fanout (r : Route) (hr : r ∈ adminRoutes) (hm : r.mutating = true) :
    ∃ sk, skelOf r = some sk ∧ ∀ env : Env,
      (((run env sk).1 = 200 ∨ (run env sk).1 = 502) →
        upstreamObs (run env sk).2 =
          [expectedAction r.handler env.req.action (env.req.nonEmptyParams.contains "channel")]) ∧
      (¬((run env sk).1 = 200 ∨ (run env sk).1 = 502) → upstreamObs (run env sk).2 = []) := by
  have h := mutating_routes_fanout
  simp only [List.all_eq_true, List.mem_filter] at h
  have h' := h r ⟨hr, hm⟩
  cases hs : skelOf r with
  | none => simp [hs] at h'
  | some sk =>
    simp only [hs] at h'
    exact ⟨sk, rfl, fun env => fanout_lift r.handler sk h' env⟩

/-- Non-vacuity: an admin emptying a channel reaches `EmptyChannel` and is answered 200. -/
example : run (sampleEnv ["alice"] [("X-Forwarded-User", "alice")]) adminSkel_channelActionHandler
    = (200, [.bodyRead, .upstream "EmptyChannel"]) := by decide
example : run (sampleEnv [] []) adminSkel_channelActionHandler
    = (200, [.bodyRead, .upstream "EmptyChannel"]) := by decide
example : run (sampleEnv ["alice"] []) adminSkel_channelActionHandler = (403, []) := by decide


/-! ## "State-changing" by effect, and the action reached (audit round 7: C18, C19) -/

/-- **state_change_requires_admin.** State-changing is defined by what a handler *does*, not by the method
it is registered under: for every route of the regenerated table — GET routes included — and every
environment, a run that shows a write to the outside (an upstream call that can send a non-GET request
according to the regenerated classification `upstreamWrites`, a notification, a configuration write) belongs
to a `/config` route (CIDR gate: `config_cidr`), to the graphite proxy, or was made with an admin identity. -/
theorem state_change_requires_admin (r : Route) (hr : r ∈ adminRoutes) (sk : Skel) (hsk : skelOf r = some sk)
    (env : Env) (hw : writeObs upstreamWrites (run env sk).2 = true) :
    r.isConfig = true ∨ r.isProxy = true ∨ isAdmin env.conf env.req = true := by
  by_cases hcw : canWrite upstreamWrites sk = true
  · have h := writers_are_mutating_or_config
    simp only [List.all_eq_true, List.mem_filter] at h
    have h' := h r ⟨hr, by simp [skelWrites, hsk, hcw]⟩
    simp only [Bool.or_eq_true] at h'
    rcases h' with (hm | hc) | hp
    · right; right
      obtain ⟨sk', hsk', hg⟩ := mutating_guarded r hr hm
      rw [hsk] at hsk'
      cases hsk'
      cases hadm : isAdmin env.conf env.req with
      | true => rfl
      | false => rw [hg env hadm] at hw; simp [writeObs] at hw
    · exact Or.inl hc
    · exact Or.inr (Or.inl hp)
  · simp only [Bool.not_eq_true] at hcw
    rw [noWrite_run upstreamWrites env sk hcw] at hw
    cases hw

/-- Non-vacuity: deleting a topic as an admin is such a write; the same request from somebody else shows
nothing. -/
example : writeObs upstreamWrites
    (run (sampleEnv ["alice"] [("X-Forwarded-User", "alice")]) adminSkel_deleteTopicHandler).2 = true := by decide
example : writeObs upstreamWrites
    (run (sampleEnv ["alice"] [("X-Forwarded-User", "mallory")]) adminSkel_deleteTopicHandler).2 = false := by decide

/-- **views_only_read.** Every GET route outside `/config` (API views, pages, static files) performs no write
in any environment: no upstream call other than GETs, no notification, no configuration write. -/
theorem views_only_read (r : Route) (hr : r ∈ adminRoutes) (hg : r.plainGet = true) :
    ∃ sk, skelOf r = some sk ∧ ∀ env : Env, writeObs upstreamWrites (run env sk).2 = false := by
  have h := get_routes_readonly
  simp only [checkAll, List.all_eq_true, List.mem_filter] at h
  have h' := h r ⟨hr, hg⟩
  cases hs : skelOf r with
  | none => simp [hs] at h'
  | some sk =>
    simp only [hs, Bool.not_eq_true'] at h'
    exact ⟨sk, rfl, fun env => noWrite_run upstreamWrites env sk h'⟩

example : (adminRoutes.filter Route.plainGet).length = 18 := by decide
example : upstreamObs (run (sampleEnv [] []) adminSkel_topicHandler).2 = ["GetTopicProducers", "GetNSQDStats"] := by decide

/-- **admin_carried_out.** "With an admin identity, or with no admin list, the action is carried out": for
every mutating route and every environment in which the request carries an admin identity and is well
formed — its body decodes, the names it gives pass `IsValidTopicName` / `IsValidChannelName` (the tests listed
by `validOf`), and for the pause / unpause / empty routes the body names one of these three — the handler
answers 200 or 502 *and* has performed exactly the `ClusterInfo` action of the table. There is no other way
out behind the admin check. What that action sends where: `fanout_exactly_once`, `fanout_producers`. -/
theorem admin_carried_out (r : Route) (hr : r ∈ adminRoutes) (hm : r.mutating = true) :
    ∃ sk, skelOf r = some sk ∧ ∀ env : Env,
      WellFormed env (validOf r.handler).others →
      (∀ as, (validOf r.handler).actions = some as → env.req.action ∈ as) →
      ((run env sk).1 = 200 ∨ (run env sk).1 = 502) ∧
      upstreamObs (run env sk).2 =
        [expectedAction r.handler env.req.action (env.req.nonEmptyParams.contains "channel")] := by
  have h := mutating_routes_reach
  simp only [List.all_eq_true, List.mem_filter] at h
  have h' := h r ⟨hr, hm⟩
  obtain ⟨sk0, hsk0, hfan⟩ := admin_fanout r hr hm
  cases hs : skelOf r with
  | none => simp [hs] at h'
  | some sk =>
    simp only [hs] at h'
    rw [hs] at hsk0
    have hsame : sk = sk0 := Option.some.inj hsk0
    subst hsame
    refine ⟨sk, rfl, fun env wf hact => ?_⟩
    have hst := adminReaches_run env r.handler sk h' wf hact
    exact ⟨hst, (hfan env).1 hst⟩

/-- Non-vacuity, one 200-path per mutating handler: a well-formed request of an admin is answered 200 and
the one expected action is among the effects. -/
def okEnv (action : String) (params body : List String) : Env :=
  { conf := { adminUsers := ["alice"], aclHeader := "X-Forwarded-User", cidrSet := false,
              lookupdMode := true, notifyOn := false },
    req := { method := "POST", headers := [("X-Forwarded-User", "alice")], action := action, opt := "",
             nonEmptyParams := params, nonEmptyBody := body },
    inNet := true, bodyOk := true, upstreamErr := fun _ _ => .none,
    localErr := fun _ _ => false, otherCond := fun _ => false }

example : WellFormed (okEnv "" [] ["Topic"]) (validOf "createTopicChannelHandler").others :=
  ⟨by decide, rfl, fun _ _ => rfl⟩
example : run (okEnv "" [] ["Topic", "Channel"]) adminSkel_createTopicChannelHandler
    = (200, [.bodyRead, .upstream "CreateTopicChannel"]) := by decide
example : run (okEnv "pause" ["topic"] []) adminSkel_topicActionHandler
    = (200, [.bodyRead, .upstream "PauseTopic"]) := by decide
example : run (okEnv "unpause" ["topic", "channel"] []) adminSkel_channelActionHandler
    = (200, [.bodyRead, .upstream "UnPauseChannel"]) := by decide
example : run (okEnv "" ["node"] ["Topic"]) adminSkel_tombstoneNodeForTopicHandler
    = (200, [.bodyRead, .upstream "TombstoneNodeForTopic"]) := by decide
example : run (okEnv "" ["topic"] []) adminSkel_deleteTopicHandler
    = (200, [.upstream "DeleteTopic"]) := by decide
example : run (okEnv "" ["topic", "channel"] []) adminSkel_deleteChannelHandler
    = (200, [.upstream "DeleteChannel"]) := by decide
/-- … and what the well-formedness hypothesis excludes is refused *before* anything is sent. -/
example : run { okEnv "delete" ["topic"] [] with bodyOk := true } adminSkel_topicActionHandler = (400, [.bodyRead]) := by decide
example : run { okEnv "" [] ["Topic"] with otherCond := fun s => s == "!protocol.IsValidTopicName(body.Topic)" }
    adminSkel_createTopicChannelHandler = (400, [.bodyRead]) := by decide

/-- **admin_fanout (request level) — a membership lemma of the older model, not a tie.** In the hand-written
model `Nsq.Model.AdminFanout` the list `requests w act` is *defined* as lookupd posts ++ lookup GETs ++ producer
posts; this theorem only unfolds that definition (`List.mem_map`). It says something about the code only
through the `gate` correspondence stream, which compares `requests` with what the stubs recorded. The
statements that carry weight are `fanout_exactly_once` / `fanout_producers` below, about the *translated*
programs (`Tie.AdminProg`). Kept because the driver's `gate` op still uses `requests`. -/
theorem admin_fanout_requests (w : Nsq.Model.AdminFanout.World) (act : Nsq.Model.AdminFanout.Action) :
    (∀ p ∈ Nsq.Model.AdminFanout.producersFor w act,
        Nsq.Model.AdminFanout.Req.post p (Nsq.Model.AdminFanout.nsqdCommand act) ∈
          Nsq.Model.AdminFanout.requests w act) ∧
    (∀ c ∈ Nsq.Model.AdminFanout.lookupdCommands w act, ∀ l ∈ w.lookupds,
        Nsq.Model.AdminFanout.Req.post l.addr c ∈ Nsq.Model.AdminFanout.requests w act) :=
  ⟨fun p hp => producers_posted w act p hp, fun c hc l hl => lookupds_posted w act c hc l hl⟩

/-! ## The `ClusterInfo` actions as programs (model `Nsq.Model.AdminProg`, translated from data.go:
`Nsq.Tie.AdminProg` proves regenerated program = `progOf kind` for all ten methods) -/

section Programs
open Nsq.Model.AdminFanout Nsq.Model.AdminProg Nsq.Proofs.AdminProg

/-- **fanout_errors_never_dropped.** For *every* program whose steps all use the aggregate policy and that
ends in `return ErrList(errs)`: unless a non-partial error is returned, the returned list holds exactly one
error per failed request of the run; so a `nil` result means every request that was sent succeeded.
Every translated method has this form (`progs_aggregate`). -/
theorem fanout_errors_never_dropped (w : World) (a : Action) (p : Prog) (hp : allAggregate p = true) :
    ((run w a p).aborted = false → (run w a p).errs = failCount w (run w a p).reqs) ∧
    ((resultOf p (run w a p)).1 = .none → ∀ r ∈ (run w a p).reqs, fails w r = false) ∧
    ((resultOf p (run w a p)).1 = .partialErr →
        (resultOf p (run w a p)).2 = failCount w (run w a p).reqs ∧ 0 < failCount w (run w a p).reqs) := by
  have hacc := run_accounted w a p hp
  have hend : p.ending = .errList := by
    simp only [allAggregate, Bool.and_eq_true, beq_iff_eq] at hp; exact hp.2
  refine ⟨hacc, ?_, ?_⟩
  · intro hres
    unfold resultOf at hres
    by_cases hab : (run w a p).aborted = true
    · simp [hab] at hres
    · simp only [Bool.not_eq_true] at hab
      by_cases he : (run w a p).errs > 0
      · simp [hab, hend, he] at hres
      · have h0 : (run w a p).errs = 0 := by omega
        exact failCount_zero w _ (by rw [← hacc hab]; exact h0)
  · intro hres
    unfold resultOf at hres ⊢
    by_cases hab : (run w a p).aborted = true
    · simp [hab] at hres
    · simp only [Bool.not_eq_true] at hab
      by_cases he : (run w a p).errs > 0
      · simp only [hab, hend, he, Bool.false_eq_true, ↓reduceIte, beq_self_eq_true, decide_true, Bool.and_self]
        rw [← hacc hab]; exact ⟨rfl, he⟩
      · simp [hab, hend, he] at hres

theorem progs_aggregate (k : Kind) : allAggregate (progOf k) = true := by cases k <;> decide

/-- Non-vacuity, and what the clause excludes: the same delete with the error of the nsqlookupd step
*ignored* answers `nil` although nsqlookupd L0 refused the command; the real program reports one error. -/
def sampleWorld : World :=
  { lookupds := [{ addr := "L0", up := true, producers := ["N0"], postUp := false },
                 { addr := "L1", up := true, producers := ["N0", "N1"] }],
    nsqdAddrs := [],
    nsqds := [{ addr := "N0", up := true, hasTopic := true }, { addr := "N1", up := true, hasTopic := true }] }

def sampleDelete : Action := { kind := .deleteTopic, topic := "t" }

example : resultOf (progOf .deleteTopic) (runAction sampleWorld sampleDelete) = (.partialErr, 1) := by decide
example : (runAction sampleWorld sampleDelete).reqs.map renderReq =
    ["G:L0/lookup?topic=t", "G:L1/lookup?topic=t", "P:L0/topic/delete?topic=t", "P:L1/topic/delete?topic=t",
     "P:N0/topic/delete?topic=t", "P:N1/topic/delete?topic=t"] := by decide

theorem fanout_error_dropped_without_aggregate :
    ∃ (w : World) (a : Action) (p : Prog),
      (resultOf p (run w a p)).1 = .none ∧ ∃ r ∈ (run w a p).reqs, fails w r = true :=
  ⟨sampleWorld, sampleDelete,
    ⟨[agg (.lookup .topicProducers), ⟨.always, .lookupdPost "topic/delete" .topic, .ignore⟩,
      agg (.producersPost "topic/delete" .topic)], .errList⟩,
    by decide, ⟨true, .lookupd, "L0", "/topic/delete", "topic=t"⟩, by decide, by decide⟩

/-- **fanout_exactly_once.** An action that is carried out (no non-partial error): for each command the
action has for the nsqlookupds, the addresses that receive it are exactly the configured nsqlookupds (in
order, as often as configured); the addresses that receive the nsqd command are exactly the producers found
by the lookup. With pairwise distinct nsqlookupd addresses every nsqlookupd is POSTed each command exactly
once, and every producer found through nsqlookupd (one entry per address reported by a responding
nsqlookupd: `fanout_producers`) exactly once. -/
theorem fanout_exactly_once (w : World) (a : Action) (hwf : Action.wf a)
    (hab : (runAction w a).aborted = false) :
    (∀ c ∈ lookupdCmds a,
        postsTo (runAction w a) .lookupd (pathOf c.1) (qsOf a c.2) = w.lookupds.map (·.addr)) ∧
    (∀ c, nsqdCmd a.kind = some c →
        postsTo (runAction w a) .nsqd (pathOf c.1) (qsOf a c.2) = (runAction w a).producers) ∧
    ((w.lookupds.map (·.addr)).Nodup → ∀ c ∈ lookupdCmds a, ∀ l ∈ w.lookupds,
        (postsTo (runAction w a) .lookupd (pathOf c.1) (qsOf a c.2)).count l.addr = 1) ∧
    ((runAction w a).producers.Nodup → ∀ c, nsqdCmd a.kind = some c → ∀ p ∈ (runAction w a).producers,
        (postsTo (runAction w a) .nsqd (pathOf c.1) (qsOf a c.2)).count p = 1) := by
  refine ⟨lookupds_exactly_once w a hwf hab, fun c hc => nsqds_exactly_once w a hwf hab c hc, ?_, ?_⟩
  · intro hnd c hc l hl
    rw [lookupds_exactly_once w a hwf hab c hc]
    exact count_one_of_nodup _ _ hnd (List.mem_map.2 ⟨l, hl, rfl⟩)
  · intro hnd c hc p hp
    rw [nsqds_exactly_once w a hwf hab c hc]
    exact count_one_of_nodup _ _ hnd hp

example : Action.wf sampleDelete := by simp [Action.wf, sampleDelete]
example : (runAction sampleWorld sampleDelete).aborted = false ∧
    lookupdCmds sampleDelete = [("topic/delete", .topic)] ∧
    (runAction sampleWorld sampleDelete).producers = ["N0", "N1"] := by decide

/-- **fanout_producers.** Who the relevant nsqds are: the producer list after a successful lookup is the
lookup's answer; through nsqlookupd it has no duplicates and contains exactly the addresses that some
responding nsqlookupd reports; in direct mode it has one entry per configured nsqd that answers and lists the
topic — **the address that nsqd's `/info` reports** (`reportOf`), not the configured one, and not
de-duplicated; for a tombstone it is the address the named node reports. `GetTopicProducers` asks the
nsqlookupds iff one is configured (`Tie.getTopicProducers_fallback`). The last three conjuncts restate the
definitions of the model (they are what the `fan` correspondence stream checks against the code). -/
theorem fanout_producers (w : World) (a : Action) (hwf : Action.wf a)
    (hab : (runAction w a).aborted = false) (l : Lookup) (hl : lookupOf a.kind = some l) :
    (runAction w a).producers = (doLookup w a l).producers ∧
    ((lookupdTopicProducers w a).producers.Nodup ∧
      ∀ p, p ∈ (lookupdTopicProducers w a).producers ↔
        ∃ lk ∈ w.lookupds, getOk w lk.addr = true ∧ p ∈ lk.producers) ∧
    (nsqdTopicProducers w a).producers = (w.nsqdAddrs.filter (nodeHasTopic w)).map (reportOf w) ∧
    (nsqdProducersOfNode w a).producers = (if nodeUp w a.node then [reportOf w a.node] else []) ∧
    doLookup w a .topicProducers =
      (if !w.lookupds.isEmpty then lookupdTopicProducers w a else nsqdTopicProducers w a) :=
  ⟨(producers_of_run w a hwf hab l hl).1, lookupd_producers w a, rfl, rfl, rfl⟩

example : lookupOf sampleDelete.kind = some .topicProducers := by decide

/-- **fanout_lookup_first.** Delete / pause / unpause / empty ask for the producers *before* they change
anything ("for topic removal, you need to get all the producers first"): every GET of the run precedes every
POST; and when that lookup fails as a whole, no POST is sent at all. -/
theorem fanout_lookup_first (w : World) (a : Action)
    (hk : a.kind ≠ .createTopic ∧ a.kind ≠ .createChannel ∧ a.kind ≠ .tombstone) :
    getsFirst (runAction w a).reqs ∧
    ((runAction w a).aborted = true → ∀ r ∈ (runAction w a).reqs, r.post = false) :=
  ⟨lookup_before_posts w a hk, aborted_no_post w a hk⟩

example : sampleDelete.kind ≠ .createTopic ∧ sampleDelete.kind ≠ .createChannel ∧
    sampleDelete.kind ≠ .tombstone := by decide

/-- **fanout_goes_where_info_points** (audit C16). In direct-nsqd mode and for a tombstone the nsqd command is
not sent to the address nsqadmin was configured with / was asked about, but to the address that nsqd's own
`/info` answer reports, and two nsqds that report the same address get it twice there. So
`DELETE /api/nodes/A`, when A's `/info` claims B's address, deletes the topic on **B**. This is what the
code does (`Producer.HTTPAddress()`); the theorem states it, the examples show it. -/
theorem fanout_goes_where_info_points (w : World) (a : Action) (hwf : Action.wf a)
    (hab : (runAction w a).aborted = false) :
    (a.kind = .tombstone →
      postsTo (runAction w a) .nsqd "/topic/delete" (qsOf a .topic) =
        (if nodeUp w a.node then [reportOf w a.node] else [])) ∧
    (w.lookupds = [] → ∀ c, nsqdCmd a.kind = some c → lookupOf a.kind = some .topicProducers →
      postsTo (runAction w a) .nsqd (pathOf c.1) (qsOf a c.2) =
        (w.nsqdAddrs.filter (nodeHasTopic w)).map (reportOf w)) := by
  constructor
  · intro hk
    have h1 := nsqds_exactly_once w a hwf hab ("topic/delete", .topic) (by simp [nsqdCmd, hk])
    have h2 := (producers_of_run w a hwf hab .nsqdProducersOfNode (by simp [lookupOf, hk])).1
    simpa [pathOf, h2, doLookup, node_producers] using h1
  · intro hl c hc hlk
    have h1 := nsqds_exactly_once w a hwf hab c hc
    have h2 := (producers_of_run w a hwf hab .topicProducers hlk).1
    rw [h1, h2]
    simp [doLookup, hl, nsqd_producers]

/-- A's `/info` claims B's address: the tombstone of A deletes the topic on B, and A is only asked. -/
def liarWorld : World :=
  { lookupds := [{ addr := "L", up := true, producers := [] }], nsqdAddrs := [],
    nsqds := [{ addr := "A", up := true, hasTopic := true, reports := "B" },
              { addr := "B", up := true, hasTopic := true }] }

example : (runAction liarWorld { kind := .tombstone, topic := "t1", node := "A" }).reqs.map renderReq =
    ["P:L/topic/tombstone?topic=t1&node=A", "G:A/info", "G:A/stats?format=json&include_clients=false",
     "P:B/topic/delete?topic=t1"] := by decide
/-- Direct mode, two configured nsqds reporting one address: that address is POSTed twice. -/
def twinWorld : World :=
  { lookupds := [], nsqdAddrs := ["A", "B"],
    nsqds := [{ addr := "A", up := true, hasTopic := true, reports := "B" },
              { addr := "B", up := true, hasTopic := true }] }

example : ((runAction twinWorld { kind := .emptyTopic, topic := "t" }).reqs.filter (·.post)).map renderReq =
    ["P:B/topic/empty?topic=t", "P:B/topic/empty?topic=t"] := by decide

/-- **create_direct_mode_sends_nothing** (audit C15; open finding `fanout:create-direct-mode`). Without a
configured nsqlookupd `CreateTopicChannel` — which is only ever given the nsqlookupd addresses — sends no
request at all; for a topic alone it returns nil: the handler answers 200 and announces `create_topic`, and
no nsqd has been told (with a channel it returns "failed to query any nsqlookupd" over zero nsqlookupds: 502). `fanout_exactly_once` holds for this action only because its set of relevant upstreams is empty. -/
theorem create_direct_mode_sends_nothing (w : World) (a : Action) (hl : w.lookupds = [])
    (hk : a.kind = .createTopic ∨ a.kind = .createChannel) :
    (runAction w a).reqs = [] ∧
    (a.channel = "" → (resultOf (progOf a.kind) (runAction w a)).1 = .none) ∧
    (a.channel ≠ "" → (resultOf (progOf a.kind) (runAction w a)).1 = .full) := by
  have hp : progOf a.kind = createProg := by rcases hk with hk | hk <;> simp [progOf, hk]
  unfold runAction
  rw [hp]
  by_cases hc : a.channel = "" <;>
    simp [Nsq.Model.AdminProg.run, runSteps, execStep, createProg, agg, aggCh, opReqs, doLookup,
      lookupdTopicProducers, hl, hc, failCount, St.reqs, resultOf, guardHolds]

def soloWorld : World :=
  { lookupds := [], nsqdAddrs := ["A"], nsqds := [{ addr := "A", up := true, hasTopic := false }] }

example : (runAction soloWorld { kind := .createTopic, topic := "brandnew" }).reqs = [] := by decide
/-- The full clause "the action is carried out on every relevant nsqd" is therefore false of the code in this
mode: an nsqd is configured, the answer is `nil` (→ 200), and it received nothing. -/
def CreateReachesConfiguredNsqds : Prop :=
  ∀ (w : World) (a : Action), a.kind = .createTopic → (resultOf (progOf a.kind) (runAction w a)).1 = .none →
    ∀ n ∈ w.nsqdAddrs, ∃ r ∈ (runAction w a).reqs, r.post = true ∧ r.addr = n

theorem create_reaches_configured_nsqds_false : ¬ CreateReachesConfiguredNsqds := by
  intro h
  obtain ⟨r, hr, _⟩ := h soloWorld { kind := .createTopic, topic := "brandnew" } rfl (by decide) "A" (by simp [soloWorld])
  have hnil : (runAction soloWorld { kind := .createTopic, topic := "brandnew" }).reqs = [] := by decide
  rw [hnil] at hr
  cases hr

end Programs

/-! ## Notifications (`notifyAdminAction`) -/

section Notify
open Nsq.Proofs.AdminNotify Nsq.Tie.AdminNotify

/-- **notify_exact.** For every mutating route, every request and every upstream behaviour:
(i) without an admin identity, or without a configured `--notification-http-endpoint`, nothing is notified;
(ii) with an endpoint, the notifications of a run are exactly those of the `ClusterInfo` actions it performed
— one per action, named after it (`create_topic` plus `create_channel` when the body names a channel) — when
the handler announces (answer 200; pause / unpause / empty also on 502, they notify before looking at the
error), and none otherwise (400 / 403 / 502 of create, delete, tombstone). With `admin_fanout` (exactly one
action on 200/502, none otherwise): exactly one notification per performed action, never one without. -/
theorem notify_exact (r : Route) (hr : r ∈ adminRoutes) (hm : r.mutating = true) :
    ∃ sk, skelOf r = some sk ∧ ∀ env : Env,
      (isAdmin env.conf env.req = false → notifyObs (run env sk).2 = []) ∧
      (env.conf.notifyOn = false → notifyObs (run env sk).2 = []) ∧
      (env.conf.notifyOn = true →
        notifyObs (run env sk).2 =
          notesFor r.handler (upstreamObs (run env sk).2) (env.req.nonEmptyBody.contains "Channel")
            (run env sk).1) := by
  have h := mutating_routes_notify
  simp only [List.all_eq_true, List.mem_filter] at h
  have h' := h r ⟨hr, hm⟩
  obtain ⟨sk0, hsk0, hguard⟩ := mutating_guarded r hr hm
  cases hs : skelOf r with
  | none => simp [hs] at h'
  | some sk =>
    simp only [hs, Bool.and_eq_true] at h'
    rw [hs] at hsk0
    have hsame : sk = sk0 := Option.some.inj hsk0
    subst hsame
    refine ⟨sk, rfl, fun env => ⟨?_, ?_, ?_⟩⟩
    · intro hna; rw [hguard env hna]; rfl
    · intro hoff
      have := notifyGated_runSt env hoff sk {} h'.2
      simpa [run, notifyObs] using this
    · intro hon; exact notify_lift r.handler sk h'.1 env hon

/-- Routes that do not change state never notify (all paths of their regenerated skeletons). -/
theorem notify_only_mutating (r : Route) (hr : r ∈ adminRoutes) (hm : r.mutating = false) :
    ∃ sk, skelOf r = some sk ∧ ∀ p ∈ paths sk, notesOf p.2.1 = [] := by
  have h := other_routes_silent
  simp only [List.all_eq_true, List.mem_filter] at h
  have h' := h r ⟨hr, by simp [hm]⟩
  cases hs : skelOf r with
  | none => simp [hs] at h'
  | some sk =>
    simp only [hs, List.all_eq_true, beq_iff_eq] at h'
    exact ⟨sk, rfl, h'⟩

/-- Non-vacuity: an admin pausing a channel with an endpoint configured notifies `pause_channel` once; the
same request from somebody else notifies nothing; creating topic + channel notifies both. -/
def notifyEnv (users : List String) (hdrs : List (String × String)) (action : String) (body : List String) : Env :=
  { sampleEnv users hdrs with
    conf := { adminUsers := users, aclHeader := "X-Forwarded-User", cidrSet := false, lookupdMode := true, notifyOn := true },
    req := { method := "POST", headers := hdrs, action := action, opt := "",
             nonEmptyParams := ["topic", "channel"], nonEmptyBody := body } }

example : run (notifyEnv ["alice"] [("X-Forwarded-User", "alice")] "pause" []) adminSkel_channelActionHandler
    = (200, [.bodyRead, .upstream "PauseChannel", .notify "pause_channel"]) := by decide
example : run (notifyEnv ["alice"] [("X-Forwarded-User", "bob")] "pause" []) adminSkel_channelActionHandler
    = (403, []) := by decide
example : notifyObs (run (notifyEnv [] [] "" ["Topic", "Channel"]) adminSkel_createTopicChannelHandler).2
    = ["create_topic", "create_channel"] := by decide
example : notesFor "createTopicChannelHandler" ["CreateTopicChannel"] true 200 = ["create_topic", "create_channel"] ∧
    notesFor "deleteTopicHandler" ["DeleteTopic"] false 502 = [] ∧
    notesFor "topicActionHandler" ["EmptyTopic"] false 502 = ["empty_topic"] := by decide

end Notify

end Nsq.Props.C17
