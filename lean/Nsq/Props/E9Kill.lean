import Nsq.Props.E9DiskQueue
import Nsq.Proofs.DiskQueueKill
/-
Engine E9, second pass — the general hard-kill statement for go-diskqueue v1.1.0.

A process kill leaves only the files (`crash s = s.fs`); the new process reads the metadata file
(`openQ` = `New`).  The metadata file is written by `sync` only: every `syncEvery` operations, at a roll of
the write file, after the reader moved to another file or skipped a bad one, on the sync ticker, at
`Close`; `Empty` REMOVES it.  Between two syncs the file lags behind the live state by
  `dup` = the records handed to the consumer since it was written, and
  `new` = the records appended since it was written
(`Proofs.DiskQueue.Lag`, an invariant of every clean history: `reachable_lag`).  The true statement:

  * a metadata file exists  ⇒  after the kill the queue is exactly `dup ++ q` (`q` = the queue at the kill):
    the records received since the last metadata write are delivered AGAIN, in order, first; NOTHING is lost —
    the records put since then are salvaged from the data file, the writer skips to a fresh file; only
    `Depth()` is wrong (too small by `|new|`) until the reader reaches the tail; every later operation
    behaves like a healthy FIFO (`QD`, the depth-free invariant);
  * no metadata file (fresh queue before its first sync, or after `Empty` before the next sync)  ⇒  the new
    process starts at file 0 / position 0 / depth 0: EVERY queued record is lost.
  * the first clause is about ONE kill after a clean history: a SECOND kill before the next sync loses the
    records put in between (`second_kill_before_sync_loses`: the writer skips to the same "fresh" file again).

Kill points are the rest points of `ioLoop` (parked in `select`); a kill inside one loop pass is not modelled.
-/
namespace Nsq.Props.E9Kill
open Nsq.Model.Wire Nsq.Model.DiskQueue Nsq.Proofs.DiskQueue Nsq.Props.E9DiskQueue

/-- 1. THE GENERAL HARD-KILL THEOREM (state level).  `s` at rest holds `q`; its metadata file `m` lags by
`dup` / `new`.  Kill, then `New` with any configuration that keeps the record-size bounds: the new queue
holds exactly `dup ++ q` (depth-free sense: every future operation behaves like a healthy FIFO with that
content), `retrieveMetaData` restores the stale `depth = m.depth`, which is short by `|new|`. -/
theorem kill_general (s : St) (q dup new : List Bytes) (m : Meta) (h : QL s q dup new) (hmd : s.fs.md = some m)
    (cfg' : Cfg) (hok : CfgOk cfg') (hmin : cfg'.minMsgSize = s.cfg.minMsgSize) (hmax : cfg'.maxMsgSize = s.cfg.maxMsgSize) :
    QD (openQ cfg' (crash s)) (dup ++ q) ∧ (retrieve cfg' (crash s)).depth = m.depth ∧
      m.depth + (new.length : Int) = ((dup ++ q).length : Int) :=
  crash_QD h hmd cfg' hok hmin hmax

/-- 2. without a metadata file EVERYTHING is lost, whatever the data files hold: the new process offers
nothing and reports depth 0 (and will overwrite file 0 from position 0) -/
theorem kill_without_metadata_loses_all (s : St) (hmd : s.fs.md = none) (cfg' : Cfg) (hok : CfgOk cfg') :
    openQ cfg' (crash s) = { cfg := cfg', fs := s.fs } ∧ (recv (openQ cfg' (crash s))).1 = none ∧
      (openQ cfg' (crash s)).depth = 0 := by
  have e := crash_nomd s.fs hmd cfg' hok
  unfold crash
  rw [e]
  exact ⟨rfl, rfl, rfl⟩

/-! ### every history -/

/-- ghost: the records handed to the consumer so far, oldest first -/
def delivered (cfg : Cfg) : List Op → List Bytes → List Bytes
  | [], _ => []
  | .recv :: ops, q => (match q with | [] => [] | d :: _ => [d]) ++ delivered cfg ops (specOp cfg q .recv)
  | o :: ops, q => delivered cfg ops (specOp cfg q o)

/-- ghost: the records `Put` accepted so far, oldest first -/
def accepted (cfg : Cfg) : List Op → List Bytes
  | [] => []
  | .put d :: ops => (if cfg.minMsgSize ≤ d.length ∧ d.length ≤ cfg.maxMsgSize then [d] else []) ++ accepted cfg ops
  | _ :: ops => accepted cfg ops

/-- 3. the lag invariant holds after ANY list of puts (valid or not), receives, empties and close/re-open
cycles from a fresh data path; `dup` is a suffix of what was delivered, `new` a suffix of what was accepted -/
theorem reachable_lag (cfg : Cfg) (hok : CfgOk cfg) (ops : List Op) :
    ∃ dup new, QL (ops.foldl (stepOp cfg) (openQ cfg FS.empty)) (ops.foldl (specOp cfg) []) dup new ∧
      dup <:+ delivered cfg ops [] ∧ new <:+ accepted cfg ops ∧
      (ops.foldl (stepOp cfg) (openQ cfg FS.empty)).cfg = cfg := by
  have gen : ∀ (ops : List Op) (s : St) (q dup new del acc : List Bytes), QL s q dup new → s.cfg = cfg →
      dup <:+ del → new <:+ acc →
      ∃ dup' new', QL (ops.foldl (stepOp cfg) s) (ops.foldl (specOp cfg) q) dup' new' ∧
        dup' <:+ del ++ delivered cfg ops q ∧ new' <:+ acc ++ accepted cfg ops ∧ (ops.foldl (stepOp cfg) s).cfg = cfg := by
    intro ops
    induction ops with
    | nil =>
      intro s q dup new del acc h hc h1 h2
      exact ⟨dup, new, h, by simpa [delivered] using h1, by simpa [accepted] using h2, hc⟩
    | cons o ops ih =>
      intro s q dup new del acc h hc h1 h2
      simp only [List.foldl_cons]
      have nilsuf : ∀ l : List Bytes, ([] : List Bytes) <:+ l := fun l => List.nil_suffix
      cases o with
      | put d =>
        have hcfg : (stepOp cfg s (.put d)).cfg = cfg := by show (put s d).2.cfg = cfg; rw [put_cfg, hc]
        by_cases hv : cfg.minMsgSize ≤ d.length ∧ d.length ≤ cfg.maxMsgSize
        · have hq : specOp cfg q (.put d) = q ++ [d] := by show (if _ then _ else _) = _; rw [if_pos hv]
          have hacc : accepted cfg (.put d :: ops) = [d] ++ accepted cfg ops := by
            show (if _ then _ else _) ++ _ = _; rw [if_pos hv]
          have hdel : delivered cfg (.put d :: ops) q = delivered cfg ops (q ++ [d]) := by
            show delivered cfg ops (specOp cfg q (.put d)) = _; rw [hq]
          rw [hq, hacc, hdel, ← List.append_assoc]
          obtain ⟨_, r⟩ := put_ok_QL h d (by unfold ValidRec; rw [hc]; exact hv)
          rcases r with r | r | r
          · exact ih _ _ [] [] del (acc ++ [d]) r hcfg (nilsuf _) (nilsuf _)
          · exact ih _ _ [] [d] del (acc ++ [d]) r hcfg (nilsuf _) (List.suffix_append _ _)
          · exact ih _ _ dup (new ++ [d]) del (acc ++ [d]) r hcfg h1 (by
              obtain ⟨t, ht⟩ := h2
              exact ⟨t, by rw [← ht, List.append_assoc]⟩)
        · have hq : specOp cfg q (.put d) = q := by show (if _ then _ else _) = _; rw [if_neg hv]
          have hacc : accepted cfg (.put d :: ops) = accepted cfg ops := by
            show (if _ then _ else _) ++ _ = _; rw [if_neg hv]; rfl
          have hdel : delivered cfg (.put d :: ops) q = delivered cfg ops q := by
            show delivered cfg ops (specOp cfg q (.put d)) = _; rw [hq]
          rw [hq, hacc, hdel]
          obtain ⟨_, r⟩ := put_invalid_QL h d (by unfold ValidRec; rw [hc]; exact hv)
          rcases r with r | r
          · exact ih _ _ [] [] del acc r hcfg (nilsuf _) (nilsuf _)
          · exact ih _ _ dup new del acc r hcfg h1 h2
      | recv =>
        have hcfg : (stepOp cfg s .recv).cfg = cfg := by show (recv s).2.cfg = cfg; rw [recv_cfg, hc]
        cases q with
        | nil =>
          have e : stepOp cfg s .recv = s := by show (recv s).2 = s; rw [recv_none_QL h]
          rw [e]
          have hdel : delivered cfg (.recv :: ops) [] = delivered cfg ops [] := by
            show [] ++ delivered cfg ops (specOp cfg [] .recv) = _; rfl
          rw [hdel]
          exact ih s [] dup new del acc h hc h1 h2
        | cons d q =>
          have hdel : delivered cfg (.recv :: ops) (d :: q) = [d] ++ delivered cfg ops q := rfl
          have hacc : accepted cfg (.recv :: ops) = accepted cfg ops := rfl
          rw [hdel, hacc, ← List.append_assoc]
          obtain ⟨_, r⟩ := recv_head_QL h
          rcases r with r | r
          · exact ih _ q [] [] (del ++ [d]) acc r hcfg (nilsuf _) (nilsuf _)
          · exact ih _ q (dup ++ [d]) new (del ++ [d]) acc r hcfg (by
              obtain ⟨t, ht⟩ := h1
              exact ⟨t, by rw [← ht, List.append_assoc]⟩) h2
      | empty =>
        have hcfg : (stepOp cfg s .empty).cfg = cfg := by
          show (empty s).2.cfg = cfg
          unfold empty
          split
          · exact hc
          · simp only []; rw [settle_cfg]; exact hc
        have hdel : delivered cfg (.empty :: ops) q = delivered cfg ops [] := rfl
        have hacc : accepted cfg (.empty :: ops) = accepted cfg ops := rfl
        rw [hdel, hacc]
        exact ih _ [] [] [] del acc (empty_QL h).2.1 hcfg (nilsuf _) (nilsuf _)
      | reopen =>
        have hdel : delivered cfg (.reopen :: ops) q = delivered cfg ops q := rfl
        have hacc : accepted cfg (.reopen :: ops) = accepted cfg ops := rfl
        rw [hdel, hacc]
        exact ih _ q [] [] del acc (reopen_QL h cfg hok (by rw [hc]) (by rw [hc])) (openQ_cfg _ _) (nilsuf _) (nilsuf _)
  have h0 : QL (openQ cfg FS.empty) [] [] [] := by
    obtain ⟨pre, recs, a, b, c⟩ := fresh_Q cfg hok
    refine ⟨pre, recs, a, b, c, ?_⟩
    intro m hm
    have e := crash_nomd FS.empty rfl cfg hok
    rw [e] at hm
    exact absurd hm (by simp [FS.empty])
  obtain ⟨dup, new, a, b, c, d⟩ := gen ops _ [] [] [] [] [] h0 (openQ_cfg _ _) List.nil_suffix List.nil_suffix
  exact ⟨dup, new, a, by simpa using b, by simpa using c, d⟩

/-- 4. THE GENERAL HARD-KILL THEOREM (history level): after any clean history, a kill at rest and `New`
either find no metadata file — the new process starts empty at file 0, everything queued is lost — or
the new queue is `dup ++ q` with `dup` a suffix of the delivered records (re-delivered, in order, before
everything still queued), nothing is lost, and `Depth()` is short by `|new|`, `new` a suffix of the accepted
records. -/
theorem kill_after_any_history (cfg : Cfg) (hok : CfgOk cfg) (ops : List Op) (cfg' : Cfg) (hok' : CfgOk cfg')
    (hmin : cfg'.minMsgSize = cfg.minMsgSize) (hmax : cfg'.maxMsgSize = cfg.maxMsgSize) :
    ((ops.foldl (stepOp cfg) (openQ cfg FS.empty)).fs.md = none ∧
      openQ cfg' (crash (ops.foldl (stepOp cfg) (openQ cfg FS.empty))) =
        { cfg := cfg', fs := (ops.foldl (stepOp cfg) (openQ cfg FS.empty)).fs }) ∨
    (∃ m dup new, (ops.foldl (stepOp cfg) (openQ cfg FS.empty)).fs.md = some m ∧
      dup <:+ delivered cfg ops [] ∧ new <:+ accepted cfg ops ∧
      QD (openQ cfg' (crash (ops.foldl (stepOp cfg) (openQ cfg FS.empty)))) (dup ++ ops.foldl (specOp cfg) []) ∧
      (retrieve cfg' (crash (ops.foldl (stepOp cfg) (openQ cfg FS.empty)))).depth = m.depth ∧
      m.depth + (new.length : Int) = ((dup ++ ops.foldl (specOp cfg) []).length : Int)) := by
  obtain ⟨dup, new, a, b, c, d⟩ := reachable_lag cfg hok ops
  cases hm : (ops.foldl (stepOp cfg) (openQ cfg FS.empty)).fs.md with
  | none => exact Or.inl ⟨rfl, (kill_without_metadata_loses_all _ hm cfg' hok').1⟩
  | some m =>
    obtain ⟨x, y, z⟩ := kill_general _ _ dup new m a hm cfg' hok' (by rw [d]; exact hmin) (by rw [d]; exact hmax)
    exact Or.inr ⟨m, dup, new, rfl, b, c, x, y, z⟩

/-! ### 5. the depth-free invariant: after the kill the queue is a FIFO for every future operation -/

theorem stale_depth_put (s : St) (q : List Bytes) (d : Bytes) (h : QD s q) (hv : ValidRec s.cfg d) :
    (put s d).1 = .ok ∧ QD (put s d).2 (q ++ [d]) := put_ok_QD h d hv

theorem stale_depth_put_invalid (s : St) (q : List Bytes) (d : Bytes) (h : QD s q) (hv : ¬ ValidRec s.cfg d) :
    (put s d).1 = .invalid ∧ QD (put s d).2 q := put_invalid_QD h d hv

theorem stale_depth_recv (s : St) (d : Bytes) (q : List Bytes) (h : QD s (d :: q)) :
    (recv s).1 = some d ∧ QD (recv s).2 q := recv_head_QD h

theorem stale_depth_recv_empty (s : St) (h : QD s []) : (recv s).1 = none ∧ QD (recv s).2 [] := recv_none_QD h

theorem stale_depth_empty (s : St) (q : List Bytes) (h : QD s q) :
    (empty s).1 = true ∧ QD (empty s).2 [] ∧ (∀ i, (empty s).2.fs.dat i = none) := empty_QD h

theorem stale_depth_reopen (s : St) (q : List Bytes) (h : QD s q) (cfg' : Cfg) (hok : CfgOk cfg')
    (hmin : cfg'.minMsgSize = s.cfg.minMsgSize) (hmax : cfg'.maxMsgSize = s.cfg.maxMsgSize) :
    QD (openQ cfg' (close s).fs) q := reopen_QD h cfg' hok hmin hmax

/-- … and it is fully healthy again as soon as `Depth()` is right and no sync is pending -/
theorem stale_depth_healed (s : St) (q : List Bytes) (h : QD s q) (hd : s.depth = (q.length : Int))
    (hn : s.needSync = false) : Q s q := Q_of_QD h hd hn

/-- everything the consumer gets after the kill, in order, is exactly `dup ++ q` -/
theorem drain_after_kill (cfg : Cfg) (hok : CfgOk cfg) (s : St) (q : List Bytes) (h : QD s q) (n : Nat) (hn : q.length ≤ n) :
    DQLaw.drain (diskqueue_law cfg hok) n s = q := by
  induction n generalizing s q with
  | zero =>
    cases q with
    | nil => rfl
    | cons _ _ => simp at hn
  | succ n ih =>
    cases q with
    | nil =>
      have := (recv_none_QD h).1
      simp only [DQLaw.drain, diskqueue_law, this]
    | cons d q =>
      obtain ⟨a, b⟩ := recv_head_QD h
      simp only [DQLaw.drain, diskqueue_law, a]
      have := ih (recv s).2 q b (by simpa using hn)
      simp only [diskqueue_law] at this
      rw [this]

/-! ### witnesses and non-vacuity -/

def cfgK : Cfg := { maxBytesPerFile := 100, minMsgSize := 1, maxMsgSize := 8, syncEvery := 3 }
theorem cfgK_ok : CfgOk cfgK := ⟨by decide, by decide⟩
def rd : Bytes := [0xd1, 0xd2, 0xd3, 0xd4]
def re : Bytes := [0xe1, 0xe2, 0xe3, 0xe4]

/-- history: put a, b, c (sync at count 3), receive a, put d — metadata lags by dup = [a], new = [d] -/
def opsK : List Op := [.put ra, .put rb, .put rc, .recv, .put rd]
def sK : St := opsK.foldl (stepOp cfgK) (openQ cfgK FS.empty)

example : sK.fs.md = some { depth := 3, rf := 0, rp := 0, wf := 0, wp := 24 } ∧ sK.rp = 8 ∧ sK.wp = 32 ∧ sK.depth = 3 := by decide
example : delivered cfgK opsK [] = [ra] ∧ accepted cfgK opsK = [ra, rb, rc, rd] ∧ opsK.foldl (specOp cfgK) [] = [rb, rc, rd] := by decide
/-- the instance of `kill_after_any_history` on that history, evaluated: a is delivered again, then b, c, d;
the writer skipped to file 1; `Depth()` says 3 while 4 records are queued -/
example : (openQ cfgK (crash sK)).wf = 1 ∧ (openQ cfgK (crash sK)).depth = 3 ∧
    DQLaw.drain (diskqueue_law cfgK cfgK_ok) 6 (openQ cfgK (crash sK)) = [ra, rb, rc, rd] := by decide
/-- `Depth()` is repaired when the reader reaches the tail -/
example : ((recv (recv (recv (recv (openQ cfgK (crash sK))).2).2).2).2).depth = 0 := by decide
/-- on that history the theorem's second alternative is the one that holds -/
example : sK.fs.md ≠ none := by decide

/-- the hypothesis of `kill_general` is met by a state with a real lag (via `reachable_lag`) and `QD` is not
`True`: a depth-stale queue still refuses a wrong content -/
example : ∃ dup new, QL sK [rb, rc, rd] dup new := by
  obtain ⟨dup, new, h, _⟩ := reachable_lag cfgK cfgK_ok opsK
  exact ⟨dup, new, h⟩
example : ¬ QD (openQ cfgK (crash sK)) [] := fun h => by
  have := (recv_none_QD h).1
  exact absurd this (by decide)

/-- 6. the limit of clause 1: it speaks about ONE kill after a clean history.  put a, b, c (sync), put d, KILL,
restart (writer skips to file 1; a … d are there), put e (acknowledged, into file 1, no sync yet), KILL
again, restart: the stale metadata sends the writer to "fresh" file 1 at position 0 once more — e is never
delivered and the next `Put` overwrites it. -/
def sOnce : St := openQ cfgK (crash (put (put (put (put (openQ cfgK FS.empty) ra).2 rb).2 rc).2 rd).2)
def sTwice : St := openQ cfgK (crash (put sOnce re).2)

theorem second_kill_before_sync_loses :
    (put sOnce re).1 = .ok ∧
    (recv sTwice).1 = some ra ∧ (recv (recv sTwice).2).1 = some rb ∧ (recv (recv (recv sTwice).2).2).1 = some rc ∧
    (recv (recv (recv (recv sTwice).2).2).2).1 = some rd ∧
    (recv (recv (recv (recv (recv sTwice).2).2).2).2).1 = none ∧ (sTwice.fs.dat 1).isSome = true := by decide

/-- so "a metadata file exists ⇒ an acknowledged `Put` survives a kill" is false without "clean history" -/
def kill_loses_nothing_with_metadata_full : Prop :=
  ∀ (s : St) (d : Bytes), (s.fs.md).isSome = true → (put s d).1 = .ok →
    ∃ n, d ∈ DQLaw.drain (diskqueue_law cfgK cfgK_ok) n (openQ cfgK (crash (put s d).2))

theorem kill_loses_nothing_with_metadata_full_false : ¬ kill_loses_nothing_with_metadata_full := by
  intro h
  obtain ⟨n, hn⟩ := h sOnce re (by decide) (by decide)
  have e1 : (recv sTwice).1 = some ra := by decide
  have e2 : (recv (recv sTwice).2).1 = some rb := by decide
  have e3 : (recv (recv (recv sTwice).2).2).1 = some rc := by decide
  have e4 : (recv (recv (recv (recv sTwice).2).2).2).1 = some rd := by decide
  have e5 : (recv (recv (recv (recv (recv sTwice).2).2).2).2).1 = none := by decide
  change re ∈ DQLaw.drain (diskqueue_law cfgK cfgK_ok) n sTwice at hn
  rcases n with _ | _ | _ | _ | _ | n <;>
    simp only [DQLaw.drain, diskqueue_law, e1, e2, e3, e4, e5] at hn <;> exact absurd hn (by decide)

/-- `kill_without_metadata_loses_all` is not vacuous: after one put (no sync yet) there is no metadata file -/
example : (put (openQ cfgW100 FS.empty) ra).2.fs.md = none ∧ Q (put (openQ cfgW100 FS.empty) ra).2 [ra] :=
  ⟨by decide, (put_ok_Q (fresh_Q cfgW100 cfgW100_ok) ra (by decide)).2⟩

end Nsq.Props.E9Kill
