import Nsq.Proofs.LookupMore
import Nsq.Props.C16Ticks
/-!
# C16 — audit round 7: refused commands (C7), overlapping channel deletions (C2), pre-creation (C8, C26),
draining the notifications and removed peers (C27)

Models: `Nsq.Model.LookupMore` (two layers over the base model whose fixed shapes ARE the base model) and the
pre-creation part of `Nsq.Model.LookupSync` (`Lookupd`, `precreateG`).
-/
namespace Nsq.Props.C16More
open Nsq.Model.LookupSync Nsq.Proofs.LookupSync Nsq.Proofs.LookupMore Nsq.Proofs.LookupTicks Nsq.Props.C16

/-! ## C7 — a lookupd that answers a command with a framed `E_…` error -/

/-- the convergence clause when a `Command` may also be *refused* (`Outcome3.rejected`: every round trip worked, the
reply was `E_…`), for the tree with (`true`; /repo abf2660, committed) / without (`false`) F36 — which one the checked
tree is, is computed from the regenerated facts: `Tie.LookupSync.treeF36` -/
def C16_converges_rejections (f36 : Bool) : Prop :=
  ∀ (steps : List StepR) (s : State), runR f36 State.init steps = some s → Quiescent s → InSync s

/-- With F36 a refused command is a failed command (`Command` closes the connection, the next one reconnects and
re-registers everything): EVERY schedule with refusals anywhere is a schedule of the base model, so `converges`
holds for it. -/
theorem converges_with_rejections : C16_converges_rejections true := by
  intro steps s hr hq
  rw [runR_fixed] at hr
  exact converges _ s (by rw [runG_fixed]; exact hr) hq

/-- THIS tree (audit B12): `Tie.LookupSync.command_shape` accepts only the shape with F36 and the facts decide
`treeF36 = true`; a tree that reverts F36 fails `tree_f36` and this theorem with it. -/
theorem converges_with_rejections_this_tree : C16_converges_rejections Nsq.Tie.LookupSync.treeF36 := by
  rw [Nsq.Tie.LookupSync.tree_f36]; exact converges_with_rejections

/-- with F36 a refusal on an established connection closes it (it is a *fault* in the sense of `C16Ticks`: the
tick-count theorems count from the last one) -/
theorem rejected_closes (objs dead : List Ref) (apply : List Key → List Key) (p : Peer) :
    commandR true objs dead apply p .rejected = { p with conn := .down, regs := [] } := by
  rw [commandR_fixed]; exact garbage_is_contained objs dead apply p

/-- the witness: the lookupd (connected, healthy before and after) refuses the one REGISTER of topic `t` -/
def rejectedRegister : List StepR := [.addPeer 0 .ok, .base (.createTopic "t"), .notify t0 [.rejected]]

/-- Without F36 (the tree before abf2660) the clause is false: the REGISTER is refused, `lp.state` stays connected, every later PING succeeds,
nothing ever repeats the REGISTER — nsqd is quiescent, the lookupd is connected and does not list `t`
(replayed on the real code: corpus/C16/fixed/register_rejected.ops). -/
theorem converges_false_without_F36 : ¬ C16_converges_rejections false := by
  intro h
  have hc : endsWith (runR false State.init rejectedRegister) [("t", "")] [] = true := by decide
  obtain ⟨s, hr, hq, hn⟩ := not_in_sync_of_endsWith hc ("t", "") (by simp)
  exact hn (h _ s hr hq)

-- with F36 the same schedule leaves the peer disconnected, and the next heartbeat reconnects and registers `t`
example : endsWith (runR true State.init (rejectedRegister ++ [.tick [.ok]])) [("t", "")] [("t", "")] = true := by decide
-- … and that is what THIS tree does (parameter computed from the facts)
example : endsWith (runR Nsq.Tie.LookupSync.treeF36 State.init (rejectedRegister ++ [.tick [.ok]])) [("t", "")] [("t", "")] = true := by
  rw [Nsq.Tie.LookupSync.tree_f36]; decide
-- any number of further good heartbeats do not help the tree without F36
example : endsWith (runR false State.init (rejectedRegister ++ [.tick [.ok], .tick [.ok], .tick [.ok]]))
    [("t", "")] [] = true := by decide

/-! ## C2 — overlapping deletions of one channel -/

/-- the convergence clause over schedules that also contain the deleter threads of `Topic.DeleteExistingChannel`
(`delStart` = lookup + `channel.Delete()`, `delFinish` = the unlink), for the tree with (`true`, /repo c687824) /
without (`false`) F22 -/
def C16_converges_deleters (f22 : Bool) : Prop :=
  ∀ (steps : List StepD) (d : DelState), runD f22 DelState.init steps = some d → Quiescent d.s → InSync d.s

/-- With F22 (the unlink removes the looked-up OBJECT or nothing) every step of a deleter thread is a step of the base
model or changes nothing, whatever the number of overlapping deleters: `converges` holds for every such schedule. -/
theorem converges_overlapping_deletions : C16_converges_deleters true := by
  intro steps d hr hq
  obtain ⟨bsteps, hb⟩ := runD_fixed_reach delsDead_init reach_init hr
  exact converges bsteps d.s (by rw [runG_fixed]; exact hb) hq

def c2 : Ref := ⟨"t", "c", 2⟩

/-- the witness (audit C2): deleters D1 and D2 both look up channel `c` (object `c1`); D1 wins `Delete()`, D2 gets
"exiting"; D2 unlinks; `c` is created again (object `c2`, REGISTERed); D1 unlinks — by name: `c2` disappears from the
map without a notification. -/
def doubleDelete : List StepD :=
  [.base (.addPeer 0 .ok), .base (.createTopic "t"), .base (.notify t0 [.ok]), .base (.createChan "t" "c"),
   .base (.notify c1 [.ok]), .delStart c1, .delStart c1, .base (.notify c1 [.ok]), .delFinish c1,
   .base (.createChan "t" "c"), .base (.notify c2 [.ok]), .delFinish c1]

/-- Without F22 (unlink by NAME, /repo before c687824) the clause is false: nsqd ends quiescent WITHOUT channel `c`,
the connected, healthy lookupd lists `t/c` for ever (replayed on the real code with the hook
`chan.delete.beforeUnlink`: corpus/C16/fixed/double_delete_channel.ops). -/
theorem converges_false_without_F22 : ¬ C16_converges_deleters false := by
  intro h
  have hc : endsWith ((runD false DelState.init doubleDelete).map (·.s)) [("t", "")] [("t", "c"), ("t", "")] = true := by
    decide
  obtain ⟨s, hr, hq, hn⟩ := not_in_sync_of_endsWith hc ("t", "c") (by simp)
  obtain ⟨d, hd, rfl⟩ := Option.map_eq_some_iff.mp hr
  exact hn (h _ d hd hq)

-- with F22 the same schedule keeps `c2` and ends in sync
example : endsWith ((runD true DelState.init doubleDelete).map (·.s)) [("t", ""), ("t", "c")] [("t", "c"), ("t", "")] = true := by
  decide

/-! ## C8, C26 — pre-creation -/

/-- `GetTopic` on a new topic creates, before `t.Start()` (tie `getTopic_precreate_before_start`), exactly the
channels that (1) are returned by a lookupd that nsqd ASKS — one whose IDENTIFY has succeeded at some time since the
peer was added (`lookupdHTTPAddrs()` needs the cached broadcast address; the state of the TCP connection now is
irrelevant) — and whose HTTP query succeeded, (2) are not `#ephemeral`, (3) are valid channel names (F35). The union
is over the lookupds that were asked and answered, whatever happened to the others (tie
`getTopic_loop_not_guarded_by_err`); nothing is invented. -/
theorem precreate_exact (ls : List Lookupd) (c : String) :
    c ∈ precreate ls ↔
      (∃ l ∈ ls, l.identified = true ∧ ∃ a, l.answer = some a ∧ c ∈ a) ∧ ephName c = false ∧ validName c = true := by
  simp only [precreate, precreateG, List.mem_filter, List.mem_eraseDups, List.mem_flatten, List.mem_filterMap,
    Bool.and_eq_true, Bool.not_eq_true', Bool.not_true, Bool.false_or]
  constructor
  · rintro ⟨⟨a, ⟨l, ⟨hl, hid⟩, ha⟩, hc⟩, he, hv⟩
    exact ⟨⟨l, hl, hid, a, ha, hc⟩, he, hv⟩
  · rintro ⟨⟨l, hl, hid, a, ha, hc⟩, he, hv⟩
    exact ⟨⟨a, ⟨l, ⟨hl, hid⟩, ha⟩, hc⟩, he, hv⟩

/-- the same for the tree without F35: no name test -/
theorem precreate_exact_unfixed (ls : List Lookupd) (c : String) :
    c ∈ precreateG false ls ↔
      (∃ l ∈ ls, l.identified = true ∧ ∃ a, l.answer = some a ∧ c ∈ a) ∧ ephName c = false := by
  simp only [precreateG, List.mem_filter, List.mem_eraseDups, List.mem_flatten, List.mem_filterMap,
    Bool.and_eq_true, Bool.not_eq_true', Bool.not_false, Bool.true_or, and_true]
  constructor
  · rintro ⟨⟨a, ⟨l, ⟨hl, hid⟩, ha⟩, hc⟩, he⟩
    exact ⟨⟨l, hl, hid, a, ha, hc⟩, he⟩
  · rintro ⟨⟨l, hl, hid, a, ha, hc⟩, he⟩
    exact ⟨⟨a, ⟨l, ⟨hl, hid⟩, ha⟩, hc⟩, he⟩

/-- The literal clause of the property — "every non-ephemeral channel its nsqlookupds already know" — for ALL configured
lookupds that answer over HTTP, identified or not. -/
def C16_precreate_full : Prop :=
  ∀ (ls : List Lookupd) (c : String), (∃ l ∈ ls, ∃ a, l.answer = some a ∧ c ∈ a) → ephName c = false →
    validName c = true → c ∈ precreate ls

/-- … is false (audit C26): a lookupd whose IDENTIFY has not succeeded yet (nsqd just started, the peer was just
added, its TCP port is unreachable while its HTTP port answers) is not asked, so a channel only it knows is not
created and misses the topic's first messages (replayed: harness case `win3`). -/
theorem precreate_full_false : ¬ C16_precreate_full := by
  intro h
  have := h [⟨false, some ["c"]⟩] "c" ⟨_, List.mem_cons_self, _, rfl, List.mem_cons_self⟩ (by decide) (by decide)
  rw [precreate_exact] at this
  obtain ⟨⟨l, hl, hid, _⟩, _⟩ := this
  simp only [List.mem_singleton] at hl
  subst hl
  simp at hid

/-- the provable part, hypothesis spelled out: the lookupd that knows the channel has been IDENTIFIED -/
theorem precreate_partial (ls : List Lookupd) (c : String) (l : Lookupd) (a : List String) (hl : l ∈ ls)
    (hid : l.identified = true) (ha : l.answer = some a) (hc : c ∈ a) (he : ephName c = false)
    (hv : validName c = true) : c ∈ precreate ls :=
  (precreate_exact ls c).mpr ⟨⟨l, hl, hid, a, ha, hc⟩, he, hv⟩

/-- a failing or an unidentified lookupd never removes a channel from the result -/
theorem precreate_ignores_failures (ls : List Lookupd) (c : String) (pre post : List Lookupd)
    (hpre : ∀ l ∈ pre, l.answer = none ∨ l.identified = false)
    (hpost : ∀ l ∈ post, l.answer = none ∨ l.identified = false) :
    c ∈ precreate (pre ++ ls ++ post) ↔ c ∈ precreate ls := by
  simp only [precreate_exact]
  constructor
  · rintro ⟨⟨l, hl, hid, a, ha, hc⟩, he⟩
    refine ⟨⟨l, ?_, hid, a, ha, hc⟩, he⟩
    simp only [List.mem_append] at hl
    rcases hl with (h | h) | h
    · rcases hpre l h with h' | h'
      · rw [h'] at ha; simp at ha
      · rw [h'] at hid; simp at hid
    · exact h
    · rcases hpost l h with h' | h'
      · rw [h'] at ha; simp at ha
      · rw [h'] at hid; simp at hid
  · rintro ⟨⟨l, hl, hid, a, ha, hc⟩, he⟩
    exact ⟨⟨l, by simp [hl], hid, a, ha, hc⟩, he⟩

/-- when no asked lookupd answers nothing is pre-created (the topic starts empty, as the code logs) -/
theorem precreate_all_failed (ls : List Lookupd) (h : ∀ l ∈ ls, l.answer = none ∨ l.identified = false) :
    precreate ls = [] := by
  apply List.eq_nil_iff_forall_not_mem.mpr
  intro c hc
  obtain ⟨⟨l, hl, hid, a, ha, _⟩, _⟩ := (precreate_exact ls c).mp hc
  rcases h l hl with h' | h'
  · rw [h'] at ha; simp at ha
  · rw [h'] at hid; simp at hid

/-- No command injection (audit C8), tree with F35 (/repo d2805fe, committed): a pre-created channel name contains neither a newline nor a
blank, whatever the lookupds answered … -/
theorem precreate_names_have_no_separator (ls : List Lookupd) (c : String) (h : c ∈ precreate ls) :
    '\n' ∉ c.toList ∧ ' ' ∉ c.toList :=
  validName_no_sep c ((precreate_exact ls c).mp h).2.2

/-- … so the line nsqd later writes to every lookupd for it, `REGISTER topic channel\n`, is ONE command with exactly
two parameters (topic names are validated where topics are created: PUB / SUB / HTTP / metadata). -/
theorem register_line_is_one_command (t c : String) (ht : validName t = true) (hc : validName c = true) :
    (registerLine t c).count '\n' = 1 ∧ (registerLine t c).count ' ' = 2 := by
  obtain ⟨t1, t2⟩ := validName_no_sep t ht
  obtain ⟨c1, c2⟩ := validName_no_sep c hc
  have e1 := List.count_eq_zero.mpr t1
  have e2 := List.count_eq_zero.mpr t2
  have e3 := List.count_eq_zero.mpr c1
  have e4 := List.count_eq_zero.mpr c2
  simp only [registerLine, List.count_append, e1, e2, e3, e4]
  constructor <;> simp

/-- the injection clause for a tree: nothing a lookupd answers makes nsqd create a channel whose name has a newline -/
def C16_no_injection (f35 : Bool) : Prop :=
  ∀ (ls : List Lookupd) (c : String), c ∈ precreateG f35 ls → '\n' ∉ c.toList

theorem no_injection : C16_no_injection true :=
  fun ls c h => (precreate_names_have_no_separator ls c h).1

/-- THIS tree (audit B12): the facts decide `Tie.LookupSync.treeF35 = true` (`getTopic_precreate_before_start` accepts
only the shape with the name test); a tree that reverts F35 fails `tree_f35` and this theorem with it. -/
theorem no_injection_this_tree : C16_no_injection Nsq.Tie.LookupSync.treeF35 := by
  rw [Nsq.Tie.LookupSync.tree_f35]; exact no_injection

/-- non-vacuity: on this tree's pre-creation a hostile name is dropped, a valid one kept -/
example : precreateG Nsq.Tie.LookupSync.treeF35 [⟨true, some ["x\nUNREGISTER other", "ok"]⟩] = ["ok"] := by
  rw [Nsq.Tie.LookupSync.tree_f35]; decide

/-- Without F35 (the tree before d2805fe) it is false: one lookupd answering `/channels` with the name `x⏎UNREGISTER other` makes nsqd create
that channel and announce it to EVERY lookupd as `REGISTER t x⏎UNREGISTER other⏎` — two commands (replayed on the real
code against the real nsqlookupd: harness case `bad1`, finding `precreate-unvalidated-channel-name`). -/
theorem no_injection_false_without_F35 : ¬ C16_no_injection false := by
  intro h
  have hm : "x\nUNREGISTER other" ∈ precreateG false [⟨true, some ["x\nUNREGISTER other"]⟩] :=
    (precreate_exact_unfixed _ _).mpr ⟨⟨_, List.mem_cons_self, rfl, _, rfl, List.mem_cons_self⟩, by decide⟩
  exact h _ _ hm (by decide)

example : (registerLine "t" "x\nUNREGISTER other").count '\n' = 2 := by decide
example : validName "x\nUNREGISTER other" = false ∧ validName "a b" = false ∧ validName "" = false ∧
    validName "ok.chan-1" = true ∧ validName "tmp#ephemeral" = true := by decide
example : "ok" ∈ precreate [⟨true, some ["x\nUNREGISTER other", "ok", "e#ephemeral", ""]⟩, ⟨false, some ["unid"]⟩] :=
  (precreate_exact _ _).mpr ⟨⟨_, List.mem_cons_self, rfl, _, rfl, by simp⟩, by decide, by decide⟩
example : "unid" ∉ precreate [⟨true, some ["ok"]⟩, ⟨false, some ["unid"]⟩] := by
  intro h
  obtain ⟨⟨l, hl, hid, a, ha, hc⟩, _⟩ := (precreate_exact _ _).mp h
  simp only [List.mem_cons, List.not_mem_nil, or_false] at hl
  rcases hl with rfl | rfl
  · simp at ha; subst ha; simp at hc
  · simp at hid

/-! ## C27 — how long until quiescent; removed peers -/

def isNotify : Step → Bool
  | .notify _ _ => true
  | _ => false

/-- only iterations of `lookupLoop` (no local churn, no reconfiguration) -/
def loopOnly : Step → Bool
  | .notify _ _ | .tick _ | .lookupdDrop _ => true
  | _ => false

/-- Every notification `lookupLoop` receives removes exactly one pending `Notify` goroutine, and nothing but local
churn adds one: over a schedule of `lookupLoop` iterations (and lookupd faults) the number of pending notifications
drops by the number of `notify` iterations. So `Quiescent`'s "no notification pending" is reached after exactly
`|bag|` notify iterations once churn has stopped — the hypothesis of `in_sync_within_two_ticks` is not open-ended. -/
theorem bag_drains (steps : List Step) : ∀ (s s' : State), run s steps = some s' → steps.all loopOnly = true →
    s'.bag.length + (steps.filter isNotify).length = s.bag.length ∧ s'.objs = s.objs ∧ s'.dead = s.dead := by
  induction steps with
  | nil => intro s s' h _; simp only [run, Option.some.injEq] at h; subst h; simp
  | cons st rest ih =>
    intro s s' h hall
    simp only [List.all_cons, Bool.and_eq_true] at hall
    simp only [run] at h
    split at h
    · simp at h
    · rename_i s1 h1
      obtain ⟨e1, e2, e3⟩ := ih s1 s' h hall.2
      cases st with
      | notify r outs =>
        simp only [step] at h1
        split at h1; · simp at h1
        rename_i hmem
        simp only [Option.some.injEq] at h1; subst h1
        have hm : r ∈ s.bag := by simpa using hmem
        have hl := List.length_erase_of_mem hm
        have hpos : 0 < s.bag.length := List.length_pos_of_mem hm
        simp only [List.filter_cons, isNotify, if_true, List.length_cons] at e1 ⊢
        exact ⟨by omega, e2, e3⟩
      | tick outs =>
        simp only [step, Option.some.injEq] at h1; subst h1
        simpa [List.filter_cons, isNotify] using ⟨e1, e2, e3⟩
      | lookupdDrop a =>
        simp only [step, Option.some.injEq] at h1; subst h1
        simpa [List.filter_cons, isNotify] using ⟨e1, e2, e3⟩
      | createTopic t => simp [loopOnly] at hall
      | createChan t c => simp [loopOnly] at hall
      | delBegin r => simp [loopOnly] at hall
      | delUnlink r => simp [loopOnly] at hall
      | addPeer a o => simp [loopOnly] at hall
      | removePeer a => simp [loopOnly] at hall

/-- The convergence clause with BOTH counts: after ANY history that leaves nothing half-deleted, `lookupLoop`
iterations that are fault-free for the lookupd at `a`, contain as many `notify` iterations as notifications were
pending and two heartbeat ticks leave that lookupd connected and listing exactly nsqd's topics and channels. -/
theorem in_sync_after_drain_and_two_ticks (a : Nat) (pre steps : List Step) (s0 s' : State)
    (h0 : run State.init pre = some s0) (hnd : ∀ r ∈ s0.objs, r ∉ s0.dead) (hr : run s0 steps = some s')
    (hloop : steps.all loopOnly = true) (hok : OkRun a s0 steps) (h2 : 2 ≤ ticks steps)
    (hn : (steps.filter isNotify).length = s0.bag.length) :
    ∀ p ∈ s'.peers, p.addr = a → p.conn = .up ∧ ∀ k, k ∈ p.regs ↔ ∃ r ∈ s'.objs, r.key = k := by
  obtain ⟨e1, e2, e3⟩ := bag_drains steps s0 s' hr hloop
  have hq : Quiescent s' := by
    refine ⟨List.eq_nil_of_length_eq_zero (by omega), ?_⟩
    rw [e2, e3]; exact hnd
  exact C16Ticks.in_sync_within_two_ticks a pre steps s0 s' h0 hr hok h2 hq

/-- a lookupd removed from the configuration has no peer entry any more: nothing is sent to it (its connection was
closed by `lp.Close()`; it drops the registrations of the closed connection — C14 `disconnect_immediate`) -/
theorem removed_peer_gone (s s' : State) (a : Nat) (h : step s (.removePeer a) = some s') :
    ∀ p ∈ s'.peers, p.addr ≠ a := by
  simp only [step, Option.some.injEq] at h; subst h
  intro p hp
  simp only [List.mem_filter, bne_iff_ne] at hp
  exact hp.2

example : ((run State.init [.addPeer 0 .ok, .addPeer 1 .ok, .removePeer 0]).map (fun s => s.peers.map (·.addr))) = some [1] := by
  decide
example : ((run State.init [.addPeer 0 .ok, .createTopic "t", .createChan "t" "c", .tick [.ok], .notify t0 [.ok],
    .notify c1 [.ok]]).map (fun s => s.bag.length)) = some 0 := by decide

/-! ## further non-vacuity examples -/

example : (commandR true [] [] id ⟨0, .up, [("t", "")]⟩ .rejected).conn = .down ∧
    (commandR true [] [] id ⟨0, .up, [("t", "")]⟩ .rejected).regs = [] ∧
    (commandR false [] [] id ⟨0, .up, [("t", "")]⟩ .rejected).conn = .up := by decide
example : precreate [⟨true, none⟩, ⟨false, some ["x"]⟩] = [] :=
  precreate_all_failed _ (by intro l hl; simp at hl; rcases hl with rfl | rfl <;> simp)
example : "c" ∈ precreate ([⟨true, none⟩] ++ [⟨true, some ["c"]⟩] ++ [⟨false, some ["x"]⟩]) :=
  (precreate_ignores_failures [⟨true, some ["c"]⟩] "c" [⟨true, none⟩] [⟨false, some ["x"]⟩]
    (by intro l hl; simp at hl; subst hl; simp) (by intro l hl; simp at hl; subst hl; simp)).mpr
    (precreate_partial _ "c" ⟨true, some ["c"]⟩ ["c"] (by simp) rfl rfl (by simp) (by decide) (by decide))
/-- hypotheses of `in_sync_after_drain_and_two_ticks` on a concrete history: one notification pending, the lookupd restarted -/
def drainPre : List Step := [.addPeer 0 .ok, .createTopic "t", .lookupdDrop 0]
def drainSteps : List Step := [.notify t0 [.ok], .tick [.ok], .tick [.ok]]
example : drainSteps.all loopOnly = true ∧ ticks drainSteps = 2 ∧ (drainSteps.filter isNotify).length = 1 ∧
    ((run State.init drainPre).map (fun s => s.bag.length)) = some 1 := by decide
example : ((run State.init (drainPre ++ drainSteps)).map (fun s => (s.bag.length, s.peers.map (fun p => (p.conn == .up, p.regs))))) =
    some (0, [(true, [("t", "")])]) := by decide

end Nsq.Props.C16More
