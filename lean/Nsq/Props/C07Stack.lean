import Nsq.Proofs.WireStack
import Nsq.Tie.WireStack
/-!
# C07 (and C11) — every output byte goes to the negotiated transport (audit round 7, item A2)

`Props.C07.upgrade_loses_nothing` says the plaintext handed to the successive transports is the
frame stream; it cannot say that a writer was re-created on the WRONG transport, and its model
(`connStep .setOutputBuffer` keeps the stack) is the tree with fix F30 only. On the tree before
F30 a second IDENTIFY with an `output_buffer_size`, sent after a TLS / snappy / deflate upgrade
(IDENTIFY is guarded by `State == stateInit` alone), re-creates the writer on the raw TCP
connection: every later frame — the OK, after SUB the message bodies — leaves in cleartext,
also under `--tls-required`, and the client, decoding with the negotiated stack, loses them.

Model `Nsq.Model.WireStack` (segments tagged with the transport written to and the transport
the client reads), tree selected by `Nsq.Tie.WireStack.treeFixed` (regenerated; F30 = /repo d6aa4e3 is committed,
the tie accepts only its shape and decides `treeFixed = true`: `this_tree_full`), white-box leg
`stack` and the double-IDENTIFY class of the end-to-end oracle (harness/e1).
-/
namespace Nsq.Props.C07Stack
open Nsq.Model.Wire Nsq.Model.WireStack Nsq.Proofs.WireStack Nsq.Proofs.Wire

def okFrame : Frame := ⟨0#32, [79, 75]⟩

/-- The literal clause, for a tree `fixed`: after EVERY sequence of protocol actions from a fresh
connection, every output byte was handed to the transport the client decodes with. -/
def OutputOnNegotiatedTransport (fixed : Bool) : Prop :=
  ∀ (cap : Nat) (ops : List ConnOp), (trun fixed (tconn0 cap) ops).OnNegotiated

/-- With F30: full strength. For every action sequence (responses, messages, flushes, any number
of IDENTIFYs with buffer changes and upgrades in any order, SUB): all output is on the negotiated
transport, nothing reaches the raw connection once an upgrade has completed, and what the client
decodes transport by transport (plus what is still buffered) is exactly the frames sent. -/
theorem output_on_negotiated_transport (cap : Nat) (ops : List ConnOp) :
    let c := trun true (tconn0 cap) ops
    c.OnNegotiated ∧ c.leaked = [] ∧ c.seen ++ c.w.buf = (c.sent.map encodeFrame).flatten := by
  intro c
  have g : Good c := good_run_fixed _ ops (good_tconn0 cap)
  refine ⟨good_onNegotiated c g, good_leaked c g, ?_⟩
  rw [good_seen c g]
  exact tstream true cap ops

theorem output_on_negotiated_transport_full : OutputOnNegotiatedTransport true :=
  fun cap ops => (output_on_negotiated_transport cap ops).1

/-- the schedule of the audit's replay: IDENTIFY (negotiation document), upgrade, OK; a second
IDENTIFY with output_buffer_size; its OK; SUB; a message; flush -/
def secondIdentify (body : Bytes) : List ConnOp :=
  [.sendResponse ⟨0#32, [123, 125]⟩, .upgrade 16384, .sendResponse okFrame,
   .setOutputBuffer 128, .sendResponse okFrame, .subscribe, .sendMessage ⟨2#32, body⟩, .flush]

/-- Before F30 the clause is FALSE: on the witness schedule the second OK and the message frame
are handed to transport 0 (the raw TCP connection) while the client decodes stack 1; the client
recovers neither. -/
theorem output_on_negotiated_transport_false : ¬ OutputOnNegotiatedTransport false := by
  intro h
  exact absurd (h 16384 (secondIdentify [83, 69, 67, 82, 69, 84])) (by decide)

theorem second_identify_leaks_cleartext :
    (trun false (tconn0 16384) (secondIdentify [83, 69, 67, 82, 69, 84])).leaked =
      encodeFrame okFrame ++ encodeFrame ⟨2#32, [83, 69, 67, 82, 69, 84]⟩ ∧
    (trun false (tconn0 16384) (secondIdentify [83, 69, 67, 82, 69, 84])).seen =
      encodeFrame ⟨0#32, [123, 125]⟩ ++ encodeFrame okFrame := by decide

/-- Before F30, what still holds (*partial*; forced hypothesis: the connection never changes its
output buffer after an upgrade — the only shape go-nsq produces: one IDENTIFY per connection). -/
theorem output_on_negotiated_transport_partial (cap : Nat) (ops : List ConnOp)
    (h : NoRebufferAfterUpgrade ops = true) :
    let c := trun false (tconn0 cap) ops
    c.OnNegotiated ∧ c.leaked = [] ∧ c.seen ++ c.w.buf = (c.sent.map encodeFrame).flatten := by
  intro c
  have g : Good c := good_run_unfixed _ ops (good_tconn0 cap) rfl h
  refine ⟨good_onNegotiated c g, good_leaked c g, ?_⟩
  rw [good_seen c g]
  exact tstream false cap ops

/-- The statement parametrised by the tree (`Tie.WireStack.treeFixed` is computed from the regenerated
`SetOutputBuffer` statements): full with F30, the partial one before. For the checked tree see `this_tree_full`. -/
theorem this_tree (cap : Nat) (ops : List ConnOp)
    (h : Nsq.Tie.WireStack.treeFixed = true ∨ NoRebufferAfterUpgrade ops = true) :
    (trun Nsq.Tie.WireStack.treeFixed (tconn0 cap) ops).OnNegotiated ∧
    (trun Nsq.Tie.WireStack.treeFixed (tconn0 cap) ops).leaked = [] := by
  cases hf : Nsq.Tie.WireStack.treeFixed with
  | true => exact ⟨(output_on_negotiated_transport cap ops).1, (output_on_negotiated_transport cap ops).2.1⟩
  | false =>
    rcases h with h | h
    · rw [hf] at h; exact absurd h (by decide)
    · exact ⟨(output_on_negotiated_transport_partial cap ops h).1, (output_on_negotiated_transport_partial cap ops h).2.1⟩

/-- THIS tree (F30 = /repo d6aa4e3 is committed; audit B12): `Tie.WireStack.setOutputBuffer_shape` accepts only the
F30 shape, the facts decide `treeFixed = true`, and the clause holds for EVERY schedule with no hypothesis. A tree that
reverts F30 fails `tree_fixed` and this theorem with it. -/
theorem this_tree_full (cap : Nat) (ops : List ConnOp) :
    (trun Nsq.Tie.WireStack.treeFixed (tconn0 cap) ops).OnNegotiated ∧
    (trun Nsq.Tie.WireStack.treeFixed (tconn0 cap) ops).leaked = [] :=
  this_tree cap ops (Or.inl Nsq.Tie.WireStack.tree_fixed)

/-- In BOTH trees no byte is lost, duplicated or reordered on the server side: the defect is where
the bytes go, not which bytes. -/
theorem no_byte_lost_either_tree (fixed : Bool) (cap : Nat) (ops : List ConnOp) :
    (trun fixed (tconn0 cap) ops).stream = (((trun fixed (tconn0 cap) ops).sent).map encodeFrame).flatten :=
  tstream fixed cap ops

/-- The round-6 connection model (`Props.C07.upgrade_loses_nothing`) is exactly the F30 tree with the
transport tags forgotten — so that theorem speaks about the fixed tree only. -/
theorem fixed_tree_is_round6_model (cap : Nat) (ops : List ConnOp) :
    (trun true (tconn0 cap) ops).forget = connRun (conn0 cap) ops :=
  forget_run (tconn0 cap) ops

/-! ## Non-vacuity -/

/-- the same schedule on the fixed tree: two segments (plain, then stack 1), nothing leaked, the
client sees all four frames -/
example : let c := trun true (tconn0 16384) (secondIdentify [83, 69, 67, 82, 69, 84])
    c.segs.map (fun s => (s.dest, s.want)) = [(0, 0), (1, 1)] ∧ c.leaked = [] ∧ c.sent.length = 4 ∧
    c.seen = (c.sent.map encodeFrame).flatten := by decide
/-- unfixed: three segments, the last one on the raw connection while the client reads stack 1 -/
example : (trun false (tconn0 16384) (secondIdentify [1])).segs.map (fun s => (s.dest, s.want, s.data.length)) =
    [(0, 0, 10), (1, 1, 10), (0, 1, 19)] := by decide
/-- the partial theorem's hypothesis is satisfiable by a schedule with a buffer change AND an upgrade -/
example : NoRebufferAfterUpgrade [.setOutputBuffer 64, .sendResponse okFrame, .upgrade 64, .sendResponse okFrame,
    .subscribe, .sendMessage ⟨2#32, [1]⟩] = true := by decide
example : NoRebufferAfterUpgrade (secondIdentify [1]) = false := by decide
/-- two upgrades (TLS, then snappy) and a re-buffer in between, fixed tree -/
example : let c := trun true (tconn0 8) [.upgrade 8, .sendResponse okFrame, .setOutputBuffer 64, .upgrade 64,
      .sendResponse okFrame, .setOutputBuffer 1, .sendResponse okFrame]
    c.segs.map (fun s => (s.dest, s.want, s.data.length)) = [(0, 0, 0), (1, 1, 10), (2, 2, 20)] := by decide
/-- the tree's model on the second-IDENTIFY schedule: nothing leaked -/
example : (trun Nsq.Tie.WireStack.treeFixed (tconn0 16384) (secondIdentify [83, 69, 67, 82, 69, 84])).leaked = [] :=
  (this_tree_full 16384 _).2

end Nsq.Props.C07Stack
