import Nsq.Proofs.WireStack
import Nsq.Tie.WireStack
/-!
# C07 (and C11) — every output byte goes to the negotiated transport (audit round 7, item A2)

`Props.C07.upgrade_loses_nothing` says the plaintext handed to the successive transports is the
frame stream; it cannot say that a writer was re-created on the WRONG transport, and its model
(`connStep .setOutputBuffer` keeps the stack) is the tree with fix F30 only. On the tree before
F30 a second IDENTIFY with an `output_buffer_size`, sent after a TLS / snappy / deflate upgrade
(IDENTIFY is guarded by `State == stateInit` alone), re-creates the writer on the raw TCP
connection: every later frame — the OK, after SUB the message bodies — leaves in cleartext,
also under `--tls-required`, and the client, decoding with the negotiated stack, loses them.

Model `Nsq.Model.WireStack` (segments tagged with the transport written to and the transport
the client reads), tree selected by `Nsq.Tie.WireStack.treeFixed` (regenerated; F30 = /repo d6aa4e3 is committed,
the tie accepts only its shape and decides `treeFixed = true`: `this_tree_full`), white-box leg
`stack` and the double-IDENTIFY class of the end-to-end oracle (harness/e1).
-/
namespace Nsq.Props.C07Stack
open Nsq.Model.Wire Nsq.Model.WireStack Nsq.Proofs.WireStack Nsq.Proofs.Wire

def okFrame : Frame := ⟨0#32, [79, 75]⟩

/-- The literal clause, for a tree `fixed`: after EVERY sequence of protocol actions from a fresh
connection, every output byte was handed to the transport the client decodes with. -/
def OutputOnNegotiatedTransport (fixed : Bool) : Prop :=
  ∀ (cap : Nat) (ops : List ConnOp), (trun fixed (tconn0 cap) ops).OnNegotiated

/-- With F30: full strength. For every action sequence (responses, messages, flushes, any number
of IDENTIFYs with buffer changes and upgrades in any order, SUB): all output is on the negotiated
transport, nothing reaches the raw connection once an upgrade has completed, and what the client
decodes transport by transport (plus what is still buffered) is exactly the frames sent. -/
theorem output_on_negotiated_transport (cap : Nat) (ops : List ConnOp) :
    let c := trun true (tconn0 cap) ops
    c.OnNegotiated ∧ c.leaked = [] ∧ c.seen ++ c.w.buf = (c.sent.map encodeFrame).flatten := by
  intro c
  have g : Good c := good_run_fixed _ ops (good_tconn0 cap)
  refine ⟨good_onNegotiated c g, good_leaked c g, ?_⟩
  rw [good_seen c g]
  exact tstream true cap ops

theorem output_on_negotiated_transport_full : OutputOnNegotiatedTransport true :=
  fun cap ops => (output_on_negotiated_transport cap ops).1

/-- the schedule of the audit's replay: IDENTIFY (negotiation document), upgrade, OK; a second
IDENTIFY with output_buffer_size; its OK; SUB; a message; flush -/
def secondIdentify (body : Bytes) : List ConnOp :=
  [.sendResponse ⟨0#32, [123, 125]⟩, .upgrade 16384, .sendResponse okFrame,
   .setOutputBuffer 128, .sendResponse okFrame, .subscribe, .sendMessage ⟨2#32, body⟩, .flush]

/-- Before F30 the clause is FALSE: on the witness schedule the second OK and the message frame
are handed to transport 0 (the raw TCP connection) while the client decodes stack 1; the client
recovers neither. -/
theorem output_on_negotiated_transport_false : ¬ OutputOnNegotiatedTransport false := by
  intro h
  exact absurd (h 16384 (secondIdentify [83, 69, 67, 82, 69, 84])) (by decide)

theorem second_identify_leaks_cleartext :
    (trun false (tconn0 16384) (secondIdentify [83, 69, 67, 82, 69, 84])).leaked =
      encodeFrame okFrame ++ encodeFrame ⟨2#32, [83, 69, 67, 82, 69, 84]⟩ ∧
    (trun false (tconn0 16384) (secondIdentify [83, 69, 67, 82, 69, 84])).seen =
      encodeFrame ⟨0#32, [123, 125]⟩ ++ encodeFrame okFrame := by decide

/-- Before F30, what still holds (*partial*; forced hypothesis: the connection never changes its
output buffer after an upgrade — the only shape go-nsq produces: one IDENTIFY per connection). -/
theorem output_on_negotiated_transport_partial (cap : Nat) (ops : List ConnOp)
    (h : NoRebufferAfterUpgrade ops = true) :
    let c := trun false (tconn0 cap) ops
    c.OnNegotiated ∧ c.leaked = [] ∧ c.seen ++ c.w.buf = (c.sent.map encodeFrame).flatten := by
  intro c
  have g : Good c := good_run_unfixed _ ops (good_tconn0 cap) rfl h
  refine ⟨good_onNegotiated c g, good_leaked c g, ?_⟩
  rw [good_seen c g]
  exact tstream false cap ops

/-- The statement parametrised by the tree (`Tie.WireStack.treeFixed` is computed from the regenerated
`SetOutputBuffer` statements): full with F30, the partial one before. For the checked tree see `this_tree_full`. -/
theorem this_tree (cap : Nat) (ops : List ConnOp)
    (h : Nsq.Tie.WireStack.treeFixed = true ∨ NoRebufferAfterUpgrade ops = true) :
    (trun Nsq.Tie.WireStack.treeFixed (tconn0 cap) ops).OnNegotiated ∧
    (trun Nsq.Tie.WireStack.treeFixed (tconn0 cap) ops).leaked = [] := by
  cases hf : Nsq.Tie.WireStack.treeFixed with
  | true => exact ⟨(output_on_negotiated_transport cap ops).1, (output_on_negotiated_transport cap ops).2.1⟩
  | false =>
    rcases h with h | h
    · rw [hf] at h; exact absurd h (by decide)
    · exact ⟨(output_on_negotiated_transport_partial cap ops h).1, (output_on_negotiated_transport_partial cap ops h).2.1⟩

/-- THIS tree, FRAME bytes only (the sync markers of `c.flateWriter` are `this_tree_k`; F30 = /repo d6aa4e3 is committed; audit B12): `Tie.WireStack.setOutputBuffer_shape` accepts only the
F30 shape, the facts decide `treeFixed = true`, and the clause holds for EVERY schedule with no hypothesis. A tree that
reverts F30 fails `tree_fixed` and this theorem with it. -/
theorem this_tree_full (cap : Nat) (ops : List ConnOp) :
    (trun Nsq.Tie.WireStack.treeFixed (tconn0 cap) ops).OnNegotiated ∧
    (trun Nsq.Tie.WireStack.treeFixed (tconn0 cap) ops).leaked = [] :=
  this_tree cap ops (Or.inl Nsq.Tie.WireStack.tree_fixed)

/-- … and on THIS tree the client decodes exactly the frames sent (claim audit 2, item 36: `this_tree_full` is
`OnNegotiated ∧ leaked = []` only; the decode conjunct of `output_on_negotiated_transport` is stated over `trun true`, here it
is transported to the tree the facts select): what the client has seen, transport by transport, plus what is still
buffered, is the concatenation of the encodings of the frames sent. -/
theorem this_tree_decodes (cap : Nat) (ops : List ConnOp) :
    (trun Nsq.Tie.WireStack.treeFixed (tconn0 cap) ops).seen ++ (trun Nsq.Tie.WireStack.treeFixed (tconn0 cap) ops).w.buf =
      (((trun Nsq.Tie.WireStack.treeFixed (tconn0 cap) ops).sent).map encodeFrame).flatten := by
  rw [Nsq.Tie.WireStack.tree_fixed]
  exact (output_on_negotiated_transport cap ops).2.2

/-- In BOTH trees no byte is lost, duplicated or reordered on the server side: the defect is where
the bytes go, not which bytes. -/
theorem no_byte_lost_either_tree (fixed : Bool) (cap : Nat) (ops : List ConnOp) :
    (trun fixed (tconn0 cap) ops).stream = (((trun fixed (tconn0 cap) ops).sent).map encodeFrame).flatten :=
  tstream fixed cap ops

/-- The round-6 connection model (`Props.C07.upgrade_loses_nothing`) is exactly the F30 tree with the
transport tags forgotten — so that theorem speaks about the fixed tree only. -/
theorem fixed_tree_is_round6_model (cap : Nat) (ops : List ConnOp) :
    (trun true (tconn0 cap) ops).forget = connRun (conn0 cap) ops :=
  forget_run (tconn0 cap) ops

/-! ## Non-vacuity -/

/-- the same schedule on the fixed tree: two segments (plain, then stack 1), nothing leaked, the
client sees all four frames -/
example : let c := trun true (tconn0 16384) (secondIdentify [83, 69, 67, 82, 69, 84])
    c.segs.map (fun s => (s.dest, s.want)) = [(0, 0), (1, 1)] ∧ c.leaked = [] ∧ c.sent.length = 4 ∧
    c.seen = (c.sent.map encodeFrame).flatten := by decide
/-- unfixed: three segments, the last one on the raw connection while the client reads stack 1 -/
example : (trun false (tconn0 16384) (secondIdentify [1])).segs.map (fun s => (s.dest, s.want, s.data.length)) =
    [(0, 0, 10), (1, 1, 10), (0, 1, 19)] := by decide
/-- the partial theorem's hypothesis is satisfiable by a schedule with a buffer change AND an upgrade -/
example : NoRebufferAfterUpgrade [.setOutputBuffer 64, .sendResponse okFrame, .upgrade 64, .sendResponse okFrame,
    .subscribe, .sendMessage ⟨2#32, [1]⟩] = true := by decide
example : NoRebufferAfterUpgrade (secondIdentify [1]) = false := by decide
/-- two upgrades (TLS, then snappy) and a re-buffer in between, fixed tree -/
example : let c := trun true (tconn0 8) [.upgrade 8, .sendResponse okFrame, .setOutputBuffer 64, .upgrade 64,
      .sendResponse okFrame, .setOutputBuffer 1, .sendResponse okFrame]
    c.segs.map (fun s => (s.dest, s.want, s.data.length)) = [(0, 0, 0), (1, 1, 10), (2, 2, 20)] := by decide
/-- the tree's model on the second-IDENTIFY schedule: nothing leaked -/
example : (trun Nsq.Tie.WireStack.treeFixed (tconn0 16384) (secondIdentify [83, 69, 67, 82, 69, 84])).leaked = [] :=
  (this_tree_full 16384 _).2
/-- … and the client decodes the frames sent (non-trivially: frames were sent) -/
example : (trun Nsq.Tie.WireStack.treeFixed (tconn0 16384) (secondIdentify [83, 69, 67, 82, 69, 84])).seen ++
      (trun Nsq.Tie.WireStack.treeFixed (tconn0 16384) (secondIdentify [83, 69, 67, 82, 69, 84])).w.buf =
    (((trun Nsq.Tie.WireStack.treeFixed (tconn0 16384) (secondIdentify [83, 69, 67, 82, 69, 84])).sent).map encodeFrame).flatten :=
  this_tree_decodes 16384 _
example : (trun true (tconn0 16384) (secondIdentify [83, 69, 67, 82, 69, 84])).sent ≠ [] := by decide

/-! ## Round 11 (fix review of F30): the sync markers of `c.flateWriter` — F30 is incomplete, F30b completes it

The theorems above speak about the bytes of the FRAMES. `clientV2.Flush` also flushes `c.flateWriter`, and a flate
writer left over from an earlier IDENTIFY writes its sync marker underneath the stack the client decodes. /repo
d6aa4e3 (F30) drops it in `UpgradeSnappy` only: IDENTIFY{deflate} followed by IDENTIFY{tls_v1} leaves it in place.
Model `kstep` (upgrade kinds, `c.tlsConn`, `c.flateWriter`, stray markers), tree `Tie.WireStack.tree`. -/

/-- The literal clause including the markers, for a tree: after EVERY sequence of protocol actions from a fresh
connection, every output byte — frame or marker of a flate writer that is not part of the client's stack — was handed
to the transport the client decodes with. -/
def OutputOnNegotiatedTransportK (tr : Tree) : Prop :=
  ∀ (cap : Nat) (ops : List KOp), (krun tr (kconn0 cap) ops).OnNegotiated

/-- With F30 + F30b: full strength. For every action sequence (any number of IDENTIFYs negotiating TLS, snappy,
deflate in ANY order, buffer changes, responses, messages, flushes, SUB): `c.flateWriter` is never stale, no stray
marker is ever written, all frame bytes are on the negotiated transport, nothing reaches the raw connection once an
upgrade has completed, and the client decodes exactly the frames sent. -/
theorem output_on_negotiated_transport_k (cap : Nat) (ops : List KOp) :
    let c := krun treeF30b (kconn0 cap) ops
    c.OnNegotiated ∧ ¬ c.Stale ∧ c.stray = [] ∧ c.t.leaked = [] ∧
      c.seen ++ c.t.w.buf = (c.t.sent.map encodeFrame).flatten := by
  intro c
  have hc : Clean c := clean_run treeF30b rfl rfl _ ops (clean_kconn0 cap)
  have ht : c.t = trun true (tconn0 cap) (ops.map KOp.forget) := krun_t treeF30b (kconn0 cap) ops
  have hf := output_on_negotiated_transport cap (ops.map KOp.forget)
  simp only [] at hf
  rw [← ht] at hf
  refine ⟨⟨hf.1, by simp [hc.2]⟩, ?_, hc.2, hf.2.1, ?_⟩
  · intro ⟨w, hw, hn⟩; exact hn (hc.1 w hw)
  · simp only [KConn.seen, hc.2]; exact hf.2.2

theorem output_on_negotiated_transport_k_full : OutputOnNegotiatedTransportK treeF30b :=
  fun cap ops => (output_on_negotiated_transport_k cap ops).1

/-- the fix reviewer's schedule: IDENTIFY{deflate} (document, upgrade, OK); IDENTIFY{tls_v1} (document, handshake,
OK); SUB; a message; flush -/
def tlsAfterDeflate (body : Bytes) : List KOp :=
  [.sendResponse ⟨0#32, [123, 125]⟩, .upgrade .deflate 16384, .sendResponse okFrame,
   .sendResponse ⟨0#32, [123, 125]⟩, .upgrade .tls 16384, .sendResponse okFrame,
   .subscribe, .sendMessage ⟨2#32, body⟩, .flush]

/-- On /repo d6aa4e3 (F30 alone) the clause is FALSE. -/
theorem output_on_negotiated_transport_k_false : ¬ OutputOnNegotiatedTransportK treeF30 := by
  intro h
  exact absurd (h 16384 (tlsAfterDeflate [83, 69, 67, 82, 69, 84])) (by decide)

/-- … what happens on the witness: the flate writer of upgrade 1 (writing to layer 0, the raw connection) is still
in `c.flateWriter` while the client decodes stack 2 (TLS); the `Flush` of the OK after the handshake and the later
flush each write its marker to the RAW connection; the client recovers the frames up to that OK (30 bytes) and loses
the message — although every frame byte went to the right transport. -/
theorem tls_after_deflate_garbles :
    let c := krun treeF30 (kconn0 16384) (tlsAfterDeflate [83, 69, 67, 82, 69, 84])
    c.fw = some ⟨1, 0⟩ ∧ c.Stale ∧ c.stray = [⟨0, 2, 40⟩, ⟨0, 2, 54⟩] ∧ c.t.OnNegotiated ∧
    c.seen = encodeFrame ⟨0#32, [123, 125]⟩ ++ encodeFrame okFrame ++ encodeFrame ⟨0#32, [123, 125]⟩ ++ encodeFrame okFrame ∧
    c.seen ≠ (c.t.sent.map encodeFrame).flatten := by decide

/-- In EVERY tree a stray marker goes to a layer strictly below the client's stack: the clause with markers is the
frame clause plus "no stale flate writer was ever flushed". -/
theorem stray_never_on_the_clients_stack (tr : Tree) (cap : Nat) (ops : List KOp) :
    let c := krun tr (kconn0 cap) ops
    (∀ s ∈ c.stray, s.dest < s.want) ∧ (c.OnNegotiated ↔ c.t.OnNegotiated ∧ c.stray = []) := by
  intro c
  have hl : Layered c := layered_run tr _ ops (layered_kconn0 cap)
  exact ⟨hl.2.2, kOnNegotiated_iff c hl⟩

/-- WHICH orders leave a stale flate writer on /repo d6aa4e3, for every action sequence: exactly those whose
performed upgrades satisfy `staleAfter` … -/
theorem stale_exactly (cap : Nat) (ops : List KOp) :
    let c := krun treeF30 (kconn0 cap) ops
    c.Stale ↔ staleAfter c.kinds = true := by
  intro c
  exact stale_iff_of_tracks c (fwTracks_run _ ops rfl)

/-- … and `staleAfter` in closed form (every list of kinds is of exactly one of the four shapes): stale iff the
last upgrade that was not TLS is a deflate AND at least one TLS upgrade followed it. deflate→tls, snappy→deflate→tls,
tls→deflate→tls, deflate→tls→tls are stale; snappy→tls, deflate→snappy→tls, deflate→tls→snappy, deflate→tls→deflate
are not. -/
theorem stale_orders (ks : List UKind) (n : Nat) :
    staleAfter (ks ++ [.deflate] ++ List.replicate (n + 1) .tls) = true ∧
    staleAfter (ks ++ [.deflate]) = false ∧
    staleAfter (ks ++ [.snappy] ++ List.replicate n .tls) = false ∧
    staleAfter (List.replicate n .tls) = false :=
  ⟨staleAfter_deflate_tls ks n, staleAfter_deflate_last ks, staleAfter_snappy ks n, staleAfter_only_tls n⟩

/-- /repo d6aa4e3, what still holds (*partial*; forced hypothesis: no IDENTIFY negotiates TLS once one has negotiated
deflate — go-nsq sends one IDENTIFY per connection, and within one IDENTIFY the server performs TLS first). -/
theorem output_on_negotiated_transport_k_partial (cap : Nat) (ops : List KOp) (h : NoTlsAfterDeflate ops = true) :
    let c := krun treeF30 (kconn0 cap) ops
    c.OnNegotiated ∧ c.stray = [] ∧ c.t.leaked = [] ∧ c.seen ++ c.t.w.buf = (c.t.sent.map encodeFrame).flatten := by
  intro c
  have e : c = krun treeF30b (kconn0 cap) ops := krun_F30_eq (kconn0 cap) ops rfl h
  have := output_on_negotiated_transport_k cap ops
  simp only [] at this
  rw [← e] at this
  exact ⟨this.1, this.2.2.1, this.2.2.2.1, this.2.2.2.2⟩

/-- Every schedule on the checked tree (`Tie.WireStack.tree`, computed from the regenerated `Upgrade*` bodies):
F30b is committed (/repo d424240) and `Tie.WireStack.tree_is_F30b` decides `tree = treeF30b` — the hypothesis this
theorem carried while two trees were accepted is discharged. -/
theorem this_tree_k_full (cap : Nat) (ops : List KOp) :
    (krun Nsq.Tie.WireStack.tree (kconn0 cap) ops).OnNegotiated ∧
    (krun Nsq.Tie.WireStack.tree (kconn0 cap) ops).stray = [] := by
  rw [Nsq.Tie.WireStack.tree_is_F30b]
  exact ⟨(output_on_negotiated_transport_k cap ops).1, (output_on_negotiated_transport_k cap ops).2.2.1⟩

/-- The round-11 statement with its disjunctive hypothesis (`tree = treeF30b`, or a schedule inside
`NoTlsAfterDeflate` — what d6aa4e3 alone guaranteed: `output_on_negotiated_transport_k_partial`), kept under its
name: with `Tie.WireStack.tree_is_F30b` the hypothesis is not needed any more (`this_tree_k_full`). -/
theorem this_tree_k (cap : Nat) (ops : List KOp)
    (_h : Nsq.Tie.WireStack.tree = treeF30b ∨ NoTlsAfterDeflate ops = true) :
    (krun Nsq.Tie.WireStack.tree (kconn0 cap) ops).OnNegotiated ∧
    (krun Nsq.Tie.WireStack.tree (kconn0 cap) ops).stray = [] :=
  this_tree_k_full cap ops

/-- the frame-level connection of the kinded model is the round-8 model: the theorems above it apply unchanged -/
theorem kinded_model_refines (tr : Tree) (cap : Nat) (ops : List KOp) :
    (krun tr (kconn0 cap) ops).t = trun tr.rebufferKeeps (tconn0 cap) (ops.map KOp.forget) :=
  krun_t tr (kconn0 cap) ops

/-! ## Non-vacuity (round 11) -/

/-- the reviewer's schedule on the F30b tree: no flate writer after the TLS upgrade, nothing stray, all four
responses and (after the flush) the message decoded -/
example : let c := krun treeF30b (kconn0 16384) (tlsAfterDeflate [83, 69, 67, 82, 69, 84])
    c.fw = none ∧ c.stray = [] ∧ c.kinds = [.deflate, .tls] ∧ c.seen = (c.t.sent.map encodeFrame).flatten := by decide
/-- tls → deflate → tls on d6aa4e3: the stale writer writes into the FIRST TLS session (layer 1) while the client
decodes the second (stack 3) -/
example : (krun treeF30 (kconn0 64) [.upgrade .tls 64, .sendResponse okFrame, .upgrade .deflate 64, .sendResponse okFrame,
    .upgrade .tls 64, .sendResponse okFrame]).stray = [⟨1, 3, 30⟩] := by decide
/-- snappy → tls and deflate → tls → snappy / deflate on d6aa4e3: nothing stale at the end (but deflate → tls → snappy
wrote one marker while the TLS-only stack was current: the OK after the handshake) -/
example : (krun treeF30 (kconn0 64) [.upgrade .snappy 64, .sendResponse okFrame, .upgrade .tls 64, .sendResponse okFrame]).stray = [] := by decide
example : let c := krun treeF30 (kconn0 64) [.upgrade .deflate 64, .sendResponse okFrame, .upgrade .tls 64, .sendResponse okFrame,
    .upgrade .snappy 64, .sendResponse okFrame]
    ¬ c.Stale ∧ c.stray = [⟨0, 2, 20⟩] := by decide
/-- before F30 (`snappyClears = false`): deflate → snappy, the finding `snappy-after-deflate-garbled` -/
example : (krun ⟨true, false, false⟩ (kconn0 64) [.upgrade .deflate 64, .sendResponse okFrame, .upgrade .snappy 64,
    .sendResponse okFrame]).stray = [⟨0, 2, 20⟩] := by decide
/-- a `SetOutputBuffer` on the stale connection writes no marker (`c.Writer.Flush()` only), the next response does -/
example : (krun treeF30 (kconn0 64) [.upgrade .deflate 64, .upgrade .tls 64, .setOutputBuffer 128]).stray = [] ∧
    (krun treeF30 (kconn0 64) [.upgrade .deflate 64, .upgrade .tls 64, .setOutputBuffer 128, .sendResponse okFrame]).stray
      = [⟨0, 2, 10⟩] := by decide
/-- the partial theorem's hypothesis: satisfied by TLS, then deflate, then re-buffers; violated by the witness -/
example : NoTlsAfterDeflate [.upgrade .tls 64, .sendResponse okFrame, .upgrade .deflate 64, .setOutputBuffer 128,
    .sendResponse okFrame, .subscribe, .sendMessage ⟨2#32, [1]⟩] = true := by decide
example : NoTlsAfterDeflate (tlsAfterDeflate [1]) = false := by decide
example : staleAfter [.deflate, .tls] = true ∧ staleAfter [.snappy, .deflate, .tls] = true ∧
    staleAfter [.tls, .deflate, .tls] = true ∧ staleAfter [.deflate, .tls, .tls] = true ∧
    staleAfter [.snappy, .tls] = false ∧ staleAfter [.deflate, .snappy, .tls] = false ∧
    staleAfter [.deflate, .tls, .snappy] = false ∧ staleAfter [.deflate, .tls, .deflate] = false := by decide
/-- the checked tree on a schedule within the old hypothesis -/
example : (krun Nsq.Tie.WireStack.tree (kconn0 64) [.upgrade .tls 64, .sendResponse okFrame, .upgrade .deflate 64,
    .sendResponse okFrame]).stray = [] := (this_tree_k 64 _ (Or.inr (by decide))).2
/-- the checked tree on the reviewer's schedule (OUTSIDE `NoTlsAfterDeflate`): nothing stray, no stale writer -/
example : (krun Nsq.Tie.WireStack.tree (kconn0 16384) (tlsAfterDeflate [83, 69, 67, 82, 69, 84])).stray = [] :=
  (this_tree_k_full 16384 _).2
example : (krun Nsq.Tie.WireStack.tree (kconn0 16384) (tlsAfterDeflate [83, 69, 67, 82, 69, 84])).fw = none := by
  rw [Nsq.Tie.WireStack.tree_is_F30b]; decide

end Nsq.Props.C07Stack
