import Nsq.Proofs.AggregateNames
import Nsq.Proofs.AggregateSafe
import Nsq.Proofs.AggregateSums
import Nsq.Proofs.AggregateMerge
import Nsq.Proofs.AggregateFetch
import Nsq.Proofs.AggregateDedup
import Nsq.Proofs.Fetch
import Nsq.Proofs.AggregateWrap
import Nsq.Proofs.Latency
import Nsq.Proofs.ViewOrder
import Nsq.Proofs.AggregateViews
import Nsq.Proofs.AggregateChannels
import Nsq.Proofs.AggregateTree
/-!
# C18 — nsqadmin's cluster view equals the sum of its parts

Property theorems only, about the model `Nsq.Model.Aggregate` (tied to the code by the
correspondence harness `harness/e7/view_test.go`: generated clusters, every subset of failing
upstreams, malformed answers, both modes). They hold for every cluster: any number of
nsqlookupd / nsqd, any topics, channels, clients and counter values (counters are unbounded
integers: the sum statements are about the mathematical sums; what Go's int64 makes of them is
`int64_sum_wraps` … `counters_go_sum` below).

The fetch goroutines finish in any order; the model processes upstreams in list order and the
`_order` theorems show that what is claimed does not depend on that order.

`Fixes.tree` is the tree as committed: the six guards in /repo (F4, null array elements, missing latency member, channel
not found, `nilPct` = F53 / commit 905ac51, `clearNodes` = F54 / commit 786fd8f) and NOT `inactiveErrs` = F58
(`GET /api/topics?inactive=true` throws the errors of its per-topic fetches away): F58 was committed as 783e91a and
REVERTED by 338c8a6 — it turned nsqlookupd's ordinary `404 TOPIC_NOT_FOUND` (topic unknown to that lookupd) into permanent
warnings and, with a single nsqlookupd, into a 502 of the whole listing (found by the fix review). The finding
`view:inactive-drops-errors` is open again (`inactive_drops_errors_this_tree`, replayed on every run); `Fixes.all` =
`Fixes.tree` + that switch is kept as the documented proposal (`inactive_warning`, `inactive_view_lists` are theorems about
it). Every other theorem stated for `Fixes.all` does not look at `inactiveErrs` (only `topicsInactiveView` does): that is
PROVED in the section "The committed tree" — `tree_view_eq_all` (`view Fixes.tree w q = view Fixes.all w q` for every
`q ≠ .topicsInactive`) and the function-level equations of `Proofs.AggregateTree` (`nsqdStats_tree`, `addAll_tree`,
`lookupdProducers_tree`, `getTopicProducers_tree`, `topicView_tree`, …) carry each of them over to `Fixes.tree`;
`view_no_panic_tree` and `inactive_view_lists_tree` are the statements for the committed tree itself. The
`*_without_*` theorems are the Lean witnesses that the unguarded code misbehaves (each replayed on the real code by the check).
One clause of the property is false of the code *and* of `Fixes.all`: "502 only when none answers" with
zero known producers (`only_502_when_something_failed_false`, open finding, no patch).

What is a statement about the upstreams and what is not (audit 7, C24): `sum_fields`, `channels_merge` speak about
intermediate values (any list of reports / the reports GetNSQDStats returned); `topic_view_is_sum` and
`channel_view_is_merge` only *unfold the handler* (they hold by the definition of `topicView` / `channelView` and
are kept as lemmas). The statements that tie a view to the `World` are those of the section "The views and what the
upstreams hold": `topic_view_from_upstreams`, `topic_view_channels_from_upstreams`, `channel_view_from_upstreams`, `counter_view_from_upstreams`,
`nodes_view_lookupd` / `_direct`, `node_view_from_upstream`, `topic_producers_direct`, `topic_view_shown_int64`,
`partial_warning_*_nsqd`, and `inactive_warning`, `inactive_view_lists` for `?inactive=true`.
-/
namespace Nsq.Props.C18
open Nsq.Model.Aggregate
open Nsq.Proofs.AggregateNames Nsq.Proofs.AggregateSafe Nsq.Proofs.AggregateSums
open Nsq.Proofs.AggregateMerge Nsq.Proofs.AggregateFetch Nsq.Proofs.AggregateDedup
open Nsq.Proofs.AggregateViews Nsq.Proofs.AggregateChannels Nsq.Proofs.AggregateTree

/-! ## topics_union -/

/-- **topics_union (nsqlookupd mode).** `/api/topics` lists a strictly increasing (sorted,
duplicate-free) list that contains exactly the topics some responding nsqlookupd reports. -/
theorem topics_union (ls : List Lookupd) (ts : List String) (f : Nat)
    (h : lookupdTopics ls = .got ts f) :
    ts.Pairwise (· < ·) ∧
    ∀ t, t ∈ ts ↔ ∃ l ∈ ls, ∃ names, l.topics = some names ∧ t ∈ names := by
  unfold lookupdTopics at h
  simp only [] at h
  split at h
  · cases h
  · simp only [Fetched.got.injEq] at h
    obtain ⟨h1, _⟩ := h
    subst h1
    refine ⟨names_sorted _, fun t => ?_⟩
    rw [names_mem]
    simp only [List.mem_flatten, List.mem_filterMap, List.mem_map, id_eq]
    constructor
    · rintro ⟨names, ⟨a, ⟨l, hl, rfl⟩, ha⟩, ht⟩
      exact ⟨l, hl, names, ha, ht⟩
    · rintro ⟨l, hl, names, ha, ht⟩
      exact ⟨names, ⟨_, ⟨l, hl, rfl⟩, ha⟩, ht⟩

/-- … whatever the order in which the nsqlookupds answer. -/
theorem topics_union_order (ls ls' : List Lookupd) (h : ls.Perm ls') :
    lookupdTopics ls = lookupdTopics ls' := by
  unfold lookupdTopics
  have hp : (ls.map (·.topics)).Perm (ls'.map (·.topics)) := h.map _
  have hc : countFailed (ls.map (·.topics)) = countFailed (ls'.map (·.topics)) :=
    (hp.filter _).length_eq
  have hn := names_perm _ _ ((hp.filterMap id).flatten)
  simp only [hc, h.length_eq, hn]

/-- **topics_union (direct-nsqd mode).** The same for the topic names in the `/stats` answers
of the configured nsqds. -/
theorem topics_union_nsqd (w : World) (ts : List String) (f : Nat) (h : nsqdTopics w = .got ts f) :
    ts.Pairwise (· < ·) ∧
    ∀ t, t ∈ ts ↔ ∃ a ∈ w.nsqdAddrs, ∃ ans, statsOf w a "" "" true = some ans ∧ t ∈ topicNames ans := by
  unfold nsqdTopics at h
  simp only [] at h
  split at h
  · cases h
  · simp only [Fetched.got.injEq] at h
    obtain ⟨h1, _⟩ := h
    subst h1
    refine ⟨names_sorted _, fun t => ?_⟩
    rw [names_mem]
    simp only [List.mem_flatten, List.mem_filterMap, List.mem_map, id_eq]
    constructor
    · rintro ⟨names, ⟨ans, ⟨o, ⟨a, ha, rfl⟩, ho⟩, rfl⟩, ht⟩
      exact ⟨a, ha, ans, ho, ht⟩
    · rintro ⟨a, ha, ans, ho, ht⟩
      exact ⟨_, ⟨ans, ⟨_, ⟨a, ha, rfl⟩, ho⟩, rfl⟩, ht⟩

example : (match lookupdTopics [⟨"L0", some ["b", "a", "b"], none, none⟩, ⟨"L1", none, none, none⟩,
      ⟨"L2", some ["c", "a"], none, none⟩] with
    | .got _ f => f
    | .allFailed => 9) = 1 := by decide

/-! ## producers_dedup -/

/-- **producers_dedup.** `/api/nodes` in nsqlookupd mode has exactly one entry per TCP address
mentioned by any responding nsqlookupd (null array elements are skipped). -/
theorem producers_dedup (ls : List Lookupd) (ps : List Producer) (f : Nat)
    (h : lookupdProducers Fixes.all ls = .ok (.got ps f)) :
    (ps.map (·.tcp)).Nodup ∧ ∀ k, k ∈ ps.map (·.tcp) ↔ k ∈ mentioned ls :=
  lookupdProducers_dedup Fixes.all ls ps f h

def pj (host addr tcp remote : String) : ProducerJSON :=
  { hostname := host, addr := addr, tcp := tcp, version := "1.3.0", ver := (1, 3, 0), remote := remote,
    topics := ["t"], tombstones := [false] }

/-- Non-vacuity: two nsqlookupds reporting the same node give one entry with both remote
addresses collected. -/
example : (match lookupdProducers Fixes.all
      [⟨"L0", none, some [some (pj "h" "N0" "N0:4150" "10.0.0.1:1")], none⟩,
       ⟨"L1", none, some [some (pj "h" "N0" "N0:4150" "10.0.0.2:2"), none], none⟩] with
    | .ok (.got ps _) => ps.map (fun p => (p.tcp, p.remotes))
    | _ => []) = [("N0:4150", ["L0/10.0.0.1:1", "L1/10.0.0.2:2"])] := by decide

/-! ## sum_fields -/

/-- **sum_fields.** Folding `TopicStats.Add` over any list of node reports gives, for every
counter, the sum of the reports' counters; `paused` is the disjunction; the node list is the list
of reports. -/
theorem sum_fields (fx : Fixes) (name : String) (reports : List TopicNode) (t : TopicAgg)
    (h : TopicAgg.addAll fx reports { name := name } = .ok t) :
    t.nodes = reports ∧ t.paused = reports.any (·.paused) ∧
    t.cnt.depth = isum (reports.map (·.cnt.depth)) ∧
    t.cnt.memDepth = isum (reports.map (·.cnt.memDepth)) ∧
    t.cnt.backendDepth = isum (reports.map (·.cnt.backendDepth)) ∧
    t.cnt.msgCount = isum (reports.map (·.cnt.msgCount)) ∧
    t.cnt.delivery = isum (reports.map (·.cnt.delivery)) ∧
    t.cnt.zoneLocal = isum (reports.map (·.cnt.zoneLocal)) ∧
    t.cnt.regionLocal = isum (reports.map (·.cnt.regionLocal)) ∧
    t.cnt.globalMsg = isum (reports.map (·.cnt.globalMsg)) := by
  obtain ⟨h1, h2, h3, _⟩ := addAll_spec fx reports _ t h
  have key : ∀ (π : Counters → Int), (∀ a b, π (a.add b) = π a + π b) → π ({} : Counters) = 0 →
      π t.cnt = isum (reports.map (fun r => π r.cnt)) := by
    intro π hadd hz
    rw [h1, sumFrom_proj π hadd, hz]
    simp [List.map_map, Function.comp_def]
  refine ⟨by simpa using h2, by simpa using h3, ?_, ?_, ?_, ?_, ?_, ?_, ?_, ?_⟩
  · exact key (·.depth) (fun _ _ => rfl) rfl
  · exact key (·.memDepth) (fun _ _ => rfl) rfl
  · exact key (·.backendDepth) (fun _ _ => rfl) rfl
  · exact key (·.msgCount) (fun _ _ => rfl) rfl
  · exact key (·.delivery) (fun _ _ => rfl) rfl
  · exact key (·.zoneLocal) (fun _ _ => rfl) rfl
  · exact key (·.regionLocal) (fun _ _ => rfl) rfl
  · exact key (·.globalMsg) (fun _ _ => rfl) rfl

/-- … and the sums do not depend on the order in which the node reports arrive. -/
theorem sum_fields_order (fx : Fixes) (name : String) (r₁ r₂ : List TopicNode) (t₁ t₂ : TopicAgg)
    (hp : r₁.Perm r₂) (h₁ : TopicAgg.addAll fx r₁ { name := name } = .ok t₁)
    (h₂ : TopicAgg.addAll fx r₂ { name := name } = .ok t₂) :
    t₁.cnt = t₂.cnt ∧ t₁.paused = t₂.paused := by
  obtain ⟨a1, _, a3, _⟩ := addAll_spec fx r₁ _ t₁ h₁
  obtain ⟨b1, _, b3, _⟩ := addAll_spec fx r₂ _ t₂ h₂
  refine ⟨?_, ?_⟩
  · rw [a1, b1]; exact sumFrom_perm (hp.map _) _
  · rw [a3, b3]
    have : r₁.any (·.paused) = r₂.any (·.paused) := by
      rw [Bool.eq_iff_iff]; simp only [List.any_eq_true]
      exact ⟨fun ⟨x, hx, hp'⟩ => ⟨x, hp.mem_iff.1 hx, hp'⟩, fun ⟨x, hx, hp'⟩ => ⟨x, hp.mem_iff.2 hx, hp'⟩⟩
    rw [this]

/-- The per-node fields nsqadmin recomputes: `memory_depth = depth - backend_depth`,
`delivery_msg_count` = the sum of the three locality counters. -/
theorem derived_fields (c : Counters) :
    c.derive.memDepth = c.depth - c.backendDepth ∧
    c.derive.delivery = c.zoneLocal + c.regionLocal + c.globalMsg := ⟨rfl, rfl⟩

def tn (node : String) (d m : Int) (p : Bool) : TopicNode :=
  { node := node, hostname := node, name := "t", cnt := { depth := d, msgCount := m }, paused := p,
    channels := [], e2e := true }

example : (match TopicAgg.addAll Fixes.all [tn "a" 3 10 false, tn "b" 0 5 true, tn "c" 1000000000000 0 false]
      { name := "t" } with
    | .ok t => (t.cnt.depth, t.cnt.msgCount, t.paused, t.nodes.length)
    | .error _ => (0, 0, false, 0)) = (1000000000003, 15, true, 3) := by decide

/-! ## channels_merge -/

/-- **channels_merge.** The channel map GetNSQDStats builds has exactly one entry per key
(channel name, or "topic:channel" when no topic is selected) among the per-node channel reports it
returns, and that entry is the reports with that key merged: counters summed, clients
concatenated, the reports themselves as its node list, `paused` or-ed. -/
theorem channels_merge (fx : Fixes) (w : World) (ps : List Producer) (sel selc : String) (incl : Bool)
    (ts : List TopicNode) (m : ChanMap) (f : Nat)
    (h : nsqdStats fx w ps sel selc incl = .ok (.got (ts, m) f)) (k : String) :
    let reports := (chansOfTopics ts).filter (fun c => chanKey sel c == k)
    (reports = [] → lookup m k = none) ∧
    (reports ≠ [] → ∃ c, lookup m k = some c ∧
      c.cnt = sumFrom {} (reports.map (·.cnt)) ∧
      c.clients = reports.flatMap (·.clients) ∧
      c.nodes = reports ∧ c.paused = reports.any (·.paused)) := by
  intro reports
  have hg := nsqdStats_grouped fx w ps sel selc incl ts m f h k
  unfold groupOf at hg
  constructor
  · intro he
    simp only [reports] at he
    simpa [he] using hg
  · intro hne
    cases hr : reports with
    | nil => exact absurd hr hne
    | cons a rest =>
      simp only [reports] at hr
      simp only [hr] at hg
      obtain ⟨h1, h2, h3, h4, _, _⟩ := fold_addPure_spec (a :: rest) (fresh a)
      refine ⟨_, hg, ?_, ?_, ?_, ?_⟩
      · simpa [fresh] using h1
      · simpa [fresh] using h2
      · simpa [fresh] using h3
      · simpa [fresh] using h4

/-- … and a channel's merged counters do not depend on the order of the node reports. -/
theorem channels_merge_order (c0 : Counters) (r₁ r₂ : List ChanNode) (hp : r₁.Perm r₂) :
    sumFrom c0 (r₁.map (·.cnt)) = sumFrom c0 (r₂.map (·.cnt)) :=
  sumFrom_perm (hp.map _) c0

/-! ## partial_warning -/

/-- **partial_warning (`/api/topics`).** 502 iff no upstream answered; otherwise 200, with a
warning iff some upstream failed. -/
theorem partial_warning_topics (w : World) (hl : w.lookupds ≠ []) :
    ((topicsView w).status = 502 ↔ ∀ l ∈ w.lookupds, l.topics = none) ∧
    ((topicsView w).status = 200 ∨ (topicsView w).status = 502) ∧
    ((topicsView w).status = 200 →
      ((topicsView w).warn = true ↔ ∃ l ∈ w.lookupds, l.topics = none)) := by
  have hne : (!w.lookupds.isEmpty) = true := by
    cases hw : w.lookupds with
    | nil => exact absurd hw hl
    | cons _ _ => rfl
  have hrule := mapped_rule (w.lookupds.map (·.topics)) w.lookupds.length (by simp)
    (fun xs => sortNames (uniq xs.flatten)) (lookupdTopics w.lookupds) (by simp [lookupdTopics])
  have hall : (∀ a ∈ w.lookupds.map (·.topics), a = none) ↔ ∀ l ∈ w.lookupds, l.topics = none := by simp
  unfold topicsView
  simp only [hne, if_true]
  cases hr : lookupdTopics w.lookupds with
  | allFailed =>
    simp only [hr] at hrule
    exact ⟨⟨fun _ => hall.1 (hrule.1.1 trivial), fun _ => rfl⟩, Or.inr rfl, fun h => by simp at h⟩
  | got ts f =>
    simp only [hr] at hrule
    obtain ⟨hf, hlt⟩ := hrule.2 ts f rfl
    refine ⟨⟨fun h => by simp at h, fun hn => ?_⟩, Or.inl rfl, fun _ => ?_⟩
    · exact absurd (hrule.1.2 (hall.2 hn)) (by simp)
    · simp only [decide_eq_true_eq]
      rw [hf]
      constructor
      · intro hpos
        by_cases hex : ∃ l ∈ w.lookupds, l.topics = none
        · exact hex
        · have : ∀ a ∈ w.lookupds.map (·.topics), a.isNone = false := by
            intro a ha
            simp only [List.mem_map] at ha
            obtain ⟨l, hl', rfl⟩ := ha
            cases ht : l.topics with
            | none => exact absurd ⟨l, hl', ht⟩ hex
            | some _ => rfl
          have : countFailed (w.lookupds.map (·.topics)) = 0 := by
            unfold countFailed
            rw [List.length_eq_zero_iff, List.filter_eq_nil_iff]
            intro a ha; simp [this a ha]
          omega
      · rintro ⟨l, hl', hn⟩
        unfold countFailed
        apply List.length_pos_of_mem (a := l.topics)
        simp [List.mem_filter, hn]
        exact ⟨l, hl', hn⟩

/-- **partial_warning (`/api/topics/:t`, `/api/topics/:t/:c`, `/api/counter`).** Two stages:
the producers, then their `/stats`. 502 iff a stage got no answer at all (in particular when no
producer is known); otherwise the answer is built from what did answer and carries a warning iff
any answer of either stage failed. -/
theorem partial_warning_topic (w : World) (name : String) (v : View)
    (h : topicView Fixes.all w name = .ok v) :
    ∃ s1, getTopicProducers Fixes.all w name = .ok s1 ∧
      match s1 with
      | .allFailed => v.status = 502
      | .got ps f1 =>
        let answers := statsAnswers w ps name "" false
        ((∀ a ∈ answers, a = none) → v.status = 502) ∧
        ((∃ a ∈ answers, a ≠ none) →
          v.status = 200 ∧ v.warn = (decide (f1 > 0) || decide (countFailed answers > 0))) := by
  unfold topicView at h
  obtain ⟨s1, hs1⟩ := getTopicProducers_ok w name
  refine ⟨s1, hs1, ?_⟩
  simp only [hs1] at h
  cases s1 with
  | allFailed => simp only [Except.ok.injEq] at h; subst h; rfl
  | got ps f1 =>
    obtain ⟨s2, hs2⟩ := nsqdStats_ok w ps name "" false
    simp only [hs2] at h
    have hrule := nsqdStats_rule Fixes.all w ps name "" false s2 hs2
    cases s2 with
    | allFailed =>
      simp only [Except.ok.injEq] at h; subst h
      refine ⟨fun _ => rfl, fun ⟨a, ha, hne⟩ => ?_⟩
      exact absurd (hrule.1.1 rfl a ha) hne
    | got tm f2 =>
      obtain ⟨ts, m⟩ := tm
      obtain ⟨t, ht⟩ := addAll_ok ts name (nsqdStats_clean w ps name "" false ts m f2 hs2)
      simp only [ht, Except.ok.injEq] at h
      subst h
      obtain ⟨hf, _⟩ := hrule.2 _ f2 rfl
      refine ⟨fun hall => ?_, fun _ => ⟨rfl, by simp [hf]⟩⟩
      exact absurd (hrule.1.2 hall) (by simp)

/-- The same two-stage rule for `/api/topics/:t/:c` (plus 404 when no node reports the channel). -/
theorem partial_warning_channel (w : World) (topic chan : String) (v : View)
    (h : channelView Fixes.all w topic chan = .ok v) :
    ∃ s1, getTopicProducers Fixes.all w topic = .ok s1 ∧
      match s1 with
      | .allFailed => v.status = 502
      | .got ps f1 =>
        let answers := statsAnswers w ps topic chan true
        ((∀ a ∈ answers, a = none) → v.status = 502) ∧
        ((∃ a ∈ answers, a ≠ none) →
          v.status = 404 ∨
          (v.status = 200 ∧ v.warn = (decide (f1 > 0) || decide (countFailed answers > 0)))) := by
  unfold channelView at h
  obtain ⟨s1, hs1⟩ := getTopicProducers_ok w topic
  refine ⟨s1, hs1, ?_⟩
  simp only [hs1] at h
  cases s1 with
  | allFailed => simp only [Except.ok.injEq] at h; subst h; rfl
  | got ps f1 =>
    obtain ⟨s2, hs2⟩ := nsqdStats_ok w ps topic chan true
    simp only [hs2] at h
    have hrule := nsqdStats_rule Fixes.all w ps topic chan true s2 hs2
    cases s2 with
    | allFailed =>
      simp only [Except.ok.injEq] at h; subst h
      refine ⟨fun _ => rfl, fun ⟨a, ha, hne⟩ => ?_⟩
      exact absurd (hrule.1.1 rfl a ha) hne
    | got tm f2 =>
      obtain ⟨ts, m⟩ := tm
      obtain ⟨hf, _⟩ := hrule.2 _ f2 rfl
      simp only [] at h
      cases hfind : m.find? (·.1 == chan) with
      | none =>
        simp only [hfind, all_chanNotFound, if_true, Except.ok.injEq] at h
        subst h
        exact ⟨fun hall => absurd (hrule.1.2 hall) (by simp), fun _ => Or.inl rfl⟩
      | some kc =>
        simp only [hfind, Except.ok.injEq] at h
        subst h
        exact ⟨fun hall => absurd (hrule.1.2 hall) (by simp), fun _ => Or.inr ⟨rfl, by simp [hf]⟩⟩

/-- … and for `/api/counter` (all producers, then all their `/stats`). -/
theorem partial_warning_counter (w : World) (v : View) (h : counterView Fixes.all w = .ok v) :
    ∃ s1, getProducers Fixes.all w = .ok s1 ∧
      match s1 with
      | .allFailed => v.status = 502
      | .got ps f1 =>
        let answers := statsAnswers w ps "" "" false
        ((∀ a ∈ answers, a = none) → v.status = 502) ∧
        ((∃ a ∈ answers, a ≠ none) →
          v.status = 200 ∧ v.warn = (decide (f1 > 0) || decide (countFailed answers > 0))) := by
  unfold counterView at h
  obtain ⟨s1, hs1⟩ := getProducers_ok w
  refine ⟨s1, hs1, ?_⟩
  simp only [hs1] at h
  cases s1 with
  | allFailed => simp only [Except.ok.injEq] at h; subst h; rfl
  | got ps f1 =>
    obtain ⟨s2, hs2⟩ := nsqdStats_ok w ps "" "" false
    simp only [hs2] at h
    have hrule := nsqdStats_rule Fixes.all w ps "" "" false s2 hs2
    cases s2 with
    | allFailed =>
      simp only [Except.ok.injEq] at h; subst h
      refine ⟨fun _ => rfl, fun ⟨a, ha, hne⟩ => ?_⟩
      exact absurd (hrule.1.1 rfl a ha) hne
    | got tm f2 =>
      obtain ⟨ts, m⟩ := tm
      obtain ⟨hf, _⟩ := hrule.2 _ f2 rfl
      simp only [Except.ok.injEq] at h
      subst h
      exact ⟨fun hall => absurd (hrule.1.2 hall) (by simp), fun _ => ⟨rfl, by simp [hf]⟩⟩

/-- Unfolding lemma (holds by the definition of `topicView` / `channelView`; no statement about the upstreams — that
is `topic_view_from_upstreams` / `channel_view_from_upstreams`): what `/api/topics/:t` shows is `sum_fields` applied to
the node reports GetNSQDStats returned, and what `/api/topics/:t/:c` shows is the `channels_merge` entry of the channel. -/
theorem topic_view_is_sum (w : World) (name : String) (v : View)
    (h : topicView Fixes.all w name = .ok v) (h200 : v.status = 200) :
    ∃ ps f1 ts m f2 t, getTopicProducers Fixes.all w name = .ok (.got ps f1) ∧
      nsqdStats Fixes.all w ps name "" false = .ok (.got (ts, m) f2) ∧
      TopicAgg.addAll Fixes.all ts { name := name } = .ok t ∧ v.body = .topic t := by
  unfold topicView at h
  obtain ⟨s1, hs1⟩ := getTopicProducers_ok w name
  simp only [hs1] at h
  cases s1 with
  | allFailed => simp only [Except.ok.injEq] at h; subst h; simp at h200
  | got ps f1 =>
    obtain ⟨s2, hs2⟩ := nsqdStats_ok w ps name "" false
    simp only [hs2] at h
    cases s2 with
    | allFailed => simp only [Except.ok.injEq] at h; subst h; simp at h200
    | got tm f2 =>
      obtain ⟨ts, m⟩ := tm
      obtain ⟨t, ht⟩ := addAll_ok ts name (nsqdStats_clean w ps name "" false ts m f2 hs2)
      simp only [ht, Except.ok.injEq] at h
      subst h
      exact ⟨ps, f1, ts, m, f2, t, hs1, hs2, ht, rfl⟩

theorem channel_view_is_merge (w : World) (topic chan : String) (v : View)
    (h : channelView Fixes.all w topic chan = .ok v) (h200 : v.status = 200) :
    ∃ ps f1 ts m f2 c, getTopicProducers Fixes.all w topic = .ok (.got ps f1) ∧
      nsqdStats Fixes.all w ps topic chan true = .ok (.got (ts, m) f2) ∧
      lookup m chan = some c ∧ v.body = .channel c := by
  unfold channelView at h
  obtain ⟨s1, hs1⟩ := getTopicProducers_ok w topic
  simp only [hs1] at h
  cases s1 with
  | allFailed => simp only [Except.ok.injEq] at h; subst h; simp at h200
  | got ps f1 =>
    obtain ⟨s2, hs2⟩ := nsqdStats_ok w ps topic chan true
    simp only [hs2] at h
    cases s2 with
    | allFailed => simp only [Except.ok.injEq] at h; subst h; simp at h200
    | got tm f2 =>
      obtain ⟨ts, m⟩ := tm
      simp only [] at h
      cases hfind : m.find? (·.1 == chan) with
      | none =>
        simp only [hfind, all_chanNotFound, if_true, Except.ok.injEq] at h
        subst h; simp at h200
      | some kc =>
        simp only [hfind, Except.ok.injEq] at h
        subst h
        exact ⟨ps, f1, ts, m, f2, kc.2, hs1, hs2, by simp [lookup, hfind], rfl⟩

/-- **partial_warning (`/api/nodes`, nsqlookupd mode).** -/
theorem partial_warning_nodes (w : World) (hl : w.lookupds ≠ []) (v : View)
    (h : nodesView Fixes.all w = .ok v) :
    (v.status = 502 ↔ ∀ l ∈ w.lookupds, l.nodes = none) ∧
    (v.status = 200 ∨ v.status = 502) ∧
    (v.status = 200 → v.warn = decide (countFailed (w.lookupds.map (·.nodes)) > 0)) := by
  have hne : (!w.lookupds.isEmpty) = true := by
    cases hw : w.lookupds with
    | nil => exact absurd hw hl
    | cons _ _ => rfl
  unfold nodesView getProducers at h
  simp only [hne, if_true] at h
  obtain ⟨r, hr⟩ := lookupdProducers_ok w.lookupds
  have hrule := lookupdProducers_rule Fixes.all w.lookupds r hr
  simp only [hr] at h
  cases r with
  | allFailed =>
    simp only [Except.ok.injEq] at h; subst h
    exact ⟨⟨fun _ => hrule.1.1 rfl, fun _ => rfl⟩, Or.inr rfl, fun h => by simp at h⟩
  | got ps f =>
    simp only [Except.ok.injEq] at h; subst h
    obtain ⟨hf, _⟩ := hrule.2 ps f rfl
    refine ⟨⟨fun h => by simp at h, fun hn => ?_⟩, Or.inl rfl, fun _ => by simp [hf]⟩
    exact absurd (hrule.1.2 hn) (by simp)

/-- **partial_warning (`/api/nodes/:n`).** One producer is queried: its failure is "none
answered" (502); an unknown node is 404. -/
theorem partial_warning_node (w : World) (addr : String) (v : View)
    (h : nodeView Fixes.all w addr = .ok v) : v.status = 200 ∨ v.status = 404 ∨ v.status = 502 := by
  unfold nodeView at h
  obtain ⟨r, hr⟩ := getProducers_ok w
  simp only [hr] at h
  cases r with
  | allFailed => simp only [Except.ok.injEq] at h; subst h; exact Or.inr (Or.inr rfl)
  | got ps f =>
    simp only [] at h
    cases hf : ps.find? (·.addr == addr) with
    | none => simp only [hf, Except.ok.injEq] at h; subst h; exact Or.inr (Or.inl rfl)
    | some p =>
      simp only [hf] at h
      obtain ⟨r2, h2⟩ := nsqdStats_ok w [p] "" "" true
      simp only [h2] at h
      cases r2 with
      | allFailed => simp only [Except.ok.injEq] at h; subst h; exact Or.inr (Or.inr rfl)
      | got tm f2 =>
        obtain ⟨ts, m⟩ := tm
        simp only [Except.ok.injEq] at h; subst h; exact Or.inl rfl


/-! ## view_no_panic -/

/-- **view_no_panic.** On the tree with the guards (`Fixes.all`) every view of every cluster —
including null array elements, short or long tombstone arrays, missing latency members, channels
no node reports — completes: no fetch goroutine panics (the process lives) and no handler goes
through the router's panic handler (no 500). -/
theorem view_no_panic (w : World) (req : Request) :
    ∃ v, view Fixes.all w req = .ok v ∧ v.status ≠ 500 :=
  view_ok w req

/-- The statement for an arbitrary tree: false without the guards (next four theorems). -/
def view_no_panic_for (fx : Fixes) : Prop :=
  ∀ (w : World) (req : Request), ∃ v, view fx w req = .ok v ∧ v.status ≠ 500

/-- The fault of a run, if any. -/
def faultOf (r : Except Fault View) : Option Fault :=
  match r with
  | .error f => some f
  | .ok _ => none

def info0 : Info := { hostname := "h", addr := "N0", tcp := "N0:4150", version := "1.3.0", ver := (1, 3, 0) }

/-- DESIGN F4: a `/nodes` reply with two topics and one tombstone. -/
def f4World : World :=
  { lookupds := [⟨"L0", some [], some [some { pj "h" "N0" "N0:4150" "r" with topics := ["t1", "t2"], tombstones := [false] }], none⟩],
    nsqdAddrs := [], nsqds := [] }

theorem view_panics_without_tombstone_bounds :
    faultOf (view { Fixes.all with tombBounds := false } f4World .nodes) =
      some (.indexOutOfRange "Producer.UnmarshalJSON tombstones[i]") := by decide

theorem view_no_panic_false_without_tombstone_bounds :
    ¬ view_no_panic_for { Fixes.all with tombBounds := false } := by
  intro h
  obtain ⟨v, hv, _⟩ := h f4World .nodes
  have := view_panics_without_tombstone_bounds
  rw [hv] at this
  cases this

def nullProducerWorld : World :=
  { lookupds := [⟨"L0", some [], some [none], none⟩], nsqdAddrs := [], nsqds := [] }

theorem view_panics_without_nil_guards :
    faultOf (view { Fixes.all with nilElems := false } nullProducerWorld .nodes) =
      some (.nilDeref "GetLookupdProducers producer.TCPAddress()") := by decide

def chan0 (e2e : Bool) : Chan := { name := "c1", cnt := {}, paused := false, clients := [], e2e := e2e }
def topic0 (e2e : Bool) : Topic :=
  { name := "t1", cnt := {}, paused := false, e2e := true, channels := [some (chan0 e2e)] }
def nsqd0 (e2e : Bool) : Nsqd :=
  { addr := "N0", info := some info0, filters := true, stats := some [some (topic0 e2e)] }
def chanWorld (e2e : Bool) : World := { lookupds := [], nsqdAddrs := ["N0"], nsqds := [nsqd0 e2e] }

theorem view_panics_without_e2e_guard :
    faultOf (view { Fixes.all with nilE2e := false } (chanWorld false) (.channel "t1" "c1")) =
      some (.nilDeref "ChannelStats.Add a.E2eProcessingLatency") := by decide

/-- A channel no node reports: a recovered panic (500) without the 404 guard. -/
theorem channel_500_without_guard :
    (match view { Fixes.all with chanNotFound := false } (chanWorld true) (.channel "t1" "nosuch") with
     | .ok v => v.status
     | .error _ => 0) = 500 := by decide

example : (match view Fixes.all (chanWorld true) (.channel "t1" "nosuch") with
    | .ok v => v.status | .error _ => 0) = 404 := by decide
example : (match view Fixes.all f4World .nodes with
    | .ok v => v.status | .error _ => 0) = 200 := by decide

/-! ## The views and what the upstreams hold (audit round 7, C24)

The theorems above speak about intermediate values (`sum_fields` about a fold over *any* reports, `channels_merge`
about the reports GetNSQDStats *returned*). The theorems of this section close the gap to the `World`: what each view
returns is stated in terms of the answers the upstreams give (`statsOf`, `infoOf`, `Lookupd.nodes`). `reportsOf w sel
selc incl p` is producer `p`'s own `/stats` answer read the way nsqadmin reads it (`Proofs.AggregateViews`: null
entries dropped, the selected topic kept, `memory_depth` / `delivery_msg_count` recomputed, `Node` / `Hostname`
filled in from `p`) — empty when the request fails. -/

/-- **topic_view_from_upstreams.** What `/api/topics/:t` shows, in both modes: its node list is — producer by
producer, over the producers stage one returned — every topic object named `:t` in that producer's own `/stats`
answer (`mem_reports` spells the membership out on the answer); its counters are the sums over exactly those objects,
`paused` their disjunction. (Who the producers are: `topic_producers_direct`; nsqlookupd mode: the de-duplicated
`/lookup` answers, `lookupdTopicProducers`.) -/
theorem topic_view_from_upstreams (w : World) (name : String) (v : View)
    (h : topicView Fixes.all w name = .ok v) (h200 : v.status = 200) :
    ∃ ps f1 t, getTopicProducers Fixes.all w name = .ok (.got ps f1) ∧ v.body = .topic t ∧
      let reports := ps.flatMap (reportsOf w name "" false)
      t.nodes = reports ∧ t.paused = reports.any (·.paused) ∧
      t.cnt.depth = isum (reports.map (·.cnt.depth)) ∧
      t.cnt.memDepth = isum (reports.map (·.cnt.memDepth)) ∧
      t.cnt.backendDepth = isum (reports.map (·.cnt.backendDepth)) ∧
      t.cnt.msgCount = isum (reports.map (·.cnt.msgCount)) ∧
      t.cnt.delivery = isum (reports.map (·.cnt.delivery)) ∧
      t.cnt.zoneLocal = isum (reports.map (·.cnt.zoneLocal)) ∧
      t.cnt.regionLocal = isum (reports.map (·.cnt.regionLocal)) ∧
      t.cnt.globalMsg = isum (reports.map (·.cnt.globalMsg)) ∧
      ∀ r, r ∈ reports ↔ ∃ p ∈ ps, ∃ ans tp, statsOf w p.addr name "" false = some ans ∧
        some tp ∈ ans ∧ (name = "" ∨ tp.name = name) ∧ r = topicReport p tp := by
  obtain ⟨ps, f1, ts, m, f2, t, h1, h2, h3, h4⟩ := topic_view_is_sum w name v h h200
  have hts := nsqdStats_reports w ps name "" false ts m f2 h2
  subst hts
  obtain ⟨s1, s2, s3, s4, s5, s6, s7, s8, s9, s10⟩ := sum_fields Fixes.all name _ t h3
  refine ⟨ps, f1, t, h1, h4, s1, s2, s3, s4, s5, s6, s7, s8, s9, s10, fun r => ?_⟩
  have := mem_reports w name "" false ps r
  simpa using this

/-- Non-vacuity: two nsqds report `t1` (one of them also an unrelated topic), a third one fails. -/
def tvTopic (n : String) (d m : Int) : Topic :=
  { name := n, cnt := { depth := d, msgCount := m }, paused := false, channels := [], e2e := true }
def tvWorld : World :=
  { lookupds := [], nsqdAddrs := ["N0", "N1", "N2"],
    nsqds := [{ addr := "N0", info := some info0, filters := false, stats := some [some (tvTopic "t1" 3 10), some (tvTopic "zz" 100 100)] },
              { addr := "N1", info := some { info0 with addr := "N1" }, filters := true, stats := some [some (tvTopic "t1" 4 5)] },
              { addr := "N2", info := some { info0 with addr := "N2" }, filters := true, stats := none }] }
example : (match topicView Fixes.all tvWorld "t1" with
    | .ok { status := 200, warn := true, body := .topic t } => (t.cnt.depth, t.cnt.msgCount, t.nodes.map (·.node))
    | _ => (0, 0, [])) = (7, 15, ["N0", "N1"]) := by decide

/-- **channel_view_from_upstreams.** What `/api/topics/:t/:c` shows: the channel objects with the asked key among
the `/stats` answers of the producers — listed as its node reports, counters summed, clients concatenated, `paused`
or-ed. -/
theorem channel_view_from_upstreams (w : World) (topic chan : String) (v : View)
    (h : channelView Fixes.all w topic chan = .ok v) (h200 : v.status = 200) :
    ∃ ps f1 c, getTopicProducers Fixes.all w topic = .ok (.got ps f1) ∧ v.body = .channel c ∧
      let reports := (chansOfTopics (ps.flatMap (reportsOf w topic chan true))).filter (fun r => chanKey topic r == chan)
      reports ≠ [] ∧ c.nodes = reports ∧ c.cnt = sumFrom {} (reports.map (·.cnt)) ∧
      c.clients = reports.flatMap (·.clients) ∧ c.paused = reports.any (·.paused) := by
  obtain ⟨ps, f1, ts, m, f2, c, h1, h2, h3, h4⟩ := channel_view_is_merge w topic chan v h h200
  have hts := nsqdStats_reports w ps topic chan true ts m f2 h2
  subst hts
  have hm := channels_merge Fixes.all w ps topic chan true _ m f2 h2 chan
  simp only [] at hm
  refine ⟨ps, f1, c, h1, h4, ?_⟩
  by_cases hne : (chansOfTopics (ps.flatMap (reportsOf w topic chan true))).filter (fun r => chanKey topic r == chan) = []
  · have := hm.1 hne
    rw [h3] at this
    cases this
  · obtain ⟨c', hc', e1, e2, e3, e4⟩ := hm.2 hne
    rw [h3] at hc'
    cases hc'
    exact ⟨hne, e3, e1, e2, e4⟩

def cvChan (d : Int) (cl : List (Option Client)) : Chan :=
  { name := "c1", cnt := { depth := d }, paused := false, clients := cl, e2e := true }
def cvWorld : World :=
  { lookupds := [], nsqdAddrs := ["N0", "N1"],
    nsqds := [{ addr := "N0", info := some info0, filters := true,
                stats := some [some { tvTopic "t1" 0 0 with channels := [some (cvChan 3 [some ⟨"h", "a"⟩, none])] }] },
              { addr := "N1", info := some { info0 with addr := "N1" }, filters := true,
                stats := some [some { tvTopic "t1" 0 0 with channels := [some (cvChan 4 [some ⟨"h", "b"⟩]), none] }] }] }
example : (match channelView Fixes.all cvWorld "t1" "c1" with
    | .ok { status := 200, warn := false, body := .channel c } => (c.cnt.depth, c.clients.map (·.clientId), c.nodes.length)
    | _ => (0, [], 0)) = (7, ["a", "b"], 2) := by decide

/-- **topic_view_channels_from_upstreams.** The merged channel list of `/api/topics/:t`, in both modes: with `crs` the
channel objects of the topic objects named `:t` in the `/stats` answers of the stage-one producers (in order), the
list has exactly one entry per channel name occurring in `crs`, and the entry of a name is made of *all* reports with
that name: counters summed, clients concatenated, `paused` or-ed; its node list holds every report but the first
(whose object the entry is). No hypothesis on duplicates: a node that lists a channel twice contributes two reports. -/
theorem topic_view_channels_from_upstreams (w : World) (name : String) (v : View)
    (h : topicView Fixes.all w name = .ok v) (h200 : v.status = 200) :
    ∃ ps f1 t, getTopicProducers Fixes.all w name = .ok (.got ps f1) ∧ v.body = .topic t ∧
      let crs := chansOfTopics (ps.flatMap (reportsOf w name "" false))
      (t.channels.map (·.name)).Nodup ∧
      (∀ n, n ∈ t.channels.map (·.name) ↔ ∃ r ∈ crs, r.name = n) ∧
      ∀ c ∈ t.channels, ∃ a0 rest, crs.filter (fun r => r.name == c.name) = a0 :: rest ∧
        c.cnt = sumFrom {} ((a0 :: rest).map (·.cnt)) ∧ c.nodes = rest ∧
        c.clients = (a0 :: rest).flatMap (·.clients) ∧ c.paused = (a0 :: rest).any (·.paused) := by
  obtain ⟨ps, f1, ts, m, f2, t, h1, h2, h3, h4⟩ := topic_view_is_sum w name v h h200
  have hts := nsqdStats_reports w ps name "" false ts m f2 h2
  subst hts
  have hch := addAll_channels Fixes.all _ _ t h3
  exact ⟨ps, f1, t, h1, h4, merged_spec _ _ (by simpa using hch)⟩

/-- Non-vacuity: N0 reports `c1` twice (3, 1) and `c2`; N1 reports `c1` (4): `c1` = 8 with two further node entries. -/
def mcWorld : World :=
  { lookupds := [], nsqdAddrs := ["N0", "N1"],
    nsqds := [{ addr := "N0", info := some info0, filters := true,
                stats := some [some { tvTopic "t1" 0 0 with channels :=
                  [some (cvChan 3 []), some (cvChan 1 []), some { cvChan 5 [] with name := "c2" }, none] }] },
              { addr := "N1", info := some { info0 with addr := "N1" }, filters := true,
                stats := some [some { tvTopic "t1" 0 0 with channels := [some (cvChan 4 [])] }] }] }
example : (match topicView Fixes.all mcWorld "t1" with
    | .ok { status := 200, warn := false, body := .topic t } => t.channels.map (fun c => (c.name, c.cnt.depth, c.nodes.length))
    | _ => []) = [("c1", 8, 2), ("c2", 5, 0)] := by decide

/-- The (key, value) pairs of `/api/counter`, read off the upstreams' answers: for every key of GetNSQDStats'
channel map, one pair per channel object with that key — key `topic:channel:node` with the topic and channel name of
the *first* such object, value its `message_count`. (`channels_merge` says what the map holds: exactly the channel
objects of the reports, grouped by `topic:channel`.) -/
def counterPairs (m : ChanMap) : List (String × Int) := counterEntries m

/-- **counter_view_from_upstreams.** `/api/counter`: the channel map is the grouping (`channels_merge`) of the channel
objects in the `/stats` answers of the producers of `/api/nodes` (`reportsOf`); the view has exactly one entry per
distinct `topic:channel:node` among the pairs, holding the *sum* of the `message_count`s given under that key (a node
that lists a channel twice is counted twice). -/
theorem counter_view_from_upstreams (w : World) (v : View)
    (h : counterView Fixes.all w = .ok v) (h200 : v.status = 200) :
    ∃ ps f1 m f2 st, getProducers Fixes.all w = .ok (.got ps f1) ∧
      nsqdStats Fixes.all w ps "" "" false = .ok (.got (ps.flatMap (reportsOf w "" "" false), m) f2) ∧
      v.body = .counter st ∧ (st.map (·.1)).Nodup ∧
      (∀ k, k ∈ st.map (·.1) ↔ k ∈ (counterPairs m).map (·.1)) ∧
      (∀ k, valueAt st k = valueAt (counterPairs m) k) := by
  unfold counterView at h
  obtain ⟨s1, hs1⟩ := getProducers_ok w
  simp only [hs1] at h
  cases s1 with
  | allFailed => simp only [Except.ok.injEq] at h; subst h; simp at h200
  | got ps f1 =>
    obtain ⟨s2, hs2⟩ := nsqdStats_ok w ps "" "" false
    simp only [hs2] at h
    cases s2 with
    | allFailed => simp only [Except.ok.injEq] at h; subst h; simp at h200
    | got tm f2 =>
      obtain ⟨ts, m⟩ := tm
      simp only [Except.ok.injEq] at h
      subst h
      have hts := nsqdStats_reports w ps "" "" false ts m f2 hs2
      subst hts
      obtain ⟨c1, c2, c3⟩ := counterFold_spec (counterEntries m) [] (by simp)
      refine ⟨ps, f1, m, f2, counterOf m, hs1, hs2, rfl, ?_, ?_, ?_⟩
      · rw [counterOf_eq]; exact c1
      · intro k; rw [counterOf_eq, c2]; simp [counterPairs]
      · intro k; rw [counterOf_eq, c3]; simp [counterPairs, valueAt, isum]

def ctWorld : World :=
  { lookupds := [], nsqdAddrs := ["N0", "N1"],
    nsqds := [{ addr := "N0", info := some info0, filters := true,
                stats := some [some { tvTopic "t1" 0 0 with channels :=
                  [some { cvChan 0 [] with cnt := { msgCount := 5 } }, some { cvChan 0 [] with cnt := { msgCount := 2 } }] }] },
              { addr := "N1", info := some { info0 with addr := "N1" }, filters := true,
                stats := some [some { tvTopic "t1" 0 0 with channels := [some { cvChan 0 [] with cnt := { msgCount := 9 } }] }] }] }
/-- Node N0 lists `c1` twice (5 + 2), N1 once. -/
example : (match counterView Fixes.all ctWorld with
    | .ok { status := 200, warn := false, body := .counter st } => st
    | _ => []) = [("t1:c1:N0", 7), ("t1:c1:N1", 9)] := by decide

/-- **nodes_view_lookupd.** `/api/nodes`, nsqlookupd mode: exactly one entry per TCP address that a responding
nsqlookupd mentions in a non-null element of its `/nodes` answer. -/
theorem nodes_view_lookupd (w : World) (hl : w.lookupds ≠ []) (v : View)
    (h : nodesView Fixes.all w = .ok v) (h200 : v.status = 200) :
    ∃ ps, v.body = .nodes ps ∧ (ps.map (·.tcp)).Nodup ∧ ∀ k, k ∈ ps.map (·.tcp) ↔ k ∈ mentioned w.lookupds := by
  have hne : (!w.lookupds.isEmpty) = true := by
    cases hw : w.lookupds with
    | nil => exact absurd hw hl
    | cons _ _ => rfl
  unfold nodesView getProducers at h
  simp only [hne, if_true] at h
  obtain ⟨r, hr⟩ := lookupdProducers_ok w.lookupds
  simp only [hr] at h
  cases r with
  | allFailed => simp only [Except.ok.injEq] at h; subst h; simp at h200
  | got ps f =>
    simp only [Except.ok.injEq] at h; subst h
    exact ⟨ps, rfl, producers_dedup w.lookupds ps f hr⟩

/-- **nodes_view_direct.** `/api/nodes`, direct mode: the configured nsqds whose `/info` *and*
`/stats?include_clients=false` both answer, in configuration order, each with the fields of its `/info` answer and
the topic names of its `/stats` answer (a null topic element gives the empty name); the others are counted as failed.
(No fall-back on the configured address when `/info` lacks `broadcast_address` — unlike the topic view,
`topic_producers_direct`.) -/
theorem nodes_view_direct (w : World) (hl : w.lookupds = []) (v : View)
    (h : nodesView Fixes.all w = .ok v) (h200 : v.status = 200) :
    ∃ ps, v.body = .nodes ps ∧ ps = w.nsqdAddrs.filterMap (nsqdProducer w) ∧
      v.warn = decide (countFailed (w.nsqdAddrs.map (nsqdProducer w)) > 0) ∧
      ∀ p, p ∈ ps ↔ ∃ a ∈ w.nsqdAddrs, ∃ i ans, infoOf w a = some i ∧ statsOf w a "" "" false = some ans ∧
        p = producerOfInfo i ans := by
  unfold nodesView getProducers at h
  simp only [hl, List.isEmpty_nil, Bool.not_true, Bool.false_eq_true, if_false] at h
  have hrule := mapped_rule (w.nsqdAddrs.map (nsqdProducer w)) w.nsqdAddrs.length (by simp)
    (fun xs => xs) (nsqdProducers w w.nsqdAddrs) (by simp [nsqdProducers])
  cases hr : nsqdProducers w w.nsqdAddrs with
  | allFailed => simp only [hr, Except.ok.injEq] at h; subst h; simp at h200
  | got ps f =>
    simp only [hr, Except.ok.injEq] at h; subst h
    obtain ⟨hf, _⟩ := hrule.2 ps f hr
    have hps : ps = w.nsqdAddrs.filterMap (nsqdProducer w) := by
      unfold nsqdProducers at hr
      simp only [] at hr
      split at hr
      · cases hr
      · simp only [Fetched.got.injEq] at hr
        rw [← hr.1]; simp [List.filterMap_map]
    refine ⟨ps, rfl, hps, by simp [hf], fun p => ?_⟩
    rw [hps]
    simp only [List.mem_filterMap]
    constructor
    · rintro ⟨a, ha, ho⟩
      obtain ⟨i, ans, h1, h2, h3⟩ := (nsqdProducer_eq w a p).1 ho
      exact ⟨a, ha, i, ans, h1, h2, h3⟩
    · rintro ⟨a, ha, i, ans, h1, h2, h3⟩
      exact ⟨a, ha, (nsqdProducer_eq w a p).2 ⟨i, ans, h1, h2, h3⟩⟩

example : (match nodesView Fixes.all tvWorld with
    | .ok { status := 200, warn := true, body := .nodes ps } => ps.map (fun p => (p.addr, p.topics.map (·.topic)))
    | _ => []) = [("N0", ["t1", "zz"]), ("N1", ["t1"])] := by decide

/-- **topic_producers_direct.** Stage one of the topic and channel views in direct mode: the configured nsqds whose
`/stats?topic=:t` answers *and lists the topic* and whose `/info` answers; an nsqd that answers without the topic is
neither a producer nor a failure; a failing `/stats`, or a failing `/info` of an nsqd that has the topic, is one
failure each. -/
theorem topic_producers_direct (w : World) (hl : w.lookupds = []) (topic : String) :
    ∃ r, getTopicProducers Fixes.all w topic = .ok r ∧
      (r = .allFailed ↔ ∀ a ∈ w.nsqdAddrs, nsqdTopicProducer w topic a = none) ∧
      ∀ ps f, r = .got ps f →
        f = countFailed (w.nsqdAddrs.map (nsqdTopicProducer w topic)) ∧
        ∀ p, p ∈ ps ↔ ∃ a ∈ w.nsqdAddrs, nsqdTopicProducer w topic a = some (some p) := by
  unfold getTopicProducers
  simp only [hl, List.isEmpty_nil, Bool.not_true, Bool.false_eq_true, if_false]
  refine ⟨_, rfl, ?_⟩
  have hrule := mapped_rule (w.nsqdAddrs.map (nsqdTopicProducer w topic)) w.nsqdAddrs.length (by simp)
    (fun xs => xs.filterMap id) (nsqdTopicProducers w topic) (by simp [nsqdTopicProducers])
  refine ⟨?_, fun ps f hr => ?_⟩
  · rw [hrule.1]; simp
  · refine ⟨(hrule.2 ps f hr).1, fun p => ?_⟩
    unfold nsqdTopicProducers at hr
    simp only [] at hr
    split at hr
    · cases hr
    · simp only [Fetched.got.injEq] at hr
      rw [← hr.1]
      simp only [List.mem_filterMap, List.mem_map, id_eq]
      constructor
      · rintro ⟨o, ⟨oo, ⟨a, ha, rfl⟩, hoo⟩, ho⟩
        subst ho
        exact ⟨a, ha, hoo⟩
      · rintro ⟨a, ha, hp⟩
        exact ⟨some p, ⟨_, ⟨a, ha, rfl⟩, hp⟩, rfl⟩

/-- The `/info` fall-back of GetNSQDTopicProducers (data.go, "for backwards compatibility"), which
GetNSQDProducers lacks: an nsqd whose `/info` has no `broadcast_address` is shown by the topic view under its
configured address (and its `/stats` is fetched there), while `/api/nodes` lists it under the address `:0` that
nobody answers on — so `/api/counter` and `/api/nodes/:n` cannot reach it (one failed upstream, a warning). -/
def oldInfoWorld : World :=
  { lookupds := [], nsqdAddrs := ["N0"],
    nsqds := [{ addr := "N0", filters := true, stats := some [some (tvTopic "t1" 3 10)],
                info := some { hostname := "", addr := ":0", tcp := ":4150", version := "0.2.16", ver := (0, 2, 16), noBcast := true } }] }
theorem info_fallback_asymmetry :
    (match topicView Fixes.all oldInfoWorld "t1" with
     | .ok { status := 200, warn := false, body := .topic t } => t.nodes.map (fun n => (n.node, n.hostname))
     | _ => []) = [("N0", "127.0.0.1")] ∧
    (match nodesView Fixes.all oldInfoWorld with
     | .ok { status := 200, warn := false, body := .nodes ps } => ps.map (fun p => (p.addr, p.hostname))
     | _ => []) = [(":0", "")] ∧
    (match counterView Fixes.all oldInfoWorld with | .ok v => v.status | .error _ => 0) = 502 := by decide

/-- **node_view_from_upstream.** `/api/nodes/:n`: 502 when no producer source answers or the node's own `/stats`
fails, 404 when the producer list has no node with that HTTP address; otherwise the topic objects of *that node's*
`/stats` answer, `total_messages` the sum of their `message_count`, `total_clients` the number of (non-null) client
objects in their channels; the warning is that of the producer stage only. -/
theorem node_view_from_upstream (w : World) (addr : String) (v : View)
    (h : nodeView Fixes.all w addr = .ok v) :
    ∃ s1, getProducers Fixes.all w = .ok s1 ∧
      match s1 with
      | .allFailed => v.status = 502
      | .got ps f =>
        match ps.find? (·.addr == addr) with
        | none => v.status = 404
        | some p =>
          (statsOf w p.addr "" "" true = none → v.status = 502) ∧
          (statsOf w p.addr "" "" true ≠ none →
            v.status = 200 ∧ v.warn = decide (f > 0) ∧
            let ts := reportsOf w "" "" true p
            v.body = .node addr ts (isum (ts.map (·.cnt.msgCount)))
              (isum (ts.map (fun t => isum (t.channels.map (fun c => (c.clients.length : Int))))))) := by
  unfold nodeView at h
  obtain ⟨r, hr⟩ := getProducers_ok w
  refine ⟨r, hr, ?_⟩
  simp only [hr] at h
  cases r with
  | allFailed => simp only [Except.ok.injEq] at h; subst h; rfl
  | got ps f =>
    simp only [] at h ⊢
    cases hf : ps.find? (·.addr == addr) with
    | none => simp only [hf, Except.ok.injEq] at h; subst h; rfl
    | some p =>
      simp only [hf] at h ⊢
      obtain ⟨r2, h2⟩ := nsqdStats_ok w [p] "" "" true
      simp only [h2] at h
      have hrule := nsqdStats_rule Fixes.all w [p] "" "" true r2 h2
      have hans : statsAnswers w [p] "" "" true = [statsOf w p.addr "" "" true] := by
        simp [statsAnswers]
      cases r2 with
      | allFailed =>
        simp only [Except.ok.injEq] at h; subst h
        refine ⟨fun _ => rfl, fun hne => ?_⟩
        have := hrule.1.1 rfl (statsOf w p.addr "" "" true) (by rw [hans]; simp)
        exact absurd this hne
      | got tm f2 =>
        obtain ⟨ts, m⟩ := tm
        simp only [Except.ok.injEq] at h; subst h
        have hts := nsqdStats_reports w [p] "" "" true ts m f2 h2
        simp only [List.flatMap_cons, List.flatMap_nil, List.append_nil] at hts
        subst hts
        refine ⟨fun hn => ?_, fun _ => ⟨rfl, rfl, rfl⟩⟩
        have : Fetched.got (reportsOf w "" "" true p, m) f2 = Fetched.allFailed :=
          hrule.1.2 (by rw [hans]; simpa using hn)
        cases this

example : (match nodeView Fixes.all ctWorld "N0" with
    | .ok { status := 200, warn := false, body := .node "N0" ts tm tc } => (ts.length, tm, tc)
    | _ => (0, 0, 0)) = (1, 0, 0) := by decide
example : (match nodeView Fixes.all cvWorld "N0" with
    | .ok { status := 200, body := .node _ _ _ tc, .. } => tc
    | _ => 0) = 1 := by decide

/-- **partial_warning (`/api/topics`, direct mode).** 502 iff no configured nsqd answers `/stats`; otherwise 200
with a warning iff some does not. -/
theorem partial_warning_topics_nsqd (w : World) (hl : w.lookupds = []) :
    let answers := w.nsqdAddrs.map (fun a => statsOf w a "" "" true)
    ((topicsView w).status = 502 ↔ ∀ a ∈ answers, a = none) ∧
    ((topicsView w).status = 200 ∨ (topicsView w).status = 502) ∧
    ((topicsView w).status = 200 → (topicsView w).warn = decide (countFailed answers > 0)) := by
  intro answers
  have hrule := mapped_rule answers w.nsqdAddrs.length (by simp [answers])
    (fun xs => sortNames (uniq (xs.map topicNames).flatten)) (nsqdTopics w) (by simp [nsqdTopics, answers])
  unfold topicsView
  simp only [hl, List.isEmpty_nil, Bool.not_true, Bool.false_eq_true, if_false]
  cases hr : nsqdTopics w with
  | allFailed =>
    exact ⟨⟨fun _ => hrule.1.1 hr, fun _ => rfl⟩, Or.inr rfl, fun h => by simp at h⟩
  | got ts f =>
    obtain ⟨hf, _⟩ := hrule.2 ts f hr
    refine ⟨⟨fun h => by simp at h, fun hn => ?_⟩, Or.inl rfl, fun _ => by simp [hf]⟩
    have := hrule.1.2 hn
    rw [hr] at this
    cases this

/-- **partial_warning (`/api/nodes`, direct mode).** An nsqd counts as failed when its `/info` or its `/stats` fails. -/
theorem partial_warning_nodes_nsqd (w : World) (hl : w.lookupds = []) (v : View)
    (h : nodesView Fixes.all w = .ok v) :
    (v.status = 502 ↔ ∀ a ∈ w.nsqdAddrs, infoOf w a = none ∨ statsOf w a "" "" false = none) ∧
    (v.status = 200 ∨ v.status = 502) ∧
    (v.status = 200 → v.warn = decide (countFailed (w.nsqdAddrs.map (nsqdProducer w)) > 0)) := by
  have hrule := mapped_rule (w.nsqdAddrs.map (nsqdProducer w)) w.nsqdAddrs.length (by simp)
    (fun xs => xs) (nsqdProducers w w.nsqdAddrs) (by simp [nsqdProducers])
  have hnone : ∀ a, nsqdProducer w a = none ↔ (infoOf w a = none ∨ statsOf w a "" "" false = none) := by
    intro a
    unfold nsqdProducer
    cases infoOf w a <;> cases statsOf w a "" "" false <;> simp
  unfold nodesView getProducers at h
  simp only [hl, List.isEmpty_nil, Bool.not_true, Bool.false_eq_true, if_false] at h
  cases hr : nsqdProducers w w.nsqdAddrs with
  | allFailed =>
    simp only [hr, Except.ok.injEq] at h; subst h
    refine ⟨⟨fun _ a ha => (hnone a).1 ?_, fun _ => rfl⟩, Or.inr rfl, fun h => by simp at h⟩
    exact hrule.1.1 hr _ (List.mem_map.2 ⟨a, ha, rfl⟩)
  | got ps f =>
    simp only [hr, Except.ok.injEq] at h; subst h
    obtain ⟨hf, _⟩ := hrule.2 ps f hr
    refine ⟨⟨fun h => by simp at h, fun hn => ?_⟩, Or.inl rfl, fun _ => by simp [hf]⟩
    have : nsqdProducers w w.nsqdAddrs = .allFailed := by
      apply hrule.1.2
      intro o ho
      obtain ⟨a, ha, rfl⟩ := List.mem_map.1 ho
      exact (hnone a).2 (hn a ha)
    rw [hr] at this
    cases this

/-! ### The numbers a view shows are Go's int64 sums of the numbers the upstreams sent

`AggregateWire` (the driver) prints `wrap64 x` for every integer `x` of a view body, and the correspondence compares
that with the int64 nsqadmin prints. `shown x` names this rendering; the theorem says that for the topic view it is the
running int64 sum (`goSum`: `+=` with wrap-around at every step) over the producers' own numbers — and the exact sum
exactly when that fits. -/

def shown (x : Int) : Int := Nsq.Model.Int64.wrap64 x

open Nsq.Model.Int64 in
/-- **topic_view_shown_int64.** -/
theorem topic_view_shown_int64 (w : World) (name : String) (v : View)
    (h : topicView Fixes.all w name = .ok v) (h200 : v.status = 200) :
    ∃ ps f1 t, getTopicProducers Fixes.all w name = .ok (.got ps f1) ∧ v.body = .topic t ∧
      let reports := ps.flatMap (reportsOf w name "" false)
      shown t.cnt.depth = goSum (reports.map (·.cnt.depth)) ∧
      shown t.cnt.backendDepth = goSum (reports.map (·.cnt.backendDepth)) ∧
      shown t.cnt.msgCount = goSum (reports.map (·.cnt.msgCount)) ∧
      shown t.cnt.memDepth = goSum (reports.map (·.cnt.memDepth)) ∧
      (shown t.cnt.depth = isum (reports.map (·.cnt.depth)) ↔ inRange (isum (reports.map (·.cnt.depth)))) := by
  obtain ⟨ps, f1, t, h1, h2, _, _, d1, d2, d3, d4, _⟩ := topic_view_from_upstreams w name v h h200
  refine ⟨ps, f1, t, h1, h2, shown_sum _ _ d1, shown_sum _ _ d3, shown_sum _ _ d4, shown_sum _ _ d2, ?_⟩
  unfold shown
  rw [d1]
  exact Nsq.Proofs.Int64.wrap64_eq_iff _

/-- Two nodes at 2^62 each: the view shows -2^63 (and the real handler does: clusters of this kind are in the views stream). -/
example : (match topicView Fixes.all
      { tvWorld with nsqds := [{ addr := "N0", info := some info0, filters := true, stats := some [some (tvTopic "t1" 4611686018427387904 0)] },
                               { addr := "N1", info := some { info0 with addr := "N1" }, filters := true, stats := some [some (tvTopic "t1" 4611686018427387904 0)] }] } "t1" with
    | .ok { body := .topic t, .. } => shown t.cnt.depth
    | _ => 0) = -9223372036854775808 := by decide

/-! ## `/api/topics?inactive=true` (audit round 7, C25; `fixes/F58` — committed 783e91a, reverted 338c8a6: a proposal again)

With `?inactive=true` topicsHandler asks, for every topic of the list, every nsqlookupd for the producers
(`/lookup?topic=`) and — for a topic without producers — for the channels (`/channels?topic=`). The unchanged code
throws both errors away (`Fixes.tree`; tie `Tie.AdminAgg.topics_inactive_discards_errors`). `Fixes.inactiveErrs` is the
handler as F58 proposed it (partial error → warning, total → 502) — not in /repo. -/

def inaP : ProducerJSON := pj "h" "N0" "N0:4150" "r"
/-- Two nsqlookupds list `t1`. L0 knows no producer of it; L1 — the one that would know one — fails `/lookup?topic=t1`. -/
def inactiveWorld : World :=
  { lookupds := [⟨"L0", some ["t1"], some [], some []⟩, ⟨"L1", some ["t1"], some [some inaP], some [some inaP]⟩],
    nsqdAddrs := [], nsqds := [],
    perTopic := [⟨"L0", "t1", some [], some ["c2", "c1"]⟩, ⟨"L1", "t1", none, some ["c1"]⟩] }
/-- Both fail `/lookup?topic=t1`. -/
def inactiveWorldTotal : World :=
  { inactiveWorld with perTopic := [⟨"L0", "t1", none, some ["c1"]⟩, ⟨"L1", "t1", none, some ["c1"]⟩] }

def statusWarn (r : Except Fault View) : Nat × Bool :=
  match r with
  | .ok v => (v.status, v.warn)
  | .error _ => (0, false)

theorem inactiveWorld_topics : lookupdTopics inactiveWorld.lookupds = .got ["t1"] 0 := by
  simp [lookupdTopics, inactiveWorld, countFailed, uniq, sortNames]

/-- The handler after the topic list is known (nsqlookupd mode). -/
theorem inactive_view_eq (fx : Fixes) (w : World) (ts : List String) (f : Nat)
    (hne : w.lookupds.isEmpty = false) (h : lookupdTopics w.lookupds = .got ts f) :
    view fx w .topicsInactive =
      (match inactiveGo fx w ts with
       | .error e => .error e
       | .ok none => .ok { status := 502 }
       | .ok (some (m, wn)) => .ok { status := 200, warn := f > 0 || wn, body := .inactive m }) := by
  simp only [view, topicsInactiveView, hne, Bool.false_eq_true, if_false, h]
  cases inactiveGo fx w ts with
  | error e => rfl
  | ok r =>
    cases r with
    | none => rfl
    | some x => rfl

/-- **The defect (audit C25) is genuine on the tree without F58**: an nsqlookupd fails one of the per-topic
requests and the view is a 200 *without* warning (listing as inactive a topic whose producer only the failing
nsqlookupd knows); all of them fail and it is still a 200, every topic "inactive". With F58: 200 *with* warning, and 502. -/
theorem inactive_drops_errors_without_F58 :
    statusWarn (view { Fixes.all with inactiveErrs := false } inactiveWorld .topicsInactive) = (200, false) ∧
    statusWarn (view { Fixes.all with inactiveErrs := false } inactiveWorldTotal .topicsInactive) = (200, false) ∧
    statusWarn (view Fixes.all inactiveWorld .topicsInactive) = (200, true) ∧
    statusWarn (view Fixes.all inactiveWorldTotal .topicsInactive) = (502, false) := by
  have ht : lookupdTopics inactiveWorldTotal.lookupds = .got ["t1"] 0 := inactiveWorld_topics
  rw [inactive_view_eq _ inactiveWorld ["t1"] 0 rfl inactiveWorld_topics,
      inactive_view_eq _ inactiveWorldTotal ["t1"] 0 rfl ht,
      inactive_view_eq _ inactiveWorld ["t1"] 0 rfl inactiveWorld_topics,
      inactive_view_eq _ inactiveWorldTotal ["t1"] 0 rfl ht]
  decide

/-- The property's clause for this view, for an arbitrary tree: a 200 carries a warning as soon as some nsqlookupd
failed to answer `/lookup?topic=` for one of the listed topics. -/
def inactive_warning_for (fx : Fixes) : Prop :=
  ∀ (w : World) (v : View) (ts : List String) (f : Nat), w.lookupds ≠ [] →
    view fx w .topicsInactive = .ok v → v.status = 200 → lookupdTopics w.lookupds = .got ts f →
    (∃ t ∈ ts, ∃ l ∈ w.lookupds, lookupFor w l t = none) → v.warn = true

theorem inactive_warning_false_without_F58 : ¬ inactive_warning_for { Fixes.all with inactiveErrs := false } := by
  intro h
  have hw := inactive_drops_errors_without_F58.1
  cases hv : view { Fixes.all with inactiveErrs := false } inactiveWorld .topicsInactive with
  | error e => rw [hv] at hw; simp [statusWarn] at hw
  | ok v =>
    rw [hv] at hw
    simp only [statusWarn, Prod.mk.injEq] at hw
    have := h inactiveWorld v ["t1"] 0 (by decide) hv hw.1 inactiveWorld_topics
      ⟨"t1", by simp, ⟨"L1", some ["t1"], some [some inaP], some [some inaP]⟩, by simp [inactiveWorld], by decide⟩
    rw [hw.2] at this
    cases this

/-- **THIS tree** (`Fixes.tree`, the model the driver replays): the defect, stated for the committed shape. -/
theorem inactive_drops_errors_this_tree :
    statusWarn (view Fixes.tree inactiveWorld .topicsInactive) = (200, false) ∧
    statusWarn (view Fixes.tree inactiveWorldTotal .topicsInactive) = (200, false) ∧
    ¬ inactive_warning_for Fixes.tree :=
  ⟨inactive_drops_errors_without_F58.1, inactive_drops_errors_without_F58.2.1, inactive_warning_false_without_F58⟩

/-- **partial_warning (`/api/topics?inactive=true`), with the PROPOSAL F58** (reverted in /repo; see the file header). -/
theorem inactive_warning : inactive_warning_for Fixes.all := by
  intro w v ts f hl hv h200 hts hex
  have hne : w.lookupds.isEmpty = false := by
    cases hw : w.lookupds with
    | nil => exact absurd hw hl
    | cons _ _ => rfl
  simp only [view, topicsInactiveView, hne, Bool.false_eq_true, if_false, hts] at hv
  -- the loop: a failed /lookup answer for a listed topic sets the warning (or ends in 502)
  have key : ∀ (l : List String) (m : List (String × List String)) (wn : Bool),
      inactiveGo Fixes.all w l = .ok (some (m, wn)) →
      (∃ t ∈ l, ∃ lk ∈ w.lookupds, lookupFor w lk t = none) → wn = true := by
    intro l
    induction l with
    | nil => intro m wn _ ⟨t, ht, _⟩; cases ht
    | cons t0 rest ih =>
      intro m wn hgo hex
      unfold inactiveGo at hgo
      obtain ⟨r, hr⟩ := inactiveStep_ok w t0
      simp only [hr] at hgo
      cases r with
      | none => cases hgo
      | some x =>
        obtain ⟨c, wn0⟩ := x
        simp only [] at hgo
        obtain ⟨r2, hr2⟩ := inactiveGo_ok w rest
        simp only [hr2] at hgo
        cases r2 with
        | none => cases hgo
        | some y =>
          obtain ⟨acc, wn'⟩ := y
          simp only [Except.ok.injEq, Option.some.injEq, Prod.mk.injEq] at hgo
          rw [← hgo.2]
          obtain ⟨t, ht, lk, hlk, hnone⟩ := hex
          rcases List.mem_cons.1 ht with rfl | ht'
          · -- the failing answer is for this very topic
            have hw0 : wn0 = true := by
              unfold inactiveStep at hr
              obtain ⟨s1, hs1⟩ := lookupdTopicProducers_ok (lookupdsFor w t)
              have hrule := lookupdTopicProducers_rule Fixes.all (lookupdsFor w t) s1 hs1
              simp only [hs1] at hr
              cases s1 with
              | allFailed => simp [Fixes.all] at hr
              | got ps f1 =>
                obtain ⟨hf1, _⟩ := hrule.2 ps f1 rfl
                have hpos : f1 > 0 := by
                  rw [hf1]
                  unfold countFailed
                  apply List.length_pos_of_mem (a := (none : Option (List (Option ProducerJSON))))
                  simp only [List.mem_filter, List.mem_map, lookupdsFor, Option.isNone_none, and_true]
                  exact ⟨_, ⟨lk, hlk, rfl⟩, hnone⟩
                simp only [] at hr
                split at hr
                · simp only [Except.ok.injEq, Option.some.injEq, Prod.mk.injEq] at hr
                  rw [← hr.2]; simp [Fixes.all, hpos]
                · split at hr
                  · simp [Fixes.all] at hr
                  · simp only [Except.ok.injEq, Option.some.injEq, Prod.mk.injEq] at hr
                    rw [← hr.2]; simp [Fixes.all, hpos]
            simp [hw0]
          · have := ih acc wn' hr2 ⟨t, ht', lk, hlk, hnone⟩
            simp [this]
  cases hgo : inactiveGo Fixes.all w ts with
  | error e => simp [hgo] at hv
  | ok r =>
    simp only [hgo] at hv
    cases r with
    | none => simp only [Except.ok.injEq] at hv; subst hv; simp at h200
    | some x =>
      obtain ⟨m, wn⟩ := x
      simp only [Except.ok.injEq] at hv
      subst hv
      have := key ts m wn hgo hex
      simp [this]

/-- **inactive_view_lists.** What `/api/topics?inactive=true` lists (nsqlookupd mode, with F58): exactly the topics of
the topic list (`topics_union`: the union over the responding nsqlookupds) for which no responding nsqlookupd's
`/lookup?topic=` answer holds a (non-null) producer, in the order of the list, each with the strictly sorted union of
the channels the responding nsqlookupds report for it (`/channels?topic=`). -/
theorem inactive_view_lists (w : World) (hl : w.lookupds ≠ []) (v : View)
    (h : view Fixes.all w .topicsInactive = .ok v) (h200 : v.status = 200) :
    ∃ ts f m, lookupdTopics w.lookupds = .got ts f ∧ v.body = .inactive m ∧
      m.map (·.1) = ts.filter (fun t => !anyProducer (lookupdsFor w t)) ∧
      ∀ t cs, (t, cs) ∈ m → cs.Pairwise (· < ·) ∧
        ∀ c, c ∈ cs ↔ ∃ l ∈ w.lookupds, ∃ names, channelsFor w l t = some names ∧ c ∈ names := by
  have hne : w.lookupds.isEmpty = false := by
    cases hw : w.lookupds with
    | nil => exact absurd hw hl
    | cons _ _ => rfl
  cases hts : lookupdTopics w.lookupds with
  | allFailed =>
    simp only [view, topicsInactiveView, hne, Bool.false_eq_true, if_false, hts, Except.ok.injEq] at h
    subst h; simp at h200
  | got ts f =>
    rw [inactive_view_eq Fixes.all w ts f hne hts] at h
    cases hgo : inactiveGo Fixes.all w ts with
    | error e => simp [hgo] at h
    | ok r =>
      cases r with
      | none => simp only [hgo, Except.ok.injEq] at h; subst h; simp at h200
      | some x =>
        obtain ⟨m, wn⟩ := x
        simp only [hgo, Except.ok.injEq] at h
        subst h
        obtain ⟨g1, g2⟩ := inactiveGo_spec w ts m wn hgo
        refine ⟨ts, f, m, rfl, rfl, g1, fun t cs hm => ?_⟩
        obtain ⟨f2, hu⟩ := g2 t cs hm
        obtain ⟨u1, u2⟩ := unionNames_spec _ cs f2 hu
        refine ⟨u1, fun c => ?_⟩
        rw [u2]
        simp only [channelAnswers, List.mem_map]
        constructor
        · rintro ⟨a, ⟨l, hl', rfl⟩, names, hs, hc⟩; exact ⟨l, hl', names, hs, hc⟩
        · rintro ⟨l, hl', names, hs, hc⟩; exact ⟨_, ⟨l, hl', rfl⟩, names, hs, hc⟩

/-- Non-vacuity: in `inactiveWorld` no responding nsqlookupd lists a producer of `t1` (L1, which would, fails). -/
example : anyProducer (lookupdsFor inactiveWorld "t1") = false := by decide
example : anyProducer inactiveWorld.lookupds = true := by decide

/-- Direct mode: every topic an nsqd reports is live on it — the map is empty; the warning is that of the topic list. -/
example : (match view Fixes.all tvWorld .topicsInactive with
    | .ok { status := 200, warn := true, body := .inactive m } => m.length
    | _ => 9) = 0 := by decide

/-! ## The committed tree `Fixes.tree` (claim audit 2, C18 items 1–2)

The ∀-theorems above are stated for `Fixes.all` (= the committed tree + the reverted proposal F58). /repo and the driver
run `Fixes.tree`. The two agree on every function of the model that does not read `Fixes.inactiveErrs`
(`Proofs.AggregateTree.*_tree`, by induction over the same lists), hence on every view but `?inactive=true`. -/

/-- **Carry-over.** For every cluster and every request other than `GET /api/topics?inactive=true` the committed tree
answers exactly what `Fixes.all` answers: every theorem above whose hypothesis is `view Fixes.all w q = .ok v` (or
`topicView` / `channelView` / `nodesView` / `nodeView` / `counterView Fixes.all …`: `topicView_tree` …) holds verbatim
with `Fixes.tree` after rewriting with this equation. -/
theorem tree_view_eq_all (w : World) (req : Request) (h : req ≠ .topicsInactive) :
    view Fixes.tree w req = view Fixes.all w req :=
  view_tree_eq w req h

/-- The handler of the committed tree after the topic list is known never answers 502 and never warns about its own
per-topic fetches (that is the open finding): the status is 200, the warning is that of the topic list alone. -/
theorem inactive_view_tree_eq (w : World) (ts : List String) (f : Nat)
    (hne : w.lookupds.isEmpty = false) (h : lookupdTopics w.lookupds = .got ts f) :
    ∃ m, view Fixes.tree w .topicsInactive = .ok { status := 200, warn := f > 0, body := .inactive m } ∧
      m.map (·.1) = ts.filter (fun t => !anyProducer (lookupdsFor w t)) ∧
      ∀ t cs, (t, cs) ∈ m → cs.Pairwise (· < ·) ∧
        ∀ c, c ∈ cs ↔ ∃ a ∈ channelAnswers w t, ∃ names, a = some names ∧ c ∈ names := by
  obtain ⟨m, hgo, g1, g2⟩ := inactiveGo_tree w ts
  refine ⟨m, ?_, g1, g2⟩
  rw [inactive_view_eq Fixes.tree w ts f hne h, hgo]
  simp

/-- **view_no_panic on the committed tree** (`Fixes.tree` = /repo: the six guards, F58 reverted): every view of every
cluster, `?inactive=true` included, completes — no fetch goroutine panics and no handler answers 500. -/
theorem view_no_panic_tree : view_no_panic_for Fixes.tree := by
  intro w req
  by_cases hreq : req = .topicsInactive
  · subst hreq
    cases hne : w.lookupds.isEmpty with
    | true =>
      simp only [view, topicsInactiveView, hne, if_true]
      cases nsqdTopics w with
      | allFailed => exact ⟨_, rfl, by decide⟩
      | got ts f => exact ⟨_, rfl, by simp⟩
    | false =>
      cases hts : lookupdTopics w.lookupds with
      | allFailed =>
        refine ⟨{ status := 502 }, ?_, by decide⟩
        simp only [view, topicsInactiveView, hne, Bool.false_eq_true, if_false, hts]
      | got ts f =>
        obtain ⟨m, hv, _⟩ := inactive_view_tree_eq w ts f hne hts
        exact ⟨_, hv, by simp⟩
  · rw [tree_view_eq_all w req hreq]
    exact view_no_panic w req

/-- **inactive_view_lists on the committed tree.** `/api/topics?inactive=true` of /repo as committed (nsqlookupd mode):
the answer is a 502 iff no nsqlookupd answered `/topics`; otherwise it is a 200 whose warning is that of the topic list
ALONE (the errors of the per-topic fetches are dropped: open finding `view:inactive-drops-errors`), and it lists — in the
order of the topic list — exactly the topics for which no responding nsqlookupd's `/lookup?topic=` answer holds a
(non-null) producer (a topic for which NO nsqlookupd answered `/lookup` is therefore listed), each with the strictly
sorted union of the `/channels?topic=` answers that arrived (none arrived: no channel). The listing is the one
`inactive_view_lists` states for the proposal whenever that one answers 200. -/
theorem inactive_view_lists_tree (w : World) (hl : w.lookupds ≠ []) (v : View)
    (h : view Fixes.tree w .topicsInactive = .ok v) :
    (v.status = 502 ∧ lookupdTopics w.lookupds = .allFailed) ∨
    (v.status = 200 ∧ ∃ ts f m, lookupdTopics w.lookupds = .got ts f ∧ v.warn = decide (f > 0) ∧ v.body = .inactive m ∧
      m.map (·.1) = ts.filter (fun t => !anyProducer (lookupdsFor w t)) ∧
      ∀ t cs, (t, cs) ∈ m → cs.Pairwise (· < ·) ∧
        ∀ c, c ∈ cs ↔ ∃ l ∈ w.lookupds, ∃ names, channelsFor w l t = some names ∧ c ∈ names) := by
  have hne : w.lookupds.isEmpty = false := by
    cases hw : w.lookupds with
    | nil => exact absurd hw hl
    | cons _ _ => rfl
  cases hts : lookupdTopics w.lookupds with
  | allFailed =>
    simp only [view, topicsInactiveView, hne, Bool.false_eq_true, if_false, hts, Except.ok.injEq] at h
    subst h
    exact .inl ⟨rfl, rfl⟩
  | got ts f =>
    obtain ⟨m, hv, g1, g2⟩ := inactive_view_tree_eq w ts f hne hts
    rw [hv] at h
    simp only [Except.ok.injEq] at h
    subst h
    refine .inr ⟨rfl, ts, f, m, rfl, rfl, rfl, g1, fun t cs hm => ?_⟩
    obtain ⟨u1, u2⟩ := g2 t cs hm
    refine ⟨u1, fun c => ?_⟩
    rw [u2]
    simp only [channelAnswers, List.mem_map]
    constructor
    · rintro ⟨a, ⟨l, hl', rfl⟩, names, hs, hc⟩; exact ⟨l, hl', names, hs, hc⟩
    · rintro ⟨l, hl', names, hs, hc⟩; exact ⟨_, ⟨l, hl', rfl⟩, names, hs, hc⟩

/-- Non-vacuity: on the committed tree `inactiveWorld` (L1 fails the per-topic fetches) answers 200 without warning and
lists `t1`; a panic-free 200 on the cluster of the F4 witness. -/
example : ∃ m, view Fixes.tree inactiveWorld .topicsInactive = .ok { status := 200, warn := false, body := .inactive m } ∧
    m.map (·.1) = ["t1"] := by
  obtain ⟨m, hv, g1, _⟩ := inactive_view_tree_eq inactiveWorld ["t1"] 0 rfl inactiveWorld_topics
  refine ⟨m, by simpa using hv, ?_⟩
  rw [g1]; decide
example : (match view Fixes.tree f4World .nodes with
    | .ok v => v.status | .error _ => 0) = 200 := by decide
example : Request.topic "t1" ≠ .topicsInactive := nofun

/-! ## The latency document: shape of `e2e_processing_latency.percentiles` (round 7, `fixes/F53`) -/

section Latency
open Nsq.Model.Latency Nsq.Proofs.Latency

/-- A channel whose latency document is `{"count":…,"percentiles":[null]}`. -/
def pctChan : Chan := { name := "c1", cnt := {}, paused := false, clients := [], e2e := true, pct := [none] }
def pctNsqd (filters : Bool) (extra : List (Option Topic)) : Nsqd :=
  { addr := "N0", info := some info0, filters := filters,
    stats := some ([some { name := "t1", cnt := {}, paused := false, e2e := true, channels := [some (chan0 true)] }] ++ extra) }
def pctTopic : Topic := { name := "zz", cnt := {}, paused := false, e2e := true, channels := [some pctChan] }
/-- The null percentile sits in a topic `zz` that the request does not ask for, on an nsqd (old, or
behind a proxy) that does not honour `topic=`. -/
def pctWorld : World := { lookupds := [], nsqdAddrs := ["N0"], nsqds := [pctNsqd false [some pctTopic]] }

/-- **The defect reported for round 7 is genuine on the tree without F53**: one `null` inside
`percentiles` anywhere in an nsqd's `/stats` answer makes `UnmarshalJSON` write to a nil map inside the
GetNSQDStats fetch goroutine — process death, for the topic, channel, node and counter views alike
(here: the view of topic `t1`, while the `null` is in another topic). -/
theorem view_panics_without_pct_guard :
    faultOf (view { Fixes.all with nilPct := false } pctWorld (.topic "t1")) =
      some (.nilMapWrite "E2eProcessingLatencyAggregate.UnmarshalJSON p[\"min\"]") := by decide

theorem view_no_panic_false_without_pct_guard :
    ¬ view_no_panic_for { Fixes.all with nilPct := false } := by
  intro h
  obtain ⟨v, hv, _⟩ := h pctWorld (.topic "t1")
  have := view_panics_without_pct_guard
  rw [hv] at this
  cases this

example : faultOf (view { Fixes.all with nilPct := false } pctWorld .counter) =
    some (.nilMapWrite "E2eProcessingLatencyAggregate.UnmarshalJSON p[\"min\"]") := by decide
example : (match view Fixes.all pctWorld (.topic "t1") with
    | .ok v => v.status | .error _ => 0) = 200 := by decide
/-- The list views of direct mode decode `/stats` into `struct{Name}` only: they never see the document. -/
example : (match view { Fixes.all with nilPct := false } pctWorld .topics with
    | .ok v => v.status | .error _ => 0) = 200 := by decide

/-- **latency_unmarshal.** `UnmarshalJSON` on the tree without F53 faults exactly on the documents with a
`null` element; with F53 it never faults and returns the non-null entries in order. -/
theorem latency_unmarshal (l : List Pct) :
    ((∃ e, unmarshal false l = .error e) ↔ none ∈ l) ∧
    unmarshal true l = .ok (l.filter (·.isSome)) ∧ AllSome (l.filter (·.isSome)) := by
  refine ⟨⟨?_, unmarshal_unfixed_panics l⟩, unmarshal_fixed l, filter_allSome l⟩
  rintro ⟨e, he⟩
  apply Classical.byContradiction
  intro hn
  have : AllSome l := fun x hx hx0 => hn (hx0 ▸ hx)
  rw [unmarshal_unfixed_ok l this] at he
  cases he

example : unmarshal false [some 99, none] =
    .error (.nilMapWrite "E2eProcessingLatencyAggregate.UnmarshalJSON p[\"min\"]") := rfl
example : unmarshal true [some 99, none, some 95] = .ok [some 99, some 95] := rfl

/-- **latency_add_total.** `e.Add(e2)` never writes to a nil map when `e` holds none — whatever `e2` holds:
its entries are only read, entries without a "quantile" member are found (or appended) under 0.0 — and
afterwards `e` still holds no nil map; its keys are the old ones followed by the new ones of `e2`, without
repetition if there was none. (Covers both ways an aggregate starts: fresh, in `GetNSQDStats`' channel map and in
the handlers, or as the first node's own document, in the channel list of `TopicStats.Add`.) -/
theorem latency_add_total (p e2 : List Pct) (h : AllSome p) :
    ∃ r, add p e2 = .ok r ∧ AllSome r ∧
      (∀ k, k ∈ r.map key ↔ k ∈ p.map key ∨ k ∈ e2.map key) ∧
      ((p.map key).Nodup → (r.map key).Nodup) ∧
      (∃ ext, r.map key = p.map key ++ ext) :=
  add_spec e2 p h

example : add [some 99, some 95] [some 50, none, some 99, some 0] = .ok [some 99, some 95, some 50, some 0] := rfl

/-- **latency_aggregate_no_panic.** With F53, for any number of nodes reporting percentile lists of any
lengths, with repeated, missing or `null` entries: decoding and aggregating never faults, and the aggregate
has exactly one entry per distinct "quantile" reported in a non-null entry by some node. -/
theorem latency_aggregate_no_panic (docs : List (List Pct)) :
    ∃ r, aggregate true docs = .ok r ∧ AllSome r ∧ (r.map key).Nodup ∧
      ∀ k, k ∈ r.map key ↔ ∃ d ∈ docs, some k ∈ d :=
  aggregate_fixed docs

example : aggregate true [[some 99, some 95, some 50], [none, some 50], [], [some 1, some 99, none]] =
    .ok [some 99, some 95, some 50, some 1] := rfl

/-- Without F53 a `null` entry in any node's document is fatal. -/
theorem latency_aggregate_panics_without_guard (docs : List (List Pct)) (h : ∃ d ∈ docs, none ∈ d) :
    ∃ e, aggregate false docs = .error e := by
  obtain ⟨e, he⟩ := decodeAll_unfixed_panics docs h
  exact ⟨e, by simp [aggregate, he]⟩

example : ∃ e, aggregate false [[some 99], [none]] = .error e :=
  latency_aggregate_panics_without_guard _ ⟨[none], by simp, by simp⟩

/-- Why F53 *drops* the nil maps instead of merely skipping them in `UnmarshalJSON`'s loop
(`if p == nil { continue }`): a nil map left in the first node's document — which `TopicStats.Add` takes over
as the aggregate of the channel — is written to by the next node's `Add` as soon as that node reports an
entry whose "quantile" reads 0.0 (member missing). `latency_add_total`'s hypothesis is necessary. -/
theorem latency_skip_only_repair_insufficient :
    add [none] [some 0] = .error (.nilMapWrite "E2eProcessingLatencyAggregate.Add p[i][\"max\"]") := rfl

end Latency

/-! ## A `nodes` member sent by the upstream (round 7, `fixes/F54`) -/

/-- A channel object that carries `"nodes":[null]`. -/
def junkChan : Chan :=
  { name := "c1", cnt := {}, paused := false, clients := [], e2e := true, upNodes := [false] }
def junkNsqd (addr host : String) (c : Chan) : Nsqd :=
  { addr := addr, info := some { info0 with addr := addr, hostname := host, tcp := addr ++ ":4150" }, filters := true,
    stats := some [some { name := "t1", cnt := {}, paused := false, e2e := true, channels := [some c] }] }
/-- Two nsqds (hostnames `a` < `b`: list order = the order `sort.Sort(TopicStatsByHost)` gives) report
`t1/c1`; the first one's channel object carries `"nodes":[null]`. -/
def junkWorld : World :=
  { lookupds := [], nsqdAddrs := ["N0", "N1"], nsqds := [junkNsqd "N0" "a" junkChan, junkNsqd "N1" "b" (chan0 true)] }

/-- **Second finding of the sweep**, on the tree without F54: `TopicStats.Add` takes the first node's channel
object — `NodeStats` decoded from the upstream included — as the aggregate; the second node's `ChannelStats.Add`
appends to it and sorts: `ChannelStatsByHost.Less` dereferences the nil. In the handler: a 500 although every
upstream answered. -/
theorem topic_500_without_nodes_guard :
    (match view { Fixes.all with clearNodes := false } junkWorld (.topic "t1") with
     | .ok v => v.status
     | .error _ => 0) = 500 := by decide

theorem view_no_panic_false_without_nodes_guard :
    ¬ view_no_panic_for { Fixes.all with clearNodes := false } := by
  intro h
  obtain ⟨v, hv, h500⟩ := h junkWorld (.topic "t1")
  have := topic_500_without_nodes_guard
  rw [hv] at this
  exact h500 this

example : (match view Fixes.all junkWorld (.topic "t1") with
    | .ok v => v.status | .error _ => 0) = 200 := by decide
/-- One reporter only: nothing is sorted, no 500 even without the guard. -/
example : (match view { Fixes.all with clearNodes := false }
      { junkWorld with nsqdAddrs := ["N0"] } (.topic "t1") with
    | .ok v => v.status | .error _ => 0) = 200 := by decide
/-- The channel map of GetNSQDStats (channel and counter views) starts from an aggregate nsqadmin creates. -/
example : (match view { Fixes.all with clearNodes := false } junkWorld (.channel "t1" "c1") with
    | .ok v => v.status | .error _ => 0) = 200 := by decide

/-! ## Order of the lists the views return (round 7) -/

section Order
open Nsq.Model.ViewOrder Nsq.Proofs.ViewOrder

/-- **order_by_host.** `ChannelStatsByHost`, `ClientsByHost`, `TopicStatsByHost`, `ProducersByHost` (and
`ProducerTopics`, by topic name) compare one string key with `<`: a strict weak order, which is what `sort.Sort`
needs to promise a sorted result; and for such a comparator the sorted result is determined up to the exchange of
elements with equal keys: two sorted arrangements of the same reports show the same key sequence. (That
`sort.Sort` returns a sorted permutation when `Less` is a strict weak order is the library's contract —
trusted; the harness' order oracle `vfE7SortCheck` checks it on every answer.) -/
theorem order_by_host {α : Type} (f : α → String) :
    StrictWeakOrder (fun a b : α => hostLess (f a) (f b)) ∧
    ∀ l₁ l₂ : List α, l₁.Perm l₂ →
      SortedBy (fun a b => hostLess (f a) (f b)) l₁ → SortedBy (fun a b => hostLess (f a) (f b)) l₂ →
      l₁.map f = l₂.map f :=
  ⟨swo_on hostLess_swo f, sortedBy_host_determined f⟩

example : SortedBy (fun a b : String × Nat => hostLess a.1 b.1) [("alpha", 2), ("alpha", 1), ("beta", 0)] := by
  unfold SortedBy; decide

/-- **order_clients_by_topology.** `ClientStatsByNodeTopology.Less` (the client list of the channel view) is
*not* a strict weak order — it is not even irreflexive: two clients of one node that are equally close to it
(both in the node's zone, or both only in its region) are each "less" than the other, so `sort.Sort` promises
nothing about their relative order, nor — strictly by its contract — about the rest. What does hold: across
different nodes the comparator is the strict order on `Node` (asymmetric); and `sort.Sort` only swaps, so
the list stays a permutation of the clients (`channels_merge`), which is all the check compares. -/
theorem order_clients_by_topology :
    ¬ StrictWeakOrder topoLess ∧
    (∀ a b : ClientKey, a.node = b.node → a.nodeRegion = b.nodeRegion → a.nodeZone = b.nodeZone →
      cls a = cls b → cls a ≤ 1 → topoLess a b = true ∧ topoLess b a = true) ∧
    (∀ a b : ClientKey, a.node ≠ b.node → topoLess a b = true → topoLess b a = false) :=
  ⟨topoLess_not_swo, topoLess_both_of_close, topoLess_asymm_across_nodes⟩

example : topoLess ⟨"N0", "r", "z", "r", "z"⟩ ⟨"N0", "r", "z", "r", "z"⟩ = true := by decide
example : topoLess ⟨"N0", "r", "z", "r", "y"⟩ ⟨"N0", "r", "z", "r", "x"⟩ = true ∧
    topoLess ⟨"N0", "r", "z", "r", "x"⟩ ⟨"N0", "r", "z", "r", "y"⟩ = true := by decide
example : topoLess ⟨"N0", "r", "z", "q", "y"⟩ ⟨"N1", "r", "z", "r", "z"⟩ = true := by decide

end Order

/-! ## "502 only when none answers" and zero producers (audit 7, C13) -/

/-- One nsqlookupd that answers every question — and knows no producer of `t1`. -/
def healthyEmptyWorld : World :=
  { lookupds := [⟨"L0", some ["t1"], some [], some []⟩], nsqdAddrs := [], nsqds := [] }

/-- **The clause "502 only when none answers" is false of the code (and of this model of it) when no producer is
known**: every upstream that is asked answers, yet the topic, channel and counter views are 502 — GetNSQDStats
tests `len(errs) == len(producers)`, which is `0 == 0`. The `partial_warning_*` theorems state the rule the code
follows ("some stage got no answer", which includes the stage that asked nobody); the property's reading is
checked by the python oracle and recorded as the open finding `view:502-without-producers`. -/
theorem view_502_although_every_upstream_answered :
    (match view Fixes.all healthyEmptyWorld (.topic "t1") with | .ok v => v.status | .error _ => 0) = 502 ∧
    (match view Fixes.all healthyEmptyWorld (.channel "t1" "c1") with | .ok v => v.status | .error _ => 0) = 502 ∧
    (match view Fixes.all healthyEmptyWorld .counter with | .ok v => v.status | .error _ => 0) = 502 ∧
    (match view Fixes.all healthyEmptyWorld .nodes with | .ok v => v.status | .error _ => 0) = 200 := by decide

/-- The property's clause as a statement about the model: a 502 implies that some upstream answer failed. -/
def only_502_when_something_failed : Prop :=
  ∀ (w : World) (req : Request) (v : View), view Fixes.all w req = .ok v → v.status = 502 →
    (∃ l ∈ w.lookupds, l.topics = none ∨ l.nodes = none ∨ l.lookup = none) ∨
    (∃ n ∈ w.nsqds, n.info = none ∨ n.stats = none) ∨ (∃ a ∈ w.nsqdAddrs, nsqdAt w a = none)

theorem only_502_when_something_failed_false : ¬ only_502_when_something_failed := by
  intro h
  have h502 : ∃ v, view Fixes.all healthyEmptyWorld (.topic "t1") = .ok v ∧ v.status = 502 := by
    refine ⟨{ status := 502 }, rfl, rfl⟩
  obtain ⟨v, hv, hs⟩ := h502
  rcases h healthyEmptyWorld (.topic "t1") v hv hs with ⟨l, hl, h1⟩ | ⟨n, hn, _⟩ | ⟨a, ha, _⟩
  · simp only [healthyEmptyWorld, List.mem_singleton] at hl
    subst hl
    simp at h1
  · simp [healthyEmptyWorld] at hn
  · simp [healthyEmptyWorld] at ha

/-! ## fetch_terminates -/

open Nsq.Model.Fetch Nsq.Proofs.Fetch in
/-- **fetch_terminates.** The upstream request loop (`GETV1` / `POSTV1`) always ends, whatever the upstream
answers on whatever port: it sends at most two requests — at most one on plain HTTP and at most one on HTTPS (the
scheme upgrade on `403 {"https_port": N}` happens at most once) — the first one to the given endpoint. (No fuel:
`getV1` is accepted by Lean with the measure "is the current endpoint plain".) So an upstream that answers 403 on
both ports is one failed answer, and the view is built from the others (`partial_warning_*`). -/
theorem fetch_terminates (srv : Endpoint → Resp) (e : Endpoint) :
    (getV1 srv e).2.length ≤ 2 ∧
    ((getV1 srv e).2.filter (fun x => x.https)).length ≤ 1 ∧
    ((getV1 srv e).2.filter (fun x => !x.https)).length ≤ 1 ∧
    (getV1 srv e).2.head? = some e := by
  cases h : e.https with
  | true =>
    have := (getV1_https srv e h).1
    simp [this, h]
  | false =>
    rcases getV1_plain srv e h with h1 | ⟨port, _, h2, _⟩
    · simp [h1, h]
    · simp [h2, h]

open Nsq.Model.Fetch Nsq.Proofs.Fetch in
/-- The five stub behaviours of the harness: the normal upgrade answers; 403 again on the TLS port, a closed TLS
port, a 403 without or with an unusable `https_port` are one failed answer each, after 2, 2, 2 and 1 requests. -/
theorem fetch_stub_outcomes :
    getV1 (stub 7) ⟨false, 1⟩ = (.ok, [⟨false, 1⟩, ⟨true, 2⟩]) ∧
    getV1 (stub 8) ⟨false, 1⟩ = (.failed, [⟨false, 1⟩, ⟨true, 2⟩]) ∧
    getV1 (stub 9) ⟨false, 1⟩ = (.failed, [⟨false, 1⟩, ⟨true, 3⟩]) ∧
    getV1 (stub 10) ⟨false, 1⟩ = (.failed, [⟨false, 1⟩, ⟨true, 0⟩]) ∧
    getV1 (stub 11) ⟨false, 1⟩ = (.failed, [⟨false, 1⟩]) ∧
    getV1 (stub 8) ⟨true, 2⟩ = (.failed, [⟨true, 2⟩]) := by
  refine ⟨?_, ?_, ?_, ?_, ?_, ?_⟩ <;> simp [getV1, stub]

open Nsq.Model.Fetch Nsq.Proofs.Fetch in
/-- Witness for the loop with the upgrade condition computed once before the loop: against an upstream that
answers `403 {"https_port": N}` on both ports it sends as many requests as it is given passes — it never stops. -/
theorem fetch_with_stale_condition_never_stops (fuel : Nat) :
    (getV1Stale (fun _ => .forbidden (some 2)) true fuel ⟨false, 1⟩).2.length = fuel :=
  stale_uses_all_fuel 2 fuel _

/-! ## Integers: where Go's int64 sums can wrap, and when they cannot

The model above computes with `Int`. nsqadmin computes every counter with int64 `+`, `-`, `+=`:
`TopicStats.Add` (8 fields), `ChannelStats.Add` (13 fields + `ClientCount int`), GetNSQDStats
(`MemoryDepth = Depth - BackendDepth`, `DeliveryMsgCount = Zone + Region + Global`), nodeHandler
(`totalMessages`, `totalClients`) and counterHandler (`MessageCount +=`). These are *all* the places
(the regenerated `+=` tables `Tie.AdminAgg.*_counters_summed_once` list the fields). -/

section Int64
open Nsq.Model.Int64 Nsq.Proofs.Int64 Nsq.Proofs.AggregateWrap

/-- **int64_sum_wraps.** A running int64 sum is the exact sum reduced into [-2^63, 2^63) — whatever happens
to intermediate results. -/
theorem int64_sum_wraps (l : List Int) : goSum l = wrap64 l.sum := goSum_eq l

/-- **int64_wrap_exact.** The shown sum equals the exact sum *iff* the exact sum fits into int64. -/
theorem int64_wrap_exact (l : List Int) : goSum l = l.sum ↔ inRange l.sum := by
  rw [goSum_eq]; exact wrap64_eq_iff _

/-- **int64_no_wrap_sufficient.** The side condition under which `sum_fields` / `channels_merge` speak about
what nsqadmin shows: counters are non-negative (as nsqd reports them) and their exact sum is below 2^63. -/
theorem int64_no_wrap_sufficient (l : List Int) (hpos : ∀ x ∈ l, 0 ≤ x) (h : l.sum < two63) :
    goSum l = l.sum := by
  rw [goSum_eq]
  apply wrap64_id
  have := sum_nonneg l hpos
  unfold inRange two63 at *
  omega

/-- The condition is needed: two nodes reporting 2^62 each already show a negative depth. -/
theorem int64_sum_can_wrap : goSum [4611686018427387904, 4611686018427387904] = -9223372036854775808 := by
  decide

example : ∀ x ∈ [(3 : Int), 4], 0 ≤ x := by decide
example : goSum [3, 4] = 7 := by decide

/-- **counters_go_sum.** All 13 counters at once: aggregating node reports with Go's arithmetic gives the
model's (`Int`) aggregate wrapped field by field; with every exact field in range, exactly the model's. -/
theorem counters_go_sum (l : List Counters) (acc : Counters) :
    l.foldl Counters.goAdd (Counters.wrap acc) = Counters.wrap (l.foldl Counters.add acc) ∧
    (Counters.fits (l.foldl Counters.add acc) →
      l.foldl Counters.goAdd (Counters.wrap acc) = l.foldl Counters.add acc) := by
  refine ⟨foldl_add64_wrap l acc, fun h => ?_⟩
  rw [foldl_add64_wrap, wrap_of_inRange _ h]

/-- **derived_fields_go.** `memory_depth` / `delivery_msg_count` recomputed in int64 from wrapped inputs are
the wrapped `derive` of the model. -/
theorem derived_fields_go (c : Counters) :
    Counters.wrap (Counters.goDerive (Counters.wrap c)) = Counters.wrap c.derive := derive64_wrap c

example : (Counters.goDerive { depth := 5, backendDepth := 2, zoneLocal := 1, regionLocal := 1, globalMsg := 1 }).memDepth = 3 := by decide

end Int64

end Nsq.Props.C18
