import Nsq.Proofs.AggregateNames
import Nsq.Proofs.AggregateSafe
import Nsq.Proofs.AggregateSums
import Nsq.Proofs.AggregateMerge
import Nsq.Proofs.AggregateFetch
import Nsq.Proofs.AggregateDedup
import Nsq.Proofs.Fetch
import Nsq.Proofs.AggregateWrap
/-!
# C18 — nsqadmin's cluster view equals the sum of its parts

Property theorems only, about the model `Nsq.Model.Aggregate` (tied to the code by the
correspondence harness `harness/e7/view_test.go`: generated clusters, every subset of failing
upstreams, malformed answers, both modes). They hold for every cluster: any number of
nsqlookupd / nsqd, any topics, channels, clients and counter values (counters are unbounded
integers: the statements are about the mathematical sums; int64 wrap-around is outside the model).

The fetch goroutines finish in any order; the model processes upstreams in list order and the
`_order` theorems show that what is claimed does not depend on that order.

`Fixes.all` is the tree with the four guards of `fixes/*.patch`; the `*_without_*` theorems are the
Lean witnesses that the unguarded code panics (each replayed on the real code by the check).
-/
namespace Nsq.Props.C18
open Nsq.Model.Aggregate
open Nsq.Proofs.AggregateNames Nsq.Proofs.AggregateSafe Nsq.Proofs.AggregateSums
open Nsq.Proofs.AggregateMerge Nsq.Proofs.AggregateFetch Nsq.Proofs.AggregateDedup

/-! ## topics_union -/

/-- **topics_union (nsqlookupd mode).** `/api/topics` lists a strictly increasing (sorted,
duplicate-free) list that contains exactly the topics some responding nsqlookupd reports. -/
theorem topics_union (ls : List Lookupd) (ts : List String) (f : Nat)
    (h : lookupdTopics ls = .got ts f) :
    ts.Pairwise (· < ·) ∧
    ∀ t, t ∈ ts ↔ ∃ l ∈ ls, ∃ names, l.topics = some names ∧ t ∈ names := by
  unfold lookupdTopics at h
  simp only [] at h
  split at h
  · cases h
  · simp only [Fetched.got.injEq] at h
    obtain ⟨h1, _⟩ := h
    subst h1
    refine ⟨names_sorted _, fun t => ?_⟩
    rw [names_mem]
    simp only [List.mem_flatten, List.mem_filterMap, List.mem_map, id_eq]
    constructor
    · rintro ⟨names, ⟨a, ⟨l, hl, rfl⟩, ha⟩, ht⟩
      exact ⟨l, hl, names, ha, ht⟩
    · rintro ⟨l, hl, names, ha, ht⟩
      exact ⟨names, ⟨_, ⟨l, hl, rfl⟩, ha⟩, ht⟩

/-- … whatever the order in which the nsqlookupds answer. -/
theorem topics_union_order (ls ls' : List Lookupd) (h : ls.Perm ls') :
    lookupdTopics ls = lookupdTopics ls' := by
  unfold lookupdTopics
  have hp : (ls.map (·.topics)).Perm (ls'.map (·.topics)) := h.map _
  have hc : countFailed (ls.map (·.topics)) = countFailed (ls'.map (·.topics)) :=
    (hp.filter _).length_eq
  have hn := names_perm _ _ ((hp.filterMap id).flatten)
  simp only [hc, h.length_eq, hn]

/-- **topics_union (direct-nsqd mode).** The same for the topic names in the `/stats` answers
of the configured nsqds. -/
theorem topics_union_nsqd (w : World) (ts : List String) (f : Nat) (h : nsqdTopics w = .got ts f) :
    ts.Pairwise (· < ·) ∧
    ∀ t, t ∈ ts ↔ ∃ a ∈ w.nsqdAddrs, ∃ ans, statsOf w a "" "" true = some ans ∧ t ∈ topicNames ans := by
  unfold nsqdTopics at h
  simp only [] at h
  split at h
  · cases h
  · simp only [Fetched.got.injEq] at h
    obtain ⟨h1, _⟩ := h
    subst h1
    refine ⟨names_sorted _, fun t => ?_⟩
    rw [names_mem]
    simp only [List.mem_flatten, List.mem_filterMap, List.mem_map, id_eq]
    constructor
    · rintro ⟨names, ⟨ans, ⟨o, ⟨a, ha, rfl⟩, ho⟩, rfl⟩, ht⟩
      exact ⟨a, ha, ans, ho, ht⟩
    · rintro ⟨a, ha, ans, ho, ht⟩
      exact ⟨_, ⟨ans, ⟨_, ⟨a, ha, rfl⟩, ho⟩, rfl⟩, ht⟩

example : (match lookupdTopics [⟨"L0", some ["b", "a", "b"], none, none⟩, ⟨"L1", none, none, none⟩,
      ⟨"L2", some ["c", "a"], none, none⟩] with
    | .got _ f => f
    | .allFailed => 9) = 1 := by decide

/-! ## producers_dedup -/

/-- **producers_dedup.** `/api/nodes` in nsqlookupd mode has exactly one entry per TCP address
mentioned by any responding nsqlookupd (null array elements are skipped). -/
theorem producers_dedup (ls : List Lookupd) (ps : List Producer) (f : Nat)
    (h : lookupdProducers Fixes.all ls = .ok (.got ps f)) :
    (ps.map (·.tcp)).Nodup ∧ ∀ k, k ∈ ps.map (·.tcp) ↔ k ∈ mentioned ls :=
  lookupdProducers_dedup Fixes.all ls ps f h

def pj (host addr tcp remote : String) : ProducerJSON :=
  { hostname := host, addr := addr, tcp := tcp, version := "1.3.0", ver := (1, 3, 0), remote := remote,
    topics := ["t"], tombstones := [false] }

/-- Non-vacuity: two nsqlookupds reporting the same node give one entry with both remote
addresses collected. -/
example : (match lookupdProducers Fixes.all
      [⟨"L0", none, some [some (pj "h" "N0" "N0:4150" "10.0.0.1:1")], none⟩,
       ⟨"L1", none, some [some (pj "h" "N0" "N0:4150" "10.0.0.2:2"), none], none⟩] with
    | .ok (.got ps _) => ps.map (fun p => (p.tcp, p.remotes))
    | _ => []) = [("N0:4150", ["L0/10.0.0.1:1", "L1/10.0.0.2:2"])] := by decide

/-! ## sum_fields -/

/-- **sum_fields.** Folding `TopicStats.Add` over any list of node reports gives, for every
counter, the sum of the reports' counters; `paused` is the disjunction; the node list is the list
of reports. -/
theorem sum_fields (fx : Fixes) (name : String) (reports : List TopicNode) (t : TopicAgg)
    (h : TopicAgg.addAll fx reports { name := name } = .ok t) :
    t.nodes = reports ∧ t.paused = reports.any (·.paused) ∧
    t.cnt.depth = isum (reports.map (·.cnt.depth)) ∧
    t.cnt.memDepth = isum (reports.map (·.cnt.memDepth)) ∧
    t.cnt.backendDepth = isum (reports.map (·.cnt.backendDepth)) ∧
    t.cnt.msgCount = isum (reports.map (·.cnt.msgCount)) ∧
    t.cnt.delivery = isum (reports.map (·.cnt.delivery)) ∧
    t.cnt.zoneLocal = isum (reports.map (·.cnt.zoneLocal)) ∧
    t.cnt.regionLocal = isum (reports.map (·.cnt.regionLocal)) ∧
    t.cnt.globalMsg = isum (reports.map (·.cnt.globalMsg)) := by
  obtain ⟨h1, h2, h3, _⟩ := addAll_spec fx reports _ t h
  have key : ∀ (π : Counters → Int), (∀ a b, π (a.add b) = π a + π b) → π ({} : Counters) = 0 →
      π t.cnt = isum (reports.map (fun r => π r.cnt)) := by
    intro π hadd hz
    rw [h1, sumFrom_proj π hadd, hz]
    simp [List.map_map, Function.comp_def]
  refine ⟨by simpa using h2, by simpa using h3, ?_, ?_, ?_, ?_, ?_, ?_, ?_, ?_⟩
  · exact key (·.depth) (fun _ _ => rfl) rfl
  · exact key (·.memDepth) (fun _ _ => rfl) rfl
  · exact key (·.backendDepth) (fun _ _ => rfl) rfl
  · exact key (·.msgCount) (fun _ _ => rfl) rfl
  · exact key (·.delivery) (fun _ _ => rfl) rfl
  · exact key (·.zoneLocal) (fun _ _ => rfl) rfl
  · exact key (·.regionLocal) (fun _ _ => rfl) rfl
  · exact key (·.globalMsg) (fun _ _ => rfl) rfl

/-- … and the sums do not depend on the order in which the node reports arrive. -/
theorem sum_fields_order (fx : Fixes) (name : String) (r₁ r₂ : List TopicNode) (t₁ t₂ : TopicAgg)
    (hp : r₁.Perm r₂) (h₁ : TopicAgg.addAll fx r₁ { name := name } = .ok t₁)
    (h₂ : TopicAgg.addAll fx r₂ { name := name } = .ok t₂) :
    t₁.cnt = t₂.cnt ∧ t₁.paused = t₂.paused := by
  obtain ⟨a1, _, a3, _⟩ := addAll_spec fx r₁ _ t₁ h₁
  obtain ⟨b1, _, b3, _⟩ := addAll_spec fx r₂ _ t₂ h₂
  refine ⟨?_, ?_⟩
  · rw [a1, b1]; exact sumFrom_perm (hp.map _) _
  · rw [a3, b3]
    have : r₁.any (·.paused) = r₂.any (·.paused) := by
      rw [Bool.eq_iff_iff]; simp only [List.any_eq_true]
      exact ⟨fun ⟨x, hx, hp'⟩ => ⟨x, hp.mem_iff.1 hx, hp'⟩, fun ⟨x, hx, hp'⟩ => ⟨x, hp.mem_iff.2 hx, hp'⟩⟩
    rw [this]

/-- The per-node fields nsqadmin recomputes: `memory_depth = depth - backend_depth`,
`delivery_msg_count` = the sum of the three locality counters. -/
theorem derived_fields (c : Counters) :
    c.derive.memDepth = c.depth - c.backendDepth ∧
    c.derive.delivery = c.zoneLocal + c.regionLocal + c.globalMsg := ⟨rfl, rfl⟩

def tn (node : String) (d m : Int) (p : Bool) : TopicNode :=
  { node := node, hostname := node, name := "t", cnt := { depth := d, msgCount := m }, paused := p,
    channels := [], e2e := true }

example : (match TopicAgg.addAll Fixes.all [tn "a" 3 10 false, tn "b" 0 5 true, tn "c" 1000000000000 0 false]
      { name := "t" } with
    | .ok t => (t.cnt.depth, t.cnt.msgCount, t.paused, t.nodes.length)
    | .error _ => (0, 0, false, 0)) = (1000000000003, 15, true, 3) := by decide

/-! ## channels_merge -/

/-- **channels_merge.** The channel map GetNSQDStats builds has exactly one entry per key
(channel name, or "topic:channel" when no topic is selected) among the per-node channel reports it
returns, and that entry is the reports with that key merged: counters summed, clients
concatenated, the reports themselves as its node list, `paused` or-ed. -/
theorem channels_merge (fx : Fixes) (w : World) (ps : List Producer) (sel selc : String) (incl : Bool)
    (ts : List TopicNode) (m : ChanMap) (f : Nat)
    (h : nsqdStats fx w ps sel selc incl = .ok (.got (ts, m) f)) (k : String) :
    let reports := (chansOfTopics ts).filter (fun c => chanKey sel c == k)
    (reports = [] → lookup m k = none) ∧
    (reports ≠ [] → ∃ c, lookup m k = some c ∧
      c.cnt = sumFrom {} (reports.map (·.cnt)) ∧
      c.clients = reports.flatMap (·.clients) ∧
      c.nodes = reports ∧ c.paused = reports.any (·.paused)) := by
  intro reports
  have hg := nsqdStats_grouped fx w ps sel selc incl ts m f h k
  unfold groupOf at hg
  constructor
  · intro he
    simp only [reports] at he
    simpa [he] using hg
  · intro hne
    cases hr : reports with
    | nil => exact absurd hr hne
    | cons a rest =>
      simp only [reports] at hr
      simp only [hr] at hg
      obtain ⟨h1, h2, h3, h4, _, _⟩ := fold_addPure_spec (a :: rest) (fresh a)
      refine ⟨_, hg, ?_, ?_, ?_, ?_⟩
      · simpa [fresh] using h1
      · simpa [fresh] using h2
      · simpa [fresh] using h3
      · simpa [fresh] using h4

/-- … and a channel's merged counters do not depend on the order of the node reports. -/
theorem channels_merge_order (c0 : Counters) (r₁ r₂ : List ChanNode) (hp : r₁.Perm r₂) :
    sumFrom c0 (r₁.map (·.cnt)) = sumFrom c0 (r₂.map (·.cnt)) :=
  sumFrom_perm (hp.map _) c0

/-! ## partial_warning -/

/-- **partial_warning (`/api/topics`).** 502 iff no upstream answered; otherwise 200, with a
warning iff some upstream failed. -/
theorem partial_warning_topics (w : World) (hl : w.lookupds ≠ []) :
    ((topicsView w).status = 502 ↔ ∀ l ∈ w.lookupds, l.topics = none) ∧
    ((topicsView w).status = 200 ∨ (topicsView w).status = 502) ∧
    ((topicsView w).status = 200 →
      ((topicsView w).warn = true ↔ ∃ l ∈ w.lookupds, l.topics = none)) := by
  have hne : (!w.lookupds.isEmpty) = true := by
    cases hw : w.lookupds with
    | nil => exact absurd hw hl
    | cons _ _ => rfl
  have hrule := mapped_rule (w.lookupds.map (·.topics)) w.lookupds.length (by simp)
    (fun xs => sortNames (uniq xs.flatten)) (lookupdTopics w.lookupds) (by simp [lookupdTopics])
  have hall : (∀ a ∈ w.lookupds.map (·.topics), a = none) ↔ ∀ l ∈ w.lookupds, l.topics = none := by simp
  unfold topicsView
  simp only [hne, if_true]
  cases hr : lookupdTopics w.lookupds with
  | allFailed =>
    simp only [hr] at hrule
    exact ⟨⟨fun _ => hall.1 (hrule.1.1 trivial), fun _ => rfl⟩, Or.inr rfl, fun h => by simp at h⟩
  | got ts f =>
    simp only [hr] at hrule
    obtain ⟨hf, hlt⟩ := hrule.2 ts f rfl
    refine ⟨⟨fun h => by simp at h, fun hn => ?_⟩, Or.inl rfl, fun _ => ?_⟩
    · exact absurd (hrule.1.2 (hall.2 hn)) (by simp)
    · simp only [decide_eq_true_eq]
      rw [hf]
      constructor
      · intro hpos
        by_cases hex : ∃ l ∈ w.lookupds, l.topics = none
        · exact hex
        · have : ∀ a ∈ w.lookupds.map (·.topics), a.isNone = false := by
            intro a ha
            simp only [List.mem_map] at ha
            obtain ⟨l, hl', rfl⟩ := ha
            cases ht : l.topics with
            | none => exact absurd ⟨l, hl', ht⟩ hex
            | some _ => rfl
          have : countFailed (w.lookupds.map (·.topics)) = 0 := by
            unfold countFailed
            rw [List.length_eq_zero_iff, List.filter_eq_nil_iff]
            intro a ha; simp [this a ha]
          omega
      · rintro ⟨l, hl', hn⟩
        unfold countFailed
        apply List.length_pos_of_mem (a := l.topics)
        simp [List.mem_filter, hn]
        exact ⟨l, hl', hn⟩

/-- **partial_warning (`/api/topics/:t`, `/api/topics/:t/:c`, `/api/counter`).** Two stages:
the producers, then their `/stats`. 502 iff a stage got no answer at all (in particular when no
producer is known); otherwise the answer is built from what did answer and carries a warning iff
any answer of either stage failed. -/
theorem partial_warning_topic (w : World) (name : String) (v : View)
    (h : topicView Fixes.all w name = .ok v) :
    ∃ s1, getTopicProducers Fixes.all w name = .ok s1 ∧
      match s1 with
      | .allFailed => v.status = 502
      | .got ps f1 =>
        let answers := statsAnswers w ps name "" false
        ((∀ a ∈ answers, a = none) → v.status = 502) ∧
        ((∃ a ∈ answers, a ≠ none) →
          v.status = 200 ∧ v.warn = (decide (f1 > 0) || decide (countFailed answers > 0))) := by
  unfold topicView at h
  obtain ⟨s1, hs1⟩ := getTopicProducers_ok w name
  refine ⟨s1, hs1, ?_⟩
  simp only [hs1] at h
  cases s1 with
  | allFailed => simp only [Except.ok.injEq] at h; subst h; rfl
  | got ps f1 =>
    obtain ⟨s2, hs2⟩ := nsqdStats_ok w ps name "" false
    simp only [hs2] at h
    have hrule := nsqdStats_rule Fixes.all w ps name "" false s2 hs2
    cases s2 with
    | allFailed =>
      simp only [Except.ok.injEq] at h; subst h
      refine ⟨fun _ => rfl, fun ⟨a, ha, hne⟩ => ?_⟩
      exact absurd (hrule.1.1 rfl a ha) hne
    | got tm f2 =>
      obtain ⟨ts, m⟩ := tm
      obtain ⟨t, ht⟩ := addAll_ok ts { name := name }
      simp only [ht, Except.ok.injEq] at h
      subst h
      obtain ⟨hf, _⟩ := hrule.2 _ f2 rfl
      refine ⟨fun hall => ?_, fun _ => ⟨rfl, by simp [hf]⟩⟩
      exact absurd (hrule.1.2 hall) (by simp)

/-- The same two-stage rule for `/api/topics/:t/:c` (plus 404 when no node reports the channel). -/
theorem partial_warning_channel (w : World) (topic chan : String) (v : View)
    (h : channelView Fixes.all w topic chan = .ok v) :
    ∃ s1, getTopicProducers Fixes.all w topic = .ok s1 ∧
      match s1 with
      | .allFailed => v.status = 502
      | .got ps f1 =>
        let answers := statsAnswers w ps topic chan true
        ((∀ a ∈ answers, a = none) → v.status = 502) ∧
        ((∃ a ∈ answers, a ≠ none) →
          v.status = 404 ∨
          (v.status = 200 ∧ v.warn = (decide (f1 > 0) || decide (countFailed answers > 0)))) := by
  unfold channelView at h
  obtain ⟨s1, hs1⟩ := getTopicProducers_ok w topic
  refine ⟨s1, hs1, ?_⟩
  simp only [hs1] at h
  cases s1 with
  | allFailed => simp only [Except.ok.injEq] at h; subst h; rfl
  | got ps f1 =>
    obtain ⟨s2, hs2⟩ := nsqdStats_ok w ps topic chan true
    simp only [hs2] at h
    have hrule := nsqdStats_rule Fixes.all w ps topic chan true s2 hs2
    cases s2 with
    | allFailed =>
      simp only [Except.ok.injEq] at h; subst h
      refine ⟨fun _ => rfl, fun ⟨a, ha, hne⟩ => ?_⟩
      exact absurd (hrule.1.1 rfl a ha) hne
    | got tm f2 =>
      obtain ⟨ts, m⟩ := tm
      obtain ⟨hf, _⟩ := hrule.2 _ f2 rfl
      simp only [] at h
      cases hfind : m.find? (·.1 == chan) with
      | none =>
        simp only [hfind, all_chanNotFound, if_true, Except.ok.injEq] at h
        subst h
        exact ⟨fun hall => absurd (hrule.1.2 hall) (by simp), fun _ => Or.inl rfl⟩
      | some kc =>
        simp only [hfind, Except.ok.injEq] at h
        subst h
        exact ⟨fun hall => absurd (hrule.1.2 hall) (by simp), fun _ => Or.inr ⟨rfl, by simp [hf]⟩⟩

/-- … and for `/api/counter` (all producers, then all their `/stats`). -/
theorem partial_warning_counter (w : World) (v : View) (h : counterView Fixes.all w = .ok v) :
    ∃ s1, getProducers Fixes.all w = .ok s1 ∧
      match s1 with
      | .allFailed => v.status = 502
      | .got ps f1 =>
        let answers := statsAnswers w ps "" "" false
        ((∀ a ∈ answers, a = none) → v.status = 502) ∧
        ((∃ a ∈ answers, a ≠ none) →
          v.status = 200 ∧ v.warn = (decide (f1 > 0) || decide (countFailed answers > 0))) := by
  unfold counterView at h
  obtain ⟨s1, hs1⟩ := getProducers_ok w
  refine ⟨s1, hs1, ?_⟩
  simp only [hs1] at h
  cases s1 with
  | allFailed => simp only [Except.ok.injEq] at h; subst h; rfl
  | got ps f1 =>
    obtain ⟨s2, hs2⟩ := nsqdStats_ok w ps "" "" false
    simp only [hs2] at h
    have hrule := nsqdStats_rule Fixes.all w ps "" "" false s2 hs2
    cases s2 with
    | allFailed =>
      simp only [Except.ok.injEq] at h; subst h
      refine ⟨fun _ => rfl, fun ⟨a, ha, hne⟩ => ?_⟩
      exact absurd (hrule.1.1 rfl a ha) hne
    | got tm f2 =>
      obtain ⟨ts, m⟩ := tm
      obtain ⟨hf, _⟩ := hrule.2 _ f2 rfl
      simp only [Except.ok.injEq] at h
      subst h
      exact ⟨fun hall => absurd (hrule.1.2 hall) (by simp), fun _ => ⟨rfl, by simp [hf]⟩⟩

/-- What `/api/topics/:t` shows is `sum_fields` applied to the node reports GetNSQDStats returned,
and what `/api/topics/:t/:c` shows is the `channels_merge` entry of the channel. -/
theorem topic_view_is_sum (w : World) (name : String) (v : View)
    (h : topicView Fixes.all w name = .ok v) (h200 : v.status = 200) :
    ∃ ps f1 ts m f2 t, getTopicProducers Fixes.all w name = .ok (.got ps f1) ∧
      nsqdStats Fixes.all w ps name "" false = .ok (.got (ts, m) f2) ∧
      TopicAgg.addAll Fixes.all ts { name := name } = .ok t ∧ v.body = .topic t := by
  unfold topicView at h
  obtain ⟨s1, hs1⟩ := getTopicProducers_ok w name
  simp only [hs1] at h
  cases s1 with
  | allFailed => simp only [Except.ok.injEq] at h; subst h; simp at h200
  | got ps f1 =>
    obtain ⟨s2, hs2⟩ := nsqdStats_ok w ps name "" false
    simp only [hs2] at h
    cases s2 with
    | allFailed => simp only [Except.ok.injEq] at h; subst h; simp at h200
    | got tm f2 =>
      obtain ⟨ts, m⟩ := tm
      obtain ⟨t, ht⟩ := addAll_ok ts { name := name }
      simp only [ht, Except.ok.injEq] at h
      subst h
      exact ⟨ps, f1, ts, m, f2, t, hs1, hs2, ht, rfl⟩

theorem channel_view_is_merge (w : World) (topic chan : String) (v : View)
    (h : channelView Fixes.all w topic chan = .ok v) (h200 : v.status = 200) :
    ∃ ps f1 ts m f2 c, getTopicProducers Fixes.all w topic = .ok (.got ps f1) ∧
      nsqdStats Fixes.all w ps topic chan true = .ok (.got (ts, m) f2) ∧
      lookup m chan = some c ∧ v.body = .channel c := by
  unfold channelView at h
  obtain ⟨s1, hs1⟩ := getTopicProducers_ok w topic
  simp only [hs1] at h
  cases s1 with
  | allFailed => simp only [Except.ok.injEq] at h; subst h; simp at h200
  | got ps f1 =>
    obtain ⟨s2, hs2⟩ := nsqdStats_ok w ps topic chan true
    simp only [hs2] at h
    cases s2 with
    | allFailed => simp only [Except.ok.injEq] at h; subst h; simp at h200
    | got tm f2 =>
      obtain ⟨ts, m⟩ := tm
      simp only [] at h
      cases hfind : m.find? (·.1 == chan) with
      | none =>
        simp only [hfind, all_chanNotFound, if_true, Except.ok.injEq] at h
        subst h; simp at h200
      | some kc =>
        simp only [hfind, Except.ok.injEq] at h
        subst h
        exact ⟨ps, f1, ts, m, f2, kc.2, hs1, hs2, by simp [lookup, hfind], rfl⟩

/-- **partial_warning (`/api/nodes`, nsqlookupd mode).** -/
theorem partial_warning_nodes (w : World) (hl : w.lookupds ≠ []) (v : View)
    (h : nodesView Fixes.all w = .ok v) :
    (v.status = 502 ↔ ∀ l ∈ w.lookupds, l.nodes = none) ∧
    (v.status = 200 ∨ v.status = 502) ∧
    (v.status = 200 → v.warn = decide (countFailed (w.lookupds.map (·.nodes)) > 0)) := by
  have hne : (!w.lookupds.isEmpty) = true := by
    cases hw : w.lookupds with
    | nil => exact absurd hw hl
    | cons _ _ => rfl
  unfold nodesView getProducers at h
  simp only [hne, if_true] at h
  obtain ⟨r, hr⟩ := lookupdProducers_ok w.lookupds
  have hrule := lookupdProducers_rule Fixes.all w.lookupds r hr
  simp only [hr] at h
  cases r with
  | allFailed =>
    simp only [Except.ok.injEq] at h; subst h
    exact ⟨⟨fun _ => hrule.1.1 rfl, fun _ => rfl⟩, Or.inr rfl, fun h => by simp at h⟩
  | got ps f =>
    simp only [Except.ok.injEq] at h; subst h
    obtain ⟨hf, _⟩ := hrule.2 ps f rfl
    refine ⟨⟨fun h => by simp at h, fun hn => ?_⟩, Or.inl rfl, fun _ => by simp [hf]⟩
    exact absurd (hrule.1.2 hn) (by simp)

/-- **partial_warning (`/api/nodes/:n`).** One producer is queried: its failure is "none
answered" (502); an unknown node is 404. -/
theorem partial_warning_node (w : World) (addr : String) (v : View)
    (h : nodeView Fixes.all w addr = .ok v) : v.status = 200 ∨ v.status = 404 ∨ v.status = 502 := by
  unfold nodeView at h
  obtain ⟨r, hr⟩ := getProducers_ok w
  simp only [hr] at h
  cases r with
  | allFailed => simp only [Except.ok.injEq] at h; subst h; exact Or.inr (Or.inr rfl)
  | got ps f =>
    simp only [] at h
    cases hf : ps.find? (·.addr == addr) with
    | none => simp only [hf, Except.ok.injEq] at h; subst h; exact Or.inr (Or.inl rfl)
    | some p =>
      simp only [hf] at h
      obtain ⟨r2, h2⟩ := nsqdStats_ok w [p] "" "" true
      simp only [h2] at h
      cases r2 with
      | allFailed => simp only [Except.ok.injEq] at h; subst h; exact Or.inr (Or.inr rfl)
      | got tm f2 =>
        obtain ⟨ts, m⟩ := tm
        simp only [Except.ok.injEq] at h; subst h; exact Or.inl rfl

/-! ## view_no_panic -/

/-- **view_no_panic.** On the tree with the guards (`Fixes.all`) every view of every cluster —
including null array elements, short or long tombstone arrays, missing latency members, channels
no node reports — completes: no fetch goroutine panics (the process lives) and no handler goes
through the router's panic handler (no 500). -/
theorem view_no_panic (w : World) (req : Request) :
    ∃ v, view Fixes.all w req = .ok v ∧ v.status ≠ 500 :=
  view_ok w req

/-- The statement for an arbitrary tree: false without the guards (next four theorems). -/
def view_no_panic_for (fx : Fixes) : Prop :=
  ∀ (w : World) (req : Request), ∃ v, view fx w req = .ok v ∧ v.status ≠ 500

/-- The fault of a run, if any. -/
def faultOf (r : Except Fault View) : Option Fault :=
  match r with
  | .error f => some f
  | .ok _ => none

def info0 : Info := { hostname := "h", addr := "N0", tcp := "N0:4150", version := "1.3.0", ver := (1, 3, 0) }

/-- DESIGN F4: a `/nodes` reply with two topics and one tombstone. -/
def f4World : World :=
  { lookupds := [⟨"L0", some [], some [some { pj "h" "N0" "N0:4150" "r" with topics := ["t1", "t2"], tombstones := [false] }], none⟩],
    nsqdAddrs := [], nsqds := [] }

theorem view_panics_without_tombstone_bounds :
    faultOf (view { Fixes.all with tombBounds := false } f4World .nodes) =
      some (.indexOutOfRange "Producer.UnmarshalJSON tombstones[i]") := by decide

theorem view_no_panic_false_without_tombstone_bounds :
    ¬ view_no_panic_for { Fixes.all with tombBounds := false } := by
  intro h
  obtain ⟨v, hv, _⟩ := h f4World .nodes
  have := view_panics_without_tombstone_bounds
  rw [hv] at this
  cases this

def nullProducerWorld : World :=
  { lookupds := [⟨"L0", some [], some [none], none⟩], nsqdAddrs := [], nsqds := [] }

theorem view_panics_without_nil_guards :
    faultOf (view { Fixes.all with nilElems := false } nullProducerWorld .nodes) =
      some (.nilDeref "GetLookupdProducers producer.TCPAddress()") := by decide

def chan0 (e2e : Bool) : Chan := { name := "c1", cnt := {}, paused := false, clients := [], e2e := e2e }
def topic0 (e2e : Bool) : Topic :=
  { name := "t1", cnt := {}, paused := false, e2e := true, channels := [some (chan0 e2e)] }
def nsqd0 (e2e : Bool) : Nsqd :=
  { addr := "N0", info := some info0, filters := true, stats := some [some (topic0 e2e)] }
def chanWorld (e2e : Bool) : World := { lookupds := [], nsqdAddrs := ["N0"], nsqds := [nsqd0 e2e] }

theorem view_panics_without_e2e_guard :
    faultOf (view { Fixes.all with nilE2e := false } (chanWorld false) (.channel "t1" "c1")) =
      some (.nilDeref "ChannelStats.Add a.E2eProcessingLatency") := by decide

/-- A channel no node reports: a recovered panic (500) without the 404 guard. -/
theorem channel_500_without_guard :
    (match view { Fixes.all with chanNotFound := false } (chanWorld true) (.channel "t1" "nosuch") with
     | .ok v => v.status
     | .error _ => 0) = 500 := by decide

example : (match view Fixes.all (chanWorld true) (.channel "t1" "nosuch") with
    | .ok v => v.status | .error _ => 0) = 404 := by decide
example : (match view Fixes.all f4World .nodes with
    | .ok v => v.status | .error _ => 0) = 200 := by decide

/-! ## fetch_terminates -/

open Nsq.Model.Fetch Nsq.Proofs.Fetch in
/-- **fetch_terminates.** The upstream request loop (`GETV1` / `POSTV1`) always ends, whatever the upstream
answers on whatever port: it sends at most two requests — at most one on plain HTTP and at most one on HTTPS (the
scheme upgrade on `403 {"https_port": N}` happens at most once) — the first one to the given endpoint. (No fuel:
`getV1` is accepted by Lean with the measure "is the current endpoint plain".) So an upstream that answers 403 on
both ports is one failed answer, and the view is built from the others (`partial_warning_*`). -/
theorem fetch_terminates (srv : Endpoint → Resp) (e : Endpoint) :
    (getV1 srv e).2.length ≤ 2 ∧
    ((getV1 srv e).2.filter (fun x => x.https)).length ≤ 1 ∧
    ((getV1 srv e).2.filter (fun x => !x.https)).length ≤ 1 ∧
    (getV1 srv e).2.head? = some e := by
  cases h : e.https with
  | true =>
    have := (getV1_https srv e h).1
    simp [this, h]
  | false =>
    rcases getV1_plain srv e h with h1 | ⟨port, _, h2, _⟩
    · simp [h1, h]
    · simp [h2, h]

open Nsq.Model.Fetch Nsq.Proofs.Fetch in
/-- The five stub behaviours of the harness: the normal upgrade answers; 403 again on the TLS port, a closed TLS
port, a 403 without or with an unusable `https_port` are one failed answer each, after 2, 2, 2 and 1 requests. -/
theorem fetch_stub_outcomes :
    getV1 (stub 7) ⟨false, 1⟩ = (.ok, [⟨false, 1⟩, ⟨true, 2⟩]) ∧
    getV1 (stub 8) ⟨false, 1⟩ = (.failed, [⟨false, 1⟩, ⟨true, 2⟩]) ∧
    getV1 (stub 9) ⟨false, 1⟩ = (.failed, [⟨false, 1⟩, ⟨true, 3⟩]) ∧
    getV1 (stub 10) ⟨false, 1⟩ = (.failed, [⟨false, 1⟩, ⟨true, 0⟩]) ∧
    getV1 (stub 11) ⟨false, 1⟩ = (.failed, [⟨false, 1⟩]) ∧
    getV1 (stub 8) ⟨true, 2⟩ = (.failed, [⟨true, 2⟩]) := by
  refine ⟨?_, ?_, ?_, ?_, ?_, ?_⟩ <;> simp [getV1, stub]

open Nsq.Model.Fetch Nsq.Proofs.Fetch in
/-- Witness for the loop with the upgrade condition computed once before the loop: against an upstream that
answers `403 {"https_port": N}` on both ports it sends as many requests as it is given passes — it never stops. -/
theorem fetch_with_stale_condition_never_stops (fuel : Nat) :
    (getV1Stale (fun _ => .forbidden (some 2)) true fuel ⟨false, 1⟩).2.length = fuel :=
  stale_uses_all_fuel 2 fuel _

/-! ## Integers: where Go's int64 sums can wrap, and when they cannot

The model above computes with `Int`. nsqadmin computes every counter with int64 `+`, `-`, `+=`:
`TopicStats.Add` (8 fields), `ChannelStats.Add` (13 fields + `ClientCount int`), GetNSQDStats
(`MemoryDepth = Depth - BackendDepth`, `DeliveryMsgCount = Zone + Region + Global`), nodeHandler
(`totalMessages`, `totalClients`) and counterHandler (`MessageCount +=`). These are *all* the places
(the regenerated `+=` tables `Tie.AdminAgg.*_counters_summed_once` list the fields). -/

section Int64
open Nsq.Model.Int64 Nsq.Proofs.Int64 Nsq.Proofs.AggregateWrap

/-- **int64_sum_wraps.** A running int64 sum is the exact sum reduced into [-2^63, 2^63) — whatever happens
to intermediate results. -/
theorem int64_sum_wraps (l : List Int) : goSum l = wrap64 l.sum := goSum_eq l

/-- **int64_wrap_exact.** The shown sum equals the exact sum *iff* the exact sum fits into int64. -/
theorem int64_wrap_exact (l : List Int) : goSum l = l.sum ↔ inRange l.sum := by
  rw [goSum_eq]; exact wrap64_eq_iff _

/-- **int64_no_wrap_sufficient.** The side condition under which `sum_fields` / `channels_merge` speak about
what nsqadmin shows: counters are non-negative (as nsqd reports them) and their exact sum is below 2^63. -/
theorem int64_no_wrap_sufficient (l : List Int) (hpos : ∀ x ∈ l, 0 ≤ x) (h : l.sum < two63) :
    goSum l = l.sum := by
  rw [goSum_eq]
  apply wrap64_id
  have := sum_nonneg l hpos
  unfold inRange two63 at *
  omega

/-- The condition is needed: two nodes reporting 2^62 each already show a negative depth. -/
theorem int64_sum_can_wrap : goSum [4611686018427387904, 4611686018427387904] = -9223372036854775808 := by
  decide

example : ∀ x ∈ [(3 : Int), 4], 0 ≤ x := by decide
example : goSum [3, 4] = 7 := by decide

/-- **counters_go_sum.** All 13 counters at once: aggregating node reports with Go's arithmetic gives the
model's (`Int`) aggregate wrapped field by field; with every exact field in range, exactly the model's. -/
theorem counters_go_sum (l : List Counters) (acc : Counters) :
    l.foldl Counters.goAdd (Counters.wrap acc) = Counters.wrap (l.foldl Counters.add acc) ∧
    (Counters.fits (l.foldl Counters.add acc) →
      l.foldl Counters.goAdd (Counters.wrap acc) = l.foldl Counters.add acc) := by
  refine ⟨foldl_add64_wrap l acc, fun h => ?_⟩
  rw [foldl_add64_wrap, wrap_of_inRange _ h]

/-- **derived_fields_go.** `memory_depth` / `delivery_msg_count` recomputed in int64 from wrapped inputs are
the wrapped `derive` of the model. -/
theorem derived_fields_go (c : Counters) :
    Counters.wrap (Counters.goDerive (Counters.wrap c)) = Counters.wrap c.derive := derive64_wrap c

example : (Counters.goDerive { depth := 5, backendDepth := 2, zoneLocal := 1, regionLocal := 1, globalMsg := 1 }).memDepth = 3 := by decide

end Int64

end Nsq.Props.C18
