import Nsq.Model.Aggregate
namespace Nsq.Props.C18
open Nsq.Model.Aggregate
theorem placeholder : Fixes.all.tombBounds = true := rfl
end Nsq.Props.C18
