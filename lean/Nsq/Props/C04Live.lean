/-
C04 (timing half) — tick-count lateness of `queueScanLoop` (round 6).

`Nsq.Props.C04` proves "never early" and "one ROUND of the loop leaves nothing due in any channel
when there are at most `QueueScanSelectionCount` channels". Here the whole tick is modelled
(`Nsq.Model.Timing.tickLoop`: rounds repeated at once while the dirty fraction exceeds
`QueueScanDirtyPercent`) and lateness is stated in TICKS:

* ≤ `QueueScanSelectionCount` (20) channels: a message whose deadline is `d` is released by the
  FIRST tick whose first round reads the clock at/after `d` — tick-count lateness 0, i.e. wall-clock
  lateness < one `QueueScanInterval` + the duration of the tick (`released_by_first_tick_after_deadline`);
* any number of channels: it is released by the first tick at/after `d` in which `UniqRands`
  selects its channel in some executed round (`released_when_selected`); whether and when that happens
  is the random stream's choice (20 of n per round, fresh draw every round): NO deterministic tick
  bound exists with more than 20 channels, and none is claimed;
* what the 25 % dirty loop guarantees (`dirty_loop_guarantee`): a tick ends only after a round in
  which at most the threshold fraction of the scanned channels had anything due, and every round
  scans `min(20, n)` distinct channels completely — so while more than a quarter of a sample is
  dirty the loop does not wait for the next `QueueScanInterval`.
Time readings are inputs (`Round.now`), the clock itself is not modelled (wall-clock: partial).
-/
import Nsq.Proofs.TickLoop
namespace Nsq.Props.C04Live
open Nsq.Model.PQ Nsq.Model.Timing Nsq.Proofs.PQ Nsq.Proofs.Timing Nsq.Proofs.Tick Nsq.Proofs.TickLoop

/-- the tick never panics, executes between 1 and the given number of rounds, keeps the channel
list and every channel's heap/map invariant, and never re-creates a due entry: what was clear at
`d` before the tick is clear at `d` after it — any number of channels, any random stream, any
clock readings, any threshold -/
theorem tick_total (q pn pd : Nat) (cs : List Chan) (hinv : AllInv cs) (rds : List Round) :
    ∃ cs' b k, tickLoop q pn pd cs rds = some (cs', b, k) ∧ cs'.length = cs.length ∧ AllInv cs' ∧
      k ≤ rds.length ∧ (rds ≠ [] → 1 ≤ k) ∧ (b = false → k = rds.length) ∧
      ∀ i d, ClearAt cs i d → ClearAt cs' i d := by
  obtain ⟨cs', b, k, h1, h2, h3, h4, h5, h6, h7, _⟩ := tickLoop_spec q pn pd rds cs hinv
  exact ⟨cs', b, k, h1, h2, h3, h4, h5, h6, h7⟩

/-- **≤ 20 channels: released by the first tick at/after the deadline.** If the daemon has at most
`q = QueueScanSelectionCount` channels, then after ANY tick whose first round reads the clock at or
after `d` (however many further rounds the dirty loop adds, whatever they read) no channel holds an
in-flight or deferred entry with deadline `≤ d`. -/
theorem released_by_first_tick_after_deadline (q pn pd : Nat) (cs : List Chan) (hinv : AllInv cs)
    (hn : cs.length ≤ q) (rd : Round) (rest : List Round) (d : Int) (hd : ∀ i, i < cs.length → d ≤ rd.now i) :
    ∃ cs' b k, tickLoop q pn pd cs (rd :: rest) = some (cs', b, k) ∧ 1 ≤ k ∧
      ∀ c ∈ cs', nothingDue c d = true := by
  obtain ⟨cs', b, k, h1, h2, _, _, h5, _, _, h8⟩ := tickLoop_spec q pn pd (rd :: rest) cs hinv
  refine ⟨cs', b, k, h1, h5 (by simp), ?_⟩
  intro c hc
  obtain ⟨i, hi⟩ := List.getElem?_of_mem hc
  have hlt : i < cs.length := by
    rw [← h2]; exact (List.getElem?_eq_some_iff.1 hi).1
  exact h8 i d (everSelected_small q pn pd cs hn rd rest i hlt d (hd i hlt)) c hi

/-- **any number of channels: released when selected.** A channel that `UniqRands` hands to a
worker in some executed round of the tick, with a clock reading `≥ d`, holds nothing with deadline
`≤ d` when the tick ends. -/
theorem released_when_selected (q pn pd : Nat) (cs : List Chan) (hinv : AllInv cs) (rds : List Round)
    (i : Nat) (d : Int) (hs : everSelected q pn pd cs i d rds = true) :
    ∃ cs' b k, tickLoop q pn pd cs rds = some (cs', b, k) ∧ ClearAt cs' i d := by
  obtain ⟨cs', b, k, h1, _, _, _, _, _, _, h8⟩ := tickLoop_spec q pn pd rds cs hinv
  exact ⟨cs', b, k, h1, h8 i d hs⟩

/-- **the 25 % loop.** A tick that ended by the dirty test (not because the given rounds ran out)
ended with a round that scanned `min(q, n)` distinct channels of which at most the fraction
`pn / pd` answered dirty; every earlier round was followed by another one AT ONCE. -/
theorem dirty_loop_guarantee (q pn pd : Nat) (cs cs' : List Chan) (rds : List Round) (k : Nat)
    (h : tickLoop q pn pd cs rds = some (cs', true, k)) :
    ∃ cs0 rd sel, rd ∈ rds ∧ uniqRands (min q cs0.length) cs0.length rd.r = some sel ∧
      sel.length = min q cs0.length ∧ sel.Nodup ∧
      cs' = scanTick cs0 sel rd.now ∧ dirtyCount cs0 sel rd.now * pd ≤ pn * min q cs0.length := by
  obtain ⟨cs0, rd, sel, h1, h2, h3, h4⟩ := tickLoop_clean_exit q pn pd rds cs cs' k h
  obtain ⟨l, e1, e2, e3, _, _⟩ := uniqRands_perm (min q cs0.length) cs0.length rd.r
  rw [h2] at e1
  cases e1
  exact ⟨cs0, rd, sel, h1, h2, by rw [e2]; omega, e3, h3, h4⟩

/-! ### non-vacuity -/

/-- two channels, each with one deferred entry due at 5 resp. 6; a tick reading the clock at 10 -/
def exRound : Round := { r := fun i => 7 * i + 2, now := fun _ => 10 }

example : ∃ cs' b k, tickLoop 20 1 4 twoChans [exRound, exRound] = some (cs', b, k) ∧ 1 ≤ k ∧
    ∀ c ∈ cs', nothingDue c 10 = true :=
  released_by_first_tick_after_deadline 20 1 4 twoChans twoChans_inv (by decide) exRound [exRound] 10
    (fun _ _ => Int.le_refl 10)

/-- computed: the first round is 100 % dirty (2 of 2 > 25 %), so a second round runs at once; it
is clean and the tick ends by the dirty test after 2 rounds -/
example : (tickLoop 20 1 4 twoChans [exRound, exRound, exRound]).map (fun x => (x.2.1, x.2.2, x.1.map (·.ready))) =
    some (true, 2, [[7], [8]]) := by decide +kernel

/-- with q = 1 of 2 channels only the selected channel (index 0 for this stream) is scanned per round;
the round is 100 % dirty but the given rounds ran out (`false`) -/
example : (tickLoop 1 1 4 twoChans [exRound]).map (fun x => (x.2.1, x.2.2, x.1.map (fun c => nothingDue c 10))) =
    some (false, 1, [true, false]) := by decide +kernel
example : everSelected 1 1 4 twoChans 0 10 [exRound] = true ∧ everSelected 1 1 4 twoChans 1 10 [exRound] = false := by
  decide +kernel

/-- the theorems applied -/
example : ∃ cs' b k, tickLoop 1 1 4 twoChans [exRound] = some (cs', b, k) ∧ ClearAt cs' 0 10 :=
  released_when_selected 1 1 4 twoChans twoChans_inv [exRound] 0 10 (by decide +kernel)
example : ∀ cs', tickLoop 20 1 4 twoChans [exRound, exRound, exRound] = some (cs', true, 2) →
    ∃ cs0 rd sel, rd ∈ [exRound, exRound, exRound] ∧ uniqRands (min 20 cs0.length) cs0.length rd.r = some sel ∧
      sel.length = min 20 cs0.length ∧ sel.Nodup ∧
      cs' = scanTick cs0 sel rd.now ∧ dirtyCount cs0 sel rd.now * 4 ≤ 1 * min 20 cs0.length :=
  fun cs' h => dirty_loop_guarantee 20 1 4 twoChans cs' _ 2 h
example : ∃ cs' b k, tickLoop 20 1 4 twoChans [exRound] = some (cs', b, k) ∧ cs'.length = twoChans.length ∧ AllInv cs' ∧
      k ≤ 1 ∧ (([exRound] : List Round) ≠ [] → 1 ≤ k) ∧ (b = false → k = 1) ∧
      ∀ i d, ClearAt twoChans i d → ClearAt cs' i d :=
  tick_total 20 1 4 twoChans twoChans_inv [exRound]

end Nsq.Props.C04Live
