/-
C07.4 — `queue_path_identity`: envelope integrity along every queue path, proved on the E2
channel / topic state machine (engineer `chan`).

In the model every message carries its envelope `Env = (timestamp, body)` next to its id: on the
topic queue (`TMsg.env`), in every channel (`Entry.env`: queued in memory or on disk, in flight,
deferred) and in the ghost envelope logs (`Topic.envlog`: what each id was published with;
`Chan.elog`: what was put on the channel and what was handed to a consumer). A move between
memory and disk is a change of counters (`memLen/dqLen`, `TMsg.place`), a requeue / deferral /
timeout is a change of the location tag: none of them can touch `env` — that this is also what the
bytes do (`WriteTo` / `decodeMessage` round trip, per-channel copy in `Topic.messagePump`) is
C07's codec part (`dq_roundtrip`, `Tie.Wire`). What is proved here is that along EVERY operation
list (atomic operations and all micro-steps) no step of the state machine confuses two messages'
envelopes or invents one: an invariant by induction over op lists.
Excluded by the statement: a message emptied / finished and published again gets a new id.
-/
import Nsq.Props.C01
namespace Nsq.Props.C07Path
open Nsq.Model.Chan Nsq.Model.ChanNsqd Nsq.Proofs.Chan Nsq.Proofs.ChanNsqd

/-- channel level: in every state reachable from a fresh channel by any op list
(1) every located message (queued in memory or on disk, in flight — also to a vanished
    connection —, deferred; after any number of requeues with any delay, timeouts, TOUCHes)
    carries the envelope that was put on the channel under its id;
(2) every delivery handed the consumer exactly that envelope;
(3) an id has one envelope. -/
theorem queue_path_identity {conf : Conf} {c : Chan} (h : C02.Reachable conf c) :
    (∀ e ∈ c.msgs, EEv.put e.id e.env ∈ c.elog) ∧
    (∀ k id a env, EEv.deliver k id a env ∈ c.elog → EEv.put id env ∈ c.elog) ∧
    (∀ id e1 e2, EEv.put id e1 ∈ c.elog → EEv.put id e2 ∈ c.elog → e1 = e2) := by
  obtain ⟨eph, cap, ops, rfl⟩ := h
  have := run_envInv conf ops (inv_init eph cap) (envInv_init eph cap)
  exact ⟨this.loc, this.del, this.uniq⟩

/-- consequently a redelivery carries the same envelope as every earlier delivery of that id -/
theorem redelivery_same_envelope {conf : Conf} {c : Chan} (h : C02.Reachable conf c)
    {k1 k2 id a1 a2 : Nat} {e1 e2 : Env}
    (h1 : EEv.deliver k1 id a1 e1 ∈ c.elog) (h2 : EEv.deliver k2 id a2 e2 ∈ c.elog) : e1 = e2 := by
  obtain ⟨_, hd, hu⟩ := queue_path_identity h
  exact hu id e1 e2 (hd _ _ _ _ h1) (hd _ _ _ _ h2)

/-- daemon level — `queue_path_identity` against the publisher's record: in every state reachable
by API-level operations, for every topic
(1) every message waiting on the topic queue (memory or disk),
(2) every located message of every channel,
(3) every envelope delivered on any channel
is the envelope recorded when that id was published (`envlog`, written only by PUB / MPUB / DPUB
with the values the publisher handed over), each id has one record, and every record belongs
to an acknowledged publish (or to the enqueued prefix of a failed MPUB). -/
theorem queue_path_identity_nsqd {s : State} (h : C01.NReachable s) {t : Topic} (ht : t ∈ s.topics) :
    (∀ m ∈ t.queue, (m.id, m.env) ∈ t.envlog) ∧
    (∀ nc ∈ t.chans, ∀ e ∈ nc.ch.msgs, (e.id, e.env) ∈ t.envlog) ∧
    (∀ nc ∈ t.chans, ∀ k id a env, EEv.deliver k id a env ∈ nc.ch.elog → (id, env) ∈ t.envlog) ∧
    (∀ id e1 e2, (id, e1) ∈ t.envlog → (id, e2) ∈ t.envlog → e1 = e2) ∧
    (∀ p ∈ t.envlog, p.1 ∈ t.acked ∨ p.1 ∈ t.unacked) := by
  have hi := (C01.nreachable_inv h).topics t ht
  refine ⟨hi.qenv, ?_, ?_, fun id e1 e2 h1 h2 => envlog_functional hi.elnodup h1 h2, hi.elid⟩
  · intro nc hnc e he
    exact hi.cput nc hnc e.id e.env ((hi.cenv nc hnc).loc e he)
  · intro nc hnc k id a env hd
    exact hi.cput nc hnc id env ((hi.cenv nc hnc).del k id a env hd)

/-- `topic_fanout_copies_envelope` at history level — the per-channel copies the topic pump makes
carry the same id / timestamp / body on every channel: two located copies, and two deliveries,
of one id on any two channels of a topic have the same envelope. -/
theorem topic_fanout_copies_envelope {s : State} (h : C01.NReachable s) {t : Topic} (ht : t ∈ s.topics)
    {nc1 nc2 : NChan} (h1 : nc1 ∈ t.chans) (h2 : nc2 ∈ t.chans) :
    (∀ e1 ∈ nc1.ch.msgs, ∀ e2 ∈ nc2.ch.msgs, e1.id = e2.id → e1.env = e2.env) ∧
    (∀ k1 k2 id a1 a2 v1 v2, EEv.deliver k1 id a1 v1 ∈ nc1.ch.elog → EEv.deliver k2 id a2 v2 ∈ nc2.ch.elog → v1 = v2) ∧
    (∀ id v1 v2, EEv.put id v1 ∈ nc1.ch.elog → EEv.put id v2 ∈ nc2.ch.elog → v1 = v2) := by
  obtain ⟨_, hloc, hdel, hfun, _⟩ := queue_path_identity_nsqd h ht
  have hi := (C01.nreachable_inv h).topics t ht
  refine ⟨?_, ?_, ?_⟩
  · intro e1 he1 e2 he2 hid
    have a := hloc nc1 h1 e1 he1
    have b := hloc nc2 h2 e2 he2
    rw [hid] at a
    exact hfun _ _ _ a b
  · intro k1 k2 id a1 a2 v1 v2 d1 d2
    exact hfun _ _ _ (hdel nc1 h1 _ _ _ _ d1) (hdel nc2 h2 _ _ _ _ d2)
  · intro id v1 v2 p1 p2
    exact hfun _ _ _ (hi.cput nc1 h1 id v1 p1) (hi.cput nc2 h2 id v2 p2)

/-- the step that makes the copies: `pumpTopic` puts the message's own envelope — and nothing
else — on the channels (every new `put` record is `(m.id, m.env)`) -/
theorem pump_copies_envelope (conf : NConf) (pump : List Nat) (m : TMsg) (kept : Bool) (pris : List (Nat × Int))
    {nc : NChan} (hi : Inv 0 nc.ch) (he : EnvInv nc.ch) (hnew : nFanout nc.ch.hist m.id = 0) :
    (∀ i ev, EEv.put i ev ∈ (fanOne conf pump m kept pris nc).ch.elog → EEv.put i ev ∈ nc.ch.elog ∨ (i = m.id ∧ ev = m.env)) ∧
    (pump.contains nc.cid = true → EEv.put m.id m.env ∈ (fanOne conf pump m kept pris nc).ch.elog) := by
  refine ⟨(fanOne_spec conf pump m kept pris hi hnew he).2.2.2.2.2, ?_⟩
  intro hp
  have hno : hasId nc.ch.msgs m.id = false := by
    cases hh : hasId nc.ch.msgs m.id
    · rfl
    · exact absurd hnew (hasId_imp_fanned hi hh)
  unfold fanOne
  simp only [hp, Bool.not_true, Bool.false_eq_true, ↓reduceIte]
  split
  · split <;> simp [Nsq.Model.Chan.step, hnew, hno]
  · simp only [Nsq.Model.Chan.step, hnew, hno, bne_self_eq_false, Bool.or_self, Bool.false_eq_true, ↓reduceIte]
    rw [(enqueue_env _ _).1]
    exact List.mem_cons_self

/-- a publish records exactly the envelope it was given, under the id it returns -/
theorem publish_records_envelope (s : State) (t sz d : Nat) (env : Env) :
    (∃ tp ∈ (Nsq.Model.ChanNsqd.step s (.pub t sz env)).1.topics, tp.tid = t ∧ (s.nextId, env) ∈ tp.envlog ∧
        ∃ m ∈ tp.queue, m.id = s.nextId ∧ m.env = env) ∧
    (∃ tp ∈ (Nsq.Model.ChanNsqd.step s (.dpub t sz d env)).1.topics, tp.tid = t ∧ (s.nextId, env) ∈ tp.envlog ∧
        ∃ m ∈ tp.queue, m.id = s.nextId ∧ m.env = env) := by
  obtain ⟨y, hy, hyt⟩ := ensureTopic_has s t
  have hn := (ensureTopic_nextId s t).1
  constructor
  · simp only [Nsq.Model.ChanNsqd.step]
    refine ⟨_, mem_updT.2 ⟨y, hy, rfl⟩, ?_⟩
    simp [hyt, putT, hn]
  · simp only [Nsq.Model.ChanNsqd.step]
    refine ⟨_, mem_updT.2 ⟨y, hy, rfl⟩, ?_⟩
    simp [hyt, putT, hn]

/-! non-vacuity: two channels, a message published with timestamp 111 / body 222, delivered on
one channel, requeued with a delay, released, redelivered; the other channel's copy still queued -/
def exOps : List Nsq.Model.ChanNsqd.Op :=
  [.createChan 1 1 false, .createChan 1 2 false, .pub 1 10 ⟨111, 222⟩, .pumpTopic 1 1 false [],
   .sub 5 1 1 false 60 0, .rdy 5 (some 1), .deliver 5 1 1000, .req 5 1 7 1001, .scanDeferred 1 1 99999999999,
   .deliver 5 1 2000]
def exS : State := Nsq.Model.ChanNsqd.run { conf := { memq := 0 } } exOps
example : C01.NReachable exS := ⟨_, _, by decide, rfl⟩
example : exS.topics.map (fun t => t.chans.map (fun nc => nc.ch.msgs.map (fun e => (e.id, e.att, e.env)))) =
    [[[(1, 2, ⟨111, 222⟩)], [(1, 0, ⟨111, 222⟩)]]] := by decide
example : exS.topics.map (fun t => t.chans.map (fun nc => nc.ch.elog)) =
    [[[.deliver 5 1 2 ⟨111, 222⟩, .deliver 5 1 1 ⟨111, 222⟩, .put 1 ⟨111, 222⟩], [.put 1 ⟨111, 222⟩]]] := by decide

end Nsq.Props.C07Path
