import Nsq.Props.C16More
/-!
# C16 — the quiescence hypothesis discharged: drain count + two ticks, one theorem (claim audit 11, C16)

`C16Ticks.in_sync_within_two_ticks` assumes `Quiescent` at the end; `C16More.bag_drains` counts the pending
notifications. Here the two are composed and the count is proved in both directions:

* `notify_count_le_bag`: over `lookupLoop` iterations (no local churn, no reconfiguration) at most `|bag|` of them are
  `notify` iterations, and the bag is empty at the end IFF exactly `|bag|` were;
* `in_sync_after_last_churn_and_fault`: after ANY history that leaves nothing half-deleted (the last churn step is
  over), `lookupLoop` iterations without a fault of the lookupd at `a`, ending with the bag drained and containing two
  ticks, leave that lookupd connected and listing exactly nsqd's objects — and then exactly `|bag|` of the iterations
  were notifications;
* `drain_and_two_ticks_enabled`: such a schedule is always ENABLED and has exactly `|bag| + 2` iterations: from every
  state, receiving the pending notifications (in bag order) and ticking twice, every `Command` to every peer
  succeeding, is a run of the model that empties the bag (`lookupLoop` never blocks on a pending notification);
* `in_sync_after_bag_plus_two_iterations`: hence after the last churn step and the last fault, `|bag| + 2` iterations
  of `lookupLoop` suffice for the lookupd at `a` to list exactly nsqd's objects.
-/
namespace Nsq.Props.C16Drain
open Nsq.Model.LookupSync Nsq.Proofs.LookupSync Nsq.Proofs.LookupTicks Nsq.Props.C16 Nsq.Props.C16More

/-- Over `lookupLoop` iterations at most `|bag|` are notifications; the bag is drained iff exactly `|bag|` were. -/
theorem notify_count_le_bag (steps : List Step) (s s' : State) (hr : run s steps = some s')
    (hloop : steps.all loopOnly = true) :
    (steps.filter isNotify).length ≤ s.bag.length ∧
    (s'.bag = [] ↔ (steps.filter isNotify).length = s.bag.length) := by
  obtain ⟨e1, _, _⟩ := bag_drains steps s s' hr hloop
  refine ⟨by omega, ⟨fun h => ?_, fun h => List.eq_nil_of_length_eq_zero (by omega)⟩⟩
  rw [h] at e1; simpa using e1

/-- After the last churn step (`hnd`: nothing is half-deleted; `hloop`: only `lookupLoop` iterations and lookupd faults
follow) and the last fault of the lookupd at `a` (`hok`), once the bag has drained (`hbag`) and two ticks have passed
(`h2`), that lookupd is connected and lists exactly nsqd's objects; the drain took exactly `|bag|` notify iterations. -/
theorem in_sync_after_last_churn_and_fault (a : Nat) (pre steps : List Step) (s0 s' : State)
    (h0 : run State.init pre = some s0) (hnd : ∀ r ∈ s0.objs, r ∉ s0.dead) (hr : run s0 steps = some s')
    (hloop : steps.all loopOnly = true) (hok : OkRun a s0 steps) (h2 : 2 ≤ ticks steps) (hbag : s'.bag = []) :
    (∀ p ∈ s'.peers, p.addr = a → p.conn = .up ∧ ∀ k, k ∈ p.regs ↔ ∃ r ∈ s'.objs, r.key = k) ∧
    (steps.filter isNotify).length = s0.bag.length ∧ s'.objs = s0.objs := by
  have hn := (notify_count_le_bag steps s0 s' hr hloop).2.mp hbag
  exact ⟨in_sync_after_drain_and_two_ticks a pre steps s0 s' h0 hnd hr hloop hok h2 hn, hn,
    (bag_drains steps s0 s' hr hloop).2.1⟩

/-! ## the drain is enabled: `|bag|` notifications, then two ticks -/

def okOuts (n : Nat) : List Outcome := List.replicate n .ok

/-- receive the pending notifications `bag` in order, then tick twice; every `Command` of every round succeeds -/
def drainSched (n : Nat) : List Ref → List Step
  | [] => [.tick (okOuts n), .tick (okOuts n)]
  | r :: rest => .notify r (okOuts n) :: drainSched n rest

theorem length_mapOutcomes (f : Peer → Outcome → Peer) (ps : List Peer) (outs : List Outcome) :
    (mapOutcomes f ps outs).length = ps.length := by
  induction ps generalizing outs with
  | nil => simp [mapOutcomes]
  | cons p ps ih => cases outs <;> simp [mapOutcomes, ih]

theorem okOuts_ok (a : Nat) (peers : List Peer) : outsOkFor a peers (okOuts peers.length) := by
  intro i p hp _
  have hi : i < peers.length := by
    rcases Nat.lt_or_ge i peers.length with h | h
    · exact h
    · rw [List.getElem?_eq_none h] at hp; cases hp
  simp [okOuts, hi]

theorem drainSched_shape (n : Nat) (bag : List Ref) :
    (drainSched n bag).length = bag.length + 2 ∧ (drainSched n bag).all loopOnly = true ∧
    ticks (drainSched n bag) = 2 ∧ ((drainSched n bag).filter isNotify).length = bag.length := by
  induction bag with
  | nil => exact ⟨rfl, rfl, rfl, rfl⟩
  | cons r rest ih =>
    obtain ⟨h1, h2, h3, h4⟩ := ih
    simp only [ticks] at h3
    refine ⟨by simp [drainSched, h1], by simp [drainSched, loopOnly, h2], ?_, ?_⟩
    · simp [drainSched, ticks, isTick, h3]
    · simp [drainSched, List.filter_cons, isNotify, h4]

/-- From EVERY state the schedule `drainSched` runs (no iteration is blocked), is fault-free for every lookupd, and
empties the bag. -/
theorem drain_runs (a : Nat) : ∀ (bag : List Ref) (s : State), s.bag = bag →
    ∃ s', run s (drainSched s.peers.length bag) = some s' ∧ s'.bag = [] ∧
      OkRun a s (drainSched s.peers.length bag) := by
  intro bag
  induction bag with
  | nil =>
    intro s hb
    refine ⟨_, rfl, ?_, ?_⟩
    · simpa [step] using hb
    · refine ⟨okOuts_ok a s.peers, fun s1 h1 => ⟨?_, fun _ _ => trivial⟩⟩
      simp only [step, Option.some.injEq] at h1; subst h1
      simp only [OkFor]
      have hl := length_mapOutcomes (command s.objs s.dead id) s.peers (okOuts s.peers.length)
      have := okOuts_ok a (mapOutcomes (command s.objs s.dead id) s.peers (okOuts s.peers.length))
      rw [hl] at this; exact this
  | cons r rest ih =>
    intro s hb
    have hmem : s.bag.contains r = true := by rw [hb]; simp
    let apply : List Key → List Key :=
      if nameLive s.objs s.dead r.topic r.chan then register r.topic r.chan else unregister r.topic r.chan
    let s1 : State :=
      { s with bag := s.bag.erase r, peers := mapOutcomes (command s.objs s.dead apply) s.peers (okOuts s.peers.length) }
    have hstep : step s (.notify r (okOuts s.peers.length)) = some s1 := by
      simp only [step, hmem, Bool.not_true, Bool.false_eq_true, if_false]; rfl
    have hb1 : s1.bag = rest := by simp [s1, hb]
    have hl1 : s1.peers.length = s.peers.length := length_mapOutcomes _ _ _
    obtain ⟨s', hr', hbag', hok'⟩ := ih s1 hb1
    rw [hl1] at hr' hok'
    refine ⟨s', ?_, hbag', ?_⟩
    · simp only [drainSched, run, hstep]; exact hr'
    · refine ⟨okOuts_ok a s.peers, fun s2 h2 => ?_⟩
      rw [hstep] at h2; cases h2; exact hok'

/-- `lookupLoop` drains the bag and ticks twice in exactly `|bag| + 2` iterations, none of them blocked. -/
theorem drain_and_two_ticks_enabled (a : Nat) (s : State) :
    ∃ steps s', run s steps = some s' ∧ steps.length = s.bag.length + 2 ∧ steps.all loopOnly = true ∧
      OkRun a s steps ∧ ticks steps = 2 ∧ s'.bag = [] := by
  obtain ⟨s', hr, hb, hok⟩ := drain_runs a s.bag s rfl
  obtain ⟨h1, h2, h3, _⟩ := drainSched_shape s.peers.length s.bag
  exact ⟨_, s', hr, h1, h2, hok, h3, hb⟩

/-- **The composed statement.** `pre` is ANY history (churn, faults, restarts, reconfiguration) after which nothing is
half-deleted. Then `|bag| + 2` iterations of `lookupLoop` — the pending notifications and two heartbeat ticks, with no
fault of the lookupd at `a` — are enabled and leave that lookupd connected and listing exactly nsqd's topics and
channels (which are those at the end of `pre`). -/
theorem in_sync_after_bag_plus_two_iterations (a : Nat) (pre : List Step) (s0 : State)
    (h0 : run State.init pre = some s0) (hnd : ∀ r ∈ s0.objs, r ∉ s0.dead) :
    ∃ steps s', run s0 steps = some s' ∧ steps.length = s0.bag.length + 2 ∧ steps.all loopOnly = true ∧
      s'.objs = s0.objs ∧
      ∀ p ∈ s'.peers, p.addr = a → p.conn = .up ∧ ∀ k, k ∈ p.regs ↔ ∃ r ∈ s'.objs, r.key = k := by
  obtain ⟨steps, s', hr, hlen, hloop, hok, ht, hb⟩ := drain_and_two_ticks_enabled a s0
  obtain ⟨hs, _, ho⟩ := in_sync_after_last_churn_and_fault a pre steps s0 s' h0 hnd hr hloop hok (by omega) hb
  exact ⟨steps, s', hr, hlen, hloop, ho, hs⟩

/-! ## non-vacuity -/

/-- two notifications pending, the lookupd restarted and nsqd has not noticed: 2 + 2 iterations, in sync -/
def pre : List Step := [.addPeer 0 .ok, .createTopic "t", .createChan "t" "c", .lookupdDrop 0]

example : ((run State.init pre).map (fun s => (s.bag.length, s.peers.map (fun p => (p.conn == .up, p.regs))))) =
    some (2, [(false, [])]) := by decide
example : ((run State.init pre).map (fun s => drainSched s.peers.length s.bag)) =
    some [.notify c1 [.ok], .notify t0 [.ok], .tick [.ok], .tick [.ok]] := by rfl
example : ((run State.init (pre ++ [.notify c1 [.ok], .notify t0 [.ok], .tick [.ok], .tick [.ok]])).map
    (fun s => (s.bag.length, s.peers.map (fun p => (p.conn == .up, p.regs))))) =
    some (0, [(true, [("t", "c"), ("t", "")])]) := by decide
/-- the hypothesis `hnd` is needed and not always true: a half-deleted topic -/
example : ((run State.init [.createTopic "t", .delBegin t0]).map (fun s => decide (∀ r ∈ s.objs, r ∉ s.dead))) =
    some false := by decide
/-- the bound of `notify_count_le_bag` is attained and the drain is not vacuous: a third notification is refused -/
example : (run State.init (pre ++ [.notify c1 [.ok], .notify t0 [.ok], .notify t0 [.ok]])).isNone = true := by decide

end Nsq.Props.C16Drain
