/-
C13.2 — `message_bytes` as a RUN-level statement (round 9, audit B18a: `TInv` does not mention `msgBytes`, so
`C13.topic_bytes` was a step-level fact connected to no invariant).

* `step_message_bytes` — EVERY nsqd-level step (all 33 ops, the raw halves of channel creation and the FIN / pump
  micro-steps included) changes the sum of the topics' `message_bytes` by exactly the body bytes it enqueued
  (`added op`: PUB / DPUB the message, MPUB all messages, a failed MPUB the prefix before the failing write; 0 for
  everything else: fan-out, deliveries, answers, scans, pause, Empty, channel creation / deletion, (dis)connects);
* `message_bytes_is_sum_of_sizes` — hence in every state reachable from an empty daemon by API-level ops
  `Σ_topics message_bytes = Σ over the run of the sizes enqueued`, i.e. the bytes of every acknowledged message plus
  the enqueued prefixes of failed MPUBs — nothing else ever writes the counter.
Per topic the step-level statement is `C13.topic_bytes`; the real counter is compared with the model at every `tdump`
line (`mb=`) and in the `statsq json` rows (`b=`).
-/
import Nsq.Proofs.TopicBytes
namespace Nsq.Props.C13Bytes
open Nsq.Model.ChanNsqd Nsq.Proofs.ChanNsqd Nsq.Proofs.TopicBytes

theorem step_message_bytes {s : State} (hi : NInv s) (op : Nsq.Model.ChanNsqd.Op) :
    bytesL (Nsq.Model.ChanNsqd.step s op).1.topics = bytesL s.topics + added op :=
  step_bytes hi.tnodup op

/-- Σ message_bytes = Σ sizes enqueued along the run -/
theorem message_bytes_is_sum_of_sizes (conf : NConf) (ops : List Nsq.Model.ChanNsqd.Op)
    (hapi : ∀ op ∈ ops, Op.api op = true) :
    bytesL (Nsq.Model.ChanNsqd.run { conf := conf } ops).topics = (ops.map added).sum := by
  suffices h : ∀ s, NInv s → (∀ op ∈ ops, Op.api op = true) →
      bytesL (Nsq.Model.ChanNsqd.run s ops).topics = bytesL s.topics + (ops.map added).sum by
    have := h { conf := conf } (ninv_init conf) hapi
    simpa [bytesL] using this
  intro s hi ha
  induction ops generalizing s with
  | nil => simp [Nsq.Model.ChanNsqd.run]
  | cons op ops ih =>
    simp only [Nsq.Model.ChanNsqd.run, List.map_cons, List.sum_cons]
    rw [ih (fun o ho => hapi o (List.mem_cons_of_mem _ ho)) _ (nstep_inv hi op (ha op List.mem_cons_self))
      (fun o ho => ha o (List.mem_cons_of_mem _ ho)), step_message_bytes hi op]
    omega

/-! non-vacuity: PUB 10, MPUB [3,4], a failed MPUB [5,6,7] whose third write fails, DPUB 2, fan-out and delivery in between -/
def exOps : List Nsq.Model.ChanNsqd.Op :=
  [.createChan 1 1 false, .sub 9 1 1 false 60 0, .pub 1 10, .mpub 1 [3, 4], .pumpTopic 1 1 false [], .rdy 9 (some 1),
   .deliver 9 1 100, .mpubFail 1 [5, 6, 7] 2, .dpub 2 2 50, .fin 9 1]
example : (exOps.map added).sum = 10 + 7 + 11 + 2 := by decide
example : bytesL (Nsq.Model.ChanNsqd.run {} exOps).topics = 30 :=
  (message_bytes_is_sum_of_sizes {} exOps (by decide)).trans (by decide)
example : ((Nsq.Model.ChanNsqd.run {} exOps).topics.map (fun t => (t.tid, t.msgBytes))) = [(1, 28), (2, 2)] := by decide

end Nsq.Props.C13Bytes
