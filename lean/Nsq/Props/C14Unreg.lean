import Nsq.Props.C14
/-!
# C14 — UNREGISTER without a channel: several critical sections in the COMMITTED tree (claim audit 11)

`UNREGISTER topic` (no channel) is, also after F12, `FindRegistrations("channel", topic, "*")`, one `RemoveProducer` per
channel key found, then `RemoveProducerAndPrune(topic key)` — each takes the lock by itself (`Tie.Registry.unregister_shape`
pins exactly this call list). The history model treats it as one step (`unregisterDB`). Here:

* `unregisterTopic_sections_compose`: running alone, the section list computes `unregisterDB db p ⟨t, ""⟩`;
* `readers_blind_to_channel_remove`: a `RemoveProducer` on a CHANNEL key changes nothing `GET /lookup` or `GET /nodes` read
  from the registry (`lookupDB`, `nodesDB`: they read key sets, the producers of topic keys and of the `client` key);
* `unregisterTopic_reader_linearizable`: hence for EVERY schedule of the (one-section, F37) reader with these sections, what
  the reader has read is `rd db` or `rd (unregisterDB db p ⟨t, ""⟩)` — the intermediate states are not observable through
  `/lookup` and `/nodes` (they are through `/debug`, which lists the producers of channel keys), and the registry ends in
  `unregisterDB db p ⟨t, ""⟩`.

Writers overlapping with this handler are NOT covered (the general statement needs commutation of the other handler with
each `RemoveProducer`; no counter-example is known): `C14Sched` does not list this handler.
-/
namespace Nsq.Props.C14Unreg
open Nsq.Model.Registry Nsq.Model.Registry.AMap Nsq.Proofs.RegistryMap Nsq.Proofs.RegistryDB Nsq.Proofs.RegistrySched

/-- the critical sections of `UNREGISTER t` when section 1 (`FindRegistrations`) returned the channel keys `ks` -/
def unregisterTopicSecs (p : Nat) (t : Name) (ks : List Key) : List Section :=
  (fun db => db) :: (ks.map (fun k db => removeProducer db k p) ++
    [fun db => removeAndGC db (topicKey t) p (isEphemeral t)])

theorem runSecs_removes (p : Nat) (ks : List Key) (db : DB) :
    runSecs db (ks.map (fun k db => removeProducer db k p)) = removeProducerAll db ks p := by
  induction ks generalizing db with
  | nil => rfl
  | cons k ks ih => simp only [List.map_cons, runSecs, List.foldl_cons, removeProducerAll] at ih ⊢; exact ih _

theorem unregisterTopic_sections_compose (db : DB) (p : Nat) (t : Name) :
    runSecs db (unregisterTopicSecs p t (findRegistrations db .channel t star)) = unregisterDB db p ⟨t, []⟩ := by
  simp only [unregisterTopicSecs]
  rw [show ∀ (f : Section) l, runSecs db (f :: l) = runSecs (f db) l from fun _ _ => rfl, runSecs_append, runSecs_removes]
  simp [runSecs, unregisterDB]

/-! ## what the readers read does not depend on the producers of channel keys -/

theorem mkeys_removeProducer (db : DB) (k : Key) (p : Nat) : mkeys (removeProducer db k p) = mkeys db := by
  unfold removeProducer
  cases h : mget db k with
  | none => rfl
  | some pm =>
    have : k ∈ mkeys db := (mem_mkeys_iff db k).mpr (by simp [h])
    simp [mkeys_mset, this]

theorem mget_removeProducer_ne (db : DB) (k k' : Key) (p : Nat) (h : k ≠ k') :
    mget (removeProducer db k p) k' = mget db k' := by
  unfold removeProducer
  cases hg : mget db k with
  | none => rfl
  | some pm => simp [mget_mset, h]

theorem findRegistrations_removeProducer (db : DB) (k : Key) (p : Nat) (cat : Cat) (key sub : Name) :
    findRegistrations (removeProducer db k p) cat key sub = findRegistrations db cat key sub := by
  unfold findRegistrations
  rw [mkeys_removeProducer]
  by_cases hk : k = ⟨cat, key, sub⟩
  · have hh := has_removeProducer db k ⟨cat, key, sub⟩ p
    simp only [Nsq.Spec.RegistrySpec.has] at hh
    cases h1 : mget (removeProducer db k p) ⟨cat, key, sub⟩ <;> cases h2 : mget db ⟨cat, key, sub⟩ <;>
      simp_all
  · rw [mget_removeProducer_ne db k _ p hk]

/-- the topic list of a node ignores what is stored under a key that is not a topic key -/
theorem topicsOf_mset (db : DB) (k : Key) (v : PMap) (id : Nat) (hk : isMatch k .topic star [] = false)
    (hin : k ∈ mkeys db) : topicsOf (mset db k v) id = topicsOf db id := by
  unfold topicsOf lookupRegistrations
  induction db with
  | nil => simp [mkeys] at hin
  | cons e m ih =>
    unfold mset
    by_cases he : e.1 = k
    · simp only [he, if_true, List.filter_cons]
      have hk' : isMatch e.1 .topic star [] = false := by rw [he]; exact hk
      by_cases h1 : (mget v id).isSome = true <;> by_cases h2 : (mget e.2 id).isSome = true <;>
        simp [h1, h2, hk, hk']
    · have hin' : k ∈ mkeys m := by
        simp only [mkeys, List.map_cons, List.mem_cons] at hin
        rcases hin with h | h
        · exact absurd h.symm he
        · exact h
      have := ih hin'
      simp only [he, if_false, List.filter_cons]
      by_cases h2 : (mget e.2 id).isSome = true
      · simp only [h2, if_true, List.map_cons, List.filter_cons]
        by_cases h3 : isMatch e.1 .topic star [] = true
        · simp only [h3, if_true, List.map_cons]; rw [this]
        · simp only [h3]; exact this
      · simp only [h2]; exact this

theorem topicsOf_removeProducer (db : DB) (k : Key) (p id : Nat) (hk : k.cat = .channel) :
    topicsOf (removeProducer db k p) id = topicsOf db id := by
  unfold removeProducer
  cases h : mget db k with
  | none => rfl
  | some pm =>
    have hin : k ∈ mkeys db := (mem_mkeys_iff db k).mpr (by simp [h])
    exact topicsOf_mset db k _ id (by simp [isMatch, hk]) hin

theorem producersOf_removeProducer (db : DB) (k k' : Key) (p : Nat) (h : k ≠ k') :
    producersOf (removeProducer db k p) k' = producersOf db k' := by
  unfold producersOf; rw [mget_removeProducer_ne db k k' p h]

/-- ONE `RemoveProducer` on a channel key is invisible to `GET /lookup` (any topic) and `GET /nodes` -/
theorem readers_blind_to_channel_remove (db : DB) (k : Key) (p : Nat) (hk : k.cat = .channel) :
    (∀ t, lookupDB (removeProducer db k p) t = lookupDB db t) ∧ nodesDB (removeProducer db k p) = nodesDB db := by
  have hkt : ∀ t, k ≠ topicKey t := by intro t e; rw [e] at hk; simp [topicKey] at hk
  have hkc : k ≠ clientKey := by intro e; rw [e] at hk; simp [clientKey] at hk
  constructor
  · intro t
    simp only [lookupDB, findRegistrations_removeProducer, producersOf_removeProducer db k _ p (hkt t)]
  · simp only [nodesDB, nodeDB, producersOf_removeProducer db k _ p hkc]
    congr 1
    apply List.map_congr_left
    intro e _
    simp only [topicsOf_removeProducer db k p e.1 hk]
    congr 1
    apply List.map_congr_left
    intro t _
    rw [producersOf_removeProducer db k _ p (hkt t)]

/-- … so is every prefix of the removals -/
theorem readers_blind_to_removes (p : Nat) (ks : List Key) (hks : ∀ k ∈ ks, k.cat = .channel) : ∀ (db : DB) (j : Nat),
    (∀ t, lookupDB (runSecs db ((ks.map (fun k db => removeProducer db k p)).take j)) t = lookupDB db t) ∧
    nodesDB (runSecs db ((ks.map (fun k db => removeProducer db k p)).take j)) = nodesDB db := by
  induction ks with
  | nil => intro db j; simp [runSecs]
  | cons k ks ih =>
    intro db j
    cases j with
    | zero => simp [runSecs]
    | succ j =>
      have h1 := readers_blind_to_channel_remove db k p (hks k List.mem_cons_self)
      have h2 := ih (fun k' hk' => hks k' (List.mem_cons_of_mem _ hk')) (removeProducer db k p) j
      simp only [List.map_cons, List.take_succ_cons, runSecs, List.foldl_cons] at h2 ⊢
      exact ⟨fun t => by rw [h2.1 t, h1.1 t], by rw [h2.2, h1.2]⟩

/-- A reader `rd` that is blind to channel removals, running as ONE critical section against the sections of `UNREGISTER t`:
it has read `rd db` or `rd (final)`; the registry ends in the sequential result. -/
theorem unregisterTopic_reader_linearizable {α : Type} (rd : DB → α) (db : DB) (p : Nat) (t : Name) (o : α)
    (hblind : ∀ (d : DB) (j : Nat), rd (runSecs d (((findRegistrations db .channel t star).map
      (fun k db => removeProducer db k p)).take j)) = rd d) :
    ∀ s ∈ interleave ((unregisterTopicSecs p t (findRegistrations db .channel t star)).map wsec) [rsec rd],
      runSecsO (db, o) s = (unregisterDB db p ⟨t, []⟩, rd db) ∨
      runSecsO (db, o) s = (unregisterDB db p ⟨t, []⟩, rd (unregisterDB db p ⟨t, []⟩)) := by
  intro s hs
  obtain ⟨j, hj, e⟩ := atomic_reader_sees_prefix _ rd db o s hs
  rw [unregisterTopic_sections_compose] at e
  rw [e]
  generalize hks : findRegistrations db Cat.channel t star = ks at *
  simp only [unregisterTopicSecs, List.length_cons, List.length_append, List.length_map, List.length_nil] at hj
  cases j with
  | zero => left; simp [runSecs]
  | succ j =>
    by_cases hlast : j = ks.length + 1
    · right
      have : (unregisterTopicSecs p t ks).take (j + 1) = unregisterTopicSecs p t ks := by
        apply List.take_of_length_le; simp [unregisterTopicSecs, hlast]
      rw [this, ← hks, unregisterTopic_sections_compose]
    · left
      have hjl : j ≤ ks.length := by omega
      have : (unregisterTopicSecs p t ks).take (j + 1) =
          (fun db => db) :: (ks.map (fun k db => removeProducer db k p)).take j := by
        simp only [unregisterTopicSecs, List.take_succ_cons]
        rw [List.take_append_of_le_length (by simpa using hjl)]
      rw [this]
      have := hblind db j
      simp only [runSecs, List.foldl_cons] at this ⊢
      rw [this]

theorem channel_keys_found (db : DB) (t : Name) : ∀ k ∈ findRegistrations db .channel t star, k.cat = .channel := by
  intro k hk
  have := (mem_findRegistrations db .channel t star k).mp hk
  have hm := this.2
  simp only [isMatch, Bool.and_eq_true, decide_eq_true_eq] at hm
  exact hm.1.1.symm

/-- `GET /lookup?topic=t'` (one critical section, F37) ‖ `UNREGISTER t` (several): linearizable on the registry part -/
theorem unregisterTopic_lookup_linearizable (db : DB) (p : Nat) (t t' : Name) :
    ∀ s ∈ interleave ((unregisterTopicSecs p t (findRegistrations db .channel t star)).map wsec)
        (lookupSecs true t'),
      runSecsO (db, LookupObs.init) s = (unregisterDB db p ⟨t, []⟩, lookupDB db t') ∨
      runSecsO (db, LookupObs.init) s = (unregisterDB db p ⟨t, []⟩, lookupDB (unregisterDB db p ⟨t, []⟩) t') := by
  intro s hs
  exact unregisterTopic_reader_linearizable (fun d => lookupDB d t') db p t LookupObs.init
    (fun d j => (readers_blind_to_removes p _ (channel_keys_found db t) d j).1 t') s (by simpa [lookupSecs] using hs)

/-- `GET /nodes` ‖ `UNREGISTER t`: likewise -/
theorem unregisterTopic_nodes_linearizable (db : DB) (p : Nat) (t : Name) (ids : List Nat) :
    ∀ s ∈ interleave ((unregisterTopicSecs p t (findRegistrations db .channel t star)).map wsec)
        (nodesSecs true ids),
      runSecsO (db, NodesObs.init) s = (unregisterDB db p ⟨t, []⟩, nodesDB db) ∨
      runSecsO (db, NodesObs.init) s = (unregisterDB db p ⟨t, []⟩, nodesDB (unregisterDB db p ⟨t, []⟩)) := by
  intro s hs
  exact unregisterTopic_reader_linearizable nodesDB db p t NodesObs.init
    (fun d j => (readers_blind_to_removes p _ (channel_keys_found db t) d j).2) s (by simpa [nodesSecs] using hs)

/-! ## non-vacuity -/

def tT : Name := [116]
def db0 : DB := [(clientKey, [(1, fresh)]), (chanKey tT [99], [(1, fresh), (2, fresh)]), (chanKey tT [100], [(1, fresh)]),
  (topicKey tT, [(1, fresh), (2, fresh)])]

/-- four sections (read, two removals, remove-and-prune), five schedules with the reader; the two answers differ; an
intermediate state differs from both ends (it is visible to `/debug`, not to `/lookup` / `/nodes`) -/
example : (unregisterTopicSecs 1 tT (findRegistrations db0 .channel tT star)).length = 4 ∧
    (interleave ((unregisterTopicSecs 1 tT (findRegistrations db0 .channel tT star)).map (wsec (α := LookupObs)))
      (lookupSecs true tT)).length = 5 := by decide
example : lookupDB db0 tT ≠ lookupDB (unregisterDB db0 1 ⟨tT, []⟩) tT ∧ nodesDB db0 ≠ nodesDB (unregisterDB db0 1 ⟨tT, []⟩) := by
  decide
example : runSecs db0 ((unregisterTopicSecs 1 tT (findRegistrations db0 .channel tT star)).take 2) ≠ db0 ∧
    runSecs db0 ((unregisterTopicSecs 1 tT (findRegistrations db0 .channel tT star)).take 2) ≠ unregisterDB db0 1 ⟨tT, []⟩ := by
  decide

end Nsq.Props.C14Unreg
