import Nsq.Proofs.RegistryStar
import Nsq.Tie.Registry
/-!
# C14, wild-card part — nondeterministic operations as a SET of allowed results

`Nsq.Props.C14` carries the hypothesis `Op.modelled` (no `POST /topic/tombstone?topic=*`) and
`t ≠ "*"` on the `/channels` and `/lookup` answers, because `FindProducers("topic","*","")`
depends on Go's map iteration order. Here the order is a parameter (`pick`, constrained by
`PickValid` only) and every theorem quantifies over ALL admissible picks:

* `StepSet` / `RunSet` (model) and `Spec.StepSet` / `Spec.RunSet` (plain registry) are relations;
  `refines_set`, `refines_set_exact`: the model's set of results after ANY history — no
  `modelled` hypothesis — is, through `abs`, exactly the plain registry's set;
* `history_answers_all`: after any history, in any allowed state, all answers including
  `/channels?topic=*` and `/lookup?topic=*` are the plain registry's;
* `tombstone_star_one_topic_per_node`, `lookup_star_bounds`: what the sets look like.
-/
namespace Nsq.Props.C14Star
open Nsq.Model.Registry Nsq.Model.Registry.AMap Nsq.Spec.RegistrySpec
open Nsq.Proofs.RegistryRefine Nsq.Proofs.RegistryWF Nsq.Proofs.RegistryQuery Nsq.Proofs.RegistryStar

/-- One step: every result the model allows is one the plain registry allows (and `WF` is kept);
every result the plain registry allows is realised by the model. No operation is excluded. -/
theorem refines_step_set (r : Registry) (op : Op) (hw : WF r) :
    (∀ r', StepSet r op r' → (abs r).StepSet op (abs r') ∧ WF r') ∧
    (∀ s', (abs r).StepSet op s' → ∃ r', StepSet r op r' ∧ abs r' = s') :=
  ⟨fun r' h => StepSet_sound r op r' hw h, fun s' h => StepSet_complete r op s' hw h⟩

/-- Histories of any length over ALL operations: every reachable model state abstracts to a
reachable state of the plain registry and is well-formed … -/
theorem refines_set (ops : List Op) (r : Registry) (h : RunSet init ops r) :
    Spec.init.RunSet ops (abs r) ∧ WF r := by
  have := RunSet_sound init ops r WF_init h
  rw [abs_init] at this
  exact this

/-- … and conversely every state the plain registry can reach is the abstraction of a model state. -/
theorem refines_set_exact (ops : List Op) (s : Spec) (h : Spec.init.RunSet ops s) :
    ∃ r, RunSet init ops r ∧ abs r = s := by
  apply RunSet_complete ops init s WF_init
  rw [abs_init]; exact h

/-- The deterministic `run` of `Nsq.Props.C14` (list-order iteration) is one element of the set;
for histories without a wild-card tombstone it is the only one. -/
theorem run_is_allowed (ops : List Op) : RunSet init ops (run init ops) := run_mem_RunSet ops init

theorem modelled_deterministic (ops : List Op) (hm : ∀ op ∈ ops, op.starNode = none) (r0 r : Registry)
    (h : RunSet r0 ops r) : r = run r0 ops := by
  induction h with
  | nil r => rfl
  | @cons ra rb rc op ops' hs _ ih =>
    have hn := hm op List.mem_cons_self
    unfold StepSet at hs
    simp only [hn] at hs
    subst hs
    exact ih (fun o ho => hm o (List.mem_cons_of_mem _ ho))

/-- The property without exclusions: after EVERY history (wild-card tombstones included, resolved
in any admissible way) the answers are the plain registry's answers in the corresponding state —
including the two `topic=*` queries, for every admissible resolution `pick` of `/lookup?topic=*`. -/
theorem history_answers_all (c : Conf) (ops : List Op) (r : Registry) (h : RunSet init ops r) (now : Int) :
    ∃ s, Spec.init.RunSet ops s ∧ abs r = s ∧
    (∀ t, t ∈ qTopics r ↔ s.topics t) ∧
    (∀ t ch, t ≠ star → (ch ∈ qChannels r t ↔ s.channels t ch)) ∧
    (∀ ch, ch ∈ qChannels r star ↔ s.channelsStar ch) ∧
    (∀ t, t ≠ star → (qLookup c r t now = none ↔ ¬ s.lookupFound t)) ∧
    (∀ t a p, qLookup c r t now = some a → (p ∈ a.producers.map (·.1) ↔ s.producers c t now p)) ∧
    (∀ pick, qLookupStar c r pick now = none ↔ ¬ s.lookupStarFound) ∧
    (∀ pick a p, qLookupStar c r pick now = some a →
        (a.channels = qChannels r star ∧ (p ∈ a.producers.map (·.1) ↔ s.lookupStarProducers c pick now p))) ∧
    (∀ p, p ∈ (qNodes c r now).map (·.id) ↔ s.nodes c now p) := by
  obtain ⟨hrun, hw⟩ := refines_set ops r h
  refine ⟨abs r, hrun, rfl, mem_qTopics r, fun t ch ht => mem_qChannels r t ch ht, mem_qChannels_star r,
    fun t ht => qLookup_none_iff c r t now ht, ?_, fun pick => qLookupStar_none_iff c r pick now, ?_, ?_⟩
  · intro t a p hq
    have := mem_lookup_producers c r t now a hw hq p
    simp only [List.mem_map]
    constructor
    · intro ⟨e, he, hp⟩
      cases e with
      | mk q i => simp only at hp; subst hp; exact ((this i).mp he).1
    · intro hp
      obtain ⟨pr, hpr, _⟩ := hp.2.2.1
      exact ⟨(p, pr.info), (this pr.info).mpr ⟨hp, pr, hpr, rfl⟩, rfl⟩
  · intro pick a p hq
    have := mem_lookupStar_producers c r pick now a hw hq p
    refine ⟨?_, ?_⟩
    · unfold qLookupStar at hq
      split at hq
      · simp at hq
      · simp only [Option.some.injEq] at hq; rw [← hq]
    · simp only [List.mem_map]
      constructor
      · intro ⟨e, he, hp⟩
        cases e with
        | mk q i => simp only at hp; subst hp; exact ((this i).mp he).1
      · intro hp
        obtain ⟨pr, hpr, _⟩ := hp.2.2.1
        exact ⟨(p, pr.info), (this pr.info).mpr ⟨hp, pr, hpr, rfl⟩, rfl⟩
  · intro p
    simp only [List.mem_map]
    constructor
    · intro ⟨n, hn, hp⟩; subst hp; exact ((mem_qNodes c r now hw n).mp hn).1
    · intro hp
      obtain ⟨pr, hpr, _⟩ := hp.2
      exact ⟨⟨p, pr.info, nodeTopics c r p now⟩,
        (mem_qNodes c r now hw _).mpr ⟨hp, ⟨pr, hpr, rfl⟩, rfl⟩, rfl⟩

/-- What the set of results of `POST /topic/tombstone?topic=*&node=N` looks like: an nsqd at
address `N` that registered at least one topic is tombstoned (at `now`) for EXACTLY ONE of its
topics — one it really registered —, its tombstones for its other topics and everything about
nsqds at other addresses are unchanged, and nothing but tombstones changes. -/
theorem tombstone_star_one_topic_per_node (s : Spec) (pick : Pick) (node : Name) (now : Int)
    (hv : s.PickValid pick) :
    let s' := s.tombstoneStar pick node now
    (∀ q, s.nodeIs q node → (∃ t, s.topicReg q t) →
        s.topicReg q (pick q) ∧ s'.tomb q (pick q) now ∧
        (∀ t τ, t ≠ pick q → (s'.tomb q t τ ↔ s.tomb q t τ))) ∧
    (∀ q t τ, ¬ s.nodeIs q node → (s'.tomb q t τ ↔ s.tomb q t τ)) ∧
    s'.topicReg = s.topicReg ∧ s'.chanReg = s.chanReg ∧ s'.knownTopic = s.knownTopic ∧
    s'.knownChan = s.knownChan ∧ s'.live = s.live ∧ s'.peer = s.peer := by
  intro s'
  refine ⟨?_, ?_, rfl, rfl, rfl, rfl, rfl, rfl⟩
  · intro q hn hex
    have hr := hv q hex
    refine ⟨hr, Or.inl ⟨rfl, hr, hn, rfl⟩, ?_⟩
    intro t τ hne
    show ((t = pick q ∧ _) ∨ (s.tomb q t τ ∧ ¬ (t = pick q ∧ s.nodeIs q node))) ↔ _
    simp [hne]
  · intro q t τ hn
    show ((t = pick q ∧ s.topicReg q t ∧ s.nodeIs q node ∧ τ = now) ∨
          (s.tomb q t τ ∧ ¬ (t = pick q ∧ s.nodeIs q node))) ↔ _
    simp [hn]

/-- What the set of answers of `GET /lookup?topic=*` looks like: whatever the iteration order, an
nsqd that is listed is connected, pinged recently and has a topic for which it is not tombstoned;
and an nsqd that is connected, pinged recently, registered some topic and is tombstoned for NONE
of its topics is listed. (Between the two bounds the answer depends on the order.) -/
theorem lookup_star_bounds (s : Spec) (c : Conf) (pick : Pick) (now : Int) (hv : s.PickValid pick) (p : Nat) :
    (s.lookupStarProducers c pick now p →
        s.live p ∧ s.recent c now p ∧ ∃ t, s.topicReg p t ∧ ¬ s.tombActive c now p t) ∧
    (s.live p → s.recent c now p → (∃ t, s.topicReg p t) → (∀ t, s.topicReg p t → ¬ s.tombActive c now p t) →
        s.lookupStarProducers c pick now p) := by
  constructor
  · intro h
    exact ⟨h.2.1, h.2.2.1, pick p, h.1, h.2.2.2⟩
  · intro hl hr hex hall
    have := hv p hex
    exact ⟨this, hl, hr, hall _ this⟩

/-! ## Option edge values: `--inactive-producer-timeout`, `--tombstone-lifetime` zero or negative

`Conf` is universally quantified in every theorem of C14, so 0 and negative durations are covered; these
corollaries say what the answers then ARE. Times are never in the future of the query (`lastUpdate ≤ now`,
`τ ≤ now`: both are `time.Now()` readings taken before the query's). -/

/-- `--tombstone-lifetime ≤ 0` disables tombstones: no tombstone is ever in force, so `/lookup` lists every
connected, recently-pinged nsqd that registered the topic and every `/nodes` flag is false. -/
theorem tombstone_lifetime_nonpositive_disables (s : Spec) (c : Conf) (now : Int) (hc : c.tombLife ≤ 0)
    (hpast : ∀ p t τ, s.tomb p t τ → τ ≤ now) (p : Nat) (t : Name) :
    ¬ s.tombActive c now p t ∧ (s.producers c t now p ↔ s.topicReg p t ∧ s.live p ∧ s.recent c now p) := by
  have h : ¬ s.tombActive c now p t := by
    intro ⟨τ, hτ, hlt⟩
    have := hpast p t τ hτ
    omega
  exact ⟨h, by simp [Spec.producers, h]⟩

/-- `--inactive-producer-timeout < 0` hides every nsqd from `/lookup` and `/nodes` (PINGs cannot help). -/
theorem inactive_timeout_negative_hides_all (s : Spec) (c : Conf) (now : Int) (hc : c.inactive < 0)
    (hpast : ∀ p pr, s.peer p = some pr → pr.lastUpdate ≤ now) (p : Nat) :
    ¬ s.recent c now p ∧ (∀ t, ¬ s.producers c t now p) ∧ ¬ s.nodes c now p := by
  have h : ¬ s.recent c now p := by
    intro ⟨pr, hp, hle⟩
    have := hpast p pr hp
    omega
  exact ⟨h, fun t hp => h hp.2.2.1, fun hn => h hn.2⟩

/-- `--inactive-producer-timeout = 0`: an nsqd is listed only at the very instant of its last PING / IDENTIFY
(in a real run: never, the query reads the clock later — this boundary is tied by the regenerated strict `>` only). -/
theorem inactive_timeout_zero_only_same_instant (s : Spec) (c : Conf) (now : Int) (hc : c.inactive = 0)
    (hpast : ∀ p pr, s.peer p = some pr → pr.lastUpdate ≤ now) (p : Nat) :
    s.recent c now p ↔ ∃ pr, s.peer p = some pr ∧ pr.lastUpdate = now := by
  unfold Spec.recent
  constructor
  · intro ⟨pr, hp, hle⟩; exact ⟨pr, hp, by have := hpast p pr hp; omega⟩
  · intro ⟨pr, hp, he⟩; exact ⟨pr, hp, by omega⟩

/-- the same on the model's answers: with a non-positive tombstone lifetime every `/nodes` flag is `false` … -/
theorem nodes_flags_false_when_lifetime_nonpositive (c : Conf) (r : Registry) (h : WF r) (now : Int)
    (hc : c.tombLife ≤ 0) (hpast : ∀ p t τ, (abs r).tomb p t τ → τ ≤ now) (p : Nat) :
    ∀ t b, (t, b) ∈ nodeTopics c r p now → b = false := by
  intro t b hm
  have := (mem_nodeTopics c r p now h t b).mp hm
  cases b with
  | false => rfl
  | true => exact absurd (this.2.mp rfl) (tombstone_lifetime_nonpositive_disables (abs r) c now hc hpast p t).1

/-- … and with a negative inactivity timeout `/nodes` is empty and every `/lookup` producer list is empty. -/
theorem answers_empty_when_inactive_negative (c : Conf) (r : Registry) (h : WF r) (now : Int)
    (hc : c.inactive < 0) (hpast : ∀ p pr, (abs r).peer p = some pr → pr.lastUpdate ≤ now) :
    qNodes c r now = [] ∧ ∀ t a, qLookup c r t now = some a → a.producers = [] := by
  constructor
  · cases hl : qNodes c r now with
    | nil => rfl
    | cons n ns =>
      have hm : n ∈ qNodes c r now := by rw [hl]; exact List.mem_cons_self
      exact absurd ((mem_qNodes c r now h n).mp hm).1
        (inactive_timeout_negative_hides_all (abs r) c now hc hpast n.id).2.2
  · intro t a ha
    cases hl : a.producers with
    | nil => rfl
    | cons e es =>
      have hm : (e.1, e.2) ∈ a.producers := by rw [hl]; exact List.mem_cons_self
      exact absurd ((mem_lookup_producers c r t now a h ha e.1 e.2).mp hm).1
        ((inactive_timeout_negative_hides_all (abs r) c now hc hpast e.1).2.1 t)

/-! ## The read-only routes that take no argument -/

def cfE : Conf := ⟨2500, 1500⟩
def r2E : Registry := run init [.identify 1 ⟨[104], [110], [118], 1, 2⟩ 0, .register 1 [[116]]]

/-- `GET /ping`, `/info`, `/debug`, `/topics`, `/nodes` answer 200 whatever the query string (even an unparsable
one) and whatever the registry, and change nothing. (`/ping` = "OK" and `/info` = `{"version": …}`: tie
`ping_info_shape`, compared byte-wise / key-wise by the HTTP sweep.) -/
theorem read_routes_total (c : Conf) (r : Registry) (a : HttpArgs) (now : Int) (path : String)
    (hp : path ∈ ["/ping", "/info", "/debug", "/topics", "/nodes"]) :
    Nsq.Model.RegistryProto.httpStep c r "GET" path a now = (r, 200) := by
  simp only [List.mem_cons, List.not_mem_nil, or_false] at hp
  rcases hp with rfl | rfl | rfl | rfl | rfl <;> rfl

example : Nsq.Model.RegistryProto.httpStep cfE r2E "GET" "/ping" ⟨true, none, none, none⟩ 0 = (r2E, 200) := rfl

/-! ## Non-vacuity: the sets really have more than one element -/

section Examples
def infoA : Info := ⟨[104, 65], [110, 65], [118, 49], 4150, 4151⟩
def nodeA : Name := [104, 65, 58, 52, 49, 53, 49]   -- "hA:4151"
def tT : Name := [116]
def tU : Name := [117]
def cf : Conf := ⟨2500, 1500⟩
/-- one nsqd registered for the topics `t` (with channel `c`) and `u` (with channel `c` too) -/
def r2 : Registry := run init [.identify 1 infoA 0, .register 1 [tT, [99]], .register 1 [tU, [99]]]
theorem wf_r2 : WF r2 := WF_run init _ (by decide) WF_init
def starOp : Op := .tombstone ⟨false, some star, none, some nodeA⟩ 100

example : starOp.modelled = false ∧ starOp.starNode = some (nodeA, 100) := by decide
/-- both picks are admissible, a pick outside the nsqd's topics is not -/
example : pickValidB r2.db (fun _ => tT) = true ∧ pickValidB r2.db (fun _ => tU) = true ∧
    pickValidB r2.db (fun _ => [120]) = false := by decide
/-- the two admissible picks give two DIFFERENT allowed results; the list-order `step` is one of them -/
example : tombstoneStar r2 (fun _ => tT) nodeA 100 ≠ tombstoneStar r2 (fun _ => tU) nodeA 100 := by decide
example : (step r2 starOp).1 = tombstoneStar r2 (fun _ => tT) nodeA 100 := by decide
/-- `/nodes` afterwards: exactly one of the two topics carries the flag -/
example : (qNodes cf (tombstoneStar r2 (fun _ => tU) nodeA 100) 200).map (·.topics) = [[(tT, false), (tU, true)]] := by
  decide
/-- `/lookup?topic=*` after tombstoning for `u` only: listed under the pick `t`, hidden under the pick `u`;
the channel list has `c` twice (once per topic) -/
example : (qLookupStar cf (tombstoneStar r2 (fun _ => tU) nodeA 100) (fun _ => tT) 200).map
    (fun a => (a.channels, a.producers.map (·.1))) = some ([[99], [99]], [1]) := by decide
example : (qLookupStar cf (tombstoneStar r2 (fun _ => tU) nodeA 100) (fun _ => tU) 200).map
    (fun a => a.producers.map (·.1)) = some [] := by decide
example : qLookupStar cf init (fun _ => tT) 0 = none := by decide
/-- option edge values on a concrete history: tombstoned for `u`, lifetime 0 ⇒ still listed and flag false; inactivity −1 ⇒ gone -/
example : ((qLookup ⟨2500, 0⟩ (tombstoneStar r2 (fun _ => tU) nodeA 100) tU 100).map (fun a => a.producers.map (·.1)),
           (qNodes ⟨2500, 0⟩ (tombstoneStar r2 (fun _ => tU) nodeA 100) 100).map (·.topics)) =
    (some [1], [[(tT, false), (tU, false)]]) := by decide
example : ((qLookup ⟨-1, 1500⟩ r2 tT 0).map (fun a => a.producers.map (·.1)), qNodes ⟨-1, 1500⟩ r2 0) = (some [], []) := by
  decide
/-- a history through the relation: IDENTIFY, two REGISTERs, the wild-card tombstone resolved to `u` -/
example : RunSet init [.identify 1 infoA 0, .register 1 [tT, [99]], .register 1 [tU, [99]], starOp]
    (tombstoneStar r2 (fun _ => tU) nodeA 100) :=
  RunSet.cons rfl (RunSet.cons rfl (RunSet.cons rfl (RunSet.cons
    ⟨fun _ => tU, show PickValid r2.db (fun _ => tU) from (pickValidB_iff r2.db _ wf_r2.db).mp (by decide), rfl⟩
    (RunSet.nil _))))
end Examples

end Nsq.Props.C14Star
