import Nsq.Props.C20
import Nsq.Model.RelayRedirect
import Nsq.Proofs.RelayRedirect
import Nsq.Tie.ToolsRelayRedirect
/-!
# C20, audit round 7 item C3 — nsq_to_http and HTTP redirects

`Nsq.Props.C20.http_fin_only_after_accept` speaks about the status *the publisher sees*. On the wire
that status may come from another request than the one that carried the message: the `http.Client`
of the tree before fix F45 follows redirects, and net/http repeats a POST answered 301/302/303 as a
GET **without the body** (a redirected GET loses the query string that holds the message). The
statements here are about the wire (`Nsq.Model.RelayRedirect`): `Delivered … a body` = some request of
the chain that starts at address `a` carried the message bytes, with the publisher's method, and was
answered with an accepted status (2xx for POST, 200 for GET).

* `http_fin_only_after_body_accepted` — client of the fixed tree (`follow = false`,
  `CheckRedirect = ErrUseLastResponse`): full statement, every world, every mode.
* `http_fin_only_after_body_accepted_following_false` — client of the unfixed tree (`follow = true`):
  refuted by the audit's witness "302 → elsewhere → 200";
  `http_fin_only_after_body_accepted_following_partial` — it holds when no endpoint answers with a
  redirect that makes the client drop the message (`NoLossyRedirect`: only 307/308, only for POST).
* `redirect_answer_requeues` — fixed client: a 3xx answer (with or without `Location`) is never a success.
Which client a tree has is regenerated from `main()` (`Nsq.Tie.ToolsRelayRedirect`) and probed on the
real binary on every run (`harness/e8/n2h_redirect_test.go`). F45 is committed (/repo 2a7fc8c): the tie accepts
only the non-following client (`tree_follows : follows = false`) and `http_fin_only_after_body_accepted_this_tree`
is the statement about the checked tree; the `…_following_*` theorems are about the client before F45.
-/
namespace Nsq.Props.C20Redirect
open Nsq.Model.Relay Nsq.Model.Relay.Http Nsq.Model.RelayRedirect Nsq.Proofs.RelayRedirect

/-- the conclusion shared by the three statements: sampling dropped the message, or every request the
handler made was `Delivered`, every configured address was asked in mode *all*, and at least one
address was asked otherwise -/
def FinJustified (follow : Bool) (c : Cfg) (m : Msg) (so : Bool) (w : World) (out : List Out) : Prop :=
  (c.sampling = true ∧ so = true) ∨
  ((∀ a b ok, Out.request a b ok ∈ out → Delivered follow c.post w a m.body) ∧
   (c.mode = .all → ∀ a < c.naddr, Out.request a m.body true ∈ out) ∧
   (c.mode ≠ .all → ∃ a, Out.request a m.body true ∈ out))

/-- **FIN only after a destination received the body (fixed client).** With the client that does not
follow redirects a `Finish` means: sampling dropped the message, or each request that the handler made
carried the body and was itself answered with an accepted status — at every configured address in mode
*all*, at the chosen one otherwise. -/
theorem http_fin_only_after_body_accepted (c : Cfg) (counter : Nat) (m : Msg) (so : Bool) (pick : Nat) (w : World)
    (hfin : Out.fin m.id ∈ (stepVia false c counter m so pick w).2) :
    FinJustified false c m so w (stepVia false c counter m so pick w).2 := by
  unfold stepVia at hfin ⊢
  cases Nsq.Props.C20.http_fin_only_after_accept c counter m so pick _ hfin with
  | inl h => exact Or.inl h
  | inr h =>
    obtain ⟨hacc, hall, hone⟩ := h
    exact Or.inr ⟨fun a b ok hreq => delivered_nofollow c.post w a m.body (hacc a b ok hreq).2, hall, hone⟩

/-- (the audit's world, also `wMoved` below) -/
def wMovedT : World := fun ep _ _ => if ep = 0 then .status 302 (some 1) else .status 200 none

/-- THIS tree (audit B12): the `follow` parameter is the Bool computed from the regenerated `http.Client` literal of
`main()`, which the tie decides to be `false`; a tree that reverts F45 fails `tree_follows` and this theorem with it. -/
theorem http_fin_only_after_body_accepted_this_tree (c : Cfg) (counter : Nat) (m : Msg) (so : Bool) (pick : Nat)
    (w : World)
    (hfin : Out.fin m.id ∈ (stepVia Nsq.Tie.ToolsRelayRedirect.follows c counter m so pick w).2) :
    FinJustified Nsq.Tie.ToolsRelayRedirect.follows c m so w
      (stepVia Nsq.Tie.ToolsRelayRedirect.follows c counter m so pick w).2 := by
  rw [Nsq.Tie.ToolsRelayRedirect.tree_follows] at hfin ⊢
  exact http_fin_only_after_body_accepted c counter m so pick w hfin

/-- non-vacuity: this tree's client on the audit's world — one request, requeue -/
example : (stepVia Nsq.Tie.ToolsRelayRedirect.follows ⟨.roundRobin, 1, true, false⟩ 0 ⟨7, [112]⟩ false 0 wMovedT).2 =
    [Out.request 0 [112] false, Out.req 7] := by
  rw [Nsq.Tie.ToolsRelayRedirect.tree_follows]; decide

/-- the same statement for the client that follows redirects (tree before fix F45) -/
def http_fin_only_after_body_accepted_following : Prop :=
  ∀ (c : Cfg) (counter : Nat) (m : Msg) (so : Bool) (pick : Nat) (w : World),
    Out.fin m.id ∈ (stepVia true c counter m so pick w).2 →
      FinJustified true c m so w (stepVia true c counter m so pick w).2

/-- the witness world of the audit: the configured address answers `302 Location: elsewhere`,
`elsewhere` answers 200 to anything -/
def wMoved : World := fun ep _ _ => if ep = 0 then .status 302 (some 1) else .status 200 none

/-- … is **false**: POST `"p"` → 302 → GET (no body) elsewhere → 200 → `Finish`; nobody received `"p"`. -/
theorem http_fin_only_after_body_accepted_following_false : ¬ http_fin_only_after_body_accepted_following := by
  intro h
  have hstep : (stepVia true ⟨.roundRobin, 1, true, false⟩ 0 ⟨7, [112]⟩ false 0 wMoved).2 =
      [Out.request 0 [112] true, Out.fin 7] := by decide
  have hwire : wireOf true true wMoved 0 [112] =
      [⟨0, true, some [112], some 302⟩, ⟨1, false, none, some 200⟩] := by decide
  have := h ⟨.roundRobin, 1, true, false⟩ 0 ⟨7, [112]⟩ false 0 wMoved (by rw [hstep]; simp)
  rw [hstep] at this
  cases this with
  | inl h => cases h.1
  | inr h =>
    obtain ⟨x, hx, hp, _, hacc⟩ := h.1 0 [112] true (by simp)
    simp only [hwire] at hx
    simp at hx
    rcases hx with rfl | rfl
    · simp [accepts] at hacc
    · simp at hp

/-- … and holds when no endpoint answers with a redirect that makes the client drop the message
(only 307/308, only for the POST publisher; the 10-redirect stop is an error, i.e. a requeue). -/
theorem http_fin_only_after_body_accepted_following_partial (c : Cfg) (counter : Nat) (m : Msg) (so : Bool)
    (pick : Nat) (w : World) (hw : NoLossyRedirect c.post w)
    (hfin : Out.fin m.id ∈ (stepVia true c counter m so pick w).2) :
    FinJustified true c m so w (stepVia true c counter m so pick w).2 := by
  unfold stepVia at hfin ⊢
  cases Nsq.Props.C20.http_fin_only_after_accept c counter m so pick _ hfin with
  | inl h => exact Or.inl h
  | inr h =>
    obtain ⟨hacc, hall, hone⟩ := h
    exact Or.inr ⟨fun a b ok hreq => delivered_following c.post w a m.body hw (hacc a b ok hreq).2, hall, hone⟩

/-- **A redirect answer is a failed delivery (fixed client).** Whatever the `Location` says, whatever the
redirect target would answer: if the address that is asked answers 3xx, the publisher sees that 3xx and
does not accept it. -/
theorem redirect_answer_requeues (post : Bool) (w : World) (body : Bytes) (a code : Nat) (loc : Option Nat)
    (hans : w a post (some body) = .status code loc) (h3 : 300 ≤ code ∧ code < 400) :
    seenBy false post w body a = some code ∧ accepts post (seenBy false post w body a) = false ∧
    wireOf false post w a body = [⟨a, post, some body, some code⟩] := by
  unfold seenBy wireOf
  rw [doReq_nofollow, hans]
  refine ⟨rfl, ?_, rfl⟩
  unfold accepts finalOf
  cases post <;> simp <;> omega

/-- the unfixed client on the same answer: the publisher never sees the 302, it sees the target's 200 -/
example : seenBy true true wMoved [112] 0 = some 200 ∧ seenBy false true wMoved [112] 0 = some 302 := by decide

/-! ### non-vacuity -/

/-- fixed client, the audit's world: one request, requeue -/
example : (stepVia false ⟨.roundRobin, 1, true, false⟩ 0 ⟨7, [112]⟩ false 0 wMoved).2 =
    [Out.request 0 [112] false, Out.req 7] := by decide
/-- fixed client, accepting destination: `http_fin_only_after_body_accepted` applies (hypothesis satisfiable) -/
example : Out.fin 7 ∈ (stepVia false ⟨.all, 2, true, false⟩ 0 ⟨7, [112]⟩ false 0 (fun _ _ _ => .status 204 none)).2 := by decide
/-- following client, 307 keeps method and body: finished, and the body did arrive at endpoint 1 -/
example : (stepVia true ⟨.roundRobin, 1, true, false⟩ 0 ⟨7, [112]⟩ false 0
      (fun ep _ _ => if ep = 0 then .status 307 (some 1) else .status 200 none)).2 = [Out.request 0 [112] true, Out.fin 7]
    ∧ wireOf true true (fun ep _ _ => if ep = 0 then .status 307 (some 1) else .status 200 none) 0 [112] =
      [⟨0, true, some [112], some 307⟩, ⟨1, true, some [112], some 200⟩] := by decide
/-- `NoLossyRedirect` is satisfiable by a world with a (307) redirect, and violated by `wMoved` -/
example : NoLossyRedirect true (fun ep _ _ => if ep = 0 then .status 307 (some 1) else .status 200 none) := by
  intro ep p pl nk h
  by_cases he : ep = 0
  · simp [he, followUp, redirectKind] at h; subst h; exact ⟨rfl, rfl⟩
  · simp [he, followUp] at h
example : ¬ NoLossyRedirect true wMoved := by
  intro h
  have := h 0 true none (1, false) (by decide)
  simp at this
/-- a GET is redirected as a GET to a URL without the message: finished with nothing delivered -/
example : wireOf true false wMoved 0 [112] = [⟨0, false, some [112], some 302⟩, ⟨1, false, none, some 200⟩] := by decide
/-- a redirect loop: ten requests, then an error (requeue) -/
example : (doReq true (fun _ _ _ => .status 302 (some 0)) redirectLimit 0 true (some [112])).1.length = 10
    ∧ (doReq true (fun _ _ _ => .status 302 (some 0)) redirectLimit 0 true (some [112])).2 = none := by decide

end Nsq.Props.C20Redirect
