import Nsq.Props.C20
import Nsq.Model.RelayRedirect
import Nsq.Proofs.RelayRedirect
import Nsq.Tie.ToolsRelayRedirect
/-!
# C20, audit round 7 item C3 / round 11 (fix F45b) — nsq_to_http and HTTP redirects

`Nsq.Props.C20.http_fin_only_after_accept` speaks about the status *the publisher sees*. On the wire
that status may come from another request than the one that carried the message: an `http.Client`
follows redirects, and net/http repeats a POST answered 301/302/303 as a GET **without the body**.
The statements here are about the wire (`Nsq.Model.RelayRedirect`): `Delivered … a body` = some request of
the chain that starts at address `a` carried the message bytes, with the publisher's method, and was
answered with an accepted status (2xx for POST, 200 for GET). The client is a parameter: a `Check` =
what its `CheckRedirect` decides (`checkSameMethod` = fix F45b = /repo 833e42b, the committed and only accepted client;
`checkNever` = fix F45 alone; `checkDefault` = no `CheckRedirect`, the tree before F45).

What the client guarantees (`Nsq.Proofs.RelayRedirect`): `MethodPreserving check` — a follow-up request is sent
only if net/http kept the method of the first request; `Limited` — at most ten requests; `NoError` — the caller
always gets the last answer. All three are proved for `checkNever` and `checkSameMethod`
(`sameMethod_follows_exactly`: it follows EXACTLY the method-preserving redirects below the limit).

* `http_fin_only_after_body_accepted` — **POST publisher, any method-preserving client** (in particular the
  client of the tree, and `checkNever`), every world, every mode: full statement. A POST answered 307/308 is re-sent with the
  body (every request of the chain carries it), a POST answered 301/302/303 is handed back (`method_changing_redirect_requeues`).
* `http_fin_only_after_body_accepted_never` — client of fix F45, POST **and** GET: full statement (no redirect is followed).
* GET publisher with a client that follows (F45b): the message travels in the query string of the URL, the follow-up GET
  goes to whatever URL the destination's `Location` names. `http_fin_only_after_body_accepted_get_partial` — hypothesis
  `KeepsQuery`: every `Location` answered to a GET repeats its query (http→https, trailing slash, another host with the same
  request URI); `http_fin_only_after_body_accepted_get_false` — without it the statement is false for `checkSameMethod`
  (GET `?d=p` → 302 `Location: /elsewhere` → GET without the message → 200 → `Finish`). What holds for the GET publisher
  whatever the `Location`s say is `http_fin_chain_accepted`: the destination got the message in the first request of
  the chain, every request of the chain was a GET and the chain it directed the client through ended in 200.
  NOT claimed for the GET publisher of the F45b tree: that a request which carried the message was itself answered 200.
* `at_most_ten_requests`, `seen_is_last_answer`, `redirect_loop_requeues` — the limit: the answer to the tenth request is
  handed back whatever it is; a 3xx is not accepted.
* `http_fin_only_after_body_accepted_following_false` / `…_following_partial` — the client without `CheckRedirect`
  (tree before F45): refuted by the audit's witness "302 → elsewhere → 200"; holds under `NoLossyRedirect`.
* `redirect_answer_requeues` — client of F45: a 3xx answer (with or without `Location`) is never a success.
Which client a tree has is *translated* from `noRedirect` (`Nsq.Tie.ToolsRelayRedirect.treeCheck`, `n2hClient_shape`:
exactly `checkSameMethod`) and probed on the real binary on every run
(`harness/e8/n2h_redirect_test.go`); `http_fin_only_after_body_accepted_this_tree` is the statement about the checked tree.
-/
namespace Nsq.Props.C20Redirect
open Nsq.Model.Relay Nsq.Model.Relay.Http Nsq.Model.RelayRedirect Nsq.Proofs.RelayRedirect

/-- the conclusion shared by the statements: sampling dropped the message, or every request the
handler made was `Delivered`, every configured address was asked in mode *all*, and at least one
address was asked otherwise -/
def FinJustified (check : Check) (c : Cfg) (m : Msg) (so : Bool) (w : World) (out : List Out) : Prop :=
  (c.sampling = true ∧ so = true) ∨
  ((∀ a b ok, Out.request a b ok ∈ out → Delivered check c.post w a m.body) ∧
   (c.mode = .all → ∀ a < c.naddr, Out.request a m.body true ∈ out) ∧
   (c.mode ≠ .all → ∃ a, Out.request a m.body true ∈ out))

/-- the common core: a client whose chains keep the message (for this publisher, this world, this body) -/
theorem fin_justified_of_chainKeeps (check : Check) (c : Cfg) (counter : Nat) (m : Msg) (so : Bool) (pick : Nat)
    (w : World) (hk : ChainKeeps check w c.post m.body)
    (hfin : Out.fin m.id ∈ (stepVia check c counter m so pick w).2) :
    FinJustified check c m so w (stepVia check c counter m so pick w).2 := by
  unfold stepVia at hfin ⊢
  cases Nsq.Props.C20.http_fin_only_after_accept c counter m so pick _ hfin with
  | inl h => exact Or.inl h
  | inr h =>
    obtain ⟨hacc, hall, hone⟩ := h
    exact Or.inr ⟨fun a b ok hreq => delivered_of_keeps check c.post w a m.body hk (hacc a b ok hreq).2, hall, hone⟩

/-- **FIN only after a destination accepted the body (POST publisher, method-preserving client).** With a client that
follows only redirects which keep the method — the client of fix F45 and the client of fix F45b — a `Finish` means:
sampling dropped the message, or for each request that the handler made some request of its redirect chain carried the
body as a POST and was itself answered 2xx — at every configured address in mode *all*, at the chosen one otherwise.
Every world: any status, any `Location`, chains, loops, transport errors. -/
theorem http_fin_only_after_body_accepted (check : Check) (hmp : MethodPreserving check) (c : Cfg) (hpost : c.post = true)
    (counter : Nat) (m : Msg) (so : Bool) (pick : Nat) (w : World)
    (hfin : Out.fin m.id ∈ (stepVia check c counter m so pick w).2) :
    FinJustified check c m so w (stepVia check c counter m so pick w).2 :=
  fin_justified_of_chainKeeps check c counter m so pick w (by rw [hpost]; exact chainKeeps_post check hmp w m.body) hfin

/-- the client of fix F45b follows EXACTLY the redirects that keep the method, while fewer than ten requests were made -/
theorem sameMethod_follows_exactly (reqPost via0Post : Bool) (nvia : Nat) :
    checkSameMethod reqPost via0Post nvia = .follow ↔ reqPost = via0Post ∧ nvia < 10 :=
  sameMethod_follows_iff reqPost via0Post nvia

/-- … hence it is method-preserving, limited, and never fails `Do` (and so is the client of F45) -/
theorem accepted_clients_guarantee :
    (MethodPreserving checkSameMethod ∧ Limited checkSameMethod ∧ NoError checkSameMethod) ∧
    (MethodPreserving checkNever ∧ Limited checkNever ∧ NoError checkNever) :=
  ⟨⟨methodPreserving_sameMethod, limited_sameMethod, noError_sameMethod⟩,
   ⟨methodPreserving_never, limited_never, noError_never⟩⟩

/-- **client of fix F45 (follows nothing), POST and GET**: full statement -/
theorem http_fin_only_after_body_accepted_never (c : Cfg) (counter : Nat) (m : Msg) (so : Bool) (pick : Nat) (w : World)
    (hfin : Out.fin m.id ∈ (stepVia checkNever c counter m so pick w).2) :
    FinJustified checkNever c m so w (stepVia checkNever c counter m so pick w).2 := by
  refine fin_justified_of_chainKeeps checkNever c counter m so pick w ?_ hfin
  intro ep lk n _ hc
  simp [checkNever] at hc

/-- **GET publisher, any client** — under the hypothesis that the destinations' `Location`s repeat the query of the GET
they answer (`KeepsQuery`) -/
theorem http_fin_only_after_body_accepted_get_partial (check : Check) (c : Cfg) (hget : c.post = false)
    (counter : Nat) (m : Msg) (so : Bool) (pick : Nat) (w : World) (hq : KeepsQuery w)
    (hfin : Out.fin m.id ∈ (stepVia check c counter m so pick w).2) :
    FinJustified check c m so w (stepVia check c counter m so pick w).2 :=
  fin_justified_of_chainKeeps check c counter m so pick w (by rw [hget]; exact chainKeeps_get check w hq m.body) hfin

/-- the statement without `KeepsQuery` for the client of fix F45b -/
def http_fin_only_after_body_accepted_get : Prop :=
  ∀ (c : Cfg) (_ : c.post = false) (counter : Nat) (m : Msg) (so : Bool) (pick : Nat) (w : World),
    Out.fin m.id ∈ (stepVia checkSameMethod c counter m so pick w).2 →
      FinJustified checkSameMethod c m so w (stepVia checkSameMethod c counter m so pick w).2

/-- the configured address answers `302 Location: /elsewhere` (the query is not repeated), `elsewhere` answers 200 -/
def wMoved : World := fun ep _ _ => if ep = 0 then .status 302 (some ⟨1, false⟩) else .status 200 none
/-- the same redirect with the query repeated in the `Location` -/
def wMovedQ : World := fun ep _ _ => if ep = 0 then .status 302 (some ⟨1, true⟩) else .status 200 none

/-- … is **false**: GET `?d=p` → 302 → GET elsewhere without the message → 200 → `Finish`; no request that carried
`"p"` was answered 200. -/
theorem http_fin_only_after_body_accepted_get_false : ¬ http_fin_only_after_body_accepted_get := by
  intro h
  have hstep : (stepVia checkSameMethod ⟨.roundRobin, 1, false, false⟩ 0 ⟨7, [112]⟩ false 0 wMoved).2 =
      [Out.request 0 [112] true, Out.fin 7] := by decide
  have hwire : wireOf checkSameMethod false wMoved 0 [112] =
      [⟨0, false, some [112], some 302⟩, ⟨1, false, none, some 200⟩] := by decide
  have := h ⟨.roundRobin, 1, false, false⟩ rfl 0 ⟨7, [112]⟩ false 0 wMoved (by rw [hstep]; simp)
  rw [hstep] at this
  cases this with
  | inl h => cases h.1
  | inr h =>
    obtain ⟨x, hx, hp, _, hacc⟩ := h.1 0 [112] true (by simp)
    simp only [hwire] at hx
    simp at hx
    rcases hx with rfl | rfl
    · simp [accepts] at hacc
    · simp at hp

/-- what the chain of one request guarantees whatever the `Location`s say: the first request went to the configured
address with the message, every request of the chain had the publisher's method, the answer to the last one was accepted -/
def AcceptedByChain (check : Check) (post : Bool) (w : World) (a : Nat) (body : Bytes) : Prop :=
  (∃ st, (wireOf check post w a body).head? = some ⟨a, post, some body, st⟩) ∧
  (∀ x ∈ wireOf check post w a body, x.post = post) ∧
  accepts post ((wireOf check post w a body).getLast?.bind (·.status)) = true

/-- **Method-preserving client, POST or GET, every world**: a `Finish` means sampling dropped the message, or every
request the handler made was `AcceptedByChain` (at every address in mode *all*, at one otherwise): the destination
received the message, was never asked with another method than the publisher's, and the chain it directed the client
through ended in an accepted status. For the GET publisher this is all that is claimed without `KeepsQuery`. -/
theorem http_fin_chain_accepted (check : Check) (hmp : MethodPreserving check) (c : Cfg) (counter : Nat) (m : Msg)
    (so : Bool) (pick : Nat) (w : World)
    (hfin : Out.fin m.id ∈ (stepVia check c counter m so pick w).2) :
    (c.sampling = true ∧ so = true) ∨
    ((∀ a b ok, Out.request a b ok ∈ (stepVia check c counter m so pick w).2 → AcceptedByChain check c.post w a m.body) ∧
     (c.mode = .all → ∀ a < c.naddr, Out.request a m.body true ∈ (stepVia check c counter m so pick w).2) ∧
     (c.mode ≠ .all → ∃ a, Out.request a m.body true ∈ (stepVia check c counter m so pick w).2)) := by
  unfold stepVia at hfin ⊢
  cases Nsq.Props.C20.http_fin_only_after_accept c counter m so pick _ hfin with
  | inl h => exact Or.inl h
  | inr h =>
    obtain ⟨hacc, hall, hone⟩ := h
    refine Or.inr ⟨fun a b ok hreq => ?_, hall, hone⟩
    have ha := (hacc a b ok hreq).2
    unfold seenBy at ha
    obtain ⟨h1, h2⟩ := doReq_chain check hmp c.post w redirectFuel 0 a (some m.body)
    refine ⟨⟨_, doReq_head check w c.post 9 0 a c.post (some m.body)⟩, h1, ?_⟩
    cases hs : (doReq check w c.post redirectFuel 0 a c.post (some m.body)).2 with
    | none => rw [hs] at ha; simp [accepts] at ha
    | some s =>
      unfold wireOf
      rw [h2 s hs, ← hs]; exact ha

/-- the `Check` of THIS tree (translated from its `noRedirect`) is method-preserving, limited, and never an error -/
theorem tree_check_guarantees : MethodPreserving Nsq.Tie.ToolsRelayRedirect.treeCheck ∧
    Limited Nsq.Tie.ToolsRelayRedirect.treeCheck ∧ NoError Nsq.Tie.ToolsRelayRedirect.treeCheck := by
  rw [Nsq.Tie.ToolsRelayRedirect.n2hClient_shape]
  exact ⟨methodPreserving_sameMethod, limited_sameMethod, noError_sameMethod⟩

/-- the client of F45 alone and the accepted one (F45b) differ -/
theorem never_ne_sameMethod : checkNever ≠ checkSameMethod := by
  intro h
  have := congrFun (congrFun (congrFun h true) true) 1
  simp [checkNever, checkSameMethod] at this

/-- **THIS tree** (audit B12): the client is the `Check` translated from the tree's `noRedirect`, which the tie decides
to be `checkSameMethod` (F45b = /repo 833e42b, committed; nothing else is accepted). POST publisher: no hypothesis.
GET publisher: `KeepsQuery` (every `Location` answered to a GET repeats its query) — forced:
`http_fin_only_after_body_accepted_get_false`. A tree that reverts F45b or F45, or whose `noRedirect` decides anything
else, fails `n2hClient_shape` and this theorem with it. -/
theorem http_fin_only_after_body_accepted_this_tree (c : Cfg) (counter : Nat) (m : Msg) (so : Bool) (pick : Nat)
    (w : World)
    (hget : c.post = false → KeepsQuery w)
    (hfin : Out.fin m.id ∈ (stepVia Nsq.Tie.ToolsRelayRedirect.treeCheck c counter m so pick w).2) :
    FinJustified Nsq.Tie.ToolsRelayRedirect.treeCheck c m so w
      (stepVia Nsq.Tie.ToolsRelayRedirect.treeCheck c counter m so pick w).2 := by
  cases hp : c.post with
  | true => exact http_fin_only_after_body_accepted _ tree_check_guarantees.1 c hp counter m so pick w hfin
  | false => exact http_fin_only_after_body_accepted_get_partial _ c hp counter m so pick w (hget hp) hfin

/-- … and whatever the `Location`s say (GET publisher included) -/
theorem http_fin_chain_accepted_this_tree (c : Cfg) (counter : Nat) (m : Msg) (so : Bool) (pick : Nat) (w : World)
    (hfin : Out.fin m.id ∈ (stepVia Nsq.Tie.ToolsRelayRedirect.treeCheck c counter m so pick w).2) :
    (c.sampling = true ∧ so = true) ∨
    ((∀ a b ok, Out.request a b ok ∈ (stepVia Nsq.Tie.ToolsRelayRedirect.treeCheck c counter m so pick w).2 →
        AcceptedByChain Nsq.Tie.ToolsRelayRedirect.treeCheck c.post w a m.body) ∧
     (c.mode = .all → ∀ a < c.naddr, Out.request a m.body true ∈ (stepVia Nsq.Tie.ToolsRelayRedirect.treeCheck c counter m so pick w).2) ∧
     (c.mode ≠ .all → ∃ a, Out.request a m.body true ∈ (stepVia Nsq.Tie.ToolsRelayRedirect.treeCheck c counter m so pick w).2)) :=
  http_fin_chain_accepted _ tree_check_guarantees.1 c counter m so pick w hfin

/-- non-vacuity: this tree's client on the audit's world (POST → 302): one request, requeue -/
example : (stepVia Nsq.Tie.ToolsRelayRedirect.treeCheck ⟨.roundRobin, 1, true, false⟩ 0 ⟨7, [112]⟩ false 0 wMoved).2 =
    [Out.request 0 [112] false, Out.req 7] := by
  rw [Nsq.Tie.ToolsRelayRedirect.n2hClient_shape]; decide

/-! ### the ten-request limit -/

/-- a `Limited` client (the client of the tree, the one of F45, and net/http's default) makes at most ten requests per `Publish`;
the `fuel` of the model is never what ends a chain -/
theorem at_most_ten_requests (check : Check) (hl : Limited check) (post : Bool) (w : World) (a : Nat) (body : Bytes) :
    (wireOf check post w a body).length ≤ 10 ∧
    ∀ fuel, 10 ≤ fuel → doReq check w post fuel 0 a post (some body) = doReq check w post redirectFuel 0 a post (some body) :=
  ⟨doReq_length check hl w post redirectFuel 0 a post (some body) (by omega),
   fun fuel hf => doReq_fuel_irrelevant check hl w post fuel 0 a post (some body) (by omega) (by omega)⟩

/-- a client that is `Limited` and `NoError` (the client of the tree, and the one of F45) hands the publisher the answer to the last request it
made — after ten requests the tenth answer, whatever it is -/
theorem seen_is_last_answer (check : Check) (hl : Limited check) (he : NoError check) (post : Bool) (w : World) (a : Nat)
    (body : Bytes) :
    seenBy check post w body a = (wireOf check post w a body).getLast?.bind (·.status) :=
  doReq_seen_is_last check hl he w post redirectFuel 0 a post (some body) (by omega) (by decide)

/-- **A POST answered 301/302/303 is a failed delivery (client of fix F45b)**: net/http would repeat it as a GET without
the body; the client hands the 3xx back, the publisher does not accept it, exactly one request is made. -/
theorem method_changing_redirect_requeues (w : World) (body : Bytes) (a code : Nat) (loc : Option Loc)
    (hans : w a true (some body) = .status code loc) (h3 : code = 301 ∨ code = 302 ∨ code = 303) :
    seenBy checkSameMethod true w body a = some code ∧ accepts true (seenBy checkSameMethod true w body a) = false ∧
    wireOf checkSameMethod true w a body = [⟨a, true, some body, some code⟩] := by
  have hd : doReq checkSameMethod w true redirectFuel 0 a true (some body) =
      ([⟨a, true, some body, some code⟩], some code) := by
    unfold redirectFuel doReq
    rw [hans]
    cases loc with
    | none => simp [followUp, finalOf]
    | some l =>
      have hk : redirectKind code = some false := by
        rcases h3 with h | h | h <;> subst h <;> decide
      simp [followUp, hk, checkSameMethod, finalOf]
  unfold seenBy wireOf
  rw [hd]
  refine ⟨rfl, ?_, rfl⟩
  rcases h3 with h | h | h <;> subst h <;> simp [accepts]

/-- a redirect loop that keeps the method (307 to itself): ten requests, each with the body; the publisher sees the
tenth 307 and requeues (net/http's default client reports an error instead — a requeue as well) -/
theorem redirect_loop_requeues :
    (wireOf checkSameMethod true (fun _ _ _ => .status 307 (some ⟨0, false⟩)) 0 [112]).length = 10 ∧
    (∀ x ∈ wireOf checkSameMethod true (fun _ _ _ => .status 307 (some ⟨0, false⟩)) 0 [112], x.payload = some [112]) ∧
    seenBy checkSameMethod true (fun _ _ _ => .status 307 (some ⟨0, false⟩)) [112] 0 = some 307 ∧
    accepts true (seenBy checkSameMethod true (fun _ _ _ => .status 307 (some ⟨0, false⟩)) [112] 0) = false ∧
    seenBy checkDefault true (fun _ _ _ => .status 307 (some ⟨0, false⟩)) [112] 0 = none := by decide

/-- an eleven-step chain (endpoint `k` redirects to `k+1`, endpoint 10 would accept): the client of F45b asks
endpoints 0 … 9 and requeues, endpoint 10 is never asked; a ten-step chain (endpoint 9 accepts) is finished after
endpoint 9 accepted the body -/
example : ((wireOf checkSameMethod true (fun ep _ _ => if ep < 10 then .status 308 (some ⟨ep + 1, false⟩) else .status 200 none) 0 [112]).map (·.ep)
      = [0, 1, 2, 3, 4, 5, 6, 7, 8, 9]) ∧
    seenBy checkSameMethod true (fun ep _ _ => if ep < 10 then .status 308 (some ⟨ep + 1, false⟩) else .status 200 none) [112] 0 = some 308 ∧
    seenBy checkSameMethod true (fun ep _ _ => if ep < 9 then .status 308 (some ⟨ep + 1, false⟩) else .status 200 none) [112] 0 = some 200 := by
  decide

/-! ### the client without `CheckRedirect` (tree before fix F45) -/

/-- the same statement for the client that follows every redirect (net/http's default) -/
def http_fin_only_after_body_accepted_following : Prop :=
  ∀ (c : Cfg) (counter : Nat) (m : Msg) (so : Bool) (pick : Nat) (w : World),
    Out.fin m.id ∈ (stepVia checkDefault c counter m so pick w).2 →
      FinJustified checkDefault c m so w (stepVia checkDefault c counter m so pick w).2

/-- … is **false**: POST `"p"` → 302 → GET (no body) elsewhere → 200 → `Finish`; nobody accepted `"p"`. -/
theorem http_fin_only_after_body_accepted_following_false : ¬ http_fin_only_after_body_accepted_following := by
  intro h
  have hstep : (stepVia checkDefault ⟨.roundRobin, 1, true, false⟩ 0 ⟨7, [112]⟩ false 0 wMoved).2 =
      [Out.request 0 [112] true, Out.fin 7] := by decide
  have hwire : wireOf checkDefault true wMoved 0 [112] =
      [⟨0, true, some [112], some 302⟩, ⟨1, false, none, some 200⟩] := by decide
  have := h ⟨.roundRobin, 1, true, false⟩ 0 ⟨7, [112]⟩ false 0 wMoved (by rw [hstep]; simp)
  rw [hstep] at this
  cases this with
  | inl h => cases h.1
  | inr h =>
    obtain ⟨x, hx, hp, _, hacc⟩ := h.1 0 [112] true (by simp)
    simp only [hwire] at hx
    simp at hx
    rcases hx with rfl | rfl
    · simp [accepts] at hacc
    · simp at hp

/-- … and holds when no endpoint answers with a redirect that makes that client drop the message
(only 307/308, only for the POST publisher; the 10-redirect stop is an error, i.e. a requeue). With fix F45b this
hypothesis on the destinations is, for the POST publisher, what the client itself guarantees
(`http_fin_only_after_body_accepted`). -/
theorem http_fin_only_after_body_accepted_following_partial (c : Cfg) (counter : Nat) (m : Msg) (so : Bool)
    (pick : Nat) (w : World) (hw : NoLossyRedirect c.post w)
    (hfin : Out.fin m.id ∈ (stepVia checkDefault c counter m so pick w).2) :
    FinJustified checkDefault c m so w (stepVia checkDefault c counter m so pick w).2 :=
  fin_justified_of_chainKeeps checkDefault c counter m so pick w (chainKeeps_noLossy checkDefault c.post w hw m.body) hfin

/-- **A redirect answer is a failed delivery (client of fix F45).** Whatever the `Location` says, whatever the
redirect target would answer: if the address that is asked answers 3xx, the publisher sees that 3xx and
does not accept it. -/
theorem redirect_answer_requeues (post : Bool) (w : World) (body : Bytes) (a code : Nat) (loc : Option Loc)
    (hans : w a post (some body) = .status code loc) (h3 : 300 ≤ code ∧ code < 400) :
    seenBy checkNever post w body a = some code ∧ accepts post (seenBy checkNever post w body a) = false ∧
    wireOf checkNever post w a body = [⟨a, post, some body, some code⟩] := by
  unfold seenBy wireOf redirectFuel
  rw [doReq_never, hans]
  refine ⟨rfl, ?_, rfl⟩
  unfold accepts finalOf
  cases post <;> simp <;> omega

/-! ### non-vacuity -/

/-- the three clients on the audit's answer (POST → 302): only the default client shows the publisher the target's 200 -/
example : seenBy checkDefault true wMoved [112] 0 = some 200 ∧ seenBy checkNever true wMoved [112] 0 = some 302 ∧
    seenBy checkSameMethod true wMoved [112] 0 = some 302 := by decide
/-- F45 / F45b client, the audit's world: one request, requeue -/
example : (stepVia checkNever ⟨.roundRobin, 1, true, false⟩ 0 ⟨7, [112]⟩ false 0 wMoved).2 =
    [Out.request 0 [112] false, Out.req 7] ∧
    (stepVia checkSameMethod ⟨.roundRobin, 1, true, false⟩ 0 ⟨7, [112]⟩ false 0 wMoved).2 =
    [Out.request 0 [112] false, Out.req 7] := by decide
/-- accepting destination: `http_fin_only_after_body_accepted` applies (hypotheses satisfiable) -/
example : Out.fin 7 ∈ (stepVia checkSameMethod ⟨.all, 2, true, false⟩ 0 ⟨7, [112]⟩ false 0 (fun _ _ _ => .status 204 none)).2 := by decide
example : Out.fin 7 ∈ (stepVia checkNever ⟨.all, 2, true, false⟩ 0 ⟨7, [112]⟩ false 0 (fun _ _ _ => .status 204 none)).2 := by decide
/-- F45b client, 307 keeps method and body: finished, and the body did arrive at endpoint 1 (F45 client: requeue) -/
example : (stepVia checkSameMethod ⟨.roundRobin, 1, true, false⟩ 0 ⟨7, [112]⟩ false 0
      (fun ep _ _ => if ep = 0 then .status 307 (some ⟨1, false⟩) else .status 200 none)).2 = [Out.request 0 [112] true, Out.fin 7]
    ∧ wireOf checkSameMethod true (fun ep _ _ => if ep = 0 then .status 307 (some ⟨1, false⟩) else .status 200 none) 0 [112] =
      [⟨0, true, some [112], some 307⟩, ⟨1, true, some [112], some 200⟩]
    ∧ (stepVia checkNever ⟨.roundRobin, 1, true, false⟩ 0 ⟨7, [112]⟩ false 0
      (fun ep _ _ => if ep = 0 then .status 307 (some ⟨1, false⟩) else .status 200 none)).2 = [Out.request 0 [112] false, Out.req 7] := by
  decide
/-- F45b client: POST → 307 → endpoint 1 → 302: the method would change at the second hop; the 302 is handed back, both
requests carried the body, none was accepted: requeue -/
example : wireOf checkSameMethod true (fun ep _ _ => if ep = 0 then .status 307 (some ⟨1, false⟩) else .status 302 (some ⟨2, false⟩)) 0 [112] =
      [⟨0, true, some [112], some 307⟩, ⟨1, true, some [112], some 302⟩] ∧
    seenBy checkSameMethod true (fun ep _ _ => if ep = 0 then .status 307 (some ⟨1, false⟩) else .status 302 (some ⟨2, false⟩)) [112] 0 = some 302 := by
  decide
/-- GET publisher, F45b client, the `Location` repeats the query: finished after endpoint 1 answered 200 to a GET that
carried the message (`KeepsQuery` is satisfiable by a world that redirects) -/
example : wireOf checkSameMethod false wMovedQ 0 [112] = [⟨0, false, some [112], some 302⟩, ⟨1, false, some [112], some 200⟩] := by decide
example : KeepsQuery wMovedQ := by
  intro ep pl lk h
  by_cases he : ep = 0
  · simp [wMovedQ, he, followUp, redirectKind] at h; subst h; rfl
  · simp [wMovedQ, he, followUp] at h
example : ¬ KeepsQuery wMoved := by
  intro h
  have := h 0 none (⟨1, false⟩, false) (by decide)
  simp at this
/-- … the `Location` drops the query: finished with `AcceptedByChain` only (first request carried the message, all GET, last 200) -/
example : wireOf checkSameMethod false wMoved 0 [112] = [⟨0, false, some [112], some 302⟩, ⟨1, false, none, some 200⟩] := by decide
/-- `NoLossyRedirect` is satisfiable by a world with a (307) redirect, and violated by `wMoved` -/
example : NoLossyRedirect true (fun ep _ _ => if ep = 0 then .status 307 (some ⟨1, false⟩) else .status 200 none) := by
  intro ep p pl lk h
  by_cases he : ep = 0
  · simp [he, followUp, redirectKind] at h; subst h; exact ⟨rfl, rfl⟩
  · simp [he, followUp] at h
example : ¬ NoLossyRedirect true wMoved := by
  intro h
  have := h 0 true none (⟨1, false⟩, false) (by decide)
  simp at this
/-- the default client in a redirect loop: ten requests, then an error (requeue) -/
example : (doReq checkDefault (fun _ _ _ => .status 302 (some ⟨0, false⟩)) true redirectFuel 0 0 true (some [112])).1.length = 10
    ∧ (doReq checkDefault (fun _ _ _ => .status 302 (some ⟨0, false⟩)) true redirectFuel 0 0 true (some [112])).2 = none := by decide
/-- `at_most_ten_requests` / `seen_is_last_answer` apply to the clients of F45 and F45b, hence to this tree's client -/
example : Limited checkSameMethod ∧ NoError checkSameMethod ∧ Limited checkNever ∧ NoError checkNever :=
  ⟨limited_sameMethod, noError_sameMethod, limited_never, noError_never⟩

end Nsq.Props.C20Redirect
