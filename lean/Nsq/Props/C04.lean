import Nsq.Proofs.Num
import Nsq.Proofs.PQ
import Nsq.Proofs.Timing
import Nsq.Proofs.Tick
import Nsq.Proofs.ScanWindow
import Nsq.Tie.Num
import Nsq.Tie.PQ
/-!
# C04 — Timeouts and delays are honoured: never early, boundedly late, range-checked

Property theorems only (helper lemmas: `Nsq.Proofs.Num`, `Nsq.Proofs.PQ`, `Nsq.Proofs.Timing`).

* numeric half (`Nsq.Model.Num`): tied by `Nsq.Tie.Num` — `ByteToBase10` and `msToDuration` are
  regenerated from the Go source and proved equal to the model; the statements of
  REQ / DPUB / doPUB / SetMsgTimeout are regenerated and compared — and by the correspondence
  harness `harness/e1/num_test.go` (real handlers, real TCP / HTTP).
* timing half (`Nsq.Model.PQ`, `Nsq.Model.Timing`): tied by `Nsq.Tie.PQ` (regenerated statements)
  and by `harness/e1/timing_test.go` (real heaps, real `Channel` with white-box clock).

*Partial (named in the evidence):* with more channels than `QueueScanSelectionCount` the scan
selection is random, and wall-clock lateness depends on the Go timer and scheduler: the
theorems prove "a scan at or after the deadline releases it" and "every channel is scanned on
every tick when there are at most `QueueScanSelectionCount` channels", not a wall-clock bound.
-/
namespace Nsq.Props.C04
open Nsq.Model.Num Nsq.Proofs.Num

/-- REQ: every digit string that fits 64 bits requeues with `min(v ms, MaxReqTimeout)`; anything
else (a non-digit byte anywhere, or a value ≥ 2^64) is refused with `E_INVALID` — never wrapped. -/
theorem req_clamp (maxReq : BitVec 64) (s : Bytes) :
    (reqTimeout maxReq s = none ↔ ¬ (allDigits s = true ∧ value s < 2 ^ 64)) ∧
    (∀ d, reqTimeout maxReq s = some d →
        d.toInt = min ((value s : Int) * 1000000) maxReq.toInt) := by
  cases hb : byteToBase10 s with
  | none => simp only [reqTimeout, hb]; exact ⟨by simp [byteToBase10_none hb], by simp⟩
  | some ms =>
    simp only [reqTimeout, hb]
    have ⟨h1, h2, h3⟩ := byteToBase10_some hb
    have hD := msToDuration_toInt ms
    have hneg : ¬ (BitVec.slt (msToDuration ms) 0#64 = true) := by
      rw [slt_iff, hD]; split <;> simp <;> omega
    have hm := maxReq.toInt_lt
    rw [if_neg hneg]
    refine ⟨by simp [h1, h2]; split <;> simp, ?_⟩
    intro d hd
    by_cases hc : BitVec.slt maxReq (msToDuration ms) = true
    · rw [if_pos hc] at hd
      injection hd with hd
      subst hd
      rw [slt_iff, hD] at hc
      split at hc <;> omega
    · rw [if_neg hc] at hd
      injection hd with hd
      subst hd
      rw [slt_iff, hD] at hc
      rw [hD]
      split at hc <;> simp_all <;> omega

theorem dpub_range (maxReq : BitVec 64) (hcfg : maxReq ≠ maxInt64) (s : Bytes) :
    ((∃ d, dpubDefer maxReq s = .ok d) ↔
        (allDigits s = true ∧ (value s : Int) * 1000000 ≤ maxReq.toInt)) ∧
    (∀ d, dpubDefer maxReq s = .ok d → d.toInt = (value s : Int) * 1000000) ∧
    (dpubDefer maxReq s = .error .parse ↔ ¬ (allDigits s = true ∧ value s < 2 ^ 64)) := by
  have hm := maxReq.toInt_lt
  have hne : maxReq.toInt ≠ 9223372036854775807 := by
    intro h; apply hcfg; apply BitVec.eq_of_toInt_eq; rw [h, maxInt64_toInt]
  cases hb : byteToBase10 s with
  | none =>
    simp only [dpubDefer, hb]
    have := byteToBase10_none hb
    refine ⟨⟨by simp, ?_⟩, by simp, by simp [this]⟩
    intro ⟨h1, h2⟩
    exact absurd ⟨h1, by omega⟩ this
  | some ms =>
    have ⟨h1, h2, h3⟩ := byteToBase10_some hb
    have hD := msToDuration_toInt ms
    simp only [dpubDefer, hb]
    have hneg : ¬ (BitVec.slt (msToDuration ms) 0#64 = true) := by
      rw [slt_iff, hD]; split <;> simp <;> omega
    by_cases hc : BitVec.slt maxReq (msToDuration ms) = true
    · have : (BitVec.slt (msToDuration ms) 0#64 || BitVec.slt maxReq (msToDuration ms)) = true := by
        simp [hc]
      rw [if_pos this]
      rw [slt_iff, hD] at hc
      refine ⟨⟨by simp, ?_⟩, by simp, by simp [h1, h2]⟩
      intro ⟨_, h⟩
      split at hc <;> omega
    · have : ¬ (BitVec.slt (msToDuration ms) 0#64 || BitVec.slt maxReq (msToDuration ms)) = true := by
        simp [hc, hneg]
      rw [if_neg this]
      rw [slt_iff, hD] at hc
      have hle : ms.toNat ≤ 9223372036854 := by
        split at hc <;> omega
      rw [if_pos hle] at hc hD
      refine ⟨⟨fun _ => ⟨h1, by omega⟩, fun _ => ⟨_, rfl⟩⟩, ?_, by simp [h1, h2]⟩
      intro d hd
      injection hd with hd
      subst hd
      rw [hD, h3]

/-- value of `strconv.ParseInt` on a plain (unsigned) non-empty digit string -/
theorem parseInt_digits (s : Bytes) (hne : s ≠ []) (hd : allDigits s = true) :
    parseInt s = if value s < 2 ^ 63 then some (value s : Int) else none := by
  cases s with
  | nil => contradiction
  | cons c tl =>
    have hc : isDigit c = true := by simp [allDigits] at hd; exact hd.1
    rw [isDigit_iff] at hc
    have h1 : c ≠ 45#8 := by intro h; subst h; simp at hc
    have h2 : c ≠ 43#8 := by intro h; subst h; simp at hc
    simp [parseInt, h1, h2, hd]

theorem http_defer (maxReq : BitVec 64) (hcfg : 0 ≤ maxReq.toInt) (s : Bytes) :
    ((∃ d, httpDefer maxReq s = some d) ↔
        (∃ v, parseInt s = some v ∧ 0 ≤ v ∧ v * 1000000 ≤ maxReq.toInt)) ∧
    (∀ d v, httpDefer maxReq s = some d → parseInt s = some v → d.toInt = v * 1000000) := by
  have hm := maxReq.toInt_lt
  have hdiv : (BitVec.sdiv maxReq 1000000#64).toInt = maxReq.toInt / 1000000 := by
    rw [BitVec.toInt_sdiv_of_ne_or_ne _ _ (Or.inr (by decide))]
    have : (1000000#64).toInt = 1000000 := by decide
    rw [this, Int.tdiv_eq_ediv_of_nonneg hcfg]
  cases hp : parseInt s with
  | none => simp [httpDefer, hp]
  | some di =>
    simp only [httpDefer, hp]
    have hrange : -(2:Int) ^ 63 ≤ di ∧ di < 2 ^ 63 := by
      unfold parseInt at hp
      split at hp
      · contradiction
      · repeat' split at hp
        all_goals first | contradiction | (injection hp with hp; omega)
    have hto : (BitVec.ofInt 64 di).toInt = di := by
      rw [BitVec.toInt_ofInt]; apply Int.bmod_eq_of_le <;> omega
    by_cases hc : (BitVec.slt (BitVec.ofInt 64 di) 0#64 ||
       BitVec.slt (BitVec.sdiv maxReq 1000000#64) (BitVec.ofInt 64 di)) = true
    · rw [if_pos hc]
      simp only [Bool.or_eq_true, slt_iff, hto, hdiv] at hc
      have : (0#64).toInt = 0 := by decide
      rw [this] at hc
      refine ⟨⟨by simp, ?_⟩, by simp⟩
      intro ⟨v, hv, h0, hle⟩
      injection hv with hv
      subst hv
      omega
    · rw [if_neg hc]
      simp only [Bool.or_eq_true, slt_iff, hto, hdiv, not_or, Int.not_lt] at hc
      have : (0#64).toInt = 0 := by decide
      rw [this] at hc
      have hle : di * 1000000 ≤ maxReq.toInt := by omega
      refine ⟨⟨fun _ => ⟨di, rfl, hc.1, hle⟩, fun _ => ⟨_, rfl⟩⟩, ?_⟩
      intro d v hd hv
      injection hd with hd
      injection hv with hv
      subst hd hv
      rw [BitVec.toInt_mul, hto]
      have : (1000000#64).toInt = 1000000 := by decide
      rw [this]
      apply Int.bmod_eq_of_le <;> omega


/-- `SetMsgTimeout` (IDENTIFY `msg_timeout`): the negotiated timeout is unchanged (0), or the
requested whole number of milliseconds within `[1 s, MaxMsgTimeout]`; everything else is refused. -/
theorem setMsgTimeout_range (maxMsgTimeout cur v : BitVec 64) (hcfg : 0 ≤ maxMsgTimeout.toInt) :
    (∀ d, setMsgTimeout maxMsgTimeout cur v = some d →
        (v = 0#64 ∧ d = cur) ∨
        (1000 ≤ v.toInt ∧ v.toInt * 1000000 ≤ maxMsgTimeout.toInt ∧ d.toInt = v.toInt * 1000000)) ∧
    (setMsgTimeout maxMsgTimeout cur v = none →
        v ≠ 0#64 ∧ (v.toInt < 1000 ∨ maxMsgTimeout.toInt < v.toInt * 1000000)) := by
  have hm := maxMsgTimeout.toInt_lt
  have hdiv : (BitVec.sdiv maxMsgTimeout 1000000#64).toInt = maxMsgTimeout.toInt / 1000000 := by
    rw [BitVec.toInt_sdiv_of_ne_or_ne _ _ (Or.inr (by decide))]
    have : (1000000#64).toInt = 1000000 := by decide
    rw [this, Int.tdiv_eq_ediv_of_nonneg hcfg]
  have h1000 : (1000#64).toInt = 1000 := by decide
  unfold setMsgTimeout
  by_cases h0 : (v == 0#64) = true
  · simp only [h0, if_true]
    refine ⟨?_, by simp⟩
    intro d hd
    injection hd with hd
    exact Or.inl ⟨by simpa using h0, hd.symm⟩
  · rw [if_neg h0]
    by_cases hr : (BitVec.sle 1000#64 v && BitVec.sle v (BitVec.sdiv maxMsgTimeout 1000000#64)) = true
    · rw [if_pos hr]
      simp only [Bool.and_eq_true, sle_iff, hdiv, h1000] at hr
      refine ⟨?_, by simp⟩
      intro d hd
      injection hd with hd
      subst hd
      refine Or.inr ⟨hr.1, by omega, ?_⟩
      rw [BitVec.toInt_mul]
      have : (1000000#64).toInt = 1000000 := by decide
      rw [this]
      apply Int.bmod_eq_of_le <;> omega
    · rw [if_neg hr]
      simp only [Bool.and_eq_true, sle_iff, hdiv, h1000, not_and, Int.not_le] at hr
      refine ⟨by simp, ?_⟩
      intro _
      refine ⟨by simpa using h0, ?_⟩
      by_cases h : v.toInt < 1000
      · exact Or.inl h
      · exact Or.inr (by have := hr (by omega); omega)

/-- **C04 range, full statement** (true of the current tree since fix 43ed751; its pre-fix
witnesses are replayed from `corpus/C04/fixed/numeric_overflow.ops` on every run).
For every byte string `s` given as the delay — i.e. for every way of writing a number, of any
length, and every non-number — and every `max-req-timeout` other than the largest representable
duration:
* `REQ` requeues with exactly `min(v ms, max-req-timeout)` when `s` is a digit string whose value
  `v` fits 64 bits, and refuses (`E_INVALID`) every other `s`; it never uses a wrapped value;
* `DPUB` accepts iff `s` is a digit string with `0 ≤ v ms ≤ max-req-timeout` and then defers by
  exactly `v ms`;
* HTTP `defer=` accepts iff `strconv.ParseInt` reads `s` as `v` with `0 ≤ v ms ≤ max-req-timeout`
  and then defers by exactly `v ms` (for plain digit strings `parseInt_digits` gives `v`).
(An empty `s` is the empty digit string: value 0 on TCP, a syntax error for `ParseInt`.) -/
theorem C04_range_full (maxReq : BitVec 64) (hpos : 0 ≤ maxReq.toInt) (hcfg : maxReq ≠ maxInt64)
    (s : Bytes) :
    -- REQ
    ((reqTimeout maxReq s = none ↔ ¬ (allDigits s = true ∧ value s < 2 ^ 64)) ∧
     (∀ d, reqTimeout maxReq s = some d → d.toInt = min ((value s : Int) * 1000000) maxReq.toInt)) ∧
    -- DPUB
    (((∃ d, dpubDefer maxReq s = .ok d) ↔ (allDigits s = true ∧ (value s : Int) * 1000000 ≤ maxReq.toInt)) ∧
     (∀ d, dpubDefer maxReq s = .ok d → d.toInt = (value s : Int) * 1000000)) ∧
    -- HTTP defer
    (((∃ d, httpDefer maxReq s = some d) ↔ (∃ v, parseInt s = some v ∧ 0 ≤ v ∧ v * 1000000 ≤ maxReq.toInt)) ∧
     (∀ d v, httpDefer maxReq s = some d → parseInt s = some v → d.toInt = v * 1000000)) :=
  ⟨req_clamp maxReq s, ⟨(dpub_range maxReq hcfg s).1, (dpub_range maxReq hcfg s).2.1⟩, http_defer maxReq hpos s⟩

/-- Every spelling that is not a plain digit string is refused on TCP (REQ and DPUB). -/
theorem non_digit_rejected (maxReq : BitVec 64) (s : Bytes) (h : allDigits s = false) :
    reqTimeout maxReq s = none ∧ dpubDefer maxReq s = .error .parse := by
  have hb : byteToBase10 s = none := by
    rw [byteToBase10_spec]; simp [h]
  simp [reqTimeout, dpubDefer, hb]

/-- The one configuration excluded above, spelled out: with `max-req-timeout` = 2^63−1 ns (≈ 292
years, i.e. "no limit") DPUB's saturating conversion accepts every 64-bit millisecond count above
9223372036854 with a delay of 2^63−1 ns. -/
theorem dpub_saturation_corner :
    dpubDefer maxInt64 [57,50,50,51,51,55,50,48,51,54,56,53,53] = .ok maxInt64 := by decide +kernel

/-! ## Timing -/
open Nsq.Model.PQ Nsq.Model.Timing Nsq.Proofs.PQ Nsq.Proofs.Timing

/-- **Never early**, for ANY channel state whatsoever (arbitrary array contents, no heap order
needed): everything `processInFlightQueue(t)` / `processDeferredQueue(t)` hands to `put` has a
deadline `≤ t`; and `put` receives exactly the released messages, in order. -/
theorem scan_never_early (c : Chan) (t : Int) :
    (∀ e ∈ (scanInFlight c t).released, e.pri ≤ t) ∧ (∀ e ∈ (scanDeferred c t).released, e.pri ≤ t) ∧
    (scanInFlight c t).chan.ready = c.ready ++ (scanInFlight c t).released.map (·.id) ∧
    (scanDeferred c t).chan.ready = c.ready ++ (scanDeferred c t).released.map (·.id) :=
  ⟨scanInFlight_never_early c t, scanDeferred_never_early c t, scanInFlight_ready c t, scanDeferred_ready c t⟩

/-- **Heap invariant**: `Push`, `Pop`, `Remove`, `PeekAndShift` of both heaps (nsqd's own
`inFlightPqueue`; `pqueue.PriorityQueue` under `container/heap`) preserve min-heap order and the
`index` back-pointers from any state satisfying them, for any priorities (ties included); the root
is the minimum. -/
theorem heap_inv (a : H) (h : Inv a) :
    (∀ id pri, Inv (push a id pri)) ∧
    (∀ b e, pop1 a = some (b, e) → Inv b) ∧
    (∀ i b e, remove1 a i = some (b, e) → Inv b) ∧
    (∀ i b e, remove2 a i = some (b, e) → Inv b) ∧
    (∀ t b e, peekAndShift1 a t = some (b, e) → Inv b) ∧
    (∀ t b e, peekAndShift2 a t = some (b, e) → Inv b) ∧
    (∀ k (hk : k < a.size), (a[0]'(by omega)).pri ≤ a[k].pri) :=
  ⟨fun id pri => push_inv a id pri h, fun _ _ hp => pop1_inv h hp, fun _ _ _ hp => remove1_inv h hp,
   fun _ _ _ hp => remove2_inv h hp, fun _ _ _ hp => peekAndShift1_inv h hp,
   fun _ _ _ hp => peekAndShift2_inv h hp, fun k hk => root_min a h.1 k hk⟩

/-- The heap operations neither lose nor invent deadlines: the removed element is the one asked
for (`(id, pri)` of the old root / of position `i`), the rest is a permutation. -/
theorem heap_contents (a : H) :
    (∀ id pri, (keys (push a id pri)).Perm ((id, pri) :: keys a)) ∧
    (∀ t b e, peekAndShift1 a t = some (b, e) →
        (key e :: keys b).Perm (keys a) ∧ ∃ h0 : 0 < a.size, key e = key a[0] ∧ e.index = -1) ∧
    (∀ t b e, peekAndShift2 a t = some (b, e) →
        (key e :: keys b).Perm (keys a) ∧ ∃ h0 : 0 < a.size, key e = key a[0] ∧ e.index = -1) ∧
    (∀ i b e, remove1 a i = some (b, e) →
        (key e :: keys b).Perm (keys a) ∧ ∃ hi : i < a.size, key e = key a[i] ∧ e.index = -1) :=
  ⟨fun id pri => push_keys a id pri, fun _ _ _ hp => peekAndShift1_keys hp,
   fun _ _ _ hp => peekAndShift2_keys hp, fun _ _ _ hp => remove1_keys hp⟩

/-- Every API call keeps the channel's data invariant (heap order, indices, heap ids = map keys,
no duplicates) and never panics from a state satisfying it — for every history. -/
theorem chan_inv (max : Int) (ops : List Op) : ChanInv (run max {} ops) :=
  run_inv max {} ops inv_init

/-- **Scan complete**: after a scan at `t` (from any reachable state) no entry with deadline `≤ t`
remains in that queue; released ∪ remaining = before; `dirty` says exactly "something was released". -/
theorem scan_complete (c : Chan) (h : ChanInv c) (t : Int) :
    ((∀ k (hk : k < (scanInFlight c t).chan.ifpq.size), t < ((scanInFlight c t).chan.ifpq[k]).pri) ∧
     ((scanInFlight c t).released.map key ++ keys (scanInFlight c t).chan.ifpq).Perm (keys c.ifpq) ∧
     (scanInFlight c t).dirty = !(scanInFlight c t).released.isEmpty) ∧
    ((∀ k (hk : k < (scanDeferred c t).chan.dpq.size), t < ((scanDeferred c t).chan.dpq[k]).pri) ∧
     ((scanDeferred c t).released.map key ++ keys (scanDeferred c t).chan.dpq).Perm (keys c.dpq) ∧
     (scanDeferred c t).dirty = !(scanDeferred c t).released.isEmpty) :=
  ⟨⟨(scanInFlight_complete c t h).1, (scanInFlight_complete c t h).2, scanInFlight_dirty c t h⟩,
   ⟨(scanDeferred_complete c t h).1, (scanDeferred_complete c t h).2, scanDeferred_dirty c t h⟩⟩

/-- **TOUCH**: each accepted TOUCH sets the deadline to
`min(now + msgTimeout, deliveryTS + MaxMsgTimeout)` (and leaves `deliveryTS` alone); hence after
ANY history whose deliveries start with a timeout `≤ MaxMsgTimeout` (the `SetMsgTimeout` range),
whatever the TOUCH pattern, every in-flight deadline is `≤ deliveryTS + MaxMsgTimeout`. -/
theorem touch_cap (max : Int) :
    (∀ c now client id mt, ChanInv c → (touch c now client id mt max).2 = .ok →
      ∃ r, lookup c.ifmap id = some r ∧ r.client = client ∧
        (id, min (now + mt) (r.dts + max)) ∈ keys (touch c now client id mt max).1.ifpq ∧
        (touch c now client id mt max).1.ifmap = c.ifmap) ∧
    (∀ ops : List Op, (∀ op ∈ ops, ∀ now id client timeout, op = .inflight now id client timeout → timeout ≤ max) →
      ∀ r ∈ (run max {} ops).ifmap, ∀ p, (r.id, p) ∈ keys (run max {} ops).ifpq → p ≤ r.dts + max) :=
  ⟨fun c now client id mt h hok => touch_sets_deadline c now client id mt max h hok,
   fun ops hops => cap_run max {} ops inv_init (cap_init max) hops⟩

/-- **Requeue**: `REQ` with delay 0 hands the message to `put` at once; with delay `d ≠ 0` it is
parked with deadline `now + d`, is not handed to `put`, and stays parked through EVERY later
history whose deferred scans are all earlier than `now + d`. -/
theorem requeue_not_before (max : Int) (c : Chan) (now client : Int) (id : Nat) (d : Int) :
    ((requeue c now client id 0).2 = .ok → (requeue c now client id 0).1.ready = c.ready ++ [id]) ∧
    (d ≠ 0 → (requeue c now client id d).2 = .ok →
      (requeue c now client id d).1.ready = c.ready ∧
      ∀ ops : List Op, (∀ t, Op.scanDef t ∈ ops → t < now + d) →
        (id, now + d) ∈ keys (run max (requeue c now client id d).1 ops).dpq) :=
  ⟨fun hok => requeue_zero c now client id hok,
   fun hd hok => ⟨(requeue_delay c now client id d hd hok).2,
     fun ops hearly => deferred_stays max _ id (now + d) (requeue_delay c now client id d hd hok).1 ops hearly⟩⟩

/-- **Deferred publish** (`DPUB`, `/pub?defer=`): the same for `StartDeferredTimeout`. Only the
scans and `REQ 0` ever hand anything to `put` (`step_ready_other`). -/
theorem deferred_not_before (max : Int) (c : Chan) (now : Int) (id : Nat) (d : Int)
    (hok : (startDeferred c now id d).2 = .ok) :
    (startDeferred c now id d).1.ready = c.ready ∧
    (∀ ops : List Op, (∀ t, Op.scanDef t ∈ ops → t < now + d) →
      (id, now + d) ∈ keys (run max (startDeferred c now id d).1 ops).dpq) ∧
    (∀ c' op, (∀ t, op ≠ .scanIf t) → (∀ t, op ≠ .scanDef t) → (∀ now cl id, op ≠ .requeue now cl id 0) →
      (step max c' op).ready = c'.ready) :=
  ⟨(startDeferred_ok c now id d hok).2,
   fun ops hearly => deferred_stays max _ id (now + d) (startDeferred_ok c now id d hok).1 ops hearly,
   fun c' op h1 h2 h3 => step_ready_other max c' op h1 h2 h3⟩

/-- **In-flight timeout not before its deadline**: an in-flight message stays in flight through
every history that neither names it (TOUCH/FIN/REQ) nor scans at or after its deadline. -/
theorem inflight_not_before (max : Int) (c : Chan) (h : ChanInv c) (id : Nat) (p : Int)
    (hin : (id, p) ∈ keys c.ifpq) (ops : List Op) (hearly : ∀ t, Op.scanIf t ∈ ops → t < p)
    (hnot : ∀ op ∈ ops, (∀ now cl mt, op ≠ .touch now cl id mt) ∧ (∀ cl, op ≠ .finish cl id) ∧
      (∀ now cl d, op ≠ .requeue now cl id d)) :
    (id, p) ∈ keys (run max c ops).ifpq :=
  inflight_stays max c h id p hin ops hearly hnot

/-! ### the window inside a scan iteration (finding `scan-window-requeue`, fixed by F16) -/

/-- "Never timed out before its deadline" at the granularity of the code's critical sections, for
the scan iteration of shape `fixed`: a message in flight (so neither queued nor deferred; ids are
unique: no other message with its id is published meanwhile), popped by a scan at `t`, then ANY
history of other API calls (deliveries come from the queue: `runQ`), then the rest of the
iteration. If the iteration releases the message, its deadline was due (`≤ t`) and it is not at
that moment a (fresh) in-flight delivery: it has no in-flight deadline and no in-flight owner. -/
def never_early_micro (fixed : Bool) : Prop :=
  ∀ (c : Chan) (t : Int) (between : List Op) (max : Int),
    ChanInv c →
    ∀ e, (scanPopPQ fixed c t).2 = some e →
      e.id ∉ c.ready → e.id ∉ c.dmap → (∀ op ∈ between, ∀ now d, op ≠ .defer now e.id d) →
      let c' := runQ max (scanPopPQ fixed c t).1 between
      (scanFinishPop fixed c' e.id).2 = true →
      e.pri ≤ t ∧ deadlineOf c' e.id = none ∧ lookup c'.ifmap e.id = none

/-- **Full theorem for the current code** (fix F16: heap pop + map delete in one critical section;
shape pinned by `Tie.PQ.processInFlightBody_eq`). -/
theorem never_early_micro_fixed : never_early_micro true := by
  intro c t between max h e he h1 h2 h3 c' hfin
  exact Nsq.Proofs.ScanWindow.never_early_micro_true c t between max h e he h1 h2 h3 hfin

/-- the pre-fix schedule: message 1 delivered to client 1 at 0 with timeout 10; the scan at t = 10
pops it off the heap; before the scan's second critical section the holder sends `REQ 1 0` and the
message (same object) is delivered again, to client 2, at 10 with timeout 60000; the scan then finds
id 1 in the in-flight map, "owned" by the object's current clientID, and times the fresh delivery
out: released at t = 10 with deadline 60010. -/
def raceStart : Chan := (startInFlight {} 0 1 1 10).1
def raceBetween : List Op := [.requeue 10 1 1 0, .inflight 10 1 2 60000]

/-- **The same statement is FALSE of the pre-fix shape** (finding `scan-window-requeue`, fixed by F16;
the schedule is replayed on the real code with the `chan.scan.afterPQPop` hook on every run and
must no longer reproduce). -/
theorem never_early_micro_false : ¬ never_early_micro false := by
  intro h
  have hinv : ChanInv raceStart := startInFlight_inv {} 0 1 1 10 inv_init
  have := h raceStart 10 raceBetween 900000 hinv ⟨1, 10, -1⟩ (by decide +kernel) (by decide +kernel)
    (by decide +kernel) (by intro op hop now d; simp [raceBetween] at hop; rcases hop with rfl | rfl <;> simp)
    (by decide +kernel)
  have h2 := this.2.1
  revert h2
  decide +kernel

/-- in that schedule the message is moreover handed out twice while one holder still has it, and the
data invariant is lost (heap entry without map entry) -/
example : (scanFinishPop false (runQ 900000 (scanPopPQ false raceStart 10).1 raceBetween) 1).1.ready = [1] ∧
    (scanFinishPop false (runQ 900000 (scanPopPQ false raceStart 10).1 raceBetween) 1).1.ifmap = [] ∧
    deadlineOf (scanFinishPop false (runQ 900000 (scanPopPQ false raceStart 10).1 raceBetween) 1).1 1 = some 60010 := by
  decide +kernel

/-- the fixed shape on the same schedule: the REQ finds nothing in flight, nothing is re-delivered,
the message is handed out once, with no in-flight entry left -/
example : (scanFinishPop true (runQ 900000 (scanPopPQ true raceStart 10).1 raceBetween) 1).1.ready = [1] ∧
    (scanFinishPop true (runQ 900000 (scanPopPQ true raceStart 10).1 raceBetween) 1).1.ifmap = [] ∧
    deadlineOf (scanFinishPop true (runQ 900000 (scanPopPQ true raceStart 10).1 raceBetween) 1).1 1 = none := by
  decide +kernel

/-- without interference both shapes are the atomic step `scanInFlight` -/
example : (scanFinishPop false (scanPopPQ false raceStart 10).1 1).1.ready = (scanInFlight raceStart 10).chan.ready ∧
    (scanFinishPop true (scanPopPQ true raceStart 10).1 1).1.ready = (scanInFlight raceStart 10).chan.ready := by
  decide +kernel

/-- **Scan selection**: `UniqRands q n` never panics and returns `min q n` pairwise distinct
indices below `n`, for every random stream; when `n ≤ q` it is a permutation of `0..n-1`: with at
most `QueueScanSelectionCount` channels EVERY channel is scanned on every tick. -/
theorem uniqRands_perm (q n : Nat) (r : Nat → Nat) :
    ∃ l, uniqRands q n r = some l ∧ l.length = min q n ∧ l.Nodup ∧ (∀ x ∈ l, x < n) ∧
      (n ≤ q → l.Perm (List.range n)) :=
  Nsq.Proofs.Timing.uniqRands_perm q n r

/-- **Every channel, every tick** (at most `QueueScanSelectionCount` channels in the scan loop's
list): one ROUND of `queueScanLoop`'s `loop:` (`Model.Timing.queueScanTick`; the whole tick incl. the dirty loop is
`C04Live`'s `tickLoop`) never panics, and — for channels satisfying `ChanInv` — afterwards NO channel holds anything due at
the clock reading its worker took — so in that regime lateness is at most one scan interval plus
the scan time (wall-clock part: partial). With more channels the tick scans `min(q, n)` distinct
ones and leaves the others untouched (`Proofs.Tick.tick_general`). -/
theorem every_channel_scanned_each_tick (q : Nat) (cs : List Chan) (r : Nat → Nat) (now : Nat → Int)
    (hn : cs.length ≤ q) (hinv : ∀ c ∈ cs, ChanInv c) :
    ∃ cs', queueScanTick q cs r now = some cs' ∧ cs'.length = cs.length ∧
      ∀ i (hi : i < cs'.length), ChanInv cs'[i] ∧ nothingDue cs'[i] (now i) = true :=
  Nsq.Proofs.Tick.tick_scans_every_channel q cs r now hn hinv

/-- Lateness in the model: a due entry is released by the FIRST scan of its queue at or after its
deadline (consequence of `scan_complete`); wall-clock lateness is the partial part. -/
theorem released_by_first_scan_after_deadline (c : Chan) (h : ChanInv c) (t : Int) (id : Nat) (p : Int)
    (hin : (id, p) ∈ keys c.dpq) (hdue : p ≤ t) : (id, p) ∈ (scanDeferred c t).released.map key := by
  have ⟨hleft, hperm, _⟩ := (scan_complete c h t).2
  have hmem : (id, p) ∈ (scanDeferred c t).released.map key ++ keys (scanDeferred c t).chan.dpq :=
    hperm.symm.subset hin
  rcases List.mem_append.mp hmem with h1 | h2
  · exact h1
  · exfalso
    simp only [keys, List.mem_map, Array.mem_toList_iff] at h2
    obtain ⟨e, he, hk⟩ := h2
    obtain ⟨k, hk', rfl⟩ := Array.mem_iff_getElem.mp he
    have := hleft k hk'
    simp only [key, Prod.mk.injEq] at hk
    omega

/-! ## Non-vacuity -/

-- numeric: the pre-fix witnesses, and ordinary values
example : byteToBase10 [49,56,52,52,54,55,52,52,48,55,51,55,48,57,53,53,49,54,50,49] = none := by decide  -- "18446744073709551621"
example : dpubDefer 3600000000000#64 [49,56,52,52,54,55,52,52,48,55,51,55,49,48] = .error .range := by decide +kernel  -- "18446744073710"
example : reqTimeout 3600000000000#64 [49,56,52,52,54,55,52,52,48,55,51,55,49,48] = some 3600000000000#64 := by decide
example : dpubDefer 3600000000000#64 [53,48,48,48] = .ok 5000000000#64 := by decide +kernel   -- "5000" → 5 s
example : httpDefer 3600000000000#64 [43,53] = some 5000000#64 := by decide            -- "+5" is a ParseInt spelling
example : httpDefer 3600000000000#64 [] = none := by decide
example : reqTimeout 3600000000000#64 [] = some 0#64 := by decide                        -- the empty digit string is 0 on TCP
example : setMsgTimeout 900000000000#64 60000000000#64 999#64 = none := by decide
example : setMsgTimeout 900000000000#64 60000000000#64 900000#64 = some 900000000000#64 := by decide
-- timing
example : Nsq.Proofs.PQ.Inv (push (push (push #[] 1 30) 2 10) 3 20) := by
  rw [Nsq.Proofs.PQ.Inv, ← heapOrdOk_iff, ← indexOk_iff]; decide +kernel
example : ¬ HeapOrd #[⟨1, 30, 0⟩, ⟨2, 10, 1⟩] := by rw [← heapOrdOk_iff]; decide
example : touchDeadline 95 0 60 100 = 100 ∧ touchDeadline 10 0 60 100 = 70 := by decide
example : uniqRands 20 3 (fun i => 7 * i + 2) = some [2, 0, 1] := by decide +kernel
example : ∃ cs', queueScanTick 20 Nsq.Proofs.Tick.twoChans (fun i => 7 * i + 2) (fun _ => 10) = some cs' ∧
    cs'.length = Nsq.Proofs.Tick.twoChans.length ∧
    ∀ i (hi : i < cs'.length), ChanInv cs'[i] ∧ nothingDue cs'[i] 10 = true :=
  every_channel_scanned_each_tick 20 _ _ _ (by decide) Nsq.Proofs.Tick.twoChans_inv
/-- an arbitrary (non-heap) array: the scan still releases nothing early -/
example : ((scanInFlight { ifpq := #[⟨1, 50, 0⟩, ⟨2, 5, 1⟩], ifmap := [⟨1, 1, 0⟩, ⟨2, 1, 0⟩] } 10).released.map (·.id)) = [] := by
  decide +kernel

end Nsq.Props.C04
