import Nsq.Proofs.Num
import Nsq.Tie.Num
namespace Nsq.Props.C04
open Nsq.Model.Num Nsq.Proofs.Num

/-- REQ: every digit string that fits 64 bits requeues with `min(v ms, MaxReqTimeout)`; anything
else (a non-digit byte anywhere, or a value ≥ 2^64) is refused with `E_INVALID` — never wrapped. -/
theorem req_clamp (maxReq : BitVec 64) (s : Bytes) :
    (reqTimeout maxReq s = none ↔ ¬ (allDigits s = true ∧ value s < 2 ^ 64)) ∧
    (∀ d, reqTimeout maxReq s = some d →
        d.toInt = min ((value s : Int) * 1000000) maxReq.toInt) := by
  cases hb : byteToBase10 s with
  | none => simp only [reqTimeout, hb]; exact ⟨by simp [byteToBase10_none hb], by simp⟩
  | some ms =>
    simp only [reqTimeout, hb]
    have ⟨h1, h2, h3⟩ := byteToBase10_some hb
    have hD := msToDuration_toInt ms
    have hneg : ¬ (BitVec.slt (msToDuration ms) 0#64 = true) := by
      rw [slt_iff, hD]; split <;> simp <;> omega
    have hm := maxReq.toInt_lt
    rw [if_neg hneg]
    refine ⟨by simp [h1, h2]; split <;> simp, ?_⟩
    intro d hd
    by_cases hc : BitVec.slt maxReq (msToDuration ms) = true
    · rw [if_pos hc] at hd
      injection hd with hd
      subst hd
      rw [slt_iff, hD] at hc
      split at hc <;> omega
    · rw [if_neg hc] at hd
      injection hd with hd
      subst hd
      rw [slt_iff, hD] at hc
      rw [hD]
      split at hc <;> simp_all <;> omega

theorem dpub_range (maxReq : BitVec 64) (hcfg : maxReq ≠ maxInt64) (s : Bytes) :
    ((∃ d, dpubDefer maxReq s = .ok d) ↔
        (allDigits s = true ∧ (value s : Int) * 1000000 ≤ maxReq.toInt)) ∧
    (∀ d, dpubDefer maxReq s = .ok d → d.toInt = (value s : Int) * 1000000) ∧
    (dpubDefer maxReq s = .error .parse ↔ ¬ (allDigits s = true ∧ value s < 2 ^ 64)) := by
  have hm := maxReq.toInt_lt
  have hne : maxReq.toInt ≠ 9223372036854775807 := by
    intro h; apply hcfg; apply BitVec.eq_of_toInt_eq; rw [h, maxInt64_toInt]
  cases hb : byteToBase10 s with
  | none =>
    simp only [dpubDefer, hb]
    have := byteToBase10_none hb
    refine ⟨⟨by simp, ?_⟩, by simp, by simp [this]⟩
    intro ⟨h1, h2⟩
    exact absurd ⟨h1, by omega⟩ this
  | some ms =>
    have ⟨h1, h2, h3⟩ := byteToBase10_some hb
    have hD := msToDuration_toInt ms
    simp only [dpubDefer, hb]
    have hneg : ¬ (BitVec.slt (msToDuration ms) 0#64 = true) := by
      rw [slt_iff, hD]; split <;> simp <;> omega
    by_cases hc : BitVec.slt maxReq (msToDuration ms) = true
    · have : (BitVec.slt (msToDuration ms) 0#64 || BitVec.slt maxReq (msToDuration ms)) = true := by
        simp [hc]
      rw [if_pos this]
      rw [slt_iff, hD] at hc
      refine ⟨⟨by simp, ?_⟩, by simp, by simp [h1, h2]⟩
      intro ⟨_, h⟩
      split at hc <;> omega
    · have : ¬ (BitVec.slt (msToDuration ms) 0#64 || BitVec.slt maxReq (msToDuration ms)) = true := by
        simp [hc, hneg]
      rw [if_neg this]
      rw [slt_iff, hD] at hc
      have hle : ms.toNat ≤ 9223372036854 := by
        split at hc <;> omega
      rw [if_pos hle] at hc hD
      refine ⟨⟨fun _ => ⟨h1, by omega⟩, fun _ => ⟨_, rfl⟩⟩, ?_, by simp [h1, h2]⟩
      intro d hd
      injection hd with hd
      subst hd
      rw [hD, h3]

/-- value of `strconv.ParseInt` on a plain (unsigned) non-empty digit string -/
theorem parseInt_digits (s : Bytes) (hne : s ≠ []) (hd : allDigits s = true) :
    parseInt s = if value s < 2 ^ 63 then some (value s : Int) else none := by
  cases s with
  | nil => contradiction
  | cons c tl =>
    have hc : isDigit c = true := by simp [allDigits] at hd; exact hd.1
    rw [isDigit_iff] at hc
    have h1 : c ≠ 45#8 := by intro h; subst h; simp at hc
    have h2 : c ≠ 43#8 := by intro h; subst h; simp at hc
    simp [parseInt, h1, h2, hd]

theorem http_defer (maxReq : BitVec 64) (hcfg : 0 ≤ maxReq.toInt) (s : Bytes) :
    ((∃ d, httpDefer maxReq s = some d) ↔
        (∃ v, parseInt s = some v ∧ 0 ≤ v ∧ v * 1000000 ≤ maxReq.toInt)) ∧
    (∀ d v, httpDefer maxReq s = some d → parseInt s = some v → d.toInt = v * 1000000) := by
  have hm := maxReq.toInt_lt
  have hdiv : (BitVec.sdiv maxReq 1000000#64).toInt = maxReq.toInt / 1000000 := by
    rw [BitVec.toInt_sdiv_of_ne_or_ne _ _ (Or.inr (by decide))]
    have : (1000000#64).toInt = 1000000 := by decide
    rw [this, Int.tdiv_eq_ediv_of_nonneg hcfg]
  cases hp : parseInt s with
  | none => simp [httpDefer, hp]
  | some di =>
    simp only [httpDefer, hp]
    have hrange : -(2:Int) ^ 63 ≤ di ∧ di < 2 ^ 63 := by
      unfold parseInt at hp
      split at hp
      · contradiction
      · repeat' split at hp
        all_goals first | contradiction | (injection hp with hp; omega)
    have hto : (BitVec.ofInt 64 di).toInt = di := by
      rw [BitVec.toInt_ofInt]; apply Int.bmod_eq_of_le <;> omega
    by_cases hc : (BitVec.slt (BitVec.ofInt 64 di) 0#64 ||
       BitVec.slt (BitVec.sdiv maxReq 1000000#64) (BitVec.ofInt 64 di)) = true
    · rw [if_pos hc]
      simp only [Bool.or_eq_true, slt_iff, hto, hdiv] at hc
      have : (0#64).toInt = 0 := by decide
      rw [this] at hc
      refine ⟨⟨by simp, ?_⟩, by simp⟩
      intro ⟨v, hv, h0, hle⟩
      injection hv with hv
      subst hv
      omega
    · rw [if_neg hc]
      simp only [Bool.or_eq_true, slt_iff, hto, hdiv, not_or, Int.not_lt] at hc
      have : (0#64).toInt = 0 := by decide
      rw [this] at hc
      have hle : di * 1000000 ≤ maxReq.toInt := by omega
      refine ⟨⟨fun _ => ⟨di, rfl, hc.1, hle⟩, fun _ => ⟨_, rfl⟩⟩, ?_⟩
      intro d v hd hv
      injection hd with hd
      injection hv with hv
      subst hd hv
      rw [BitVec.toInt_mul, hto]
      have : (1000000#64).toInt = 1000000 := by decide
      rw [this]
      apply Int.bmod_eq_of_le <;> omega

end Nsq.Props.C04
