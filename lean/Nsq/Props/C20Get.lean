import Nsq.Proofs.HttpGet
import Nsq.Props.C20Opts
/-!
# C20 — nsq_to_http GET mode: the request target carries the body exactly (audit round 7, item C23)

`Nsq.Props.C20.http_body_unmodified` says that the model hands `m.body` to `Publish`; it says nothing about what
`GetPublisher.Publish` puts on the wire (`fmt.Sprintf(addr, url.QueryEscape(string(msg)))`). That is stated here,
at byte level, on `Nsq.Model.HttpGet`:

* `get_escape_roundtrip` — `url.QueryUnescape (url.QueryEscape body) = body` for every byte string: the destination
  recovers the body byte-exactly;
* `get_escape_alphabet` — the escaped body consists of unreserved characters, `+` and `%` only, so it cannot end the
  query parameter it is placed in (`&`, `#`, `=`, space, … never occur);
* `get_endpoint_clean` — for a *clean* template (every `%` belongs to the single `%s` or to a `%%`) the request target
  is `prefix ++ queryEscape body ++ suffix` with prefix and suffix fixed by the template (`%%` collapsed to `%`);
* `get_body_recoverable` — so the destination, which knows the template, gets the body back exactly;
* `get_main_check_sufficient` — the statement "main()'s check `strings.Count(addr, "%s") == 1` guarantees a clean
  template" is **false** (`get_main_check_sufficient_false`: `/p?d=%s&pct=100%`, `/p?d=%%s`, `/a%20b?d=%s` pass the
  check and are not clean — Go then prints `%!(NOVERB)`, `%!(EXTRA string=…)`, `%!b(string=…)` into the URL):
  open finding `get-template-stray-percent`. Under the hypothesis `cleanTemplate` everything above holds
  (`get_endpoint_clean` is the `_partial` form).
-/
namespace Nsq.Props.C20Get
open Nsq.Model.HttpGet Nsq.Proofs.HttpGet

/-- **Round trip.** What `url.QueryUnescape` makes of `url.QueryEscape body` is `body`, for all bytes. -/
theorem get_escape_roundtrip (body : Bytes) : queryUnescape (queryEscape body) = some body := by
  induction body with
  | nil => rfl
  | cons x xs ih =>
    have : queryEscape (x :: xs) = escapeByte x ++ queryEscape xs := by simp [queryEscape]
    rw [this, unescape_escapeByte, ih]
    rfl

/-- the escaped body uses only unreserved characters, `+` and `%` -/
theorem get_escape_alphabet (body : Bytes) : ∀ c ∈ queryEscape body, unreserved c = true ∨ c = 43 ∨ c = 37 := by
  intro c hc
  simp only [queryEscape, List.mem_flatMap] at hc
  obtain ⟨x, _, hx⟩ := hc
  unfold escapeByte at hx
  by_cases hu : unreserved x = true
  · simp [hu] at hx; subst hx; exact Or.inl hu
  · by_cases hs : x = 32
    · subst hs
      have e : (if unreserved 32 = true then [32] else if (32 : UInt8) = 32 then [43] else [37, hexDigit ((32 : UInt8).toNat / 16), hexDigit ((32 : UInt8).toNat % 16)] : Bytes) = [43] := by decide
      rw [e] at hx
      simp at hx
      exact Or.inr (Or.inl hx)
    · simp [hu, hs] at hx
      rcases hx with rfl | rfl | rfl
      · exact Or.inr (Or.inr rfl)
      · exact Or.inl (hexDigit_unreserved _ (toNat_div_lt x))
      · exact Or.inl (hexDigit_unreserved _ (Nat.mod_lt _ (by decide)))

/-- **Endpoint for a clean template** (hypothesis `cleanTemplate`): the request target is the template's text before
the `%s`, the escaped body, and the template's text after it — nothing else, whatever the body is. -/
theorem get_endpoint_clean (t : Bytes) (hclean : cleanTemplate t = true) :
    ∃ pre suf : Bytes, ∀ body, endpoint t body = some (pre ++ queryEscape body ++ suf) := by
  unfold cleanTemplate at hclean
  cases hs : scan t with
  | none => rw [hs] at hclean; cases hclean
  | some ps =>
    rw [hs] at hclean
    have hn : nargs ps = 1 := by simpa using hclean
    obtain ⟨l1, l2, hl⟩ := (render_split ps).2 hn
    exact ⟨l1, l2, fun body => by simp [endpoint, sprintf1, hs, hn, hl]⟩

/-- **The destination recovers the body**: strip the template's fixed prefix and suffix, unescape. -/
theorem get_body_recoverable (t : Bytes) (hclean : cleanTemplate t = true) :
    ∃ pre suf : Bytes, ∀ body, ∃ mid, endpoint t body = some (pre ++ mid ++ suf) ∧ queryUnescape mid = some body := by
  obtain ⟨pre, suf, h⟩ := get_endpoint_clean t hclean
  exact ⟨pre, suf, fun body => ⟨queryEscape body, h body, get_escape_roundtrip body⟩⟩

/-- an unclean template never yields a modelled endpoint (Go prints `%!…` diagnostics into the URL) -/
theorem get_endpoint_none_iff (t body : Bytes) : endpoint t body = none ↔ cleanTemplate t = false := by
  unfold endpoint sprintf1 cleanTemplate
  cases scan t with
  | none => simp
  | some ps => by_cases h : nargs ps = 1 <;> simp [h]

/-- the reading "main()'s validation guarantees a well-formed request target" -/
def get_main_check_sufficient : Prop := ∀ t : Bytes, mainCheck t = true → cleanTemplate t = true

/-- … is **false**: `/p?d=%s&pct=100%` passes `strings.Count(addr, "%s") == 1` and is not clean. -/
theorem get_main_check_sufficient_false : ¬ get_main_check_sufficient := by
  intro h
  have := h [47, 112, 63, 100, 61, 37, 115, 38, 112, 99, 116, 61, 49, 48, 48, 37] (by decide)
  revert this
  decide

/-- the hypothesis `naddr ≠ 0` of `http_no_silent_drop` / `http_eventual_delivery_partial` /
`tool_fin_only_after_accept_partial` is discharged by main()'s validation (`--get or --post required`): a started
nsq_to_http has at least one destination address (`posts` POST addresses or `getCounts.length` GET addresses). -/
theorem http_valid_start_has_address (a : Nsq.Model.RelayOpts.HttpArgs) (h : Nsq.Model.RelayOpts.validateHttp a = none) :
    a.posts + a.getCounts.length ≠ 0 := by
  have hv := (Nsq.Props.C20Opts.n2h_starts_only_when_valid a h).2.2.2.2.2.1
  rcases hv with ⟨hp, _⟩ | ⟨_, hg⟩
  · omega
  · have : a.getCounts.length ≠ 0 := fun e => hg (List.length_eq_zero_iff.mp e)
    omega

/-! ### non-vacuity -/

example : Nsq.Model.RelayOpts.validateHttp ⟨true, false, false, false, false, 1, 0, 0, [1], true⟩ = none := by decide   -- one --get
example : Nsq.Model.RelayOpts.validateHttp ⟨true, false, false, false, false, 1, 0, 0, [], true⟩ = some .noDest := by decide


-- "/p?x=50%%25&d=%s" with body "a b&c" → "/p?x=50%25&d=a+b%26c"
example : endpoint [47, 112, 63, 120, 61, 53, 48, 37, 37, 50, 53, 38, 100, 61, 37, 115] [97, 32, 98, 38, 99] =
    some [47, 112, 63, 120, 61, 53, 48, 37, 50, 53, 38, 100, 61, 97, 43, 98, 37, 50, 54, 99] := by decide
example : cleanTemplate [47, 112, 63, 120, 61, 53, 48, 37, 37, 50, 53, 38, 100, 61, 37, 115] = true := by decide
-- bytes 0x00, 0xff, '%', '+', '~' escape to %00 %FF %25 %2B ~
example : queryEscape [0, 255, 37, 43, 126] = [37, 48, 48, 37, 70, 70, 37, 50, 53, 37, 50, 66, 126] := by decide
example : queryUnescape [37, 48, 48, 37, 70, 70, 37, 50, 53, 37, 50, 66, 126] = some [0, 255, 37, 43, 126] := by decide
-- the three witnesses of the open finding pass main()'s check and are unclean
example : mainCheck [47, 112, 63, 100, 61, 37, 37, 115] = true ∧ cleanTemplate [47, 112, 63, 100, 61, 37, 37, 115] = false := by decide   -- /p?d=%%s
example : mainCheck [47, 97, 37, 50, 48, 98, 63, 100, 61, 37, 115] = true ∧
    cleanTemplate [47, 97, 37, 50, 48, 98, 63, 100, 61, 37, 115] = false := by decide                                                    -- /a%20b?d=%s
-- and the check is not necessary either: "/p?e=%%s&d=%s" is clean (one operand use) but counts two "%s"
example : cleanTemplate [47, 112, 63, 101, 61, 37, 37, 115, 38, 100, 61, 37, 115] = true ∧
    mainCheck [47, 112, 63, 101, 61, 37, 37, 115, 38, 100, 61, 37, 115] = false := by decide

end Nsq.Props.C20Get
