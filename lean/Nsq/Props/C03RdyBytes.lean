import Nsq.Model.RdyBytes
import Nsq.Proofs.Num
/-!
# C03.4 over the bytes on the wire (audit round 7, item A9)

`Props.C03.rdy_range_full` is about a local helper `countOfValue : Nat → Option Int` that nothing ties
to the code. This module restates it over the byte string the client sent, on the model of the RDY
handler's argument handling (`Model.RdyBytes.rdyArg`), whose parser is the translated
`ByteToBase10` (`Tie.Num.byteToBase10_eq`, specification `Proofs.Num.byteToBase10_spec`) and whose
decisions are compared with the real handler on generated spellings (driver op `rdy`,
harness/e1/rdy_bytes_test.go). (Owner of `Props/C03.lean` is builder chan2: this is a separate module.)
-/
namespace Nsq.Props.C03RdyBytes
open Nsq.Model.Num Nsq.Model.RdyBytes Nsq.Proofs.Num

/-- **RDY range, full strength, over bytes.** For every byte string `b` sent as the count and every
`max-rdy-count ≥ 0`: the handler accepts iff `b` consists of decimal digits only (any number of them,
leading zeros included; the empty string reads as 0) and the number they denote is `≤ max-rdy-count`;
the ready count then set is exactly that number. Everything else — a sign, a blank, a letter, a value
above the maximum, `2^63 … 2^64-1` (negative as int64), `≥ 2^64` (parse error since fix 43ed751; before it
`18446744073709551621` read as 5) — is the fatal `E_INVALID`. -/
theorem rdy_range_bytes (maxRdy : BitVec 64) (h0 : 0 ≤ maxRdy.toInt) (b : Bytes) :
    (∀ c, rdyArg maxRdy (some b) = .ok c ↔
      (allDigits b = true ∧ (value b : Int) ≤ maxRdy.toInt ∧ c.toInt = value b)) ∧
    ((∃ c, rdyArg maxRdy (some b) = .ok c) ↔ (allDigits b = true ∧ (value b : Int) ≤ maxRdy.toInt)) := by
  have hmax := maxRdy.toInt_lt
  have key : ∀ c, rdyArg maxRdy (some b) = .ok c ↔
      (allDigits b = true ∧ (value b : Int) ≤ maxRdy.toInt ∧ c.toInt = value b) := by
    intro c
    unfold rdyArg
    simp only []
    rw [byteToBase10_spec]
    by_cases hd : allDigits b = true ∧ value b < 2 ^ 64
    · rw [if_pos hd]
      simp only []
      have hn : (BitVec.ofNat 64 (value b)).toNat = value b := by
        simp; omega
      by_cases hr : (BitVec.slt (BitVec.ofNat 64 (value b)) 0#64 || BitVec.slt maxRdy (BitVec.ofNat 64 (value b))) = true
      · rw [if_pos hr]
        constructor
        · intro h; cases h
        · rintro ⟨_, hle, _⟩
          exfalso
          have hlt : value b < 2 ^ 63 := by omega
          have ht : (BitVec.ofNat 64 (value b)).toInt = value b := by
            rw [BitVec.toInt_eq_toNat_of_lt (by omega), hn]
          simp only [Bool.or_eq_true, BitVec.slt, decide_eq_true_eq] at hr
          rw [ht] at hr
          have z : (0#64).toInt = 0 := by decide
          rw [z] at hr
          omega
      · rw [if_neg hr]
        simp only [Bool.or_eq_true, BitVec.slt, decide_eq_true_eq, not_or, Int.not_lt] at hr
        have z : (0#64).toInt = 0 := by decide
        rw [z] at hr
        have hlt : value b < 2 ^ 63 := by
          have := hr.1
          rw [BitVec.toInt_eq_toNat_cond, hn] at this
          split at this <;> omega
        have ht : (BitVec.ofNat 64 (value b)).toInt = value b := by
          rw [BitVec.toInt_eq_toNat_of_lt (by omega), hn]
        constructor
        · intro h
          injection h with h
          subst h
          exact ⟨hd.1, by rw [← ht]; exact hr.2, ht⟩
        · rintro ⟨_, _, hc⟩
          congr 1
          apply BitVec.eq_of_toInt_eq
          rw [ht, hc]
    · rw [if_neg hd]
      constructor
      · intro h; cases h
      · rintro ⟨ha, hle, _⟩
        exact absurd ⟨ha, by omega⟩ hd
  refine ⟨key, ?_⟩
  constructor
  · rintro ⟨c, hc⟩
    have := (key c).1 hc
    exact ⟨this.1, this.2.1⟩
  · rintro ⟨ha, hle⟩
    have hlt : value b < 2 ^ 63 := by omega
    refine ⟨BitVec.ofNat 64 (value b), (key _).2 ⟨ha, hle, ?_⟩⟩
    have hn : (BitVec.ofNat 64 (value b)).toNat = value b := by simp; omega
    rw [BitVec.toInt_eq_toNat_of_lt (by omega), hn]

/-- `RDY` without a count is `RDY 1` (accepted iff `max-rdy-count ≥ 1`). -/
theorem rdy_no_arg (maxRdy : BitVec 64) :
    rdyArg maxRdy none = if 1 ≤ maxRdy.toInt then .ok 1#64 else .rangeErr 1#64 := by
  unfold rdyArg
  have z : (1#64).toInt = 1 := by decide
  by_cases h : 1 ≤ maxRdy.toInt
  · have : ¬ (BitVec.slt maxRdy 1#64 = true) := by simp [BitVec.slt, z]; omega
    simp [h, this, BitVec.slt]
  · have : BitVec.slt maxRdy 1#64 = true := by simp [BitVec.slt, z]; omega
    simp [h, this]

/-! ## Non-vacuity (the values of `Props.C03.rdy_range_full`'s examples, now as bytes) -/

/-- "2500" with max-rdy-count 2500 -/
example : rdyArg 2500#64 (some [50#8, 53#8, 48#8, 48#8]) = .ok 2500#64 := by decide
/-- "2501" -/
example : rdyArg 2500#64 (some [50#8, 53#8, 48#8, 49#8]) = .rangeErr 2501#64 := by decide
/-- "18446744073709551621" = 2^64 + 5: refused as a parse error, not read as 5 -/
example : rdyArg 2500#64 (some [49#8,56#8,52#8,52#8,54#8,55#8,52#8,52#8,48#8,55#8,51#8,55#8,48#8,57#8,53#8,53#8,49#8,54#8,50#8,49#8])
    = .parseErr := by decide
/-- "9223372036854775808" = 2^63: negative as int64 -/
example : ∃ c, rdyArg 2500#64 (some [57#8,50#8,50#8,51#8,51#8,55#8,50#8,48#8,51#8,54#8,56#8,53#8,52#8,55#8,55#8,53#8,56#8,48#8,56#8])
    = .rangeErr c ∧ c.toInt < 0 := ⟨9223372036854775808#64, by decide, by decide⟩
/-- "+5", "", "007" -/
example : rdyArg 2500#64 (some [43#8, 53#8]) = .parseErr ∧ rdyArg 2500#64 (some []) = .ok 0#64 ∧
    rdyArg 2500#64 (some [48#8, 48#8, 55#8]) = .ok 7#64 := by decide
example : (∃ c, rdyArg 2500#64 (some [50#8, 53#8, 48#8, 48#8]) = .ok c) :=
  ((rdy_range_bytes 2500#64 (by decide) _).2).2 ⟨by decide, by decide⟩

end Nsq.Props.C03RdyBytes
