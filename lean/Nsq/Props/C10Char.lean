import Nsq.Proofs.HttpChar
import Nsq.Proofs.HttpTextDiv
import Nsq.Model.HttpBody
/-!
# C10 (audit round 7) — exact characterisations

Answers to the audit items B13, B20, B15, B16 (docs/C10.md, section "Audit round 7").

* §1–§3 (B13, B20): for every admin endpoint, `/pub` and `/stats`, at the level of `handle` (TLS gate +
  router + handler): each (status, message) pair ↔ the exact condition on the request and the broker, the
  list of pairs is exhaustive, the broker after a 200 is an explicit expression, and nothing changes
  otherwise. The structures `TopicEndpoint`, `ChannelEndpoint`, `PubEndpoint` (`Nsq.Proofs.HttpChar`) hold
  these equivalences field by field. Router-level statuses (403, 405) are equivalences too (`router_status_iff` — the only place
  where 403 is covered: every `*_char`, `pub_char`, `stats_char` assumes `hc.tlsRefuse = false` and the exact method and
  path of its endpoint); `no_500_complete` is a model statement for every request, `Complete rq` is the named exclusion
  under which it is claimed of the real server (not a used hypothesis: the model has no read-error branch).
* §4 (B15): text `/mpub` — exact acceptance, exact divergence from binary `/mpub` / TCP `MPUB`, and the
  refutation of the literal clause "same size limits".
* §5 (B16): how many body bytes each handler reads; bounded for every handler after fix F33, unbounded
  before it (witness).
-/
namespace Nsq.Props.C10Char
open Nsq.Model.HttpApi Nsq.Model.HttpFull Nsq.Model.HttpBody Nsq.Model.ProtoV2 Nsq.Model.Names Nsq.Model.Base10 Nsq.Model
open Nsq.Proofs.HttpApi Nsq.Proofs.HttpApiEquiv Nsq.Proofs.HttpApiText Nsq.Proofs.HttpChar Nsq.Proofs.HttpTextDiv
open Nsq.Proofs.ProtoV2 Nsq.Proofs.Mpub

/-! ## 1. Topic endpoints: exact answers and exact effect -/

/-- `POST /topic/create`: the name is validated, the topic need not exist; 200 ⇒ broker = `getTopic b t`. -/
theorem topic_create_char (hc : HConf) (healthy : Bool) (b : Broker) (rq : Request)
    (htls : hc.tlsRefuse = false) (hat : At rq "POST" "/topic/create") :
    TopicEndpoint true false (fun t => getTopic b t) b rq (handle hc healthy b rq) := by
  rw [handle_at hc healthy b rq _ _ .createTopic htls hat (by decide)]
  simp only [runHandler, doCreateTopic_shape]
  exact topicShape_char _ _ _ b rq

/-- `POST /topic/empty`: 200 ⇒ the named topic's own queue is empty, everything else as before. -/
theorem topic_empty_char (hc : HConf) (healthy : Bool) (b : Broker) (rq : Request)
    (htls : hc.tlsRefuse = false) (hat : At rq "POST" "/topic/empty") :
    TopicEndpoint true true (fun t => modifyTopic b t (fun x => { x with msgs := [] })) b rq
      (handle hc healthy b rq) := by
  rw [handle_at hc healthy b rq _ _ .emptyTopic htls hat (by decide)]
  simp only [runHandler, doEmptyTopic_shape]
  exact topicShape_char _ _ _ b rq

/-- `POST /topic/delete`: the raw name is looked up (no validation); 200 ⇒ broker = `deleteTopic b t`. -/
theorem topic_delete_char (hc : HConf) (healthy : Bool) (b : Broker) (rq : Request)
    (htls : hc.tlsRefuse = false) (hat : At rq "POST" "/topic/delete") :
    TopicEndpoint false true (fun t => deleteTopic b t) b rq (handle hc healthy b rq) := by
  rw [handle_at hc healthy b rq _ _ .deleteTopic htls hat (by decide)]
  simp only [runHandler, doDeleteTopic_shape]
  exact topicShape_char _ _ _ b rq

/-- `POST /topic/pause`: 200 ⇒ the flag is set (and the pump settles). -/
theorem topic_pause_char (hc : HConf) (healthy : Bool) (b : Broker) (rq : Request)
    (htls : hc.tlsRefuse = false) (hat : At rq "POST" "/topic/pause") :
    TopicEndpoint false true (fun t => modifyTopic b t (fun x => settle { x with paused := true })) b rq
      (handle hc healthy b rq) := by
  rw [handle_at hc healthy b rq _ _ .pauseTopic htls hat (by decide)]
  simp only [runHandler, doPauseTopic_shape]
  have : isUnpause rq.path = false := by rw [hat.2]; decide
  simp only [this, Bool.not_false]
  exact topicShape_char _ _ _ b rq

/-- `POST /topic/unpause`: 200 ⇒ the flag is cleared and the pump hands the pending messages on. -/
theorem topic_unpause_char (hc : HConf) (healthy : Bool) (b : Broker) (rq : Request)
    (htls : hc.tlsRefuse = false) (hat : At rq "POST" "/topic/unpause") :
    TopicEndpoint false true (fun t => modifyTopic b t (fun x => settle { x with paused := false })) b rq
      (handle hc healthy b rq) := by
  rw [handle_at hc healthy b rq _ _ .pauseTopic htls hat (by decide)]
  simp only [runHandler, doPauseTopic_shape]
  have : isUnpause rq.path = true := by rw [hat.2]; decide
  simp only [this, Bool.not_true]
  exact topicShape_char _ _ _ b rq

-- non-vacuity: every branch of the structure is inhabited
example : At ⟨ascii "POST", ascii "/topic/delete", ascii "topic=a", 0, []⟩ "POST" "/topic/delete" := ⟨rfl, rfl⟩
example : handle Examples.hconf true Examples.broker2 ⟨ascii "POST", ascii "/topic/delete", ascii "topic=a", 0, []⟩ =
    (⟨.s200, ""⟩, [{ name := ascii "b", paused := false, count := 0, msgs := [], chans := [] }]) := by decide
example : (handle Examples.hconf true Examples.broker2 ⟨ascii "POST", ascii "/topic/delete", ascii "topic=zz", 0, []⟩).1 =
    ⟨.s404, "TOPIC_NOT_FOUND"⟩ := by decide
example : (handle Examples.hconf true Examples.broker2 ⟨ascii "POST", ascii "/topic/empty", ascii "topic=%21", 0, []⟩).1 =
    ⟨.s400, "INVALID_TOPIC"⟩ := by decide
example : (handle Examples.hconf true Examples.broker2 ⟨ascii "POST", ascii "/topic/empty", ascii "x=1", 0, []⟩).1 =
    ⟨.s400, "MISSING_ARG_TOPIC"⟩ := by decide
example : (handle Examples.hconf true Examples.broker2 ⟨ascii "POST", ascii "/topic/empty", ascii "%zz", 0, []⟩).1 =
    ⟨.s400, "INVALID_REQUEST"⟩ := by decide
example : arg ⟨ascii "POST", ascii "/topic/delete", ascii "topic=a&topic=b", 0, []⟩ kTopic = some (ascii "a") := by decide
-- the audit's probe: a bogus 400 for a good request is no longer admitted
example : ¬ ((handle Examples.hconf true Examples.broker2
    ⟨ascii "POST", ascii "/topic/empty", ascii "topic=a", 0, []⟩).1.status = .s400) := by decide

/-! ## 2. Channel endpoints -/

theorem channel_create_char (hc : HConf) (healthy : Bool) (b : Broker) (rq : Request)
    (htls : hc.tlsRefuse = false) (hat : At rq "POST" "/channel/create") :
    ChannelEndpoint false (fun t c => getChannel b t c) b rq (handle hc healthy b rq) := by
  rw [handle_at hc healthy b rq _ _ .createChannel htls hat (by decide)]
  simp only [runHandler, doCreateChannel_shape]
  exact channelShape_char _ _ b rq

theorem channel_delete_char (hc : HConf) (healthy : Bool) (b : Broker) (rq : Request)
    (htls : hc.tlsRefuse = false) (hat : At rq "POST" "/channel/delete") :
    ChannelEndpoint true (fun t c => deleteChannel b t c) b rq (handle hc healthy b rq) := by
  rw [handle_at hc healthy b rq _ _ .deleteChannel htls hat (by decide)]
  simp only [runHandler, doDeleteChannel_shape]
  exact channelShape_char _ _ b rq

theorem channel_empty_char (hc : HConf) (healthy : Bool) (b : Broker) (rq : Request)
    (htls : hc.tlsRefuse = false) (hat : At rq "POST" "/channel/empty") :
    ChannelEndpoint true (fun t c => modifyChan b t c (fun x => { x with msgs := [] })) b rq
      (handle hc healthy b rq) := by
  rw [handle_at hc healthy b rq _ _ .emptyChannel htls hat (by decide)]
  simp only [runHandler, doEmptyChannel_shape]
  exact channelShape_char _ _ b rq

theorem channel_pause_char (hc : HConf) (healthy : Bool) (b : Broker) (rq : Request)
    (htls : hc.tlsRefuse = false) (hat : At rq "POST" "/channel/pause") :
    ChannelEndpoint true (fun t c => modifyChan b t c (fun x => { x with paused := true })) b rq
      (handle hc healthy b rq) := by
  rw [handle_at hc healthy b rq _ _ .pauseChannel htls hat (by decide)]
  simp only [runHandler, doPauseChannel_shape]
  have : isUnpause rq.path = false := by rw [hat.2]; decide
  simp only [this, Bool.not_false]
  exact channelShape_char _ _ b rq

theorem channel_unpause_char (hc : HConf) (healthy : Bool) (b : Broker) (rq : Request)
    (htls : hc.tlsRefuse = false) (hat : At rq "POST" "/channel/unpause") :
    ChannelEndpoint true (fun t c => modifyChan b t c (fun x => { x with paused := false })) b rq
      (handle hc healthy b rq) := by
  rw [handle_at hc healthy b rq _ _ .pauseChannel htls hat (by decide)]
  simp only [runHandler, doPauseChannel_shape]
  have : isUnpause rq.path = true := by rw [hat.2]; decide
  simp only [this, Bool.not_true]
  exact channelShape_char _ _ b rq

def brokerAC : Broker :=
  [{ name := ascii "a", paused := false, count := 0, msgs := [],
     chans := [{ name := ascii "c", paused := false, clients := 0, msgs := [⟨[1], 0⟩] }] }]

def brokerACEmptied : Broker :=
  [{ name := ascii "a", paused := false, count := 0, msgs := [],
     chans := [{ name := ascii "c", paused := false, clients := 0, msgs := [] }] }]

example : handle Examples.hconf true brokerAC ⟨ascii "POST", ascii "/channel/empty", ascii "topic=a&channel=c", 0, []⟩ =
    (⟨.s200, ""⟩, brokerACEmptied) := by decide
example : (handle Examples.hconf true brokerAC ⟨ascii "POST", ascii "/channel/pause", ascii "topic=a&channel=d", 0, []⟩).1 =
    ⟨.s404, "CHANNEL_NOT_FOUND"⟩ := by decide
example : (handle Examples.hconf true brokerAC ⟨ascii "POST", ascii "/channel/pause", ascii "topic=b&channel=c", 0, []⟩).1 =
    ⟨.s404, "TOPIC_NOT_FOUND"⟩ := by decide
example : (handle Examples.hconf true brokerAC ⟨ascii "POST", ascii "/channel/pause", ascii "topic=a", 0, []⟩).1 =
    ⟨.s400, "MISSING_ARG_CHANNEL"⟩ := by decide
example : (handle Examples.hconf true brokerAC ⟨ascii "POST", ascii "/channel/pause", ascii "topic=a&channel=%21", 0, []⟩).1 =
    ⟨.s400, "INVALID_ARG_CHANNEL"⟩ := by decide
example : GoodNames ⟨ascii "POST", ascii "/channel/pause", ascii "topic=a&channel=c", 0, []⟩ (ascii "a") (ascii "c") :=
  ⟨by decide, by decide, by decide, by decide⟩

/-! ## 3. `/pub`, `/stats`, the router and the 500 -/

theorem pub_char (hc : HConf) (healthy : Bool) (b : Broker) (rq : Request)
    (htls : hc.tlsRefuse = false) (hat : At rq "POST" "/pub") :
    PubEndpoint hc b rq (handle hc healthy b rq) := by
  rw [handle_at hc healthy b rq _ _ .pub htls hat (by decide)]
  exact doPUB_char hc b rq

/-- Which delays `/pub` accepts, exactly. -/
theorem pub_defer_exact (hc : HConf) (rq : Request) (ns : Int) :
    deferNs hc rq = some ns ↔ ¬ QueryBad rq ∧
      ((arg rq kDefer = none ∧ ns = 0) ∨
       ∃ d di, arg rq kDefer = some d ∧ parseInt64 d = some di ∧ 0 ≤ di ∧ di ≤ hc.maxReqTimeoutMs ∧
         ns = di * 1000000) :=
  deferNs_some_iff hc rq ns

theorem stats_char (hc : HConf) (healthy : Bool) (b : Broker) (rq : Request)
    (htls : hc.tlsRefuse = false) (hat : At rq "GET" "/stats") :
    (handle hc healthy b rq = (⟨.s400, "INVALID_REQUEST"⟩, b) ↔ QueryBad rq) ∧
    (handle hc healthy b rq = (⟨.s200, "*"⟩, b) ↔ ¬ QueryBad rq) := by
  rw [handle_at hc healthy b rq _ _ .stats htls hat (by decide)]
  exact doStats_char b rq

/-- 403 exactly when TLS is required and absent; 405 exactly when the path is registered for other
methods only (and the method is not OPTIONS). -/
theorem router_status_iff (hc : HConf) (healthy : Bool) (b : Broker) (rq : Request) :
    ((handle hc healthy b rq).1.status = .s403 ↔ hc.tlsRefuse = true) ∧
    ((handle hc healthy b rq).1.status = .s405 ↔
      hc.tlsRefuse = false ∧ route rq.method rq.path = .methodNotAllowed) := by
  have hd := handle_doc hc healthy b rq
  constructor
  · constructor
    · exact hd.s403
    · intro h; simp [handle, h, resp]
  · constructor
    · intro h
      refine ⟨?_, hd.s405 h⟩
      cases ht : hc.tlsRefuse
      · rfl
      · simp [handle, ht, resp] at h
    · intro ⟨h1, h2⟩; simp [handle, h1, h2, resp]

/-- No request is answered 500 BY THE MODEL while the daemon is healthy (claim audit 2, item 51: the former hypothesis
`Complete rq` was never used by the proof and is dropped — the model has no read-error branch at all, so the statement
holds for every model request and coincides with `C10.no_500`).  `Complete rq` (declared length = bytes that arrive, or
chunked; examples below) remains the NAMED EXCLUSION under which this model statement is claimed of the real server: the
real `/pub`, text `/mpub` and `PUT /config` answer 500 INTERNAL_ERROR when the body stops short of Content-Length
(nsqd/http.go, the `io.ReadAll` / `ReadBytes` error returns) — observed on the listener by the harness (`interrupted:*`
histogram), not modelled. -/
theorem no_500_complete (hc : HConf) (b : Broker) (rq : Request) :
    (handle hc true b rq).1.status ≠ .s500 := by
  intro h
  have := (handle_doc hc true b rq).s500 h
  simp at this

example : Complete ⟨ascii "POST", ascii "/pub", ascii "topic=t", 3, [1, 2, 3]⟩ := Or.inl rfl
example : ¬ Complete ⟨ascii "POST", ascii "/pub", ascii "topic=t", 5, [1, 2, 3]⟩ := by
  unfold Complete; simp
example : (handle Examples.hconf true [] ⟨ascii "POST", ascii "/pub", ascii "topic=t&defer=90000", 3, [1, 2, 3]⟩) =
    (⟨.s200, "OK"⟩, publish [] (ascii "t") [⟨[1, 2, 3], 90000000000⟩]) := by decide
example : (handle Examples.hconf true [] ⟨ascii "POST", ascii "/pub", ascii "topic=t&defer=90001", 3, [1, 2, 3]⟩) =
    (⟨.s400, "INVALID_DEFER"⟩, getTopic [] (ascii "t")) := by decide
example : deferNs Examples.hconf ⟨ascii "POST", ascii "/pub", ascii "topic=t&defer=7", 3, [1, 2, 3]⟩ = some 7000000 := by decide
example : (handle { Examples.hconf with tlsRefuse := true } true [] ⟨ascii "GET", ascii "/ping", [], 0, []⟩).1.status = .s403 := by
  decide
example : route (ascii "GET") (ascii "/pub") = .methodNotAllowed := by decide

/-! ## 4. Text `/mpub` against binary `/mpub` / TCP `MPUB` (B15) -/

/-- **Exact acceptance of text mode.** With a valid topic, text mode and a declared length not above
max-body-size: 200 ⇔ the body is within max-body-size and every non-empty line within max-msg-size; the
queue then receives exactly the non-empty lines; otherwise 413 (`MSG_TOO_BIG` or `BODY_TOO_BIG`) with
the topic created and nothing enqueued. -/
theorem mpub_text_exact (hc : HConf) (h0 : 0 ≤ hc.maxBodySize) (b : Broker) (rq : Request) (kv : List (Bytes × Bytes))
    (t : Bytes) (hq : parseQuery rq.rawQuery = some kv) (ht : qget kv kTopic = some t)
    (htext : binaryMode kv = false) (hv : isValidName t = true) (hcl : ¬ rq.contentLength > hc.maxBodySize) :
    ((doMPUB hc b rq).1.status = .s200 ↔ TextAccepts hc rq.body) ∧
    (TextAccepts hc rq.body → doMPUB hc b rq = (⟨.s200, "OK"⟩, publish b t (toMsgs (Mpub.textBlocks rq.body)))) ∧
    (¬ TextAccepts hc rq.body → (doMPUB hc b rq).1.status = .s413 ∧ (doMPUB hc b rq).2 = getTopic b t ∧
      ((doMPUB hc b rq).1.msg = "MSG_TOO_BIG" ∨ (doMPUB hc b rq).1.msg = "BODY_TOO_BIG")) :=
  doMPUB_text_iff hc h0 b rq kv t hq ht htext hv hcl

/-- **Exact divergence, direction 1**: a body text mode accepts is accepted by TCP `MPUB` (= binary
`/mpub`) of its lines exactly when there is at least one line, at most (max-body-size − 4)/5 of them, and
the framed batch (4 + Σ (4 + len)) fits max-body-size. In every other case text answers 200 and TCP
answers `E_BAD_BODY`. When both accept, the queues are identical. -/
theorem mpub_text_vs_tcp (conf : Conf) (hc : HConf) (hl : Linked conf hc) (s : ConnState) (b : Broker)
    (cmd t : Bytes) (tl : List Bytes) (body : Bytes) (hv : isValidName t = true)
    (hacc : TextAccepts hc body) (hlen : (Mpub.encode (Mpub.textBlocks body)).length < 2147483648) :
    let ms := Mpub.textBlocks body
    let tcp := mpub conf s b (cmd :: t :: tl) (mwire (Mpub.encode ms))
    (tcp.reply = some .ok ↔
      ms ≠ [] ∧ (ms.length : Int) ≤ Mpub.maxMessages conf.maxBodySize ∧
        ((Mpub.encode ms).length : Int) ≤ conf.maxBodySize) ∧
    (tcp.reply = some .ok → tcp.broker = publish b t (toMsgs ms)) ∧
    (tcp.reply ≠ some .ok → tcp.reply = some (.err .E_BAD_BODY)) := by
  intro ms tcp
  have heach : ∀ m ∈ ms, BodyOk conf.maxMsgSize m := by
    intro m hm
    refine ⟨textBlocks_nonempty body m hm, ?_⟩
    rw [← hl.msg]; exact hacc.lines m hm
  by_cases hgood : ms ≠ [] ∧ (ms.length : Int) ≤ Mpub.maxMessages conf.maxBodySize ∧
      ((Mpub.encode ms).length : Int) ≤ conf.maxBodySize
  · have hacc' := tcp_accepts conf s b cmd t tl ms hl.auth hv hlen ⟨hgood.1, heach, hgood.2.1, hgood.2.2⟩
    exact ⟨⟨fun _ => hgood, fun _ => hacc'.1⟩, fun _ => hacc'.2, fun h => absurd hacc'.1 h⟩
  · have hbad : ms = [] ∨ (ms.length : Int) > Mpub.maxMessages conf.maxBodySize ∨
        ((Mpub.encode ms).length : Int) > conf.maxBodySize := by
      by_cases h1 : ms = []
      · exact Or.inl h1
      · by_cases h2 : (ms.length : Int) > Mpub.maxMessages conf.maxBodySize
        · exact Or.inr (Or.inl h2)
        · right; right
          have h3 : ¬ (((Mpub.encode ms).length : Int) ≤ conf.maxBodySize) := fun h3 => hgood ⟨h1, by omega, h3⟩
          omega
    have href := tcp_refuses conf s b cmd t tl ms hl.auth hv hlen hbad
    refine ⟨⟨fun h => ?_, fun h => absurd h hgood⟩, fun h => ?_, fun _ => href⟩
    · rw [href] at h; cases h
    · rw [href] at h; cases h

/-- **Exact divergence, direction 2**: a batch TCP accepts is refused by text mode exactly when the text
body (lines plus any number of empty lines / newlines) is longer than max-body-size. -/
theorem mpub_tcp_vs_text (conf : Conf) (hc : HConf) (hl : Linked conf hc) (h0 : 0 ≤ hc.maxBodySize) (b : Broker)
    (rq : Request) (kv : List (Bytes × Bytes)) (t : Bytes)
    (hq : parseQuery rq.rawQuery = some kv) (ht : qget kv kTopic = some t)
    (htext : binaryMode kv = false) (hv : isValidName t = true) (hcl : ¬ rq.contentLength > hc.maxBodySize)
    (hbin : BinAccepts conf (Mpub.textBlocks rq.body)) :
    ((doMPUB hc b rq).1.status = .s200 ↔ (rq.body.length : Int) ≤ hc.maxBodySize) := by
  rw [(doMPUB_text_iff hc h0 b rq kv t hq ht htext hv hcl).1]
  constructor
  · exact fun h => h.size
  · intro h
    exact ⟨h, fun l hl' => by rw [hl.msg]; exact (hbin.each l hl').2⟩

/-- The literal clause "text /mpub and TCP MPUB apply the same size limits": whenever one accepts a
list of messages, so does the other. -/
def SameLimitsText : Prop :=
  ∀ (conf : Conf) (hc : HConf), Linked conf hc → ∀ (body : Bytes),
    ((doMPUB hc [] ⟨ascii "POST", ascii "/mpub", ascii "topic=t", body.length, body⟩).1.status = .s200 ↔
     (mpub conf Examples.conn [] [ascii "MPUB", ascii "t"] (mwire (Mpub.encode (Mpub.textBlocks body)))).reply = some .ok)

def conf20 : Conf := { Nsq.Proofs.ProtoV2.Examples.conf with maxBodySize := 20 }

theorem linked20 : Linked conf20 Examples.hconf := ⟨rfl, rfl, by decide, rfl, by decide, by decide, by decide⟩

/-- ten one-byte lines: 19 bytes of text, 54 bytes framed -/
def tenLines : Bytes := [97, 10, 97, 10, 97, 10, 97, 10, 97, 10, 97, 10, 97, 10, 97, 10, 97, 10, 97]

/-- … and it is false: under max-body-size 20, ten one-byte lines (19 bytes) are accepted by text mode
and refused by TCP MPUB (count 10 > (20 − 4)/5 = 3; 54 framed bytes > 20). This is the line-oriented
format's design, documented, not repaired. -/
theorem same_limits_text_full_false : ¬ SameLimitsText := by
  intro h
  have h1 := (h conf20 Examples.hconf linked20 tenLines).mp (by decide)
  have h2 := tcp_refuses conf20 Examples.conn [] (ascii "MPUB") (ascii "t") [] (Mpub.textBlocks tenLines) rfl
    (by decide) (by decide) (Or.inr (Or.inl (by decide)))
  rw [h2] at h1
  cases h1

example : Mpub.textBlocks tenLines = List.replicate 10 [97] := by decide
example : TextAccepts Examples.hconf tenLines := ⟨by decide, by decide⟩
-- the empty body: text answers 200 and publishes nothing, TCP refuses an empty batch
example : doMPUB Examples.hconf [] ⟨ascii "POST", ascii "/mpub", ascii "topic=t", 0, []⟩ =
    (⟨.s200, "OK"⟩, publish [] (ascii "t") []) := by decide
example : (mpub conf20 Examples.conn [] [ascii "MPUB", ascii "t"] (mwire (Mpub.encode []))).reply =
    some (.err .E_BAD_BODY) :=
  tcp_refuses conf20 Examples.conn [] (ascii "MPUB") (ascii "t") [] [] rfl (by decide) (by decide) (Or.inl rfl)
-- direction 2: one message padded with newlines beyond max-body-size
example : (doMPUB Examples.hconf [] ⟨ascii "POST", ascii "/mpub", ascii "topic=t", 21,
    97 :: List.replicate 20 10⟩).1 = ⟨.s413, "BODY_TOO_BIG"⟩ := by decide
example : Mpub.textBlocks (97 :: List.replicate 20 10) = [[97]] := by decide
example : BinAccepts conf20 [[97]] :=
  ⟨by decide, fun m hm => by simp at hm; subst hm; exact ⟨by decide, by decide⟩, by decide, by decide⟩

/-! ## 5. How much of the body a handler reads (B16, fix F33) -/

/-- After F33 no handler of nsqd's own reads more than max(max-msg-size, max-body-size)+1 bytes of the
request body, whatever the request. -/
theorem body_read_bounded (hc : HConf) (rq : Request) : (bodyRead hc rq).within (readLimit hc) := by
  unfold bodyRead readOf readLimit
  split
  · simp [Read.within]
  · split
    · split
      · trivial
      · unfold handlerRead
        simp only [Bool.false_and, Bool.false_eq_true, if_false]
        repeat' split
        all_goals simp only [Read.within, Nat.zero_le]
        all_goals omega
    all_goals simp [Read.within]

/-- The admin endpoints and `/stats` read nothing of the body: their answer cannot depend on it. -/
theorem admin_reads_no_body (hc : HConf) (rq : Request) (name : String) (d : Deco)
    (htls : hc.tlsRefuse = false) (hr : routeFull rq.method rq.path = .handler name d) (hd : d ≠ .raw)
    (hn : name ≠ "doPUB" ∧ name ≠ "doMPUB" ∧ name ≠ "doConfig") :
    bodyRead hc rq = .exact 0 := by
  unfold bodyRead readOf
  simp only [htls, Bool.false_eq_true, if_false, hr, hd, handlerRead, hn.1, hn.2.1, hn.2.2]
  split <;> simp

/-- … and their model answer is indeed independent of body and declared length. -/
theorem admin_answer_ignores_body (hc : HConf) (healthy : Bool) (b : Broker) (rq : Request) (cl : Int) (body : Bytes)
    (h : Handler) (hadmin : h ≠ .pub ∧ h ≠ .mpub ∧ h ≠ .config) :
    runHandler hc healthy b { rq with contentLength := cl, body := body } h = runHandler hc healthy b rq h := by
  cases h <;> first | rfl | simp at hadmin

/-- Before F33 the bound was false: a `POST /topic/pause?topic=t` with a body of any length had all of it
read into memory (`io.ReadAll` in `http_api.NewReqParams`). -/
theorem body_read_bounded_false_before_F33 :
    ¬ ∀ (hc : HConf) (rq : Request), (bodyReadOld hc rq).within (readLimit hc) := by
  intro h
  have := h Examples.hconf ⟨ascii "POST", ascii "/topic/pause", ascii "topic=t", 100, List.replicate 100 120⟩
  revert this
  decide

example : bodyRead Examples.hconf ⟨ascii "POST", ascii "/topic/pause", ascii "topic=t", 100, List.replicate 100 120⟩ = .exact 0 := by
  decide
example : bodyReadOld Examples.hconf ⟨ascii "POST", ascii "/topic/pause", ascii "topic=t", 100, List.replicate 100 120⟩ = .exact 100 := by
  decide
example : bodyRead Examples.hconf ⟨ascii "POST", ascii "/pub", ascii "topic=t", -1, List.replicate 100 120⟩ = .exact 9 := by
  decide
example : bodyRead Examples.hconf ⟨ascii "POST", ascii "/mpub", ascii "topic=t", -1, List.replicate 100 120⟩ = .atMost 21 := by
  decide
example : readLimit Examples.hconf = 21 := by decide
example : routeFull (ascii "GET") (ascii "/stats") = .handler "doStats" .v1 := by decide

end Nsq.Props.C10Char
