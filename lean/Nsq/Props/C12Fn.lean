import Nsq.Props.C12
import Nsq.Tie.GuidHex
/-!
# C12 — the id text, stated on the TRANSLATED `guid.Hex()`

`Nsq.Props.C12.hex_*` are about the model `Nsq.Model.Guid.hex`. Here the same facts are stated on
the definition the translator re-derives from nsqd/guid.go on every run
(`Nsq.Gen.GuidHexFn.guidHex`), through `Nsq.Tie.GuidHex.guidHex_eq`.
-/
namespace Nsq.Props.C12Fn
open Nsq.Model.ByteOps Nsq.Model.Guid Nsq.Gen.GuidHexFn

/-- The translated `Hex()` never panics and yields 16 characters of `[0-9a-f]`, for every int64. -/
theorem translated_hex_shape (g : BitVec 64) :
    ∃ h, guidHex g = .ret h ∧ h.length = 16 ∧
      ∀ c ∈ h, (48 ≤ c.toNat ∧ c.toNat ≤ 57) ∨ (97 ≤ c.toNat ∧ c.toNat ≤ 102) :=
  ⟨hex g, Nsq.Tie.GuidHex.guidHex_eq g, Nsq.Props.C12.hex_length g, Nsq.Props.C12.hex_charset g⟩

/-- Different ids never share a text: the translated `Hex()` is injective. -/
theorem translated_hex_injective (a b : BitVec 64) (h : guidHex a = guidHex b) : a = b := by
  rw [Nsq.Tie.GuidHex.guidHex_eq, Nsq.Tie.GuidHex.guidHex_eq] at h
  exact Nsq.Props.C12.hex_injective a b (by simpa using h)

/-- The texts of the ids handed out by one factory (any start state, any clock readings), as the
translated `Hex()` renders them, are pairwise different. -/
theorem translated_hex_ids_nodup (f : St) (clock : List (BitVec 64)) :
    ((run f clock).map guidHex).Nodup := by
  have h := Nsq.Props.C12.ids_nodup f clock
  unfold List.Nodup at h ⊢
  rw [List.pairwise_map]
  exact List.Pairwise.imp (fun {a b} hne heq => hne (translated_hex_injective a b heq)) h

/-! non-vacuity -/
example : guidHex 255#64 = .ret [48, 48, 48, 48, 48, 48, 48, 48, 48, 48, 48, 48, 48, 48, 102, 102] := by decide
example := translated_hex_shape (-2#64)
example : guidHex 1#64 ≠ guidHex 2#64 := fun h => absurd (translated_hex_injective _ _ h) (by decide)
example := translated_hex_ids_nodup Nsq.Props.C12.demoSt Nsq.Props.C12.demoClock

end Nsq.Props.C12Fn
