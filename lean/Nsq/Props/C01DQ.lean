import Nsq.Proofs.BackedQueue
import Nsq.Proofs.ChanInv
import Nsq.Props.E9DiskQueue
/-
C01 × E9 — the queue of one channel / topic with the REAL backend: a bounded memory queue
(`memoryMsgChan`) in front of the go-diskqueue model (`Model/BackedQueue.lean`).

`C01.ledger` counts message ids of the E2 model, whose queue is two numbers (`memLen`, `dqLen`).
Here the same queue holds byte strings: every history of puts / receives from either side /
`Close`+`New` cycles / `Empty` keeps every accepted record in exactly one place, byte-identical — an
overflow to disk and the way back neither lose, duplicate nor invent a message
(`overflow_keeps_multiset`); each of the two queues is FIFO, their union is not
(`each_queue_is_fifo`, `global_fifo_full_false`, `mem_queue_size_zero_is_fifo`); the two E2 counters
are exactly the two lengths and E2's rule "`memLen < memCap` ? memory : disk" is `BackedQueue.put`
(`counters_refine_E2`); a record the backend refuses is in neither queue (`invalid_size_put_drops`).
-/
namespace Nsq.Props.C01DQ
open Nsq.Model Nsq.Model.Wire
open Nsq.Model.BackedQueue (BQ PutOut Op Run stepRun run fresh openBQ)
open Nsq.Model.DiskQueue (St Cfg FS PutRes openQ)
open Nsq.Proofs.DiskQueue Nsq.Proofs.BackedQueue
open Nsq.Props.E9DiskQueue (cfgW cfgW_ok ra rb rc)

/-- 1. THE LEDGER OF BYTES.  After every history from a fresh data path (puts of any records, receives
from the memory queue and from the backend interleaved arbitrarily, `Channel.Close` + `NewChannel` cycles,
`Empty`) the backend is a healthy FIFO holding some `disk`, the memory queue respects its capacity, and
as MULTISETS

  records handed to a pump ++ dropped by `Empty` (memory, disk) ++ lost in a `flush` ++ memory ++ disk
      = records accepted (`put` returned nil).

Nothing else: no record is lost, duplicated or invented when it overflows to disk and comes back.
Without `Empty` in the history the two `Empty` terms are empty; when every record put has a size the
backend accepts (always, for encoded messages within `--max-msg-size`: tie of the `diskqueue.New`
bounds) nothing is refused or lost in a flush and EVERY put is accepted. -/
theorem overflow_keeps_multiset (cfg : Cfg) (hok : CfgOk cfg) (memCap : Nat) (ops : List Op) :
    ∃ disk gone, Inv (run memCap cfg ops).q disk ∧ (run memCap cfg ops).q.mem.length ≤ memCap ∧
      ((run memCap cfg ops).taken ++ ((run memCap cfg ops).emptiedMem ++ (gone ++ ((run memCap cfg ops).flushLost ++
          ((run memCap cfg ops).q.mem ++ disk))))).Perm (run memCap cfg ops).accepted ∧
      ((∀ o ∈ ops, o ≠ .empty) → gone = [] ∧ (run memCap cfg ops).emptiedMem = []) ∧
      ((∀ b, Op.put b ∈ ops → ValidRec cfg b) →
        (run memCap cfg ops).refused = [] ∧ (run memCap cfg ops).flushLost = [] ∧
        (run memCap cfg ops).accepted = putsOf ops) := by
  by_cases hv : ∀ b, Op.put b ∈ ops → ValidRec cfg b
  · obtain ⟨d, g, hl, e1, e2, e3, e4⟩ := clean_foldl cfg hok memCap ops hv (fresh memCap cfg) [] []
      (ledger_fresh cfg hok memCap) (fun b hb => absurd hb (by show ¬ b ∈ ([] : List Bytes); simp))
    exact ⟨d, g, hl.inv, hl.bound, hl.perm, e1, fun _ => ⟨e2, e3, by show (ops.foldl (stepRun cfg) (fresh memCap cfg)).accepted = _; rw [e4]; rfl⟩⟩
  · obtain ⟨d, g, hl, e1⟩ := ledger_run cfg hok memCap ops
    refine ⟨d, g, hl.inv, hl.bound, hl.perm, ?_, fun h => absurd h hv⟩
    intro hne
    refine ⟨e1 hne, ?_⟩
    -- `emptiedMem` only grows in an `Empty`
    have gen : ∀ (ops : List Op) (r : Run), (∀ o ∈ ops, o ≠ .empty) →
        (ops.foldl (stepRun cfg) r).emptiedMem = r.emptiedMem := by
      intro ops
      induction ops with
      | nil => intro r _; rfl
      | cons o ops ih =>
        intro r hall
        simp only [List.foldl_cons]
        rw [ih _ (fun x hx => hall x (by simp [hx]))]
        cases o with
        | put b => rw [stepRun_put]; split <;> rfl
        | takeMem => rw [stepRun_takeMem]; split <;> rfl
        | takeDisk => rw [stepRun_takeDisk]; split <;> rfl
        | restart => rfl
        | empty => exact absurd rfl (hall .empty (by simp))
    exact gen ops _ hne

/-- consequences, spelled out: a record handed to a pump is byte-identical to a record that was accepted,
and no record is handed out more often than it was accepted (no invention, no duplication) … -/
theorem taken_at_most_as_often_as_put (cfg : Cfg) (hok : CfgOk cfg) (memCap : Nat) (ops : List Op) (b : Bytes) :
    (run memCap cfg ops).taken.count b ≤ (run memCap cfg ops).accepted.count b ∧
    (b ∈ (run memCap cfg ops).taken → b ∈ (run memCap cfg ops).accepted) ∧
    (b ∈ (run memCap cfg ops).accepted → Op.put b ∈ ops) := by
  obtain ⟨d, g, _, _, hp, _, _⟩ := overflow_keeps_multiset cfg hok memCap ops
  refine ⟨?_, ?_, ?_⟩
  · rw [← hp.count_eq b, List.count_append]; omega
  · intro hb; exact hp.subset (List.mem_append_left _ hb)
  · -- accepted records are records of `put` operations
    have gen : ∀ (ops : List Op) (r : Run), b ∈ (ops.foldl (stepRun cfg) r).accepted → b ∈ r.accepted ∨ Op.put b ∈ ops := by
      intro ops
      induction ops with
      | nil => intro r h; exact Or.inl h
      | cons o ops ih =>
        intro r h
        simp only [List.foldl_cons] at h
        cases ih _ h with
        | inr h1 => exact Or.inr (List.mem_cons_of_mem _ h1)
        | inl h1 =>
          cases o with
          | put x =>
            rw [stepRun_put] at h1
            split at h1
            · replace h1 : b ∈ r.accepted ++ [x] := h1
              rw [List.mem_append] at h1
              cases h1 with
              | inl h2 => exact Or.inl h2
              | inr h2 => simp only [List.mem_singleton] at h2; rw [h2]; exact Or.inr (by simp)
            · exact Or.inl h1
          | takeMem => rw [stepRun_takeMem] at h1; split at h1 <;> exact Or.inl h1
          | takeDisk => rw [stepRun_takeDisk] at h1; split at h1 <;> exact Or.inl h1
          | restart => exact Or.inl h1
          | empty => exact Or.inl h1
    intro hb
    cases gen ops _ hb with
    | inl h => exact absurd h (by show ¬ b ∈ ([] : List Bytes); simp)
    | inr h => exact h

/-- … and nothing accepted disappears: an accepted record of a history without `Empty` and with valid sizes
that was not handed out yet is still in the memory queue or on disk (no loss) -/
theorem accepted_is_taken_or_queued (cfg : Cfg) (hok : CfgOk cfg) (memCap : Nat) (ops : List Op)
    (hne : ∀ o ∈ ops, o ≠ .empty) (hv : ∀ b, Op.put b ∈ ops → ValidRec cfg b) (b : Bytes) (hb : Op.put b ∈ ops) :
    ∃ disk, Inv (run memCap cfg ops).q disk ∧
      (b ∈ (run memCap cfg ops).taken ∨ b ∈ (run memCap cfg ops).q.mem ∨ b ∈ disk) := by
  obtain ⟨d, g, hi, _, hp, e1, e2⟩ := overflow_keeps_multiset cfg hok memCap ops
  obtain ⟨g0, m0⟩ := e1 hne
  obtain ⟨_, f0, a0⟩ := e2 hv
  refine ⟨d, hi, ?_⟩
  have : b ∈ (run memCap cfg ops).accepted := by rw [a0]; exact putsOf_mem.2 hb
  have := hp.symm.subset this
  rw [g0, m0, f0] at this
  simpa using this

/-- the ORDER facts that hold: each of the two queues is FIFO.  `put` appends at the END of the memory
queue when it has room, else at the END of the disk queue; `takeMem` removes the HEAD of the memory
queue, `takeDisk` the HEAD of the disk queue (byte-identical); neither touches the other queue -/
theorem each_queue_is_fifo (q : BQ) (disk : List Bytes) (h : Inv q disk) :
    (∀ b, q.mem.length < q.memCap →
      BackedQueue.put q b = (.mem, { q with mem := q.mem ++ [b] })) ∧
    (∀ b, ¬ q.mem.length < q.memCap → ValidRec q.dq.cfg b →
      (BackedQueue.put q b).1 = .backend .ok ∧ (BackedQueue.put q b).2.mem = q.mem ∧ Inv (BackedQueue.put q b).2 (disk ++ [b])) ∧
    (∀ b rest, q.mem = b :: rest → BackedQueue.takeMem q = (some b, { q with mem := rest })) ∧
    (q.mem = [] → BackedQueue.takeMem q = (none, q)) ∧
    (∀ d rest, disk = d :: rest →
      (BackedQueue.takeDisk q).1 = some d ∧ (BackedQueue.takeDisk q).2.mem = q.mem ∧ Inv (BackedQueue.takeDisk q).2 rest) ∧
    (disk = [] → BackedQueue.takeDisk q = (none, q)) := by
  refine ⟨fun b hm => put_mem q b hm, fun b hm hv => ?_, fun b rest hm => takeMem_cons q b rest hm,
    fun hm => takeMem_nil q hm, fun d rest hd => ?_, fun hd => ?_⟩
  · obtain ⟨a1, a2, _, a4⟩ := put_disk_ok h b hm hv
    exact ⟨a1, a2, a4⟩
  · rw [hd] at h
    obtain ⟨a1, a2, _, a4⟩ := takeDisk_cons h
    exact ⟨a1, a2, a4⟩
  · rw [hd] at h
    exact takeDisk_nil h

/-- the order fact that does NOT hold: "records are handed out in the order they were accepted" -/
def global_fifo_full : Prop :=
  ∀ (cfg : Cfg), CfgOk cfg → ∀ (memCap : Nat) (ops : List Op), (∀ b, Op.put b ∈ ops → ValidRec cfg b) →
    (run memCap cfg ops).taken <+: (run memCap cfg ops).accepted

/-- tiny witness: capacity 1, put a (memory), put b (disk), a pump's `select` takes the backend case first -/
theorem global_fifo_full_false : ¬ global_fifo_full := by
  intro h
  have := h cfgW cfgW_ok 1 [.put ra, .put rb, .takeDisk] (by
    intro b hb
    simp only [List.mem_cons, Op.put.injEq, List.not_mem_nil, or_false, reduceCtorEq] at hb
    cases hb with
    | inl e => rw [e]; decide
    | inr e => rw [e]; decide)
  have e : (run 1 cfgW [.put ra, .put rb, .takeDisk]).taken = [rb] ∧
      (run 1 cfgW [.put ra, .put rb, .takeDisk]).accepted = [ra, rb] := by decide
  rw [e.1, e.2] at this
  exact absurd this (by decide)

/-- … it does hold with `--mem-queue-size 0` ("avoid memory chan, for more consistent ordering",
`Topic.put`): then, in a history without `Empty`, the records handed out are exactly a prefix of the records
accepted and the rest is the disk queue, in order -/
theorem mem_queue_size_zero_is_fifo (cfg : Cfg) (hok : CfgOk cfg) (ops : List Op) (hne : ∀ o ∈ ops, o ≠ .empty) :
    ∃ disk, Inv (run 0 cfg ops).q disk ∧ (run 0 cfg ops).q.mem = [] ∧
      (run 0 cfg ops).accepted = (run 0 cfg ops).taken ++ disk := by
  obtain ⟨d, g, hl, he⟩ := zero_mem_fifo_foldl cfg hok ops hne (fresh 0 cfg) [] [] (ledger_fresh cfg hok 0) rfl
  exact ⟨d, hl.inv, List.eq_nil_of_length_eq_zero (Nat.le_zero.1 hl.bound), he⟩

/-- 2. THE E2 COUNTERS ARE THESE TWO LENGTHS.  One step: for a channel queue `q` (backend holding `disk`) and
an E2 channel `c` with `memLen = |mem|`, `dqLen = |disk|` (`CntRel`), every queue operation is matched by
the counter updates of the E2 model, re-establishing the relation:
* `put` (valid record) ↔ `Chan.enqueue` — E2's rule "`memLen < memCap` ? memory : disk" IS `BackedQueue.put`;
* a receive ↔ the update of `Chan.doDeliver` (and `sampleDrop`), `e2Take` = "`memLen > 0` ? memory : disk";
  when the pump's `select` took the backend case although the memory queue was not empty, followed by
  the E2 operation `resplit` (the observation of the runtime's choice);
* `Empty` ↔ E2 `empty`; `Close` + `New` ↔ `resplit 0 (memLen + dqLen)` (the flush).
`dqLen` is the backend's `Depth()` and `memLen + dqLen` is `Channel.Depth()`. -/
theorem counters_refine_E2 (conf : Chan.Conf) (cfg : Cfg) (memCap : Nat) (r : Run) (disk gone : List Bytes)
    (h : Ledger cfg memCap r disk gone) (hc : Clean cfg r) (c : Chan.Chan) (hr : CntRel r.q disk c) :
    ((c.dqLen : Int) = r.q.dq.depth ∧ BackedQueue.depth r.q = ((c.memLen + c.dqLen : Nat) : Int)) ∧
    (∀ o, (∀ b, o = .put b → ValidRec cfg b) →
      CntRel (stepRun cfg r o).q (specDisk cfg r disk o) (e2Step conf r c o)) ∧
    (∀ b, ((BackedQueue.put r.q b).1 = .mem ↔ c.memLen < c.memCap) ∧
      ((Chan.enqueue c 0).memLen = c.memLen + 1 ↔ c.memLen < c.memCap)) ∧
    (∀ cl k id now a, (Chan.doDeliver c cl k id now).2 = .msg a →
      (Chan.doDeliver c cl k id now).1.memLen = (e2Take c).memLen ∧
      (Chan.doDeliver c cl k id now).1.dqLen = (e2Take c).dqLen) := by
  have hd := depth_Q h.inv
  obtain ⟨r1, r2, r3, r4⟩ := hr
  refine ⟨⟨by rw [hd, r2], ?_⟩, fun o hv => cnt_step h hc conf c ⟨r1, r2, r3, r4⟩ o hv, fun b => ⟨?_, ?_⟩,
    fun cl k id now a ha => ?_⟩
  · show (r.q.mem.length : Int) + r.q.dq.depth = _
    rw [hd, r1, r2]; simp
  · by_cases hm : r.q.mem.length < r.q.memCap
    · rw [put_mem r.q b hm]
      exact ⟨fun _ => by rw [r1, r3]; exact hm, fun _ => rfl⟩
    · rw [put_full r.q b hm]
      refine ⟨fun hh => ?_, fun hh => ?_⟩
      · exact absurd hh (by simp)
      · rw [r1, r3] at hh; exact absurd hh hm
  · obtain ⟨e1, _⟩ := enqueue_counters c 0 r4
    rw [e1]
    by_cases hm : c.memLen < c.memCap
    · rw [if_pos hm]; exact ⟨fun _ => hm, fun _ => rfl⟩
    · rw [if_neg hm]; exact ⟨fun hh => by omega, fun hh => absurd hh hm⟩
  · obtain ⟨a1, a2, _, _⟩ := doDeliver_counters c cl k id now a ha
    exact ⟨a1, a2⟩

/-- whole histories: after ANY history of valid-size records the E2 counters (run alongside: `e2Run`) are
`memLen = len(memoryMsgChan)` and `dqLen = backend.Depth()` = the number of records on disk -/
theorem counters_refine_E2_run (conf : Chan.Conf) (cfg : Cfg) (hok : CfgOk cfg) (memCap : Nat) (ops : List Op)
    (hv : ∀ b, Op.put b ∈ ops → ValidRec cfg b) :
    ∃ disk, Inv (run memCap cfg ops).q disk ∧
      (e2Run conf cfg (fresh memCap cfg) { memCap := memCap } ops).memLen = (run memCap cfg ops).q.mem.length ∧
      (e2Run conf cfg (fresh memCap cfg) { memCap := memCap } ops).dqLen = disk.length ∧
      ((e2Run conf cfg (fresh memCap cfg) { memCap := memCap } ops).dqLen : Int) = (run memCap cfg ops).q.dq.depth ∧
      (e2Run conf cfg (fresh memCap cfg) { memCap := memCap } ops).memLen ≤ memCap := by
  obtain ⟨d, g, hl, hr⟩ := cnt_foldl cfg hok memCap conf ops hv (fresh memCap cfg) [] [] (ledger_fresh cfg hok memCap)
    (fun b hb => absurd hb (by show ¬ b ∈ ([] : List Bytes); simp)) { memCap := memCap } ⟨rfl, rfl, rfl, rfl⟩
  obtain ⟨r1, r2, _, _⟩ := hr
  refine ⟨d, hl.inv, r1, r2, ?_, ?_⟩
  · rw [r2]; exact (depth_Q hl.inv).symm
  · rw [r1]; exact hl.bound

/-- link to `C01.ledger` / the E2 invariant (`C02.reachable_inv : Reachable conf c → Inv 0 c`): the number
of `queued` entries of the E2 channel = the number of byte strings in memory and on disk -/
theorem queued_entries_are_the_records (q : BQ) (disk : List Bytes) (c : Chan.Chan) (hi : Nsq.Proofs.Chan.Inv 0 c)
    (hr : CntRel q disk c) : Chan.nQueued c.msgs = (q.mem ++ disk).length := by
  have := hi.counts
  rw [List.length_append, ← hr.1, ← hr.2.1]
  omega

/-- 3. WHEN THE BACKEND REFUSES THE RECORD (size outside `[minMsgSize, maxMsgSize]` of `diskqueue.New`): with
the memory queue full, `put` returns the backend's error, and the record is in NEITHER queue — both are
exactly as before (`Channel.put` returns the error; `Topic.messagePump` only logs it: for that channel the
message is gone).  Cannot happen for an encoded message within `--max-msg-size` (tie of the bounds). -/
theorem invalid_size_put_drops (q : BQ) (disk : List Bytes) (h : Inv q disk) (b : Bytes)
    (hm : ¬ q.mem.length < q.memCap) (hv : ¬ ValidRec q.dq.cfg b) :
    (BackedQueue.put q b).1 = .backend .invalid ∧ (BackedQueue.put q b).2.mem = q.mem ∧
      Inv (BackedQueue.put q b).2 disk := by
  obtain ⟨a1, a2, _, a4⟩ := put_disk_invalid h b hm hv
  exact ⟨a1, a2, a4⟩

/-- "a `put` always lands in one of the two queues" -/
def put_never_drops_full : Prop :=
  ∀ (q : BQ) (disk : List Bytes) (b : Bytes), Inv q disk →
    ∃ disk', Inv (BackedQueue.put q b).2 disk' ∧ ((BackedQueue.put q b).2.mem ++ disk').Perm (b :: (q.mem ++ disk))

/-- TRUE for records of valid size: the record is afterwards in exactly one of the queues and nothing else moved -/
theorem put_never_drops_partial (q : BQ) (disk : List Bytes) (b : Bytes) (h : Inv q disk) (hv : ValidRec q.dq.cfg b) :
    ((BackedQueue.put q b).1 = .mem ∨ (BackedQueue.put q b).1 = .backend .ok) ∧
    ∃ disk', Inv (BackedQueue.put q b).2 disk' ∧ ((BackedQueue.put q b).2.mem ++ disk').Perm (b :: (q.mem ++ disk)) := by
  by_cases hm : q.mem.length < q.memCap
  · rw [put_mem q b hm]
    refine ⟨Or.inl rfl, disk, h, ?_⟩
    show ((q.mem ++ [b]) ++ disk).Perm _
    rw [List.append_assoc]
    exact (List.perm_middle (l₁ := q.mem) (l₂ := disk) (a := b))
  · obtain ⟨a1, a2, _, a4⟩ := put_disk_ok h b hm hv
    refine ⟨Or.inr a1, disk ++ [b], a4, ?_⟩
    rw [a2, ← List.append_assoc]
    exact (List.perm_append_comm (l₁ := q.mem ++ disk) (l₂ := [b]))

/-- FALSE without the size hypothesis: `--mem-queue-size 0`, a record shorter than `minMsgSize` -/
theorem put_never_drops_full_false : ¬ put_never_drops_full := by
  intro h
  obtain ⟨d', hi, hp⟩ := h (openBQ 0 cfgW FS.empty) [] [] (fresh_inv 0 cfgW cfgW_ok)
  obtain ⟨_, a2, _, a4⟩ := put_disk_invalid (fresh_inv 0 cfgW cfgW_ok) [] (by decide) (by
    show ¬ ValidRec (openQ cfgW FS.empty).cfg []
    rw [openQ_cfg]; decide)
  have l1 := depth_Q hi
  have l2 := depth_Q a4
  have hd : d' = [] := by
    have : (d'.length : Int) = (([] : List Bytes).length : Int) := by rw [← l1, ← l2]
    exact List.eq_nil_of_length_eq_zero (by simpa using this)
  rw [hd, a2] at hp
  have := hp.length_eq
  simp [openBQ] at this

/-- the same at `Close`: a record that was accepted into the MEMORY queue although the backend refuses its
size is lost by `flush` (the error is only logged) — the one way an accepted record can vanish, and the
reason `overflow_keeps_multiset` carries the term `flushLost` -/
theorem flush_drops_invalid_witness :
    (run 1 cfgW [.put [], .restart]).accepted = [[]] ∧ (run 1 cfgW [.put [], .restart]).flushLost = [[]] ∧
    (run 1 cfgW [.put [], .restart]).q.mem = [] ∧ (run 1 cfgW [.put [], .restart]).q.dq.depth = 0 := by decide

/-! ### non-vacuity -/

/-- capacity 1; a goes to memory, b and c overflow to disk (two files), the backend's b is taken first,
then a restart flushes a behind c, then everything is drained -/
def exOps : List Op := [.put ra, .put rb, .put rc, .takeDisk, .restart, .takeDisk, .takeDisk, .takeMem]

example : ∀ b, Op.put b ∈ exOps → ValidRec cfgW b := by
  intro b hb
  simp only [exOps, List.mem_cons, Op.put.injEq, List.not_mem_nil, or_false, reduceCtorEq] at hb
  rcases hb with e | e | e <;> rw [e] <;> decide
example : (run 1 cfgW exOps).accepted = [ra, rb, rc] ∧ (run 1 cfgW exOps).taken = [rb, rc, ra] ∧
    (run 1 cfgW exOps).q.mem = [] ∧ (run 1 cfgW exOps).q.dq.depth = 0 := by decide
example : (run 1 cfgW (exOps.take 3)).q.mem = [ra] ∧ (run 1 cfgW (exOps.take 3)).q.dq.depth = 2 ∧
    (run 1 cfgW (exOps.take 3)).q.dq.wf = 0 ∧ (run 1 cfgW (exOps.take 5)).q.dq.depth = 2 := by decide
-- `each_queue_is_fifo`, `invalid_size_put_drops`, `put_never_drops_partial`: a state with `Inv`, memory full
example : Inv (run 1 cfgW (exOps.take 3)).q [rb, rc] := by
  obtain ⟨d, g, hl, _, hd, _⟩ := ledger_step cfgW_ok (ledger_fresh cfgW cfgW_ok 1) (.put ra)
  obtain ⟨d2, g2, hl2, _, hd2, _⟩ := ledger_step cfgW_ok hl (.put rb)
  obtain ⟨d3, g3, hl3, _, hd3, _⟩ := ledger_step cfgW_ok hl2 (.put rc)
  have e : d3 = [rb, rc] := by rw [hd3, hd2, hd]; decide
  rw [e] at hl3
  exact hl3.inv
example : ¬ (run 1 cfgW (exOps.take 3)).q.mem.length < (run 1 cfgW (exOps.take 3)).q.memCap ∧
    ¬ ValidRec (run 1 cfgW (exOps.take 3)).q.dq.cfg [] ∧ ValidRec (run 1 cfgW (exOps.take 3)).q.dq.cfg ra := by decide
-- `counters_refine_E2_run` on the example: the E2 counters computed alongside
example : (e2Run {} cfgW (fresh 1 cfgW) { memCap := 1 } (exOps.take 3)).memLen = 1 ∧
    (e2Run {} cfgW (fresh 1 cfgW) { memCap := 1 } (exOps.take 3)).dqLen = 2 ∧
    (e2Run {} cfgW (fresh 1 cfgW) { memCap := 1 } (exOps.take 4)).memLen = 1 ∧
    (e2Run {} cfgW (fresh 1 cfgW) { memCap := 1 } (exOps.take 4)).dqLen = 1 ∧
    (e2Run {} cfgW (fresh 1 cfgW) { memCap := 1 } (exOps.take 5)).memLen = 0 ∧
    (e2Run {} cfgW (fresh 1 cfgW) { memCap := 1 } (exOps.take 5)).dqLen = 2 ∧
    (e2Run {} cfgW (fresh 1 cfgW) { memCap := 1 } exOps).dqLen = 0 := by decide
-- `CntRel` / `Ledger` / `Clean` are satisfiable together (hypotheses of `counters_refine_E2`)
example : Ledger cfgW 1 (fresh 1 cfgW) [] [] ∧ Clean cfgW (fresh 1 cfgW) ∧ CntRel (fresh 1 cfgW).q [] { memCap := 1 } :=
  ⟨ledger_fresh cfgW cfgW_ok 1, fun b hb => absurd hb (by show ¬ b ∈ ([] : List Bytes); simp), rfl, rfl, rfl, rfl⟩
-- `mem_queue_size_zero_is_fifo`
example : (run 0 cfgW [.put ra, .put rb, .takeMem, .takeDisk, .restart, .put rc]).taken = [ra] ∧
    (run 0 cfgW [.put ra, .put rb, .takeMem, .takeDisk, .restart, .put rc]).accepted = [ra, rb, rc] := by decide
-- `queued_entries_are_the_records`: a reachable E2 channel (capacity 1, two puts) against the byte queue
example : Chan.nQueued (Chan.run {} { memCap := 1 } [.put 1, .put 2]).msgs = 2 ∧
    (Chan.run {} { memCap := 1 } [.put 1, .put 2]).memLen = 1 ∧ (Chan.run {} { memCap := 1 } [.put 1, .put 2]).dqLen = 1 := by decide

end Nsq.Props.C01DQ
