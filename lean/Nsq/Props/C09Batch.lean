import Nsq.Proofs.Mpub
/-!
# C09, audit round 7 (B21): the MPUB batch reader against a declarative description of the wire

`Spec.ProtoSpec` judges an MPUB batch with the model's own `Mpub.readMPUB`. This module states what a
well-formed batch IS without the reader — `WellFormedBatch`: 1 … (max-body-size − 4)/5 messages, each
of 1 … max-msg-size bytes, written as `count ‖ (size ‖ body)*` in big-endian 32-bit fields — and
proves the reader accepts exactly those (soundness was `mpub_decodes_the_wire`; completeness is new).
-/
namespace Nsq.Props.C09Batch
open Nsq.Model.ProtoV2 Nsq.Model.Mpub Nsq.Proofs.Mpub

/-- A batch the protocol definition accepts. -/
def WellFormedBatch (maxMsg maxBody : Int) (bodies : List Bytes) : Prop :=
  1 ≤ bodies.length ∧ (bodies.length : Int) ≤ maxMessages maxBody ∧
    ∀ b ∈ bodies, 1 ≤ b.length ∧ (b.length : Int) ≤ maxMsg

theorem readMsgs_complete (maxMsg : Int) (h31 : maxMsg < 2147483648) :
    ∀ (ms : List Bytes) (r : Bytes) (acc : List Bytes),
      (∀ b ∈ ms, 1 ≤ b.length ∧ (b.length : Int) ≤ maxMsg) →
      readMsgs maxMsg ms.length (encodeMsgs ms ++ r) acc = .ok (acc.reverse ++ ms) r
  | [], r, acc, _ => by simp [readMsgs, encodeMsgs]
  | m :: ms, r, acc, h => by
    have hm := h m (by simp)
    have hlt : m.length < 2147483648 := by omega
    have e : encodeMsgs (m :: ms) ++ r = be32 m.length ++ (m ++ (encodeMsgs ms ++ r)) := by
      simp [encodeMsgs, List.append_assoc]
    simp only [List.length_cons, readMsgs]
    rw [e, readLen_be32 _ _ hlt]
    simp only [Int.toNat_natCast]
    have h1 : ¬ ((m.length : Int) ≤ 0) := by omega
    have h2 : ¬ ((m.length : Int) > maxMsg) := by omega
    have h3 : ¬ ((m.length : Int) < 0) := by omega
    have h4 : ¬ ((m ++ (encodeMsgs ms ++ r)).length < m.length) := by simp
    simp only [h1, h2, h3, h4, if_false]
    have ht : (m ++ (encodeMsgs ms ++ r)).take m.length = m := by simp
    have hd : (m ++ (encodeMsgs ms ++ r)).drop m.length = encodeMsgs ms ++ r := by simp
    rw [ht, hd, readMsgs_complete maxMsg h31 ms r (m :: acc) (fun b hb => h b (by simp [hb]))]
    simp

/-- Completeness: every well-formed batch on the wire is accepted, decoded to exactly its messages,
and what follows it is left unread (hypothesis: the two limits fit the signed 32-bit size fields,
which the options' types and `readLen` force anyway). -/
theorem well_formed_batch_accepted (maxMsg maxBody : Int) (bodies : List Bytes) (r : Bytes)
    (h31 : maxMsg < 2147483648) (hc31 : maxMessages maxBody < 2147483648)
    (h : WellFormedBatch maxMsg maxBody bodies) :
    readMPUB maxMsg maxBody (encode bodies ++ r) = .ok bodies r := by
  obtain ⟨h1, h2, h3⟩ := h
  have hlt : bodies.length < 2147483648 := by omega
  unfold readMPUB encode
  rw [List.append_assoc, readLen_be32 _ _ hlt]
  have c1 : ¬ ((bodies.length : Int) ≤ 0 ∨ (bodies.length : Int) > maxMessages maxBody) := by omega
  have c2 : ¬ ((bodies.length : Int) < 0) := by omega
  simp only [c1, c2, if_false, Int.toNat_natCast]
  rw [readMsgs_complete maxMsg h31 bodies r [] h3]
  simp

/-- The reader accepts EXACTLY the well-formed batches: `readMPUB bs = ok bodies r` iff `bs` is the
encoding of the well-formed batch `bodies` followed by `r`. -/
theorem readMPUB_ok_iff_well_formed (maxMsg maxBody : Int) (bs : Bytes) (bodies : List Bytes) (r : Bytes)
    (h31 : maxMsg < 2147483648) (hc31 : maxMessages maxBody < 2147483648) :
    readMPUB maxMsg maxBody bs = .ok bodies r ↔ bs = encode bodies ++ r ∧ WellFormedBatch maxMsg maxBody bodies := by
  constructor
  · intro h
    obtain ⟨a, b, c, _⟩ := readMPUB_ok maxMsg maxBody bs bodies r h
    exact ⟨readMPUB_wire maxMsg maxBody bs bodies r h, a, b, c⟩
  · rintro ⟨rfl, h⟩
    exact well_formed_batch_accepted maxMsg maxBody bodies r h31 hc31 h

example : WellFormedBatch 8 64 [[97], [98, 99]] := by
  refine ⟨by decide, by decide, ?_⟩
  intro b hb
  simp only [List.mem_cons, List.not_mem_nil, or_false] at hb
  rcases hb with rfl | rfl <;> decide
example : readMPUB 8 64 (encode [[97], [98, 99]] ++ [7]) = .ok [[97], [98, 99]] [7] := by decide
example : ¬ WellFormedBatch 8 64 [[]] := by
  intro h; have := h.2.2 [] (by simp); simp at this

end Nsq.Props.C09Batch
