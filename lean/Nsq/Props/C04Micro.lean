/-
C04 (timing half) at micro-step granularity for the WHOLE in-flight model — round 7 item 2 and audit A3.

Model `Nsq.Model.ChanMicroT`: `Nsq.Model.ChanMicro` (one step per critical section of channel.go on the
in-flight map / heap; any schedule) plus `msg.pri`, heap keys and the scan as `PeekAndShift(t)` on the ROOT.

* `never_early_micro_whole` — BOTH code shapes, every schedule: a timeout is decided only by a scan whose
  time `t` is at/after the deadline stamped by the LATEST `StartInFlightTimeout` / `TouchMessage` of that
  message (never early w.r.t. the current delivery, whatever late answers, stale heap entries and
  redeliveries happened in between).
* `scan_complete_micro_false` — pre-F48 shape (`fixed = false`): "a scan that finds nothing due leaves nothing
  due" is FALSE at micro granularity. Witness = audit A3's schedule (replayed on the real code by
  `TestVerifStaleHeapReplay`): a late REQ of the same connection between map insert and heap insert leaves a
  stale heap entry of the shared object; its next delivery rewrites `pri` in place; the root is then an entry
  whose object is not due, and message X, due for 1000 time units, is invisible to `processInFlightQueue`.
* `stale_entry_impossible_fixed` — the same schedule in the F48 shape: the late REQ meets a heap entry, removes it,
  no stale entry, X is released.
* **`scan_complete_micro_fixed`** (round 9) — the GENERAL completeness statement `ScanComplete true` for the F48 shape
  (the committed tree, /repo 88fd245; pinned by `Tie.Chan.inflightPushShape_eq`): along EVERY schedule of critical
  sections, a scan that finds nothing due leaves no in-flight message with deadline `≤ t`. Invariant
  `Proofs.ChanMicroTF.FInv` (`heap_invariants_fixed`): no pending heap push, heap ids distinct, entry key = the
  object's current `pri`, entry id in the map or in the hand of an answering goroutine, every in-map id has its entry.
* `released_by_first_scan_after_deadline_micro` — hence a scan at `t ≥ deadline` cannot return "nothing due" while
  the message is in flight: it pops something, and when it returns idle the message has been released.
* `stale_exit_needs_pending_answer` (audit A11) — the scan's other exit (`PeekAndShift` handed out an object that is no
  longer in the map: `goto exit`, `dirty = true`) happens ONLY while a FIN / REQ / TOUCH of that very message is between
  `popInFlightMessage` and `removeFromInFlightPQ`; `no_stale_exit_when_quiescent`: with no answer in that window every
  scan step succeeds. What is NOT claimed: that such a scan is repeated at once (the 25 % dirty loop decides; a due entry
  behind the stale one waits for the next scan round — wall-clock one `QueueScanInterval`).
* `projects_to_untimed` (per step: 0, 1 or 2 untimed steps), `ownership_transports` (`MInv` of the untimed component
  along every timed schedule), `reachable_transports` (the untimed component is `C02Micro.Reachable`, the hypothesis of
  every `Nsq.Props.C02Micro` theorem — so they apply to the timed model as stated). Built by `./check C04`.
-/
import Nsq.Proofs.ChanMicroT
import Nsq.Proofs.ChanMicroTF
import Nsq.Props.C02Micro
namespace Nsq.Props.C04Micro
open Nsq.Model.ChanMicro Nsq.Model.ChanMicroT Nsq.Proofs.ChanMicro Nsq.Proofs.ChanMicroT

/-- **never early, whole micro-step model, both shapes**: along ANY schedule from the empty channel, every
`timedOut id t` in the log is preceded by a stamp of `id`, and the latest one before it is `d ≤ t` -/
theorem never_early_micro_whole (fixed : Bool) (ops : List TOp) :
    ∀ post pre id t, (runT fixed {} ops).tlog = post ++ .timedOut id t :: pre →
      ∃ d, lastStamp pre id = some d ∧ d ≤ t :=
  (runT_inv fixed {} ops (fun _ => rfl) (fun post pre id t h => by cases post <;> simp at h)).2

/-- `msg.pri` is written by the two stamping steps only: it always equals the last stamp -/
theorem pri_is_last_stamp (fixed : Bool) (ops : List TOp) (id : Nat) :
    lastStamp (runT fixed {} ops).tlog id = priOf (runT fixed {} ops) id :=
  (runT_inv fixed {} ops (fun _ => rfl) (fun post pre id t h => by cases post <;> simp at h)).1 id

/-- every timed step is 0, 1 or 2 steps of the untimed micro-step model on the untimed component -/
theorem projects_to_untimed (fixed : Bool) (s : TS) (op : TOp) :
    ∃ l : List Op, (stepT fixed s op).1.ms = run s.ms l := step_ms fixed s op

/-- … so the invariant of `ChanMicro` (and with it `C02Micro`'s ownership theorems) holds along timed schedules -/
theorem ownership_transports (fixed : Bool) (ops : List TOp) : MInv (runT fixed {} ops).ms :=
  runT_minv fixed {} minv_init ops

/-- … and the untimed component of every state of a timed schedule from the empty channel is `C02Micro.Reachable`
(the hypothesis of every `Nsq.Props.C02Micro` theorem): the whole timed schedule projects to ONE untimed schedule,
the concatenation of the per-step projections — so those theorems apply to it as stated (round 11, claim audit 15) -/
theorem reachable_transports (fixed : Bool) (ops : List TOp) : Nsq.Props.C02Micro.Reachable (runT fixed {} ops).ms := by
  obtain ⟨l, h⟩ := runT_reaches fixed {} ops
  exact ⟨l, h⟩

/-- "a scan that finds nothing due (`PeekAndShift(t)` = nil) leaves no in-flight message with deadline `≤ t`" -/
def ScanComplete (fixed : Bool) : Prop :=
  ∀ (ops : List TOp) (t : Int), (stepT fixed (runT fixed {} ops) (.scanIdle t)).2 = .ok →
    ∀ id ∈ (runT fixed {} ops).ms.map, ∀ d, priOf (runT fixed {} ops) id = some d → t < d

/-- audit A3's schedule. M = 1, X = 2; connections 1, 2, 3; times in ms. -/
def a3Ops : List TOp :=
  [.plain (.put 1), .plain (.put 2),
   .delMapPush 1 1 0 10, .plain (.heapPush 1),            -- delivery 1 of M to connection 1 (deadline 10) …
   .scanPop 1 1000, .plain (.scanPut 1),                   -- … ignored, timed out, queued again
   .delMapPush 1 1 1000 1000,                              -- delivery 2 of M to connection 1: in the map, heap push pending
   .plain (.ansMapPop 1 1 (.req 0)), .plain (.ansFinish 1 1 (.req 0)),   -- its late `REQ M 0` is accepted: M queued again
   .plain (.heapPush 1),                                   -- the pump's heap push: STALE entry (M, 2000)
   .delMapPush 2 2 1000 2000, .plain (.heapPush 2),        -- X to connection 2, deadline 3000
   .delMapPush 3 1 1000 60000, .plain (.heapPush 1)]       -- delivery 3 of M: pri := 61000 IN PLACE; second entry of M

/-- pre-F48: heap entries `(M,61000), (X,3000), (M,2000)`; the root is the stale `(M,2000)` whose object now
says 61000: at `t = 4000` the scan finds nothing (`scanIdle` accepted), X (deadline 3000) cannot be popped. -/
theorem scan_complete_micro_false : ¬ ScanComplete false := by
  intro h
  have := h a3Ops 4000 (by decide) 2 (by decide) 3000 (by decide)
  exact absurd this (by decide)

example : (runT false {} a3Ops).hk = [(1, 61000), (2, 3000), (1, 2000)] ∧ (runT false {} a3Ops).ms.map = [1, 2] := by decide
example : (stepT false (runT false {} a3Ops) (.scanPop 2 4000)).2 = .reject := by decide
/-- X stays hidden until the stale root's object is due itself: lateness up to the OTHER message's msg_timeout -/
example : (stepT false (runT false {} a3Ops) (.scanIdle 60999)).2 = .ok := by decide

/-- the same schedule in the F48 shape: the late REQ finds and removes the heap entry, the pump's separate heap
push no longer exists (rejected), no stale entry; at `t = 4000` the scan is NOT idle and pops X -/
theorem stale_entry_impossible_fixed :
    (runT true {} a3Ops).hk = [(1, 61000), (2, 3000)] ∧
    (stepT true (runT true {} a3Ops) (.scanIdle 4000)).2 = .reject ∧
    (stepT true (runT true {} a3Ops) (.scanPop 2 4000)).2 = .ok := by decide

/-- never-early is not affected by the stale entry (both shapes): the one timeout in the log was decided at 1000 ≥ 10 -/
example : (runT false {} a3Ops).tlog.filter (fun e => match e with | .timedOut .. => true | _ => false) = [.timedOut 1 1000] := by decide
example : ∃ d, lastStamp [TEv.stamp 1 10] 1 = some d ∧ d ≤ 1000 :=
  never_early_micro_whole false [.plain (.put 1), .delMapPush 1 1 0 10, .plain (.heapPush 1), .scanPop 1 1000] [] _ 1 1000 (by decide)
example : MInv (runT false {} a3Ops).ms := ownership_transports false a3Ops
example : ∀ id, cnt (runT false {} a3Ops).ms id ≤ 1 :=
  fun id => Nsq.Props.C02Micro.single_location (reachable_transports false a3Ops) id


/-! ## the F48 shape (committed): completeness for EVERY schedule (round 9; audit A3, A11) -/
open Nsq.Proofs.ChanMicroTF

/-- the invariants (a)–(f) of the F48 shape hold along every schedule from the empty channel: no heap push is
pending, heap entry ids are distinct and are the untimed heap, an entry's key is its object's CURRENT `pri` (the
"ordered by insertion key, tested on current pri" abstraction of `PeekAndShift` is therefore exact), an entry's id is
in the in-flight map or held by an answering goroutine, and every in-map id has its entry -/
theorem heap_invariants_fixed (ops : List TOp) :
    let s := runT true {} ops
    (∀ id, Pend.push id ∉ s.ms.pend) ∧ (s.hk.map Prod.fst).Nodup ∧ s.hk.map Prod.fst = s.ms.heap ∧
    (∀ e ∈ s.hk, priOf s e.1 = some e.2) ∧
    (∀ e ∈ s.hk, e.1 ∈ s.ms.map ∨ ∃ k a, Pend.ans k e.1 a ∈ s.ms.pend) ∧
    (∀ id ∈ s.ms.map, ∃ d, priOf s id = some d ∧ (id, d) ∈ s.hk) := by
  have h := runT_finv finv_init ops
  exact ⟨h.nopush, h.nodup, h.heapEq, h.keyPri, h.owned, fun id hm => map_has_entry h hm⟩

/-- **`ScanComplete` holds for the F48 shape, every schedule** (the statement that is FALSE of the pre-F48 shape:
`scan_complete_micro_false`) -/
theorem scan_complete_micro_fixed : ScanComplete true := by
  intro ops t hi id hm d hd
  exact scanIdle_complete (runT_finv finv_init ops) hi id hm d hd

/-- released by the first scan at/after the deadline, micro granularity: while `id` is in flight with deadline
`d ≤ t`, `processInFlightQueue(t)` cannot return "nothing due" — and whenever a scan does return idle (after any
number of its own pops and any interleaved steps of other goroutines, `more`), nothing with deadline `≤ t` is in flight -/
theorem released_by_first_scan_after_deadline_micro (ops : List TOp) (id : Nat) (d t : Int)
    (hm : id ∈ (runT true {} ops).ms.map) (hd : priOf (runT true {} ops) id = some d) (hle : d ≤ t) :
    (stepT true (runT true {} ops) (.scanIdle t)).2 ≠ .ok ∧
    ∀ more : List TOp, (stepT true (runT true {} (ops ++ more)) (.scanIdle t)).2 = .ok →
      ∀ i ∈ (runT true {} (ops ++ more)).ms.map, ∀ di, priOf (runT true {} (ops ++ more)) i = some di → t < di := by
  refine ⟨fun hi => ?_, fun more hi => scan_complete_micro_fixed (ops ++ more) t hi⟩
  have := scan_complete_micro_fixed ops t hi id hm d hd
  omega

/-- audit A11: the scan's stale exit (`msg = nil; dirty = true; goto exit`) needs a FIN / REQ / TOUCH of that very
message between its two critical sections -/
theorem stale_exit_needs_pending_answer (ops : List TOp) (id : Nat) (t : Int)
    (hf : (stepT true (runT true {} ops) (.scanPop id t)).2 = .fail) :
    ∃ k a, Pend.ans k id a ∈ (runT true {} ops).ms.pend :=
  stale_pop_has_answer (runT_finv finv_init ops) hf

/-- … so with no answer in that window the scan never exits early: every `PeekAndShift` that returns an object
times it out -/
theorem no_stale_exit_when_quiescent (ops : List TOp) (id : Nat) (t : Int)
    (hq : ∀ k i a, Pend.ans k i a ∉ (runT true {} ops).ms.pend) :
    (stepT true (runT true {} ops) (.scanPop id t)).2 ≠ .fail := by
  intro hf
  obtain ⟨k, a, hp⟩ := stale_exit_needs_pending_answer ops id t hf
  exact hq k id a hp

/-- non-vacuity: on the audit's schedule (F48 shape) the idle scan at 2999 is accepted and both in-flight messages
have later deadlines; at 4000 it is refused (X, deadline 3000, is due) and after popping X it is accepted again -/
example : (stepT true (runT true {} a3Ops) (.scanIdle 2999)).2 = .ok ∧ (runT true {} a3Ops).ms.map = [1, 2] ∧
    priOf (runT true {} a3Ops) 2 = some 3000 ∧ priOf (runT true {} a3Ops) 1 = some 61000 := by decide
example : (stepT true (runT true {} a3Ops) (.scanIdle 4000)).2 ≠ .ok :=
  (released_by_first_scan_after_deadline_micro a3Ops 2 3000 4000 (by decide) (by decide) (by decide)).1
example : (stepT true (runT true {} (a3Ops ++ [.scanPop 2 4000])) (.scanIdle 4000)).2 = .ok ∧
    (runT true {} (a3Ops ++ [.scanPop 2 4000])).ms.map = [1] := by decide
/-- non-vacuity of the stale exit: FIN of M (id 1) by connection 1 popped it from the map, the scan at 2000 meets M's
heap entry (key 10 ≤ 2000): `.fail`, and the pending answer is there -/
def staleOps : List TOp := [.plain (.put 1), .delMapPush 1 1 0 10, .plain (.ansMapPop 1 1 .fin)]
example : (stepT true (runT true {} staleOps) (.scanPop 1 2000)).2 = .fail ∧
    Pend.ans 1 1 .fin ∈ (runT true {} staleOps).ms.pend := by decide
example : ∃ k a, Pend.ans k 1 a ∈ (runT true {} staleOps).ms.pend :=
  stale_exit_needs_pending_answer staleOps 1 2000 (by decide)
example : (stepT true (runT true {} [.plain (.put 1), .delMapPush 1 1 0 10]) (.scanPop 1 2000)).2 ≠ .fail :=
  no_stale_exit_when_quiescent _ 1 2000 (by
    have : (runT true {} [.plain (.put 1), .delMapPush 1 1 0 10]).ms.pend = [] := by decide
    intro k i a; rw [this]; simp)

end Nsq.Props.C04Micro
