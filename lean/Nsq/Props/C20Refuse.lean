import Nsq.Proofs.ToNsqRefuse
import Nsq.Props.C20
/-!
# C20 — to_nsq when a destination refuses a record (audit round 7, item C14)

`Nsq.Props.C20.to_nsq_records` is stated over `Split.deliver`, which assumes that **every publish succeeds**.
The real tool is fail-stop: the first refused `Publish` (e.g. a record above the destination's `--max-msg-size` →
`E_BAD_MESSAGE`, `E_PUB_FAILED`) ends in `log.Fatal` — exit status 1 — and nothing after it is read from stdin.
So "publishes each record to every destination" is true **only under the hypothesis that every destination accepts
every record**; stated here with the hypothesis explicit (`to_nsq_records_if_accepted`), refuted without it
(`to_nsq_records_unconditional_false`), and with what actually happens at a refusal
(`to_nsq_published_until_refusal`). Model: `Nsq.Model.ToNsqRefuse` (the Go map's iteration order is an input of every
iteration).
-/
namespace Nsq.Props.C20Refuse
open Nsq.Model.Split Nsq.Model.ToNsqRefuse Nsq.Proofs.ToNsqRefuse

/-- the iterations of the loop on `input`: its records, each with the map order of its iteration -/
def Iterations (n : Nat) (d : UInt8) (input : Bytes) (its : List (Bytes × List Nat)) : Prop :=
  its.map (·.1) = published trimFixed d input ∧ ∀ it ∈ its, ValidOrder n it.2

/-- **Hypothesis explicit.** If every destination accepts every record of the input, the tool exits 0 and every
destination has acknowledged exactly the records of the input, byte for byte, in order — whatever order the map
iteration took. (`to_nsq_records` is this statement with the hypothesis built into `deliver`.) -/
theorem to_nsq_records_if_accepted (acc : Nat → Bytes → Bool) (n : Nat) (d : UInt8) (input : Bytes)
    (its : List (Bytes × List Nat)) (hits : Iterations n d input its)
    (hacc : ∀ r ∈ records d input, ∀ i < n, acc i r = true) :
    (run acc its).2 = 0 ∧ ∀ i < n, received i (run acc its).1 = records d input := by
  have hrecs : its.map (·.1) = records d input := by rw [hits.1, Nsq.Proofs.Split.published_fixed]
  have hall : ∀ it ∈ its, (publishOne acc it.1 it.2).2 = true := by
    intro it hit
    rw [(publishOne_eq acc it.1 it.2).2, List.all_eq_true]
    intro k hk
    have hr : it.1 ∈ records d input := by rw [← hrecs]; exact List.mem_map_of_mem hit
    exact hacc _ hr k (((hits.2 it hit).2 k).mp hk)
  refine ⟨run_accepted_exit acc its hall, fun i hi => ?_⟩
  rw [run_accepted_received acc n its hits.2 hall i hi, hrecs]

/-- the unconditional reading: whatever the destinations answer, every destination ends up with every record -/
def to_nsq_records_unconditional : Prop :=
  ∀ (acc : Nat → Bytes → Bool) (n : Nat) (d : UInt8) (input : Bytes) (its : List (Bytes × List Nat)),
    Iterations n d input its → ∀ i < n, received i (run acc its).1 = records d input

/-- … is **false**: one destination with a size limit of 1 byte, input `"a\nbb\nc\n"`: the tool stops at `bb`,
exit status 1, and `c` — which the destination would accept — is never published. -/
theorem to_nsq_records_unconditional_false : ¬ to_nsq_records_unconditional := by
  intro h
  have hp : published trimFixed 10 [97, 10, 98, 98, 10, 99, 10] = [[97], [98, 98], [99]] := by
    rw [Nsq.Proofs.Split.published_eq]; decide
  have hi : Iterations 1 10 [97, 10, 98, 98, 10, 99, 10] [([97], [0]), ([98, 98], [0]), ([99], [0])] := by
    refine ⟨by rw [hp]; rfl, ?_⟩
    intro it hit
    have : it.2 = [0] := by
      simp at hit
      rcases hit with rfl | rfl | rfl <;> rfl
    rw [this]
    exact ⟨by simp, fun i => by simp⟩
  have := h (sizeLimit 0 1) 1 10 _ _ hi 0 (by decide)
  rw [Nsq.Proofs.Split.published_fixed] at hp
  rw [hp] at this
  revert this
  decide

/-- **What happens at a refusal.** The records before the first refused one were accepted everywhere; record `r`
is refused by some destination. Then the exit status is 1, and every destination has acknowledged exactly the
records before `r`, plus `r` itself iff the map iteration visited it before the first refusing destination; nothing
after `r` reaches anybody. -/
theorem to_nsq_published_until_refusal (acc : Nat → Bytes → Bool) (n : Nat)
    (pre post : List (Bytes × List Nat)) (r : Bytes) (ord : List Nat)
    (hvpre : ∀ it ∈ pre, ValidOrder n it.2) (hvord : ValidOrder n ord)
    (hpre : ∀ it ∈ pre, ∀ i < n, acc i it.1 = true)
    (href : ∃ j < n, acc j r = false) :
    (run acc (pre ++ (r, ord) :: post)).2 = 1 ∧
    ∀ i < n, received i (run acc (pre ++ (r, ord) :: post)).1 =
      pre.map (·.1) ++ (if i ∈ ord.takeWhile (fun k => acc k r) then [r] else []) := by
  have hall : ∀ it ∈ pre, (publishOne acc it.1 it.2).2 = true := by
    intro it hit
    rw [(publishOne_eq acc it.1 it.2).2, List.all_eq_true]
    intro k hk
    exact hpre it hit k (((hvpre it hit).2 k).mp hk)
  have hfail : (publishOne acc r ord).2 = false := by
    rw [(publishOne_eq acc r ord).2]
    obtain ⟨j, hj, hacc⟩ := href
    apply Bool.eq_false_iff.mpr
    intro hall'
    rw [List.all_eq_true] at hall'
    have := hall' j ((hvord.2 j).mpr hj)
    simp [hacc] at this
  have hstep : run acc ((r, ord) :: post) = ((publishOne acc r ord).1, 1) := by simp [run, hfail]
  rw [run_append_accepted acc pre _ hall, hstep]
  refine ⟨rfl, fun i hi => ?_⟩
  simp only [received_append]
  rw [run_accepted_received acc n pre hvpre hall i hi, received_publishOne acc r ord hvord.1 i]

/-- the refusing destinations themselves never hold the refused record: they hold exactly the records before it -/
theorem to_nsq_refuser_holds_prefix (acc : Nat → Bytes → Bool) (n : Nat)
    (pre post : List (Bytes × List Nat)) (r : Bytes) (ord : List Nat)
    (hvpre : ∀ it ∈ pre, ValidOrder n it.2) (hvord : ValidOrder n ord)
    (hpre : ∀ it ∈ pre, ∀ i < n, acc i it.1 = true) (j : Nat) (hj : j < n) (hrej : acc j r = false) :
    received j (run acc (pre ++ (r, ord) :: post)).1 = pre.map (·.1) := by
  rw [(to_nsq_published_until_refusal acc n pre post r ord hvpre hvord hpre ⟨j, hj, hrej⟩).2 j hj]
  have : j ∉ ord.takeWhile (fun k => acc k r) := by
    intro hmem
    have := mem_takeWhile_imp _ _ _ hmem
    simp [hrej] at this
  simp [this]

/-- every destination holds a prefix of the records that is at most one record longer than any other's -/
theorem to_nsq_refusal_prefix (acc : Nat → Bytes → Bool) (n : Nat)
    (pre post : List (Bytes × List Nat)) (r : Bytes) (ord : List Nat)
    (hvpre : ∀ it ∈ pre, ValidOrder n it.2) (hvord : ValidOrder n ord)
    (hpre : ∀ it ∈ pre, ∀ i < n, acc i it.1 = true) (href : ∃ j < n, acc j r = false) (i : Nat) (hi : i < n) :
    received i (run acc (pre ++ (r, ord) :: post)).1 = pre.map (·.1) ∨
    received i (run acc (pre ++ (r, ord) :: post)).1 = pre.map (·.1) ++ [r] := by
  rw [(to_nsq_published_until_refusal acc n pre post r ord hvpre hvord hpre href).2 i hi]
  by_cases h : i ∈ ord.takeWhile (fun k => acc k r)
  · right; simp [h]
  · left; simp [h]

/-! ### non-vacuity -/

/-- three destinations, destination 1 refuses bodies above 1 byte; in the iteration of `bb` the map order was
2, 1, 0: destination 2 got `bb`, destination 1 refused it, destination 0 was never asked; `c` is lost for all. -/
example : run (sizeLimit 1 1) [([97], [0, 1, 2]), ([98, 98], [2, 1, 0]), ([99], [0, 1, 2])] =
    ([(0, [97]), (1, [97]), (2, [97]), (2, [98, 98])], 1) := by decide
example : ValidOrder 3 [2, 1, 0] := ⟨by decide, fun i => by simp; omega⟩
example : (run (sizeLimit 1 1) [([97], [0, 1, 2]), ([99], [1, 0, 2])]).2 = 0 := by decide
example : ∃ j < 3, sizeLimit 1 1 j [98, 98] = false := ⟨1, by decide, by decide⟩
example : ∀ r ∈ records 10 [97, 10, 99, 10], ∀ i < 3, sizeLimit 1 1 i r = true := by decide

end Nsq.Props.C20Refuse
