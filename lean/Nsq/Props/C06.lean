import Nsq.Proofs.MetaIdle
import Nsq.Proofs.MetaCut
import Nsq.Model.MetaOrder
/-!
# C06 — Hard-kill consistency of persisted metadata

Property theorems only (helpers: `Nsq.Proofs.Meta*`). Model: `Nsq.Model.Meta` — one `Step` per
critical section / system call of `PersistMetadata`, `writeSyncFile`, `GetMetadata`, `Notify`,
the create / delete / pause paths, `kill` (SIGKILL) and `start` (flock + `LoadMetadata`).
`Reach cd fix s`: `s` is reachable by *some* list of steps from the empty data path — every
interleaving, every kill point, any number of restarts. `fix = true` is the tree with
`fixes/F6_persist_after_delete.patch`; theorems stated for an arbitrary `fix` hold for both trees.
The byte-string type `β` and the JSON codec are parameters (`encoding/json` is trusted to round-trip).
-/
namespace Nsq.Props.C06
open Nsq.Model.FS Nsq.Model.Meta Nsq.Proofs.Meta

variable {β : Type}

/-- At every instant `nsqd.dat` is absent or is the complete serialisation of a snapshot that a
`PersistMetadata` call actually took (never a prefix, never a temporary file's content). -/
theorem dat_absent_or_complete (cd : Codec β) (fix : Bool) (s : Sys β) (h : Reach cd fix s) :
    s.fs.dat = none ∨ ∃ d ∈ s.taken, s.fs.dat = some (cd.marshal d) := by
  have hA := reach_invA h
  cases hl : s.renamed.getLast? with
  | none => left; simp [hA.datEq, hl]
  | some d =>
    right
    refine ⟨d, hA.sub.subset (List.mem_of_getLast? hl), ?_⟩
    simp [hA.datEq, hl]

/-- After a kill at any point (or on an empty data path) the daemon starts: `LoadMetadata` succeeds
and the live maps are exactly the last snapshot that was renamed onto `nsqd.dat`. -/
theorem start_after_kill_ok (cd : Codec β) (hc : cd.RoundTrip) (fix : Bool) (s : Sys β)
    (h : Reach cd fix s) (hdead : s.alive = false) :
    ∃ s', step cd fix s .start = some s' ∧ s'.lastStart = .ok ∧ s'.alive = true ∧
      s'.mem = (match s.renamed.getLast? with | none => [] | some d => loadDoc d) := by
  have hA := reach_invA h
  cases hl : s.renamed.getLast? with
  | none =>
    have hd : s.fs.dat = none := by simp [hA.datEq, hl]
    exact ⟨boot s [], by simp [step, hdead, hd], rfl, rfl, rfl⟩
  | some d =>
    have hd : s.fs.dat = some (cd.marshal d) := by simp [hA.datEq, hl]
    exact ⟨boot s (loadDoc d), by simp [step, hdead, hd, hc d], rfl, rfl, rfl⟩

/-- Restart, then persist, is the identity on the document: loading loses nothing. -/
theorem load_then_snapshot (d : Doc) : snap (loadDoc d) = d := by
  induction d with
  | nil => rfl
  | cons t ts ih =>
    have hc : ∀ cs : List ChanM, ((cs.map loadChan).filter (fun c => !c.eph)).map snapChan = cs := by
      intro cs; induction cs with
      | nil => rfl
      | cons c cs ih => simp_all [loadChan, snapChan]
    have : snap (loadDoc (t :: ts)) = snapTopic (loadTopic t) :: snap (loadDoc ts) := by
      simp [snap, loadDoc, loadTopic]
    rw [this, ih]
    simp [snapTopic, loadTopic, hc]

/-- The file never goes back in time: `nsqd.dat` is the most recently renamed snapshot, and the
renamed snapshots are a subsequence of the snapshots in the order they were taken (all persists
run inside the same critical section). -/
theorem file_is_latest_snapshot (cd : Codec β) (fix : Bool) (s : Sys β) (h : Reach cd fix s) :
    s.fs.dat = s.renamed.getLast?.map cd.marshal ∧ s.renamed.Sublist s.taken :=
  ⟨(reach_invA h).datEq, (reach_invA h).sub⟩

/-- `Quiet`: the daemon runs, no `Notify` continuation or synchronous persist is queued or
running, and no topic deletion is half-way. -/
def Quiet (s : Sys β) : Prop := Idle s ∧ ¬ exitingNE s.mem

/-- The full idle clause: whenever the daemon is quiet, `nsqd.dat` is exactly the snapshot of the
live maps — it lists every completed creation and no completed deletion. -/
def C06_deletion_full (fix : Bool) : Prop :=
  ∀ (β : Type) (cd : Codec β) (s : Sys β), Reach cd fix s → Quiet s →
    s.fs.dat = some (cd.marshal (snap s.mem))

/-- With `fixes/F6_persist_after_delete.patch` the full clause holds. -/
theorem deletion_full : C06_deletion_full true := by
  intro β cd s h ⟨⟨ha, hp, hh, hn⟩, hx⟩
  rcases reach_invI h ha with h1 | h1 | h1 | h1
  · omega
  · exact absurd hh h1
  · exact h1.1 hn
  · exact absurd h1 hx

/-- Every completed creation of a persisted topic / channel is in the file once the daemon is quiet. -/
theorem creation_persisted_when_idle (cd : Codec β) (s : Sys β) (h : Reach cd true s) (hq : Quiet s) :
    ∃ D, s.fs.dat = some (cd.marshal D) ∧ ∀ t ∈ s.mem, t.eph = false → snapTopic t ∈ D :=
  ⟨snap s.mem, deletion_full β cd s h hq, fun t ht he => by
    simp only [snap, List.mem_map, List.mem_filter]
    exact ⟨t, ⟨ht, by simp [he]⟩, rfl⟩⟩

/-- Every entry of the file of a quiet daemon is a live, persisted topic with exactly its live,
persisted channels and flags: nothing deleted is listed. -/
theorem deletion_excluded_when_idle (cd : Codec β) (s : Sys β) (h : Reach cd true s) (hq : Quiet s) :
    ∃ D, s.fs.dat = some (cd.marshal D) ∧ ∀ e ∈ D, ∃ t ∈ s.mem, t.eph = false ∧ e = snapTopic t :=
  ⟨snap s.mem, deletion_full β cd s h hq, fun e he => by
    simp only [snap, List.mem_map, List.mem_filter] at he
    obtain ⟨t, ⟨ht, hne⟩, rfl⟩ := he
    exact ⟨t, ht, by simpa using hne, rfl⟩⟩

/-- A toy codec (a document and how many bytes of it are present) for the counter-example. -/
def toyCodec : Codec (Doc × Option Nat) :=
  { marshal := fun d => (d, none), parse := fun b => if b.2.isNone then some b.1 else none,
    cut := fun k b => (b.1, some k) }

/-- The schedule `start; (startup persist); create topic t; (its Notify persist); delete topic t:
Notify at the start of exit(true), that persist runs while t is still in the map; unlink`. -/
def f6Schedule : List Step :=
  let persistAll : List Step := [.persist .read, .persist .read, .persist (.openTmp 7), .persist .writeRest,
    .persist .sync, .persist .rename, .persist .finish]
  [.start, .persist (.beginHandler 0), .persist .read, .persist (.openTmp 1), .persist .writeRest,
   .persist .sync, .persist .rename, .persist .finish,
   .mem (.createTopic "t" false), .persist .beginNotify] ++ persistAll ++
  [.mem (.delTopicBegin "t"), .persist .beginNotify] ++ persistAll ++
  [.mem (.delTopicUnlink "t")]

/-- what the counter-example establishes about the final state (evaluated by the kernel) -/
def f6Check (o : Option (Sys (Doc × Option Nat))) : Bool :=
  match o with
  | some s => s.alive && s.pending == 0 && s.handlers.isEmpty && s.persist.isNone && s.mem.isEmpty &&
      (match s.fs.dat with | some (d, none) => d == [⟨"t", false, []⟩] | _ => false)
  | none => false

/-- Without the fix the full clause is false: after `create t; delete t` the daemon is quiet, `t`
is gone from the live maps and `nsqd.dat` still lists it (a SIGKILL + restart resurrects it). -/
theorem deletion_full_false_without_fix : ¬ C06_deletion_full false := by
  intro hfull
  have hc : f6Check (run toyCodec false Sys.init f6Schedule) = true := by decide
  cases hr : run toyCodec false Sys.init f6Schedule with
  | none => simp [hr, f6Check] at hc
  | some s =>
    simp only [hr, f6Check] at hc
    have hq : Quiet s := by
      refine ⟨⟨?_, ?_, ?_, ?_⟩, ?_⟩
      · simp_all
      · simp_all
      · simp_all [List.isEmpty_iff]
      · simp_all [Option.isNone_iff_eq_none]
      · intro ⟨t, ht, _⟩
        have : s.mem = [] := by simp_all [List.isEmpty_iff]
        simp [this] at ht
    have hd := hfull _ toyCodec s ⟨_, hr⟩ hq
    have hm : s.mem = [] := by simp_all [List.isEmpty_iff]
    rw [hm, hd] at hc
    simp [toyCodec, snap] at hc
    obtain ⟨_, a, ha, _⟩ := hc
    simp [hm] at ha

/-- The same schedule on the tree with the fix ends with a `del` persist queued (not quiet yet). -/
example : ((run toyCodec true Sys.init f6Schedule).map (fun s => s.handlers.length)) = some 1 := by decide

/-- Every snapshot ever taken (hence every content `nsqd.dat` ever has, by `dat_absent_or_complete`) is a
cut of the daemon's history: its topic list is the persisted topic list of one state the live maps passed
through, and each entry is the persisted entry (pause flag + channel set with flags) of that topic in
some state passed through. (The cut is per topic: `GetMetadata` locks one topic at a time.) -/
theorem snapshot_cut (cd : Codec β) (fix : Bool) (s : Sys β) (h : Reach cd fix s) :
    ∀ D ∈ s.taken, (∃ M ∈ s.hist, names D = names (snap M)) ∧
      ∀ e ∈ D, ∃ M ∈ s.hist, e ∈ snap M := by
  intro D hD
  obtain ⟨h1, h2⟩ := (reach_invC h).tk D hD
  refine ⟨h1, fun e he => ?_⟩
  obtain ⟨i, M, _, hi, hm⟩ := h2 e he
  exact ⟨M, List.mem_of_getElem? hi, hm⟩

/-- Observation: the cut is not global. Two channel creations in different topics can straddle a snapshot
(`a` read before `c1` is added to it, `b` read after `c2` was added): the document `a:[] b:[c2]` is taken
although the daemon never was in a state with `c2` but without `c1`. The next persist heals it. -/
def cutSchedule : List Step :=
  [.start, .mem (.createTopic "a" false), .mem (.createTopic "b" false), .persist .beginNotify, .persist .read,
   .mem (.createChan "a" "c1" false), .mem (.createChan "b" "c2" false), .persist .read, .persist .read]
def cutCheck (o : Option (Sys (Doc × Option Nat))) : Bool :=
  match o with
  | some s => s.taken == [[⟨"a", false, []⟩, ⟨"b", false, [⟨"c2", false⟩]⟩]] &&
      !(s.hist.map snap).contains [⟨"a", false, []⟩, ⟨"b", false, [⟨"c2", false⟩]⟩]
  | none => false
example : cutCheck (run toyCodec false Sys.init cutSchedule) = true := by decide

/-- **audit A4** — the clause "after a restart the set of topics and channels is one the daemon actually passed through",
read GLOBALLY (the whole document equals the persisted view of ONE live state): every snapshot ever taken — hence, by
`dat_absent_or_complete`, every content `nsqd.dat` ever has, hence (by `start_after_kill_ok`) every state a restart after
a kill can load — is `snap M` for some state `M` of the history. -/
def C06_cut_full (fix : Bool) : Prop :=
  ∀ (β : Type) (cd : Codec β) (s : Sys β), Reach cd fix s → ∀ D ∈ s.taken, ∃ M ∈ s.hist, D = snap M

/-- … is FALSE on both trees (witness `cutSchedule`: `GetMetadata` locks one topic at a time, and `Topic.GetChannel` does not
take the NSQD lock that `PersistMetadata` holds).  Replayed on the real code: `TestVerifMetaCutSteered` (this very schedule,
forced by parking the persist on `b`'s topic lock; `corpus/C06/known/global_cut_two_topics.ops`) and, unsteered,
`TestVerifMetaCutObservation` (`restart_from_that_file=loaded-never-passed-state`); open known finding
`restart-state-never-passed-through`. -/
theorem cut_full_false (fix : Bool) : ¬ C06_cut_full fix := by
  intro hfull
  have hc : cutCheck (run toyCodec fix Sys.init cutSchedule) = true := by cases fix <;> decide
  cases hr : run toyCodec fix Sys.init cutSchedule with
  | none => simp [hr, cutCheck] at hc
  | some s =>
    simp only [hr, cutCheck, Bool.and_eq_true, beq_iff_eq, Bool.not_eq_true', List.contains_eq_mem,
      decide_eq_false_iff_not, List.mem_map, not_exists, not_and] at hc
    obtain ⟨ht, hn⟩ := hc
    obtain ⟨M, hM, hD⟩ := hfull _ toyCodec s ⟨_, hr⟩ _ (by rw [ht]; exact List.mem_singleton.mpr rfl)
    exact hn M hM hD.symm

/-- `C06_cut_partial` — what does hold (= `snapshot_cut`): the cut is per topic.  The topic LIST of every document is that of
one live state, and every topic ENTRY (pause flag + channel set with flags) is that topic's entry in one live state; the
entries of different topics may come from different states between the persist's first and last read.  Forced weakening:
`cut_full_false`.  The next completed persist heals it (`creation_persisted_when_idle`, `deletion_excluded_when_idle`: at
quiescence the file IS the live state). -/
theorem C06_cut_partial (cd : Codec β) (fix : Bool) (s : Sys β) (h : Reach cd fix s) :
    ∀ D ∈ s.taken, (∃ M ∈ s.hist, names D = names (snap M)) ∧ ∀ e ∈ D, ∃ M ∈ s.hist, e ∈ snap M :=
  snapshot_cut cd fix s h

/-- When a synchronous persist (pause/unpause handler, startup, post-delete persist) returns — the instant
the HTTP answer is produced — `nsqd.dat` is the complete document of the caller's *own* snapshot, and every
entry of it was read from a live state at or after the caller's own state change (`h.stamp`). -/
theorem pause_ack_persisted (cd : Codec β) (fix : Bool) (s s' : Sys β) (h : Reach cd fix s)
    (p : Persist) (hd : Handler) (hp : s.persist = some p) (ho : p.owner = some hd)
    (hs : step cd fix s (.persist .finish) = some s') :
    s'.fs.dat = some (cd.marshal p.done) ∧ s'.acks = s.acks ++ [⟨hd, p.done⟩] ∧
    ∀ e ∈ p.done, ∃ i M, hd.stamp ≤ i ∧ s.hist[i]? = some M ∧ e ∈ snap M := by
  have hA := reach_invA h
  have hC := reach_invC h
  simp only [step] at hs
  split at hs; · simp at hs
  simp only [pstep, hp] at hs
  split at hs; · simp at hs
  rename_i hph
  simp at hph
  simp [ho] at hs; subst hs
  refine ⟨?_, rfl, fun e he => (hC.pdone p hp e he).weaken ((hC.psince p hp).2 hd ho)⟩
  have := hA.datEq
  rw [hA.renLast p hp hph] at this
  simpa using this

/-- …so, unless another pause/unpause of the same topic raced with the handler (every live state from the
handler's store on has the topic with the requested flag), the file the answer is based on has that flag. -/
theorem pause_ack_flag (cd : Codec β) (fix : Bool) (s : Sys β) (h : Reach cd fix s)
    (p : Persist) (hd : Handler) (hp : s.persist = some p) (ho : p.owner = some hd)
    (t : String) (flag : Bool)
    (hquiet : ∀ i M T, hd.stamp ≤ i → s.hist[i]? = some M → T ∈ M → T.name = t → T.paused = flag) :
    ∀ e ∈ p.done, e.name = t → e.paused = flag := by
  intro e he hn
  have hC := reach_invC h
  obtain ⟨i, M, hi, hM, hm⟩ := (hC.pdone p hp e he).weaken ((hC.psince p hp).2 hd ho)
  simp only [snap, List.mem_map, List.mem_filter] at hm
  obtain ⟨T, ⟨hT, _⟩, rfl⟩ := hm
  exact hquiet i M T hi hM hT hn

/-- audit A14 — the channel corollary of `pause_ack_flag` (`/channel/pause`, `/channel/unpause`): unless another
pause/unpause of the same channel (or a deletion / re-creation of it) raced with the handler — every live state from the
handler's store on has channel `t:cn`, whenever it lists it, with the requested flag — every entry for `t:cn` in the file
the answer is based on carries that flag. -/
theorem pause_ack_chan_flag (cd : Codec β) (fix : Bool) (s : Sys β) (h : Reach cd fix s)
    (p : Persist) (hd : Handler) (hp : s.persist = some p) (ho : p.owner = some hd)
    (t cn : String) (flag : Bool)
    (hquiet : ∀ i M T C, hd.stamp ≤ i → s.hist[i]? = some M → T ∈ M → T.name = t → C ∈ T.chans → C.name = cn →
      C.paused = flag) :
    ∀ e ∈ p.done, e.name = t → ∀ c ∈ e.chans, c.name = cn → c.paused = flag := by
  intro e he hn c hc hcn
  have hC := reach_invC h
  obtain ⟨i, M, hi, hM, hm⟩ := (hC.pdone p hp e he).weaken ((hC.psince p hp).2 hd ho)
  simp only [snap, List.mem_map, List.mem_filter] at hm
  obtain ⟨T, ⟨hT, _⟩, rfl⟩ := hm
  simp only [snapTopic, List.mem_map, List.mem_filter] at hc
  obtain ⟨C, ⟨hCm, _⟩, rfl⟩ := hc
  exact hquiet i M T C hi hM hT hn hCm hcn

/-- A second nsqd on a data path that is in use refuses to start and disturbs nothing.
(Audit A14: in the MODEL this holds by definition of `step … .start` — the model's `alive` flag IS the flock.  The content
of the clause is carried by (i) the ties `Tie.Meta.flock_first` (flock before the first `Listen`, `LOCK_EX|LOCK_NB`) and `exit_releases_dirlock_last`, (ii) the
assumption that flock(2) excludes a second holder, and (iii) the legs that start a real second daemon process and a second
`New()` on a held path.  The theorem only records that the model refuses and changes nothing.) -/
theorem second_instance_refused (cd : Codec β) (fix : Bool) (s : Sys β) (h : s.alive = true) :
    step cd fix s .start = some { s with lastStart := .locked } := by
  simp [step, h]

/-- "In use" lasts until `Exit` has finished writing: from the moment `Exit` starts (listeners closed) the daemon
still holds the flock, so a second nsqd is refused … -/
theorem second_instance_refused_during_exit (cd : Codec β) (fix : Bool) (s s' : Sys β)
    (h : step cd fix s .exitBegin = some s') :
    s'.exiting = true ∧ step cd fix s' .start = some { s' with lastStart := .locked } := by
  simp only [step] at h
  split at h; · simp at h
  rename_i hc
  simp at hc
  simp at h; subst h
  exact ⟨rfl, by simp [step, hc.1]⟩

/-- … and the flock is released (`exitEnd`) only when Exit's own `PersistMetadata` is no longer queued or running
(tie `exit_releases_dirlock_last`: `n.dl.Unlock()` is the last effect of `Exit`, after the persist, the topic
flushes and the join of the background goroutines). -/
theorem lock_released_only_after_exit_persist (cd : Codec β) (fix : Bool) (s s' : Sys β)
    (h : step cd fix s .exitEnd = some s') :
    s.alive = true ∧ s.exiting = true ∧ s.persist = none ∧ (∀ hd ∈ s.handlers, hd.kind ≠ .exit) ∧
      s'.alive = false ∧ s'.fs = s.fs := by
  simp only [step] at h
  split at h
  · rename_i hc
    simp at hc
    simp at h; subst h
    exact ⟨hc.1.1.1, hc.1.1.2, hc.1.2, fun hd hm => by simpa using hc.2 hd hm, rfl, rfl⟩
  · simp at h

/-- non-vacuity: a graceful exit whose persist is parked after its snapshot (a second start is refused), then
completes, the lock is released and the next start loads what Exit wrote -/
def exitSchedule : List Step :=
  [.start, .persist (.beginHandler 0), .persist .read, .persist (.openTmp 1), .persist .writeRest, .persist .sync,
   .persist .rename, .persist .finish, .mem (.createTopic "t" false), .exitBegin,
   .persist (.beginHandler 0), .persist .read, .persist .read, .start,          -- second instance while Exit is parked
   .persist (.openTmp 2), .persist .writeRest, .persist .sync, .persist .rename, .persist .finish, .exitEnd, .start]

def exitCheck (o : Option (Sys (Doc × Option Nat))) : Bool :=
  match o with
  | some s => s.alive && !s.exiting && s.mem == [⟨"t", false, false, false, []⟩] && s.lastStart == .ok
  | none => false

example : exitCheck (run toyCodec true Sys.init exitSchedule) = true := by decide
example : ((run toyCodec true Sys.init (exitSchedule.take 14)).map (fun s => s.lastStart)) = some .locked := by decide
-- the lock cannot be released while Exit's persist is still running
example : run toyCodec true Sys.init (exitSchedule.take 14 ++ [.exitEnd]) = none := by decide

/-! ### why the lock must be exclusive

`file_is_latest_snapshot` rests on every `PersistMetadata` running under the nsqd *write* lock (in `Model.Meta` at most
one `Persist` exists; tie `pause_persists_before_answer`, `notify_order`, `delete_persists_after_unlink`: `Lock`, not
`RLock`). The abstraction below keeps only what matters for the order — snapshots taken, snapshots renamed — and
lets several persists be in flight, as a shared (read) lock would. -/

/-- With a shared lock the file goes back in time: persist 1 takes its document, persist 2 takes a newer one and
renames it (its caller is answered), then persist 1 renames the older document over it. The renamed documents are
no longer a subsequence of the taken ones and `nsqd.dat` (the last renamed) is not the latest snapshot. This is the
schedule the harness steers on the real code (`race`, hook `meta.persist.afterSnapshot`). -/
theorem shared_lock_breaks_file_order :
    ∃ s, orun true {} [.snap 1, .snap 2, .rename 1, .rename 0] = some s ∧
      ¬ s.renamed.Sublist s.taken ∧ s.renamed.getLast? ≠ s.taken.getLast? := by
  refine ⟨{ taken := [1, 2], renamed := [2, 1], inflight := [] }, rfl, ?_, by decide⟩
  decide

/-- The same schedule is not a schedule under the exclusive lock (the second `snap` is not enabled)… -/
example : orun false {} [.snap 1, .snap 2, .rename 1, .rename 0] = none := rfl

/-- …and under the exclusive lock the order is kept along every schedule (the abstract counterpart of
`file_is_latest_snapshot`). -/
theorem exclusive_lock_keeps_file_order (steps : List OStep) (s : OSt)
    (h : orun false {} steps = some s) :
    s.renamed.Sublist s.taken ∧ s.inflight.length ≤ 1 ∧
      (∀ d ∈ s.inflight, s.taken.getLast? = some d ∧ s.renamed.Sublist s.taken.dropLast) := by
  suffices H : ∀ (steps : List OStep) (s0 s : OSt),
      (s0.renamed.Sublist s0.taken ∧ s0.inflight.length ≤ 1 ∧
        (∀ d ∈ s0.inflight, s0.taken.getLast? = some d ∧ s0.renamed.Sublist s0.taken.dropLast)) →
      orun false s0 steps = some s →
      (s.renamed.Sublist s.taken ∧ s.inflight.length ≤ 1 ∧
        (∀ d ∈ s.inflight, s.taken.getLast? = some d ∧ s.renamed.Sublist s.taken.dropLast)) from
    H steps {} s ⟨List.Sublist.refl _, by simp, by simp⟩ h
  intro steps
  induction steps with
  | nil => intro s0 s h0 hr; simp [orun] at hr; subst hr; exact h0
  | cons st rest ih =>
    intro s0 s h0 hr
    simp only [orun] at hr
    split at hr
    · simp at hr
    · rename_i s1 h1
      refine ih s1 s ?_ hr
      obtain ⟨hsub, hlen, hin⟩ := h0
      cases st with
      | snap d =>
        simp only [ostep] at h1
        split at h1
        · simp at h1
        · rename_i hc
          simp at hc
          simp at h1; subst h1
          refine ⟨hsub.trans (List.sublist_append_left _ _), by simp [hc], ?_⟩
          intro x hx
          simp [hc] at hx
          subst hx
          simpa using hsub
      | rename i =>
        simp only [ostep] at h1
        split at h1
        · simp at h1
        · rename_i d hd
          simp at h1; subst h1
          have hmem : d ∈ s0.inflight := List.mem_of_getElem? hd
          obtain ⟨hl, hs⟩ := hin d hmem
          have hi : i = 0 := by
            have := (List.getElem?_eq_some_iff.mp hd).1
            omega
          subst hi
          have hnil : s0.inflight.eraseIdx 0 = [] := by
            cases hf : s0.inflight with
            | nil => rfl
            | cons a t =>
              rw [hf] at hlen
              have : t = [] := by cases t with | nil => rfl | cons b u => simp at hlen
              simp [this]
          refine ⟨?_, by simp [hnil], by simp [hnil]⟩
          show (s0.renamed ++ [d]).Sublist s0.taken
          rw [eq_dropLast_of_getLast? _ _ hl]
          exact List.Sublist.append hs (List.Sublist.refl _)

/-! ### non-vacuity: a concrete schedule with a kill in the middle of a write, a restart, a pause -/

def lifeSchedule : List Step :=
  [.start, .persist (.beginHandler 0), .persist .read, .persist (.openTmp 1), .persist .writeRest, .persist .sync,
   .persist .rename, .persist .finish,
   .mem (.createTopic "t" false), .mem (.createChan "t" "c" false), .persist .beginNotify, .persist .read,
   .persist .read, .persist (.openTmp 2), .persist .writeRest, .persist .sync, .persist .rename, .persist .finish,
   .mem (.createTopic "u" false), .persist .beginNotify, .persist .read, .persist .read, .persist .read,
   .persist (.openTmp 3), .persist (.writePart 5), .kill,          -- SIGKILL in the middle of the write of tmp_3
   .start, .mem (.pauseTopic "t" true), .persist (.beginHandler 1), .persist .read, .persist .read,
   .persist (.openTmp 4), .persist .writeRest, .persist .sync, .persist .rename]

def lifeCheck (o : Option (Sys (Doc × Option Nat))) : Bool :=
  match o with
  | some s => s.alive && s.taken.length == 4 && s.renamed.length == 3 && s.acks.length == 1 &&
      (s.fs.tmp 3 == some ([⟨"t", false, [⟨"c", false⟩]⟩, ⟨"u", false, []⟩], some 5)) &&   -- the partial file is still there
      (s.fs.dat == some ([⟨"t", true, [⟨"c", false⟩]⟩], none)) &&     -- restarted from the last complete file (no "u")
      (s.mem == [⟨"t", true, false, false, [⟨"c", false, false, false⟩]⟩]) &&
      (match s.persist with
       | some p => p.phase == .renamedP && p.done == [⟨"t", true, [⟨"c", false⟩]⟩] &&
                   p.owner == some ⟨.pause "t" none true, 5⟩
       | none => false)
  | none => false

/-- the hypotheses of the theorems above are met by a non-trivial reachable state (kill during a partial
write, restart from the previous complete file, a pause handler about to answer) -/
example : lifeCheck (run toyCodec true Sys.init lifeSchedule) = true := by decide

example : toyCodec.RoundTrip := fun d => by simp [toyCodec]

/-- non-vacuity of `pause_ack_chan_flag` (audit A14): a `/channel/pause` handler about to answer; the document it wrote
lists `t:c` paused -/
def chanPauseSchedule : List Step :=
  [.start, .persist (.beginHandler 0), .persist .read, .persist (.openTmp 1), .persist .writeRest, .persist .sync,
   .persist .rename, .persist .finish,
   .mem (.createTopic "t" false), .mem (.createChan "t" "c" false), .persist .beginNotify, .persist .read,
   .persist .read, .persist (.openTmp 2), .persist .writeRest, .persist .sync, .persist .rename, .persist .finish,
   .persist .beginNotify, .persist .read, .persist .read, .persist (.openTmp 3), .persist .writeRest, .persist .sync,
   .persist .rename, .persist .finish,
   .mem (.pauseChan "t" "c" true), .persist (.beginHandler 0), .persist .read, .persist .read,
   .persist (.openTmp 4), .persist .writeRest, .persist .sync, .persist .rename]

example : (match run toyCodec true Sys.init chanPauseSchedule with
    | some s => (match s.persist with
                 | some p => p.phase == .renamedP && p.done == [⟨"t", false, [⟨"c", true⟩]⟩] && p.owner.isSome
                 | none => false) && (s.fs.dat == some ([⟨"t", false, [⟨"c", true⟩]⟩], none))
    | none => false) = true := by decide

/-- non-vacuity of `cut_full_false` / `C06_cut_partial`: the witness document is a per-topic cut (both entries occur in
live states of the history) and no global one -/
example : (match run toyCodec true Sys.init cutSchedule with
    | some s => s.taken.all (fun D => D.all (fun e => s.hist.any (fun M => (snap M).contains e))) &&
                !(s.hist.map snap).contains [⟨"a", false, []⟩, ⟨"b", false, [⟨"c2", false⟩]⟩]
    | none => false) = true := by decide

def quietCheck (o : Option (Sys (Doc × Option Nat))) : Bool :=
  match o with
  | some s => s.alive && s.pending == 0 && s.handlers.isEmpty && s.persist.isNone &&
      s.mem.all (fun t => !t.exiting) && s.fs.dat == some ([⟨"t", false, []⟩], none)
  | none => false

/-- `Quiet` is satisfiable by a reachable state with a non-empty file -/
example : ∃ s, Reach toyCodec true s ∧ Quiet s ∧ s.fs.dat = some ([⟨"t", false, []⟩], none) := by
  have hc : quietCheck (run toyCodec true Sys.init (f6Schedule.take 17)) = true := by decide
  cases hr : run toyCodec true Sys.init (f6Schedule.take 17) with
  | none => simp [hr, quietCheck] at hc
  | some s =>
    simp only [hr, quietCheck] at hc
    simp only [Bool.and_eq_true, beq_iff_eq, List.isEmpty_iff, Option.isNone_iff_eq_none, List.all_eq_true,
      decide_eq_true_eq] at hc
    obtain ⟨⟨⟨⟨⟨h1, h2⟩, h3⟩, h4⟩, h5⟩, h6⟩ := hc
    refine ⟨s, ⟨_, hr⟩, ⟨⟨h1, h2, h3, h4⟩, ?_⟩, h6⟩
    intro ⟨t, ht, hex, _⟩
    have := h5 t ht
    simp [hex] at this

end Nsq.Props.C06
