import Nsq.Proofs.MetaIdle
/-!
# C06 — Hard-kill consistency of persisted metadata

Property theorems only (helpers: `Nsq.Proofs.Meta*`). Model: `Nsq.Model.Meta` — one `Step` per
critical section / system call of `PersistMetadata`, `writeSyncFile`, `GetMetadata`, `Notify`,
the create / delete / pause paths, `kill` (SIGKILL) and `start` (flock + `LoadMetadata`).
`Reach cd fix s`: `s` is reachable by *some* list of steps from the empty data path — every
interleaving, every kill point, any number of restarts. `fix = true` is the tree with
`fixes/F6_persist_after_delete.patch`; theorems stated for an arbitrary `fix` hold for both trees.
The byte-string type `β` and the JSON codec are parameters (`encoding/json` is trusted to round-trip).
-/
namespace Nsq.Props.C06
open Nsq.Model.FS Nsq.Model.Meta Nsq.Proofs.Meta

variable {β : Type}

/-- At every instant `nsqd.dat` is absent or is the complete serialisation of a snapshot that a
`PersistMetadata` call actually took (never a prefix, never a temporary file's content). -/
theorem dat_absent_or_complete (cd : Codec β) (fix : Bool) (s : Sys β) (h : Reach cd fix s) :
    s.fs.dat = none ∨ ∃ d ∈ s.taken, s.fs.dat = some (cd.marshal d) := by
  have hA := reach_invA h
  cases hl : s.renamed.getLast? with
  | none => left; simp [hA.datEq, hl]
  | some d =>
    right
    refine ⟨d, hA.sub.subset (List.mem_of_getLast? hl), ?_⟩
    simp [hA.datEq, hl]

/-- After a kill at any point (or on an empty data path) the daemon starts: `LoadMetadata` succeeds
and the live maps are exactly the last snapshot that was renamed onto `nsqd.dat`. -/
theorem start_after_kill_ok (cd : Codec β) (hc : cd.RoundTrip) (fix : Bool) (s : Sys β)
    (h : Reach cd fix s) (hdead : s.alive = false) :
    ∃ s', step cd fix s .start = some s' ∧ s'.lastStart = .ok ∧ s'.alive = true ∧
      s'.mem = (match s.renamed.getLast? with | none => [] | some d => loadDoc d) := by
  have hA := reach_invA h
  cases hl : s.renamed.getLast? with
  | none =>
    have hd : s.fs.dat = none := by simp [hA.datEq, hl]
    exact ⟨boot s [], by simp [step, hdead, hd], rfl, rfl, rfl⟩
  | some d =>
    have hd : s.fs.dat = some (cd.marshal d) := by simp [hA.datEq, hl]
    exact ⟨boot s (loadDoc d), by simp [step, hdead, hd, hc d], rfl, rfl, rfl⟩

/-- Restart, then persist, is the identity on the document: loading loses nothing. -/
theorem load_then_snapshot (d : Doc) : snap (loadDoc d) = d := by
  induction d with
  | nil => rfl
  | cons t ts ih =>
    have hc : ∀ cs : List ChanM, ((cs.map loadChan).filter (fun c => !c.eph)).map snapChan = cs := by
      intro cs; induction cs with
      | nil => rfl
      | cons c cs ih => simp_all [loadChan, snapChan]
    have : snap (loadDoc (t :: ts)) = snapTopic (loadTopic t) :: snap (loadDoc ts) := by
      simp [snap, loadDoc, loadTopic]
    rw [this, ih]
    simp [snapTopic, loadTopic, hc]

/-- The file never goes back in time: `nsqd.dat` is the most recently renamed snapshot, and the
renamed snapshots are a subsequence of the snapshots in the order they were taken (all persists
run inside the same critical section). -/
theorem file_is_latest_snapshot (cd : Codec β) (fix : Bool) (s : Sys β) (h : Reach cd fix s) :
    s.fs.dat = s.renamed.getLast?.map cd.marshal ∧ s.renamed.Sublist s.taken :=
  ⟨(reach_invA h).datEq, (reach_invA h).sub⟩

/-- `Quiet`: the daemon runs, no `Notify` continuation or synchronous persist is queued or
running, and no topic deletion is half-way. -/
def Quiet (s : Sys β) : Prop := Idle s ∧ ¬ exitingNE s.mem

/-- The full idle clause: whenever the daemon is quiet, `nsqd.dat` is exactly the snapshot of the
live maps — it lists every completed creation and no completed deletion. -/
def C06_deletion_full (fix : Bool) : Prop :=
  ∀ (β : Type) (cd : Codec β) (s : Sys β), Reach cd fix s → Quiet s →
    s.fs.dat = some (cd.marshal (snap s.mem))

/-- With `fixes/F6_persist_after_delete.patch` the full clause holds. -/
theorem deletion_full : C06_deletion_full true := by
  intro β cd s h ⟨⟨ha, hp, hh, hn⟩, hx⟩
  rcases reach_invI h ha with h1 | h1 | h1 | h1
  · omega
  · exact absurd hh h1
  · exact h1.1 hn
  · exact absurd h1 hx

/-- Every completed creation of a persisted topic / channel is in the file once the daemon is quiet. -/
theorem creation_persisted_when_idle (cd : Codec β) (s : Sys β) (h : Reach cd true s) (hq : Quiet s) :
    ∃ D, s.fs.dat = some (cd.marshal D) ∧ ∀ t ∈ s.mem, t.eph = false → snapTopic t ∈ D :=
  ⟨snap s.mem, deletion_full β cd s h hq, fun t ht he => by
    simp only [snap, List.mem_map, List.mem_filter]
    exact ⟨t, ⟨ht, by simp [he]⟩, rfl⟩⟩

/-- Every entry of the file of a quiet daemon is a live, persisted topic with exactly its live,
persisted channels and flags: nothing deleted is listed. -/
theorem deletion_excluded_when_idle (cd : Codec β) (s : Sys β) (h : Reach cd true s) (hq : Quiet s) :
    ∃ D, s.fs.dat = some (cd.marshal D) ∧ ∀ e ∈ D, ∃ t ∈ s.mem, t.eph = false ∧ e = snapTopic t :=
  ⟨snap s.mem, deletion_full β cd s h hq, fun e he => by
    simp only [snap, List.mem_map, List.mem_filter] at he
    obtain ⟨t, ⟨ht, hne⟩, rfl⟩ := he
    exact ⟨t, ht, by simpa using hne, rfl⟩⟩

/-- A toy codec (a document and how many bytes of it are present) for the counter-example. -/
def toyCodec : Codec (Doc × Option Nat) :=
  { marshal := fun d => (d, none), parse := fun b => if b.2.isNone then some b.1 else none,
    cut := fun k b => (b.1, some k) }

/-- The schedule `start; (startup persist); create topic t; (its Notify persist); delete topic t:
Notify at the start of exit(true), that persist runs while t is still in the map; unlink`. -/
def f6Schedule : List Step :=
  let persistAll : List Step := [.persist .read, .persist .read, .persist (.openTmp 7), .persist .writeRest,
    .persist .sync, .persist .rename, .persist .finish]
  [.start, .persist (.beginHandler 0), .persist .read, .persist (.openTmp 1), .persist .writeRest,
   .persist .sync, .persist .rename, .persist .finish,
   .mem (.createTopic "t" false), .persist .beginNotify] ++ persistAll ++
  [.mem (.delTopicBegin "t"), .persist .beginNotify] ++ persistAll ++
  [.mem (.delTopicUnlink "t")]

/-- what the counter-example establishes about the final state (evaluated by the kernel) -/
def f6Check (o : Option (Sys (Doc × Option Nat))) : Bool :=
  match o with
  | some s => s.alive && s.pending == 0 && s.handlers.isEmpty && s.persist.isNone && s.mem.isEmpty &&
      (match s.fs.dat with | some (d, none) => d == [⟨"t", false, []⟩] | _ => false)
  | none => false

/-- Without the fix the full clause is false: after `create t; delete t` the daemon is quiet, `t`
is gone from the live maps and `nsqd.dat` still lists it (a SIGKILL + restart resurrects it). -/
theorem deletion_full_false_without_fix : ¬ C06_deletion_full false := by
  intro hfull
  have hc : f6Check (run toyCodec false Sys.init f6Schedule) = true := by decide
  cases hr : run toyCodec false Sys.init f6Schedule with
  | none => simp [hr, f6Check] at hc
  | some s =>
    simp only [hr, f6Check] at hc
    have hq : Quiet s := by
      refine ⟨⟨?_, ?_, ?_, ?_⟩, ?_⟩
      · simp_all
      · simp_all
      · simp_all [List.isEmpty_iff]
      · simp_all [Option.isNone_iff_eq_none]
      · intro ⟨t, ht, _⟩
        have : s.mem = [] := by simp_all [List.isEmpty_iff]
        simp [this] at ht
    have hd := hfull _ toyCodec s ⟨_, hr⟩ hq
    have hm : s.mem = [] := by simp_all [List.isEmpty_iff]
    rw [hm, hd] at hc
    simp [toyCodec, snap] at hc
    obtain ⟨_, a, ha, _⟩ := hc
    simp [hm] at ha

/-- The same schedule on the tree with the fix ends with a `del` persist queued (not quiet yet). -/
example : ((run toyCodec true Sys.init f6Schedule).map (fun s => s.handlers.length)) = some 1 := by decide

/-- A second nsqd on a data path that is in use refuses to start and disturbs nothing. -/
theorem second_instance_refused (cd : Codec β) (fix : Bool) (s : Sys β) (h : s.alive = true) :
    step cd fix s .start = some { s with lastStart := .locked } := by
  simp [step, h]

end Nsq.Props.C06
