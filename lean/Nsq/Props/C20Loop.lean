import Nsq.Proofs.ToNsqLoop
/-!
# C20, to_nsq main loop — `--rate` throttle, EOF / `Stop` ordering, SIGTERM

Model: `Nsq/Model/ToNsqLoop.lean` (ticker, reader and main goroutines of `main()`; the schedule is universally
quantified). `records` is the specification of `to_nsq_records` (`Props/C20.lean`): the non-empty
delimiter-separated pieces of stdin. `acked i tr` = the bodies producer `i` acknowledged, in order.
-/
namespace Nsq.Props.C20Loop
open Nsq.Model.Split Nsq.Model.ToNsqLoop Nsq.Proofs.ToNsqLoop

/-- Whatever the rate, the tick / sleep / goroutine schedule, the map iteration orders and signals: what a
producer has acknowledged is always a prefix of the records of stdin (byte-exact, in order, no duplicates). -/
theorem to_nsq_loop_prefix (c : Cfg) (input : Bytes) (s : List Ev) (i : Nat) (hi : i < c.n) :
    acked i (run c (init input) s).trace <+: records c.d input := by
  have h := invRec_run c input s _ (invRec_init c input)
  rw [← Nsq.Proofs.Split.published_fixed, h.split, h.recv i hi]
  cases hp : (run c (init input) s).phase with
  | publishing r todo eof =>
    simp only [inflight, rest]
    by_cases hm : i ∈ todo
    · simp [hm]
    · simp only [hm, if_false]
      exact (List.prefix_append_right_inj _).2 ⟨_, rfl⟩
  | idle => simp [inflight]
  | loaded => simp [inflight]
  | toDec eof => simp [inflight]
  | closed => simp [inflight]

/-- Once the reader has seen EOF (`close(stopChan)`), EVERY producer has acknowledged exactly `records` —
the same sequence for every `--rate` (throttled or not, ticker or not) and every schedule. -/
theorem to_nsq_loop_records (c : Cfg) (input : Bytes) (s : List Ev) (i : Nat) (hi : i < c.n)
    (heof : (run c (init input) s).phase = .closed) :
    acked i (run c (init input) s).trace = records c.d input := by
  rw [← Nsq.Proofs.Split.published_fixed]
  exact closed_all c input _ (invRec_run c input s _ (invRec_init c input)) heof i hi

/-- EOF path (no signal): every `producer.Stop()` happens after every record was acknowledged by every
producer (`b` = the history before that Stop; the trace is newest first), and the process exits 0. -/
theorem to_nsq_eof_flushed_before_stop (c : Cfg) (input : Bytes) (s : List Ev) (hs : Ev.r .sigterm ∉ s) :
    (∀ a b j, (run c (init input) s).trace = a ++ Out.stop j :: b →
        ∀ i, i < c.n → acked i b = records c.d input) ∧
    (∀ k, (run c (init input) s).main = .exited k →
        k = 0 ∧ ∀ i, i < c.n → acked i (run c (init input) s).trace = records c.d input) := by
  have hrec := invRec_run c input s _ (invRec_init c input)
  have hst := invStop_run c input s _ (invRec_init c input) (invStop_init c input)
  have ht := termed_run c s (init input) hs rfl
  rw [← Nsq.Proofs.Split.published_fixed]
  refine ⟨hst.ord ht, fun k hk => ⟨hst.ex ht k hk, ?_⟩⟩
  exact closed_all c input _ hrec (hst.cl ht (by rw [hk]; simp))

/-- Full statement "when the process exits 0 with stdin consumed, every record was acknowledged by every
producer" — FALSE on the signal path. -/
def to_nsq_exit_flushed : Prop :=
  ∀ (c : Cfg) (input : Bytes) (s : List Ev), (run c (init input) s).main = .exited 0 →
    (run c (init input) s).unread = [] → ∀ i, i < c.n → acked i (run c (init input) s).trace = records c.d input

/-- witness: stdin `"a\n"`, two producers; the record is read and acknowledged by producer 0, then SIGTERM:
main stops both producers and exits 0 — producer 1 never got the record although it was consumed from stdin. -/
theorem to_nsq_exit_flushed_false : ¬ to_nsq_exit_flushed := by
  intro h
  have := h (cfgOf 10 2 0) [97, 10] [.r .read, .r (.pub 0), .r .sigterm, .r (.stop 0), .r (.stop 1)]
    (by decide) (by decide) 1 (by decide)
  revert this
  rw [← Nsq.Proofs.Split.published_fixed, Nsq.Proofs.Split.published_eq]
  decide

/-- the provable part: without a signal (forced hypothesis) exit 0 implies everything flushed. -/
theorem to_nsq_exit_flushed_partial (c : Cfg) (input : Bytes) (s : List Ev) (hs : Ev.r .sigterm ∉ s)
    (hx : (run c (init input) s).main = .exited 0) (i : Nat) (hi : i < c.n) :
    acked i (run c (init input) s).trace = records c.d input :=
  ((to_nsq_eof_flushed_before_stop c input s hs).2 0 hx).2 i hi

/-- what a signal can cost: at any moment two producers differ by at most the one record in flight. -/
theorem to_nsq_sigterm_loss_bounded (c : Cfg) (input : Bytes) (s : List Ev) (i j : Nat) (hi : i < c.n) (hj : j < c.n) :
    (acked i (run c (init input) s).trace).length ≤ (acked j (run c (init input) s).trace).length + 1 := by
  have h := invRec_run c input s _ (invRec_init c input)
  rw [h.recv i hi, h.recv j hj]
  simp only [List.length_append]
  have : (inflight i (run c (init input) s).phase).length ≤ 1 := by
    unfold inflight; split
    · split <;> simp
    · simp
  omega

/-- Throttle, counting form. For schedules in which the ticker's `AddInt64` and its capping `StoreInt64` are
not separated by another goroutine (`expand`): loop iterations ≤ 1 + ticks + sleeps, and a producer has
acknowledged at most that many records. -/
theorem to_nsq_throttle_count_partial (c : Cfg) (ht : c.throttle = true) (input : Bytes) (ms : List MEv)
    (i : Nat) (hi : i < c.n) :
    (run c (init input) (expand ms)).loads ≤
        1 + (run c (init input) (expand ms)).ticks + (run c (init input) (expand ms)).sleeps ∧
    (acked i (run c (init input) (expand ms)).trace).length ≤
        1 + (run c (init input) (expand ms)).ticks + (run c (init input) (expand ms)).sleeps := by
  have hc := invCount_run c ms _ (invCount_init c input)
  have hr := invRec_run c input (expand ms) _ (invRec_init c input)
  refine ⟨hc.k, ?_⟩
  rw [hr.recv i hi]
  have hm := hc.m ht
  have hk := hc.k
  have : (inflight i (run c (init input) (expand ms)).phase).length ≤ recProg (run c (init input) (expand ms)).phase := by
    cases (run c (init input) (expand ms)).phase with
    | publishing r todo eof => simp only [inflight, recProg]; split <;> simp
    | idle => simp [inflight]
    | loaded => simp [inflight]
    | toDec eof => simp [inflight]
    | closed => simp [inflight]
  simp only [List.length_append]
  omega

/-- the same bound for ALL schedules — FALSE: the ticker's Add and Store are two atomic actions. -/
def to_nsq_throttle_count : Prop :=
  ∀ (c : Cfg) (input : Bytes) (s : List Ev), c.throttle = true →
    (run c (init input) s).loads ≤ 1 + (run c (init input) s).ticks + (run c (init input) s).sleeps

/-- witness (`--rate 1`): the ticker adds (balance 2 > rate), the reader publishes twice (balance 0), the ticker
then stores `rate` = 1 over it — a decrement is lost and a third iteration runs without sleeping: 3 > 1 + 1 + 0. -/
theorem to_nsq_throttle_count_false : ¬ to_nsq_throttle_count := by
  intro h
  have := h (cfgOf 10 1 1) [97, 10, 98, 10, 99, 10]
    [.tickAdd, .r .load, .r .read, .r (.pub 0), .r .dec, .r .load, .r .read, .r (.pub 0), .r .dec, .tickStore, .r .load]
    (by decide)
  revert this
  decide

/-! ### non-vacuity -/

/-- `--rate 2`, two producers, "a\nb" (unterminated): a throttled run to completion — both producers acknowledge
`a`, `b` before the first Stop, exit 0, one sleep -/
example :
    let st := run (cfgOf 10 2 2) (init [97, 10, 98])
      (expand [.r .load, .r .read, .r (.pub 1), .r (.pub 0), .r .dec, .r .load, .r .read, .tick, .r (.pub 0), .r (.pub 1),
               .r .dec, .r .wake, .r (.stop 1), .r (.stop 0)])
    st.hist = [.pub 1 [97], .pub 0 [97], .pub 0 [98], .pub 1 [98], .stop 1, .stop 0, .exit 0] ∧
      st.phase = .closed ∧ st.loads = 2 ∧ st.ticks = 1 ∧ st.sleeps = 1 := by decide
example : cfgOf 10 2 2 = ⟨10, 2, true, 2, true⟩ ∧ cfgOf 10 1 0 = ⟨10, 1, false, 0, false⟩ ∧
    (cfgOf 10 1 2000000000).ticker = false ∧ intervalNs 3 = 333333333 := by decide
/-- `--rate` above 10^9: interval 0, no ticker, sleeps of length 0 — the count still holds, no time bound follows -/
example : (run (cfgOf 10 1 2000000000) (init [97, 10, 98, 10])
    (expand [.tick, .r .load, .r .read, .r (.pub 0), .r .dec, .tick, .r .load])).sleeps = 1 := by decide
/-- SIGTERM while a record is in flight, then the reader publishes on a stopped producer: exit 1 -/
example : (run (cfgOf 10 2 0) (init [97, 10])
    [.r .read, .r (.pub 0), .r .sigterm, .r (.stop 1), .r (.pub 1)]).main = .exited 1 := by decide
example : Ev.r .sigterm ∉ expand [.r .load, .tick] := by decide

end Nsq.Props.C20Loop
