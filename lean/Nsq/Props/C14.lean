import Nsq.Proofs.RegistryQuery
import Nsq.Proofs.RegistryProto
import Nsq.Proofs.RegistrySched
import Nsq.Tie.Registry
/-!
# C14 — nsqlookupd answers reflect exactly the live registrations

Property theorems only (helpers: `Nsq.Proofs.Registry*`). `Nsq.Model.Registry` is the
implementation-shaped model (association lists for Go maps, peer ids for `*PeerInfo` pointers,
handlers as in the Go code); `Nsq.Spec.RegistrySpec` is the plain registry of the property
statement (sets and one-line answers); `abs` maps one to the other (DESIGN appendix A.2).

`c : Conf` (inactivity timeout, tombstone lifetime), all times `now`, all peers, names and
histories are universally quantified. `Op.modelled` excludes only
`POST /topic/tombstone?topic=*`, whose effect depends on Go's map iteration order.
-/
namespace Nsq.Props.C14
open Nsq.Model.Registry Nsq.Model.Registry.AMap Nsq.Spec.RegistrySpec
open Nsq.Proofs.RegistryRefine Nsq.Proofs.RegistryWF Nsq.Proofs.RegistryQuery

/-! ## 1. Refinement -/

/-- Steps: the empty registry is the empty spec state and every operation (IDENTIFY, REGISTER,
UNREGISTER, PING, disconnect, the five admin calls) commutes with `abs`. -/
theorem refines_step :
    abs init = Spec.init ∧
    ∀ (r : Registry) (op : Op), op.modelled = true → abs (step r op).1 = (abs r).step op :=
  ⟨abs_init, abs_step⟩

/-- … hence for every history, of any length, over any producers / topics / channels / times. -/
theorem refines_run (ops : List Op) (h : ∀ op ∈ ops, op.modelled = true) :
    abs (run init ops) = Spec.init.run ops := by
  rw [abs_run init ops h, abs_init]

/-- The well-formedness invariant (unique keys, unique peers per key, every producer entry
belongs to an identified connection, identified connections are in the `client` registration,
tombstones only on topic entries) holds initially and is preserved by every operation. -/
theorem wf_invariant :
    WF init ∧ ∀ (r : Registry) (op : Op), op.modelled = true → WF r → WF (step r op).1 :=
  ⟨WF_init, WF_step⟩

theorem wf_run (ops : List Op) (h : ∀ op ∈ ops, op.modelled = true) : WF (run init ops) :=
  WF_run init ops h WF_init

/-- Answers: in every well-formed state each of the four answers is, as a duplicate-free list,
exactly the spec answer of `abs r`:
`/topics`; `/channels?topic=t`; `/lookup?topic=t` (404 iff the topic is unknown, its channel
list, and its producers = the connected, recently-pinged nsqds that registered the topic and
are not tombstoned for it); `/nodes` (the connected, recently-pinged nsqds, each with the topics
it registered and the per-topic tombstone flag). -/
theorem answers_refine (c : Conf) (r : Registry) (h : WF r) (now : Int) :
    (∀ t, t ∈ qTopics r ↔ (abs r).topics t) ∧ (qTopics r).Nodup ∧
    (∀ t, t ≠ star → (∀ ch, ch ∈ qChannels r t ↔ (abs r).channels t ch) ∧ (qChannels r t).Nodup) ∧
    (∀ t, t ≠ star → (qLookup c r t now = none ↔ ¬ (abs r).lookupFound t)) ∧
    (∀ t a, qLookup c r t now = some a →
        a.channels = qChannels r t ∧ (a.producers.map (·.1)).Nodup ∧
        ∀ p i, (p, i) ∈ a.producers ↔
          (abs r).producers c t now p ∧ ∃ pr, (abs r).peer p = some pr ∧ pr.info = i) ∧
    (∀ n, n ∈ qNodes c r now ↔
        (abs r).nodes c now n.id ∧ (∃ pr, (abs r).peer n.id = some pr ∧ pr.info = n.info) ∧
        n.topics = nodeTopics c r n.id now) ∧
    ((qNodes c r now).map (·.id)).Nodup ∧
    (∀ p, ((nodeTopics c r p now).map (·.1)).Nodup ∧
        ∀ t b, (t, b) ∈ nodeTopics c r p now ↔
          (abs r).nodeTopic p t ∧ (b = true ↔ (abs r).tombActive c now p t)) :=
  ⟨mem_qTopics r, nodup_qTopics r h,
   fun t ht => ⟨fun ch => mem_qChannels r t ch ht, nodup_qChannels r t ht h⟩,
   fun t ht => qLookup_none_iff c r t now ht,
   fun t a ha => ⟨lookup_channels c r t now a ha, nodup_lookup_producers c r t now a h ha,
                  mem_lookup_producers c r t now a h ha⟩,
   mem_qNodes c r now h, nodup_qNodes c r now h,
   fun p => ⟨nodup_nodeTopics c r p now h, mem_nodeTopics c r p now h⟩⟩

/-- The property: after EVERY history the answers are the ones the plain registry, run on the
same history, predicts. -/
theorem history_answers (c : Conf) (ops : List Op) (hm : ∀ op ∈ ops, op.modelled = true) (now : Int) :
    let r := run init ops
    let s := Spec.init.run ops
    (∀ t, t ∈ qTopics r ↔ s.topics t) ∧
    (∀ t ch, t ≠ star → (ch ∈ qChannels r t ↔ s.channels t ch)) ∧
    (∀ t, t ≠ star → (qLookup c r t now = none ↔ ¬ s.lookupFound t)) ∧
    (∀ t a p, qLookup c r t now = some a → (p ∈ a.producers.map (·.1) ↔ s.producers c t now p)) ∧
    (∀ p, p ∈ (qNodes c r now).map (·.id) ↔ s.nodes c now p) := by
  intro r s
  have hs : abs r = s := refines_run ops hm
  have hw : WF r := wf_run ops hm
  have ha := answers_refine c r hw now
  rw [hs] at ha
  refine ⟨ha.1, fun t ch ht => (ha.2.2.1 t ht).1 ch, ha.2.2.2.1, ?_, ?_⟩
  · intro t a p hq
    have := (ha.2.2.2.2.1 t a hq).2.2 p
    simp only [List.mem_map]
    constructor
    · intro ⟨e, he, hp⟩
      cases e with
      | mk q i => simp only at hp; subst hp; exact ((this i).mp he).1
    · intro hp
      have hrec := hp.2.2.1
      obtain ⟨pr, hpr, _⟩ := hrec
      exact ⟨(p, pr.info), (this pr.info).mpr ⟨hp, pr, hpr, rfl⟩, rfl⟩
  · intro p
    simp only [List.mem_map]
    constructor
    · intro ⟨n, hn, hp⟩; subst hp; exact ((ha.2.2.2.2.2.1 n).mp hn).1
    · intro hp
      obtain ⟨pr, hpr, _⟩ := hp.2
      exact ⟨⟨p, pr.info, nodeTopics c r p now⟩,
        (ha.2.2.2.2.2.1 _).mpr ⟨hp, ⟨pr, hpr, rfl⟩, rfl⟩, rfl⟩

/-! ## 2. Corollaries -/

/-- An nsqd that disconnects is at once gone from every producer list and from `/nodes`. -/
theorem disconnect_immediate (c : Conf) (r : Registry) (h : WF r) (p : Nat) (now : Int) :
    (∀ t a, qLookup c (disconnect r p) t now = some a → p ∉ a.producers.map (·.1)) ∧
    p ∉ (qNodes c (disconnect r p) now).map (·.id) := by
  have hw := WF_disconnect r p h
  have hid : identifiedB (disconnect r p) p = false := by
    cases hi : identifiedB r p with
    | true => rw [identifiedB_disconnect r p p hi]; simp
    | false => unfold disconnect; simp [hi]
  have hnl : ¬ (abs (disconnect r p)).live p := by
    intro hl
    have := hw.peerKnown clientKey p hl
    rw [hid] at this; exact absurd this (by simp)
  constructor
  · intro t a ha hm
    simp only [List.mem_map] at hm
    obtain ⟨e, he, hp⟩ := hm
    cases e with
    | mk q i =>
      simp only at hp; subst hp
      exact hnl ((mem_lookup_producers c _ t now a hw ha q i).mp he).1.2.1
  · intro hm
    simp only [List.mem_map] at hm
    obtain ⟨n, hn, hp⟩ := hm
    subst hp
    exact hnl ((mem_qNodes c _ now hw n).mp hn).1.1

/-- … and EVERY way a connection can end runs that clean-up: for every byte stream the peer sent,
every registry, every JSON decoder and every pattern `wf` of answers the peer still read before
it went away (read error / EOF, a fatal error whose answer could or could not be written, the
failed write of the answer of a SUCCESSFUL command), the peer is afterwards in no producer list,
not in `/nodes`, and has no entry under any key. (`fin = panic` does not occur: C15.) -/
theorem disconnect_every_exit (c : Conf) (v : Nsq.Model.RegistryProto.Variant)
    (decode : List UInt8 → Option Info) (wf : Nat → Bool) (r : Registry) (h : WF r) (p : Nat) (now : Int)
    (inp : List UInt8) (now' : Int)
    (hfin : (Nsq.Model.RegistryProto.handleW v decode wf r p now inp).fin = .eof ∨
            (Nsq.Model.RegistryProto.handleW v decode wf r p now inp).fin = .fatal ∨
            (Nsq.Model.RegistryProto.handleW v decode wf r p now inp).fin = .writeFail) :
    let r' := (Nsq.Model.RegistryProto.handleW v decode wf r p now inp).reg
    (∀ t a, qLookup c r' t now' = some a → p ∉ a.producers.map (·.1)) ∧
    p ∉ (qNodes c r' now').map (·.id) ∧ (∀ k, getP r'.db k p = none) ∧ identifiedB r' p = false := by
  intro r'
  have key : Nsq.Proofs.RegistryProto.Gone p r' ∧ WF r' :=
    Nsq.Proofs.RegistryProto.handleW_exit_gone v decode wf r p now inp h hfin
  obtain ⟨⟨hid, hnone⟩, hw⟩ := key
  have hnl : ¬ (abs r').live p := by
    intro hl
    simp only [abs, hnone] at hl
    simp at hl
  refine ⟨?_, ?_, hnone, hid⟩
  · intro t a ha hm
    simp only [List.mem_map] at hm
    obtain ⟨e, he, hp⟩ := hm
    cases e with
    | mk q i =>
      simp only at hp; subst hp
      exact hnl ((mem_lookup_producers c _ t now' a hw ha q i).mp he).1.2.1
  · intro hm
    simp only [List.mem_map] at hm
    obtain ⟨n, hn, hp⟩ := hm
    subst hp
    exact hnl ((mem_qNodes c _ now' hw n).mp hn).1.1

/-- non-vacuity: the peer identifies, registers, sends a second REGISTER and goes away without
reading its answer (`wf` fails at reply 2): the command is executed, then everything is removed -/
example :
    let res := Nsq.Model.RegistryProto.handleW Nsq.Model.RegistryProto.fixedV
      (fun _ => some ⟨[104], [110], [118], 1, 2⟩) (fun n => n < 2) init 7 0
      (Nsq.Model.RegistryProto.magicV1 ++ Nsq.Model.RegistryProto.cmdIDENTIFY ++ [10, 0, 0, 0, 1, 123] ++
        Nsq.Model.RegistryProto.cmdREGISTER ++ [32, 116, 10] ++ Nsq.Model.RegistryProto.cmdREGISTER ++ [32, 117, 10])
    res.fin = .writeFail ∧ res.replies.length = 2 ∧ qTopics res.reg = [[116], [117]] ∧
      (qLookup ⟨10, 10⟩ res.reg [117] 0).map (fun a => a.producers.length) = some 0 := by decide

/-- A tombstone hides only the named producer for the named topic: other topics, and nodes with
another address, keep their answers; `/nodes` never loses a node to a tombstone. -/
theorem tombstone_scoped (c : Conf) (r : Registry) (t node : Name) (at_ : Int) (ht : t ≠ star) :
    let r' := (tombstone r ⟨false, some t, none, some node⟩ at_).1
    (∀ t' q now, t' ≠ t → ((abs r').producers c t' now q ↔ (abs r).producers c t' now q)) ∧
    (∀ t' q now, ¬ (abs r).nodeIs q node → ((abs r').producers c t' now q ↔ (abs r).producers c t' now q)) ∧
    (∀ q now, (abs r').nodes c now q ↔ (abs r).nodes c now q) := by
  intro r'
  have e : abs r' = (abs r).tombstone ⟨false, some t, none, some node⟩ at_ :=
    abs_tombstone r _ at_ (by simp; exact ht)
  rw [e]
  simp only [Spec.tombstone, Bool.false_eq_true, if_false, Spec.producers, Spec.nodes, Spec.recent,
    Spec.tombActive]
  refine ⟨?_, ?_, ?_⟩
  · intro t' q now hne; simp [hne]
  · intro t' q now hn; simp [hn]
  · intro q now; first | rfl | trivial | exact Iff.rfl

/-- … and the named producer IS hidden for the named topic while the tombstone is in force,
if it is registered there and its address matches. -/
theorem tombstone_hides (c : Conf) (r : Registry) (t node : Name) (at_ : Int) (ht : t ≠ star) (q : Nat)
    (now : Int) (hreg : (abs r).topicReg q t) (hnode : (abs r).nodeIs q node) (hlife : now - at_ < c.tombLife) :
    ¬ (abs (tombstone r ⟨false, some t, none, some node⟩ at_).1).producers c t now q := by
  have e := abs_tombstone r ⟨false, some t, none, some node⟩ at_ (by simp; exact ht)
  rw [e]
  intro h
  obtain ⟨_, _, _, hnt⟩ := h
  apply hnt
  refine ⟨at_, ?_, hlife⟩
  simp [Spec.tombstone, hreg, hnode]

/-- A tombstone lapses after the tombstone lifetime … -/
theorem tombstone_lapses_time (c : Conf) (r : Registry) (p : Nat) (t : Name) (τ now : Int)
    (h : (abs r).tomb p t τ) (hl : now - τ ≥ c.tombLife) : ¬ (abs r).tombActive c now p t := by
  intro ⟨τ', h', hlt⟩
  simp only [abs] at h h'
  rw [h] at h'
  simp only [Option.some.injEq, Tomb.mk.injEq, true_and] at h'
  omega

/-- … or when that producer unregisters the topic: a later REGISTER creates a fresh,
untombstoned entry. -/
theorem tombstone_lapses_unregister (r : Registry) (p : Nat) (t : Name) (hi : identifiedB r p = true)
    (hv : validName t = true) :
    ∀ τ, ¬ (abs (register (unregister r p [t]).1 p [t]).1).tomb p t τ := by
  intro τ
  have hg : ∀ cmd, getTopicChan cmd [t] = .ok ⟨t, []⟩ := by
    intro cmd; simp [getTopicChan, hv, chanParam]
  have h1 : abs (unregister r p [t]).1 = (abs r).unregisterTopic p t := by
    rw [abs_unregister]; simp [Spec.unregister, identified_abs, hi, hg]
  have hi3 : ((abs r).unregisterTopic p t).identified p = true := by
    show ((abs r).peer p).isSome = true
    exact hi
  rw [abs_register, h1]
  unfold Spec.register
  rw [hi3]
  simp only [Bool.not_true, Bool.false_eq_true, if_false, hg]
  simp [Spec.registerTC, Spec.unregisterTopic]

/-- An nsqd that has not pinged for longer than the inactivity timeout is absent from `/lookup`
and `/nodes`; a PING brings it back. -/
theorem inactive_hidden (c : Conf) (r : Registry) (p : Nat) (pr : PeerRec) (now : Int)
    (hp : (abs r).peer p = some pr) (hold : now - pr.lastUpdate > c.inactive) (hc : 0 ≤ c.inactive) :
    (∀ t, ¬ (abs r).producers c t now p) ∧ ¬ (abs r).nodes c now p ∧
    (abs (ping r p now)).recent c now p := by
  refine ⟨?_, ?_, ?_⟩
  · intro t h
    obtain ⟨pr', h1, h2⟩ := h.2.2.1
    rw [hp] at h1; simp only [Option.some.injEq] at h1; subst h1; omega
  · intro h
    obtain ⟨pr', h1, h2⟩ := h.2
    rw [hp] at h1; simp only [Option.some.injEq] at h1; subst h1; omega
  · rw [abs_ping]
    simp only [Spec.recent, Spec.ping, if_true, hp, Option.map_some, Option.some.injEq]
    exact ⟨_, rfl, by simp; omega⟩

/-- Registering the same thing twice is the same as registering it once. -/
theorem dup_register_idempotent (r : Registry) (p : Nat) (params : List Name) :
    abs (register (register r p params).1 p params).1 = abs (register r p params).1 := by
  rw [abs_register, abs_register]
  generalize abs r = s
  unfold Spec.register
  cases hi : s.identified p with
  | false => simp [hi]
  | true =>
    simp only [Bool.not_true, Bool.false_eq_true, if_false]
    cases hg : getTopicChan "REGISTER" params with
    | error e =>
      simp only
      have : (s.disconnect p).identified p = false := by
        simp only [Spec.identified] at hi
        simp [Spec.disconnect, Spec.identified, hi]
      simp [this]
    | ok tc =>
      simp only
      have : (s.registerTC p tc).identified p = true := by simpa [Spec.registerTC, Spec.identified] using hi
      simp only [this, Bool.not_true, Bool.false_eq_true, if_false]
      unfold Spec.registerTC
      apply Spec.ext' <;> simp only <;> (try funext a) <;> (try funext b) <;> (try funext d) <;>
        (try apply propext) <;> (try grind)

/-- Unregistering something that was never registered changes nothing (unless it names an
`#ephemeral` channel nobody is registered for: that key is then dropped, as in the code). -/
theorem unregister_unknown_noop (r : Registry) (p : Nat) (t ch : Name) (hi : identifiedB r p = true)
    (hv : validName t = true) (hvc : validName ch = true)
    (hnot : ¬ (abs r).chanReg p t ch)
    (hkeep : isEphemeral ch = false ∨ ∃ q, (abs r).chanReg q t ch) :
    abs (unregister r p [t, ch]).1 = abs r := by
  have hne : ch ≠ [] := by intro h; subst h; revert hvc; decide
  have hg : getTopicChan "UNREGISTER" [t, ch] = .ok ⟨t, ch⟩ := by
    simp [getTopicChan, hv, hvc, chanParam]
  rw [abs_unregister]
  simp only [Spec.unregister, identified_abs, hi, hg, Bool.not_true, Bool.false_eq_true, if_false, ne_eq, hne,
    not_false_eq_true, if_true]
  generalize abs r = s at hnot hkeep
  unfold Spec.unregisterChan
  apply Spec.ext' <;> simp only <;> (try funext a) <;> (try funext b) <;> (try funext d) <;>
    (try apply propext) <;> (try grind)

/-- An `#ephemeral` channel (topic) disappears when its last producer UNREGISTERs it; an abrupt
disconnect does NOT remove the key (the spec records this faithfully). -/
theorem ephemeral_gc (r : Registry) (p : Nat) (t ch : Name) (hi : identifiedB r p = true)
    (hv : validName t = true) (hvc : validName ch = true) (he : isEphemeral ch = true)
    (hlast : ∀ q, (abs r).chanReg q t ch → q = p) :
    ¬ (abs (unregister r p [t, ch]).1).knownChan t ch ∧
    ((abs (disconnect r p)).knownChan = (abs r).knownChan ∧
     (abs (disconnect r p)).knownTopic = (abs r).knownTopic) := by
  have hne : ch ≠ [] := by intro h; subst h; revert hvc; decide
  have hg : getTopicChan "UNREGISTER" [t, ch] = .ok ⟨t, ch⟩ := by
    simp [getTopicChan, hv, hvc, chanParam]
  constructor
  · rw [abs_unregister]
    have : (abs r).unregister p [t, ch] = (abs r).unregisterChan p t ch := by
      simp [Spec.unregister, identified_abs, hi, hg, hne]
    rw [this]
    intro h
    exact h.2 ⟨rfl, rfl, he, hlast⟩
  · rw [abs_disconnect]
    unfold Spec.disconnect
    split <;> simp

theorem ephemeral_gc_topic (r : Registry) (p : Nat) (t : Name) (hi : identifiedB r p = true)
    (hv : validName t = true) (he : isEphemeral t = true) (hlast : ∀ q, (abs r).topicReg q t → q = p) :
    ¬ (abs (unregister r p [t]).1).knownTopic t := by
  have hg : getTopicChan "UNREGISTER" [t] = .ok ⟨t, []⟩ := by simp [getTopicChan, hv, chanParam]
  rw [abs_unregister]
  have : (abs r).unregister p [t] = (abs r).unregisterTopic p t := by
    simp [Spec.unregister, identified_abs, hi, hg]
  rw [this]
  intro h
  exact h.2 ⟨rfl, he, hlast⟩

/-- `POST /topic/delete?topic=t` removes the topic and all its channels for every producer, and
nothing else. -/
theorem admin_delete_topic (r : Registry) (t : Name) (ht : t ≠ star) :
    let s' := abs (deleteTopic r ⟨false, some t, none, none⟩).1
    ¬ s'.knownTopic t ∧ (∀ ch, ¬ s'.knownChan t ch) ∧ (∀ q, ¬ s'.topicReg q t) ∧
    (∀ q ch, ¬ s'.chanReg q t ch) ∧
    (∀ t', t' ≠ t → (s'.knownTopic t' ↔ (abs r).knownTopic t') ∧
        (∀ ch, s'.knownChan t' ch ↔ (abs r).knownChan t' ch) ∧
        (∀ q, s'.topicReg q t' ↔ (abs r).topicReg q t') ∧
        (∀ q ch, s'.chanReg q t' ch ↔ (abs r).chanReg q t' ch)) := by
  intro s'
  have e : s' = (abs r).deleteTopic ⟨false, some t, none, none⟩ := abs_deleteTopic r _
  rw [e]
  simp only [Spec.deleteTopic, Bool.false_eq_true, if_false, tmatch, ht, false_or]
  refine ⟨by simp, by simp, by simp, by simp, ?_⟩
  intro t' hne
  simp [hne]

/-! ## 3. Concurrency: where handler calls are NOT atomic

The theorems above treat one handler call as one step. In the code each `RegistrationDB` method
is one critical section; before commit 994e31e (F12) UNREGISTER's remove-then-prune was two sections
(`unregister_is_two_sections` describes that OLD code; `RemoveProducerAndPrune` made it one), and before
commit 0d24920 (F21) REGISTER, `/topic/delete`, `/channel/create` were several sections each
(`register_is_two_sections`, `deleteTopic_is_two_sections` describe that OLD code). The decompositions are
exact (`…_is_two_sections`), and two interleavings end in a state that NO serial order of the
two calls reaches — i.e. "exactly what a plain registry predicts" was false for overlapping
calls (findings `race:unregister-gc-vs-register`, `race:register-vs-topic-delete`, both FIXED; replayed on
the real daemon by harness/e4 `TestVerifE4Races` on every run). Which shape the CURRENT tree has is not a
constant of this file: `Nsq.Tie.Registry.treeAtomic`, `readersAtomic`, `tombstoneAtomic` are computed from the
regenerated facts, and the theorems `…_tree` below are stated over them (audit B12). The READERS `GET /lookup`,
`GET /nodes` were several critical sections (audit B5) until commit 682420a (F37), and the tombstone marks were written
with no lock held (audit B6) until commit 415122f (F38): both are committed, the ties accept only the repaired shapes
(`Tie.Registry.readers_atomic`, `tombstone_atomic`), and `concurrent_readers_linearizable_this_tree` is the full
statement for this tree; the `…_false` theorems are about the shapes before the fixes. -/

theorem unregister_is_two_sections (db : DB) (p : Nat) (t c : Name) (hc : c ≠ []) :
    unregisterDB db p ⟨t, c⟩ = unregChanStep2 (unregChanStep1 db t c p).1 t c (unregChanStep1 db t c p).2 := by
  simp only [unregisterDB, hc, ne_eq, not_false_eq_true, if_true, removeAndGC, unregChanStep1, unregChanStep2]
  rfl

theorem register_is_two_sections (db : DB) (p : Nat) (t c : Name) (hc : c ≠ []) :
    registerDB db p ⟨t, c⟩ = regStep2 (regStep1 db t c p) t p := by
  simp [registerDB, hc, regStep1, regStep2]

theorem deleteTopic_is_two_sections (db : DB) (t : Name) :
    deleteTopicDB db t = delTopicStep2 (delTopicStep1 db t) t := rfl

/-- "Overlapping handler calls behave like some serial order", for the pair
UNREGISTER(a) ‖ REGISTER(b) on one channel, schedule a₁ b₁ a₂ b₂. -/
def concurrent_unregister_register_linearizable : Prop :=
  ∀ (db : DB) (a b : Nat) (t c : Name), a ≠ b → c ≠ [] →
    let s1 := unregChanStep1 db t c a
    let final := regStep2 (unregChanStep2 (regStep1 s1.1 t c b) t c s1.2) t b
    (∀ k q, getP final k q = getP (registerDB (unregisterDB db a ⟨t, c⟩) b ⟨t, c⟩) k q) ∨
    (∀ k q, getP final k q = getP (unregisterDB (registerDB db b ⟨t, c⟩) a ⟨t, c⟩) k q)

/-- FALSE: `a` is the last producer of an `#ephemeral` channel and unregisters; `b`'s
`AddProducer` lands between `a`'s `RemoveProducer` (left = 0) and `RemoveRegistration`: the key
is deleted together with `b`'s registration, although `b` was answered OK. Both serial orders
keep `b` registered. -/
theorem concurrent_unregister_register_linearizable_false :
    ¬ concurrent_unregister_register_linearizable := by
  intro h
  have := h [(chanKey [116] ([100] ++ ephSuffix), [(1, fresh)]), (topicKey [116], [(1, fresh)])] 1 2 [116]
    ([100] ++ ephSuffix) (by decide) (by decide)
  cases this with
  | inl h1 => exact absurd (h1 (chanKey [116] ([100] ++ ephSuffix)) 2) (by decide)
  | inr h2 => exact absurd (h2 (chanKey [116] ([100] ++ ephSuffix)) 2) (by decide)

/-- Same for REGISTER(p) ‖ /topic/delete, schedule p₁ d₁ d₂ p₂. -/
def concurrent_register_delete_linearizable : Prop :=
  ∀ (db : DB) (p : Nat) (t c : Name), c ≠ [] → t ≠ star →
    let final := regStep2 (delTopicStep2 (delTopicStep1 (regStep1 db t c p) t) t) t p
    (∀ k, has final k = has (deleteTopicDB (registerDB db p ⟨t, c⟩) t) k) ∨
    (∀ k, has final k = has (registerDB (deleteTopicDB db t) p ⟨t, c⟩) k)

/-- FALSE: the topic ends up registered without the channel that was registered with it. -/
theorem concurrent_register_delete_linearizable_false : ¬ concurrent_register_delete_linearizable := by
  intro h
  have := h [] 1 [116] [99] (by decide) (by decide)
  cases this with
  | inl h1 => exact absurd (h1 (topicKey [116])) (by decide)
  | inr h2 => exact absurd (h2 (chanKey [116] [99])) (by decide)

/-! ### The repair F21 (one critical section per handler) makes both windows disappear

`registerSecs` / `deleteTopicSecs` / `createChannelSecs` list the critical sections of the three
handlers, before F21 (`atomic = false`) and since commit 0d24920 = F21
(`atomic = true`: `RegistrationDB.RegisterProducer`, `RemoveTopic`, `AddTopicChannel`; the tie
`register_shape`, `admin_topic_shape` accepts ONLY this shape and computes `treeAtomic` from it).
`interleave` enumerates every schedule of two concurrent handler calls. -/

/-- both section lists compose to the handler of the sequential model -/
theorem sections_compose (atomic : Bool) (db : DB) (p : Nat) (t c : Name) (hc : c ≠ []) :
    runSecs db (registerSecs atomic p t c) = registerDB db p ⟨t, c⟩ ∧
    runSecs db (deleteTopicSecs atomic t) = deleteTopicDB db t ∧
    runSecs db (createChannelSecs atomic t c) = createChannelDB db t c := by
  cases atomic <;>
    simp [runSecs, registerSecs, deleteTopicSecs, createChannelSecs, registerDB, hc, regStep1, regStep2,
      deleteTopicDB, delTopicStep1, delTopicStep2, createChannelDB, createChanStep1, createChanStep2]

/-- With F21: EVERY schedule of REGISTER ‖ `/topic/delete` ends in the state of one of the two
serial orders (any registry, producer, names — also `topic=*`) … -/
theorem concurrent_register_delete_linearizable_fixed (db : DB) (p : Nat) (t c : Name) :
    ∀ s ∈ interleave (registerSecs true p t c) (deleteTopicSecs true t),
      runSecs db s = deleteTopicDB (registerDB db p ⟨t, c⟩) t ∨
      runSecs db s = registerDB (deleteTopicDB db t) p ⟨t, c⟩ := by
  intro s hs
  simp only [interleave, interleaveF, registerSecs, deleteTopicSecs, if_true, List.length_cons, List.length_nil,
    List.map_cons, List.map_nil, List.cons_append, List.nil_append, List.mem_cons, List.not_mem_nil, or_false] at hs
  rcases hs with rfl | rfl <;> simp [runSecs]

/-- … and so does every schedule of `/channel/create` ‖ `/topic/delete`. -/
theorem concurrent_create_delete_linearizable_fixed (db : DB) (t c : Name) :
    ∀ s ∈ interleave (createChannelSecs true t c) (deleteTopicSecs true t),
      runSecs db s = deleteTopicDB (createChannelDB db t c) t ∨
      runSecs db s = createChannelDB (deleteTopicDB db t) t c := by
  intro s hs
  simp only [interleave, interleaveF, createChannelSecs, deleteTopicSecs, if_true, List.length_cons, List.length_nil,
    List.map_cons, List.map_nil, List.cons_append, List.nil_append, List.mem_cons, List.not_mem_nil, or_false] at hs
  rcases hs with rfl | rfl <;> simp [runSecs]

/-- "Every schedule of the two handlers is explained by a serial order" (which keys exist), for the
section lists selected by `atomic`. -/
def concurrent_schedules_linearizable (atomic : Bool) : Prop :=
  ∀ (db : DB) (p : Nat) (t c : Name), c ≠ [] → t ≠ star →
    (∀ s ∈ interleave (registerSecs atomic p t c) (deleteTopicSecs atomic t),
      (∀ k, has (runSecs db s) k = has (deleteTopicDB (registerDB db p ⟨t, c⟩) t) k) ∨
      (∀ k, has (runSecs db s) k = has (registerDB (deleteTopicDB db t) p ⟨t, c⟩) k)) ∧
    (∀ s ∈ interleave (createChannelSecs atomic t c) (deleteTopicSecs atomic t),
      (∀ k, has (runSecs db s) k = has (deleteTopicDB (createChannelDB db t c) t) k) ∨
      (∀ k, has (runSecs db s) k = has (createChannelDB (deleteTopicDB db t) t c) k))

theorem concurrent_schedules_linearizable_fixed : concurrent_schedules_linearizable true := by
  intro db p t c _ _
  refine ⟨fun s hs => ?_, fun s hs => ?_⟩
  · rcases concurrent_register_delete_linearizable_fixed db p t c s hs with h | h
    · left; intro k; rw [h]
    · right; intro k; rw [h]
  · rcases concurrent_create_delete_linearizable_fixed db t c s hs with h | h
    · left; intro k; rw [h]
    · right; intro k; rw [h]

/-- FALSE for the section lists BEFORE F21 (0d24920): the schedule `create₁ delete₁ delete₂ create₂` from the empty
registry leaves the topic without the channel created with it (and REGISTER has the same window, above). -/
theorem concurrent_schedules_linearizable_unfixed_false : ¬ concurrent_schedules_linearizable false := by
  intro h
  have := (h [] 1 [116] [99] (by decide) (by decide)).2
    [fun db => createChanStep1 db [116] [99], fun db => delTopicStep1 db [116], fun db => delTopicStep2 db [116],
     fun db => createChanStep2 db [116]]
    (by simp [interleave, interleaveF, createChannelSecs, deleteTopicSecs])
  cases this with
  | inl h1 => exact absurd (h1 (topicKey [116])) (by decide)
  | inr h2 => exact absurd (h2 (chanKey [116] [99])) (by decide)

/-- non-vacuity: the unfixed handlers have six schedules each, the fixed ones two -/
example : (interleave (registerSecs false 1 [116] [99]) (deleteTopicSecs false [116])).length = 6 ∧
    (interleave (registerSecs true 1 [116] [99]) (deleteTopicSecs true [116])).length = 2 := by decide

/-- THIS tree (audit B12): the section lists are selected by `Nsq.Tie.Registry.treeAtomic`, which is COMPUTED from the
regenerated facts (`register_shape`, `admin_topic_shape`). With F21 reverted the facts decide `treeAtomic = false`,
`tree_atomic` fails and so does this theorem — it does not hold "by a constant". -/
theorem concurrent_schedules_linearizable_tree : concurrent_schedules_linearizable Nsq.Tie.Registry.treeAtomic := by
  rw [Nsq.Tie.Registry.tree_atomic]
  exact concurrent_schedules_linearizable_fixed

/-- non-vacuity: the tree's section lists are the one-section ones, two schedules per pair -/
example : (interleave (registerSecs Nsq.Tie.Registry.treeAtomic 1 [116] [99])
    (deleteTopicSecs Nsq.Tie.Registry.treeAtomic [116])).length = 2 := by
  rw [Nsq.Tie.Registry.tree_atomic]; decide

/-! ### Readers (audit round 7, B5): `GET /lookup` and `GET /nodes` as lists of critical sections

`lookupSecs` / `nodesSecs` (`Nsq.Model.RegistrySched`): what the reader has read so far is carried next to the
registry. `ws` is ANY sequence of single-critical-section calls (the writers of this tree since F12/F21: REGISTER,
UNREGISTER channel, `/topic/create|delete`, `/channel/create`, one `RemoveProducer` of a disconnect, … — in the order
in which they took the lock). "Linearizable" = the reader's answer is the answer ONE state of that serial order
gives: the state after the first `k` calls. -/

def concurrent_lookup_linearizable (readersAtomic : Bool) : Prop :=
  ∀ (db : DB) (ws : List Section) (t : Name),
    ∀ s ∈ interleave (ws.map wsec) (lookupSecs readersAtomic t),
      ∃ k, k ≤ ws.length ∧
        runSecsO (db, LookupObs.init) s = (runSecs db ws, lookupDB (runSecs db (ws.take k)) t)

/-- `ids` = the nodes section 1 of `doNodes` returns (the writers `ws` considered leave the `client` key alone) -/
def concurrent_nodes_linearizable (readersAtomic : Bool) : Prop :=
  ∀ (db : DB) (ws : List Section),
    ∀ s ∈ interleave (ws.map wsec) (nodesSecs readersAtomic ((producersOf db clientKey).map (·.1))),
      ∃ k, k ≤ ws.length ∧
        runSecsO (db, NodesObs.init) s = (runSecs db ws, nodesDB (runSecs db (ws.take k)))

/-- FALSE for the three sections of `doLookup` as they were BEFORE F37 (682420a; finding
`race:lookup-vs-topic-delete`, fixed): topic `t` exists with channel `c` (created together by `/channel/create`);
schedule `lookup₁ (topic found) · /topic/delete · lookup₂ (no channels) · lookup₃`: the answer is
`200 channels: []`, but before the deletion the answer is `200 channels: [c]` and after it `404`. -/
theorem concurrent_lookup_delete_linearizable_false : ¬ concurrent_lookup_linearizable false := by
  intro h
  obtain ⟨k, hk, e⟩ := h (createChannelDB [] [116] [99]) (deleteTopicSecs true [116]) [116]
    [lookupRead1 [116], wsec (fun db => deleteTopicDB db [116]), lookupRead2 [116], lookupRead3 [116]]
    (by simp [interleave, interleaveF, lookupSecs, deleteTopicSecs])
  have e2 := congrArg Prod.snd e
  simp only [deleteTopicSecs, if_true, List.length_cons, List.length_nil] at hk
  match k, hk with
  | 0, _ => exact absurd e2 (by decide)
  | 1, _ => exact absurd e2 (by decide)

/-- With F37 (one `RLock` around the handler): for EVERY sequence of single-section writers and every schedule, the
answer of `GET /lookup` is the atomic answer on the state after some prefix of the writers, and the writers are not
disturbed. -/
theorem concurrent_lookup_linearizable_fixed : concurrent_lookup_linearizable true := by
  intro db ws t s hs
  exact Nsq.Proofs.RegistrySched.atomic_reader_sees_prefix ws (fun db => lookupDB db t) db LookupObs.init s
    (by simpa [lookupSecs] using hs)

/-- the case the race leg replays: ONE writer call `w` — the answer is that of one of the two serial orders -/
theorem concurrent_lookup_one_writer_fixed (db : DB) (w : Section) (t : Name) :
    ∀ s ∈ interleave [wsec w] (lookupSecs true t),
      (runSecsO (db, LookupObs.init) s).2 = lookupDB db t ∨ (runSecsO (db, LookupObs.init) s).2 = lookupDB (w db) t := by
  intro s hs
  obtain ⟨k, hk, e⟩ := concurrent_lookup_linearizable_fixed db [w] t s hs
  rw [e]
  match k, hk with
  | 0, _ => left; rfl
  | 1, _ => right; rfl

/-- FALSE for the sections of `doNodes` as they were BEFORE F37 (finding `race:nodes-vs-topic-delete`, fixed): nodes 1
and 3, both registered for topic `t`; one client issues `/topic/delete?topic=t`, `REGISTER t` (node 1), `REGISTER t`
(node 3). Schedule: clients · delete · topics(1) = [] · flags(1) · REGISTER 1 · REGISTER 3 · topics(3) = [t] · flags(3):
`/nodes` lists `t` for node 3 but not for node 1; the states of the serial order are {1,3}, {}, {1}, {1,3}. -/
theorem concurrent_nodes_delete_linearizable_false : ¬ concurrent_nodes_linearizable false := by
  intro h
  obtain ⟨k, hk, e⟩ := h
    [(clientKey, [(1, fresh), (3, fresh)]), (topicKey [116], [(1, fresh), (3, fresh)])]
    [fun db => deleteTopicDB db [116], fun db => registerDB db 1 ⟨[116], []⟩, fun db => registerDB db 3 ⟨[116], []⟩]
    [nodesRead1, wsec (fun db => deleteTopicDB db [116]), nodesReadTopics 1, nodesReadFlags 1,
     wsec (fun db => registerDB db 1 ⟨[116], []⟩), wsec (fun db => registerDB db 3 ⟨[116], []⟩),
     nodesReadTopics 3, nodesReadFlags 3]
    (by simp [interleave, interleaveF, nodesSecs, producersOf, mget, clientKey])
  have e2 := congrArg Prod.snd e
  simp only [List.length_cons, List.length_nil] at hk
  match k, hk with
  | 0, _ => exact absurd e2 (by decide)
  | 1, _ => exact absurd e2 (by decide)
  | 2, _ => exact absurd e2 (by decide)
  | 3, _ => exact absurd e2 (by decide)

/-- With F37: the answer of `GET /nodes` is the atomic answer on the state after some prefix of the writers. -/
theorem concurrent_nodes_linearizable_fixed : concurrent_nodes_linearizable true := by
  intro db ws s hs
  exact Nsq.Proofs.RegistrySched.atomic_reader_sees_prefix ws nodesDB db NodesObs.init s
    (by simpa [nodesSecs] using hs)

/-- The readers are linearizable exactly when the regenerated facts say they are one critical section
(`Nsq.Tie.Registry.readersAtomic`, computed). Kept as the characterisation; the statement about THIS tree is
`concurrent_readers_linearizable_this_tree` below. -/
theorem concurrent_readers_linearizable_tree :
    (concurrent_lookup_linearizable Nsq.Tie.Registry.readersAtomic ↔ Nsq.Tie.Registry.readersAtomic = true) ∧
    (concurrent_nodes_linearizable Nsq.Tie.Registry.readersAtomic ↔ Nsq.Tie.Registry.readersAtomic = true) := by
  generalize Nsq.Tie.Registry.readersAtomic = b
  cases b
  · exact ⟨⟨fun h => absurd h concurrent_lookup_delete_linearizable_false, fun h => by cases h⟩,
           ⟨fun h => absurd h concurrent_nodes_delete_linearizable_false, fun h => by cases h⟩⟩
  · exact ⟨⟨fun _ => rfl, fun _ => concurrent_lookup_linearizable_fixed⟩,
           ⟨fun _ => rfl, fun _ => concurrent_nodes_linearizable_fixed⟩⟩

/-- THIS tree (F37 = /repo 682420a is committed; audit B12): `Tie.Registry.readers_shape` accepts ONLY the
one-critical-section shape, the facts decide `readersAtomic = true` (`readers_atomic`), and so for every registry, every
sequence of single-section writers and every schedule the answers of `GET /lookup` and `GET /nodes` are those of one
state of the writers' serial order. With F37 reverted `readers_atomic` does not hold and this theorem fails with it. -/
theorem concurrent_readers_linearizable_this_tree :
    concurrent_lookup_linearizable Nsq.Tie.Registry.readersAtomic ∧
    concurrent_nodes_linearizable Nsq.Tie.Registry.readersAtomic := by
  rw [Nsq.Tie.Registry.readers_atomic]
  exact ⟨concurrent_lookup_linearizable_fixed, concurrent_nodes_linearizable_fixed⟩

/-- non-vacuity: the tree's reader is the one-section list — two schedules against one writer call -/
example : (interleave [wsec (α := LookupObs) (fun db => deleteTopicDB db [116])]
    (lookupSecs Nsq.Tie.Registry.readersAtomic [116])).length = 2 := by
  rw [Nsq.Tie.Registry.readers_atomic]; decide

/-- running alone, both section lists of `GET /lookup` give the sequential answer (`qLookup` is a function of
`lookupDB`: `Nsq.Proofs.RegistrySched.lookup_answer_of_obs`) -/
theorem lookup_sections_compose (atomic : Bool) (db : DB) (t : Name) :
    runSecsO (db, LookupObs.init) (lookupSecs atomic t) = (db, lookupDB db t) :=
  Nsq.Proofs.RegistrySched.lookup_sections_compose atomic db t

/-- non-vacuity: four schedules of one writer call with the three-section reader, two with the one-section reader; the
witness registry answers `200 channels [c]` before and `404` after the deletion; the non-atomic `/nodes` sections
running alone compute `nodesDB` on the witness registry -/
example : (interleave [wsec (α := LookupObs) (fun db => deleteTopicDB db [116])] (lookupSecs false [116])).length = 4 ∧
    (interleave [wsec (α := LookupObs) (fun db => deleteTopicDB db [116])] (lookupSecs true [116])).length = 2 := by decide
example : lookupDB (createChannelDB [] [116] [99]) [116] = ⟨true, [[99]], []⟩ ∧
    lookupDB (deleteTopicDB (createChannelDB [] [116] [99]) [116]) [116] = ⟨false, [], []⟩ := by decide
example : (runSecsO ([(clientKey, [(1, fresh), (3, fresh)]), (topicKey [116], [(1, fresh), (3, fresh)])], NodesObs.init)
      (nodesSecs false [1, 3])).2 =
    nodesDB [(clientKey, [(1, fresh), (3, fresh)]), (topicKey [116], [(1, fresh), (3, fresh)])] := by decide

/-- The provable part: when the two calls do not overlap (any serial order) the refinement
theorems apply — `refines_run` is exactly that statement for histories of any length. With
`RemoveProducer`+`RemoveRegistration` in ONE critical section (fixes/F12) the first schedule
does not exist: UNREGISTER is then a single step, as in `step`. -/
theorem concurrent_partial_serial (r : Registry) (op₁ op₂ : Op)
    (h₁ : op₁.modelled = true) (h₂ : op₂.modelled = true) :
    abs (run r [op₁, op₂]) = ((abs r).step op₁).step op₂ := by
  simp only [run]
  rw [abs_step _ op₂ h₂, abs_step r op₁ h₁]

/-! ## Non-vacuity -/

section Examples
def infoA : Info := ⟨[104, 65], [110, 65], [118, 49], 4150, 4151⟩
def nodeA : Name := [104, 65, 58, 52, 49, 53, 49]   -- "hA:4151"
def tT : Name := [116]
def tE : Name := [101, 35, 101, 112, 104, 101, 109, 101, 114, 97, 108]   -- "e#ephemeral"
def cf : Conf := ⟨2500, 1500⟩

/-- a history: IDENTIFY, REGISTER t, tombstone, answers at three times -/
def hist : List Op :=
  [.identify 1 infoA 0, .register 1 [tT, [99]], .tombstone ⟨false, some tT, none, some nodeA⟩ 100]

example : ∀ op ∈ hist, op.modelled = true := by decide
/-- registered, then tombstoned: hidden at 200, back at 1600 (tombstone lifetime 1500), gone at
2600 (inactive for more than 2500) -/
example : ((qLookup cf (run init (hist.take 2)) tT 50).map (fun a => a.producers.map (·.1))) = some [1] := by decide
example : ((qLookup cf (run init hist) tT 200).map (fun a => a.producers.map (·.1))) = some [] := by decide
example : ((qLookup cf (run init hist) tT 1600).map (fun a => a.producers.map (·.1))) = some [1] := by decide
example : ((qLookup cf (run init hist) tT 2600).map (fun a => a.producers.map (·.1))) = some [] := by decide
example : (qNodes cf (run init hist) 200).map (fun n => (n.id, n.topics)) = [(1, [(tT, true)])] := by decide
example : qLookup cf (run init hist) tE 200 = none := by decide
/-- `WF` is not `True`: a state with a duplicated key is rejected -/
example : ¬ WF ⟨[(topicKey tT, []), (topicKey tT, [])], []⟩ := by
  intro h; have := h.db.1; revert this; decide
/-- the excluded operation really is excluded, and nothing else -/
example : (Op.tombstone ⟨false, some star, none, some nodeA⟩ 0).modelled = false := by decide
/-- ephemeral GC hypotheses are satisfiable: last producer of `e#ephemeral` -/
example : qTopics (run init [.identify 1 infoA 0, .register 1 [tE], .unregister 1 [tE]]) = [] := by decide
example : qTopics (run init [.identify 1 infoA 0, .register 1 [tE], .disconnect 1]) = [tE] := by decide
end Examples

end Nsq.Props.C14
