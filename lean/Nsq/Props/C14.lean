import Nsq.Proofs.RegistryRefine
import Nsq.Tie.Registry
/-!
# C14 — nsqlookupd answers reflect exactly the live registrations

Property theorems only (helpers: `Nsq.Proofs.Registry*`). `Nsq.Model.Registry` is the
implementation-shaped model (association lists, peer ids, handlers as in the Go code);
`Nsq.Spec.RegistrySpec` is the plain registry of the property statement; `abs` maps one to the
other.
-/
namespace Nsq.Props.C14
open Nsq.Model.Registry Nsq.Model.Registry.AMap Nsq.Spec.RegistrySpec Nsq.Proofs.RegistryRefine

/-- Refinement, steps: the empty registry is the empty spec state and every operation
(IDENTIFY, REGISTER, UNREGISTER, PING, disconnect, the five admin calls) commutes with `abs`.
`Op.modelled` excludes only `POST /topic/tombstone?topic=*` (effect depends on Go map order). -/
theorem refines_step :
    abs init = Spec.init ∧
    ∀ (r : Registry) (op : Op), op.modelled = true → abs (step r op).1 = (abs r).step op :=
  ⟨abs_init, abs_step⟩

/-- … hence for every history, of any length, over any producers / topics / channels / times. -/
theorem refines_run (ops : List Op) (h : ∀ op ∈ ops, op.modelled = true) :
    abs (run init ops) = Spec.init.run ops := by
  rw [abs_run init ops h, abs_init]

end Nsq.Props.C14
