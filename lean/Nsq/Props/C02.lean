/-
C02 — exclusive in-flight ownership; redelivery only after REQ/timeout; FIN is final.

Every theorem is about `Nsq.Model.Chan.step` (one `nsqd.Channel` with its consumers) and holds in
every state satisfying the invariant `Inv 0`, which (`reachable_inv`) is every state reachable
from a fresh channel by ANY list of operations — atomic operations and the micro-steps of FIN
alike, any number of consumers, any timing inputs.
-/
import Nsq.Proofs.ChanHist
import Nsq.Proofs.ChanInvOk
namespace Nsq.Props.C02
open Nsq.Model.Chan Nsq.Proofs.Chan

/-- reachable from a fresh channel (ephemeral or not, any memory-queue size) by any op list -/
def Reachable (conf : Conf) (c : Chan) : Prop :=
  ∃ (eph : Bool) (cap : Nat) (ops : List Op), c = run conf { ephemeral := eph, memCap := cap } ops

theorem reachable_inv {conf : Conf} {c : Chan} (h : Reachable conf c) : Inv 0 c := by
  obtain ⟨eph, cap, ops, rfl⟩ := h
  exact run_inv conf ops (inv_init eph cap)

/-- the invariant is inductive: one more step from any state that satisfies it -/
theorem inv_step (conf : Conf) {c : Chan} (h : Inv 0 c) (op : Op) : Inv 0 (step conf c op).1 :=
  step_inv conf h op

/-- DESIGN 3.8 — the executable invariant the driver evaluates (`inv` lines; `rchan` lines rebuild a
real state) holds in every reachable state: a state on which it fails is outside what is proved. -/
theorem invOk_sound {conf : Conf} {c : Chan} (h : Reachable conf c) : invOk c = true :=
  invOk_of_inv (reachable_inv h)

/-- C02.1 — every message of the channel is in exactly one of: the queue (memory or disk), the
in-flight set, the deferred set; no id occurs twice. (`msgs` holds each message once with its
location tag, so "one place" is: ids are pairwise distinct.) -/
theorem single_location {conf : Conf} {c : Chan} (h : Reachable conf c) :
    (c.msgs.map (·.id)).Nodup ∧
    ∀ e1 ∈ c.msgs, ∀ e2 ∈ c.msgs, e1.id = e2.id → e1 = e2 :=
  ⟨(reachable_inv h).core.nodup, fun _ h1 _ h2 hid => eq_of_id_eq (reachable_inv h).core.nodup h1 h2 hid⟩

/-- C02.2 — an id has at most one in-flight entry, and the connection recorded on it is the
connection of the latest `deliver` event of that id. -/
theorem holder_unique {conf : Conf} {c : Chan} (h : Reachable conf c) {e : Entry} (he : e ∈ c.msgs)
    {k : Nat} {p d : Int} (hl : e.loc = .inflight k p d) :
    lastDeliver c.hist e.id = some k ∧ ∀ e' ∈ c.msgs, e'.id = e.id → e' = e := by
  have hi := reachable_inv h
  exact ⟨held_is_last_deliver (inflight_status hi he hl), fun e' he' hid => eq_of_id_eq hi.core.nodup he' he hid⟩

/-- C02.3 — between two deliveries of an id on the channel (to anyone) there is an accepted REQ
or a timeout of that id … -/
theorem redelivery_justified {conf : Conf} {c : Chan} (h : Reachable conf c)
    {h3 h2 h1 : List Ev} {k1 k2 id a1 a2 : Nat}
    (hs : c.hist = h3 ++ Ev.deliver k2 id a2 :: (h2 ++ Ev.deliver k1 id a1 :: h1)) :
    ∃ ev ∈ h2, releases ev id = true := by
  exact hist_redelivery_justified (reachable_inv h).okh hs

/-- … and that REQ was sent by — that timeout was of — the connection holding it then:
an accepted FIN / REQ / TOUCH by `k`, or a timeout attributed to `k`, happens only while the
latest delivery of the id was to `k`. -/
theorem answer_by_holder {conf : Conf} {c : Chan} (h : Reachable conf c) {h2 h1 : List Ev} {ev : Ev} {k id : Nat}
    (hs : c.hist = h2 ++ ev :: h1)
    (hev : ev = .finOk k id ∨ (∃ d, ev = .reqOk k id d) ∨ ev = .touchOk k id ∨ ev = .timeout id k) :
    lastDeliver h1 id = some k := by
  exact hist_answer_by_holder (reachable_inv h).okh hs hev

/-- C02.4 — the n-th delivery of an id on the channel carries attempts n (as a natural number;
the wire field is `wireAttempts n`, equal to n for n < 65536). -/
theorem attempts_consecutive {conf : Conf} {c : Chan} (h : Reachable conf c) {h2 h1 : List Ev} {k id a : Nat}
    (hs : c.hist = h2 ++ Ev.deliver k id a :: h1) :
    a = nDeliver h1 id + 1 ∧ (a < 65536 → wireAttempts a = nDeliver h1 id + 1) := by
  exact hist_attempts_consecutive (reachable_inv h).okh hs

/-- F11: the 65 536-th delivery carries 0 on the wire — a limit of the frame format (`uint16`),
stated rather than assumed away. -/
theorem attempts_wrap_example : wireAttempts (65535 + 1) = 0 := by decide

/-- C02.5 — once a FIN is accepted, no delivery of that id ever follows on the channel
(indeed no event at all mentions it again). -/
theorem fin_final {conf : Conf} {c : Chan} (h : Reachable conf c) {h2 h1 : List Ev} {k id : Nat}
    (hs : c.hist = h2 ++ Ev.finOk k id :: h1) :
    ∀ ev ∈ h2, concerns ev id = false ∧ ∀ k' a, ev ≠ .deliver k' id a := by
  exact hist_fin_final (reachable_inv h).okh hs

/-- does connection `k` hold message `id` in flight? -/
def Holds (c : Chan) (k id : Nat) : Prop :=
  ∃ e ∈ c.msgs, e.id = id ∧ ∃ p d, e.loc = .inflight k p d

/-- C02.6 — FIN / REQ / TOUCH by a consumer for an id it does not hold (never issued, already
answered, timed out and handed to someone else, held by another connection) is answered with
the non-fatal `E_FIN_FAILED` / `E_REQ_FAILED` / `E_TOUCH_FAILED` and the state is unchanged. -/
theorem foreign_answer_noop {conf : Conf} {c : Chan} (h : Reachable conf c) {k id : Nat}
    (hk : hasC c.clients k = true) (hno : ¬ Holds c k id) (delay : Nat) (now : Int) :
    step conf c (.fin k id) = (c, .err "E_FIN_FAILED" false) ∧
    step conf c (.req k id delay now) = (c, .err "E_REQ_FAILED" false) ∧
    step conf c (.touch k id now) = (c, .err "E_TOUCH_FAILED" false) := by
  have hi := reachable_inv h
  have hcl : ∃ cl, findC c.clients k = some cl := by
    cases hf : findC c.clients k
    · have := findC_none hf
      obtain ⟨cl, hcl, hc⟩ := hasC_iff.1 hk
      exact absurd hc (this cl hcl)
    · exact ⟨_, rfl⟩
  obtain ⟨cl, hcl⟩ := hcl
  cases hf : findE c.msgs id with
  | none => simp [step, hk, finChanPart, hf, hcl]
  | some e =>
    obtain ⟨he, hid⟩ := findE_some hf
    cases hl : e.loc with
    | queued => simp [step, hk, finChanPart, hf, hcl, hl]
    | deferred p => simp [step, hk, finChanPart, hf, hcl, hl]
    | inflight k' p d =>
      have hne : k' ≠ k := by
        intro heq
        subst heq
        exact hno ⟨e, he, hid, p, d, hl⟩
      simp [step, hk, finChanPart, hf, hcl, hl, hne]

/-! ### non-vacuity: a concrete history in which every hypothesis above is met -/

def exConf : Conf := {}
def exOps : List Op :=
  [.put 7, .addClient 1 60 0, .addClient 2 60 0, .rdy 1 1, .deliver 1 7 100, .touch 1 7 110,
   .scanInFlight 1000, .rdy 2 2, .deliver 2 7 1100, .fin 1 7, .fin 2 7, .fin 2 7]
def exChan : Chan := run exConf {} exOps

example : Reachable exConf exChan := ⟨false, 0, exOps, rfl⟩
/-- delivered to 1 (attempt 1), touched, timed out, delivered to 2 (attempt 2), the late FIN of 1
refused, FIN of 2 accepted, duplicate FIN of 2 refused -/
example : exChan.hist = [.finOk 2 7, .deliver 2 7 2, .rdySet 2 2, .timeout 7 1, .touchOk 1 7, .deliver 1 7 1,
    .rdySet 1 1, .joined 2, .joined 1, .fanout 7 false] := by decide
example : exChan.msgs = [] ∧ exChan.messageCount = 1 ∧ exChan.timeoutCount = 1 := by decide
example : (step exConf (run exConf {} (exOps.take 9)) (.fin 1 7)).2 = .err "E_FIN_FAILED" false := by decide
/-- the invariant is not `True`: it rejects a state with one id in two places -/
example : ¬ Inv 0 { msgs := [{ id := 1, att := 0, loc := .queued }, { id := 1, att := 0, loc := .deferred 5 }] } := by
  intro h; have := h.core.nodup; simp at this
example : ¬ Holds (run exConf {} (exOps.take 9)) 1 7 := by
  intro ⟨e, he, _, p, d, hl⟩
  have : (run exConf {} (exOps.take 9)).msgs = [{ id := 7, att := 2, loc := .inflight 2 (1100 + 60) 1100 }] := by decide
  rw [this] at he
  simp at he
  subst he
  simp at hl

end Nsq.Props.C02
