import Nsq.Model.Chan
import Nsq.Model.ChanInv
namespace Nsq.Props.C02
open Nsq.Model.Chan

/-- placeholder while the proofs are being written -/
theorem touchPri_le (conf : Conf) (now mt dts : Int) :
    touchPri conf now mt dts ≤ dts + conf.maxMsgTimeout := by
  unfold touchPri
  split <;> omega

end Nsq.Props.C02
