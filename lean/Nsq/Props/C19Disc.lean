import Nsq.Proofs.ToFileDisc
import Nsq.Model.ToFile
import Nsq.Model.ToFileMain
/-!
C19, topic discovery of nsq_to_file (`TopicDiscoverer`): for every pattern, every answer of the
regexp library, every outcome of `NewFileLogger`, every sequence of lookupd polls (lists or errors),
SIGHUPs and SIGTERMs. Tie: `isTopicAllowed` by translation (`Nsq.Tie.ToolsToFileFn.isTopicAllowed_fn_eq`),
`updateTopics`/`run` by statement skeleton (`Nsq.Tie.ToolsToFile`) and by correspondence of the real
`TopicDiscoverer.run()` against a scripted lookupd (`harness/e8/tofile_disc_test.go`).
-/
namespace Nsq.Props.C19Disc
open Nsq.Model.Str Nsq.Model.ToFileDisc Nsq.Proofs.ToFileDisc

/-- **one FileLogger per topic**: whatever the polls return (duplicates inside a list, the same topic in
many polls), no topic ever has two loggers (two routers appending to the same file) -/
theorem one_logger_per_topic (e : Env) (polling : Bool) (explicit : List Str) (evs : List Ev) :
    (run e polling (start e explicit) evs).topics.Nodup :=
  (inv_run e polling evs _ (inv_start e explicit)).nodup

/-- exactly the wanted topics get a logger: after one `updateTopics(list)` a topic has a logger iff it had
one before, or it is in the list, the pattern allows it and its logger could be created -/
theorem logger_iff_wanted (e : Env) (ts l : List Str) (t : Str) :
    t ∈ updateTopics e ts l ↔ t ∈ ts ∨ (t ∈ l ∧ isTopicAllowed e.pattern (e.matched t) = true ∧ e.create t = true) :=
  updateTopics_mem e l ts t

/-- a logger is never dropped: a topic that disappears from lookupd keeps its logger; creation order is kept -/
theorem loggers_only_grow (e : Env) (polling : Bool) (s : St) (evs : List Ev) :
    s.topics <+: (run e polling s evs).topics :=
  run_prefix e polling evs s

/-- a failed poll (`GetLookupdTopics` error) changes nothing -/
theorem failed_poll_is_noop (e : Env) (polling : Bool) (s : St) : step e polling s (.tick none) = s := by
  simp only [step]; split <;> rfl

/-- **termination of all loggers on TERM**: once `run()` has left its loop, every logger that was ever
created had its `termChan` closed — exactly once (closing a closed channel would panic) — and no
logger is created afterwards, so none is left running without a termination request -/
theorem term_reaches_every_logger (e : Env) (polling : Bool) (explicit : List Str) (evs : List Ev)
    (h : (run e polling (start e explicit) evs).looping = false) :
    (run e polling (start e explicit) evs).termed = (run e polling (start e explicit) evs).topics
    ∧ (run e polling (start e explicit) evs).termed.Nodup
    ∧ ∀ more, run e polling (run e polling (start e explicit) evs) more = run e polling (start e explicit) evs := by
  have hi := inv_run e polling evs _ (inv_start e explicit)
  refine ⟨hi.done h, ?_, fun more => run_stopped e polling more _ h⟩
  rw [hi.done h]; exact hi.nodup

/-- a TERM always ends the loop -/
theorem term_ends_loop (e : Env) (polling : Bool) (s : St) : (step e polling s .term).looping = false := by
  simp only [step]
  by_cases h : s.looping = false
  · rw [if_pos h]; exact h
  · rw [if_neg h]

/-- before TERM no logger is terminated by the discoverer -/
theorem no_term_while_looping (e : Env) (polling : Bool) (explicit : List Str) (evs : List Ev)
    (h : (run e polling (start e explicit) evs).looping = true) :
    (run e polling (start e explicit) evs).termed = [] :=
  (inv_run e polling evs _ (inv_start e explicit)).live h

/-- what a terminated logger does (router model `Nsq.Model.ToFile`): after `term` and the consumer's
`StopChan`, its router is no longer running — it ended (`done`) or stopped on an I/O fault; by
`C19.fin_implies_durable` everything it finished is durable either way -/
theorem terminated_router_ends (c : Nsq.Model.ToFile.Cfg) (io : Nat → Nsq.Model.ToFile.Fault) (st : Nsq.Model.ToFile.St)
    (b1 b2 : Bool) :
    (Nsq.Model.ToFile.run c io st [(.term, b1), (.stopped, b2)]).status ≠ .running := by
  simp only [Nsq.Model.ToFile.run]
  generalize Nsq.Model.ToFile.step c io st .term b1 = s1
  simp only [Nsq.Model.ToFile.step]
  by_cases h : s1.status ≠ .running
  · rw [if_pos h]; exact h
  · rw [if_neg h]
    simp only [Nsq.Model.ToFile.finishRun]
    split
    · assumption
    · simp

/-- **what a started nsq_to_file can rely on** (`main()`'s start-up checks, translated from the source): a non-empty
channel, positive HTTP timeouts, exactly one of nsqd / lookupd addresses, a gzip level in 1..9, and either
explicit topics or — discovery mode — a pattern *and* a lookupd to poll -/
theorem started_iff (o : Nsq.Model.ToFileMain.MainOpts) :
    Nsq.Model.ToFileMain.refuses o = false ↔
      (o.channel ≠ [] ∧ 0 < o.connectTimeout ∧ 0 < o.requestTimeout ∧ (o.nNsqd = 0 ↔ o.nLookupd ≠ 0)
       ∧ 1 ≤ o.gzipLevel ∧ o.gzipLevel ≤ 9 ∧ (o.nTopics = 0 → o.pattern ≠ [] ∧ o.nLookupd ≠ 0)) := by
  unfold Nsq.Model.ToFileMain.refuses
  simp only [Bool.or_eq_false_iff, Bool.and_eq_false_iff, decide_eq_false_iff_not, decide_eq_true_eq]
  constructor
  · rintro ⟨⟨⟨⟨⟨⟨⟨h1, h2⟩, h3⟩, h4⟩, h5⟩, h6, h7⟩, h8⟩, h9⟩
    refine ⟨h1, by omega, by omega, ?_, by omega, by omega, ?_⟩
    · constructor
      · intro hn; cases h4 with
        | inl h => exact absurd hn h
        | inr h => exact h
      · intro hl; cases h5 with
        | inl h => exact Decidable.not_not.mp h
        | inr h => exact absurd hl h
    · intro ht
      refine ⟨?_, ?_⟩
      · cases h8 with
        | inl h => exact absurd ht h
        | inr h => exact h
      · cases h9 with
        | inl h => exact absurd ht h
        | inr h => exact h
  · rintro ⟨h1, h2, h3, h4, h5, h6, h7⟩
    refine ⟨⟨⟨⟨⟨⟨⟨h1, by omega⟩, by omega⟩, ?_⟩, ?_⟩, by omega, by omega⟩, ?_⟩, ?_⟩
    · by_cases hn : o.nNsqd = 0
      · exact Or.inr (h4.mp hn)
      · exact Or.inl hn
    · by_cases hn : o.nNsqd = 0
      · exact Or.inl (by simpa using hn)
      · exact Or.inr (fun hl => hn (h4.mpr hl))
    · by_cases ht : o.nTopics = 0
      · exact Or.inr (h7 ht).1
      · exact Or.inl ht
    · by_cases ht : o.nTopics = 0
      · exact Or.inr (h7 ht).2
      · exact Or.inl ht

/-- discovery mode (no `--topic`) always has something to poll: the ticker of `run()` is never pointed at an
empty lookupd list, and the pattern is never empty -/
theorem discovery_mode_has_lookupd (o : Nsq.Model.ToFileMain.MainOpts)
    (h : Nsq.Model.ToFileMain.refuses o = false) (ht : o.nTopics = 0) :
    o.nLookupd ≠ 0 ∧ o.nNsqd = 0 ∧ o.pattern ≠ [] := by
  have := (started_iff o).mp h
  exact ⟨(this.2.2.2.2.2.2 ht).2, this.2.2.2.1.mpr (this.2.2.2.2.2.2 ht).2, (this.2.2.2.2.2.2 ht).1⟩

/-! ### non-vacuity -/

example : Nsq.Model.ToFileMain.refuses ⟨[99], 1, 1, 0, 1, 0, [94], 6⟩ = false := by decide
example : Nsq.Model.ToFileMain.refuses ⟨[99], 1, 1, 1, 0, 0, [94], 6⟩ = true := by decide

private def eAll : Env := { pattern := [], matched := fun _ => .ok false, create := fun t => t ≠ [120] }
private def ePat : Env := { pattern := [94, 97], matched := fun t => .ok (t.head? == some 97), create := fun _ => true }

-- duplicates and an uncreatable topic ("x"): one logger each for "a", "b"
example : (start eAll [[97], [98], [97], [120]]).topics = [[97], [98]] := by decide
-- pattern "^a": only "a…" topics; a failed poll is skipped; TERM terminates both loggers; later polls are ignored
example : (run ePat true (start ePat []) [.tick (some [[97], [98]]), .tick none, .tick (some [[97, 98]]), .hup, .term,
    .tick (some [[97, 99]])]).termed = [[97], [97, 98]] := by decide
example : (run ePat true (start ePat []) [.tick (some [[97]]), .term]).looping = false := by decide
example : (run ePat true (start ePat []) [.tick (some [[97]])]).looping = true := by decide
-- an invalid pattern (regexp error) allows nothing; an empty pattern allows everything
example : isTopicAllowed [91] (.error []) = false := by decide
example : isTopicAllowed [] (.error []) = true := by decide

end Nsq.Props.C19Disc
