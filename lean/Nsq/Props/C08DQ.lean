import Nsq.Proofs.BackedQueue
import Nsq.Props.E9DiskQueue
/-
C08 × E9 — `delete_chan_effects` at FILE level.

`C08.delete_chan_effects` (atomic model `Model/Life.lean`) says `(t, some c) ∉ files` after a channel
deletion, where `files : List BName` lists the backends "that own at least one file under the data
path".  Here the backend is the go-diskqueue model (E9) and a file is a `DFile` (`….NNNNNN.dat`,
`….NNNNNN.dat.bad`, `….meta.dat`): after `Channel.Delete` (`BackedQueue.delete` = `c.Empty()` then
`c.backend.Delete()`) every data file and the metadata file are gone, whatever was queued in memory or
on disk — and the `.bad` files are exactly those that existed before.  So the Life-model statement is
TRUE for data + metadata files and FALSE for `.bad` files (`delete_leaves_no_file_full_false`, the open
C08 finding `diskqueue-bad-file-left-behind`); it holds when no `.bad` file existed
(`delete_leaves_no_file_partial`), and the theorems `bad_files_change_only_*` say exactly which
operations of a healthy queue can create one.
-/
namespace Nsq.Props.C08DQ
open Nsq.Model Nsq.Model.Wire
open Nsq.Model.BackedQueue (BQ Op Run stepRun openBQ)
open Nsq.Model.DiskQueue (St Cfg FS openQ)
open Nsq.Proofs.DiskQueue Nsq.Proofs.BackedQueue
open Nsq.Props.E9DiskQueue (cfgW cfgW_ok ra rb rc sBad)

/-- (i-a) WHICH data files a live channel backend owns: every number from the read file to the write
file (the write file only once a byte was written to it) and no other; so these are exactly the files
a deletion has to remove -/
theorem data_files_of_backend (q : BQ) (disk : List Bytes) (h : Inv q disk) (i : Nat) :
    onDisk q.dq.fs (.dat i) ↔ (q.dq.rf ≤ i ∧ i < q.dq.wf) ∨ (i = q.dq.wf ∧ 0 < q.dq.wp) :=
  dat_exists_iff h i

/-- (i-b, ii) `Channel.Delete` at file level: no data file, no metadata file, the memory queue drained, the
backend closed — whatever was queued in memory or on disk; a `.bad` file is there afterwards iff it
was there before -/
theorem delete_chan_effects_files (q : BQ) (disk : List Bytes) (h : Inv q disk) :
    (∀ i, ¬ onDisk (BackedQueue.delete q).dq.fs (.dat i)) ∧
    ¬ onDisk (BackedQueue.delete q).dq.fs .metadata ∧
    (∀ i, onDisk (BackedQueue.delete q).dq.fs (.bad i) ↔ onDisk q.dq.fs (.bad i)) ∧
    (BackedQueue.delete q).mem = [] ∧ (BackedQueue.delete q).dq.exited = true := by
  obtain ⟨a1, a2, a3, a4, a5⟩ := delete_files h
  refine ⟨fun i hh => hh (a1 i), fun hh => hh a2, fun i => ?_, a4, a5⟩
  show (BackedQueue.delete q).dq.fs.bad i ≠ none ↔ q.dq.fs.bad i ≠ none
  rw [a3]

/-- the set of files a channel deletion leaves behind = the set of `.bad` files of that backend -/
theorem delete_leaves_exactly_bad (q : BQ) (disk : List Bytes) (h : Inv q disk) (f : DFile) :
    onDisk (BackedQueue.delete q).dq.fs f ↔ ∃ i, f = .bad i ∧ onDisk q.dq.fs (.bad i) := by
  obtain ⟨a1, a2, a3, _⟩ := delete_chan_effects_files q disk h
  cases f with
  | dat i => exact ⟨fun hh => absurd hh (a1 i), fun ⟨_, e, _⟩ => by cases e⟩
  | metadata => exact ⟨fun hh => absurd hh a2, fun ⟨_, e, _⟩ => by cases e⟩
  | bad i =>
    constructor
    · intro hh; exact ⟨i, rfl, (a3 i).1 hh⟩
    · rintro ⟨j, e, hj⟩
      cases e
      exact (a3 _).2 hj

/-- the file-level reading of `C08.delete_chan_effects` "`(t, some c) ∉ files` after deleteChan":
the deleted channel owns no file any more -/
def delete_leaves_no_file_full : Prop :=
  ∀ (q : BQ) (disk : List Bytes), Inv q disk → ∀ f, ¬ onDisk (BackedQueue.delete q).dq.fs f

/-- the channel of the finding: nothing in memory (`--mem-queue-size 0`), backend = `E9DiskQueue.sBad`
(put a, b; both received; put c — file 0 was renamed to `.bad`) -/
def qBad : BQ := { memCap := 0, dq := sBad }

theorem qBad_inv : Inv qBad [rc] := by
  have h0 := fresh_Q cfgW cfgW_ok
  have h1 := (put_ok_Q h0 ra (by decide)).2
  have h2 := (put_ok_Q h1 rb (by rw [put_cfg, openQ_cfg]; decide)).2
  have h3 := (recv_head_Q h2).2
  have h4 := (recv_head_Q h3).2
  exact (put_ok_Q h4 rc (by rw [recv_cfg, recv_cfg, put_cfg, put_cfg, openQ_cfg]; decide)).2

/-- … is FALSE: a reachable healthy channel whose deletion leaves `….000000.dat.bad` behind
(finding `diskqueue-bad-file-left-behind`, replayed on the real package: corpus/E9) -/
theorem delete_leaves_no_file_full_false : ¬ delete_leaves_no_file_full := by
  intro h
  apply h qBad [rc] qBad_inv (.bad 0)
  show (BackedQueue.delete qBad).dq.fs.bad 0 ≠ none
  have : ((BackedQueue.delete qBad).dq.fs.bad 0).isSome = true := by decide
  intro e
  rw [e] at this
  exact absurd this (by decide)

/-- … and TRUE when the backend had no `.bad` file: then the deletion leaves no file at all -/
theorem delete_leaves_no_file_partial (q : BQ) (disk : List Bytes) (h : Inv q disk) (hb : NoBad q.dq.fs) (f : DFile) :
    ¬ onDisk (BackedQueue.delete q).dq.fs f := by
  intro hf
  obtain ⟨i, _, hi⟩ := (delete_leaves_exactly_bad q disk h f).1 hf
  exact hi (hb i)

/-- WHEN a healthy channel queue gets a `.bad` file, operation by operation
(`E9DiskQueue.bad_file_only_consumed`: the one loop pass that quarantines a file finds the reader at the
end of a completed file all of whose records are consumed).  (1) a `put`: only if it went to the backend
(memory full), the disk queue was EMPTY and this record rolls the writer to a new file -/
theorem bad_files_change_only_put (q : BQ) (disk : List Bytes) (h : Inv q disk) (b : Bytes)
    (hb : (BackedQueue.put q b).2.dq.fs.bad ≠ q.dq.fs.bad) :
    ¬ q.mem.length < q.memCap ∧ disk = [] ∧ DiskQueue.needRoll q.dq b = true := by
  by_cases hm : q.mem.length < q.memCap
  · rw [put_mem q b hm] at hb
    exact absurd rfl hb
  · rw [put_full q b hm] at hb
    exact ⟨hm, put_bad_changes h b hb⟩

/-- (2) a receive from the backend: only if, the pending record taken, the reader stands at the end of a
completed file (it had read that file to its end while it was still the write file, the writer rolled
afterwards); `takeMem` never touches a file -/
theorem bad_files_change_only_take (q : BQ) (disk : List Bytes) (h : Inv q disk) :
    (BackedQueue.takeMem q).2.dq = q.dq ∧
    ((BackedQueue.takeDisk q).2.dq.fs.bad ≠ q.dq.fs.bad →
      (DiskQueue.moveForward { q.dq with count := q.dq.count + 1 }).rf <
        (DiskQueue.moveForward { q.dq with count := q.dq.count + 1 }).wf ∧
      (DiskQueue.moveForward { q.dq with count := q.dq.count + 1 }).rp =
        ((DiskQueue.moveForward { q.dq with count := q.dq.count + 1 }).fs.content
          (DiskQueue.moveForward { q.dq with count := q.dq.count + 1 }).rf).length) := by
  refine ⟨?_, fun hb => recv_bad_changes h hb⟩
  unfold BackedQueue.takeMem
  split <;> rfl

/-- (3) `Empty` and `Close` + `New` (also with other file / sync parameters) never create or remove one -/
theorem bad_files_unchanged_empty_reopen (q : BQ) (disk : List Bytes) (h : Inv q disk) (cfg' : Cfg) (hok : CfgOk cfg')
    (hmin : cfg'.minMsgSize = q.dq.cfg.minMsgSize) (hmax : cfg'.maxMsgSize = q.dq.cfg.maxMsgSize) :
    (BackedQueue.empty q).2.dq.fs.bad = q.dq.fs.bad ∧
    (openQ cfg' (DiskQueue.close q.dq).fs).fs.bad = q.dq.fs.bad :=
  ⟨empty_bad_same h, reopen_bad_same h cfg' hok hmin hmax⟩

/-- (4) THE SUFFICIENT CONDITION proved for whole histories: from a fresh data path, as long as no backend
`Put` (of `put` or of the `flush` in `Close`) rolls the writer to a new data file — the records queued on disk
since the creation / the last `Empty` fit into one file of `--max-bytes-per-file` (`NoRoll`) — whatever
the interleaving of puts, receives, restarts and empties, the reader never leaves the write file, NO `.bad`
file exists, and a deletion then leaves no file of that channel at all -/
theorem single_file_history_leaves_no_file (cfg : Cfg) (hok : CfgOk cfg) (memCap : Nat) (ops : List Op)
    (hn : NoRoll cfg (BackedQueue.fresh memCap cfg) ops) :
    NoBad (BackedQueue.run memCap cfg ops).q.dq.fs ∧
    (BackedQueue.run memCap cfg ops).q.dq.rf = (BackedQueue.run memCap cfg ops).q.dq.wf ∧
    ∀ f, ¬ onDisk (BackedQueue.delete (BackedQueue.run memCap cfg ops).q).dq.fs f := by
  have e0 : (BackedQueue.fresh memCap cfg).q.dq = { cfg := cfg, fs := FS.empty } :=
    (open_leftover cfg hok FS.empty (fun _ => rfl) rfl).1
  obtain ⟨x1, x2⟩ := single_file_foldl cfg hok memCap ops (BackedQueue.fresh memCap cfg) [] [] (ledger_fresh cfg hok memCap)
    (by rw [e0]) hn
  obtain ⟨d, g, hl, _⟩ := ledger_run cfg hok memCap ops
  have hb : NoBad (BackedQueue.run memCap cfg ops).q.dq.fs := by
    intro i
    show (ops.foldl (stepRun cfg) (BackedQueue.fresh memCap cfg)).q.dq.fs.bad i = none
    rw [x1, e0]; rfl
  exact ⟨hb, x2, fun f => delete_leaves_no_file_partial _ d hl.inv hb f⟩

/-- both ways are reachable from a fresh data path with a queue that is healthy throughout:
(a) `E9DiskQueue.bad_file_witness` — reader caught up, then the writer rolled (a `put` creates the file);
(b) put a (read ahead at once), put an 8-byte record that rolls the writer, receive a — the receive creates
the `.bad` file although the queue never ran empty; every record is still delivered, in order -/
def r8 : Bytes := [1, 2, 3, 4, 5, 6, 7, 8]
def sBad2 : St := (DiskQueue.put (DiskQueue.put (openQ cfgW FS.empty) ra).2 r8).2

theorem bad_file_two_ways :
    ((DiskQueue.recv (DiskQueue.recv (DiskQueue.put (DiskQueue.put (openQ cfgW FS.empty) ra).2 rb).2).2).2.fs.bad 0).isSome = false ∧
    (sBad.fs.bad 0).isSome = true ∧
    (sBad2.fs.bad 0).isSome = false ∧ sBad2.depth = 2 ∧
    ((DiskQueue.recv sBad2).2.fs.bad 0).isSome = true ∧ (DiskQueue.recv sBad2).1 = some ra ∧
    (DiskQueue.recv (DiskQueue.recv sBad2).2).1 = some r8 := by decide

/-- (iii) re-creating the channel after the deletion (`NewChannel` → `diskqueue.New` on the left-over data
path, which holds `.bad` files only): it starts EMPTY — nothing in memory, disk queue empty, `Depth()` 0,
nothing offered to a pump — at file 0, position 0; its state is that of a fresh data path with the `.bad`
files carried along untouched (no `.bad` file is opened or read) … -/
theorem recreate_after_delete (q : BQ) (disk : List Bytes) (h : Inv q disk) (memCap' : Nat) (cfg' : Cfg) (hok : CfgOk cfg') :
    Inv (openBQ memCap' cfg' (BackedQueue.delete q).dq.fs) [] ∧
    (openBQ memCap' cfg' (BackedQueue.delete q).dq.fs).mem = [] ∧
    BackedQueue.depth (openBQ memCap' cfg' (BackedQueue.delete q).dq.fs) = 0 ∧
    BackedQueue.takeDisk (openBQ memCap' cfg' (BackedQueue.delete q).dq.fs) =
      (none, openBQ memCap' cfg' (BackedQueue.delete q).dq.fs) ∧
    (openBQ memCap' cfg' (BackedQueue.delete q).dq.fs).dq =
      { openQ cfg' FS.empty with fs := { FS.empty with bad := q.dq.fs.bad } } := by
  obtain ⟨a1, a2, a3, _, _⟩ := delete_files h
  obtain ⟨e, hq⟩ := open_leftover cfg' hok (BackedQueue.delete q).dq.fs a1 a2
  have hi : Inv (openBQ memCap' cfg' (BackedQueue.delete q).dq.fs) [] := hq
  refine ⟨hi, rfl, ?_, takeDisk_nil hi, ?_⟩
  · show ((0 : Nat) : Int) + (openQ cfg' (BackedQueue.delete q).dq.fs).depth = 0
    rw [depth_Q hq]; rfl
  · show openQ cfg' (BackedQueue.delete q).dq.fs = _
    obtain ⟨e0, _⟩ := open_leftover cfg' hok FS.empty (fun _ => rfl) rfl
    rw [e, e0]
    have hfs : (BackedQueue.delete q).dq.fs = { FS.empty with bad := q.dq.fs.bad } := by
      have hd : (BackedQueue.delete q).dq.fs.dat = fun _ => none := funext a1
      cases hx : (BackedQueue.delete q).dq.fs with
      | mk dat bad md =>
        rw [hx] at hd a2 a3
        simp only at hd a2 a3
        rw [hd, a2, a3]
        rfl
    rw [hfs]

/-- … and from there on it is a correct queue again: every history of the re-created channel keeps the
ledger of `C01DQ.overflow_keeps_multiset` (backend = a FIFO, nothing lost, duplicated or invented) —
the left-over `.bad` files have no influence on what is delivered -/
theorem recreate_history (q : BQ) (disk : List Bytes) (h : Inv q disk) (memCap' : Nat) (cfg' : Cfg) (hok : CfgOk cfg')
    (ops : List Op) :
    ∃ disk' gone, Ledger cfg' memCap' (ops.foldl (stepRun cfg') { q := openBQ memCap' cfg' (BackedQueue.delete q).dq.fs }) disk' gone :=
  by
  obtain ⟨hi, _⟩ := recreate_after_delete q disk h memCap' cfg' hok
  obtain ⟨d, g, hl, _⟩ := ledger_foldl cfg' hok memCap' ops { q := openBQ memCap' cfg' (BackedQueue.delete q).dq.fs } [] []
    ⟨hi, openQ_cfg _ _, rfl, Nat.zero_le _, List.Perm.refl _⟩
  exact ⟨d, g, hl⟩

/-! ### non-vacuity -/

/-- a channel with one message in memory and three on disk spread over two files, a read-ahead pending -/
def q2 : BQ := { memCap := 1, mem := [rc],
                 dq := (DiskQueue.put (DiskQueue.put (DiskQueue.put (openQ cfgW FS.empty) ra).2 rb).2 rc).2 }
theorem q2_inv : Inv q2 [ra, rb, rc] :=
  (Nsq.Props.E9DiskQueue.reachable_Q cfgW cfgW_ok [.put ra, .put rb, .put rc]).1

-- `data_files_of_backend`: files 0 and 1 exist, file 2 does not
example : q2.dq.rf = 0 ∧ q2.dq.wf = 1 ∧ q2.dq.wp = 8 := by decide
example : onDisk q2.dq.fs (.dat 0) ∧ onDisk q2.dq.fs (.dat 1) ∧ ¬ onDisk q2.dq.fs (.dat 2) :=
  ⟨(data_files_of_backend q2 _ q2_inv 0).2 (by decide), (data_files_of_backend q2 _ q2_inv 1).2 (by decide),
   fun h => absurd ((data_files_of_backend q2 _ q2_inv 2).1 h) (by decide)⟩
-- `delete_chan_effects_files` / `delete_leaves_exactly_bad` / `_partial` on a state with files, metadata and memory
example : onDisk q2.dq.fs .metadata := by show q2.dq.fs.md ≠ none; decide
theorem q2_nobad : NoBad q2.dq.fs := by
  have h0 := fresh_Q cfgW cfgW_ok
  have h1 := (put_ok_Q h0 ra (by decide)).2
  have h2 := (put_ok_Q h1 rb (by rw [put_cfg, openQ_cfg]; decide)).2
  have e0 : (openQ cfgW FS.empty).fs.bad = fun _ => none := by
    rw [(open_leftover cfgW cfgW_ok FS.empty (fun _ => rfl) rfl).1]; rfl
  have e1 := put_bad_same h0 ra (Or.inr (by decide))
  have e2 := put_bad_same h1 rb (Or.inl (by simp))
  have e3 := put_bad_same h2 rc (Or.inl (by simp))
  intro i
  show (DiskQueue.put (DiskQueue.put (DiskQueue.put (openQ cfgW FS.empty) ra).2 rb).2 rc).2.fs.bad i = none
  rw [e3, e2, e1, e0]
example : ∀ f, ¬ onDisk (BackedQueue.delete q2).dq.fs f := fun f =>
  delete_leaves_no_file_partial q2 _ q2_inv q2_nobad f
-- the finding state: `Inv` holds, a `.bad` file exists before and after the deletion
example : Inv qBad [rc] ∧ onDisk qBad.dq.fs (.bad 0) ∧ onDisk (BackedQueue.delete qBad).dq.fs (.bad 0) :=
  ⟨qBad_inv, (by show sBad.fs.bad 0 ≠ none; decide),
   (delete_leaves_exactly_bad qBad _ qBad_inv (.bad 0)).2 ⟨0, rfl, by show sBad.fs.bad 0 ≠ none; decide⟩⟩
-- `bad_files_change_only_put`: the hypothesis is satisfiable (the last put of the witness)
example : (BackedQueue.put { memCap := 0, dq := (DiskQueue.recv (DiskQueue.recv (DiskQueue.put (DiskQueue.put (openQ cfgW FS.empty) ra).2 rb).2).2).2 } rc).2.dq.fs.bad 0
    ≠ (DiskQueue.recv (DiskQueue.recv (DiskQueue.put (DiskQueue.put (openQ cfgW FS.empty) ra).2 rb).2).2).2.fs.bad 0 := by decide
-- `bad_files_change_only_take`: hypothesis satisfiable (way (b))
example : (BackedQueue.takeDisk { memCap := 0, dq := sBad2 }).2.dq.fs.bad 0 ≠ sBad2.fs.bad 0 := by decide
-- `single_file_history_leaves_no_file`: `NoRoll` is satisfiable by a history that overflows to disk (two
-- records fill file 0 exactly), restarts with a record in memory (flushed to disk) and drains — and fails for the finding
example : NoRoll cfgW (BackedQueue.fresh 1 cfgW) [.put ra, .put rb, .takeDisk, .restart, .takeDisk] :=
  ⟨Or.inl (by decide), Or.inr (by decide), ⟨by decide, trivial⟩, trivial⟩
example : (BackedQueue.run 1 cfgW [.put ra, .put rb, .takeDisk, .restart, .takeDisk]).taken = [rb, ra] ∧
    (BackedQueue.run 1 cfgW [.put ra, .put rb, .takeDisk, .restart, .takeDisk]).q.dq.wp = 16 := by decide
example : ¬ NoRoll cfgW (BackedQueue.fresh 0 cfgW) [.put ra, .put rb, .takeDisk, .takeDisk, .put rc] :=
  fun h => absurd h.2.2.1 (by decide)
-- `recreate_after_delete` on the finding state: the re-created channel is empty and still has the `.bad` file
example : (openBQ 1 cfgW (BackedQueue.delete qBad).dq.fs).dq.depth = 0 ∧
    ((openBQ 1 cfgW (BackedQueue.delete qBad).dq.fs).dq.fs.bad 0).isSome = true ∧
    (BackedQueue.takeDisk (BackedQueue.put (BackedQueue.put (openBQ 1 cfgW (BackedQueue.delete qBad).dq.fs) ra).2 rb).2).1 = some rb := by decide

end Nsq.Props.C08DQ
