import Nsq.Props.C19
import Nsq.Gen.ToolsToFileFn
/-!
C19, the tool around the router: (a) the decision of finding `gives-up-after-max-attempts` — the tool-level
statement "whatever is FINished is safe on disk" holds **iff** the consumer library runs with `max_attempts = 0`;
the value the shipped `main()` runs with is regenerated from the source (`Nsq.Gen.ToolsToFileFn.toFileMaxAttempts`:
go-nsq's struct-tag default unless `main()` assigns `cfg.MaxAttempts` before the operator's `--consumer-opt`s);
(b) a work dir on another device than the output dir: the `link(2)` of the final move fails (EXDEV is not EEXIST),
the tool stops right there — nothing moved, nothing removed, nothing acknowledged that was not already safe.
-/
namespace Nsq.Props.C19Ops
open Nsq.Model.ToFile Nsq.Proofs.ToFile Nsq.Props.C19

/-- the tool-level safety statement for a consumer configured with `max_attempts = k` -/
def toolSafeAt (k : Nat) : Prop :=
  ∀ (c : Cfg) (io : Nat → Fault) (st : St), Inv c st →
    ∀ (m : Msg) (attempts : Nat) (now : Int) (fn : String) (starved : Bool),
      ∀ x ∈ (toolStep c io k st m attempts now fn starved).finished,
        Safe (toolStep c io k st m attempts now fn starved).fs (line x)

/-- with `max_attempts = 0` the library never gives up: the tool is exactly as safe as the router -/
theorem tool_safe_without_giveup : toolSafeAt 0 := by
  intro c io st hinv m attempts now fn starved
  exact tool_fin_implies_durable_partial c io 0 st hinv m attempts now fn starved (by simp [shouldFail])

/-- with any positive `max_attempts` it is refuted: delivery number `k+1` of a message that was never written
is FINished by the library -/
theorem tool_unsafe_with_giveup (k : Nat) (hk : 0 < k) : ¬ toolSafeAt k := by
  intro h
  have hs : shouldFail k (k + 1) = true := by simp [shouldFail, hk]
  have := h cfgPlain (fun _ => .ok) (init FS.empty) (inv_init _ _) ⟨1, [104]⟩ (k + 1) 0 "t" false ⟨1, [104]⟩
    (by simp [toolStep, hs, init])
  obtain ⟨p, f, hg, _⟩ := this
  simp [toolStep, hs, init, FS.empty] at hg

/-- **decision of the finding**: safe iff the library is configured never to give up -/
theorem tool_safe_iff (k : Nat) : toolSafeAt k ↔ k = 0 := by
  constructor
  · intro h
    cases k with
    | zero => rfl
    | succ n => exact absurd h (tool_unsafe_with_giveup (n + 1) (Nat.succ_pos n))
  · rintro rfl; exact tool_safe_without_giveup

/-- … instantiated with the value regenerated from the current `main()`: the shipped tool is safe iff
`main()` sets `cfg.MaxAttempts = 0` (fix F43); on a tree without the fix this is the open finding -/
theorem shipped_tool_safe_iff :
    toolSafeAt Nsq.Gen.ToolsToFileFn.toFileMaxAttempts ↔ Nsq.Gen.ToolsToFileFn.toFileMaxAttempts = 0 :=
  tool_safe_iff _

/-- the operator's `--consumer-opt max_attempts,N` keeps the last word either way (it re-enables the give-up) -/
theorem operator_can_reenable_giveup (n : Nat) (hn : 0 < n) : ¬ toolSafeAt n := tool_unsafe_with_giveup n hn

/-- **cross-device work dir**: when the `link(2)` of the move out of the work dir fails (`io` says `err` at the
primitive the move starts with), `Close()` stops the tool (`os.Exit(1)`): the file system, the FIN log and the
pending batch are exactly as before the move — the finished file stays, complete and fsynced, in the work dir -/
theorem xdev_move_is_fail_stop (c : Cfg) (io : Nat → Fault) (st : St) (hrun : st.status = .running)
    (hfail : io st.tick = .err) :
    (moveOut c io st).status ≠ .running ∧ (moveOut c io st).fs.get = st.fs.get
      ∧ (moveOut c io st).finished = st.finished ∧ (moveOut c io st).pending = st.pending := by
  have hg : ∀ k : St → St, Nsq.Model.ToFile.guard io st k = { st with status := .fatalExit } := by
    intro k; simp [Nsq.Model.ToFile.guard, hrun, hfail]
  have hg2 : ∀ k : St → St, Nsq.Model.ToFile.guard io { st with status := .fatalExit } k = { st with status := .fatalExit } := by
    intro k; simp [Nsq.Model.ToFile.guard]
  unfold moveOut
  simp only []
  split
  · split <;> simp [renameP, hg, hg2, clearOut]
  · split
    · simp
    · simp [renameP, hg, hg2, clearOut]

/-! ### `Close()` after a successful move out of the work dir (defect fixed by F44) -/

/-- full statement: whenever `Close()` returns with the tool still running, no descriptor is left in `f.out` -/
def close_leaves_no_descriptor (c : Cfg) : Prop :=
  ∀ (io : Nat → Fault) (st : St), (closeOut c io st).status = .running → (closeOut c io st).hasOut = false

/-- … holds for the tree with fix F44 (`closeClears = true`): every path of `Close()` that keeps running ends in
`f.out = nil` — also the successful work-dir → output-dir move -/
theorem close_leaves_no_descriptor_fixed (c : Cfg) (hcc : c.closeClears = true) : close_leaves_no_descriptor c := by
  intro io st
  have hclear : ∀ s : St, (clearOut s).status = .running → (clearOut s).hasOut = false := by
    intro s; unfold clearOut; split
    · intro h; simp_all
    · intro _; rfl
  unfold closeOut
  by_cases hho : st.hasOut = false
  · rw [if_pos hho]; intro _; exact hho
  · rw [if_neg hho]
    simp only []
    split
    · intro h; simp_all
    · split
      · exact hclear _
      · unfold moveOut
        simp only [hcc, if_true]
        split
        · exact hclear _
        · split
          · intro h; simp at h
          · exact hclear _

/-- … and is **false for the tree before F44** (`closeClears = false`, work dir in use): after one message and a
SIGHUP the finished file has been moved, the tool is running, and `f.out` still holds the closed descriptor … -/
theorem close_leaves_no_descriptor_false : ¬ close_leaves_no_descriptor cfgGzWork := by
  intro h
  have := h (fun _ => .ok) (step cfgGzWork (fun _ => .ok) (init FS.empty) (.msg ⟨1, [104]⟩ 0 "t<REV>") false)
  revert this
  decide

/-- … so the next message hits it and the tool takes its `os.Exit(1)` (fail-stop: the message is not finished).
Each SIGHUP therefore costs a restart and one more attempt of the in-flight messages — together with the library's
`max_attempts` give-up (finding above) a realistic path to an acknowledged-but-unwritten message. -/
theorem hup_then_message_kills_tool_before_F26 :
    (run cfgGzWork (fun _ => .ok) (init FS.empty)
      [(.msg ⟨1, [104]⟩ 0 "t<REV>", false), (.hup, false), (.msg ⟨2, [105]⟩ 1 "t<REV>", false)]).status = .fatalExit
    ∧ (run cfgGzWork (fun _ => .ok) (init FS.empty)
      [(.msg ⟨1, [104]⟩ 0 "t<REV>", false), (.hup, false), (.msg ⟨2, [105]⟩ 1 "t<REV>", false)]).finished.map (·.id) = [1] := by
  decide

/-- with F44 the same history keeps the tool running and finishes both messages -/
theorem hup_then_message_survives_with_F26 :
    (run { cfgGzWork with closeClears := true } (fun _ => .ok) (init FS.empty)
      [(.msg ⟨1, [104]⟩ 0 "t<REV>", false), (.hup, false), (.msg ⟨2, [105]⟩ 1 "t<REV>", false)]).status = .running
    ∧ (run { cfgGzWork with closeClears := true } (fun _ => .ok) (init FS.empty)
      [(.msg ⟨1, [104]⟩ 0 "t<REV>", false), (.hup, false), (.msg ⟨2, [105]⟩ 1 "t<REV>", false)]).finished.map (·.id) = [2, 1] := by
  decide

/-! ### non-vacuity -/

example : close_leaves_no_descriptor { cfgGzWork with closeClears := true } := close_leaves_no_descriptor_fixed _ rfl
example : ¬ toolSafeAt 5 := tool_unsafe_with_giveup 5 (by decide)
example : (toolStep cfgPlain (fun _ => .ok) 5 (init FS.empty) ⟨1, [104]⟩ 6 0 "t" false).finished = [⟨1, [104]⟩] := by decide
example : ((toolStep cfgPlain (fun _ => .ok) 0 (init FS.empty) ⟨1, [104]⟩ 6 0 "t" false).fs.get ⟨true, "t", 0⟩).isSome = true := by
  decide
-- a running state whose next primitive is the failing link
example : (moveOut cfgGzWork (fun _ => .err) { init FS.empty with hasOut := true, outPath := ⟨false, "t<REV>", 0⟩ }).status
    = .fatalExit := by decide

end Nsq.Props.C19Ops
