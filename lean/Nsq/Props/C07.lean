import Nsq.Proofs.Wire
import Nsq.Tie.Wire
/-!
# C07 — Message content and envelope integrity on every path

Property theorems only (helper lemmas: `Nsq.Proofs.Wire`). The model `Nsq.Model.Wire` is tied to
the code by `Nsq.Tie.Wire` (regenerated statements and constants) and by the correspondence
harness `harness/e1/wire_test.go`; the end-to-end oracle `harness/e1/e2e_test.go` checks the
property itself on a running nsqd over every negotiated transport.

Not covered by any theorem (assumptions, named in the evidence): the internals of `crypto/tls`,
`compress/flate`, `snappy` and go-diskqueue's file I/O — `upgrade_loses_nothing_partial` takes
`dec (enc s) = s` as a hypothesis.
-/
namespace Nsq.Props.C07
open Nsq.Model.Wire Nsq.Proofs.Wire

/-- Envelope round trip, for EVERY timestamp (all int64), attempts (all uint16), 16-byte id and
body (any bytes, any length ≥ 0): what `WriteTo` writes, `decodeMessage` reads back unchanged. -/
theorem decode_encode (m : Msg) (hid : m.id.length = 16) : decode (encode m) = some m :=
  Nsq.Proofs.Wire.decode_encode m hid

/-- Buffers shorter than 26 bytes are rejected, never mis-parsed. -/
theorem decode_short (b : Bytes) (h : b.length < 26) : decode b = none :=
  Nsq.Proofs.Wire.decode_short b h

/-- Conversely every buffer that decodes is exactly the encoding of the result (so the disk /
wire representation of a message is unique: two different messages never share bytes). -/
theorem encode_decode (b : Bytes) (m : Msg) (h : decode b = some m) : encode m = b ∧ m.id.length = 16 :=
  Nsq.Proofs.Wire.encode_decode b m h

theorem encode_injective (m₁ m₂ : Msg) (h1 : m₁.id.length = 16) (h2 : m₂.id.length = 16)
    (h : encode m₁ = encode m₂) : m₁ = m₂ :=
  Nsq.Proofs.Wire.encode_injective m₁ m₂ h1 h2 h

/-- Framing: for every list of frames the client-side reader run over the concatenation of their
encodings returns exactly that list — bodies that contain newlines, NULs or bytes that look like
frame headers included. The size bound is the client's `int32` length. -/
theorem frame_stream_roundtrip (fs : List Frame) (h : ∀ f ∈ fs, f.data.length + 4 < 2147483648) :
    parseFrames (fs.map encodeFrame).flatten = some fs :=
  Nsq.Proofs.Wire.frame_stream_roundtrip fs h

/-- …and whatever the reader accepts is the concatenation of the frames it returns. -/
theorem frame_stream_sound (s : Bytes) (fs : List Frame) (h : parseFrames s = some fs) :
    (fs.map encodeFrame).flatten = s :=
  Nsq.Proofs.Wire.parseFrames_sound s fs h

/-- Every message frame nsqd emits is within that bound, given `max-msg-size`. -/
theorem size_le_limits (m : Msg) (hid : m.id.length = 16) (maxMsgSize : Nat)
    (hb : m.body.length ≤ maxMsgSize) (hmax : maxMsgSize + 30 < 2147483648) :
    (encode m).length + 4 < 2147483648 :=
  Nsq.Proofs.Wire.message_frame_size m hid maxMsgSize hb hmax

/-- MPUB: every non-empty batch of non-empty bodies within the limits is read back exactly, in
order, and the reader stops exactly at the end of the batch. -/
theorem mpub_roundtrip (bs : List Bytes) (rest : Bytes) (maxMsg maxBody : Int) (hne : bs ≠ [])
    (hb : ∀ b ∈ bs, 0 < b.length ∧ (b.length : Int) ≤ maxMsg ∧ b.length < 2147483648)
    (hc : (bs.length : Int) ≤ (maxBody - 4).tdiv 5) (hc31 : bs.length < 2147483648) :
    readMPUB (mpubBody bs ++ rest) maxMsg maxBody = .ok (bs, rest) :=
  Nsq.Proofs.Wire.mpub_roundtrip bs rest maxMsg maxBody hne hb hc hc31

/-- …and an accepted MPUB body IS the serialisation of the bodies returned (nothing is invented,
dropped or re-cut), each within the limits. -/
theorem mpub_sound (s : Bytes) (maxMsg maxBody : Int) (bs : List Bytes) (rest : Bytes)
    (h : readMPUB s maxMsg maxBody = .ok (bs, rest)) :
    s = mpubBody bs ++ rest ∧ bs ≠ [] ∧ (bs.length : Int) ≤ (maxBody - 4).tdiv 5 ∧
      ∀ b ∈ bs, 0 < b.length ∧ (b.length : Int) ≤ maxMsg :=
  Nsq.Proofs.Wire.mpub_sound s maxMsg maxBody bs rest h

/-- All or nothing: any failure enqueues no message; success enqueues the whole batch in order. -/
theorem mpub_all_or_nothing (q : List Bytes) (s : Bytes) (maxMsg maxBody : Int) :
    ((mpubCmd q s maxMsg maxBody).2 ≠ none → (mpubCmd q s maxMsg maxBody).1 = q) ∧
    ((mpubCmd q s maxMsg maxBody).2 = none → ∃ bs rest,
      readMPUB s maxMsg maxBody = .ok (bs, rest) ∧ (mpubCmd q s maxMsg maxBody).1 = q ++ bs) :=
  Nsq.Proofs.Wire.mpub_all_or_nothing q s maxMsg maxBody

/-- Text `/mpub` (with or without a `Content-Length`): the messages are the non-empty pieces
between newlines, each byte-exact (`splitNL_join`: the pieces re-joined give the body), a final
piece without newline is kept whole; an over-long body is an error, never a silent truncation. -/
theorem textmpub_split (k : Bool) (body : Bytes) (maxMsg maxBody : Nat) (hlen : body.length ≤ maxBody)
    (hblk : ∀ b ∈ splitNL body, b.length ≤ maxMsg) :
    textMpubHttp k body maxMsg maxBody = .ok ((splitNL body).filter (fun b => !b.isEmpty)) ∧
    [10].intercalate (splitNL body) = body ∧ (∀ b ∈ splitNL body, (10 : UInt8) ∉ b) :=
  ⟨textmpubHttp_split k body maxMsg maxBody hlen hblk, splitNL_join body, splitNL_no_newline body⟩

theorem textmpub_never_truncates (k : Bool) (body : Bytes) (maxMsg maxBody : Nat) (hlen : maxBody < body.length) :
    ∃ e, textMpubHttp k body maxMsg maxBody = .error e :=
  textmpubHttp_too_big k body maxMsg maxBody hlen

/-- HTTP `/pub` (with or without a `Content-Length`): what is published is exactly the request body,
accepted iff it has 1..max-msg-size bytes — an over-long body is refused, never truncated. -/
theorem http_pub_exact (k : Bool) (body : Bytes) (maxMsg : Nat) :
    (∀ b, httpPub k body maxMsg = .ok b → b = body) ∧
    ((∃ b, httpPub k body maxMsg = .ok b) ↔ (0 < body.length ∧ body.length ≤ maxMsg)) := by
  unfold httpPub
  by_cases h1 : (k && decide (body.length > maxMsg)) = true
  · rw [if_pos h1]
    simp only [Bool.and_eq_true, decide_eq_true_eq] at h1
    exact ⟨by simp, by simp; omega⟩
  · rw [if_neg h1]
    by_cases h2 : (body.take (maxMsg + 1)).length = maxMsg + 1
    · rw [if_pos h2]
      simp only [List.length_take] at h2
      exact ⟨by simp, by simp; omega⟩
    · rw [if_neg h2]
      simp only [List.length_take] at h2
      have hle : body.length ≤ maxMsg := by omega
      have ht : body.take (maxMsg + 1) = body := List.take_of_length_le (by omega)
      rw [ht]
      by_cases h3 : body.isEmpty = true
      · rw [if_pos h3]
        have : body.length = 0 := by simpa using h3
        exact ⟨by simp, by simp; omega⟩
      · rw [if_neg h3]
        have : 0 < body.length := by
          cases body with
          | nil => simp at h3
          | cons _ _ => simp
        exact ⟨by intro b hb; injection hb with hb; exact hb.symm, ⟨fun _ => ⟨this, hle⟩, fun _ => ⟨_, rfl⟩⟩⟩

/-- A diskqueue record (4-byte length + data) is read back exactly (the file I/O of
go-diskqueue itself is an assumption). -/
theorem dq_roundtrip (d rest : Bytes) (minSz maxSz : Nat) (h1 : minSz ≤ d.length)
    (h2 : d.length ≤ maxSz) (h3 : d.length < 2147483648) :
    dqRead minSz maxSz (dqRecord d ++ rest) = some (d, rest) :=
  Nsq.Proofs.Wire.dq_roundtrip d rest minSz maxSz h1 h2 h3

/-- The output side of a connection, for EVERY sequence of protocol actions (responses,
messages, flushes, output-buffer changes, TLS / snappy / deflate upgrades, SUB) from a fresh
connection: the plaintext handed to the successive transport stacks, in order, plus what is
still buffered, is exactly the concatenation of the frames passed to `Send` — no byte is lost,
duplicated or reordered when a writer is replaced.
(Audit round 7, A2: this is about the ORDER of the plaintext only; it cannot say that a writer
was re-created on the wrong transport, and `connStep .setOutputBuffer` is the behaviour of the
tree WITH fix F30 — see `Props.C07Stack`, `fixed_tree_is_round6_model` and the witness
`output_on_negotiated_transport_false` for the tree before it.) -/
theorem upgrade_loses_nothing (cap : Nat) (ops : List ConnOp) :
    (connRun (conn0 cap) ops).stream = (((connRun (conn0 cap) ops).sent).map encodeFrame).flatten :=
  conn_stream cap ops

/-- The reason: before SUB the buffer is empty after every action (each non-message frame is
flushed, message frames only go to subscribed clients, IDENTIFY is refused after SUB). -/
theorem init_buffer_empty (cap : Nat) (ops : List ConnOp) :
    (connRun (conn0 cap) ops).subscribed = false → (connRun (conn0 cap) ops).w.buf = [] :=
  conn_init_buffer_empty cap ops

/-- What the client decodes, transport stack by transport stack. *Partial*: the codecs (TLS,
snappy, deflate — any mix, one `enc`/`dec` pair per stack) are only assumed to be inverse to
each other on the streams they carry. -/
theorem upgrade_loses_nothing_partial (cap : Nat) (ops : List ConnOp)
    (enc dec : Nat → Bytes → Bytes) (hcodec : ∀ i s, dec i (enc i s) = s) :
    let c := connRun (conn0 cap) ops
    let layers := c.closedLayers ++ [c.w.sink]
    let wire := (List.range layers.length).zip layers |>.map (fun p => enc p.1 p.2)
    let seen := (List.range wire.length).zip wire |>.map (fun p => dec p.1 p.2)
    seen.flatten ++ c.w.buf = ((c.sent).map encodeFrame).flatten := by
  intro c layers wire seen
  have hs := conn_stream cap ops
  have hseen : seen = layers := by
    simp only [seen, wire]
    apply List.ext_getElem
    · simp
    · intro i h1 h2
      simp [hcodec]
  rw [hseen, ← hs]
  simp [layers, Conn.stream, c]

/-- `writeMessageToBackend` / `SendMessage` with pooled buffers, for every request history and
every choice of buffer from the pool: the bytes handed on for message k are `encode mₖ` and
nothing else; the pool only ever holds empty buffers. -/
theorem buffer_pool_reset (pool : List Bytes) (hp : ∀ b ∈ pool, b = []) (reqs : List (Nat × Msg)) :
    (poolRun pool reqs).2 = reqs.map (fun r => encode r.2) ∧ ∀ b ∈ (poolRun pool reqs).1, b = [] :=
  poolRun_clean pool hp reqs

/-- `Topic.messagePump`: every channel's copy carries the same id, body and timestamp. -/
theorem topic_fanout_copies_envelope (m : Msg) (n : Nat) :
    (fanout m n).length = n ∧ ∀ x ∈ fanout m n, x.id = m.id ∧ x.body = m.body ∧ x.ts = m.ts :=
  fanout_copies m n

/-! ## Non-vacuity -/

def demoMsg : Msg := { ts := 1700000000000000000#64, attempts := 65535#16,
                       id := [48,49,50,51,52,53,54,55,56,57,97,98,99,100,101,102],
                       body := [0, 0, 0, 8, 0, 0, 0, 2, 10, 0, 255] }   -- looks like a frame header, has NUL and newline

example : decode (encode demoMsg) = some demoMsg := decode_encode demoMsg (by decide)
example : decode (List.replicate 25 0) = none := by decide
example : parseFrames ((([{ ftype := 2#32, data := encode demoMsg }, { ftype := 0#32, data := [79, 75] }] : List Frame).map
    encodeFrame).flatten) = some [{ ftype := 2#32, data := encode demoMsg }, { ftype := 0#32, data := [79, 75] }] :=
  frame_stream_roundtrip _ (by decide)
example : readMPUB (mpubBody [[1, 2], [0, 0, 0, 1]] ++ [9]) 10 100 = .ok ([[1, 2], [0, 0, 0, 1]], [9]) :=
  mpub_roundtrip _ _ _ _ (by decide) (by decide) (by decide) (by decide)
example : (mpubCmd [[7]] (mpubBody [[1, 2]] |>.dropLast) 10 100) = ([[7]], some .badMessage) := by decide
example : textMpubHttp false [97, 10, 10, 98] 5 100 = .ok [[97], [98]] :=
  (textmpub_split false [97, 10, 10, 98] 5 100 (by decide) (by decide)).1
example : httpPub false [1, 2, 3, 4] 3 = .error .tooBig ∧ httpPub true [1, 2, 3] 3 = .ok [1, 2, 3] ∧
    httpPub false [] 3 = .error .empty := ⟨rfl, rfl, rfl⟩
/-- an upgrade in the middle: IDENTIFY response, upgrade, OK, SUB, message, flush -/
example : let c := connRun (conn0 16) [.sendResponse ⟨0#32, [123, 125]⟩, .upgrade 64, .sendResponse ⟨0#32, [79, 75]⟩,
                      .subscribe, .sendMessage ⟨2#32, encode demoMsg⟩, .upgrade 1, .flush]
          c.closedLayers.length = 1 ∧ c.sent.length = 3 ∧ c.w.buf = [] := by decide
/-- the flush in `SetOutputBuffer` matters: without the empty-buffer fact a replaced writer would
drop bytes — a buffer holding data is NOT preserved by `upgrade` in general -/
example : (connStep { w := { cap := 8, buf := [1, 2, 3] } } (.upgrade 8)).stream ≠
          ({ w := { cap := 8, buf := [1, 2, 3] } } : Conn).stream := by decide

end Nsq.Props.C07
