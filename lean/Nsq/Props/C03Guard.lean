/-
C03.2 — the one-message overshoot as a HISTORY-level theorem at micro-step granularity (round 9, audit A8).

`Props.C03.overshoot_le_one` only says "a delivery leaves the connection disarmed" (a step-level fact). Here, over
EVERY op list in which deliveries happen through the pump's micro-steps `guard k | deliverArmed k id` (any other op —
RDY, CLS, pause, FIN, REQ, scans, Empty, (dis)connects, FIN micro-steps, sampling drops — at any place in between):

* `every_delivery_has_its_guard` — in the history, every `deliver k _ _` event is preceded by a `guardOk k` event that
  lies AFTER the previous `deliver k` event: one successful evaluation of `IsReadyForMessages` per message, so at most
  ONE message can follow a RDY decrease / CLS / pause the pump has not evaluated yet;
* `deliveries_le_guards` — hence, per connection, #deliveries ≤ #successful guard evaluations on every reachable history
  (and `<` while a licence is unconsumed);
* `guard_event_means_ready` — a `guardOk k` event is recorded only in a state where `¬paused ∧ 0 < rdy ∧ inFlight < rdy`.
The atomic `deliver` op (guard and send in ONE step; what the serialised observer of the atomic model sees) records no
`guardOk` and is excluded by hypothesis; for it `C03.deliver_only_if_ready` gives the guard at the delivery itself.
Replayed on the real code: `corpus/C03/obs/overshoot.ops` (hook `proto.pump.afterGuard`).
-/
import Nsq.Proofs.ChanGuard
namespace Nsq.Props.C03Guard
open Nsq.Model.Chan Nsq.Proofs.ChanGuard

/-- the op list uses the pump's micro-steps for deliveries -/
def MicroDeliveries (ops : List Op) : Prop := ∀ op ∈ ops, ∀ k id now, op ≠ .deliver k id now

/-- **history level**: whenever the history reads `… ++ deliver k id a :: rest`, the latest guard/deliver event of
`k` in `rest` is a `guardOk k` -/
theorem every_delivery_has_its_guard (conf : Conf) (eph : Bool) (cap : Nat) (ops : List Op) (hm : MicroDeliveries ops)
    (post rest : List Ev) (k id a : Nat)
    (hh : (run conf { ephemeral := eph, memCap := cap } ops).hist = post ++ .deliver k id a :: rest) :
    pend k rest = true := by
  have h := (run_ginv conf (ginv_init eph cap) ops hm).ok
  rw [hh] at h
  clear hh
  induction post with
  | nil => simp only [List.nil_append, okG, Bool.and_eq_true] at h; exact h.1
  | cons e post ih =>
    apply ih
    cases e <;> simp only [List.cons_append, okG, Bool.and_eq_true] at h <;> first | exact h | exact h.2

/-- per connection: deliveries never outnumber successful guard evaluations; strictly fewer while armed -/
theorem deliveries_le_guards (conf : Conf) (eph : Bool) (cap : Nat) (ops : List Op) (hm : MicroDeliveries ops) (k : Nat) :
    nD k (run conf { ephemeral := eph, memCap := cap } ops).hist +
      (pend k (run conf { ephemeral := eph, memCap := cap } ops).hist).toNat
    ≤ nG k (run conf { ephemeral := eph, memCap := cap } ops).hist :=
  okG_count k _ (run_ginv conf (ginv_init eph cap) ops hm).ok

/-- an armed connection has an unconsumed licence in the history -/
theorem armed_has_licence (conf : Conf) (eph : Bool) (cap : Nat) (ops : List Op) (hm : MicroDeliveries ops) :
    ∀ cl ∈ (run conf { ephemeral := eph, memCap := cap } ops).clients, cl.armed = true →
      pend cl.conn (run conf { ephemeral := eph, memCap := cap } ops).hist = true :=
  (run_ginv conf (ginv_init eph cap) ops hm).lic

/-- a `guardOk` event is recorded only by a guard evaluation that found the connection ready -/
theorem guard_event_means_ready (conf : Conf) (c : Chan) (op : Op) (k : Nat)
    (h : nG k (step conf c op).1.hist ≠ nG k c.hist) :
    op = .guard k ∧ ∃ cl, findC c.clients k = some cl ∧ ready c.paused cl = true := by
  by_cases hg : gdOp op = false
  · exfalso; apply h
    have := (step_neutral conf c op hg).1
    have key : ∀ l : List Ev, nG k l = nG k (l.filter isGD) := by
      intro l; induction l with
      | nil => rfl
      | cons e l ih => cases e <;> simp_all [nG, List.filter_cons, isGD, isG, List.countP_cons]
    rw [key, this, ← key]
  · cases op with
    | guard k' =>
      simp only [step] at h ⊢
      split at h
      · exact absurd rfl h
      · rename_i cl hf
        split at h
        · rename_i hr
          by_cases hk : k' = k
          · subst hk; exact ⟨rfl, cl, hf, hr⟩
          · exfalso; apply h; simp [nG, isG, hk]
        · exact absurd rfl h
    | deliver k' id now =>
      exfalso; apply h
      simp only [step, doDeliver]
      repeat' split
      all_goals first | rfl | simp [nG, List.countP_cons, isG]
    | deliverArmed k' id now =>
      exfalso; apply h
      simp only [step, doDeliver]
      repeat' split
      all_goals first | rfl | simp [nG, List.countP_cons, isG]
    | _ => simp [gdOp] at hg

/-! non-vacuity: the overshoot schedule — guard, RDY 0, the armed delivery still happens (its licence is the guard
evaluation before the RDY change), a second one is refused -/
def ovOps : List Op := [.put 7 {}, .put 8 {}, .addClient 1 60 0, .rdy 1 1, .guard 1, .rdy 1 0, .deliverArmed 1 7 100]
example : MicroDeliveries ovOps := by
  intro op hop k id now; simp [ovOps] at hop; rcases hop with h | h | h | h | h | h | h <;> subst h <;> simp
example : (run {} {} ovOps).hist.take 3 = [.deliver 1 7 1, .rdySet 1 0, .guardOk 1] := by decide
example : pend 1 [Ev.rdySet 1 0, .guardOk 1, .rdySet 1 1, .joined 1, .fanout 8 false, .fanout 7 false] = true := by decide
example : (step {} (run {} {} ovOps) (.deliverArmed 1 8 101)).2 = .reject "not-armed" := by decide
example : nD 1 (run {} {} ovOps).hist = 1 ∧ nG 1 (run {} {} ovOps).hist = 1 := by decide
/-- the theorem applied: the delivery of 7 in `ovOps` has its `guardOk` -/
example : pend 1 ((run {} {} ovOps).hist.drop 1) = true :=
  every_delivery_has_its_guard {} false 0 ovOps
    (by intro op hop k id now; simp [ovOps] at hop; rcases hop with h | h | h | h | h | h | h <;> subst h <;> simp)
    [] _ 1 7 1 (by decide)

end Nsq.Props.C03Guard
