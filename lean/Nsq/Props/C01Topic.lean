/-
C01 — topic-level liveness under EXPLICIT fairness hypotheses (round 7), composed with the channel level.

`Nsq.Props.C01Live` proves, for ONE channel, that a message the channel owns is eventually delivered
under fairness of the scans and the consumer pumps. Here the schedule is an infinite run `NExec` of the
nsqd-level model (`Nsq.Model.ChanNsqd`: topics with their queue, the topic pump's snapshot, channels,
subscriptions; any API-level operation at any time, from any state satisfying the invariant) and the
topic pump is a fifth fair step class:

* `FairTopicPump ex t id` — strong fairness of `Topic.messagePump` towards this message: if infinitely
  often the message is in the topic queue while the pump is enabled (topic not paused, at least one channel in
  the snapshot), then it is eventually taken off the topic queue. (The topic queue is a bag in the model: the
  pump's `select` between memory and disk decides which message it receives — "no message is overtaken forever"
  is this hypothesis.)
* `PumpEnabledInfOften ex t` — the environment's side: infinitely often the topic is unpaused and has a channel.
  A topic without channels, or paused for ever, keeps its messages in the topic queue: that is the documented
  behaviour, not a loss (`C01.ack_implies_enqueued`).
* per channel `(t, c)`: `FairScanInFlightN`, `FairScanDeferredN`, `FairTakeN`, `ReadyInfOftenN` — the four
  hypotheses of `C01Live.eventually_delivered`, stated on the nsqd-level schedule.

None of them is discharged for the Go runtime (they are listed as assumptions in the evidence).
-/
import Nsq.Proofs.TopicLive
import Nsq.Props.C01Live
namespace Nsq.Props.C01Topic
open Nsq.Model.Chan Nsq.Model.ChanNsqd Nsq.Proofs.Chan Nsq.Proofs.ChanLive Nsq.Proofs.ChanNsqd Nsq.Proofs.TopicLive

/-- the topic pump could fan message `id` of topic `t` out now: queued on the topic, topic not paused, snapshot not empty -/
def PumpEnabledFor (s : State) (t id : Nat) : Prop :=
  ∃ tp, findT s.topics t = some tp ∧ id ∈ tp.queue.map (·.id) ∧ pumpEnabled tp = true

/-- step `m` takes `id` off the queue of topic `t` -/
def PumpedAt (ex : NExec) (t id m : Nat) : Prop := inTQ (ex.st m) t id ∧ ¬ inTQ (ex.st (m + 1)) t id

def FairTopicPump (ex : NExec) (t id : Nat) : Prop :=
  (∀ n, ∃ m, n ≤ m ∧ PumpEnabledFor (ex.st m) t id) → ∀ n, ∃ m, n ≤ m ∧ PumpedAt ex t id m

def PumpEnabledInfOften (ex : NExec) (t : Nat) : Prop :=
  ∀ n, ∃ m, n ≤ m ∧ ∃ tp, findT (ex.st m).topics t = some tp ∧ pumpEnabled tp = true

/-- step `j` records a delivery of `id` on channel `(t, c)` -/
def DeliveredAtN (ex : NExec) (t c id j : Nat) : Prop := NDeliv (ex.st j) (ex.st (j + 1)) t c id

def FairScanInFlightN (ex : NExec) (t c id : Nat) : Prop :=
  ∀ n, ∃ m, n ≤ m ∧ ((¬ ∃ k p d, nloc (ex.st m) t c id = some (.inflight k p d)) ∨
    ∃ time k p d, ex.ops m = .scanInFlight t c time ∧ nloc (ex.st m) t c id = some (.inflight k p d) ∧ p ≤ time)

def FairScanDeferredN (ex : NExec) (t c id : Nat) : Prop :=
  ∀ n, ∃ m, n ≤ m ∧ ((¬ ∃ p, nloc (ex.st m) t c id = some (.deferred p)) ∨
    ∃ time p, ex.ops m = .scanDeferred t c time ∧ nloc (ex.st m) t c id = some (.deferred p) ∧ p ≤ time)

/-- some consumer of channel `(t, c)` passes `IsReadyForMessages` -/
def ReadyN (s : State) (t c : Nat) : Prop :=
  ∃ ch, chanAt s t c = some ch ∧ ∃ cl ∈ ch.clients, ready ch.paused cl = true

def FairTakeN (ex : NExec) (t c id : Nat) : Prop :=
  (∀ n, ∃ m, n ≤ m ∧ nloc (ex.st m) t c id = some .queued ∧ ReadyN (ex.st m) t c) →
    ∀ n, ∃ m, n ≤ m ∧ nloc (ex.st m) t c id = some .queued ∧ nloc (ex.st (m + 1)) t c id ≠ some .queued

def ReadyInfOftenN (ex : NExec) (t c : Nat) : Prop := ∀ n, ∃ m, n ≤ m ∧ ReadyN (ex.st m) t c

/-- **a message leaves a topic queue only through its own accepted fan-out**, and that step hands it to
EVERY channel the topic has at that moment (the pump's snapshot is the channel map): each of them
records the `fanout` event, none had one before -/
theorem leaves_queue_only_by_fanout (ex : NExec) (t id m : Nat) (h : PumpedAt ex t id m) :
    PumpAccepted (ex.st m) (ex.ops m) t id ∧
    ∀ c ch, chanAt (ex.st m) t c = some ch →
      ∃ ch', chanAt (ex.st (m + 1)) t c = some ch' ∧ nFanout ch'.hist id = 1 ∧ nFanout ch.hist id = 0 := by
  obtain ⟨hq, hn⟩ := h
  have hacc : PumpAccepted (ex.st m) (ex.ops m) t id := by
    rcases tq_unless (ex.st m) (ex.ops m) t id hq with h' | h'
    · rw [← ex.next m] at h'; exact absurd h' hn
    · exact h'
  refine ⟨hacc, ?_⟩
  intro c ch hc
  obtain ⟨ch', h1, h2, h3⟩ := pump_fans_out (ex.inv m) hacc hc
  rw [← ex.next m] at h1
  exact ⟨ch', h1, by omega, h3⟩

/-- in the topic queue unless fanned out -/
theorem inTQ_unless (ex : NExec) (t id m : Nat) (h : inTQ (ex.st m) t id) :
    inTQ (ex.st (m + 1)) t id ∨ PumpedAt ex t id m := by
  by_cases hq : inTQ (ex.st (m + 1)) t id
  · exact Or.inl hq
  · exact Or.inr ⟨h, hq⟩

/-- **topic-level liveness.** Under `FairTopicPump` and `PumpEnabledInfOften`, a message in the queue of
topic `t` at time `n` (memory or disk; by `C01.ack_implies_enqueued` every acknowledged publish is) is fanned
out by some step `m ≥ n`: it leaves the topic queue and every channel of the topic at that moment gets it. -/
theorem eventually_fanned_out (ex : NExec) (t id : Nat) (hF : FairTopicPump ex t id) (hE : PumpEnabledInfOften ex t)
    {n : Nat} (h : inTQ (ex.st n) t id) :
    ∃ m, n ≤ m ∧ PumpedAt ex t id m ∧
      ∀ c ch, chanAt (ex.st m) t c = some ch →
        ∃ ch', chanAt (ex.st (m + 1)) t c = some ch' ∧ nFanout ch'.hist id = 1 ∧ nFanout ch.hist id = 0 := by
  have key : ∃ m', n < m' ∧ ∃ m, m + 1 = m' ∧ PumpedAt ex t id m := by
    apply leadsto (P := fun m => inTQ (ex.st m) t id) (Q := fun m' => ∃ m, m + 1 = m' ∧ PumpedAt ex t id m) _ _ h
    · intro m hm
      rcases inTQ_unless ex t id m hm with h' | h'
      · exact Or.inl h'
      · exact Or.inr ⟨m, rfl, h'⟩
    · intro n'
      by_cases hex : ∃ m, n' ≤ m ∧ ¬ inTQ (ex.st m) t id
      · obtain ⟨m, hm, hq⟩ := hex
        exact ⟨m, hm, Or.inl hq⟩
      · exfalso
        have hall : ∀ m, n' ≤ m → inTQ (ex.st m) t id := by
          intro m hm
          apply Classical.byContradiction
          intro hq; exact hex ⟨m, hm, hq⟩
        have hen : ∀ n2, ∃ m, n2 ≤ m ∧ PumpEnabledFor (ex.st m) t id := by
          intro n2
          obtain ⟨m, hm, tp, htp, hpe⟩ := hE (max n2 n')
          obtain ⟨tp', htp', hid⟩ := hall m (by omega)
          rw [htp] at htp'; cases htp'
          exact ⟨m, by omega, tp, htp, hid, hpe⟩
        obtain ⟨m, hm, _, hq2⟩ := hF hen n'
        exact hq2 (hall (m + 1) (by omega))
  obtain ⟨m', hm', m, rfl, hp⟩ := key
  exact ⟨m, by omega, hp, (leaves_queue_only_by_fanout ex t id m hp).2⟩

/-- ANY nsqd-level step moves the location of ANY message on ANY channel along the graph of
`Nsq.Proofs.ChanLive.trans`; `queued → in flight` only with a recorded delivery on that channel -/
theorem location_moves (ex : NExec) (t c id n : Nat) :
    Move (DeliveredAtN ex t c id n) (nloc (ex.st n) t c id) (nloc (ex.st (n + 1)) t c id) := by
  have := nstep_move (ex.st n) (ex.ops n) t c id
  rw [← ex.next n] at this
  exact this

/-- the channel-level liveness of `C01Live.eventually_delivered`, on the nsqd-level schedule: a message
channel `(t, c)` owns at time `n` is delivered by a step `j ≥ n`, or the channel ceases to own it (the four
removal events — or the channel itself is gone: an `#ephemeral` channel whose last consumer left) -/
theorem eventually_delivered_on (ex : NExec) (t c id : Nat)
    (hI : FairScanInFlightN ex t c id) (hD : FairScanDeferredN ex t c id) (hT : FairTakeN ex t c id)
    (hR : ReadyInfOftenN ex t c) {n : Nat} (h : nloc (ex.st n) t c id ≠ none) :
    ∃ j, n ≤ j ∧ (DeliveredAtN ex t c id j ∨ nloc (ex.st (j + 1)) t c id = none) := by
  apply trace_eventually_delivered (loc := fun m => nloc (ex.st m) t c id) (D := DeliveredAtN ex t c id)
    (R := fun m => ReadyN (ex.st m) t c) (location_moves ex t c id) _ _ hT hR h
  · intro n'
    obtain ⟨m, hm, hc⟩ := hI n'
    refine ⟨m, hm, ?_⟩
    rcases hc with hc | ⟨time, k, p, d, hop, hl, hp⟩
    · exact Or.inl hc
    · right
      have := nscanInFlight_releases (ex.st m) t c id hl hp
      rw [← hop, ← ex.next m] at this
      exact this
  · intro n'
    obtain ⟨m, hm, hc⟩ := hD n'
    refine ⟨m, hm, ?_⟩
    rcases hc with hc | ⟨time, p, hop, hl, hp⟩
    · exact Or.inl hc
    · right
      have := nscanDeferred_releases (ex.st m) t c id hl hp
      rw [← hop, ← ex.next m] at this
      exact this

/-- **C01, both levels composed.** A message in the queue of topic `t` at time `n` (every acknowledged
publish is: `C01.ack_implies_enqueued`) is, under the topic-pump fairness, fanned out at some step `m ≥ n`
to EVERY channel `c` the topic has at that moment — each records the `fanout` event — and on each such
channel, under the channel-level fairness hypotheses for `(t, c)`, it is then delivered by some step
`j ≥ m`, or the channel ceases to own it (`fanned_then_gone_is_removed`: FIN accepted, `Empty`, sampling, the
overflow of an `#ephemeral` queue — or the channel itself disappeared). -/
theorem acked_eventually_delivered (ex : NExec) (t id : Nat) (hF : FairTopicPump ex t id) (hE : PumpEnabledInfOften ex t)
    {n : Nat} (h : inTQ (ex.st n) t id) :
    ∃ m, n ≤ m ∧ PumpedAt ex t id m ∧
      ∀ c ch, chanAt (ex.st m) t c = some ch →
        (∃ ch', chanAt (ex.st (m + 1)) t c = some ch' ∧ nFanout ch'.hist id = 1 ∧ nFanout ch.hist id = 0) ∧
        (FairScanInFlightN ex t c id → FairScanDeferredN ex t c id → FairTakeN ex t c id → ReadyInfOftenN ex t c →
          ∃ j, m ≤ j ∧ (DeliveredAtN ex t c id j ∨ nloc (ex.st (j + 1)) t c id = none)) := by
  obtain ⟨m, hm, hp, hfan⟩ := eventually_fanned_out ex t id hF hE h
  refine ⟨m, hm, hp, ?_⟩
  intro c ch hc
  refine ⟨hfan c ch hc, ?_⟩
  intro hI hD hT hR
  by_cases hl : nloc (ex.st (m + 1)) t c id = none
  · exact ⟨m, Nat.le_refl m, Or.inr hl⟩
  · obtain ⟨j, hj, h'⟩ := eventually_delivered_on ex t c id hI hD hT hR hl
    exact ⟨j, by omega, h'⟩

/-- "the channel ceased to own it" after the fan-out means: removed by one of the four removal events of
`C01.ledger` (while the channel exists) — never by a timeout, a REQ, a TOUCH, a disconnect, pause -/
theorem fanned_then_gone_is_removed (ex : NExec) (t c id j : Nat) {ch : Chan} (hc : chanAt (ex.st j) t c = some ch)
    (hf : nFanout ch.hist id ≠ 0) (hg : nloc (ex.st j) t c id = none) :
    ∃ ev ∈ ch.hist, removedIn ev id = true := by
  have hinv : Inv 0 ch := by
    unfold chanAt chanAtL at hc
    cases h1 : findT (ex.st j).topics t with
    | none => simp [h1] at hc
    | some tp =>
      simp only [h1, Option.bind_some] at hc
      cases h2 : findN tp.chans c with
      | none => simp [h2] at hc
      | some nc =>
        simp only [h2, Option.map_some, Option.some.injEq] at hc
        subst hc
        exact ((ex.inv j).topics tp (findT_some h1).1).chans nc (findN_some h2).1
  apply gone_removed_of_inv hinv hf
  unfold nloc at hg
  simpa [hc] using hg

/-! ### non-vacuity: a concrete schedule for which every hypothesis is proved

channel 1 of topic 1 is created, connection 5 subscribes with RDY 1, a message is published (id 1), the topic
pump fans it out, it is delivered and FINished; afterwards nothing happens (`createTopic 1` stutters). -/

def exPre : List Nsq.Model.ChanNsqd.Op :=
  [.createChan 1 1 false, .sub 5 1 1 false 100 0, .rdy 5 (some 1), .pub 1 10, .pumpTopic 1 1 false [], .deliver 5 1 0, .fin 5 1]

def exOpsAt (n : Nat) : Nsq.Model.ChanNsqd.Op := if h : n < 7 then exPre[n] else .createTopic 1

def exSt : Nat → State
  | 0 => {}
  | n + 1 => (Nsq.Model.ChanNsqd.step (exSt n) (exOpsAt n)).1

theorem exApi (n : Nat) : Op.api (exOpsAt n) = true := by
  unfold exOpsAt
  by_cases h : n < 7
  · rw [dif_pos h]
    have : ∀ i (hi : i < 7), Op.api (exPre[i]'hi) = true := by decide
    exact this n h
  · rw [dif_neg h]; rfl

def exExec : NExec := { ops := exOpsAt, st := exSt, next := fun _ => rfl, api := exApi, inv0 := ninv_init {} }

theorem exSt_const (d : Nat) : exSt (7 + d) = exSt 7 := by
  induction d with
  | zero => rfl
  | succ d ih =>
    show (Nsq.Model.ChanNsqd.step (exSt (7 + d)) (exOpsAt (7 + d))).1 = exSt 7
    have : exOpsAt (7 + d) = .createTopic 1 := by unfold exOpsAt; rw [dif_neg (by omega)]
    rw [ih, this]; decide

theorem exSt_late {m : Nat} (h : 7 ≤ m) : exExec.st m = exSt 7 := by
  obtain ⟨d, rfl⟩ : ∃ d, m = 7 + d := ⟨m - 7, by omega⟩
  exact exSt_const d

/-- message 1 is in the topic queue after the publish (step 4) and out of it after the pump (step 5) -/
example : inTQ (exExec.st 4) 1 1 := ⟨_, rfl, by decide⟩
theorem exNotQ : ¬ inTQ (exSt 7) 1 1 := by
  rintro ⟨tp, h1, h2⟩
  have : findT (exSt 7).topics 1 = some tp := h1
  revert h2
  have h3 : (findT (exSt 7).topics 1).map (fun tp => tp.queue.map (·.id)) = some [] := by decide
  rw [this] at h3
  simp only [Option.map_some, Option.some.injEq] at h3
  rw [h3]; simp

theorem exFairPump : FairTopicPump exExec 1 1 := by
  intro hen
  exfalso
  obtain ⟨m, hm, tp, h1, h2, _⟩ := hen 7
  rw [exSt_late hm] at h1
  exact exNotQ ⟨tp, h1, h2⟩

theorem exNloc : nloc (exSt 7) 1 1 1 = none := by decide

theorem exPumpEnabled : PumpEnabledInfOften exExec 1 := by
  intro n
  refine ⟨max n 7, by omega, ?_⟩
  rw [exSt_late (by omega)]
  have : (findT (exSt 7).topics 1).map pumpEnabled = some true := by decide
  cases h : findT (exSt 7).topics 1 with
  | none => rw [h] at this; cases this
  | some tp => rw [h] at this; exact ⟨tp, rfl, by simpa using this⟩

theorem exFairI : FairScanInFlightN exExec 1 1 1 := fun n =>
  ⟨max n 7, by omega, Or.inl (by rw [exSt_late (by omega)]; rintro ⟨k, p, d, h⟩; rw [exNloc] at h; cases h)⟩
theorem exFairD : FairScanDeferredN exExec 1 1 1 := fun n =>
  ⟨max n 7, by omega, Or.inl (by rw [exSt_late (by omega)]; rintro ⟨p, h⟩; rw [exNloc] at h; cases h)⟩
theorem exFairT : FairTakeN exExec 1 1 1 := by
  intro hen
  exfalso
  obtain ⟨m, hm, hq, _⟩ := hen 7
  rw [exSt_late hm, exNloc] at hq
  cases hq
theorem exReady : ReadyInfOftenN exExec 1 1 := by
  intro n
  refine ⟨max n 7, by omega, ?_⟩
  rw [exSt_late (by omega)]
  have : (chanAt (exSt 7) 1 1).map (fun ch => ch.clients.any (ready ch.paused)) = some true := by decide
  cases h : chanAt (exSt 7) 1 1 with
  | none => rw [h] at this; cases this
  | some ch =>
    rw [h] at this
    simp only [Option.map_some, Option.some.injEq, List.any_eq_true] at this
    exact ⟨ch, h, this⟩

/-- the composed theorem applied: the message published at step 3 (in the topic queue at time 4) is fanned out
to channel 1 and delivered there -/
example : ∃ m, 4 ≤ m ∧ PumpedAt exExec 1 1 m ∧ ∀ ch, chanAt (exExec.st m) 1 1 = some ch →
    ∃ j, m ≤ j ∧ (DeliveredAtN exExec 1 1 1 j ∨ nloc (exExec.st (j + 1)) 1 1 1 = none) := by
  obtain ⟨m, h1, h2, h3⟩ := acked_eventually_delivered exExec 1 1 exFairPump exPumpEnabled (n := 4) ⟨_, rfl, by decide⟩
  exact ⟨m, h1, h2, fun ch hc => (h3 1 ch hc).2 exFairI exFairD exFairT exReady⟩
/-- and what actually happens in it: fanned out by step 4, delivered by step 5, gone (FIN) after step 6 -/
example : PumpedAt exExec 1 1 4 := ⟨⟨_, rfl, by decide⟩, by
  rintro ⟨tp, h1, h2⟩
  have h3 : (findT (exExec.st 5).topics 1).map (fun tp => tp.queue.map (·.id)) = some [] := by decide
  rw [h1] at h3
  simp only [Option.map_some, Option.some.injEq] at h3
  rw [h3] at h2; simp at h2⟩
example : nloc (exExec.st 5) 1 1 1 = some .queued ∧ nloc (exExec.st 6) 1 1 1 = some (.inflight 5 100 0) ∧
    nloc (exExec.st 7) 1 1 1 = none := by decide
example : (chanAt (exExec.st 7) 1 1).map (fun ch => removed ch.hist 1) = some true := by decide

end Nsq.Props.C01Topic
