import Nsq.Proofs.AuthQuery
/-!
# C11 (round 6) — the auth query: what nsqd asks, whom, and for how long the answer counts

`Nsq.Model.AuthQuery`: `auth.QueryAuthd` builds the endpoint and the parameters, `QueryAnyAuthd` walks
the configured servers, the TTL becomes the expiry. Tied by the correspondence leg `authq`
(`harness/gate/authq_test.go`, compiled into package `internal/auth`: the real functions against
recording HTTP servers) and by the regenerated statements in `Nsq.Tie.Gate`. What the gate does with
the validated answer is `Nsq.Props.C11`.
-/
namespace Nsq.Props.C11Auth
open Nsq.Model.AuthQuery Nsq.Model.HttpApi Nsq.Model.Names Nsq.Model Nsq.Proofs.AuthQuery

/-- **No parameter injection**: for every secret, common name and remote address (arbitrary bytes),
`url.ParseQuery` on the auth server recovers exactly the four parameters nsqd set — the identity a
grant is decided on cannot be forged through the secret. -/
theorem no_parameter_injection (ip cn secret : Bytes) (tls : Bool) :
    parseQuery (encodeQuery ip cn secret tls) =
      some [(kCommonName, cn), (kRemoteIP, ip), (kSecret, secret), (kTLS, tlsText tls)] :=
  parse_encodeQuery ip cn secret tls

/-- `QueryEscape` then `QueryUnescape` is the identity on every byte string. -/
theorem escape_roundtrip (s : Bytes) : unescape (queryEscape s) = some s := unescape_queryEscape s

/-- The request: a bare `host:port` is asked at `http://host:port/auth`, an address with a scheme as
it is; GET carries the parameters in the query, `post` in the body, the TLS flag as `true`/`false`. -/
theorem request_shape (authd ip cn secret method : Bytes) (tls : Bool) :
    (containsSub (ascii "://") authd = false → endpoint authd = ascii "http://" ++ authd ++ ascii "/auth") ∧
    (containsSub (ascii "://") authd = true → endpoint authd = authd) ∧
    (method ≠ ascii "post" → buildRequest authd ip cn secret tls method =
      ⟨false, endpoint authd ++ [63] ++ encodeQuery ip cn secret tls, []⟩) ∧
    (method = ascii "post" → buildRequest authd ip cn secret tls method =
      ⟨true, endpoint authd, [(kCommonName, cn), (kRemoteIP, ip), (kSecret, secret), (kTLS, tlsText tls)]⟩) := by
  refine ⟨fun h => by simp [endpoint, h], fun h => by simp [endpoint, h], fun h => by simp [buildRequest, h],
    fun h => by simp [buildRequest, h]⟩

/-- `QueryAnyAuthd`: the servers are asked in rotation order from the start index, at most `n` of
them; it stops at the first acceptable answer (everything asked before it had failed, nothing after
it is asked); it fails only after all `n` were asked and failed. -/
theorem query_any (n start : Nat) (ok : Nat → Bool) :
    (queryAny n start ok).1 =
      (List.range (queryAny n start ok).1.length).map (fun j => (0 + j + start) % n) ∧
    (queryAny n start ok).1.length ≤ n ∧
    (∀ r, (queryAny n start ok).2 = some r → ok r = true ∧ (queryAny n start ok).1.getLast? = some r) ∧
    ((queryAny n start ok).2 = none →
      (queryAny n start ok).1.length = n ∧ ∀ x ∈ (queryAny n start ok).1, ok x = false) ∧
    (∀ x ∈ (queryAny n start ok).1.dropLast, ok x = false) :=
  walk_spec n start ok n 0

/-- The TTL: up to 9 223 372 036 s (292 years) the expiry is exactly `now + ttl` seconds; beyond, the
64-bit product wraps — always to something *earlier* than the TTL says, so an answer is never used
longer than granted (the connection re-queries early; `Props.C11.requery_after_ttl` and `auth_gate`
do not depend on the value of the expiry). -/
theorem ttl_exact_and_never_late (ttl : Int) (h0 : 0 < ttl) :
    (ttl ≤ 9223372036 → ttlNs ttl = ttl * 1000000000) ∧
    (ttl < 9223372036854775808 → ttlNs ttl ≤ ttl * 1000000000) :=
  ⟨ttlNs_exact ttl h0, ttlNs_never_late ttl h0⟩

example : ttlNs 3600 = 3600000000000 := by decide
example : ttlNs 9223372037 < 0 := by decide          -- already expired when stored: re-queried on every command
example : endpoint (ascii "127.0.0.1:4181") = ascii "http://127.0.0.1:4181/auth" := by decide
example : endpoint (ascii "https://auth.example/v1") = ascii "https://auth.example/v1" := by decide
example : encodeQuery (ascii "10.0.0.1") (ascii "cn") (ascii "a&tls=true") false =
    ascii "common_name=cn&remote_ip=10.0.0.1&secret=a%26tls%3Dtrue&tls=false" := by decide
example : queryAny 3 7 (fun i => i == 0) = ([1, 2, 0], some 0) := by decide
example : queryAny 3 2 (fun _ => false) = ([2, 0, 1], none) := by decide
example : queryAny 0 5 (fun _ => true) = ([], none) := by decide

end Nsq.Props.C11Auth
