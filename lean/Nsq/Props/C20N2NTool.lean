import Nsq.Proofs.RelayN2NTool
import Nsq.Props.C20GiveUp
/-!
# C20 — nsq_to_nsq over whole histories, and as shipped (audit round 7, item C22)

`Nsq.Props.C20.n2n_fin_only_after_accept` is a one-step statement: from an *arbitrary* state the model finishes
whatever id sits in `outstanding` (see the `example` at the end). Here the statements are about every history from
the tool's initial state `N2N.init = ⟨0, []⟩` and about **every occurrence** of `fin id` in the trace:

* `n2n_fin_history` — handler + responder: the `fin id` is immediately preceded by `accepted a id`, and *before*
  that an `Out.publish a id b` occurs in the same trace, caused by a `HandleMessage` event of this history with
  that id; without a filter `b` is that message's body, with a filter `b` is what the filter passed on — or a
  configured filter dropped a message event with that id.
* `n2n_tool_fin_history` — the tool as shipped (`N2N.consume`: go-nsq `handlerLoop`'s `shouldFailMessage` in
  front of the handler): the same, plus the third way a `fin` arises: the library gave up on a delivery.
* `n2n_tool_fin_only_after_accept` (full statement, without the give-up disjunct) is **false**
  (`…_false`, `max_attempts = 5`, attempts 6) and holds under the hypothesis "the library never gave up on a
  delivery of this history" (`…_partial`).
* `n2nSafeAt k ↔ k = 0`, and `both_relays_safe_iff`: the decision `Nsq.Props.C20GiveUp.relay_safe_iff` (which
  is about nsq_to_http's `Http.consume` only) now has its nsq_to_nsq half, instantiated with the regenerated
  `Nsq.Gen.ToolsRelay.n2nMaxAttempts`.
-/
namespace Nsq.Props.C20N2NTool
open Nsq.Model.Relay Nsq.Model.Relay.N2N Nsq.Proofs.RelayN2NTool

/-- the `fin id` at this position has an accepted transaction of a message of this history behind it:
`accepted a id` immediately before, `publish a id b` earlier, the publish caused by a `HandleMessage` event
with that id whose body is `b` (no filter) / whose filter result is `pass b` (filter configured) -/
def AcceptedBefore (c : Cfg) (evs : List Ev) (pre : List Out) (id : Nat) : Prop :=
  ∃ pre' a b, pre = pre' ++ [Out.accepted a id] ∧ Out.publish a id b ∈ pre' ∧
    ∃ m f p ae, Ev.msg m f p ae ∈ evs ∧ m.id = id ∧ (c.filterOn = false → b = m.body) ∧ (c.filterOn = true → f = .pass b)

/-- a configured filter dropped a message event with that id -/
def FilterDropped (c : Cfg) (evs : List Ev) (id : Nat) : Prop :=
  c.filterOn = true ∧ ∃ m pick ae, Ev.msg m .drop pick ae ∈ evs ∧ m.id = id

/-- **FIN only after accept, over whole histories (nsq_to_nsq handler + responder).** For every configuration,
every event history from the initial state and *every occurrence* of `fin id` in the trace. -/
theorem n2n_fin_history (c : Cfg) (evs : List Ev) (id : Nat) (pre post : List Out)
    (h : run c init evs = pre ++ Out.fin id :: post) :
    AcceptedBefore c evs pre id ∨ FilterDropped c evs id := by
  rw [run_eq_consumeRun] at h
  rcases fin_split_gen c 0 _ init id pre post h with ⟨pre', a, b, hp, horig⟩ | ⟨hf, t, ht, m, pick, ae, hev, hid⟩ | ⟨t, _, _, _, _, _, _, _, hs⟩
  · left
    rcases horig with hin | ⟨hpub, t, ht, m, f, p, ae, hev, hrest⟩
    · simp [init] at hin
    · obtain ⟨e, he, rfl⟩ := List.mem_map.mp ht
      exact ⟨pre', a, b, hp, hpub, m, f, p, ae, by simpa using hev ▸ he, hrest⟩
  · right
    obtain ⟨e, he, rfl⟩ := List.mem_map.mp ht
    exact ⟨hf, m, pick, ae, by simpa using hev ▸ he, hid⟩
  · simp [Http.shouldFail] at hs

/-- the same for the tool as shipped; a third origin of `fin`: go-nsq gave up on a delivery of that id -/
def TAcceptedBefore (c : Cfg) (tevs : List TEv) (pre : List Out) (id : Nat) : Prop :=
  ∃ pre' a b, pre = pre' ++ [Out.accepted a id] ∧ Out.publish a id b ∈ pre' ∧
    ∃ t ∈ tevs, ∃ m f p ae, t.ev = .msg m f p ae ∧ m.id = id ∧ (c.filterOn = false → b = m.body) ∧ (c.filterOn = true → f = .pass b)

theorem n2n_tool_fin_history (c : Cfg) (k : Nat) (tevs : List TEv) (id : Nat) (pre post : List Out)
    (h : consumeRun c k init tevs = pre ++ Out.fin id :: post) :
    TAcceptedBefore c tevs pre id ∨ Dropped c tevs id ∨ GaveUp k tevs id := by
  rcases fin_split_gen c k tevs init id pre post h with ⟨pre', a, b, hp, horig⟩ | hd | hg
  · left
    rcases horig with hin | ⟨hpub, hrest⟩
    · simp [init] at hin
    · exact ⟨pre', a, b, hp, hpub, hrest⟩
  · exact Or.inr (Or.inl hd)
  · exact Or.inr (Or.inr hg)

/-! ### "earlier in the history" (claim audit 2, C20 item 7)

`AcceptedBefore` / `TAcceptedBefore` only assert that some `HandleMessage` event with that id occurs *somewhere* in the
history. The strengthened forms pin the position: the history splits as `es1 ++ e :: es2` with `e` the `HandleMessage`
event of that id; `outT` is the output of `e`'s own step (the trace of `es1 ++ [e]` is the trace of `es1` followed by
`outT`), the `publish a id b` sits in `outT`, and `trace es1 ++ outT` is a prefix of what precedes the `accepted a id` —
so the delivery and the publish it caused come BEFORE the acknowledgement, in this order. -/

def AcceptedEarlier (c : Cfg) (evs : List Ev) (pre : List Out) (id : Nat) : Prop :=
  ∃ pre' a b, pre = pre' ++ [Out.accepted a id] ∧
    ∃ es1 e es2 outT rest, evs = es1 ++ e :: es2 ∧
      run c init (es1 ++ [e]) = run c init es1 ++ outT ∧ Out.publish a id b ∈ outT ∧
      pre' = run c init es1 ++ outT ++ rest ∧
      ∃ m f p ae, e = Ev.msg m f p ae ∧ m.id = id ∧ (c.filterOn = false → b = m.body) ∧ (c.filterOn = true → f = .pass b)

def TAcceptedEarlier (c : Cfg) (k : Nat) (tevs : List TEv) (pre : List Out) (id : Nat) : Prop :=
  ∃ pre' a b, pre = pre' ++ [Out.accepted a id] ∧
    ∃ ts1 t ts2 outT rest, tevs = ts1 ++ t :: ts2 ∧
      consumeRun c k init (ts1 ++ [t]) = consumeRun c k init ts1 ++ outT ∧ Out.publish a id b ∈ outT ∧
      pre' = consumeRun c k init ts1 ++ outT ++ rest ∧
      ∃ m f p ae, t.ev = .msg m f p ae ∧ m.id = id ∧ (c.filterOn = false → b = m.body) ∧ (c.filterOn = true → f = .pass b)

/-- the strengthened predicates imply the former ones -/
theorem AcceptedEarlier.before {c : Cfg} {evs : List Ev} {pre : List Out} {id : Nat}
    (h : AcceptedEarlier c evs pre id) : AcceptedBefore c evs pre id := by
  obtain ⟨pre', a, b, hp, es1, e, es2, outT, rest, hev, _, hpub, hpre, m, f, p, ae, he, hrest⟩ := h
  refine ⟨pre', a, b, hp, ?_, m, f, p, ae, ?_, hrest⟩
  · rw [hpre]; simp [hpub]
  · rw [hev, ← he]; simp

theorem TAcceptedEarlier.before {c : Cfg} {k : Nat} {tevs : List TEv} {pre : List Out} {id : Nat}
    (h : TAcceptedEarlier c k tevs pre id) : TAcceptedBefore c tevs pre id := by
  obtain ⟨pre', a, b, hp, ts1, t, ts2, outT, rest, hev, _, hpub, hpre, hrest⟩ := h
  refine ⟨pre', a, b, hp, ?_, t, ?_, hrest⟩
  · rw [hpre]; simp [hpub]
  · rw [hev]; simp

/-- **FIN only after accept, the tool as shipped, with positions**: every `fin id` of every history is immediately
preceded by `accepted a id`, whose `publish a id b` was emitted by the step of an EARLIER `HandleMessage` delivery of
that id — or a filter dropped such a delivery, or go-nsq gave up on one. -/
theorem n2n_tool_fin_history_earlier (c : Cfg) (k : Nat) (tevs : List TEv) (id : Nat) (pre post : List Out)
    (h : consumeRun c k init tevs = pre ++ Out.fin id :: post) :
    TAcceptedEarlier c k tevs pre id ∨ Dropped c tevs id ∨ GaveUp k tevs id := by
  rcases fin_split_pos c k tevs init id pre post h with ⟨pre', a, b, hp, horig⟩ | hd | hg
  · left
    rcases horig with hin | hpos
    · simp [init] at hin
    · exact ⟨pre', a, b, hp, hpos⟩
  · exact Or.inr (Or.inl hd)
  · exact Or.inr (Or.inr hg)

/-- … and for the handler + responder alone (`n2n_fin_history` with the position). -/
theorem n2n_fin_history_earlier (c : Cfg) (evs : List Ev) (id : Nat) (pre post : List Out)
    (h : run c init evs = pre ++ Out.fin id :: post) :
    AcceptedEarlier c evs pre id ∨ FilterDropped c evs id := by
  have h' := h
  rw [run_eq_consumeRun] at h'
  rcases n2n_tool_fin_history_earlier c 0 _ id pre post h' with
    ⟨pre', a, b, hp, ts1, t, ts2, outT, rest, hev, hrun, hpub, hpre, m, f, p, ae, he, hrest⟩ |
    ⟨hf, t, ht, m, pick, ae, hev, hid⟩ | ⟨t, _, _, _, _, _, _, _, hs⟩
  · left
    obtain ⟨es1, es2', h1, h2, h3⟩ := List.map_eq_append_iff.mp hev
    obtain ⟨e, es2, rfl, h4, h5⟩ := List.map_eq_cons_iff.mp h3
    subst h2 h4
    refine ⟨pre', a, b, hp, es1, e, es2, outT, rest, h1, ?_, hpub, ?_, m, f, p, ae, by simpa using he, hrest⟩
    · have : (es1 ++ [e]).map (fun e => (⟨0, e⟩ : TEv)) = es1.map (fun e => ⟨0, e⟩) ++ [⟨0, e⟩] := by simp
      rw [run_eq_consumeRun, run_eq_consumeRun, this]
      exact hrun
    · rw [run_eq_consumeRun]; exact hpre
  · right
    obtain ⟨e, he, rfl⟩ := List.mem_map.mp ht
    exact ⟨hf, m, pick, ae, by simpa using hev ▸ he, hid⟩
  · simp [Http.shouldFail] at hs

/-- non-vacuity: deliver message 7 (published to destination 0), then the transaction result: the `fin 7` has the
delivery at position 0 of the history behind it. -/
example : AcceptedEarlier ⟨false, 1, false⟩ [.msg ⟨7, [1]⟩ .drop 0 false, .result 0 true]
    [Out.publish 0 7 [1], Out.accepted 0 7] 7 :=
  ⟨[Out.publish 0 7 [1]], 0, [1], rfl, [], .msg ⟨7, [1]⟩ .drop 0 false, [.result 0 true], [Out.publish 0 7 [1]], [],
    rfl, by decide, by decide, by decide, ⟨7, [1]⟩, .drop, 0, false, rfl, rfl, fun _ => rfl, fun h => by cases h⟩
example : run ⟨false, 1, false⟩ init [.msg ⟨7, [1]⟩ .drop 0 false, .result 0 true] =
    [Out.publish 0 7 [1], Out.accepted 0 7] ++ Out.fin 7 :: [] := by decide

/-- full tool-level statement: every `fin` has an accepted transaction or a filter drop behind it -/
def n2n_tool_fin_only_after_accept (k : Nat) : Prop :=
  ∀ (c : Cfg) (tevs : List TEv) (id : Nat) (pre post : List Out),
    consumeRun c k init tevs = pre ++ Out.fin id :: post → TAcceptedBefore c tevs pre id ∨ Dropped c tevs id

/-- … is **false with the shipped `max_attempts = 5`** (open finding `gives-up-after-max-attempts`): the sixth
delivery of a message is finished although nothing was published and no filter is configured. -/
theorem n2n_tool_fin_only_after_accept_false : ¬ n2n_tool_fin_only_after_accept 5 := by
  intro h
  have hw : consumeRun ⟨true, 1, false⟩ 5 init [⟨6, .msg ⟨7, [1]⟩ .drop 0 false⟩] = [] ++ Out.fin 7 :: [] := by decide
  rcases h _ _ 7 [] [] hw with ⟨pre', a, b, hp, _⟩ | ⟨hf, _⟩
  · simp at hp
  · cases hf

/-- … and holds when the library never gave up on a delivery of this history (`max_attempts = 0`, or every
delivered `attempts ≤ max_attempts`). -/
theorem n2n_tool_fin_only_after_accept_partial (c : Cfg) (k : Nat) (tevs : List TEv) (id : Nat) (pre post : List Out)
    (hno : ∀ t ∈ tevs, Http.shouldFail k t.attempts = false)
    (h : consumeRun c k init tevs = pre ++ Out.fin id :: post) :
    TAcceptedBefore c tevs pre id ∨ Dropped c tevs id := by
  rcases n2n_tool_fin_history c k tevs id pre post h with ha | hd | ⟨t, ht, _, _, _, _, _, _, hs⟩
  · exact Or.inl ha
  · exact Or.inr hd
  · rw [hno t ht] at hs; cases hs

/-- no `fin` for an id that was never delivered: every finished id is the id of a message event of this history
(the responder cannot finish a message the handler never saw) -/
theorem n2n_tool_response_has_delivery (c : Cfg) (k : Nat) (tevs : List TEv) (id : Nat)
    (h : Out.fin id ∈ consumeRun c k init tevs) :
    ∃ t ∈ tevs, ∃ m f p ae, t.ev = .msg m f p ae ∧ m.id = id := by
  obtain ⟨pre, post, hsplit⟩ := List.append_of_mem h
  rcases n2n_tool_fin_history c k tevs id pre post hsplit with ⟨_, _, _, _, _, t, ht, m, f, p, ae, hev, hid, _⟩ |
      ⟨_, t, ht, m, p, ae, hev, hid⟩ | ⟨t, ht, m, f, p, ae, hev, hid, _⟩
  · exact ⟨t, ht, m, f, p, ae, hev, hid⟩
  · exact ⟨t, ht, m, .drop, p, ae, hev, hid⟩
  · exact ⟨t, ht, m, f, p, ae, hev, hid⟩

/-! ### the decision of finding `gives-up-after-max-attempts`, nsq_to_nsq half -/

/-- nsq_to_nsq run with `max_attempts = k` acknowledges only after acceptance (or a filter drop) -/
def n2nSafeAt (k : Nat) : Prop := n2n_tool_fin_only_after_accept k

theorem n2n_safe_without_giveup : n2nSafeAt 0 := by
  intro c tevs id pre post h
  exact n2n_tool_fin_only_after_accept_partial c 0 tevs id pre post (fun _ _ => by simp [Http.shouldFail]) h

theorem n2n_unsafe_with_giveup (k : Nat) (hk : 0 < k) : ¬ n2nSafeAt k := by
  intro h
  have hs : Http.shouldFail k (k + 1) = true := by simp [Http.shouldFail, hk]
  have hw : consumeRun ⟨true, 1, false⟩ k init [⟨k + 1, .msg ⟨7, [1]⟩ .drop 0 false⟩] = [] ++ Out.fin 7 :: [] := by
    simp [consumeRun, consume, hs]
  rcases h _ _ 7 [] [] hw with ⟨pre', a, b, hp, _⟩ | ⟨hf, _⟩
  · simp at hp
  · cases hf

theorem n2n_safe_iff (k : Nat) : n2nSafeAt k ↔ k = 0 := by
  constructor
  · intro h
    cases k with
    | zero => rfl
    | succ n => exact absurd h (n2n_unsafe_with_giveup (n + 1) (Nat.succ_pos n))
  · rintro rfl; exact n2n_safe_without_giveup

/-- **both relays**: `Nsq.Props.C20GiveUp.relaySafeAt` is nsq_to_http's statement (`Http.consume`), `n2nSafeAt`
is nsq_to_nsq's; each holds iff the consumer never gives up, instantiated with the values regenerated from the two
`main()`s (tie `Nsq.Tie.ToolsRelay.relays_run_with_library_default`: both are 5). -/
theorem both_relays_safe_iff :
    (Nsq.Props.C20GiveUp.relaySafeAt Nsq.Gen.ToolsRelay.n2hMaxAttempts ↔ Nsq.Gen.ToolsRelay.n2hMaxAttempts = 0) ∧
    (n2nSafeAt Nsq.Gen.ToolsRelay.n2nMaxAttempts ↔ Nsq.Gen.ToolsRelay.n2nMaxAttempts = 0) :=
  ⟨Nsq.Props.C20GiveUp.relay_safe_iff _, n2n_safe_iff _⟩

/-! ### non-vacuity -/

/-- two transactions outstanding, completing out of order (the second first): round-robin over two destinations -/
example : run ⟨true, 2, false⟩ init
      [.msg ⟨5, [9]⟩ .drop 0 false, .msg ⟨6, [8]⟩ .drop 0 false, .result 1 true, .result 0 false] =
    [Out.publish 1 5 [9], Out.publish 0 6 [8], Out.accepted 0 6, Out.fin 6, Out.rejected 1 5, Out.req 5] := by decide

/-- `n2n_fin_history` applied to that trace: the occurrence of `fin 6` -/
example : AcceptedBefore ⟨true, 2, false⟩
    [.msg ⟨5, [9]⟩ .drop 0 false, .msg ⟨6, [8]⟩ .drop 0 false, .result 1 true, .result 0 false]
    [Out.publish 1 5 [9], Out.publish 0 6 [8], Out.accepted 0 6] 6 ∨ FilterDropped ⟨true, 2, false⟩
    [.msg ⟨5, [9]⟩ .drop 0 false, .msg ⟨6, [8]⟩ .drop 0 false, .result 1 true, .result 0 false] 6 :=
  n2n_fin_history _ _ 6 _ [Out.rejected 1 5, Out.req 5] (by decide)

/-- the filter-drop branch is reachable -/
example : run ⟨false, 2, true⟩ init [.msg ⟨5, [9]⟩ .drop 0 false] = [Out.fin 5] := by decide

/-- why the initial state matters: from an arbitrary state the one-step model finishes an id no event delivered -/
example : (step ⟨true, 2, false⟩ ⟨0, [⟨9, 42, [1]⟩]⟩ (.result 0 true)).2 = [Out.accepted 9 42, Out.fin 42] := by decide

/-- the give-up rule in front of the handler: attempts 5 → published, attempts 6 → bare `fin` -/
example : consumeRun ⟨true, 1, false⟩ 5 init [⟨5, .msg ⟨7, [1]⟩ .drop 0 false⟩, ⟨0, .result 0 false⟩] =
    [Out.publish 0 7 [1], Out.rejected 0 7, Out.req 7] := by decide
example : consumeRun ⟨true, 1, false⟩ 5 init [⟨6, .msg ⟨7, [1]⟩ .drop 0 false⟩] = [Out.fin 7] := by decide
example : consumeRun ⟨true, 1, false⟩ 0 init [⟨6, .msg ⟨7, [1]⟩ .drop 0 false⟩] = [Out.publish 0 7 [1]] := by decide
example : ¬ n2nSafeAt 5 := n2n_unsafe_with_giveup 5 (by decide)
example : (∀ t ∈ [(⟨5, .msg ⟨7, [1]⟩ .drop 0 false⟩ : TEv)], Http.shouldFail 5 t.attempts = false) := by decide

end Nsq.Props.C20N2NTool
