import Nsq.Proofs.Gate
import Nsq.Tie.Gate
/-!
# C11 — TLS-required and AUTH policies cannot be bypassed

Property theorems only (helper lemmas: `Nsq.Proofs.Gate`; the model: `Nsq.Model.Gate`; its tie to
the source: `Nsq.Tie.Gate` (regenerated order-of-statements facts) and the correspondence harness
`harness/gate/gate_test.go`).

Every theorem holds for every configuration `cfg`, every regular-expression engine `M`
(`compiles`, `isMatch` arbitrary), every behaviour `E` of FIN/REQ/TOUCH, every auth-server behaviour
`ans` (an arbitrary function of the request, which may be a different function at every step of a
history: errors, changes of mind, empty grants), every clock reading `now` (no monotonicity), every
broker content and every interleaved interference by the environment (`Ev.env`).
-/
set_option linter.unusedSimpArgs false
set_option linter.unusedVariables false
namespace Nsq.Props.C11
open Nsq.Model.Gate Nsq.Proofs.Gate

/-! ## 1. TLS gate -/

/-- `tls_gate` (one command): with TLS required, on a connection that has not completed a TLS
handshake every command other than IDENTIFY is answered by the fatal `E_INVALID`, the connection is
closed, nothing is asked of the auth server, and neither the broker nor the connection changes. -/
theorem tls_gate (E : Ext) (cfg : Config) (M : Matcher) (ans : Request → Option Resp) (now : Int)
    (c : Conn) (b : Broker) (cmd : Cmd)
    (hreq : cfg.tlsRequired ≠ .no) (htls : c.tls = false) (hopen : c.closed = false)
    (hcmd : cmd.isIdentify = false) :
    step E cfg M ans now c b cmd =
      { conn := c, broker := b, replies := [.err "E_INVALID" true], close := true, query := none } := by
  rw [step_open _ _ _ _ _ _ _ _ hopen, exec_tls_blocked _ _ _ _ _ _ _ _ (by simp [tlsBlocked, hreq, htls]) hcmd]
  rfl

example : (step exE (exCfg .yes .none false) exM exDown 0 (Conn.fresh 1) [] (.pub ["t"] 3)).replies =
    [.err "E_INVALID" true] := by decide
example : (step exE (exCfg .exceptHTTP .none false) exM exDown 0 (Conn.fresh 1) [] .nop).close = true := by decide
/-- (without the requirement the same command goes through) -/
example : (step exE (exCfg .no .none false) exM exDown 0 (Conn.fresh 1) [] (.pub ["t"] 3)).replies = [.ok] := by decide

/-- `tls_only_by_handshake`: the TLS flag of a connection goes from false to true only inside an
IDENTIFY issued in the initial state that negotiates features, asks for `tls_v1`, on a server
that has a TLS configuration, and whose handshake the server side completed (under the configured
client-certificate policy); the reply sequence is then the negotiation JSON followed by `OK`. -/
theorem tls_only_by_handshake (E : Ext) (cfg : Config) (M : Matcher) (ans : Request → Option Resp)
    (now : Int) (c : Conn) (b : Broker) (cmd : Cmd)
    (hbefore : c.tls = false) (hafter : (after (step E cfg M ans now c b cmd)).conn.tls = true) :
    ∃ d, cmd = .identify d ∧ c.state = .init ∧ d.featureNegotiation = true ∧ d.tlsv1 = true ∧
      cfg.hasTls = true ∧ (∃ cn, handshake cfg.certPolicy d.cert = some cn) ∧
      (step E cfg M ans now c b cmd).replies = [.identify true cfg.authEnabled, .ok] := by
  rw [after_tls] at hafter
  by_cases hcl : c.closed = true
  · rw [step_closed _ _ _ _ _ _ _ _ hcl] at hafter; simp [hbefore] at hafter
  · have hcl' : c.closed = false := by simpa using hcl
    rw [step_open _ _ _ _ _ _ _ _ hcl'] at hafter ⊢
    obtain ⟨d, hd, a1, _, a3, a4, a5, a6, a7, _⟩ := exec_tls E cfg M ans now c b cmd hafter hbefore
    exact ⟨d, hd, a1, a3, a5, a4, a6, a7⟩

example : (after (step exE (exCfg .yes .require true) exM exDown 0 (Conn.fresh 1) []
    (exIdentify (.untrusted "cn")))).conn.tls = true := by decide
example : (after (step exE (exCfg .yes .requireVerify true) exM exDown 0 (Conn.fresh 1) []
    (exIdentify (.untrusted "cn")))).conn.tls = false := by decide

/-- `client_cert_gate`: what the handshake demands of the client under each policy. -/
theorem client_cert_gate (cert : ClientCert) (cn : String) :
    (handshake .requireVerify cert = some cn → cert = .trusted cn) ∧
    (handshake .require cert = some cn → cert = .trusted cn ∨ cert = .untrusted cn) ∧
    (handshake .none cert = some cn → cert ≠ .noHandshake ∧ cn = "") := by
  cases cert <;> simp [handshake] <;> intro h <;> exact h.symm

/-- `tls_gate_history`: in every history of a connection that started without TLS, under a
TLS-required configuration, a command other than IDENTIFY can change the broker only if (1) an
earlier IDENTIFY of the same history completed a TLS handshake, **and** (2) the bytes of that
command were received by the reader that is current at that moment, which is not the plaintext
reader (`rd ≠ 0`): they came out of the decrypted stream. Bytes that crossed the wire in the clear
— even if they were already sitting in the server's buffer when the handshake started — are never
executed with an effect. -/
theorem tls_gate_history (E : Ext) (cfg : Config) (M : Matcher) (id : Nat) (b0 : Broker)
    (evs : List Ev) (pre : List Rec) (r : Rec) (post : List Rec)
    (h : trace E cfg M { conn := Conn.fresh id, broker := b0 } evs = pre ++ r :: post)
    (hreq : cfg.tlsRequired ≠ .no)
    (rd : Nat) (now : Int) (ans : Request → Option Resp) (cmd : Cmd)
    (hev : r.ev = .cmd rd now ans cmd) (hcmd : cmd.isIdentify = false)
    (heff : r.res.broker ≠ r.pre.broker) :
    (∃ q ∈ pre, IsTlsUpgrade cfg q) ∧ rd = r.pre.conn.rd ∧ rd ≠ 0 := by
  have hm := (trace_mem E cfg M evs _ r (mem_of_split h)).1
  rw [hev] at hm
  rw [hm] at heff
  obtain ⟨hrd, hst⟩ := stepEv_cmd_effect E cfg M r.pre rd now ans cmd heff
  rw [hst] at hm heff
  have ht : r.pre.conn.tls = true := by
    by_cases ht : r.pre.conn.tls = true
    · exact ht
    · exfalso
      have ht' : r.pre.conn.tls = false := by simpa using ht
      by_cases hcl : r.pre.conn.closed = true
      · rw [step_closed _ _ _ _ _ _ _ _ hcl] at heff; exact heff rfl
      · have hcl' : r.pre.conn.closed = false := by simpa using hcl
        rw [tls_gate E cfg M ans now _ _ cmd hreq ht' hcl' hcmd] at heff
        exact heff rfl
  refine ⟨?_, hrd, ?_⟩
  · rcases trace_tls E cfg M evs _ pre r post h ht with h0 | h0
    · simp [Conn.fresh] at h0
    · exact h0
  · rw [hrd]
    exact trace_flag_reader E cfg M evs _ pre r post h (by simp [Conn.fresh]) ht

/-- `plaintext_bytes_never_executed`: with TLS required, a command line (other than IDENTIFY) whose
bytes were received in the clear (`rd = 0`: before any handshake, whenever it is that the server
gets round to them) has no effect on the broker and is never answered with success: it is either
answered by the fatal `E_INVALID` of the TLS gate, or — if a handshake has replaced the reader in
the meantime, or the connection is gone — it is not answered at all: the plaintext reader's
leftover buffer is discarded, not replayed into the TLS session. -/
theorem plaintext_bytes_never_executed (E : Ext) (cfg : Config) (M : Matcher) (id : Nat) (b0 : Broker)
    (evs : List Ev) (pre : List Rec) (r : Rec) (post : List Rec)
    (h : trace E cfg M { conn := Conn.fresh id, broker := b0 } evs = pre ++ r :: post)
    (hreq : cfg.tlsRequired ≠ .no)
    (now : Int) (ans : Request → Option Resp) (cmd : Cmd)
    (hev : r.ev = .cmd 0 now ans cmd) (hcmd : cmd.isIdentify = false) :
    r.res.broker = r.pre.broker ∧ r.res.conn = r.pre.conn ∧ r.res.query = none ∧
    (r.res.replies = [] ∨ r.res.replies = [.err "E_INVALID" true]) := by
  have hm := (trace_mem E cfg M evs _ r (mem_of_split h)).1
  rw [hev] at hm
  simp only [stepEv] at hm
  by_cases hrd : 0 = r.pre.conn.rd
  · simp only [hrd, if_true] at hm
    have ht : r.pre.conn.tls = false := by
      by_cases ht : r.pre.conn.tls = true
      · exact absurd hrd.symm (trace_flag_reader E cfg M evs _ pre r post h (by simp [Conn.fresh]) ht)
      · simpa using ht
    by_cases hcl : r.pre.conn.closed = true
    · rw [step_closed _ _ _ _ _ _ _ _ hcl] at hm; rw [hm]; simp
    · have hcl' : r.pre.conn.closed = false := by simpa using hcl
      rw [tls_gate E cfg M ans now _ _ cmd hreq ht hcl' hcmd] at hm
      rw [hm]; simp
  · simp only [hrd, if_false] at hm
    rw [hm]; simp

/-- the injection attempt: `PUB` sent in the clear right behind the TLS-negotiating IDENTIFY (it is
in the plaintext reader's buffer when the handshake runs), then a legitimate `PUB` inside TLS:
the injected one is dropped — no reply, no topic —, the legitimate one is executed. -/
example :
    ((trace exE (exCfg .yes .none false) exM { conn := Conn.fresh 3, broker := [] }
      [.cmd 0 0 exDown (exIdentify .noCert),
       .cmd 0 0 exDown (.pub ["injected"] 3),
       .cmd 1 0 exDown (.pub ["legit"] 3)]).map (fun r => (r.res.replies, r.post.broker.map (·.name)))) =
    [([.identify true false, .ok], []), ([], []), ([.ok], ["legit"])] := by decide
/-- without the upgrade the same plaintext line is read next and refused by the gate -/
example :
    ((trace exE (exCfg .yes .none false) exM { conn := Conn.fresh 3, broker := [] }
      [.cmd 0 0 exDown (.pub ["injected"] 3)]).map (fun r => r.res.replies)) =
    [[.err "E_INVALID" true]] := by decide

/-- `http_tls_gate`: a request on the plaintext HTTP listener is refused with 403 exactly when
`tls-required` is `true` (not for `tcp-https`); the TLS listener never refuses on these grounds. -/
theorem http_tls_gate (cfg : Config) :
    (httpGate cfg false = .forbidden403 ↔ cfg.tlsRequired = .yes) ∧ httpGate cfg true = .routed := by
  constructor
  · cases h : cfg.tlsRequired <;> simp [httpGate, serveHTTP, httpTlsRequired, h]
  · simp [httpGate, serveHTTP, httpTlsRequired]

/-- `tls_config`: the effective setting — a client-certificate policy forces `tls-required`, and a
TLS-required server always has a TLS configuration (otherwise `New` refuses to start). -/
theorem tls_config (o : Options) (cfg : Config) (h : mkConfig o = some cfg) :
    (cfg.tlsRequired ≠ .no ↔ (o.tlsRequired ≠ .no ∨ o.clientAuthPolicy ≠ "")) ∧
    (cfg.tlsRequired ≠ .no → cfg.hasTls = true) ∧
    (cfg.authEnabled = true ↔ o.authAddrs ≠ 0) := by
  unfold mkConfig at h
  split at h
  · simp at h
  · rename_i hn
    simp only [Option.some.injEq] at h
    subst h
    simp only []
    refine ⟨?_, ?_, by simp⟩
    · unfold effTlsRequired
      by_cases hp : o.clientAuthPolicy = "" <;> by_cases hr : o.tlsRequired = .no <;> simp [hp, hr]
    · intro hne
      cases hc : o.hasCert
      · exact absurd ⟨hc, hne⟩ hn
      · rfl

example : mkConfig (exOpts .no "require" true 1) = some (exCfg .yes .require true) := by decide
example : mkConfig (exOpts .exceptHTTP "" false 0) = none := by decide

/-! ## 2. AUTH gate -/

/-- `auth_gate` (one command): with an auth server configured, a PUB / MPUB / DPUB / SUB changes the
broker only if the connection holds authorizations and the grants in force at this instant — the
cached answer while `now ≤ expires`, otherwise the validated answer to the re-query made now —
allow the needed permission on that topic and channel. -/
theorem auth_gate (E : Ext) (cfg : Config) (M : Matcher) (ans : Request → Option Resp) (now : Int)
    (c : Conn) (b : Broker) (cmd : Cmd)
    (hg : cmd.isGated = true) (hauth : cfg.authEnabled = true)
    (heff : (step E cfg M ans now c b cmd).broker ≠ b) :
    hasAuthorizations c = true ∧
    ∃ g, inForce M ans now c = some g ∧ isAllowed M (subject cmd).1 (subject cmd).2 g = true := by
  by_cases hcl : c.closed = true
  · rw [step_closed _ _ _ _ _ _ _ _ hcl] at heff; exact absurd rfl heff
  have hcl' : c.closed = false := by simpa using hcl
  rw [step_open _ _ _ _ _ _ _ _ hcl'] at heff
  have hni : cmd.isIdentify = false := by cases cmd <;> simp [Cmd.isGated] at hg <;> rfl
  by_cases hb : tlsBlocked cfg c = true
  · rw [exec_tls_blocked _ _ _ _ _ _ _ _ hb hni] at heff; exact absurd rfl heff
  have hex : exec E cfg M ans now c b cmd = dispatch E cfg M ans now c b cmd := by
    cases cmd <;> simp [Cmd.isIdentify] at hni <;> simp [exec, hb]
  rw [hex] at heff
  rcases dispatch_gated_cases E cfg M ans now c b cmd hg with ⟨code, _, hr⟩ | ⟨code, _, hr⟩ | ⟨hd, _⟩
  · rw [hr] at heff; exact absurd rfl heff
  · rw [hr] at heff; exact absurd rfl heff
  · rw [checkAuth_deny _ _ _ _ _ _ _ hauth] at hd
    by_cases hha : hasAuthorizations c = false
    · simp [hha] at hd
    · have hha' : hasAuthorizations c = true := by simpa using hha
      refine ⟨hha', ?_⟩
      simp only [hha'] at hd
      cases hf : inForce M ans now c with
      | none => simp [hf] at hd
      | some g =>
        refine ⟨g, rfl, ?_⟩
        simp only [hf] at hd
        by_cases hal : isAllowed M (subject cmd).1 (subject cmd).2 g = true
        · exact hal
        · simp [hal] at hd

/-- `auth_gate_history`: over every command history of a connection (starting fresh), every
auth-server behaviour and every interference: a PUB / MPUB / DPUB / SUB has a broker effect at some
step only if a successful AUTH occurred at an earlier step of the same history and the grants in
force at that step allow it. -/
theorem auth_gate_history (E : Ext) (cfg : Config) (M : Matcher) (id : Nat) (b0 : Broker)
    (evs : List Ev) (pre : List Rec) (r : Rec) (post : List Rec)
    (h : trace E cfg M { conn := Conn.fresh id, broker := b0 } evs = pre ++ r :: post)
    (hauth : cfg.authEnabled = true)
    (rd : Nat) (now : Int) (ans : Request → Option Resp) (cmd : Cmd)
    (hev : r.ev = .cmd rd now ans cmd) (hg : cmd.isGated = true)
    (heff : r.res.broker ≠ r.pre.broker) :
    (∃ q ∈ pre, IsAuthSuccess q) ∧
    ∃ g, inForce M ans now r.pre.conn = some g ∧ isAllowed M (subject cmd).1 (subject cmd).2 g = true := by
  have hm := (trace_mem E cfg M evs _ r (mem_of_split h)).1
  rw [hev] at hm
  rw [hm] at heff
  rw [(stepEv_cmd_effect E cfg M r.pre rd now ans cmd heff).2] at heff
  obtain ⟨ha, hg'⟩ := auth_gate E cfg M ans now _ _ cmd hg hauth heff
  refine ⟨?_, hg'⟩
  rcases trace_hasAuth E cfg M evs _ pre r post h ha with h0 | h0
  · simp [Conn.fresh, hasAuthorizations] at h0
  · exact h0

/-- `requery_after_ttl`: when a PUB / MPUB / DPUB / SUB reaches the auth check (it is not rejected
for its arguments) on a connection holding a cached answer `a`: the auth server is asked again —
with the connection's TLS state, certificate name and AUTH secret — exactly when `a.expires < now`;
the answer it gives then replaces the cached one; an unexpired answer is used as it is, without a
query. -/
theorem requery_after_ttl (E : Ext) (cfg : Config) (M : Matcher) (ans : Request → Option Resp)
    (now : Int) (c : Conn) (b : Broker) (cmd : Cmd) (a : AuthState)
    (hg : cmd.isGated = true) (hauth : cfg.authEnabled = true)
    (hopen : c.closed = false) (hgate : tlsBlocked cfg c = false)
    (hca : c.auth = some a) (hne : a.grants.length ≠ 0)
    (hargs : ∀ code, ¬ authCode code → step E cfg M ans now c b cmd ≠ fatalRes c b code) :
    (step E cfg M ans now c b cmd).query = (if a.expires < now then some (requestOf c) else none) ∧
    (a.expires < now → ∀ a', validate M now (ans (requestOf c)) = some a' →
        (step E cfg M ans now c b cmd).conn.auth = some a') ∧
    (¬ a.expires < now → (step E cfg M ans now c b cmd).conn.auth = some a) := by
  rw [step_open _ _ _ _ _ _ _ _ hopen] at hargs ⊢
  have hni : cmd.isIdentify = false := by cases cmd <;> simp [Cmd.isGated] at hg <;> rfl
  have hex : exec E cfg M ans now c b cmd = dispatch E cfg M ans now c b cmd := by
    cases cmd <;> simp [Cmd.isIdentify] at hni <;> simp [exec, hgate]
  rw [hex] at hargs ⊢
  have hq := checkAuth_query cfg M ans now c (subject cmd).1 (subject cmd).2
  have hha : hasAuthorizations c = true := by simp [hasAuthorizations, hca, hne]
  have hqa : (dispatch E cfg M ans now c b cmd).query = (checkAuth cfg M ans now c (subject cmd).1 (subject cmd).2).query ∧
      (dispatch E cfg M ans now c b cmd).conn.auth = (checkAuth cfg M ans now c (subject cmd).1 (subject cmd).2).conn.auth := by
    rcases dispatch_gated_cases E cfg M ans now c b cmd hg with ⟨code, hnc, hr⟩ | ⟨code, _, hr⟩ | ⟨_, h1, h2, _⟩
    · exact absurd hr (hargs code hnc)
    · rw [hr]; exact ⟨rfl, rfl⟩
    · exact ⟨h1, h2⟩
  rw [hqa.1, hqa.2, hq]
  refine ⟨?_, ?_, ?_⟩
  · by_cases he : a.expires < now
    · simp [hauth, hha, hca, he]
    · simp [hca, he]
  · intro he a' hv
    rw [checkAuth_conn_requeried cfg M ans now c _ _ a a' hauth hca hne he hv]
  · intro he
    rw [checkAuth_conn_cached cfg M ans now c _ _ a hca he]; exact hca

/-- non-vacuity of `auth_gate` / `requery_after_ttl`: a publish allowed by the cached grants goes
through without a query; past the TTL the server is asked again and its new answer decides. -/
example : (step exE (exCfg .no .none true) exM exDown 5 exAuthed [] (.pub ["orders"] 3)).broker =
    [{ name := "orders", msgs := [{ size := 3, deferNs := 0 }], chans := [] }] := by decide
example : (step exE (exCfg .no .none true) exM exDown 5 exAuthed [] (.pub ["orders"] 3)).query = none := by decide
example : (step exE (exCfg .no .none true) exM (exAns 60 exGrants) 11 exAuthed [] (.pub ["orders"] 3)).query =
    some { tls := false, cn := "", secret := "s" } := by decide
/-- the server changed its mind: the grant is gone after the TTL -/
example : (step exE (exCfg .no .none true) exM (exAns 60 []) 11 exAuthed [] (.pub ["orders"] 3)).replies =
    [.err "E_UNAUTHORIZED" true] := by decide
/-- … or is down: the stale cached grant is not used -/
example : (step exE (exCfg .no .none true) exM exDown 11 exAuthed [] (.pub ["orders"] 3)).replies =
    [.err "E_AUTH_FAILED" true] := by decide
/-- the boundary: at `now = expires` the cached answer still counts (`Expires.Before(now)` is strict) -/
example : (step exE (exCfg .no .none true) exM exDown 10 exAuthed [] (.pub ["orders"] 3)).replies = [.ok] := by decide
/-- grants differ per channel: `c0` may be subscribed, `c1` may not -/
example : (step exE (exCfg .no .none true) exM exDown 5 exAuthed [] (.sub ["orders", "c0"])).replies = [.ok] := by decide
example : (step exE (exCfg .no .none true) exM exDown 5 exAuthed [] (.sub ["orders", "c1"])).replies =
    [.err "E_UNAUTHORIZED" true] := by decide
example : (step exE (exCfg .no .none true) exM exDown 5 (Conn.fresh 1) [] (.sub ["orders", "c0"])).replies =
    [.err "E_AUTH_FIRST" true] := by decide

/-- `deny_no_trace`: if a PUB / MPUB / DPUB / SUB is answered with one of the auth denial codes, the
command has not touched the broker at all (the check precedes topic / channel creation and the
enqueue), nothing but the cached authorization changed on the connection, and after the connection
is torn down the topics, channels and messages are still exactly those from before. -/
theorem deny_no_trace (E : Ext) (cfg : Config) (M : Matcher) (ans : Request → Option Resp) (now : Int)
    (c : Conn) (b : Broker) (cmd : Cmd) (code : String) (fatal : Bool)
    (hg : cmd.isGated = true) (hcode : authCode code)
    (hrep : (step E cfg M ans now c b cmd).replies = [.err code fatal]) :
    (step E cfg M ans now c b cmd).broker = b ∧
    content (after (step E cfg M ans now c b cmd)).broker = content b := by
  have hb : (step E cfg M ans now c b cmd).broker = b := by
    by_cases hcl : c.closed = true
    · rw [step_closed _ _ _ _ _ _ _ _ hcl]
    have hcl' : c.closed = false := by simpa using hcl
    rw [step_open _ _ _ _ _ _ _ _ hcl'] at hrep ⊢
    have hni : cmd.isIdentify = false := by cases cmd <;> simp [Cmd.isGated] at hg <;> rfl
    by_cases hbl : tlsBlocked cfg c = true
    · rw [exec_tls_blocked _ _ _ _ _ _ _ _ hbl hni]; rfl
    have hex : exec E cfg M ans now c b cmd = dispatch E cfg M ans now c b cmd := by
      cases cmd <;> simp [Cmd.isIdentify] at hni <;> simp [exec, hbl]
    rw [hex] at hrep ⊢
    rcases dispatch_gated_cases E cfg M ans now c b cmd hg with ⟨code', _, hr⟩ | ⟨code', _, hr⟩ | ⟨_, _, _, hr⟩
    · rw [hr]; rfl
    · rw [hr]; rfl
    · exfalso
      rcases hr with hr | ⟨code', hn, hr⟩
      · rw [hr] at hrep; simp at hrep
      · rw [hr] at hrep
        simp only [List.cons.injEq, Reply.err.injEq, and_true] at hrep
        exact hn (hrep.1 ▸ hcode)
  refine ⟨hb, ?_⟩
  rw [after_content, hb]

/-- `deny_is_fatal`: a PUB / MPUB / DPUB / SUB that reaches the auth check (not rejected for TLS or
its arguments) and is not let through is answered with exactly one error frame, carrying the
documented code for the reason — `E_AUTH_FIRST` (no successful AUTH so far), `E_AUTH_FAILED` (the
cached answer expired and the auth server could not be asked), `E_UNAUTHORIZED` (the grants in force
do not allow it) — and the error is fatal: the connection is closed. -/
theorem deny_is_fatal (E : Ext) (cfg : Config) (M : Matcher) (ans : Request → Option Resp) (now : Int)
    (c : Conn) (b : Broker) (cmd : Cmd)
    (hg : cmd.isGated = true) (hauth : cfg.authEnabled = true)
    (hopen : c.closed = false) (hgate : tlsBlocked cfg c = false)
    (hargs : ∀ code, ¬ authCode code → step E cfg M ans now c b cmd ≠ fatalRes c b code) :
    let r := step E cfg M ans now c b cmd
    (hasAuthorizations c = false → r.replies = [.err "E_AUTH_FIRST" true] ∧ r.close = true) ∧
    (hasAuthorizations c = true → inForce M ans now c = none →
        r.replies = [.err "E_AUTH_FAILED" true] ∧ r.close = true) ∧
    (hasAuthorizations c = true → ∀ g, inForce M ans now c = some g →
        isAllowed M (subject cmd).1 (subject cmd).2 g = false →
        r.replies = [.err "E_UNAUTHORIZED" true] ∧ r.close = true) := by
  intro r
  have hr : r = dispatch E cfg M ans now c b cmd := by
    show step E cfg M ans now c b cmd = _
    rw [step_open _ _ _ _ _ _ _ _ hopen]
    have hni : cmd.isIdentify = false := by cases cmd <;> simp [Cmd.isGated] at hg <;> rfl
    cases cmd <;> simp [Cmd.isIdentify] at hni <;> simp [exec, hgate]
  have hargs' : ∀ code, ¬ authCode code → r ≠ fatalRes c b code := hargs
  have key : ∀ code, (checkAuth cfg M ans now c (subject cmd).1 (subject cmd).2).deny = some code →
      r.replies = [.err code true] ∧ r.close = true := by
    intro code hd
    rcases dispatch_gated_cases E cfg M ans now c b cmd hg with ⟨code', hn, h'⟩ | ⟨code', hd', h'⟩ | ⟨hd', _⟩
    · exact absurd (hr ▸ h') (hargs' code' hn)
    · rw [hd] at hd'; simp at hd'; subst hd'
      rw [hr, h']; exact ⟨rfl, rfl⟩
    · rw [hd] at hd'; simp at hd'
  have hd := checkAuth_deny cfg M ans now c (subject cmd).1 (subject cmd).2 hauth
  refine ⟨?_, ?_, ?_⟩
  · intro h0
    exact key _ (by rw [hd]; simp [h0])
  · intro h0 hf
    exact key _ (by rw [hd]; simp [h0, hf])
  · intro h0 g hf hal
    exact key _ (by rw [hd]; simp [h0, hf, hal])

/-- every error a gated command can be answered with in the model is fatal -/
example : (step exE (exCfg .no .none true) exM exDown 5 exAuthed [] (.pub ["other"] 3)).close = true := by decide

/-- `isAllowed_spec`: `State.IsAllowed(topic, channel)` holds iff some grant has the needed
permission — `subscribe` if a channel is named, `publish` otherwise —, its topic pattern matches the
topic and one of its channel patterns matches the channel. -/
theorem isAllowed_spec (M : Matcher) (topic channel : String) (gs : List Grant) :
    isAllowed M topic channel gs = true ↔
      ∃ g ∈ gs, (if channel ≠ "" then "subscribe" else "publish") ∈ g.perms ∧
        M.isMatch g.topic topic = true ∧ ∃ p ∈ g.channels, M.isMatch p channel = true :=
  isAllowed_iff M topic channel gs

example : isAllowed exM "orders" "c0" exGrants = true ∧ isAllowed exM "orders" "c1" exGrants = false ∧
    isAllowed exM "orders" "" exGrants = true ∧ isAllowed exM "other" "" exGrants = false := by decide
/-- a grant without channel patterns allows nothing, not even publishing -/
example : isAllowed exM "orders" "" [{ topic := "orders", channels := [], perms := ["publish"] }] = false := by decide

/-! ## 3. AUTH itself -/

/-- `auth_command`: AUTH never touches the broker; it is refused when auth is not configured
(`E_AUTH_DISABLED`) and when authorizations are already held (`E_INVALID`, "AUTH already set"); when
it succeeds, the answer the auth server gave to *this* secret (with the connection's TLS state) is
what is cached, it has at least one grant, and it expires `ttl` after now. -/
theorem auth_command (E : Ext) (cfg : Config) (M : Matcher) (ans : Request → Option Resp) (now : Int)
    (c : Conn) (b : Broker) (args : List String) (size : Int) (secret : String) :
    let r := step E cfg M ans now c b (.auth args size secret)
    r.broker = b ∧
    (isAuthOk r.replies →
      cfg.authEnabled = true ∧ hasAuthorizations c = false ∧ r.close = false ∧
      r.query = some { tls := c.tls, cn := if c.tls then c.cn else "", secret := secret } ∧
      ∃ resp, ans { tls := c.tls, cn := if c.tls then c.cn else "", secret := secret } = some resp ∧
        resp.ttl > 0 ∧ resp.grants ≠ [] ∧ r.conn.secret = secret ∧
        r.conn.auth = some { grants := resp.grants, expires := now + resp.ttl, identity := resp.identity, url := resp.url }) := by
  intro r
  by_cases hcl : c.closed = true
  · have hr : r = _ := step_closed E cfg M ans now c b (.auth args size secret) hcl
    rw [hr]; simp [isAuthOk]
  have hcl' : c.closed = false := by simpa using hcl
  have hr : r = exec E cfg M ans now c b (.auth args size secret) := step_open _ _ _ _ _ _ _ _ hcl'
  by_cases hbl : tlsBlocked cfg c = true
  · rw [hr, exec_tls_blocked _ _ _ _ _ _ _ _ hbl rfl]; simp [fatalRes, isAuthOk]
  have hr2 : r = execAuth cfg M ans now c b args size secret := by rw [hr]; simp [exec, hbl, dispatch]
  refine ⟨by rw [hr2]; exact execAuth_broker .., ?_⟩
  rw [hr2]
  unfold execAuth
  by_cases h1 : c.state ≠ .init
  · simp [h1, fatalRes, isAuthOk]
  by_cases h2 : args.length ≠ 0
  · simp [h1, h2, fatalRes, isAuthOk]
  by_cases h3 : size > cfg.maxBodySize
  · simp [h1, h2, h3, fatalRes, isAuthOk]
  by_cases h4 : size ≤ 0
  · simp [h1, h2, h3, h4, fatalRes, isAuthOk]
  by_cases h5 : hasAuthorizations c = true
  · simp [h1, h2, h3, h4, h5, fatalRes, isAuthOk]
  by_cases h6 : cfg.authEnabled = false
  · simp [h1, h2, h3, h4, h5, h6, fatalRes, isAuthOk]
  have h6' : cfg.authEnabled = true := by simpa using h6
  have h5' : hasAuthorizations c = false := by simpa using h5
  cases hans : ans (requestOf { c with secret := secret }) with
  | none => simp [h1, h2, h3, h4, h5, h6, hans, validate, isAuthOk]
  | some resp =>
    by_cases hgv : grantsValid M resp.grants = false
    · simp [h1, h2, h3, h4, h5, h6, hans, validate, hgv, isAuthOk]
    by_cases httl : resp.ttl ≤ 0
    · simp [h1, h2, h3, h4, h5, h6, hans, validate, hgv, httl, isAuthOk]
    by_cases hlen : resp.grants.length = 0
    · simp [h1, h2, h3, h4, h5, h6, hans, validate, hgv, httl, hlen, isAuthOk]
    · intro _
      have hreq : requestOf { c with secret := secret } =
          { tls := c.tls, cn := if c.tls then c.cn else "", secret := secret } := by
        simp [requestOf]
      rw [hreq] at hans
      simp [h1, h2, h3, h4, h5, h6, hreq, hans, validate, hgv, httl, hlen]
      refine ⟨by omega, ?_⟩
      intro he; exact hlen (by simp [he])

example : (step exE (exCfg .no .none true) exM (exAns 10 exGrants) 0 (Conn.fresh 7) [] (.auth [] 1 "s")).replies =
    [.auth "bob" "" 2] := by decide
example : (after (step exE (exCfg .no .none true) exM (exAns 10 exGrants) 0 (Conn.fresh 7) [] (.auth [] 1 "s"))).conn.auth =
    exAuthed.auth := by decide
example : (step exE (exCfg .no .none true) exM (exAns 10 []) 0 (Conn.fresh 7) [] (.auth [] 1 "s")).replies =
    [.err "E_UNAUTHORIZED" true] := by decide
example : (step exE (exCfg .no .none true) exM (exAns 0 exGrants) 0 (Conn.fresh 7) [] (.auth [] 1 "s")).replies =
    [.err "E_AUTH_FAILED" true] := by decide
example : (step exE (exCfg .no .none false) exM (exAns 10 exGrants) 0 (Conn.fresh 7) [] (.auth [] 1 "s")).replies =
    [.err "E_AUTH_DISABLED" true] := by decide
example : (step exE (exCfg .no .none true) exM (exAns 10 exGrants) 0 exAuthed [] (.auth [] 1 "s")).replies =
    [.err "E_INVALID" true] := by decide

/-- `auth_off_no_gate`: without an auth server configured `CheckAuth` lets everything through and
asks nobody (the property's AUTH clauses are conditional on "an auth server is configured"). -/
theorem auth_off_no_gate (cfg : Config) (M : Matcher) (ans : Request → Option Resp) (now : Int)
    (c : Conn) (t ch : String) (h : cfg.authEnabled = false) :
    checkAuth cfg M ans now c t ch = { conn := c, query := none, deny := none } :=
  checkAuth_disabled cfg M ans now c t ch h

/-! ## 4. no command at all gets around the gates -/

/-- `identify_no_broker_effect`: IDENTIFY — the one command in front of the TLS gate — and AUTH
never change the broker, whatever they answer. -/
theorem identify_no_broker_effect (E : Ext) (cfg : Config) (M : Matcher) (ans : Request → Option Resp)
    (now : Int) (c : Conn) (b : Broker) (d : IdentifyData) :
    (step E cfg M ans now c b (.identify d)).broker = b := by
  unfold step; split
  · rfl
  · simp only [exec]; exact execIdentify_broker ..

/-- `no_effect_before_auth`: on an auth-enabled server, in every history of a connection, *no*
command whatsoever — not only the four gated ones, also FIN / REQ / TOUCH whatever they do, and
every other or unknown command — changes the broker before a successful AUTH occurred earlier in
that history; and with TLS required, not before a completed TLS handshake either. -/
theorem no_effect_before_auth (E : Ext) (cfg : Config) (M : Matcher) (id : Nat) (b0 : Broker)
    (evs : List Ev) (pre : List Rec) (r : Rec) (post : List Rec)
    (h : trace E cfg M { conn := Conn.fresh id, broker := b0 } evs = pre ++ r :: post)
    (rd : Nat) (now : Int) (ans : Request → Option Resp) (cmd : Cmd)
    (hev : r.ev = .cmd rd now ans cmd) (heff : r.res.broker ≠ r.pre.broker) :
    (cfg.authEnabled = true → ∃ q ∈ pre, IsAuthSuccess q) ∧
    (cfg.tlsRequired ≠ .no → ∃ q ∈ pre, IsTlsUpgrade cfg q) := by
  have hm := (trace_mem E cfg M evs _ r (mem_of_split h)).1
  have hm' := hm
  rw [hev] at hm'
  have heff' := heff
  rw [hm'] at heff'
  rw [(stepEv_cmd_effect E cfg M r.pre rd now ans cmd heff').2] at hm'
  have hni : cmd.isIdentify = false := by
    cases cmd with
    | identify d =>
      exfalso
      rw [hm', identify_no_broker_effect] at heff; exact heff rfl
    | _ => rfl
  refine ⟨?_, fun hreq => (tls_gate_history E cfg M id b0 evs pre r post h hreq rd now ans cmd hev hni heff).1⟩
  intro hauth
  by_cases hg : cmd.isGated = true
  · exact (auth_gate_history E cfg M id b0 evs pre r post h hauth rd now ans cmd hev hg heff).1
  have hg' : cmd.isGated = false := by simpa using hg
  -- not gated: only FIN / REQ / TOUCH can change the broker, and only on a subscribed connection
  have hstate : r.pre.conn.state ≠ .init := by
    by_cases hcl : r.pre.conn.closed = true
    · rw [step_closed _ _ _ _ _ _ _ _ hcl] at hm'; rw [hm'] at heff; exact absurd rfl heff
    have hcl' : r.pre.conn.closed = false := by simpa using hcl
    rw [step_open _ _ _ _ _ _ _ _ hcl'] at hm'
    by_cases hb : tlsBlocked cfg r.pre.conn = true
    · rw [exec_tls_blocked _ _ _ _ _ _ _ _ hb hni] at hm'; rw [hm'] at heff; exact absurd rfl heff
    have hex : exec E cfg M ans now r.pre.conn r.pre.broker cmd = dispatch E cfg M ans now r.pre.conn r.pre.broker cmd := by
      cases cmd <;> simp [Cmd.isIdentify] at hni <;> simp [exec, hb]
    rw [hex] at hm'
    by_cases hch : Cmd.isChanCmd cmd = true
    · rw [hm'] at heff; exact dispatch_broker_chan E cfg M ans now _ _ cmd hch heff
    · have hch' : Cmd.isChanCmd cmd = false := by simpa using hch
      rw [hm', dispatch_broker_other E cfg M ans now _ _ cmd hg' hch'] at heff; exact absurd rfl heff
  -- so a SUB was accepted earlier; at that moment the connection held authorizations
  rcases trace_state E cfg M evs _ pre r post h hstate with h0 | ⟨q, hq, rd', now', ans', args, hqe, hqr⟩
  · simp [Conn.fresh] at h0
  obtain ⟨pre1, post1, hsplit⟩ := List.append_of_mem hq
  have h' : trace E cfg M { conn := Conn.fresh id, broker := b0 } evs = pre1 ++ q :: (post1 ++ r :: post) := by
    rw [h, hsplit]; simp
  have hqm := (trace_mem E cfg M evs _ q (mem_of_split h')).1
  rw [hqe] at hqm; simp only [stepEv] at hqm
  have hqs : q.res = step E cfg M ans' now' q.pre.conn q.pre.broker (.sub args) := by
    by_cases hq' : rd' = q.pre.conn.rd
    · simpa [hq'] using hqm
    · simp only [hq', if_false] at hqm; rw [hqm] at hqr; simp at hqr
  rw [hqs] at hqr
  have hha := sub_success_hasAuth E cfg M ans' now' _ _ args hauth hqr
  rcases trace_hasAuth E cfg M evs _ pre1 q (post1 ++ r :: post) h' hha with h0 | ⟨a, ha, hA⟩
  · simp [Conn.fresh, hasAuthorizations] at h0
  · exact ⟨a, by rw [hsplit]; exact List.mem_append_left _ ha, hA⟩

/-- `flags_have_causes`: in every history of a fresh connection the three facts the gates read
each have exactly one possible cause earlier in the same history — the TLS flag a completed
handshake inside IDENTIFY, held authorizations a successful AUTH, a non-initial state an accepted
SUB. (The check evaluates exactly these three implications on the traces of the real server.) -/
theorem flags_have_causes (E : Ext) (cfg : Config) (M : Matcher) (id : Nat) (b0 : Broker)
    (evs : List Ev) (pre : List Rec) (r : Rec) (post : List Rec)
    (h : trace E cfg M { conn := Conn.fresh id, broker := b0 } evs = pre ++ r :: post) :
    (r.pre.conn.tls = true → ∃ q ∈ pre, IsTlsUpgrade cfg q) ∧
    (hasAuthorizations r.pre.conn = true → ∃ q ∈ pre, IsAuthSuccess q) ∧
    (r.pre.conn.state ≠ .init → ∃ q ∈ pre, IsSubSuccess q) := by
  refine ⟨fun ht => ?_, fun ht => ?_, fun ht => ?_⟩
  · rcases trace_tls E cfg M evs _ pre r post h ht with h0 | h0
    · simp [Conn.fresh] at h0
    · exact h0
  · rcases trace_hasAuth E cfg M evs _ pre r post h ht with h0 | h0
    · simp [Conn.fresh, hasAuthorizations] at h0
    · exact h0
  · rcases trace_state E cfg M evs _ pre r post h ht with h0 | h0
    · simp [Conn.fresh] at h0
    · exact h0

/-! ## 5. a whole history -/

/-- a complete session on a TLS-required, auth-enabled server: a publish is refused before TLS (on
another connection), then IDENTIFY+TLS, a publish refused before AUTH would close — so here: TLS,
AUTH, an allowed publish, an allowed subscribe. The broker holds exactly what was allowed. -/
example :
    ((trace exE (exCfg .yes .none true) exM { conn := Conn.fresh 3, broker := [] }
      [.cmd 0 0 exDown (exIdentify .noCert),
       .cmd 1 0 (exAns 10 exGrants) (.auth [] 1 "s"),
       .cmd 1 5 exDown (.pub ["orders"] 3),
       .env [{ name := "orders", msgs := [{ size := 3, deferNs := 0 }], chans := [] }],
       .cmd 1 20 (exAns 10 exGrants) (.sub ["orders", "c0"])]).map (fun r => r.res.replies)) =
    [[.identify true true, .ok], [.auth "bob" "" 2], [.ok], [], [.ok]] := by decide

end Nsq.Props.C11
