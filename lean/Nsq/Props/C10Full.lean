import Nsq.Proofs.HttpFull
/-!
# C10 (round 6) — the whole nsqd HTTP table

`Nsq.Model.HttpFull.serve` covers every `router.Handle / HandlerFunc / Handler` registration of
`newHTTPServer` with its decorator (`Nsq.Tie.ProtoHttpFull.routes_full`), the response envelope of
`http_api.V1 / PlainText / RespondV1`, `/stats` (arguments and content), `/info`, `/ping`,
`/config/:opt` GET and PUT (`log_level`, `nsqlookupd_tcp_addresses`), `/debug/setblockrate`,
`/debug/freememory`; only the nine `net/http/pprof` handlers stay `external`. It is driven by the
correspondence leg `httpx` (`harness/e3/httpfull_test.go`). The theorems below quantify over all
requests, options and broker states. Helper lemmas: `Nsq.Proofs.HttpFull`.
-/
namespace Nsq.Props.C10Full
open Nsq.Model.HttpFull Nsq.Model.HttpApi Nsq.Model.ProtoV2 Nsq.Model.Names Nsq.Model.Base10 Nsq.Model
open Nsq.Proofs.HttpFull Nsq.Proofs.HttpApi

/-! ## 1. Status codes over the whole table -/

/-- Every error status of every registered route has its documented cause: 413 ⇒ something oversize,
400 ⇒ a bad/missing argument — for `/config` precisely: value not a log level / not a JSON list of
strings / option not settable / option unknown; for `/debug/setblockrate`: `rate` missing or not an
integer —, 404 ⇒ unknown topic/channel, 405 ⇒ registered path, other method, 403 ⇒ TLS required,
500 ⇒ the injected health fault on /ping, `external` ⇒ one of the pprof registrations. -/
theorem status_documented_full (hc : HConf) (healthy : Bool) (b : Broker) (rq : Request) :
    DocFull hc healthy b rq (HttpFull.serve hc healthy b rq).1 :=
  serve_doc hc healthy b rq

/-- No request to any registered route is answered 500 while the daemon is healthy (F24 repaired:
`PlainText` no longer panics on the nil result of the two debug handlers). -/
theorem no_500_full (hc : HConf) (b : Broker) (rq : Request) :
    (HttpFull.serve hc true b rq).1.status ≠ .s500 := by
  intro h
  have := (serve_doc hc true b rq).s500 h
  simp at this

/-- Only the `net/http/pprof` registrations are outside the model. -/
theorem external_only_pprof (hc : HConf) (healthy : Bool) (b : Broker) (rq : Request)
    (h : (HttpFull.serve hc healthy b rq).1.status = .external) :
    ∃ name, routeFull rq.method rq.path = .handler name .raw :=
  (serve_doc hc healthy b rq).ext h

/-- F24, before the repair: the decorator turned the nil result of `/debug/freememory` (and of a
valid `/debug/setblockrate`) into 500 INTERNAL_ERROR. After it: an empty 200. -/
theorem debug_nil_result (hc : HConf) (healthy : Bool) (b : Broker) (rq : Request) :
    renderPlainOld (runFull hc healthy b rq "freeMemory").1 = ⟨.s500, true, true, .errJson "INTERNAL_ERROR"⟩ ∧
    renderPlain (runFull hc healthy b rq "freeMemory").1 = ⟨.s200, false, false, .empty⟩ := by
  simp [runFull, baseHandler, renderPlainOld, renderPlain]

example : (HttpFull.serve Examples.hconf true [] ⟨ascii "POST", ascii "/debug/freememory", [], 0, []⟩).1 =
    ⟨.s200, false, false, .empty⟩ := by decide
example : (HttpFull.serve Examples.hconf true [] ⟨ascii "PUT", ascii "/debug/setblockrate", ascii "rate=x", 0, []⟩).1.status
    = .s400 := by decide
example : (HttpFull.serve Examples.hconf true [] ⟨ascii "PUT", ascii "/debug/setblockrate", ascii "%zz&rate=-7", 0, []⟩).1.status
    = .s200 := by decide
example : (HttpFull.serve Examples.hconf true [] ⟨ascii "GET", ascii "/debug/pprof/heap", [], 0, []⟩).1.status = .external := by
  decide
example : (HttpFull.serve Examples.hconf true [] ⟨ascii "POST", ascii "/debug/pprof/heap", [], 0, []⟩).1 =
    ⟨.s405, true, true, .errJson "METHOD_NOT_ALLOWED"⟩ := by decide
example : (HttpFull.serve Examples.hconf false [] ⟨ascii "GET", ascii "/ping", [], 0, []⟩).1 =
    ⟨.s500, false, false, .freeText⟩ := by decide

/-! ## 2. Every response is well formed -/

/-- The envelope: `Content-Type: application/json` exactly when the body is a JSON document; an
error document is `{"message":"M"}` with `M` from the catalogue, carries the NSQ header and a non-200
status; whatever carries the NSQ header and is not 200 is such a document (or the TLS refusal); a
200 never carries one. -/
theorem response_wellformed (hc : HConf) (healthy : Bool) (b : Broker) (rq : Request) :
    WireOK hc (HttpFull.serve hc healthy b rq).1 :=
  serve_wire hc healthy b rq

/-- The catalogue consists of upper-case letters and `_` only, so `json.Marshal` renders
`{"message":"M"}` literally (no escaping can occur). -/
theorem error_messages_literal : ∀ m ∈ errorMessages, m.toList.all plainJsonChar = true :=
  errorMessages_plain

example : (HttpFull.serve Examples.hconf true [] ⟨ascii "POST", ascii "/pub", ascii "topic=bad!", 1, [1]⟩).1 =
    ⟨.s400, true, true, .errJson "INVALID_TOPIC"⟩ := by decide
example : (HttpFull.serve { Examples.hconf with tlsRefuse := true } true [] ⟨ascii "GET", ascii "/ping", [], 0, []⟩).1 =
    ⟨.s403, true, true, .tlsJson⟩ := by decide
example : (HttpFull.serve Examples.hconf true [] ⟨ascii "GET", ascii "/info", [], 0, []⟩).1 =
    ⟨.s200, true, true, .json .info⟩ := by decide

/-! ## 3. `/stats` -/

/-- `/stats` shows exactly the selected topics … -/
theorem stats_lists_exactly (b : Broker) (topic channel : Bytes) (tv : TopicView) :
    tv ∈ statsView b topic channel ↔
      ∃ t ∈ b, (topic = [] ∨ t.name = topic) ∧
        ((channel = [] ∧ tv = topicView t t.chans) ∨
         (channel ≠ [] ∧ hasChan t channel = true ∧ tv = topicView t (t.chans.filter (·.name == channel)))) :=
  statsView_mem b topic channel tv

/-- … each once when nothing is filtered … -/
theorem stats_all (b : Broker) : (statsView b [] []).length = b.length := statsView_all_length b

/-- … in name order, and so are the channels of each topic. -/
theorem stats_sorted (b : Broker) (topic channel : Bytes) :
    (statsView b topic channel).Pairwise (fun x y => bytesLe x.name y.name = true) ∧
    ∀ (t : Topic) (cs : List Chan), (topicView t cs).chans.Pairwise (fun x y => bytesLe x.name y.name = true) :=
  ⟨statsView_sorted b topic channel, topicView_chans_sorted⟩

example : statsView Examples.broker2 [] [] =
    [⟨ascii "a", false, 1, 1, []⟩, ⟨ascii "b", false, 0, 0, []⟩] := by decide
example : statsView Examples.broker2 (ascii "b") [] = [⟨ascii "b", false, 0, 0, []⟩] := by decide
example : statsView Examples.broker2 [] (ascii "c") = [] := by decide
example : (HttpFull.serve Examples.hconf true Examples.broker2
    ⟨ascii "GET", ascii "/stats", ascii "format=json&include_mem=0&topic=b", 0, []⟩).1.body =
    .json (.stats [⟨ascii "b", false, 0, 0, []⟩] true false) := by decide

/-- A `GET` never changes the broker (whatever path, query, body); nor does any request to a route other
than the publish and admin endpoints (`/config` PUT included: it changes options, not topics). -/
theorem get_never_changes_broker (hc : HConf) (healthy : Bool) (b : Broker) (rq : Request)
    (hget : rq.method = ascii "GET") : (HttpFull.serve hc healthy b rq).2 = b :=
  get_readonly hc healthy b rq hget

theorem only_publish_and_admin_touch_the_broker (hc : HConf) (healthy : Bool) (b : Broker) (rq : Request)
    (name : String) (hn : baseHandler name = none) : (runFull hc healthy b rq name).2 = b :=
  admin_free_routes_readonly hc healthy b rq name hn

example : (HttpFull.serve Examples.hconf true Examples.broker2
    ⟨ascii "GET", ascii "/stats", ascii "format=json", 0, []⟩).2 = Examples.broker2 := by decide
example : baseHandler "doConfig" = none := by decide

/-! ## 4. `/config/:opt` -/

/-- `PUT /config/log_level` on ASCII input is the case-insensitive comparison with the five words
(non-ASCII: `İ` and the Kelvin sign also lower-case to ASCII letters — `goLower`), and the level
answered is 1 … 5. -/
theorem log_level_ascii (s : Bytes) (h : ∀ c ∈ s, c < 128) : parseLogLevel s = wordLevel (asciiLower s) :=
  parseLogLevel_ascii s h

theorem log_level_range (s : Bytes) (n : Nat) (h : parseLogLevel s = some n) : 1 ≤ n ∧ n ≤ 5 :=
  wordLevel_range _ n h

/-- `PUT /config/nsqlookupd_tcp_addresses` accepts the compact JSON rendering of every list of
plain strings (no quote, backslash or control character). -/
theorem lookupd_addresses_accepts_rendered (xs : List Bytes) (h : ∀ x ∈ xs, Plain x) :
    isStrArrayJson (renderArr xs) = true :=
  accepts_renderArr xs h

example : parseLogLevel [0xC4, 0xB0, 110, 102, 111] = some 2 := by decide      -- "İnfo"
example : parseLogLevel (ascii "WaRn") = some 3 := by decide
example : parseLogLevel (ascii "warning") = none := by decide
example : isStrArrayJson (ascii " [ \"a:1\" , null ,\"\\u00e9\\n\" ] ") = true := by decide
example : isStrArrayJson (ascii "null") = true := by decide
example : isStrArrayJson (ascii "[1]") = false := by decide
example : isStrArrayJson (ascii "[\"a\",]") = false := by decide
example : isStrArrayJson (ascii "{}") = false := by decide
example : isStrArrayJson (ascii "\"a\"") = false := by decide
example : isStrArrayJson (ascii "[\"\\x\"]") = false := by decide
example : renderArr [ascii "a:1", ascii "b"] = ascii "[\"a:1\",\"b\"]" := by decide

/-! ## 5. `HttpFull` extends the C10 model -/

/-- Wherever `HttpApi` has an answer (`status ≠ external`) the widened model gives the same status;
the publish and admin handlers are taken over unchanged (same status, same broker). -/
theorem extends_http_api (hc : HConf) (healthy : Bool) (b : Broker) (rq : Request) :
    (renderV1 (doStatsFull b rq)).status = (doStats b rq).1.status ∧
    ((doConfig hc b rq).1.status ≠ .external →
      (renderV1 (doConfigFull hc rq)).status = (doConfig hc b rq).1.status) ∧
    ∀ name h, baseHandler name = some h →
      (renderV1 (runFull hc healthy b rq name).1).status = (runHandler hc healthy b rq h).1.status ∧
      (runFull hc healthy b rq name).2 = (runHandler hc healthy b rq h).2 :=
  ⟨stats_agrees b rq, config_agrees hc b rq, fun name h hn => base_agrees hc healthy b rq name h hn⟩

example : baseHandler "doPUB" = some .pub := by decide

end Nsq.Props.C10Full
