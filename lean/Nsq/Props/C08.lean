import Nsq.Model.Life
import Nsq.Model.InFlight
import Nsq.Model.Restart
import Nsq.Proofs.Life
import Nsq.Proofs.InFlight
import Nsq.Proofs.InFlightEmpty
import Nsq.Proofs.InFlightQuiesce
import Nsq.Proofs.LifeLock
import Nsq.Tie.Life
/-
C08 — delete, empty and ephemeral semantics, safe under concurrency.
Atomic semantics over Model/Life.lean; micro-step safety over Model/InFlight.lean.
-/
namespace Nsq.Props.C08
open Nsq.Model

/-! ## micro-step model (`removeFromInFlightPQ` and the heap) -/

/-- the full claim for the code as it is on the unchanged tree (`fixed = false`) -/
def NoFaultFull : Prop :=
  ∀ (q : List Nat) (sched : List InFlight.Step), (InFlight.run false (InFlight.initSt q) sched).isPanic = false

/-- F7: FIN has left the in-flight map, `Empty` resets the heap, FIN removes by the stale index -/
def f7Schedule : List InFlight.Step :=
  [.startMapPush 1 1 100, .startPQPush 1, .finPop 1 1, .emptyResetInflight, .finRemove 1]

theorem f7_panics : (InFlight.run false (InFlight.initSt [1]) f7Schedule).isPanic = true := by decide

theorem no_fault_full_false : ¬ NoFaultFull := by
  intro h
  have := h [1] f7Schedule
  rw [f7_panics] at this
  cases this

/-- F7 variant: after the reset another message is delivered into heap slot 0; the parked FIN
removes *that* message from the heap.  No panic — but message 2 is in the in-flight map and in
no heap, so no scan ever times it out. -/
def f7VariantSchedule : List InFlight.Step :=
  [.startMapPush 1 1 100, .startPQPush 1, .finPop 1 1,
   .emptyResetInflight, .emptyResetDeferred, .emptyRest,
   .put 2, .startMapPush 2 2 200, .startPQPush 2, .finRemove 1]

/-- quiescent state in which `o` is in the in-flight map but the heap is empty -/
def lostFromHeap (r : InFlight.Res) (o : Nat) : Bool :=
  match r with
  | InFlight.Res.ok s => decide (o ∈ s.map) && s.h.pq.isEmpty && s.conts.isEmpty
  | _ => false

theorem f7_variant_unrelated_removed :
    lostFromHeap (InFlight.run false (InFlight.initSt [1]) f7VariantSchedule) 2 = true := by decide

/-- the same schedule on the patched code keeps message 2 in the heap -/
theorem f7_variant_fixed :
    (match InFlight.run true (InFlight.initSt [1]) f7VariantSchedule with
     | InFlight.Res.ok s => decide (s.map = [2]) && decide (s.h.pq = [2]) && s.conts.isEmpty
     | _ => false) = true := by decide

/-- with fixes/F7_stale_index.patch no schedule of micro-steps, from any state, panics -/
theorem no_fault (s : InFlight.St) (sched : List InFlight.Step) :
    (InFlight.run true s sched).isPanic = false :=
  Nsq.Proofs.InFlight.run_fixed_no_panic sched s

/-- non-vacuity: the F7 schedule is enabled step by step and ends in a real state under the fix -/
example : (match InFlight.run true (InFlight.initSt [1]) f7Schedule with
    | InFlight.Res.ok s => s.map.isEmpty && s.h.pq.isEmpty && s.conts == [InFlight.Cont.emptyAfterInflightReset]
    | _ => false) = true := by decide


/-- even with the patch `MapHeapAgree` at quiescence does not hold for every schedule: `Empty`
between the map insert and the heap insert of StartInFlightTimeout leaves a heap entry without a map
entry (replayed on the real code: corpus/C08/known/empty_races_delivery.sched) -/
def zombieSchedule : List InFlight.Step :=
  [.put 1, .startMapPush 1 1 100, .emptyResetInflight, .emptyResetDeferred, .emptyRest, .startPQPush 1]

theorem map_heap_agree_full_false :
    (match InFlight.run true (InFlight.initSt []) zombieSchedule with
     | InFlight.Res.ok s => s.conts.isEmpty && !(InFlight.mapHeapAgreeB s) && decide (s.h.pq = [1]) && s.map.isEmpty
     | _ => false) = true := by decide



/-- `IndexOK` along **every** schedule of the patched code in which no object is pushed onto the heap
while it is already there (`NoDupPush`): pending continuations, Empty, late answers — none of them can
make an index field wrong; only a double push can (next theorem) -/
theorem index_ok_invariant (sched : List InFlight.Step) (s s' : InFlight.St) (ok : InFlight.IndexOK s.h)
    (hnd : Nsq.Proofs.InFlight.NoDupPush s sched) (hr : InFlight.run true s sched = InFlight.Res.ok s') :
    InFlight.IndexOK s'.h :=
  Nsq.Proofs.InFlight.run_indexOK sched s s' ok hnd hr

/-- the remaining counter-example for `IndexOK` at quiescence: an answer (REQ 0) naming an id whose
(re)delivery is between map insert and heap insert puts the object back on the queue while the parked
delivery still pushes it; the next delivery pushes it a second time → two heap slots, one index -/
def duplicateSchedule : List InFlight.Step :=
  [.put 1, .startMapPush 1 1 10, .reqPop 1 1 0, .reqRemove 1, .reqPut 1, .startPQPush 1,
   .startMapPush 1 1 20, .startPQPush 1]

theorem index_ok_full_false :
    (match InFlight.run true (InFlight.initSt []) duplicateSchedule with
     | InFlight.Res.ok s => s.conts.isEmpty && decide (s.h.pq = [1, 1]) && decide (s.map = [1]) && !(InFlight.indexOkB s.h)
     | _ => false) = true := by decide

/-- the second remaining counter-example for `MapHeapAgree` (besides `zombieSchedule`): a FIN naming an
id whose delivery is between map insert and heap insert — the heap keeps an entry the map has lost -/
def lateAnswerSchedule : List InFlight.Step :=
  [.put 1, .startMapPush 1 1 10, .finPop 1 1, .finRemove 1, .startPQPush 1]

theorem map_heap_agree_late_answer :
    (match InFlight.run true (InFlight.initSt []) lateAnswerSchedule with
     | InFlight.Res.ok s => s.conts.isEmpty && s.map.isEmpty && decide (s.h.pq = [1]) && InFlight.indexOkB s.h
     | _ => false) = true := by decide

example : Nsq.Proofs.InFlight.NoDupPush (InFlight.initSt []) zombieSchedule := by
  simp [Nsq.Proofs.InFlight.NoDupPush, Nsq.Proofs.InFlight.pushes, zombieSchedule, InFlight.step, InFlight.initSt,
    InFlight.okH, InFlight.push, InFlight.up, InFlight.dropCont, InFlight.contObjs]


/-! ### the positive theorem: `IndexOK` always, `MapHeapAgree` at quiescence — EVERY schedule of the committed shape

With F48 (`pushAtomic`: map insert and heap push are one critical section), F16 (`scanAtomic`) and F7 (`fixed`) the three
counter-examples above (`zombieSchedule`, `lateAnswerSchedule`, `duplicateSchedule` — all three live in the window between
the map insert and the heap push) are gone, and the statement holds with NO schedule hypothesis (`NoDupPush` is not needed
any more).  Invariant `Proofs.InFlightQuiesce.QInv` (index fields; map ⊆ heap; heap ⊆ map ∪ answers in progress; every id
has at most one owner).  Whether the tree has F27 (`ansLock`) does not matter. -/

/-- a channel of the committed shape whose queue holds the distinct ids `q`, nothing in flight -/
def committedInit (q : List Nat) (ansLock : Bool) : InFlight.St :=
  { InFlight.initSt q with scanAtomic := true, pushAtomic := true, ansLock := ansLock }

/-- every reachable state, whatever operations are in progress: every heap slot's object carries that slot's index -/
theorem index_ok_every_schedule (q : List Nat) (hq : q.Nodup) (al : Bool) (sched : List InFlight.Step) (s : InFlight.St)
    (h : InFlight.run true (committedInit q al) sched = InFlight.Res.ok s) : InFlight.IndexOK s.h :=
  (Nsq.Proofs.InFlightQuiesce.run_qinv sched _ s (Nsq.Proofs.InFlightQuiesce.qinv_init q hq true true al) rfl rfl h).ok

/-- every reachable state with no operation in progress (no goroutine between two of its critical sections): the deadline
heap is a permutation of the in-flight map — no message in flight without a timeout entry, no timeout entry without a
message in flight, none twice -/
theorem map_heap_agree_at_quiescence (q : List Nat) (hq : q.Nodup) (al : Bool) (sched : List InFlight.Step) (s : InFlight.St)
    (h : InFlight.run true (committedInit q al) sched = InFlight.Res.ok s) (hquiet : s.conts = []) :
    InFlight.MapHeapAgree s ∧ InFlight.IndexOK s.h := by
  have inv := Nsq.Proofs.InFlightQuiesce.run_qinv sched _ s (Nsq.Proofs.InFlightQuiesce.qinv_init q hq true true al) rfl rfl h
  exact ⟨Nsq.Proofs.InFlightQuiesce.qinv_quiescent s inv hquiet, inv.ok⟩

/-- … and while operations ARE in progress: every in-flight message has its heap entry, and a heap entry without an
in-flight message belongs to a FIN / REQ / TOUCH that has popped the message and is about to remove the entry -/
theorem map_heap_agree_in_progress (q : List Nat) (hq : q.Nodup) (al : Bool) (sched : List InFlight.Step) (s : InFlight.St)
    (h : InFlight.run true (committedInit q al) sched = InFlight.Res.ok s) :
    (∀ o ∈ s.map, o ∈ s.h.pq) ∧ (∀ o ∈ s.h.pq, o ∈ s.map ∨ o ∈ Nsq.Proofs.InFlightQuiesce.answering s.conts) ∧
    s.h.pq.Nodup ∧ s.map.Nodup := by
  have inv := Nsq.Proofs.InFlightQuiesce.run_qinv sched _ s (Nsq.Proofs.InFlightQuiesce.qinv_init q hq true true al) rfl rfl h
  refine ⟨inv.mp, inv.pm, Nsq.Proofs.InFlight.indexOK_nodup inv.ok, ?_⟩
  rw [List.nodup_iff_count]
  intro x
  have := inv.own x
  simp only [Nsq.Proofs.InFlightQuiesce.own] at this
  omega

/-- the same statement about the instance of the micro-step model that the regenerated facts of the CURRENT TREE select
(`Tie.Life.treeFixed / treeScanAtomic / treePushAtomic / treeAnsLock`; audit B12: a tree that reverts F7, F16, F48 or F27
changes these parameters, the ties `tree_fixed`, `tree_scan_atomic`, `tree_push_atomic`, `tree_ans_lock` fail and this is no
longer a statement about it) -/
theorem map_heap_agree_tree (q : List Nat) (hq : q.Nodup) (sched : List InFlight.Step) (s : InFlight.St)
    (h : InFlight.run Nsq.Tie.Life.treeFixed
      { InFlight.initSt q with scanAtomic := Nsq.Tie.Life.treeScanAtomic, pushAtomic := Nsq.Tie.Life.treePushAtomic,
                               ansLock := Nsq.Tie.Life.treeAnsLock } sched = InFlight.Res.ok s) :
    InFlight.IndexOK s.h ∧ (s.conts = [] → InFlight.MapHeapAgree s) := by
  rw [Nsq.Tie.Life.tree_fixed, Nsq.Tie.Life.tree_scan_atomic, Nsq.Tie.Life.tree_push_atomic] at h
  exact ⟨index_ok_every_schedule q hq _ sched s h, fun hq' => (map_heap_agree_at_quiescence q hq _ sched s h hq').1⟩

/-- the three former counter-examples, run on the committed shape, end in agreement (they were theorems about the
pre-F48 shape: `map_heap_agree_full_false`, `map_heap_agree_late_answer`, `index_ok_full_false` above) -/
theorem former_counterexamples_agree :
    (match InFlight.run true (committedInit [] false) zombieSchedule with
     | InFlight.Res.ok s => s.conts.isEmpty && InFlight.mapHeapAgreeB s && InFlight.indexOkB s.h | _ => false) = true ∧
    (match InFlight.run true (committedInit [] false) lateAnswerSchedule with
     | InFlight.Res.ok s => s.conts.isEmpty && InFlight.mapHeapAgreeB s && InFlight.indexOkB s.h | _ => false) = true ∧
    -- the double push: the REQ now removes the heap entry the delivery has already pushed; one slot in the end
    (match InFlight.run true (committedInit [] false) duplicateSchedule with
     | InFlight.Res.ok s => s.conts.isEmpty && decide (s.h.pq = [1]) && decide (s.map = [1]) && InFlight.indexOkB s.h
     | _ => false) = true := by decide

/-- non-vacuity: three messages, deliveries, a deferred REQ, a TOUCH, a FIN, a timeout scan and an Empty racing one another;
at the end nothing is in progress, two messages are in flight and the heap holds exactly those two -/
example : (match InFlight.run true (committedInit [1, 2, 3] false)
      [.startMapPush 1 1 10, .startMapPush 1 2 20, .reqPop 1 1 5, .startPQPush 1, .touchPop 1 2, .reqRemove 1, .touchRemove 2,
       .startPQPush 2, .reqPut 1, .touchMapPush 2 30, .deferPQPush 1 50, .touchPQPush 2, .startMapPush 2 3 15, .scanPeek 16,
       .startPQPush 3, .scanPop 3, .dscanPeek 60, .dscanPop 1, .startMapPush 2 1 40, .startPQPush 1, .finPop 2 1, .finRemove 1,
       .startMapPush 1 3 70, .startPQPush 3] with
    | InFlight.Res.ok s => s.conts.isEmpty && decide (s.map = [3, 2]) && decide (s.h.pq = [2, 3]) && InFlight.mapHeapAgreeB s
    | _ => false) = true := by decide

/-! ### Empty racing an answer in progress (audit B17) -/

/-- everything the channel is responsible for: queued, in flight, deferred, or in the hands of an operation in progress -/
def heldBy (s : InFlight.St) : List Nat := s.map ++ s.queued ++ s.dmap ++ InFlight.contObjs s.conts

def noPut (l : List InFlight.Step) : Bool := Nsq.Proofs.InFlightEmpty.noPut l

/-- objects held when `Empty` begins (after `pre`) that are in flight again after `Empty` (all three critical
sections) and the continuation `post`; `none` = the schedule is not executable -/
def survivors (pre post : List InFlight.Step) : Option (List Nat) :=
  match InFlight.run true { InFlight.initSt [] with scanAtomic := true } pre with
  | InFlight.Res.ok s1 =>
    match InFlight.run true s1 ([.emptyResetInflight, .emptyResetDeferred, .emptyRest] ++ post) with
    | InFlight.Res.ok s2 => some ((heldBy s1).filter (fun o => decide (o ∈ s2.map)))
    | _ => none
  | _ => none

/-- the claim "nothing the channel held when `Empty` began is delivered after `Empty` has finished" (unless it is
published again), at micro granularity, for the patched code -/
def EmptyDiscardsHeldFull : Prop :=
  ∀ (pre post : List InFlight.Step), noPut post = true → survivors pre post = none ∨ survivors pre post = some []

/-- message 1 is in flight; REQ 0 has taken it out of the in-flight map (`chan.req.afterPop`) when `Empty` runs —
all three of its critical sections; REQ then puts the message back on the (emptied) queue and it is delivered
again.  No sequential order of REQ and Empty explains "REQ answered OK and the message delivered after Empty".
`Channel.Empty` takes the channel's RWMutex, REQ/TOUCH do not (they hold `exitMutex.RLock` since F18, which Empty
does not take).  Replayed on the real code: `empty_races_req_survives`. -/
def emptySurvivorSchedule : List InFlight.Step :=
  [.reqPop 1 1 0, .emptyResetInflight, .emptyResetDeferred, .emptyRest, .reqRemove 1, .reqPut 1,
   .startMapPush 2 1 20, .startPQPush 1]

theorem empty_survivor_redelivered :
    (match InFlight.run true { InFlight.initSt [] with scanAtomic := true }
        ([.put 1, .startMapPush 1 1 10, .startPQPush 1] ++ emptySurvivorSchedule) with
     | InFlight.Res.ok s => s.conts.isEmpty && decide (s.map = [1]) && decide (s.h.pq = [1]) && s.queued.isEmpty
     | _ => false) = true := by decide

/-- claim audit 2, item 41: `survivors` starts from `{ initSt [] with scanAtomic := true }`, i.e. `pushAtomic = false` — the shape
BEFORE F48 (and before F27).  The same witness on the tree just before F27 (`committedTree`: F7 + F16 + F48) is
`empty_survivor_variants`. -/
theorem empty_discards_held_full_false : ¬ EmptyDiscardsHeldFull := by
  intro h
  have := h [.put 1, .startMapPush 1 1 10, .startPQPush 1, .reqPop 1 1 0]
    [.reqRemove 1, .reqPut 1, .startMapPush 2 1 20, .startPQPush 1] (by decide)
  revert this
  decide

/-- what does hold (`Props.C08.empty_chan_snapshot` in the atomic model; here per critical section): the three
sections of `Empty` leave map, heap, deferred structures and queue empty — what survives is only what an operation
in progress held outside every container -/
theorem empty_sections_clear (s s1 s2 s3 : InFlight.St)
    (h1 : InFlight.step true s .emptyResetInflight = InFlight.Res.ok s1)
    (h2 : InFlight.step true s1 .emptyResetDeferred = InFlight.Res.ok s2)
    (h3 : InFlight.step true s2 .emptyRest = InFlight.Res.ok s3) :
    s3.map = [] ∧ s3.h.pq = [] ∧ s3.dmap = [] ∧ s3.dpq = [] ∧ s3.queued = [] := by
  simp only [InFlight.step] at h1 h2 h3
  split at h1
  · cases h1
  · split at h1
    · cases h1
    cases h1
    split at h2
    · cases h2
      split at h3
      · cases h3
        exact ⟨rfl, rfl, rfl, rfl, rfl⟩
      · cases h3
    · cases h2

example : survivors [.put 1, .startMapPush 1 1 10, .startPQPush 1] [.scanPeek 50] = some [] := by decide

/-! #### F27 (/repo ebb5df3, committed): REQ / TOUCH hold the channel's read lock (`St.ansLock`, tie `answers_channel_lock_shape`) -/

/-- `committedTree`: the tree BEFORE F27 (F7, F16, F48 only; the name dates from the round in which F27 was a proposal);
`f27Tree`: with F27 on top — the tree as committed NOW (`tree_is_f27Tree` below: the parameters the regenerated facts
compute are exactly these) -/
def committedTree : InFlight.St := { InFlight.initSt [] with scanAtomic := true, pushAtomic := true }
def f27Tree : InFlight.St := { InFlight.initSt [] with scanAtomic := true, pushAtomic := true, ansLock := true }

/-- `survivors` from an arbitrary initial parameter choice -/
def survivorsOn (s0 : InFlight.St) (pre post : List InFlight.Step) : Option (List Nat) :=
  match InFlight.run true s0 pre with
  | InFlight.Res.ok s1 =>
    match InFlight.run true s1 ([.emptyResetInflight, .emptyResetDeferred, .emptyRest] ++ post) with
    | InFlight.Res.ok s2 => some ((heldBy s1).filter (fun o => decide (o ∈ s2.map)))
    | _ => none
  | _ => none

/-- the state in which `Empty` begins has no timeout scan between its heap+map pop and its `put` -/
def noScanHeldAfter (s0 : InFlight.St) (pre : List InFlight.Step) : Bool :=
  match InFlight.run true s0 pre with
  | InFlight.Res.ok s1 => Nsq.Proofs.InFlightEmpty.noScanHeld s1.conts
  | _ => true

/-- TOUCH variant of `emptySurvivorSchedule` (committed tree): the TOUCH re-registers the message after the Empty -/
def emptyTouchSurvivorSchedule : List InFlight.Step :=
  [.touchPop 1 1, .emptyResetInflight, .emptyResetDeferred, .emptyRest, .touchRemove 1, .touchMapPush 1 30, .touchPQPush 1]

/-- scan variant: the timeout scan holds the message (out of heap and map, F16) while Empty runs, then requeues it -/
def emptyScanSurvivorSchedule : List InFlight.Step :=
  [.scanPeek 50, .emptyResetInflight, .emptyResetDeferred, .emptyRest, .scanPop 1, .startMapPush 2 1 20, .startPQPush 1]

/-- on the tree BEFORE F27 (F48 shape) all three variants leave message 1 in flight after the Empty (replays
`empty_races_{req,touch,scan}_survives`; the first two are listed `fixed` since ebb5df3, the scan variant is open) -/
theorem empty_survivor_variants :
    survivorsOn committedTree [.put 1, .startMapPush 1 1 10, .startPQPush 1, .reqPop 1 1 0]
      [.reqRemove 1, .reqPut 1, .startMapPush 2 1 20, .startPQPush 1] = some [1] ∧
    survivorsOn committedTree [.put 1, .startMapPush 1 1 10, .startPQPush 1, .touchPop 1 1]
      [.touchRemove 1, .touchMapPush 1 30, .touchPQPush 1] = some [1] ∧
    survivorsOn committedTree [.put 1, .startMapPush 1 1 10, .startPQPush 1, .scanPeek 50]
      [.scanPop 1, .startMapPush 2 1 20, .startPQPush 1] = some [1] := by decide

/-- with F27 the REQ and TOUCH witnesses are no schedules any more: `Empty` cannot begin while the answer holds the read
lock (the answer finishes first, then Empty discards what it re-inserted), and an answer cannot begin while Empty runs -/
theorem f27_witnesses_impossible :
    survivorsOn f27Tree [.put 1, .startMapPush 1 1 10, .startPQPush 1, .reqPop 1 1 0]
      [.reqRemove 1, .reqPut 1, .startMapPush 2 1 20, .startPQPush 1] = none ∧
    survivorsOn f27Tree [.put 1, .startMapPush 1 1 10, .startPQPush 1, .touchPop 1 1]
      [.touchRemove 1, .touchMapPush 1 30, .touchPQPush 1] = none ∧
    -- the same operations in the order the lock forces: nothing survives
    survivorsOn f27Tree [.put 1, .startMapPush 1 1 10, .startPQPush 1, .reqPop 1 1 0, .reqRemove 1, .reqPut 1]
      [.startMapPush 2 1 20] = none ∧
    survivorsOn f27Tree [.put 1, .startMapPush 1 1 10, .startPQPush 1, .reqPop 1 1 0, .reqRemove 1, .reqPut 1] [] = some [] ∧
    survivorsOn f27Tree [.put 1, .startMapPush 1 1 10, .startPQPush 1, .touchPop 1 1, .touchRemove 1, .touchMapPush 1 30,
      .touchPQPush 1] [.scanPeek 100] = some [] ∧
    -- an answer arriving while Empty runs waits (disabled) until `emptyRest` has run
    (match InFlight.run true f27Tree [.put 1, .startMapPush 1 1 10, .startPQPush 1, .emptyResetInflight, .reqPop 1 1 0] with
     | InFlight.Res.disabled => true | _ => false) = true := by decide

/-- **`empty_discards_held_fixed`** — tree with F27 (/repo ebb5df3), EVERY schedule `pre` before and `post` after the Empty (no new
publish in `post`), provided no timeout scan holds a message when Empty begins: nothing the channel held when `Empty` began
— indeed nothing at all — is in flight after it.  (Hypothesis forced: `empty_discards_held_scan_false`.) -/
theorem empty_discards_held_fixed (pre post : List InFlight.Step) (hp : noPut post = true)
    (hs : noScanHeldAfter f27Tree pre = true) :
    survivorsOn f27Tree pre post = none ∨ survivorsOn f27Tree pre post = some [] := by
  unfold survivorsOn
  unfold noScanHeldAfter at hs
  cases h1 : InFlight.run true f27Tree pre with
  | panic => exact Or.inl rfl
  | disabled => exact Or.inl rfl
  | ok s1 =>
    rw [h1] at hs
    simp only []
    cases h2 : InFlight.run true s1 ([.emptyResetInflight, .emptyResetDeferred, .emptyRest] ++ post) with
    | panic => exact Or.inl rfl
    | disabled => exact Or.inl rfl
    | ok s2 =>
      right
      have hpar := Nsq.Proofs.InFlightEmpty.run_params true pre f27Tree s1 h1
      have hm := Nsq.Proofs.InFlightEmpty.empty_then_nothing_in_flight true s1 s2 (by rw [hpar.1]; rfl) (by rw [hpar.2.2]; rfl)
        hs post hp h2
      simp [hm]

/-- the micro-step parameters of THIS tree, computed from the regenerated facts (`Tie.Life`) -/
def treeSt : InFlight.St :=
  { InFlight.initSt [] with scanAtomic := Nsq.Tie.Life.treeScanAtomic, pushAtomic := Nsq.Tie.Life.treePushAtomic,
                            ansLock := Nsq.Tie.Life.treeAnsLock }

/-- the facts decide all three `true` (F16, F48, F27 are committed; the ties accept only their shapes — audit B12) -/
theorem tree_is_f27Tree : treeSt = f27Tree := by
  simp [treeSt, f27Tree, Nsq.Tie.Life.tree_scan_atomic, Nsq.Tie.Life.tree_push_atomic, Nsq.Tie.Life.tree_ans_lock]

/-- **THIS tree**: `empty_discards_held_fixed` stated over the computed parameters. A tree that reverts F27 fails
`Tie.Life.tree_ans_lock` and this theorem with it. -/
theorem empty_discards_held_this_tree (pre post : List InFlight.Step) (hp : noPut post = true)
    (hs : noScanHeldAfter treeSt pre = true) :
    survivorsOn treeSt pre post = none ∨ survivorsOn treeSt pre post = some [] := by
  rw [tree_is_f27Tree] at hs ⊢
  exact empty_discards_held_fixed pre post hp hs

/-- non-vacuity: on this tree the REQ witness is no schedule any more -/
example : survivorsOn treeSt [.put 1, .startMapPush 1 1 10, .startPQPush 1, .reqPop 1 1 0]
    [.reqRemove 1, .reqPut 1, .startMapPush 2 1 20, .startPQPush 1] = none := by
  rw [tree_is_f27Tree]; decide

/-- the full claim for the F27 tree (without the scan hypothesis) is false: the timeout scan's window is not covered by
F27 (it holds `exitMutex.RLock` only).  Replayed on the real code: `empty_races_scan_survives`; open finding
`empty-races-timeout-scan-message-survives`. -/
def EmptyDiscardsHeldF27Full : Prop :=
  ∀ (pre post : List InFlight.Step), noPut post = true → survivorsOn f27Tree pre post = none ∨ survivorsOn f27Tree pre post = some []

theorem empty_discards_held_scan_false : ¬ EmptyDiscardsHeldF27Full := by
  intro h
  have := h [.put 1, .startMapPush 1 1 10, .startPQPush 1, .scanPeek 50] [.scanPop 1, .startMapPush 2 1 20, .startPQPush 1]
    (by decide)
  revert this
  decide

/-- non-vacuity of `empty_discards_held_fixed`: a history with a deferred REQ, a TOUCH, a FIN and a delivery in progress,
then Empty, then everything that was parked runs to its end -/
example : noScanHeldAfter f27Tree [.put 1, .put 2, .put 3, .startMapPush 1 1 10, .startPQPush 1, .startMapPush 1 2 20,
      .reqPop 1 1 5, .reqRemove 1, .reqPut 1, .deferPQPush 1 99, .touchPop 1 2, .touchRemove 2, .touchMapPush 2 30, .touchPQPush 2,
      .finPop 1 2, .startMapPush 2 3 40] = true ∧
    survivorsOn f27Tree [.put 1, .put 2, .put 3, .startMapPush 1 1 10, .startPQPush 1, .startMapPush 1 2 20,
      .reqPop 1 1 5, .reqRemove 1, .reqPut 1, .deferPQPush 1 99, .touchPop 1 2, .touchRemove 2, .touchMapPush 2 30, .touchPQPush 2,
      .finPop 1 2, .startMapPush 2 3 40]
      [.finRemove 2, .startPQPush 2, .startPQPush 3, .dscanPeek 100, .scanPeek 100] = some [] := by decide

/-! ### shape of the timeout scan (`St.scanAtomic`, tie `scan_shape_known`) -/

/-- with heap pop and map pop in **two** critical sections a REQ plus a redelivery of the same message
in between makes the scan take the *fresh* delivery out of the in-flight map at once (and leaves its
heap entry behind); with one critical section (fixes/scan_pop_atomic.patch) the REQ finds nothing to
requeue and the message simply times out -/
def scanWindowSchedule : List InFlight.Step :=
  [.put 1, .startMapPush 1 1 10, .startPQPush 1, .scanPeek 50,
   .reqPop 1 1 0, .reqRemove 1, .reqPut 1, .startMapPush 2 1 1000, .startPQPush 1, .scanPop 1]

theorem scan_two_sections_times_out_fresh_delivery :
    (match InFlight.run true (InFlight.initSt []) scanWindowSchedule with
     | InFlight.Res.ok s => s.conts.isEmpty && s.map.isEmpty && decide (s.h.pq = [1]) && decide (s.queued = [1]) &&
         decide ((s.h.objs 1).pri = 1000)
     | _ => false) = true := by decide

theorem scan_one_section_safe :
    (match InFlight.run true { InFlight.initSt [] with scanAtomic := true }
        [.put 1, .startMapPush 1 1 10, .startPQPush 1, .scanPeek 50, .reqPop 1 1 0, .scanPop 1] with
     | InFlight.Res.ok s => s.conts.isEmpty && s.map.isEmpty && s.h.pq.isEmpty && decide (s.queued = [1])
     | _ => false) = true ∧
    (InFlight.step true
      (match InFlight.run true { InFlight.initSt [] with scanAtomic := true }
          [.put 1, .startMapPush 1 1 10, .startPQPush 1, .scanPeek 50, .reqPop 1 1 0] with
       | InFlight.Res.ok s => s
       | _ => InFlight.initSt []) (.reqRemove 1)).isPanic = false := by decide

/-! ### the heap code maintains its index fields (all heaps, all arguments) -/

/-- `Push(x)` of an object not in the heap: afterwards every slot's object carries that slot's index -/
theorem heap_push_index_ok (h h' : InFlight.HS) (x : Nat) (ok : InFlight.IndexOK h) (hx : x ∉ h.pq)
    (hp : InFlight.push h x = some h') : InFlight.IndexOK h' :=
  Nsq.Proofs.InFlight.push_indexOK h h' x ok hx hp

/-- `Remove(i)` (any in-range i): the indices stay right, the removed object gets `index = -1` and is gone -/
theorem heap_remove_index_ok (h : InFlight.HS) (i : Int) (r : InFlight.HS × Nat) (ok : InFlight.IndexOK h)
    (hr : InFlight.remove h i = some r) :
    InFlight.IndexOK r.1 ∧ (r.1.objs r.2).index = -1 ∧ r.2 ∉ r.1.pq :=
  Nsq.Proofs.InFlight.remove_indexOK h i r ok hr

theorem heap_pop_index_ok (h : InFlight.HS) (r : InFlight.HS × Nat) (ok : InFlight.IndexOK h)
    (hr : InFlight.pop h = some r) :
    InFlight.IndexOK r.1 ∧ (r.1.objs r.2).index = -1 ∧ r.2 ∉ r.1.pq :=
  Nsq.Proofs.InFlight.pop_indexOK h r ok hr

/-- non-vacuity: a three-element heap built by Push satisfies IndexOK, and a state with a stale
index does not -/
example : InFlight.indexOkB { objs := fun k => { pri := 10 - k, index := if k = 3 then 0 else if k = 2 then 1 else 2, client := 0 },
                              pq := [3, 2, 1] } = true := by decide
example : InFlight.indexOkB { objs := fun _ => { pri := 0, index := 0, client := 0 }, pq := [1, 2] } = false := by decide

/-! ## deadlock freedom (lock part) -/

/-- no set of goroutines can wait for each other in a cycle purely on the mutexes of nsqd/: the lock-nesting relation
regenerated from the current tree is acyclic.
Audit B22 — what this is and is not: a GRAPH fact (`no_deadlock_cycle` holds for any acyclic relation, the empty one included).
It says something about the tree only through the ties: `Tie.Life.lock_order_acyclic` (`decide` on the regenerated relation),
`must_hold_edges` (the nestings the models rely on ARE in the relation — deleting an acquisition would otherwise just shrink it),
`unresolved_calls_pinned` (the 8 call sites through function-typed fields that the extractor cannot follow: pinned, reviewed by
hand, a new one breaks the tie) and `no_recursive_lock` (no lock is re-acquired while held).  There is no "lift" to an
operational semantics of goroutines: "a goroutine waits for B while holding A ⇒ (A, B) is in the relation" is the extractor's
specification (trusted; conservative approximations listed in tools/go2lean/kind_life.go). -/
theorem lock_only_deadlock_free (hs : List String) :
    ¬ LifeLock.DeadlockCycle Nsq.Gen.Life.lockEdges hs :=
  Nsq.Proofs.LifeLock.no_deadlock_cycle Nsq.Tie.Life.lock_order_acyclic hs

/-- non-vacuity: an inverted order is rejected by the check and does admit a deadlock cycle -/
example : LifeLock.acyclicB [("Topic.RWMutex", "Channel.RWMutex"), ("Channel.RWMutex", "Topic.RWMutex")] = false := by decide
example : LifeLock.DeadlockCycle [("a", "b"), ("b", "a")] ["a", "b"] := by
  simp [LifeLock.DeadlockCycle, LifeLock.IsChain]
example : ("Channel.RWMutex", "Channel.inFlightMutex") ∈ Nsq.Gen.Life.lockEdges := by decide

/-! ## atomic semantics (Model/Life.lean) -/
section atomic
open Nsq.Model.Life Nsq.Proofs.Life



theorem delete_chan_effects (s : St) (t c : String) (C : Chan)
    (h : getChan s t c = some C) (hx : C.exiting = false) :
    (∀ k ∈ C.clients, k.id ∈ (deleteChan s t c).closed) ∧
    getChan (deleteChan s t c) t c = none ∧
    (t, some c) ∉ (deleteChan s t c).files := by
  obtain ⟨T, hT, hC⟩ := getChan_some h
  have hT1 : getTopic (step s (.deleteChanBegin t c)).1 t = some (T.modChan c Chan.deleteBegin) := by
    rw [delete_begin_eq s t c C h hx]
    show getTopic (modChan s t c Chan.deleteBegin) t = _
    unfold modChan
    rw [getTopic_modTopic s t _ (fun T => modChan_name T c _), hT]
    rfl
  have hC1 : (T.modChan c Chan.deleteBegin).getChan c = some (Chan.deleteBegin C) := by
    rw [getChan_modChan_topic T c _ deleteBegin_name, hC]; rfl
  unfold deleteChan
  generalize hs1 : (step s (.deleteChanBegin t c)).1 = s1 at *
  have hcl : s1.closed = s.closed ++ C.clients.map (·.id) := by
    rw [← hs1, delete_begin_eq s t c C h hx]
  have hfl : s1.files = removeFiles s.files (t, some c) := by
    rw [← hs1, delete_begin_eq s t c C h hx]
  simp only [step, hT1, hC1]
  have hex : (Chan.deleteBegin C).exiting = true := rfl
  simp only [hex, Bool.not_true, Bool.false_eq_true, if_false]
  split
  · refine ⟨?_, ?_, ?_⟩
    · intro k hk; simp [hcl]; exact Or.inr ⟨k, hk, rfl⟩
    · unfold getChan
      rw [getTopic_filter_ne s1 t _ rfl]
    · simp [hfl, removeFiles]
  · refine ⟨?_, ?_, ?_⟩
    · intro k hk
      show k.id ∈ s1.closed
      simp [hcl]; exact Or.inr ⟨k, hk, rfl⟩
    · unfold getChan
      show (match getTopic (modTopic s1 t (fun T => T.dropChan c)) t with | none => none | some T => T.getChan c) = none
      rw [getTopic_modTopic s1 t (fun T => T.dropChan c) (fun _ => rfl), hT1]
      exact getChan_filter_ne _ c
    · show (t, some c) ∉ s1.files
      rw [hfl]; exact mem_removeFiles _ _


/-- a (re-)created channel starts empty, with no consumers and zeroed counters — provided no
orphaned disk queue of that name lies under the data path (see `recreate_empty_full_false`) -/
theorem recreate_empty_partial (s : St) (t c : String) (e : Bool) (T : Topic)
    (hT : getTopic s t = some T) (hC : T.getChan c = none)
    (hno : e = true ∨ orphanOf s.orphans (t, some c) = []) :
    ∃ C, getChan (step s (.createChan t c e)).1 t c = some C ∧
    C.located = [] ∧ C.clients = [] ∧ C.msgCount = 0 ∧ C.eph = e := by
  have hopen : (openChan s.orphans t c e).located = [] ∧ (openChan s.orphans t c e).clients = [] ∧
      (openChan s.orphans t c e).msgCount = 0 ∧ (openChan s.orphans t c e).eph = e ∧
      (openChan s.orphans t c e).name = c := by
    unfold openChan
    cases e with
    | true => simp [newChan, Chan.located]
    | false =>
      have h0 : orphanOf s.orphans (t, some c) = [] := by
        cases hno with
        | inl h => cases h
        | inr h => exact h
      simp [h0, Chan.located]
  refine ⟨openChan s.orphans t c e, ?_, hopen.1, hopen.2.1, hopen.2.2.1, hopen.2.2.2.1⟩
  simp only [step, hT, hC]
  unfold getChan
  show (match getTopic (modTopic s t (fun T => T.addChan (openChan s.orphans t c e))) t with
        | none => none | some T => T.getChan c) = _
  rw [getTopic_modTopic s t (fun T => T.addChan (openChan s.orphans t c e)) (fun _ => rfl), hT]
  simp only [Option.map, Topic.getChan, Topic.addChan]
  exact find_append_new _ _ _ hC (by simp [hopen.2.2.2.2])

/-- the unconditional claim: after a delete (or for a name never used in this process) a created
channel is empty -/
def RecreateEmptyFull : Prop :=
  ∀ (s : St) (t c : String) (e : Bool) (T : Topic), getTopic s t = some T → T.getChan c = none →
    ∀ C, getChan (step s (.createChan t c e)).1 t c = some C → C.located = []

theorem delete_topic_effects (s : St) (t : String) (T : Topic) (hT : getTopic s t = some T) :
    getTopic (step s (.deleteTopic t)).1 t = none ∧
    (∀ c, getChan (step s (.deleteTopic t)).1 t c = none) ∧
    (∀ C ∈ T.chans, ∀ k ∈ C.clients, k.id ∈ (step s (.deleteTopic t)).1.closed) ∧
    (∀ b ∈ T.filesOf, b ∉ (step s (.deleteTopic t)).1.files) := by
  simp only [step, hT]
  have h1 : getTopic (St.mk s.memCap (s.topics.filter (fun X => X.name != t))
                (s.closed ++ (T.chans.map (fun C => C.clients.map (·.id))).flatten)
                (s.files.filter (fun b => !(T.filesOf.contains b))) s.autoDeleted s.orphans) t = none :=
    getTopic_filter_ne s t _ rfl
  refine ⟨h1, ?_, ?_, ?_⟩
  · intro c; unfold getChan; rw [h1]
  · intro C hC k hk
    simp only [List.mem_append, List.mem_flatten, List.mem_map]
    exact Or.inr ⟨_, ⟨C, hC, rfl⟩, List.mem_map.mpr ⟨k, hk, rfl⟩⟩
  · intro b hb hmem
    simp only [List.mem_filter] at hmem
    have : T.filesOf.contains b = true := by simpa using hb
    simp at hmem
    exact hmem.2 hb

/-- `Channel.Empty`: exactly what the channel held at that moment is discarded; its consumers stay
subscribed with in-flight count 0; every other channel is untouched; a later publish is kept -/
theorem empty_chan_snapshot (s : St) (t c : String) (C : Chan)
    (h : getChan s t c = some C) (hx : C.exiting = false) :
    getChan (step s (.emptyChan t c)).1 t c = some (Chan.empty C) ∧
    (Chan.empty C).located = [] ∧
    (Chan.empty C).clients.map (·.id) = C.clients.map (·.id) ∧
    (∀ k ∈ (Chan.empty C).clients, k.inFlight = 0) ∧
    (∀ t' c', ¬ (t' = t ∧ c' = c) → getChan (step s (.emptyChan t c)).1 t' c' = getChan s t' c') ∧
    (∀ m, 0 < s.memCap → (Chan.putMessage s.memCap (Chan.empty C) m).located = [m]) := by
  have e1 : (step s (.emptyChan t c)).1 =
      { modChan s t c Chan.empty with files := removeFiles s.files (t, some c) } := by
    simp [step, h, hx]
  refine ⟨?_, rfl, (empty_clients C).1, (empty_clients C).2, ?_, ?_⟩
  · rw [e1]
    show getChan (modChan s t c Chan.empty) t c = _
    rw [getChan_modChan s t c _ empty_name, h]; rfl
  · intro t' c' hne
    rw [e1]
    exact getChan_modChan_other s t c t' c' _ empty_name hne
  · intro m hm
    simp [Chan.putMessage, hx, Chan.put, Chan.empty, hm, Chan.located]

/-- `Topic.Empty` discards only what has not been fanned out yet: the channels are untouched -/
theorem empty_topic_only_queue (s : St) (t : String) (T : Topic) (hT : getTopic s t = some T) :
    getTopic (step s (.emptyTopic t)).1 t = some T.clearQueue ∧
    T.clearQueue.chans = T.chans ∧ T.clearQueue.queue = [] ∧
    (∀ c, getChan (step s (.emptyTopic t)).1 t c = getChan s t c) := by
  have e1 : (step s (.emptyTopic t)).1 =
      { modTopic s t Topic.clearQueue with
          files := removeFiles s.files (t, none) } := by
    simp [step, hT]
  have h1 : getTopic (step s (.emptyTopic t)).1 t = some T.clearQueue := by
    rw [e1]
    show getTopic (modTopic s t Topic.clearQueue) t = _
    rw [getTopic_modTopic s t Topic.clearQueue (fun _ => rfl), hT]; rfl
  refine ⟨h1, rfl, rfl, ?_⟩
  intro c
  unfold getChan
  rw [h1, hT]
  rfl

/-- SUB / AddClient never attaches a consumer to a channel that has started exiting -/
theorem sub_retry (s : St) (t c : String) (k : Nat) (C : Chan)
    (h : getChan s t c = some C) (hx : C.exiting = true) :
    step s (.sub t c k) = (s, Ans.exiting) := by
  simp [step, h, hx]

/-- while a channel is being deleted (between `Channel.Delete()` and the unlink from the map) a
GetChannel / create of the same name finds the exiting channel: no second channel is made on the same
disk-queue name (replayed on the real code: corpus/C08/delete_races_getchannel.sched; tie
`delete_chan_calls`: `Delete` before `delete`) -/
theorem create_during_delete (s : St) (t c : String) (e : Bool) (C : Chan)
    (h : getChan s t c = some C) : (step s (.createChan t c e)).1 = s := by
  obtain ⟨T, hT, hC⟩ := getChan_some h
  simp [step, hT, hC]

/-- the last consumer leaving an ephemeral channel starts its deletion exactly once: the channel
is marked exiting with no consumers and nothing located, one auto-delete is logged, and any further
`RemoveClient` / `AddClient` on it changes nothing -/
theorem ephemeral_autodelete_once (s : St) (t c : String) (k : Nat) (C : Chan)
    (h : getChan s t c = some C) (hx : C.exiting = false) (he : C.eph = true)
    (hk : hasClient C k = true) (hlast : (C.clients.filter (fun x => x.id != k)).isEmpty = true) :
    let s' := (step s (.unsub t c k)).1
    s'.autoDeleted = s.autoDeleted ++ [(t, c)] ∧
    (∃ C', getChan s' t c = some C' ∧ C'.exiting = true ∧ C'.clients = [] ∧ C'.located = []) ∧
    (∀ k', step s' (.unsub t c k') = (s', Ans.ok)) ∧
    (∀ k', step s' (.sub t c k') = (s', Ans.exiting)) := by
  have e1 : (step s (.unsub t c k)).1 =
      { modChan s t c Chan.deleteBegin with
          files := removeFiles s.files (t, some c), autoDeleted := s.autoDeleted ++ [(t, c)] } := by
    simp [step, h, hx, he, hk, hlast]
  have hg : getChan (step s (.unsub t c k)).1 t c = some (Chan.deleteBegin C) := by
    rw [e1]
    show getChan (modChan s t c Chan.deleteBegin) t c = _
    rw [getChan_modChan s t c Chan.deleteBegin deleteBegin_name, h]; rfl
  have ha : (step s (.unsub t c k)).1.autoDeleted = s.autoDeleted ++ [(t, c)] := by rw [e1]
  generalize (step s (.unsub t c k)).1 = s' at *
  refine ⟨ha, ⟨_, hg, rfl, rfl, rfl⟩, ?_, ?_⟩
  · intro k'
    simp [step, hg, Chan.deleteBegin, Chan.empty]
  · intro k'
    simp [step, hg, Chan.deleteBegin, Chan.empty]

/-- a consumer leaving a durable channel, or not the last one, deletes nothing -/
theorem no_autodelete_otherwise (s : St) (t c : String) (k : Nat) (C : Chan)
    (h : getChan s t c = some C)
    (hno : C.eph = false ∨ (C.clients.filter (fun x => x.id != k)).isEmpty = false) :
    (step s (.unsub t c k)).1.autoDeleted = s.autoDeleted := by
  by_cases hx : C.exiting = true
  · simp [step, h, hx]
  · by_cases hk : hasClient C k = true
    · cases hno with
      | inl he => simp [step, h, hx, hk, he, modChan, modTopic]
      | inr hl => simp [step, h, hx, hk, hl, modChan, modTopic]
    · simp [step, h, hx, hk]

/-- what `PersistMetadata` writes lists only durable topics and, under them, only durable channels -/
theorem persisted_only_durable (s : St) :
    ∀ e ∈ persisted s, ∃ T ∈ s.topics, T.eph = false ∧ e.1 = T.name ∧ e.2.1 = T.paused ∧
      ∀ ce ∈ e.2.2, ∃ C ∈ T.chans, C.eph = false ∧ ce.1 = C.name ∧ ce.2 = C.paused := by
  intro e he
  unfold persisted at he
  simp only [List.mem_map, List.mem_filter] at he
  obtain ⟨T, ⟨hT, hTe⟩, rfl⟩ := he
  refine ⟨T, hT, by simpa using hTe, rfl, rfl, ?_⟩
  intro ce hce
  simp only [List.mem_map, List.mem_filter] at hce
  obtain ⟨C, ⟨hC, hCe⟩, rfl⟩ := hce
  exact ⟨C, hC, by simpa using hCe, rfl, rfl⟩

/-- an ephemeral channel's queue write never reaches a disk queue: on overflow the message is dropped -/
theorem ephemeral_put_no_disk (cap : Nat) (C : Chan) (m : Msg) (he : C.eph = true) :
    Chan.putWrites cap C = false ∧ (Chan.put cap C m).diskLen = C.diskLen := by
  constructor
  · simp [Chan.putWrites, he]
  · unfold Chan.put Chan.diskLen
    by_cases h : C.memLen < cap
    · simp [h]
    · simp [h, he]


/-- files are only ever created for durable owners: an ephemeral topic or channel never reaches
the disk, whatever the operation and the state (`DurableOwner`: a non-ephemeral topic / channel of
that name exists) -/
theorem ephemeral_no_disk (s : St) (o : Op) (b : BName) (hb : b ∈ (step s o).1.files) :
    b ∈ s.files ∨ DurableOwner s b :=
  files_only_for_durable s o b hb

/-- … and along any history from an empty daemon every backend that owns files was, at the moment
its first file was written, a durable topic or channel -/
theorem ephemeral_no_disk_history (cap : Nat) : ∀ (ops : List Op) (b : BName), b ∈ (run (init cap) ops).files →
    ∃ pre o post, ops = pre ++ o :: post ∧ DurableOwner (run (init cap) pre) b := by
  intro ops
  have gen : ∀ (ops : List Op) (s : St) (b : BName), b ∈ (run s ops).files → b ∈ s.files ∨
      ∃ pre o post, ops = pre ++ o :: post ∧ DurableOwner (run s pre) b := by
    intro ops
    induction ops with
    | nil => intro s b hb; exact Or.inl hb
    | cons o os ih =>
      intro s b hb
      rcases ih (step s o).1 b hb with h | ⟨pre, o', post, he, hd⟩
      · rcases files_only_for_durable s o b h with h1 | h1
        · exact Or.inl h1
        · exact Or.inr ⟨[], o, os, rfl, h1⟩
      · exact Or.inr ⟨o :: pre, o', post, by rw [he]; rfl, hd⟩
  intro b hb
  rcases gen ops (init cap) b hb with h | h
  · simp [init] at h
  · exact h

def mX : Msg := { id := 31, ts := 1, attempts := 0, body := [7] }

/-- an ephemeral topic with a durable channel holding one message; graceful restart; the topic is
created again -/
def orphanState : St :=
  (step (Restart.cycle (run (init 1) [.createTopic "e#" true, .createChan "e#" "c" false, .pub "e#" mX, .pump "e#"]))
    (.createTopic "e#" true)).1

theorem recreate_empty_full_false : ¬ RecreateEmptyFull := by
  intro h
  have hT : getTopic orphanState "e#" = some { name := "e#", eph := true } := by decide
  have hC : ({ name := "e#", eph := true } : Topic).getChan "c" = none := by decide
  have hg : getChan (step orphanState (.createChan "e#" "c" false)).1 "e#" "c" =
      some { name := "c", eph := false, queue := [mX] } := by decide
  have := h orphanState "e#" "c" false _ hT hC _ hg
  simp [Chan.located] at this


/-! ### non-vacuity: one concrete history exercises every hypothesis above -/

def m1 : Msg := { id := 11, ts := 5, attempts := 0, body := [1, 2] }
def m2 : Msg := { id := 12, ts := 6, attempts := 0, body := [] }

/-- topic `t` with durable `c` (consumer 7 holds m1 in flight, m2 queued on disk) and ephemeral `e#` (consumer 8) -/
def demo : St :=
  run (init 1) [.createTopic "t" false, .createChan "t" "c" false, .createChan "t" "e#" true,
    .sub "t" "c" 7, .sub "t" "e#" 8, .pub "t" m1, .pump "t", .pub "t" m2, .pump "t",
    .deliver "t" "c" 7 true 11]

example : (getChan demo "t" "c").map (fun C => (C.located.map (·.id), C.clients, C.diskLen, C.exiting)) =
    some ([12, 11], [{ id := 7, inFlight := 1 }], 1, false) := by decide
example : ("t", some "c") ∈ demo.files ∧ ("t", some "e#") ∉ demo.files := by decide
example : (getChan (deleteChan demo "t" "c") "t" "c") = none ∧ 7 ∈ (deleteChan demo "t" "c").closed ∧
    ("t", some "c") ∉ (deleteChan demo "t" "c").files := by decide
example : (getChan (step demo (.emptyChan "t" "c")).1 "t" "c").map (fun C => (C.located, C.clients)) =
    some ([], [{ id := 7, inFlight := 0 }]) := by decide
example : (getChan (step demo (.unsub "t" "e#" 8)).1 "t" "e#").map (·.exiting) = some true ∧
    (step demo (.unsub "t" "e#" 8)).1.autoDeleted = [("t", "e#")] := by decide
example : persisted demo = [("t", false, [("c", false)])] := by decide
example : (getTopic (step demo (.deleteTopic "t")).1 "t") = none ∧
    (step demo (.deleteTopic "t")).1.closed = [7, 8] ∧ (step demo (.deleteTopic "t")).1.files = [] := by decide

/-- **no delivery after discard**: once `Channel.Empty` has run, an id `x` that is not waiting in the
topic's own queue (it had been fanned out) nor in an orphaned disk queue is never accepted for delivery
on that channel again — whatever history follows (any operations on any objects, including deleting
and re-creating the channel or the topic), as long as `x` is not published to the topic again (ids
are fresh, C12) -/
theorem no_delivery_after_discard (s : St) (t c : String) (x : Nat) (C : Chan)
    (hC : getChan s t c = some C) (hx : C.exiting = false)
    (hq : ∀ T ∈ s.topics, T.name = t → ∀ m ∈ T.queue, m.id ≠ x)
    (ho : ∀ e ∈ s.orphans, ∀ m ∈ e.2, m.id ≠ x)
    (ops : List Op) (hno : ∀ o ∈ ops, NoPub o t x) (k : Nat) (fm : Bool) :
    (step (run (step s (.emptyChan t c)).1 ops) (.deliver t c k fm x)).2 ≠ Ans.ok := by
  apply deliver_absent
  apply absent_run ops _ t c x _ hno
  have e1 : (step s (.emptyChan t c)).1 =
      { modChan s t c Chan.empty with files := removeFiles s.files (t, some c) } := by
    simp [step, hC, hx]
  rw [e1]
  exact absent_after_clear s t c x Chan.empty empty_name (fun _ => rfl) hq ho

/-- the same after a delete (`Channel.Delete()`, then the unlink, then anything — e.g. re-creation) -/
theorem no_delivery_after_delete (s : St) (t c : String) (x : Nat) (C : Chan)
    (hC : getChan s t c = some C) (hx : C.exiting = false)
    (hq : ∀ T ∈ s.topics, T.name = t → ∀ m ∈ T.queue, m.id ≠ x)
    (ho : ∀ e ∈ s.orphans, ∀ m ∈ e.2, m.id ≠ x)
    (ops : List Op) (hno : ∀ o ∈ ops, NoPub o t x) (k : Nat) (fm : Bool) :
    (step (run (step s (.deleteChanBegin t c)).1 ops) (.deliver t c k fm x)).2 ≠ Ans.ok := by
  apply deliver_absent
  apply absent_run ops _ t c x _ hno
  rw [delete_begin_eq s t c C hC hx]
  exact absent_after_clear s t c x Chan.deleteBegin deleteBegin_name (fun _ => rfl) hq ho

/-- non-vacuity: in `demo` id 11 is in flight on t:c, the topic queue is empty, no orphans -/
example : (step demo (.deliver "t" "c" 7 false 12)).2 = Ans.ok ∧
    (step (run (step demo (.emptyChan "t" "c")).1 [.pub "t" m2, .pump "t", .deleteChanBegin "t" "c", .deleteChanUnlink "t" "c",
      .createChan "t" "c" false, .sub "t" "c" 9]) (.deliver "t" "c" 9 true 11)).2 = Ans.notAllowed := by decide

/-- the unlink of a deleted channel decides the ephemeral topic's fate from the channels that are left
**at that moment**: none left → the topic goes (its once-only callback); otherwise the topic stays with
exactly the other channels.  (Replayed: corpus/C08/ephemeral_topic_*.sched; tie `delete_chan_calls`.) -/
theorem unlink_last_channel_deletes_ephemeral_topic (s : St) (t c : String) (T : Topic) (C : Chan)
    (hT : getTopic s t = some T) (hC : T.getChan c = some C) (hx : C.exiting = true) (he : T.eph = true) :
    ((T.chans.filter (fun X => X.name != c)).isEmpty = true →
        getTopic (step s (.deleteChanUnlink t c)).1 t = none) ∧
    ((T.chans.filter (fun X => X.name != c)).isEmpty = false →
        getTopic (step s (.deleteChanUnlink t c)).1 t = some (T.dropChan c)) := by
  constructor
  · intro hl
    simp only [step, hT, hC, hx, he, hl, Bool.not_true, Bool.false_eq_true, if_false, Bool.and_self, if_true]
    exact getTopic_filter_ne s t _ rfl
  · intro hl
    simp only [step, hT, hC, hx, he, hl, Bool.not_true, Bool.false_eq_true, if_false, Bool.and_false]
    rw [getTopic_modTopic s t (fun T => T.dropChan c) (fun _ => rfl), hT]
    rfl

/-- both interleavings of deleting the last two channels of an ephemeral topic end without the topic; a
channel created while the last one is going away keeps the topic -/
example :
    let s0 := run (init 2) [.createTopic "e#" true, .createChan "e#" "a" false, .createChan "e#" "b" false]
    getTopic (run s0 [.deleteChanBegin "e#" "a", .deleteChanBegin "e#" "b", .deleteChanUnlink "e#" "a", .deleteChanUnlink "e#" "b"]) "e#" = none ∧
    getTopic (run s0 [.deleteChanBegin "e#" "a", .deleteChanBegin "e#" "b", .deleteChanUnlink "e#" "b", .deleteChanUnlink "e#" "a"]) "e#" = none ∧
    (getTopic (run s0 [.deleteChanBegin "e#" "a", .deleteChanUnlink "e#" "a", .deleteChanBegin "e#" "b", .createChan "e#" "c" false,
        .deleteChanUnlink "e#" "b"]) "e#").map (fun T => T.chans.map (·.name)) = some ["c"] := by decide

end atomic

end Nsq.Props.C08
