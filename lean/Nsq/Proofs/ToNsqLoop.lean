import Nsq.Model.ToNsqLoop
import Nsq.Proofs.Split
/-! Invariants of the to_nsq main-loop model (`Model/ToNsqLoop.lean`), by induction over schedules. -/
namespace Nsq.Proofs.ToNsqLoop
open Nsq.Model.Split Nsq.Model.ToNsqLoop

/-- one unfolding of the reader loop -/
theorem published_unfold (d : UInt8) (input : Bytes) :
    published trimFixed d input =
      (if (trimFixed d (readBytes d input).1).length = 0 then [] else [trimFixed d (readBytes d input).1]) ++
      (if (readBytes d input).2.2 = true then [] else published trimFixed d (readBytes d input).2.1) := by
  rw [published]
  by_cases h : (readBytes d input).2.2 = true <;> simp [h]

/-- records the reader still has to complete -/
def rest (c : Cfg) (unread : Bytes) : Phase → List Bytes
  | .idle => published trimFixed c.d unread
  | .loaded => published trimFixed c.d unread
  | .publishing r _ eof => r :: (if eof then [] else published trimFixed c.d unread)
  | .toDec eof => if eof then [] else published trimFixed c.d unread
  | .closed => []

/-- the part of the record in flight that producer `i` already acknowledged -/
def inflight (i : Nat) : Phase → List Bytes
  | .publishing r todo _ => if i ∈ todo then [] else [r]
  | _ => []

def todoOk : Phase → Prop
  | .publishing _ todo _ => todo.Nodup
  | _ => True

structure InvRec (c : Cfg) (input : Bytes) (st : St) : Prop where
  split : published trimFixed c.d input = st.done ++ rest c st.unread st.phase
  recv : ∀ i, i < c.n → acked i st.trace = st.done ++ inflight i st.phase
  nodup : todoOk st.phase

theorem rest_afterPublish (c : Cfg) (unread : Bytes) (eof : Bool) :
    rest c unread (afterPublish c eof) = if eof then [] else published trimFixed c.d unread := by
  unfold afterPublish
  by_cases h1 : c.throttle <;> by_cases h2 : eof <;> simp [h1, h2, rest]

theorem inflight_afterPublish (c : Cfg) (i : Nat) (eof : Bool) : inflight i (afterPublish c eof) = [] := by
  unfold afterPublish
  by_cases h1 : c.throttle <;> by_cases h2 : eof <;> simp [h1, h2, inflight]

theorem todoOk_afterPublish (c : Cfg) (eof : Bool) : todoOk (afterPublish c eof) := by
  unfold afterPublish
  by_cases h1 : c.throttle <;> by_cases h2 : eof <;> simp [h1, h2, todoOk]

theorem invRec_init (c : Cfg) (input : Bytes) : InvRec c input (init input) :=
  ⟨by simp [init, rest], by intro i _; simp [init, acked, inflight], by simp [init, todoOk]⟩

theorem invRec_stepR (c : Cfg) (input : Bytes) (st : St) (e : REv) (h : InvRec c input st) :
    InvRec c input (stepR c st e) := by
  obtain ⟨hs, hr, hn⟩ := h
  cases e with
  | load =>
    unfold stepR
    by_cases h1 : c.throttle ∧ st.phase = .idle
    · simp only [h1, and_self, if_true]
      refine ⟨?_, ?_, ?_⟩
      · simpa [rest, h1.2] using hs
      · intro i hi; simpa [inflight, h1.2] using hr i hi
      · simp [todoOk]
    · simp only [h1, if_false]; exact ⟨hs, hr, hn⟩
  | read =>
    unfold stepR
    by_cases h1 : (c.throttle ∧ st.phase = .loaded) ∨ (c.throttle = false ∧ st.phase = .idle)
    · have hph : rest c st.unread st.phase = published trimFixed c.d st.unread ∧ (∀ i, inflight i st.phase = []) := by
        rcases h1 with h1 | h1 <;> simp [h1.2, rest, inflight]
      rw [hph.1, published_unfold c.d st.unread] at hs
      simp only [h1, if_true]
      by_cases h2 : (trimFixed c.d (readBytes c.d st.unread).1).length = 0
      · simp only [h2, if_true]
        refine ⟨?_, ?_, todoOk_afterPublish _ _⟩
        · simp only [rest_afterPublish]
          simpa [h2] using hs
        · intro i hi
          simpa [inflight_afterPublish, hph.2] using hr i hi
      · simp only [h2, if_false]
        by_cases h3 : c.n = 0
        · simp only [h3, if_true]
          refine ⟨?_, ?_, todoOk_afterPublish _ _⟩
          · simp only [rest_afterPublish]
            simpa [h2, List.append_assoc] using hs
          · intro i hi; omega
        · simp only [h3, if_false]
          refine ⟨?_, ?_, ?_⟩
          · simpa [rest, h2] using hs
          · intro i hi
            have := hr i hi
            simp only [hph.2, List.append_nil] at this
            simp [inflight, this, hi]
          · simp [todoOk, List.nodup_range]
    · simp only [h1, if_false]; exact ⟨hs, hr, hn⟩
  | pub i =>
    unfold stepR
    cases hp : st.phase with
    | publishing r todo eof =>
      simp only
      rw [hp] at hs hr hn
      by_cases h1 : i ∈ todo
      · simp only [h1, if_true]
        by_cases h2 : i ∈ st.stopped
        · simp only [h2, if_true]
          refine ⟨by simpa [hp] using hs, ?_, by simpa [hp] using hn⟩
          intro j hj; simpa [acked, hp] using hr j hj
        · simp only [h2, if_false]
          by_cases h3 : todo.erase i = []
          · simp only [h3, if_true]
            refine ⟨?_, ?_, todoOk_afterPublish _ _⟩
            · simp only [rest_afterPublish]
              simpa [rest, List.append_assoc] using hs
            · intro j hj
              have hj' := hr j hj
              simp only [inflight] at hj'
              simp only [acked, inflight_afterPublish, List.append_nil]
              by_cases hij : i = j
              · subst hij; simp [hj', h1]
              · have : j ∉ todo := by
                  intro hm
                  have := (List.mem_erase_of_ne (Ne.symm hij)).2 hm
                  simp [h3] at this
                simp [hij, hj', this]
          · simp only [h3, if_false]
            refine ⟨by simpa [rest] using hs, ?_, ?_⟩
            · intro j hj
              have hj' := hr j hj
              simp only [inflight] at hj' ⊢
              simp only [acked]
              by_cases hij : i = j
              · subst hij
                have : i ∉ todo.erase i := fun hm => (List.Nodup.mem_erase_iff hn).1 hm |>.1 rfl
                simp [hj', h1, this]
              · have : j ∈ todo.erase i ↔ j ∈ todo := List.mem_erase_of_ne (Ne.symm hij)
                simp [hij, hj', this]
            · simp only [todoOk] at hn ⊢; exact hn.erase i
      · simp only [h1, if_false]; exact ⟨by simpa [hp] using hs, by simpa [hp] using hr, by simpa [hp] using hn⟩
    | idle => simp only; exact ⟨by simpa [hp] using hs, by simpa [hp] using hr, by simpa [hp] using hn⟩
    | loaded => simp only; exact ⟨by simpa [hp] using hs, by simpa [hp] using hr, by simpa [hp] using hn⟩
    | toDec eof => simp only; exact ⟨by simpa [hp] using hs, by simpa [hp] using hr, by simpa [hp] using hn⟩
    | closed => simp only; exact ⟨by simpa [hp] using hs, by simpa [hp] using hr, by simpa [hp] using hn⟩
  | dec =>
    unfold stepR
    cases hp : st.phase with
    | toDec eof =>
      simp only
      rw [hp] at hs hr
      refine ⟨?_, ?_, ?_⟩
      · by_cases he : eof <;> simpa [rest, he] using hs
      · intro j hj; by_cases he : eof <;> simpa [inflight, he] using hr j hj
      · by_cases he : eof <;> simp [todoOk, he]
    | idle => simp only; exact ⟨by simpa [hp] using hs, by simpa [hp] using hr, by simpa [hp] using hn⟩
    | loaded => simp only; exact ⟨by simpa [hp] using hs, by simpa [hp] using hr, by simpa [hp] using hn⟩
    | publishing r todo eof => simp only; exact ⟨by simpa [hp] using hs, by simpa [hp] using hr, by simpa [hp] using hn⟩
    | closed => simp only; exact ⟨by simpa [hp] using hs, by simpa [hp] using hr, by simpa [hp] using hn⟩
  | sigterm =>
    unfold stepR
    by_cases h1 : st.main = .waiting <;> by_cases h2 : c.n = 0 <;> simp only [h1, h2, if_true, if_false]
    · exact ⟨hs, fun i hi => by simpa [acked] using hr i hi, hn⟩
    · exact ⟨hs, hr, hn⟩
    · exact ⟨hs, hr, hn⟩
    · exact ⟨hs, hr, hn⟩
  | wake =>
    unfold stepR
    simp only []
    by_cases h1 : st.main = .waiting ∧ st.phase = .closed
    · rw [if_pos h1]
      by_cases h2 : c.n = 0
      · rw [if_pos h2]; exact ⟨hs, fun i hi => by simpa [acked] using hr i hi, hn⟩
      · rw [if_neg h2]; exact ⟨hs, hr, hn⟩
    · rw [if_neg h1]; exact ⟨hs, hr, hn⟩
  | stop i =>
    unfold stepR
    cases hm : st.main with
    | stopping todo =>
      simp only
      by_cases h1 : i ∈ todo <;> by_cases h2 : todo.erase i = [] <;> simp only [h1, h2, if_true, if_false]
      · exact ⟨hs, fun j hj => by simpa [acked] using hr j hj, hn⟩
      · exact ⟨hs, fun j hj => by simpa [acked] using hr j hj, hn⟩
      · exact ⟨hs, hr, hn⟩
      · exact ⟨hs, hr, hn⟩
    | waiting => simp only; exact ⟨hs, hr, hn⟩
    | exited k => simp only; exact ⟨hs, hr, hn⟩

theorem invRec_step (c : Cfg) (input : Bytes) (st : St) (e : Ev) (h : InvRec c input st) :
    InvRec c input (step c st e) := by
  unfold step
  by_cases hrun : st.running = false
  · rw [if_pos hrun]; exact h
  · rw [if_neg hrun]
    cases e with
    | tickAdd =>
      simp only
      by_cases h1 : c.throttle = true ∧ c.ticker = true ∧ st.pending = none
      · rw [if_pos h1]; exact ⟨h.split, h.recv, h.nodup⟩
      · rw [if_neg h1]; exact h
    | tickStore =>
      simp only
      cases hp : st.pending with
      | none => exact h
      | some n =>
        simp only
        by_cases h1 : n > c.rate
        · rw [if_pos h1]; exact ⟨h.split, h.recv, h.nodup⟩
        · rw [if_neg h1]; exact ⟨h.split, h.recv, h.nodup⟩
    | r e => exact invRec_stepR c input st e h

theorem invRec_run (c : Cfg) (input : Bytes) (s : List Ev) (st : St) (h : InvRec c input st) :
    InvRec c input (run c st s) := by
  induction s generalizing st with
  | nil => exact h
  | cons e es ih => exact ih _ (invRec_step c input st e h)


/-! ### ordering: on the EOF path every Stop comes after every acknowledgement -/

/-- every `stop` in the trace (newest first) is preceded by a history in which every producer acknowledged `P` -/
def StopsAfter (c : Cfg) (P : List Bytes) (tr : List Out) : Prop :=
  ∀ a b j, tr = a ++ Out.stop j :: b → ∀ i, i < c.n → acked i b = P

theorem stopsAfter_cons (c : Cfg) (P : List Bytes) (tr : List Out) (e : Out) (h : StopsAfter c P tr)
    (he : (∀ j, e ≠ Out.stop j) ∨ (∀ i, i < c.n → acked i tr = P)) : StopsAfter c P (e :: tr) := by
  intro a b j hab i hi
  cases a with
  | nil =>
    simp only [List.nil_append, List.cons.injEq] at hab
    rcases he with he | he
    · exact absurd hab.1 (he j)
    · rw [← hab.2]; exact he i hi
  | cons x a' =>
    simp only [List.cons_append, List.cons.injEq] at hab
    exact h a' b j hab.2 i hi

structure InvStop (c : Cfg) (input : Bytes) (st : St) : Prop where
  w : st.main = .waiting → st.stopped = []
  cl : st.termed = false → st.main ≠ .waiting → st.phase = .closed
  ex : st.termed = false → ∀ k, st.main = .exited k → k = 0
  ord : st.termed = false → StopsAfter c (published trimFixed c.d input) st.trace

theorem invStop_init (c : Cfg) (input : Bytes) : InvStop c input (init input) :=
  ⟨by simp [init], by simp [init], by simp [init], by
    intro _ a b j h; simp [init] at h⟩

theorem closed_all (c : Cfg) (input : Bytes) (st : St) (h : InvRec c input st) (hc : st.phase = .closed) :
    ∀ i, i < c.n → acked i st.trace = published trimFixed c.d input := by
  intro i hi
  have h1 := h.split
  have h2 := h.recv i hi
  rw [hc] at h1 h2
  simp only [rest, inflight, List.append_nil] at h1 h2
  rw [h1, h2]

theorem invStop_stepR (c : Cfg) (input : Bytes) (st : St) (e : REv) (hrec : InvRec c input st)
    (h : InvStop c input st) : InvStop c input (stepR c st e) := by
  obtain ⟨hw, hcl, hex, hord⟩ := h
  cases e with
  | load =>
    unfold stepR; simp only []
    by_cases h1 : c.throttle ∧ st.phase = .idle
    · rw [if_pos h1]
      refine ⟨hw, ?_, hex, hord⟩
      intro ht hm; have := hcl ht hm; rw [h1.2] at this; cases this
    · rw [if_neg h1]; exact ⟨hw, hcl, hex, hord⟩
  | read =>
    unfold stepR; simp only []
    by_cases h1 : (c.throttle ∧ st.phase = .loaded) ∨ (c.throttle = false ∧ st.phase = .idle)
    · have hnc : st.termed = false → st.main = .waiting := by
        intro ht; by_cases hm : st.main = .waiting
        · exact hm
        · have := hcl ht hm; rcases h1 with h1 | h1 <;> (rw [h1.2] at this; cases this)
      rw [if_pos h1]
      by_cases h2 : (trimFixed c.d (readBytes c.d st.unread).1).length = 0
      · rw [if_pos h2]; exact ⟨hw, fun ht hm => absurd (hnc ht) hm, hex, hord⟩
      · rw [if_neg h2]
        by_cases h3 : c.n = 0
        · rw [if_pos h3]; exact ⟨hw, fun ht hm => absurd (hnc ht) hm, hex, hord⟩
        · rw [if_neg h3]; exact ⟨hw, fun ht hm => absurd (hnc ht) hm, hex, hord⟩
    · rw [if_neg h1]; exact ⟨hw, hcl, hex, hord⟩
  | pub i =>
    unfold stepR; simp only []
    cases hp : st.phase with
    | publishing r todo eof =>
      simp only
      have hnc : st.termed = false → st.main = .waiting := by
        intro ht; by_cases hm : st.main = .waiting
        · exact hm
        · have := hcl ht hm; rw [hp] at this; cases this
      by_cases h1 : i ∈ todo
      · rw [if_pos h1]
        by_cases h2 : i ∈ st.stopped
        · rw [if_pos h2]
          refine ⟨by simp, ?_, ?_, ?_⟩ <;>
          · intro ht; have := hw (hnc ht); rw [this] at h2; cases h2
        · rw [if_neg h2]
          by_cases h3 : todo.erase i = []
          · rw [if_pos h3]
            exact ⟨hw, fun ht hm => absurd (hnc ht) hm, hex,
              fun ht => stopsAfter_cons c _ _ _ (hord ht) (Or.inl (by simp))⟩
          · rw [if_neg h3]
            exact ⟨hw, fun ht hm => absurd (hnc ht) hm, hex,
              fun ht => stopsAfter_cons c _ _ _ (hord ht) (Or.inl (by simp))⟩
      · rw [if_neg h1]; exact ⟨hw, by simpa [hp] using hcl, hex, hord⟩
    | idle => simp only; exact ⟨hw, by simpa [hp] using hcl, hex, hord⟩
    | loaded => simp only; exact ⟨hw, by simpa [hp] using hcl, hex, hord⟩
    | toDec eof => simp only; exact ⟨hw, by simpa [hp] using hcl, hex, hord⟩
    | closed => simp only; exact ⟨hw, by simpa [hp] using hcl, hex, hord⟩
  | dec =>
    unfold stepR; simp only []
    cases hp : st.phase with
    | toDec eof =>
      simp only
      have hnc : st.termed = false → st.main = .waiting := by
        intro ht; by_cases hm : st.main = .waiting
        · exact hm
        · have := hcl ht hm; rw [hp] at this; cases this
      exact ⟨hw, fun ht hm => absurd (hnc ht) hm, hex, hord⟩
    | idle => simp only; exact ⟨hw, by simpa [hp] using hcl, hex, hord⟩
    | loaded => simp only; exact ⟨hw, by simpa [hp] using hcl, hex, hord⟩
    | publishing r todo eof => simp only; exact ⟨hw, by simpa [hp] using hcl, hex, hord⟩
    | closed => simp only; exact ⟨hw, by simpa [hp] using hcl, hex, hord⟩
  | sigterm =>
    unfold stepR; simp only []
    by_cases h1 : st.main = .waiting
    · rw [if_pos h1]
      by_cases h2 : c.n = 0
      · rw [if_pos h2]; exact ⟨by simp, by simp, by simp, by simp⟩
      · rw [if_neg h2]; exact ⟨by simp, by simp, by simp, by simp⟩
    · rw [if_neg h1]; exact ⟨hw, hcl, hex, hord⟩
  | wake =>
    unfold stepR; simp only []
    by_cases h1 : st.main = .waiting ∧ st.phase = .closed
    · rw [if_pos h1]
      by_cases h2 : c.n = 0
      · rw [if_pos h2]
        exact ⟨by simp, fun _ _ => h1.2, by simp,
          fun ht => stopsAfter_cons c _ _ _ (hord ht) (Or.inl (by simp))⟩
      · rw [if_neg h2]; exact ⟨by simp, fun _ _ => h1.2, by simp, hord⟩
    · rw [if_neg h1]; exact ⟨hw, hcl, hex, hord⟩
  | stop i =>
    unfold stepR; simp only []
    cases hm : st.main with
    | stopping todo =>
      simp only
      have hc : st.termed = false → st.phase = .closed := fun ht => hcl ht (by simp [hm])
      by_cases h1 : i ∈ todo
      · rw [if_pos h1]
        by_cases h2 : todo.erase i = []
        · rw [if_pos h2]
          refine ⟨by simp, fun ht _ => hc ht, by simp, fun ht => ?_⟩
          exact stopsAfter_cons c _ _ _
            (stopsAfter_cons c _ _ _ (hord ht) (Or.inr (closed_all c input st hrec (hc ht)))) (Or.inl (by simp))
        · rw [if_neg h2]
          refine ⟨by simp, fun ht _ => hc ht, by simp, fun ht => ?_⟩
          exact stopsAfter_cons c _ _ _ (hord ht) (Or.inr (closed_all c input st hrec (hc ht)))
      · rw [if_neg h1]; exact ⟨hw, hcl, hex, hord⟩
    | waiting => simp only; exact ⟨hw, hcl, hex, hord⟩
    | exited k => simp only; exact ⟨hw, hcl, hex, hord⟩

theorem invStop_step (c : Cfg) (input : Bytes) (st : St) (e : Ev) (hrec : InvRec c input st)
    (h : InvStop c input st) : InvStop c input (step c st e) := by
  unfold step
  by_cases hrun : st.running = false
  · rw [if_pos hrun]; exact h
  · rw [if_neg hrun]
    cases e with
    | tickAdd =>
      simp only
      by_cases h1 : c.throttle = true ∧ c.ticker = true ∧ st.pending = none
      · rw [if_pos h1]; exact ⟨h.w, h.cl, h.ex, h.ord⟩
      · rw [if_neg h1]; exact h
    | tickStore =>
      simp only
      cases hp : st.pending with
      | none => exact h
      | some n =>
        simp only
        by_cases h1 : n > c.rate
        · rw [if_pos h1]; exact ⟨h.w, h.cl, h.ex, h.ord⟩
        · rw [if_neg h1]; exact ⟨h.w, h.cl, h.ex, h.ord⟩
    | r e => exact invStop_stepR c input st e hrec h

theorem invStop_run (c : Cfg) (input : Bytes) (s : List Ev) (st : St) (hrec : InvRec c input st)
    (h : InvStop c input st) : InvStop c input (run c st s) := by
  induction s generalizing st with
  | nil => exact h
  | cons e es ih => exact ih _ (invRec_step c input st e hrec) (invStop_step c input st e hrec h)

/-- main takes a signal only on a `sigterm` event -/
theorem termed_step (c : Cfg) (st : St) (e : Ev) (he : e ≠ .r .sigterm) (h : st.termed = false) :
    (step c st e).termed = false := by
  unfold step
  by_cases hrun : st.running = false
  · rw [if_pos hrun]; exact h
  · rw [if_neg hrun]
    cases e with
    | tickAdd => simp only; split <;> simp [h]
    | tickStore => simp only; split <;> (try split) <;> simp [h]
    | r e =>
      simp only
      cases e with
      | sigterm => exact absurd rfl he
      | load => unfold stepR; simp only []; split <;> simp [h]
      | read => unfold stepR; simp only []; split <;> (try split) <;> (try split) <;> simp [h]
      | pub i => unfold stepR; simp only []; split <;> (try split) <;> (try split) <;> (try split) <;> simp [h]
      | dec => unfold stepR; simp only []; split <;> simp [h]
      | wake => unfold stepR; simp only []; split <;> (try split) <;> simp [h]
      | stop i => unfold stepR; simp only []; split <;> (try split) <;> (try split) <;> simp [h]

theorem termed_run (c : Cfg) (s : List Ev) (st : St) (hs : Ev.r .sigterm ∉ s) (h : st.termed = false) :
    (run c st s).termed = false := by
  induction s generalizing st with
  | nil => exact h
  | cons e es ih =>
    simp only [List.mem_cons, not_or] at hs
    exact ih _ hs.2 (termed_step c st e (Ne.symm hs.1) h)


/-! ### the throttle: counting invariant for schedules whose ticks are atomic -/

def prog : Phase → Nat
  | .loaded => 1 | .publishing _ _ _ => 1 | .toDec _ => 1 | _ => 0

def recProg : Phase → Nat
  | .loaded => 1 | .publishing _ _ _ => 1 | _ => 0

structure InvCount (c : Cfg) (st : St) : Prop where
  pn : st.pending = none
  j : st.bal + (st.decs : Int) ≤ 1 + (st.ticks : Int)
  l : c.throttle = true → st.loads = st.decs + prog st.phase
  k : st.loads ≤ 1 + st.ticks + st.sleeps
  m : c.throttle = true → st.done.length + recProg st.phase ≤ st.loads

theorem invCount_init (c : Cfg) (input : Bytes) : InvCount c (init input) :=
  ⟨rfl, by simp [init], by simp [init, prog], by simp [init], by simp [init, recProg]⟩

theorem prog_afterPublish (c : Cfg) (eof : Bool) (h : c.throttle = true) :
    prog (afterPublish c eof) = 1 ∧ recProg (afterPublish c eof) = 0 := by
  simp [afterPublish, h, prog, recProg]

theorem invCount_stepR (c : Cfg) (st : St) (e : REv) (h : InvCount c st) : InvCount c (stepR c st e) := by
  obtain ⟨hpn, hj, hl, hk, hm⟩ := h
  cases e with
  | load =>
    unfold stepR; simp only []
    by_cases h1 : c.throttle ∧ st.phase = .idle
    · rw [if_pos h1]
      have hl' := hl h1.1; have hm' := hm h1.1
      rw [h1.2] at hl' hm'; simp only [prog, recProg] at hl' hm'
      refine ⟨hpn, hj, fun _ => by simp only [prog]; omega, ?_, fun _ => by simp only [recProg]; omega⟩
      by_cases hb : st.bal ≤ 0
      · simp only [hb, if_true]; omega
      · simp only [hb, if_false]; omega
    · rw [if_neg h1]; exact ⟨hpn, hj, hl, hk, hm⟩
  | read =>
    unfold stepR; simp only []
    by_cases h1 : (c.throttle ∧ st.phase = .loaded) ∨ (c.throttle = false ∧ st.phase = .idle)
    · rw [if_pos h1]
      have hph : c.throttle = true → st.phase = .loaded := by
        intro ht; rcases h1 with h1 | h1
        · exact h1.2
        · rw [ht] at h1; cases h1.1
      by_cases h2 : (trimFixed c.d (readBytes c.d st.unread).1).length = 0
      · rw [if_pos h2]
        refine ⟨hpn, hj, fun ht => ?_, hk, fun ht => ?_⟩
        · have := hl ht; rw [hph ht] at this; simp only [prog] at this
          simp only [(prog_afterPublish c _ ht).1]; omega
        · have := hm ht; rw [hph ht] at this; simp only [recProg] at this
          simp only [(prog_afterPublish c _ ht).2]; omega
      · rw [if_neg h2]
        by_cases h3 : c.n = 0
        · rw [if_pos h3]
          refine ⟨hpn, hj, fun ht => ?_, hk, fun ht => ?_⟩
          · have := hl ht; rw [hph ht] at this; simp only [prog] at this
            simp only [(prog_afterPublish c _ ht).1]; omega
          · have := hm ht; rw [hph ht] at this; simp only [recProg] at this
            simp only [(prog_afterPublish c _ ht).2, List.length_append, List.length_singleton]; omega
        · rw [if_neg h3]
          refine ⟨hpn, hj, fun ht => ?_, hk, fun ht => ?_⟩
          · have := hl ht; rw [hph ht] at this; simp only [prog] at this ⊢; omega
          · have := hm ht; rw [hph ht] at this; simp only [recProg] at this ⊢; omega
    · rw [if_neg h1]; exact ⟨hpn, hj, hl, hk, hm⟩
  | pub i =>
    unfold stepR; simp only []
    cases hp : st.phase with
    | publishing r todo eof =>
      simp only
      rw [hp] at hl hm; simp only [prog, recProg] at hl hm
      by_cases h1 : i ∈ todo
      · rw [if_pos h1]
        by_cases h2 : i ∈ st.stopped
        · rw [if_pos h2]; exact ⟨hpn, hj, by simpa [hp, prog] using hl, hk, by simpa [hp, recProg] using hm⟩
        · rw [if_neg h2]
          by_cases h3 : todo.erase i = []
          · rw [if_pos h3]
            refine ⟨hpn, hj, fun ht => ?_, hk, fun ht => ?_⟩
            · simp only [(prog_afterPublish c _ ht).1]; exact hl ht
            · have := hm ht
              simp only [(prog_afterPublish c _ ht).2, List.length_append, List.length_singleton]; omega
          · rw [if_neg h3]; exact ⟨hpn, hj, by simpa [prog] using hl, hk, by simpa [recProg] using hm⟩
      · rw [if_neg h1]; exact ⟨hpn, hj, by simpa [hp, prog] using hl, hk, by simpa [hp, recProg] using hm⟩
    | idle => simp only; exact ⟨hpn, hj, hl, hk, hm⟩
    | loaded => simp only; exact ⟨hpn, hj, hl, hk, hm⟩
    | toDec eof => simp only; exact ⟨hpn, hj, hl, hk, hm⟩
    | closed => simp only; exact ⟨hpn, hj, hl, hk, hm⟩
  | dec =>
    unfold stepR; simp only []
    cases hp : st.phase with
    | toDec eof =>
      simp only
      rw [hp] at hl hm; simp only [prog, recProg] at hl hm
      refine ⟨hpn, by simp only [Int.natCast_add]; omega, fun ht => ?_, hk, fun ht => ?_⟩
      · have := hl ht; by_cases he : eof <;> simp only [he, if_true, if_false, Bool.false_eq_true, prog] <;> omega
      · have := hm ht; by_cases he : eof <;> simp only [he, if_true, if_false, Bool.false_eq_true, recProg] <;> omega
    | idle => simp only; exact ⟨hpn, hj, hl, hk, hm⟩
    | loaded => simp only; exact ⟨hpn, hj, hl, hk, hm⟩
    | publishing r todo eof => simp only; exact ⟨hpn, hj, hl, hk, hm⟩
    | closed => simp only; exact ⟨hpn, hj, hl, hk, hm⟩
  | sigterm =>
    unfold stepR; simp only []
    split <;> (try split) <;> exact ⟨hpn, hj, hl, hk, hm⟩
  | wake =>
    unfold stepR; simp only []
    split <;> (try split) <;> exact ⟨hpn, hj, hl, hk, hm⟩
  | stop i =>
    unfold stepR; simp only []
    split <;> (try split) <;> (try split) <;> exact ⟨hpn, hj, hl, hk, hm⟩

/-- an atomic tick: Add immediately followed by the conditional Store -/
theorem invCount_tick (c : Cfg) (st : St) (h : InvCount c st) :
    InvCount c (step c (step c st .tickAdd) .tickStore) := by
  obtain ⟨hpn, hj, hl, hk, hm⟩ := h
  by_cases hrun : st.running = false
  · have h1 : step c st .tickAdd = st := by unfold step; rw [if_pos hrun]
    rw [h1]
    have h2 : step c st .tickStore = st := by unfold step; rw [if_pos hrun]
    rw [h2]; exact ⟨hpn, hj, hl, hk, hm⟩
  · by_cases h1 : c.throttle = true ∧ c.ticker = true ∧ st.pending = none
    · have e1 : step c st .tickAdd =
          { st with bal := st.bal + 1, pending := some (st.bal + 1), ticks := st.ticks + 1 } := by
        unfold step; rw [if_neg hrun]; simp only; rw [if_pos h1]
      rw [e1]
      unfold step
      have hrun' : ¬ ({ st with bal := st.bal + 1, pending := some (st.bal + 1), ticks := st.ticks + 1 } : St).running = false := by
        simpa [St.running] using hrun
      rw [if_neg hrun']
      simp only
      by_cases h2 : st.bal + 1 > c.rate
      · rw [if_pos h2]; exact ⟨rfl, by simp only [Int.natCast_add]; omega, hl, by simp only; omega, hm⟩
      · rw [if_neg h2]; exact ⟨rfl, by simp only [Int.natCast_add]; omega, hl, by simp only; omega, hm⟩
    · have e1 : step c st .tickAdd = st := by
        unfold step; rw [if_neg hrun]; simp only; rw [if_neg h1]
      rw [e1]
      unfold step; rw [if_neg hrun]; simp only [hpn]
      exact ⟨hpn, hj, hl, hk, hm⟩

theorem invCount_run (c : Cfg) (ms : List MEv) (st : St) (h : InvCount c st) :
    InvCount c (run c st (expand ms)) := by
  induction ms generalizing st with
  | nil => exact h
  | cons m ms ih =>
    cases m with
    | tick => simp only [expand, run]; exact ih _ (invCount_tick c st h)
    | r e =>
      simp only [expand, run]
      apply ih
      unfold step
      by_cases hrun : st.running = false
      · rw [if_pos hrun]; exact h
      · rw [if_neg hrun]; exact invCount_stepR c st e h

end Nsq.Proofs.ToNsqLoop
