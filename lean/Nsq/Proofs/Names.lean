import Nsq.Model.Names
import Nsq.Spec.ProtoSpec
/-! The name automaton accepts exactly the grammar `base(#ephemeral)?`, 1–64 bytes. -/
namespace Nsq.Proofs.Names
open Nsq.Model.Names Nsq.Spec.ProtoSpec

theorem run_dead (s : Bytes) : run .dead s = .dead := by
  induction s with
  | nil => rfl
  | cons c cs ih => simpa [run, step] using ih

theorem run_cons (q : Q) (c : UInt8) (cs : Bytes) : run q (c :: cs) = run (step q c) cs := rfl

theorem hash_not_nameChar : nameChar 35 = false := by decide

/-- From state `suf k` exactly the rest of `#ephemeral` is accepted. -/
theorem suf_accepts : ∀ (s : Bytes) (k : Nat), k ≤ ephSuffix.length →
    (accepting (run (.suf k) s) = true ↔ s = ephSuffix.drop k)
  | [], k, hk => by
    simp only [run, List.foldl_nil, accepting, beq_iff_eq]
    constructor
    · intro h; subst h; simp
    · intro h
      have : (ephSuffix.drop k).length = 0 := by rw [← h]; rfl
      simp [List.length_drop] at this
      omega
  | c :: cs, k, hk => by
    rw [run_cons]
    by_cases hc : ephSuffix[k]? = some c
    · have hklt : k < ephSuffix.length := by
        rcases Nat.lt_or_ge k ephSuffix.length with h | h
        · exact h
        · simp [List.getElem?_eq_none_iff.mpr h] at hc
      have ih := suf_accepts cs (k + 1) hklt
      simp only [step, hc, if_true]
      rw [ih]
      have hd : ephSuffix.drop k = ephSuffix[k] :: ephSuffix.drop (k + 1) := List.drop_eq_getElem_cons hklt
      have hget : ephSuffix[k] = c := by
        have := List.getElem?_eq_getElem hklt
        rw [this] at hc
        exact Option.some.inj hc
      rw [hd, hget]
      simp
    · simp only [step, hc, if_false, run_dead, accepting]
      constructor
      · intro h; simp at h
      · intro h
        exfalso
        apply hc
        rcases Nat.lt_or_ge k ephSuffix.length with hlt | hge
        · have hd : ephSuffix.drop k = ephSuffix[k] :: ephSuffix.drop (k + 1) := List.drop_eq_getElem_cons hlt
          rw [hd] at h
          have : c = ephSuffix[k] := by injection h
          rw [List.getElem?_eq_getElem hlt, this]
        · have : ephSuffix.drop k = [] := List.drop_eq_nil_of_le hge
          rw [this] at h
          simp at h

/-- Tail language of state `base`: more class bytes, then nothing or `#ephemeral`. -/
def Tail (s : Bytes) : Prop :=
  ∃ cs suffix, s = cs ++ suffix ∧ (∀ c ∈ cs, nameChar c = true) ∧ (suffix = [] ∨ suffix = ephSuffix)

theorem base_accepts : ∀ (s : Bytes), accepting (run .base s) = true ↔ Tail s
  | [] => by
    simp only [run, List.foldl_nil, accepting, true_iff]
    exact ⟨[], [], rfl, by simp, Or.inl rfl⟩
  | c :: s' => by
    rw [run_cons]
    by_cases hc : nameChar c = true
    · simp only [step, hc, if_true]
      rw [base_accepts s']
      constructor
      · rintro ⟨cs, suf, rfl, hcs, hsuf⟩
        refine ⟨c :: cs, suf, rfl, ?_, hsuf⟩
        intro x hx
        rcases List.mem_cons.mp hx with rfl | hx
        · exact hc
        · exact hcs x hx
      · rintro ⟨cs, suf, heq, hcs, hsuf⟩
        cases cs with
        | nil =>
          simp at heq
          rcases hsuf with rfl | rfl
          · simp at heq
          · simp [ephSuffix] at heq
            obtain ⟨rfl, _⟩ := heq
            rw [hash_not_nameChar] at hc
            exact absurd hc (by simp)
        | cons x xs =>
          simp at heq
          obtain ⟨rfl, rfl⟩ := heq
          exact ⟨xs, suf, rfl, fun y hy => hcs y (List.mem_cons_of_mem _ hy), hsuf⟩
    · by_cases h35 : c = 35
      · subst h35
        have hstep : step .base 35 = .suf 1 := by decide
        rw [hstep, suf_accepts s' 1 (by decide)]
        constructor
        · intro h
          refine ⟨[], 35 :: s', rfl, by simp, Or.inr ?_⟩
          rw [h]; rfl
        · rintro ⟨cs, suf, heq, hcs, hsuf⟩
          cases cs with
          | nil =>
            simp at heq
            rcases hsuf with rfl | rfl
            · simp at heq
            · simp [ephSuffix] at heq
              rw [heq]; rfl
          | cons x xs =>
            simp at heq
            obtain ⟨rfl, _⟩ := heq
            have := hcs 35 (List.mem_cons_self)
            rw [hash_not_nameChar] at this
            exact absurd this (by simp)
      · have hc' : nameChar c = false := by simpa using hc
        have hstep : step .base c = .dead := by simp [step, hc', h35]
        rw [hstep, run_dead]
        constructor
        · intro h; simp [accepting] at h
        · rintro ⟨cs, suf, heq, hcs, hsuf⟩
          exfalso
          cases cs with
          | nil =>
            simp at heq
            rcases hsuf with rfl | rfl
            · simp at heq
            · simp [ephSuffix] at heq
              exact h35 heq.1
          | cons x xs =>
            simp at heq
            obtain ⟨rfl, _⟩ := heq
            exact hc (hcs c (List.mem_cons_self))

/-- The automaton accepts exactly `base` or `base#ephemeral` with a non-empty class-only base. -/
theorem regexMatch_iff (s : Bytes) :
    regexMatch s = true ↔ ∃ base, IsBase base ∧ (s = base ∨ s = base ++ ephSuffix) := by
  unfold regexMatch
  cases s with
  | nil =>
    simp only [run, List.foldl_nil, accepting]
    constructor
    · intro h; simp at h
    · rintro ⟨base, ⟨hne, _⟩, h | h⟩
      · exact absurd h.symm hne
      · have : base = [] := by
          cases base with
          | nil => rfl
          | cons x xs => simp at h
        exact absurd this hne
  | cons c s' =>
    rw [run_cons]
    by_cases hc : nameChar c = true
    · simp only [step, hc, if_true]
      rw [base_accepts s']
      constructor
      · rintro ⟨cs, suf, rfl, hcs, hsuf⟩
        refine ⟨c :: cs, ⟨by simp, ?_⟩, ?_⟩
        · intro x hx
          rcases List.mem_cons.mp hx with rfl | hx
          · exact hc
          · exact hcs x hx
        · rcases hsuf with rfl | rfl
          · left; simp
          · right; simp
      · rintro ⟨base, ⟨hne, hb⟩, h | h⟩
        · cases base with
          | nil => exact absurd rfl hne
          | cons x xs =>
            simp at h
            obtain ⟨rfl, rfl⟩ := h
            exact ⟨s', [], by simp, fun y hy => hb y (List.mem_cons_of_mem _ hy), Or.inl rfl⟩
        · cases base with
          | nil => exact absurd rfl hne
          | cons x xs =>
            simp at h
            obtain ⟨rfl, rfl⟩ := h
            exact ⟨xs, ephSuffix, rfl, fun y hy => hb y (List.mem_cons_of_mem _ hy), Or.inr rfl⟩
    · have hc' : nameChar c = false := by simpa using hc
      have hstep : step .start c = .dead := by simp [step, hc']
      rw [hstep, run_dead]
      constructor
      · intro h; simp [accepting] at h
      · rintro ⟨base, ⟨hne, hb⟩, h | h⟩
        · cases base with
          | nil => exact absurd rfl hne
          | cons x xs =>
            simp at h
            obtain ⟨rfl, _⟩ := h
            exact absurd (hb c (List.mem_cons_self)) hc
        · cases base with
          | nil => exact absurd rfl hne
          | cons x xs =>
            simp at h
            obtain ⟨rfl, _⟩ := h
            exact absurd (hb c (List.mem_cons_self)) hc

theorem isValidName_iff (s : Bytes) : isValidName s = true ↔ Grammatical s := by
  unfold isValidName Grammatical
  by_cases h : s.length > 64 ∨ s.length < 1
  · have : (decide (s.length > 64) || decide (s.length < 1)) = true := by simpa using h
    simp only [this, if_true]
    constructor
    · intro h'; simp at h'
    · rintro ⟨h1, h2, _⟩; omega
  · have : (decide (s.length > 64) || decide (s.length < 1)) = false := by
      simp only [Bool.or_eq_false_iff, decide_eq_false_iff_not]
      exact ⟨fun h' => h (Or.inl h'), fun h' => h (Or.inr h')⟩
    simp only [this, Bool.false_eq_true, if_false]
    rw [regexMatch_iff]
    constructor
    · intro h'; exact ⟨by omega, by omega, h'⟩
    · rintro ⟨_, _, h'⟩; exact h'

end Nsq.Proofs.Names
