import Nsq.Proofs.ToFileNoOverwrite
/-!
Line-level invariant of the `ToFile` router model (audit round 7, item C5; helper lemmas for
`Nsq.Props.C19Lines`).

`Nsq.Proofs.ToFile.Inv` only says that `body ++ "\n"` of a finished message is an *infix* of the
durable bytes of some file.  Here every *occurrence* in `finished` (and in `pending`) is assigned a
ghost record `Rec = (message, path, offset)`: the file at `path` holds `line m` at `offset`, the
bytes before the offset are empty or end in "\n" (the record starts a line), finished records lie in
the durable prefix of `data`, and the byte ranges of records in the same file are pairwise disjoint.
Renames re-path the records.  The statement needs the file behind `f.out` to be empty or
"\n"-terminated whenever a record is appended (`NlOk`): guaranteed by O_EXCL, by fix F47
(`Cfg.sealsTail`; with its follow-up F47b, `Cfg.sealReadWarns`, only while the last byte of the re-opened file can be
read: `ReadsOk`), or by the hypothesis that every pre-existing / foreign file is "\n"-terminated.
-/
namespace Nsq.Proofs.ToFileLines
open Nsq.Model.ToFile Nsq.Proofs.ToFile

/-- empty, or the last byte is "\n" -/
def nlEnded (b : Bytes) : Prop := b = [] ∨ ∃ a, b = a ++ [10]

theorem nlEndedB_iff (b : Bytes) : nlEndedB b = true ↔ nlEnded b := by
  unfold nlEndedB nlEnded
  cases b with
  | nil => simp
  | cons x xs =>
    simp only [List.isEmpty_cons, Bool.false_or, beq_iff_eq, reduceCtorEq, false_or]
    exact List.getLast?_eq_some_iff

theorem nlEnded_nil : nlEnded [] := Or.inl rfl

theorem nlEnded_append {a b : Bytes} (hb : nlEnded b) (ha : nlEnded a) : nlEnded (a ++ b) := by
  cases hb with
  | inl h => subst h; simpa using ha
  | inr h => obtain ⟨x, hx⟩ := h; exact Or.inr ⟨a ++ x, by rw [hx]; simp⟩

theorem nlEnded_append_nl (a : Bytes) {b : Bytes} (hb : b ≠ []) (h : nlEnded b) : nlEnded (a ++ b) := by
  cases h with
  | inl h => exact absurd h hb
  | inr h => obtain ⟨x, hx⟩ := h; exact Or.inr ⟨a ++ x, by rw [hx]; simp⟩

theorem nlEnded_line (a : Bytes) (m : Msg) : nlEnded (a ++ line m) :=
  Or.inr ⟨a ++ m.body, by simp [line]⟩

/-- a ghost record: where the line of one occurrence of a message lives -/
structure Rec where
  m    : Msg
  path : Path
  off  : Nat

/-- `d` holds the record of `m` at offset `o`, and the record starts a line -/
def RecAt (d : Bytes) (o : Nat) (m : Msg) : Prop := ∃ a b, d = a ++ line m ++ b ∧ a.length = o ∧ nlEnded a

theorem RecAt_mono {d x : Bytes} {o : Nat} {m : Msg} (h : RecAt d o m) : RecAt (d ++ x) o m := by
  obtain ⟨a, b, hd, ho, hn⟩ := h
  exact ⟨a, b ++ x, by rw [hd]; simp, ho, hn⟩

theorem RecAt_bound {d : Bytes} {o : Nat} {m : Msg} (h : RecAt d o m) : o + (line m).length ≤ d.length := by
  obtain ⟨a, b, hd, ho, _⟩ := h
  rw [hd, ← ho]; simp

/-- the bytes a record written through the open descriptor is visible in (gzip: incl. the open member) -/
def wv (gz : Bool) (f : File) : Bytes := if gz then f.content else f.data

theorem wv_le_content (gz : Bool) (f : File) : (wv gz f).length ≤ f.content.length := by
  unfold wv File.content; cases gz <;> simp

/-- the file only grew: `FileLe`, and the written view is extended -/
def FLe (gz : Bool) (f g : File) : Prop := FileLe f g ∧ ∃ y, wv gz g = wv gz f ++ y

theorem FLe_refl (gz : Bool) (f : File) : FLe gz f f := ⟨⟨⟨[], by simp⟩, Nat.le_refl _⟩, [], by simp⟩

theorem FLe_write (gz : Bool) (p : Bytes) (f : File) : FLe gz f (fileWrite gz p f) := by
  refine ⟨fileWrite_le gz p f, ?_⟩
  unfold wv fileWrite File.content
  cases gz
  · exact ⟨f.tail ++ p, by simp⟩
  · exact ⟨p, by simp⟩

/-- an O_APPEND write of another process to a plain file -/
theorem FLe_writeFalse (gz : Bool) (hgz : gz = false) (p : Bytes) (f : File) : FLe gz f (fileWrite false p f) := by
  subst hgz; exact FLe_write false p f

theorem FLe_gzClose (gz : Bool) (f : File) : FLe gz f (fileGzClose f) := by
  refine ⟨fileGzClose_le f, ?_⟩
  unfold wv fileGzClose File.content
  cases gz
  · exact ⟨f.tail, by simp⟩
  · exact ⟨[], by simp⟩

theorem FLe_fsync (gz : Bool) (f : File) : FLe gz f (fileFsync f) := by
  refine ⟨fileFsync_le f, ?_⟩
  unfold wv fileFsync File.content
  cases gz <;> exact ⟨[], by simp⟩

theorem FileLe_trans' {a b d : File} (h1 : FileLe a b) (h2 : FileLe b d) : FileLe a d := by
  obtain ⟨⟨x, hx⟩, l1⟩ := h1
  obtain ⟨⟨y, hy⟩, l2⟩ := h2
  exact ⟨⟨x ++ y, by rw [hy, hx]; simp⟩, Nat.le_trans l1 l2⟩

/-- a finished record: line-aligned in the durable prefix of the decodable bytes of its file -/
def FinOk (fs : FS) (r : Rec) : Prop :=
  ∃ f, fs.get r.path = some f ∧ RecAt f.data r.off r.m ∧ r.off + (line r.m).length ≤ f.durable

/-- a record written through the open descriptor, not yet fsynced -/
def OpenOk (gz : Bool) (st : St) (r : Rec) : Prop :=
  st.hasOut = true ∧ st.outOpen = true ∧ r.path = st.outPath ∧
    ∃ f, st.fs.get st.outPath = some f ∧ RecAt (wv gz f) r.off r.m

/-- byte ranges of two records do not overlap (records in different files never do) -/
def Disj (a b : Rec) : Prop :=
  a.path = b.path → a.off + (line a.m).length ≤ b.off ∨ b.off + (line b.m).length ≤ a.off

theorem Disj_symm {a b : Rec} (h : Disj a b) : Disj b a := fun e => (h e.symm).symm

theorem FinOk_le {gz : Bool} {f g : File} {r : Rec} (hle : FLe gz f g)
    (h : RecAt f.data r.off r.m ∧ r.off + (line r.m).length ≤ f.durable) :
    RecAt g.data r.off r.m ∧ r.off + (line r.m).length ≤ g.durable := by
  obtain ⟨⟨⟨x, hx⟩, hd⟩, _⟩ := hle
  exact ⟨by rw [hx]; exact RecAt_mono h.1, Nat.le_trans h.2 hd⟩

/-- every file is still there and only grew -/
def FSLe (gz : Bool) (fs fs' : FS) : Prop := ∀ p f, fs.get p = some f → ∃ f', fs'.get p = some f' ∧ FLe gz f f'

theorem FSLe_set {gz : Bool} {fs : FS} {p : Path} {f f' : File} (hg : fs.get p = some f) (hle : FLe gz f f') :
    FSLe gz fs (fs.set p f') := by
  intro q g hq
  by_cases e : q = p
  · subst e; rw [hg] at hq; cases hq; exact ⟨f', by simp, hle⟩
  · exact ⟨g, by rw [get_set_ne _ _ _ _ e]; exact hq, FLe_refl gz g⟩

theorem FSLe_new {gz : Bool} {fs : FS} {p : Path} (f' : File) (hg : fs.get p = none) : FSLe gz fs (fs.set p f') := by
  intro q g hq
  have e : q ≠ p := by intro e; subst e; rw [hg] at hq; cases hq
  exact ⟨g, by rw [get_set_ne _ _ _ _ e]; exact hq, FLe_refl gz g⟩

theorem FinOk_mono {gz : Bool} {fs fs' : FS} {r : Rec} (hle : FSLe gz fs fs') (h : FinOk fs r) : FinOk fs' r := by
  obtain ⟨f, hf, h1⟩ := h
  obtain ⟨f', hf', hl⟩ := hle _ _ hf
  exact ⟨f', hf', (FinOk_le hl h1).1, (FinOk_le hl h1).2⟩

theorem OpenOk_mono {gz : Bool} {st s' : St} {r : Rec} (hle : FSLe gz st.fs s'.fs) (h1 : s'.hasOut = st.hasOut)
    (h2 : s'.outOpen = st.outOpen) (h3 : s'.outPath = st.outPath) (h : OpenOk gz st r) : OpenOk gz s' r := by
  obtain ⟨a, b, e, f, hf, hr⟩ := h
  obtain ⟨f', hf', hl⟩ := hle _ _ hf
  obtain ⟨y, hy⟩ := hl.2
  exact ⟨by rw [h1]; exact a, by rw [h2]; exact b, by rw [h3]; exact e, f', by rw [h3]; exact hf',
    by rw [hy]; exact RecAt_mono hr⟩

/-! ### the invariant -/

/-- the ghost records `rf` (for `finished`) and `rp` (for `pending`) account for every occurrence -/
structure Core (c : Cfg) (st : St) (rf rp : List Rec) : Prop where
  mf : rf.map (·.m) = st.finished
  mp : st.status = .running → rp.map (·.m) = st.pending
  vf : ∀ r ∈ rf, FinOk st.fs r
  vp : st.status = .running → ∀ r ∈ rp, FinOk st.fs r ∨ OpenOk c.gzip st r
  dj : (rp ++ rf).Pairwise Disj
  wd : c.workDir = true → st.hasOut = true → st.outPath.out = false
  /-- the open descriptor refers to a file that exists -/
  ex : st.status = .running → st.hasOut = true → st.outOpen = true → ∃ f, st.fs.get st.outPath = some f

/-- at a quiescent point the file behind the open descriptor (and, in mode `nlAll`, every file) is empty or ends
in "\n": the next record appended starts a line -/
def NlOk (nlAll : Bool) (st : St) : Prop :=
  st.status = .running → ∀ p f, st.fs.get p = some f →
    (nlAll = true ∨ (st.hasOut = true ∧ st.outOpen = true ∧ p = st.outPath)) → nlEnded f.content

/-- every pending record is already durable (what `Sync()` / `Close()` establish) -/
def ADur (st : St) (rp : List Rec) : Prop := st.status = .running → ∀ r ∈ rp, FinOk st.fs r

theorem Core_dead {c : Cfg} {st s' : St} {rf rp : List Rec} (h : Core c st rf rp) (hd : Dead st s') :
    Core c s' rf rp := by
  obtain ⟨hs, hfs, hfin, hho, hop⟩ := hd
  exact ⟨by rw [hfin]; exact h.mf, fun hr => absurd hr hs, by rw [hfs]; exact h.vf, fun hr => absurd hr hs, h.dj,
    by rw [hho, hop]; exact h.wd, fun hr => absurd hr hs⟩

theorem NlOk_dead {nlAll : Bool} {st s' : St} (hd : Dead st s') : NlOk nlAll s' := fun hr => absurd hr hd.1
theorem ADur_dead {st s' : St} {rp : List Rec} (hd : Dead st s') : ADur s' rp := fun hr => absurd hr hd.1

/-- the file system only grew, the router fields are unchanged -/
theorem Core_grow {c : Cfg} {st s' : St} {rf rp : List Rec} (h : Core c st rf rp) (hle : FSLe c.gzip st.fs s'.fs)
    (e2 : s'.finished = st.finished) (e3 : s'.pending = st.pending) (e4 : s'.status = st.status)
    (e5 : s'.hasOut = st.hasOut) (e6 : s'.outOpen = st.outOpen) (e7 : s'.outPath = st.outPath) : Core c s' rf rp := by
  refine ⟨by rw [e2]; exact h.mf, fun hr => by rw [e3]; exact h.mp (e4 ▸ hr), fun r hr => FinOk_mono hle (h.vf r hr),
    ?_, h.dj, by rw [e5, e7]; exact h.wd, ?_⟩
  · intro hr r hm
    cases h.vp (e4 ▸ hr) r hm with
    | inl hf => exact Or.inl (FinOk_mono hle hf)
    | inr ho => exact Or.inr (OpenOk_mono hle e5 e6 e7 ho)
  · intro hr hho hoo
    obtain ⟨f, hf⟩ := h.ex (e4 ▸ hr) (e5 ▸ hho) (e6 ▸ hoo)
    obtain ⟨f', hf', _⟩ := hle _ _ hf
    exact ⟨f', by rw [e7]; exact hf'⟩

theorem ADur_grow {gz : Bool} {st s' : St} {rp : List Rec} (h : ADur st rp) (hle : FSLe gz st.fs s'.fs)
    (e4 : s'.status = st.status) : ADur s' rp :=
  fun hr r hm => FinOk_mono hle (h (e4 ▸ hr) r hm)

/-! ### primitives on the open file -/

theorem core_onOut {c : Cfg} (io : Nat → Fault) (st : St) (g : File → File) (hle : ∀ f, FLe c.gzip f (g f))
    {rf rp : List Rec} (h : Core c st rf rp) : Core c (onOut io st g) rf rp := by
  apply onOut_elim (P := fun s => Core c s rf rp)
  · intro s' hd; exact Core_dead h hd
  · intro f _ _ _ hg
    exact Core_grow h (FSLe_set hg (hle f)) rfl rfl rfl rfl rfl rfl

theorem adur_onOut {gz : Bool} (io : Nat → Fault) (st : St) (g : File → File) (hle : ∀ f, FLe gz f (g f))
    {rp : List Rec} (h : ADur st rp) : ADur (onOut io st g) rp := by
  apply onOut_elim (P := fun s => ADur s rp)
  · intro s' hd; exact ADur_dead hd
  · intro f _ _ _ hg
    exact ADur_grow h (FSLe_set hg (hle f)) rfl

/-- a call that does not change what was written (fsync, gzip member close) -/
theorem nlok_onOut {nlAll : Bool} (io : Nat → Fault) (st : St) (g : File → File) (hc : ∀ f, (g f).content = f.content)
    (h : NlOk nlAll st) : NlOk nlAll (onOut io st g) := by
  apply onOut_elim (P := fun s => NlOk nlAll s)
  · intro s' hd; exact NlOk_dead hd
  · intro f hr _ _ hg _ p f' hp hpre
    by_cases e : p = st.outPath
    · subst e
      have : f' = g f := by simpa using hp.symm
      rw [this, hc]; exact h hr _ f hg hpre
    · exact h hr p f' (by rw [← hp]; exact (get_set_ne _ _ _ _ e).symm) hpre

theorem content_write (gz : Bool) (p : Bytes) (f : File) : (fileWrite gz p f).content = f.content ++ p := by
  unfold fileWrite File.content; cases gz <;> simp

theorem wv_write (gz : Bool) (p : Bytes) (f : File) : wv gz (fileWrite gz p f) = f.content ++ p := by
  unfold wv fileWrite File.content; cases gz <;> simp

theorem content_gzClose (f : File) : (fileGzClose f).content = f.content := by
  unfold fileGzClose File.content; simp

theorem content_fsync (f : File) : (fileFsync f).content = f.content := rfl

/-- after `Sync()` a record visible through the descriptor is durable -/
theorem sync_fin (gz : Bool) (f : File) (o : Nat) (m : Msg) (h : RecAt (wv gz f) o m) :
    RecAt (fileFsync (if gz then fileGzClose f else f)).data o m ∧
      o + (line m).length ≤ (fileFsync (if gz then fileGzClose f else f)).durable := by
  have hb := RecAt_bound h
  cases gz
  · simp only [wv, Bool.false_eq_true, if_false] at h hb ⊢
    exact ⟨h, Nat.le_trans hb (Nat.le_max_right ..)⟩
  · simp only [wv, if_true, File.content] at h hb ⊢
    refine ⟨by simpa [fileFsync, fileGzClose] using h, Nat.le_trans hb ?_⟩
    simp only [fileFsync, fileGzClose]
    exact Nat.le_max_right ..

theorem syncOut_running (c : Cfg) (io : Nat → Fault) (st : St) (h : (syncOut c io st).status = .running) :
    ∃ f, st.status = .running ∧ st.hasOut = true ∧ st.outOpen = true ∧ st.fs.get st.outPath = some f ∧
      (syncOut c io st).fs.get st.outPath = some (fileFsync (if c.gzip then fileGzClose f else f)) ∧
      (syncOut c io st).outPath = st.outPath := by
  unfold syncOut at h ⊢
  cases hgz : c.gzip
  · simp only [hgz, Bool.false_eq_true, if_false] at h ⊢
    obtain ⟨f, hr, hho, hoo, hg, he⟩ := onOut_running io st _ h
    exact ⟨f, hr, hho, hoo, hg, by rw [he]; simp, by rw [he]⟩
  · simp only [hgz, if_true] at h ⊢
    obtain ⟨f1, hr1, hho1, hoo1, hg1, he1⟩ := onOut_running io _ _ h
    obtain ⟨f, hr, hho, hoo, hg, he⟩ := onOut_running io st _ hr1
    have hf1 : f1 = fileGzClose f := by rw [he] at hg1; simpa using hg1.symm
    refine ⟨f, hr, hho, hoo, hg, ?_, ?_⟩
    · rw [he1, he, hf1]; simp
    · rw [he1, he]

/-- `Sync()` (also the first half of `Close()`) -/
theorem lines_syncOut {c : Cfg} {nlAll : Bool} (io : Nat → Fault) (st : St) {rf rp : List Rec}
    (h : Core c st rf rp) (hn : NlOk nlAll st) :
    Core c (syncOut c io st) rf rp ∧ NlOk nlAll (syncOut c io st) ∧ ADur (syncOut c io st) rp := by
  have hcore : Core c (syncOut c io st) rf rp := by
    unfold syncOut
    cases c.gzip
    · exact core_onOut io st _ (FLe_fsync _) h
    · exact core_onOut io _ _ (FLe_fsync _) (core_onOut io st _ (FLe_gzClose _) h)
  have hnl : NlOk nlAll (syncOut c io st) := by
    unfold syncOut
    cases c.gzip
    · exact nlok_onOut io st _ content_fsync hn
    · exact nlok_onOut io _ _ content_fsync (nlok_onOut io st _ content_gzClose hn)
  refine ⟨hcore, hnl, ?_⟩
  intro hr r hm
  obtain ⟨f, hr0, _, _, hg, hg', hop⟩ := syncOut_running c io st hr
  cases hcore.vp hr r hm with
  | inl hf => exact hf
  | inr ho =>
    obtain ⟨_, _, hpath, f1, hf1, hrec⟩ := ho
    -- the record was visible through the descriptor before the sync as well
    cases h.vp hr0 r hm with
    | inl hf0 =>
      obtain ⟨g0, hg0, hrec0⟩ := hf0
      -- durable already; only grew
      cases hcore.vp hr r hm with
      | inl hf => exact hf
      | inr _ =>
        have hp0 : r.path = st.outPath := by rw [hpath, hop]
        rw [hp0, hg] at hg0; cases hg0
        refine ⟨_, by rw [hp0]; exact hg', ?_⟩
        have hfl : FLe c.gzip f (fileFsync (if c.gzip then fileGzClose f else f)) := by
          cases c.gzip
          · exact FLe_fsync _ _
          · exact ⟨FileLe_trans' (FLe_gzClose true f).1 (FLe_fsync true _).1, by
              obtain ⟨y, hy⟩ := (FLe_gzClose true f).2
              obtain ⟨z, hz⟩ := (FLe_fsync true (fileGzClose f)).2
              exact ⟨y ++ z, by simp only [if_true] at *; rw [hz, hy]; simp⟩⟩
        exact FinOk_le hfl hrec0
    | inr ho0 =>
      obtain ⟨_, _, hpath0, f0, hf0, hrec0⟩ := ho0
      rw [hg] at hf0; cases hf0
      exact ⟨_, by rw [hpath0]; exact hg', sync_fin c.gzip f r.off r.m hrec0⟩

/-! ### FIN loop, close, rename -/

/-- the three parts of the invariant after a `Sync()`/`Close()`, for some ghost records -/
def LID (nlAll : Bool) (c : Cfg) (st : St) : Prop := ∃ rf rp, Core c st rf rp ∧ NlOk nlAll st ∧ ADur st rp

/-- the invariant at a quiescent point -/
def LI (nlAll : Bool) (c : Cfg) (st : St) : Prop := ∃ rf rp, Core c st rf rp ∧ NlOk nlAll st

theorem LID.li {nlAll : Bool} {c : Cfg} {st : St} (h : LID nlAll c st) : LI nlAll c st := by
  obtain ⟨rf, rp, h1, h2, _⟩ := h; exact ⟨rf, rp, h1, h2⟩

theorem lid_dead {nlAll : Bool} {c : Cfg} {st s' : St} {rf rp : List Rec} (h : Core c st rf rp) (hd : Dead st s') :
    LID nlAll c s' := ⟨rf, rp, Core_dead h hd, NlOk_dead hd, ADur_dead hd⟩

theorem lines_finList {c : Cfg} {nlAll : Bool} (io : Nat → Fault) (l : List Msg) (st : St) (rf rp : List Rec)
    (h : Core c st rf rp) (hn : NlOk nlAll st) (ha : ADur st rp) (hp : st.status = .running → st.pending = l) :
    LID nlAll c (finList io st l) := by
  induction l generalizing st rf rp with
  | nil => exact ⟨rf, rp, h, hn, ha⟩
  | cons m rest ih =>
    unfold finList
    apply guard_elim (P := fun s => LID nlAll c (finList io s rest))
    · intro s' hd
      rw [finList_dead io rest s' hd.1]
      exact lid_dead h hd
    · intro hr
      have hmp := h.mp hr
      rw [hp hr] at hmp
      cases rp with
      | nil => simp at hmp
      | cons r rp' =>
        simp only [List.map_cons, List.cons.injEq] at hmp
        apply ih _ (r :: rf) rp'
        · refine ⟨by simp [h.mf, hmp.1], fun _ => hmp.2, ?_, ?_, ?_, h.wd, fun _ => h.ex hr⟩
          · intro x hx
            cases hx with
            | head => exact ha hr r (List.mem_cons_self ..)
            | tail _ hx => exact h.vf x hx
          · intro _ x hx; exact Or.inl (ha hr x (List.mem_cons_of_mem _ hx))
          · have hd := h.dj
            exact (List.Perm.pairwise_iff (fun {x y} => @Disj_symm x y) (List.perm_middle (a := r) (l₁ := rp') (l₂ := rf))).mpr hd
        · intro _ p f hg hpre; exact hn hr p f hg hpre
        · intro _ x hx; exact ha hr x (List.mem_cons_of_mem _ hx)
        · intro _; rfl

theorem lines_syncBlock {c : Cfg} {nlAll : Bool} (io : Nat → Fault) (st : St) (h : LI nlAll c st) :
    LI nlAll c (syncBlock c io st) := by
  unfold syncBlock
  by_cases hp : st.pending = []
  · rw [if_pos hp]; exact h
  · rw [if_neg hp]
    obtain ⟨rf, rp, h1, h2⟩ := h
    obtain ⟨k1, k2, k3⟩ := lines_syncOut io st h1 h2
    exact (lines_finList io _ _ rf rp k1 k2 k3 (fun _ => rfl)).li

theorem closeFd_closed (io : Nat → Fault) (st : St) (hr : (closeFd io st).status = .running) :
    (closeFd io st).outOpen = false := by
  revert hr
  unfold closeFd
  apply guard_elim (P := fun s => s.status = .running → s.outOpen = false)
  · intro s' hd hrun; exact absurd hrun hd.1
  · intro _
    by_cases hc : st.hasOut = false ∨ st.outOpen = false
    · rw [if_pos hc]; intro hrun; simp [fatal] at hrun
    · rw [if_neg hc]; intro _; rfl

theorem lines_closeFd {c : Cfg} {nlAll : Bool} (io : Nat → Fault) (st : St) {rf rp : List Rec}
    (h : Core c st rf rp) (hn : NlOk nlAll st) (ha : ADur st rp) :
    Core c (closeFd io st) rf rp ∧ NlOk nlAll (closeFd io st) ∧ ADur (closeFd io st) rp := by
  unfold closeFd
  apply guard_elim (P := fun s => Core c s rf rp ∧ NlOk nlAll s ∧ ADur s rp)
  · intro s' hd; exact ⟨Core_dead h hd, NlOk_dead hd, ADur_dead hd⟩
  · intro hr
    by_cases h1 : st.hasOut = false ∨ st.outOpen = false
    · rw [if_pos h1]
      have hd : Dead st (fatal { st with tick := st.tick + 1 }) := ⟨by simp [fatal], rfl, rfl, rfl, rfl⟩
      exact ⟨Core_dead h hd, NlOk_dead hd, ADur_dead hd⟩
    · rw [if_neg h1]
      refine ⟨⟨h.mf, h.mp, h.vf, fun _ r hm => Or.inl (ha hr r hm), h.dj, h.wd, fun _ _ hh => by simp at hh⟩, ?_,
        fun _ r hm => ha hr r hm⟩
      intro _ p f hg hpre
      cases hpre with
      | inl hall => exact hn hr p f hg (Or.inl hall)
      | inr ho => simp at ho

theorem lines_clearOut {c : Cfg} {nlAll : Bool} (st : St) {rf rp : List Rec}
    (h : Core c st rf rp) (hn : NlOk nlAll st) (ha : ADur st rp) :
    Core c (clearOut st) rf rp ∧ NlOk nlAll (clearOut st) ∧ ADur (clearOut st) rp := by
  unfold clearOut
  by_cases h1 : st.status ≠ .running
  · rw [if_pos h1]; exact ⟨h, hn, ha⟩
  · rw [if_neg h1]
    have hr : st.status = .running := by simpa using h1
    refine ⟨⟨h.mf, h.mp, h.vf, fun _ r hm => Or.inl (ha hr r hm), h.dj, fun _ hh => by simp at hh,
      fun _ hh => by simp at hh⟩, ?_,
      fun _ r hm => ha hr r hm⟩
    intro _ p f hg hpre
    cases hpre with
    | inl hall => exact hn hr p f hg (Or.inl hall)
    | inr ho => simp at ho

/-- the record follows its file when the tool moves it -/
def rep (src dst : Path) (r : Rec) : Rec := if r.path = src then { r with path := dst } else r

theorem rep_m (src dst : Path) (r : Rec) : (rep src dst r).m = r.m := by unfold rep; split <;> rfl
theorem rep_off (src dst : Path) (r : Rec) : (rep src dst r).off = r.off := by unfold rep; split <;> rfl

theorem FinOk_rename {fs : FS} {src dst : Path} {f : File} {r : Rec} (hs : fs.get src = some f)
    (hfree : fs.get dst = none) (hne : src ≠ dst) (h : FinOk fs r) :
    FinOk ((fs.set dst f).del src) (rep src dst r) := by
  obtain ⟨g, hg, h1, h2⟩ := h
  unfold rep
  by_cases e : r.path = src
  · rw [if_pos e]
    rw [e, hs] at hg; cases hg
    exact ⟨f, by simp only []; rw [get_del_ne _ _ _ (Ne.symm hne)]; simp, h1, h2⟩
  · rw [if_neg e]
    have e2 : r.path ≠ dst := by intro e2; rw [e2, hfree] at hg; cases hg
    exact ⟨g, by rw [get_del_ne _ _ _ e, get_set_ne _ _ _ _ e2]; exact hg, h1, h2⟩

theorem Disj_rep {fs : FS} {src dst : Path} {a b : Rec} (hfree : fs.get dst = none) (ha : FinOk fs a) (hb : FinOk fs b)
    (h : Disj a b) : Disj (rep src dst a) (rep src dst b) := by
  have na : a.path ≠ dst := by intro e; obtain ⟨g, hg, _⟩ := ha; rw [e, hfree] at hg; cases hg
  have nb : b.path ≠ dst := by intro e; obtain ⟨g, hg, _⟩ := hb; rw [e, hfree] at hg; cases hg
  intro e
  rw [rep_m, rep_m, rep_off, rep_off]
  apply h
  unfold rep at e
  by_cases ea : a.path = src <;> by_cases eb : b.path = src
  · rw [ea, eb]
  · rw [if_pos ea, if_neg eb] at e; exact absurd e.symm nb
  · rw [if_neg ea, if_pos eb] at e; exact absurd e na
  · rw [if_neg ea, if_neg eb] at e; exact e

/-- link to a free name, then remove the source (the descriptor is already closed) -/
theorem lines_renameP {c : Cfg} {nlAll : Bool} (io : Nat → Fault) (st : St) (src dst : Path) {rf rp : List Rec}
    (h : Core c st rf rp) (hn : NlOk nlAll st) (ha : ADur st rp)
    (hfree : st.fs.get dst = none) (hne : src ≠ dst) (hcl : st.outOpen = false) :
    LID nlAll c (renameP io st src dst) := by
  unfold renameP
  apply guard_elim (st := st)
    (P := fun s => LID nlAll c (Nsq.Model.ToFile.guard io s fun s => { s with fs := s.fs.del src }))
  · intro s' hd
    rw [guard_dead io s' _ hd.1]
    exact lid_dead h hd
  · intro hr
    cases hs : st.fs.get src with
    | none =>
      simp only []
      have hd : Dead st (fatal { st with tick := st.tick + 1 }) := ⟨by simp [fatal], rfl, rfl, rfl, rfl⟩
      rw [guard_dead io _ _ hd.1]
      exact lid_dead h hd
    | some f =>
      simp only []
      have h1 : Core c { st with tick := st.tick + 1, fs := st.fs.set dst f } rf rp :=
        Core_grow h (FSLe_new f hfree) rfl rfl rfl rfl rfl rfl
      apply guard_elim (P := fun s => LID nlAll c s)
      · intro s' hd; exact lid_dead h1 hd
      · intro _
        have hall : ∀ r ∈ rp ++ rf, FinOk st.fs r := by
          intro r hm
          cases List.mem_append.mp hm with
          | inl hm => exact ha hr r hm
          | inr hm => exact h.vf r hm
        refine ⟨rf.map (rep src dst), rp.map (rep src dst),
          ⟨?_, ?_, ?_, ?_, ?_, h.wd, fun _ _ hh => by simp [hcl] at hh⟩, ?_, ?_⟩
        · rw [List.map_map]
          have : ((fun x => x.m) ∘ rep src dst) = fun x => x.m := by funext x; exact rep_m src dst x
          rw [this]; exact h.mf
        · intro _
          rw [List.map_map]
          have : ((fun x => x.m) ∘ rep src dst) = fun x => x.m := by funext x; exact rep_m src dst x
          rw [this]; exact h.mp hr
        · intro r' hm
          obtain ⟨r, hm', rfl⟩ := List.mem_map.mp hm
          exact FinOk_rename hs hfree hne (h.vf r hm')
        · intro _ r' hm
          obtain ⟨r, hm', rfl⟩ := List.mem_map.mp hm
          exact Or.inl (FinOk_rename hs hfree hne (ha hr r hm'))
        · rw [← List.map_append, List.pairwise_map]
          exact h.dj.imp_of_mem (fun {a b} hma hmb hab => Disj_rep hfree (hall a hma) (hall b hmb) hab)
        · intro _ p g hg hpre
          cases hpre with
          | inr ho => simp [hcl] at ho
          | inl hallNl =>
            by_cases ep : p = src
            · subst ep; simp at hg
            · rw [get_del_ne _ _ _ ep] at hg
              by_cases ed : p = dst
              · subst ed
                have : g = f := by simpa using hg.symm
                rw [this]; exact hn hr src f hs (Or.inl hallNl)
              · rw [get_set_ne _ _ _ _ ed] at hg
                exact hn hr p g hg (Or.inl hallNl)
        · intro _ r' hm
          obtain ⟨r, hm', rfl⟩ := List.mem_map.mp hm
          exact FinOk_rename hs hfree hne (ha hr r hm')

theorem lines_moveOut {c : Cfg} {nlAll : Bool} (io : Nat → Fault) (st : St) {rf rp : List Rec}
    (h : Core c st rf rp) (hn : NlOk nlAll st) (ha : ADur st rp)
    (hsrc : st.outPath.out = false) (hcl : st.outOpen = false) : LID nlAll c (moveOut c io st) := by
  unfold moveOut
  have hne : ∀ p : Path, p.out = true → st.outPath ≠ p := by
    intro p hp e; rw [e] at hsrc; rw [hsrc] at hp; cases hp
  have hclear : ∀ s, LID nlAll c s → LID nlAll c (clearOut s) := by
    intro s ⟨rf', rp', k1, k2, k3⟩
    exact ⟨rf', rp', lines_clearOut s k1 k2 k3⟩
  by_cases hfree : (st.fs.get { st.outPath with out := true }).isNone = true
  · simp only [hfree, if_true]
    have h2 := lines_renameP io st _ _ h hn ha (by simpa using hfree) (hne _ rfl) hcl
    by_cases hcc : c.closeClears = true
    · rw [if_pos hcc]; exact hclear _ h2
    · rw [if_neg hcc]; exact h2
  · simp only [hfree]
    cases hsr : search (takenDst c st.fs st.filename) (fuel st.fs) (st.rev + 1) with
    | none =>
      simp only []
      exact lid_dead h ⟨by simp, rfl, rfl, rfl, rfl⟩
    | some i =>
      simp only []
      have hfree2 : st.fs.get (mkPath c true st.filename i) = none := by
        simpa [takenDst] using search_some hsr
      exact hclear _ (lines_renameP io st st.outPath (mkPath c true st.filename i) h hn ha hfree2 (hne _ rfl) hcl)

/-- `Close()` -/
theorem lines_closeOut {c : Cfg} {nlAll : Bool} (io : Nat → Fault) (st : St) (h : LI nlAll c st) :
    LID nlAll c (closeOut c io st) := by
  unfold closeOut
  obtain ⟨rf, rp, h1, h2⟩ := h
  by_cases hho : st.hasOut = false
  · rw [if_pos hho]
    refine ⟨rf, rp, h1, h2, fun hr r hm => ?_⟩
    cases h1.vp hr r hm with
    | inl hd => exact hd
    | inr hw => have := hw.1; rw [hho] at this; cases this
  · rw [if_neg hho]
    obtain ⟨k1, k2, k3⟩ := lines_syncOut io st h1 h2
    obtain ⟨j1, j2, j3⟩ := lines_closeFd io _ k1 k2 k3
    by_cases hr : (closeFd io (syncOut c io st)).status ≠ .running
    · rw [if_pos hr]; exact ⟨rf, rp, j1, j2, j3⟩
    · rw [if_neg hr]
      have hrun : (closeFd io (syncOut c io st)).status = .running := by simpa using hr
      by_cases hwd : c.workDir = false
      · rw [if_pos hwd]; exact ⟨rf, rp, lines_clearOut _ j1 j2 j3⟩
      · rw [if_neg hwd]
        have hwd' : c.workDir = true := by simpa using hwd
        exact lines_moveOut io _ j1 j2 j3 (j1.wd hwd' (closeFd_hasOut io _ hrun)) (closeFd_closed io _ hrun)

/-! ### open, seal, write -/

/-- no read of a last byte fails: every existing file the tool re-opens for appending is readable by it (the fault
`Fault.rdErr` never occurs). The hypothesis the torn-tail guarantee needs under F47b (`Cfg.sealReadWarns`). -/
def ReadsOk (io : Nat → Fault) : Prop := ∀ t, io t ≠ .rdErr

/-- which configurations never append behind a torn tail: fix F47 (committed shape: a failed read of the last byte is a
fatal exit; F47b shape `Cfg.sealReadWarns`: it is a warning, so the reads must succeed), O_EXCL, or every file
"\n"-terminated -/
def Mode (nlAll : Bool) (c : Cfg) (io : Nat → Fault) : Prop :=
  (c.sealsTail = true ∧ (c.sealReadWarns = true → ReadsOk io)) ∨ c.excl = true ∨ nlAll = true

/-- `Mode` at one open primitive whose slot of the schedule is `rd` -/
def ModeAt (nlAll : Bool) (c : Cfg) (rd : Fault) : Prop :=
  (c.sealsTail = true ∧ (c.sealReadWarns = true → rd ≠ .rdErr)) ∨ c.excl = true ∨ nlAll = true

theorem Mode.at {nlAll : Bool} {c : Cfg} {io : Nat → Fault} (h : Mode nlAll c io) (t : Nat) : ModeAt nlAll c (io t) := by
  cases h with
  | inl h => exact Or.inl ⟨h.1, fun hw => h.2 hw t⟩
  | inr h => exact Or.inr h

/-- fix F47 (and its follow-up F47b) on the file `f` just opened for appending -/
theorem lines_sealTail {c : Cfg} {nlAll : Bool} (io : Nat → Fault) (rd : Fault) (s1 : St) (f : File) {rf rp : List Rec}
    (_hr : s1.status = .running) (hg : s1.fs.get s1.outPath = some f)
    (h : Core c s1 rf rp) (ha : ADur s1 rp)
    (hoth : nlAll = true → ∀ p g, s1.fs.get p = some g → nlEnded g.content)
    (hmode : ModeAt nlAll c rd) (hnx : c.excl = false) : LID nlAll c (sealTail c io rd s1 f) := by
  -- the file is left as it is: fine when it is known to be empty or "\n"-terminated
  have hkeep : nlEnded f.content → LID nlAll c s1 := by
    intro hfnl
    refine ⟨rf, rp, h, ?_, ha⟩
    intro _ p g hp hpre
    by_cases ep : p = s1.outPath
    · subst ep
      rw [hg] at hp; cases hp
      exact hfnl
    · cases hpre with
      | inl hall => exact hoth hall p g hp
      | inr ho => exact absurd ho.2.2 ep
  unfold sealTail
  by_cases hrd : (c.sealsTail && !c.excl && !f.content.isEmpty && rd == .rdErr) = true
  · rw [if_pos hrd]
    have hrd' : rd = .rdErr := by
      simp only [Bool.and_eq_true, beq_iff_eq] at hrd
      exact hrd.2
    by_cases hw : c.sealReadWarns = true
    · rw [if_pos hw]
      -- F47b: warned, appended to unsealed — only allowed here when every file is "\n"-terminated
      apply hkeep
      cases hmode with
      | inl hs => exact absurd hrd' (hs.2 hw)
      | inr h2 =>
        cases h2 with
        | inl hx => rw [hnx] at hx; cases hx
        | inr hall => exact hoth hall _ f hg
    · rw [if_neg hw]
      -- committed F47: the read error is fatal
      exact lid_dead h ⟨by simp [fatal], rfl, rfl, rfl, rfl⟩
  rw [if_neg hrd]
  by_cases hc : (c.sealsTail && !c.excl && !nlEndedB f.content) = true
  · rw [if_pos hc]
    simp only []
    have k1 := core_onOut io s1 (fileWrite c.gzip [10]) (fun f => FLe_write c.gzip [10] f) h
    have k3 := adur_onOut (gz := c.gzip) io s1 (fileWrite c.gzip [10]) (fun f => FLe_write c.gzip [10] f) ha
    by_cases hr2 : (onOut io s1 (fileWrite c.gzip [10])).status ≠ .running
    · rw [if_pos hr2]
      exact ⟨rf, rp, k1, fun hrr => absurd hrr hr2, k3⟩
    · rw [if_neg hr2]
      have hr2' : (onOut io s1 (fileWrite c.gzip [10])).status = .running := by simpa using hr2
      obtain ⟨f0, _, hho, hoo, hg0, he⟩ := onOut_running io s1 _ hr2'
      rw [hg] at hg0; cases hg0
      refine ⟨rf, rp, Core_grow k1 (fun p g hp => ⟨g, hp, FLe_refl _ g⟩) rfl rfl rfl rfl rfl rfl, ?_,
        ADur_grow (gz := c.gzip) k3 (fun p g hp => ⟨g, hp, FLe_refl _ g⟩) rfl⟩
      intro _ p g hp hpre
      rw [he] at hp hpre
      simp only [] at hp hpre
      by_cases ep : p = s1.outPath
      · subst ep
        have : g = fileWrite c.gzip [10] f := by simpa using hp.symm
        rw [this, content_write]; exact Or.inr ⟨f.content, rfl⟩
      · rw [get_set_ne _ _ _ _ ep] at hp
        cases hpre with
        | inl hall => exact hoth hall p g hp
        | inr ho => exact absurd ho.2.2 ep
  · rw [if_neg hc]
    apply hkeep
    cases hmode with
    | inl hs =>
      have : nlEndedB f.content = true := by
        cases hb : nlEndedB f.content
        · exfalso; apply hc; simp [hs.1, hnx, hb]
        · rfl
      exact (nlEndedB_iff _).mp this
    | inr h2 =>
      cases h2 with
      | inl hx => rw [hnx] at hx; cases hx
      | inr hall => exact hoth hall _ f hg

theorem lines_openNew {c : Cfg} {nlAll : Bool} (io : Nat → Fault) (st : St) (fn : String) (hmode : Mode nlAll c io)
    (h : LID nlAll c st) : LID nlAll c (openNew c io st fn) := by
  obtain ⟨rf, rp, h1, h2, h3⟩ := h
  unfold openNew
  apply guard_elim (P := fun s => LID nlAll c s)
  · intro s' hd; exact lid_dead h1 hd
  · intro hr
    simp only []
    cases hsr : search (taken c st.fs fn) (fuel st.fs) st.rev with
    | none =>
      simp only []
      exact lid_dead h1 ⟨by simp, rfl, rfl, rfl, rfl⟩
    | some r =>
      simp only []
      have hnt := search_some hsr
      have hwd : c.workDir = true → (mkPath c (!c.workDir) fn r).out = false := by
        intro hw; rw [mkPath_out, hw]; rfl
      cases hg : st.fs.get (mkPath c (!c.workDir) fn r) with
      | none =>
        simp only []
        have hle : FSLe c.gzip st.fs (st.fs.set (mkPath c (!c.workDir) fn r) ⟨[], [], 0⟩) := FSLe_new _ hg
        refine ⟨rf, rp, ⟨h1.mf, h1.mp, fun x hx => FinOk_mono hle (h1.vf x hx),
          fun _ x hx => Or.inl (FinOk_mono hle (h3 hr x hx)), h1.dj, fun hw _ => hwd hw, fun _ _ _ => ⟨⟨[], [], 0⟩, by simp⟩⟩, ?_,
          fun _ x hx => FinOk_mono hle (h3 hr x hx)⟩
        intro _ p g hp hpre
        by_cases ep : p = mkPath c (!c.workDir) fn r
        · subst ep
          have : g = ⟨[], [], 0⟩ := by simpa using hp.symm
          rw [this]; exact Or.inl rfl
        · rw [get_set_ne _ _ _ _ ep] at hp
          cases hpre with
          | inl hall => exact h2 hr p g hp (Or.inl hall)
          | inr ho => exact absurd ho.2.2 ep
      | some f =>
        simp only []
        have hnx : c.excl = false := by
          cases hx : c.excl
          · rfl
          · exfalso
            unfold taken at hnt
            rw [hg, hx] at hnt
            simp at hnt
        refine lines_sealTail io _ _ f (rf := rf) (rp := rp) ?_ ?_ ?_ ?_ ?_ (hmode.at st.tick) hnx
        · exact hr
        · exact hg
        · exact ⟨h1.mf, h1.mp, h1.vf, fun _ x hx => Or.inl (h3 hr x hx), h1.dj, fun hw _ => hwd hw, fun _ _ _ => ⟨f, hg⟩⟩
        · exact fun _ x hx => h3 hr x hx
        · intro hall p g hp; exact h2 hr p g hp (Or.inl hall)

theorem lines_updateFile {c : Cfg} {nlAll : Bool} (io : Nat → Fault) (st : St) (now : Int) (fn : String)
    (hmode : Mode nlAll c io) (h : LI nlAll c st) : LID nlAll c (updateFile c io st now fn) := by
  unfold updateFile
  obtain ⟨rf, rp, k1, k2, k3⟩ := lines_closeOut io st h
  apply lines_openNew io _ fn hmode
  exact ⟨rf, rp, ⟨k1.mf, k1.mp, k1.vf, k1.vp, k1.dj, k1.wd, k1.ex⟩, k2, k3⟩

/-- what the record write(s) of one message leave behind when the tool is still running -/
theorem writeLine_running (c : Cfg) (io : Nat → Fault) (st : St) (m : Msg)
    (h : (writeLine c io st m).status = .running) :
    ∃ f0 F, st.status = .running ∧ st.hasOut = true ∧ st.outOpen = true ∧ st.fs.get st.outPath = some f0 ∧
      wv c.gzip F = f0.content ++ line m ∧ F.content = f0.content ++ line m ∧
      (writeLine c io st m).fs.get st.outPath = some F ∧
      (∀ q, q ≠ st.outPath → (writeLine c io st m).fs.get q = st.fs.get q) ∧
      (writeLine c io st m).hasOut = true ∧ (writeLine c io st m).outOpen = true ∧
      (writeLine c io st m).outPath = st.outPath := by
  unfold writeLine at h ⊢
  by_cases h1w : c.oneWrite = true
  · rw [if_pos h1w] at h ⊢
    obtain ⟨f0, hr0, hho0, hoo0, hg0, he0⟩ := onOut_running io st _ h
    refine ⟨f0, fileWrite c.gzip (m.body ++ [10]) f0, hr0, hho0, hoo0, hg0, wv_write _ _ _, content_write _ _ _, ?_, ?_,
      ?_, ?_, ?_⟩ <;> rw [he0]
    · simp
    · intro q hq; exact get_set_ne _ _ _ _ hq
    · exact hho0
    · exact hoo0
  · rw [if_neg h1w] at h ⊢
    obtain ⟨f1, hr1, hho1, hoo1, hg1, he1⟩ := onOut_running io _ _ h
    obtain ⟨f0, hr0, hho0, hoo0, hg0, he0⟩ := onOut_running io st _ hr1
    have hf1 : f1 = fileWrite c.gzip m.body f0 := by rw [he0] at hg1; simpa using hg1.symm
    refine ⟨f0, fileWrite c.gzip [10] f1, hr0, hho0, hoo0, hg0, ?_, ?_, ?_, ?_, ?_, ?_, ?_⟩
    · rw [wv_write, hf1, content_write]; simp [line]
    · rw [content_write, hf1, content_write]; simp [line]
    · rw [he1, he0]; simp
    · intro q hq; rw [he1, he0]; simp only []; rw [get_set_ne _ _ _ _ hq, get_set_ne _ _ _ _ hq]
    · rw [he1, he0]; exact hho0
    · rw [he1, he0]; exact hoo0
    · rw [he1, he0]

theorem core_writeLine {c : Cfg} (io : Nat → Fault) (st : St) (m : Msg) {rf rp : List Rec} (h : Core c st rf rp) :
    Core c (writeLine c io st m) rf rp := by
  unfold writeLine
  split
  · exact core_onOut io st _ (fun f => FLe_write c.gzip _ f) h
  · exact core_onOut io _ _ (fun f => FLe_write c.gzip _ f) (core_onOut io st _ (fun f => FLe_write c.gzip _ f) h)

theorem lines_writeMsg {c : Cfg} {nlAll : Bool} (io : Nat → Fault) (st : St) (m : Msg) (h : LI nlAll c st) :
    LI nlAll c (writeMsg c io st m) := by
  obtain ⟨rf, rp, h1, h2⟩ := h
  unfold writeMsg
  have k1 := core_writeLine io st m h1
  by_cases hr : (writeLine c io st m).status ≠ .running
  · rw [if_pos hr]; exact ⟨rf, rp, k1, fun hrr => absurd hrr hr⟩
  · rw [if_neg hr]
    have hr' : (writeLine c io st m).status = .running := by simpa using hr
    by_cases hp : (writeLine c io st m).pending.length ≥ c.maxInFlight
    · rw [if_pos hp]
      exact ⟨rf, rp, Core_dead k1 ⟨by simp, rfl, rfl, rfl, rfl⟩, fun hrr => by simp at hrr⟩
    · rw [if_neg hp]
      obtain ⟨f0, F, hr0, hho0, hoo0, hg0, hwv, hct, hgF, hoth, hho, hoo, hop⟩ := writeLine_running c io st m hr'
      have hnl0 : nlEnded f0.content := h2 hr0 _ f0 hg0 (Or.inr ⟨hho0, hoo0, rfl⟩)
      refine ⟨rf, ⟨m, st.outPath, f0.content.length⟩ :: rp,
        ⟨k1.mf, ?_, k1.vf, ?_, ?_, k1.wd, fun _ _ _ => ⟨F, by rw [hop]; exact hgF⟩⟩, ?_⟩
      · intro _; simp only [List.map_cons]; rw [k1.mp hr']
      · intro _ r hm
        cases hm with
        | head =>
          exact Or.inr ⟨hho, hoo, hop.symm, F, by rw [hop]; exact hgF, ⟨f0.content, [], by rw [hwv]; simp, rfl, hnl0⟩⟩
        | tail _ hm =>
          cases k1.vp hr' r hm with
          | inl hf => exact Or.inl hf
          | inr ho => exact Or.inr ho
      · rw [List.cons_append, List.pairwise_cons]
        refine ⟨?_, k1.dj⟩
        intro r' hm' e
        simp only [] at e
        right
        simp only []
        have hb : r'.off + (line r'.m).length ≤ f0.content.length := by
          cases List.mem_append.mp hm' with
          | inr hmf =>
            obtain ⟨g, hg, hrec, _⟩ := h1.vf r' hmf
            rw [← e, hg0] at hg; cases hg
            have := RecAt_bound hrec
            have : f0.data.length ≤ f0.content.length := by simp [File.content]
            omega
          | inl hmp =>
            cases h1.vp hr0 r' hmp with
            | inl hf =>
              obtain ⟨g, hg, hrec, _⟩ := hf
              rw [← e, hg0] at hg; cases hg
              have := RecAt_bound hrec
              have : f0.data.length ≤ f0.content.length := by simp [File.content]
              omega
            | inr ho =>
              obtain ⟨_, _, _, g, hg, hrec⟩ := ho
              rw [hg0] at hg; cases hg
              have := RecAt_bound hrec
              have := wv_le_content c.gzip f0
              omega
        exact hb
      · intro _ p g hp hpre
        simp only [] at hp hpre
        by_cases ep : p = st.outPath
        · subst ep
          rw [hgF] at hp; cases hp
          rw [hct]; exact nlEnded_line _ m
        · rw [hoth p ep] at hp
          cases hpre with
          | inl hall => exact h2 hr0 p g hp (Or.inl hall)
          | inr ho => rw [hop] at ho; exact absurd ho.2.2 ep

/-! ### the router loop -/

/-- what the environment may do: in mode `nlAll` files dropped by other processes are "\n"-terminated; what another
O_APPEND writer of a shared plain file appends with one write(2) is a sequence of whole records -/
def EvOk (nlAll : Bool) : Ev → Prop
  | .ext _ data => nlAll = true → nlEnded data
  | .extAppend _ data => nlEnded data
  | _ => True

theorem LI_ite {nlAll : Bool} {c : Cfg} {p : Prop} [Decidable p] {a b : St} (ha : LI nlAll c a) (hb : LI nlAll c b) :
    LI nlAll c (if p then a else b) := by
  split <;> assumption

theorem lines_finishRun {c : Cfg} {nlAll : Bool} (st : St) (h : LI nlAll c st) : LI nlAll c (finishRun st) := by
  unfold finishRun
  obtain ⟨rf, rp, k1, k2⟩ := h
  by_cases h1 : st.status ≠ .running
  · rw [if_pos h1]; exact ⟨rf, rp, k1, k2⟩
  · rw [if_neg h1]; exact ⟨rf, rp, Core_dead k1 ⟨by simp, rfl, rfl, rfl, rfl⟩, fun hrr => by simp at hrr⟩

theorem lines_step {c : Cfg} {nlAll : Bool} (io : Nat → Fault) (st : St) (ev : Ev) (starved : Bool)
    (hmode : Mode nlAll c io) (hev : EvOk nlAll ev) (h : LI nlAll c st) : LI nlAll c (step c io st ev starved) := by
  unfold step
  by_cases hr : st.status ≠ .running
  · rw [if_pos hr]; exact h
  · rw [if_neg hr]
    have hrun : st.status = .running := by simpa using hr
    cases ev with
    | msg m now fn =>
      simp only []
      have h1 : LI nlAll c (if needsRotation c st now fn = true then updateFile c io st now fn else st) :=
        LI_ite (lines_updateFile io st now fn hmode h).li h
      have h2 := lines_writeMsg io _ m h1
      exact LI_ite (lines_syncBlock io _ h2) h2
    | tick now fn =>
      simp only []
      have h1 : LI nlAll c (if (needsRotation c st now fn && !c.skipEmpty) = true then updateFile c io st now fn else st) :=
        LI_ite (lines_updateFile io st now fn hmode h).li h
      have h2 := lines_syncBlock io _ h1
      exact LI_ite (lines_closeOut io _ h2).li h2
    | hup => exact (lines_closeOut io _ (lines_syncBlock io st h)).li
    | term => exact lines_syncBlock io st h
    | stopped => exact lines_finishRun _ (lines_closeOut io _ (lines_syncBlock io st h)).li
    | ext p data =>
      simp only []
      obtain ⟨rf, rp, h1, h2⟩ := h
      by_cases hp : (st.fs.get p).isSome = true
      · rw [if_pos hp]; exact ⟨rf, rp, h1, h2⟩
      · rw [if_neg hp]
        have hfree : st.fs.get p = none := by simpa using hp
        refine ⟨rf, rp, Core_grow h1 (FSLe_new _ hfree) rfl rfl rfl rfl rfl rfl, ?_⟩
        intro _ q g hq hpre
        by_cases e : q = p
        · subst e
          have : g = ⟨data, [], data.length⟩ := by simpa using hq.symm
          cases hpre with
          | inl hall => rw [this]; simpa [File.content] using hev hall
          | inr ho =>
            -- the open file exists, `q` was free
            exfalso
            obtain ⟨hho, hoo, e2⟩ := ho
            obtain ⟨f, hf⟩ := h1.ex hrun hho hoo
            rw [← e2, hfree] at hf; cases hf
        · rw [get_set_ne _ _ _ _ e] at hq
          exact h2 hrun q g hq hpre
    | extAppend p data =>
      simp only []
      obtain ⟨rf, rp, h1, h2⟩ := h
      cases hg : st.fs.get p with
      | none => exact ⟨rf, rp, h1, h2⟩
      | some f =>
        simp only []
        by_cases hx : c.excl = true
        · rw [if_pos hx]; exact ⟨rf, rp, h1, h2⟩
        · rw [if_neg hx]
          have hgz : c.gzip = false := by
            cases hgz : c.gzip
            · rfl
            · exfalso; apply hx; simp [Cfg.excl, hgz]
          refine ⟨rf, rp, Core_grow h1 (FSLe_set hg (FLe_writeFalse c.gzip hgz data f)) rfl rfl rfl rfl rfl rfl, ?_⟩
          intro _ q g hq hpre
          by_cases e : q = p
          · subst e
            have : g = fileWrite false data f := by simpa using hq.symm
            rw [this, content_write]
            exact nlEnded_append hev (h2 hrun q f hg hpre)
          · rw [get_set_ne _ _ _ _ e] at hq
            exact h2 hrun q g hq hpre

theorem lines_run {c : Cfg} {nlAll : Bool} (io : Nat → Fault) (evs : List (Ev × Bool)) (st : St)
    (hmode : Mode nlAll c io) (hevs : ∀ e ∈ evs, EvOk nlAll e.1) (h : LI nlAll c st) : LI nlAll c (run c io st evs) := by
  induction evs generalizing st with
  | nil => exact h
  | cons e es ih =>
    exact ih _ (fun x hx => hevs x (List.mem_cons_of_mem _ hx))
      (lines_step io st e.1 e.2 hmode (hevs e (List.mem_cons_self ..)) h)

theorem lines_init (nlAll : Bool) (c : Cfg) (fs : FS)
    (h0 : nlAll = true → ∀ p f, fs.get p = some f → nlEnded f.content) : LI nlAll c (init fs) := by
  have hcore : Core c (init fs) [] [] :=
    ⟨rfl, fun _ => rfl, fun r hr => (by cases hr), fun _ r hr => (by cases hr), List.Pairwise.nil,
     fun _ hh => (by simp [init] at hh), fun _ hh => (by simp [init] at hh)⟩
  refine ⟨[], [], hcore, ?_⟩
  intro _ p f hg hpre
  cases hpre with
  | inl hall => exact h0 hall p f hg
  | inr ho => simp [init] at ho

/-- every occurrence in `finished` owns a record: ghost records in the order of `finished`, each line-aligned in the
durable prefix of its file, byte ranges pairwise disjoint -/
def OwnRecs (fs : FS) (finished : List Msg) : Prop :=
  ∃ rf : List Rec, rf.map (·.m) = finished ∧ (∀ r ∈ rf, FinOk fs r) ∧ rf.Pairwise Disj

theorem LI.own {nlAll : Bool} {c : Cfg} {st : St} (h : LI nlAll c st) : OwnRecs st.fs st.finished := by
  obtain ⟨rf, rp, k, _⟩ := h
  exact ⟨rf, k.mf, k.vf, (List.pairwise_append.mp k.dj).2.1⟩

/-- … and while the tool runs every written, un-FINished message owns a record too (durable, or visible through the
open descriptor), disjoint from all others -/
theorem LI.pending_own {nlAll : Bool} {c : Cfg} {st : St} (h : LI nlAll c st) (hr : st.status = .running) :
    ∃ rf rp : List Rec, rf.map (·.m) = st.finished ∧ rp.map (·.m) = st.pending ∧ (∀ r ∈ rf, FinOk st.fs r) ∧
      (∀ r ∈ rp, FinOk st.fs r ∨ OpenOk c.gzip st r) ∧ (rp ++ rf).Pairwise Disj := by
  obtain ⟨rf, rp, k, _⟩ := h
  exact ⟨rf, rp, k.mf, k.mp hr, k.vf, k.vp hr, k.dj⟩

end Nsq.Proofs.ToFileLines
