import Nsq.Model.Timing
import Nsq.Proofs.PQ
/-!
C04 (timing half): proofs about the channel-timing model `Nsq.Model.Timing`.

  A. every API call keeps the data invariant `ChanInv` and never panics from such a state
  B. a scan at `t` never releases an entry whose deadline is later than `t` (any state)
  C. a scan at `t` from a state satisfying the invariant releases everything that is due
  D. TOUCH sets the deadline `min (now + msgTimeout) (deliveryTS + maxMsgTimeout)`; the cap holds
     through every history
  E. requeue / defer; entries stay queued until their time
  F. `UniqRands` returns distinct values below `maxval`
-/
namespace Nsq.Proofs.Timing
open Nsq.Model.PQ Nsq.Model.Timing Nsq.Proofs.PQ

/-- ids stored in a heap -/
def heapIds (a : H) : List Nat := (keys a).map (·.1)

/-! ### helper facts about `peekAndShift`, `lookup`, `erase` -/

theorem mem_erase_sub {m : List InF} {id : Nat} {r : InF} (h : r ∈ erase m id) : r ∈ m :=
  (List.mem_filter.1 h).1

theorem pas1_sub {a b : H} {e : E} {t : Int} (hp : peekAndShift1 a t = some (b, e)) :
    ∀ k ∈ keys b, k ∈ keys a := fun _ hk =>
  (peekAndShift1_keys hp).1.mem_iff.1 (List.mem_cons_of_mem _ hk)

theorem pas2_sub {a b : H} {e : E} {t : Int} (hp : peekAndShift2 a t = some (b, e)) :
    ∀ k ∈ keys b, k ∈ keys a := fun _ hk =>
  (peekAndShift2_keys hp).1.mem_iff.1 (List.mem_cons_of_mem _ hk)

theorem pas1_stays {a b : H} {e : E} {t : Int} (hp : peekAndShift1 a t = some (b, e))
    (k : Nat × Int) (hk : k ∈ keys a) (ht : t < k.2) : k ∈ keys b := by
  have h1 := (peekAndShift1_keys hp).1.mem_iff.2 hk
  have h2 := peekAndShift1_le hp
  rcases List.mem_cons.1 h1 with rfl | h1
  · simp only [key] at ht; omega
  · exact h1

theorem pas2_stays {a b : H} {e : E} {t : Int} (hp : peekAndShift2 a t = some (b, e))
    (k : Nat × Int) (hk : k ∈ keys a) (ht : t < k.2) : k ∈ keys b := by
  have h1 := (peekAndShift2_keys hp).1.mem_iff.2 hk
  have h2 := peekAndShift2_le hp
  rcases List.mem_cons.1 h1 with rfl | h1
  · simp only [key] at ht; omega
  · exact h1

/-! ### B. never early (no invariant, arbitrary array contents) -/

/-- everything the in-flight scan loop guarantees from an arbitrary state -/
theorem scanInFlightLoop_gen (t : Int) (c : Chan) (dirty : Bool) (rel : List E) :
    ∃ ex, (scanInFlightLoop t c dirty rel).released = rel ++ ex ∧
      (∀ e ∈ ex, e.pri ≤ t) ∧
      (scanInFlightLoop t c dirty rel).chan.ready = c.ready ++ ex.map (·.id) ∧
      (scanInFlightLoop t c dirty rel).chan.dpq = c.dpq ∧
      (scanInFlightLoop t c dirty rel).chan.dmap = c.dmap ∧
      (∀ k ∈ keys (scanInFlightLoop t c dirty rel).chan.ifpq, k ∈ keys c.ifpq) ∧
      (∀ r ∈ (scanInFlightLoop t c dirty rel).chan.ifmap, r ∈ c.ifmap) ∧
      (∀ k ∈ keys c.ifpq, t < k.2 → k ∈ keys (scanInFlightLoop t c dirty rel).chan.ifpq) := by
  fun_induction scanInFlightLoop t c dirty rel with
  | case1 c dirty rel h =>
    exact ⟨[], by simp, by simp, by simp, rfl, rfl, fun _ h => h, fun _ h => h, fun _ h _ => h⟩
  | case2 c dirty rel pq e h hl =>
    exact ⟨[], by simp, by simp, by simp, rfl, rfl, pas1_sub h, fun r hr => hr, pas1_stays h⟩
  | case3 c dirty rel pq e h r hl ih =>
    obtain ⟨ex, h1, h2, h3, h4, h5, h6, h7, h8⟩ := ih
    refine ⟨e :: ex, by simp [h1], ?_, by simp [h3], h4, h5, ?_, ?_, ?_⟩
    · intro x hx
      rcases List.mem_cons.1 hx with rfl | hx
      · exact peekAndShift1_le h
      · exact h2 x hx
    · exact fun k hk => pas1_sub h k (h6 k hk)
    · exact fun r hr => mem_erase_sub (h7 r hr)
    · exact fun k hk ht => h8 k (pas1_stays h k hk ht) ht

/-- everything the deferred scan loop guarantees from an arbitrary state -/
theorem scanDeferredLoop_gen (t : Int) (c : Chan) (dirty : Bool) (rel : List E) :
    ∃ ex, (scanDeferredLoop t c dirty rel).released = rel ++ ex ∧
      (∀ e ∈ ex, e.pri ≤ t) ∧
      (scanDeferredLoop t c dirty rel).chan.ready = c.ready ++ ex.map (·.id) ∧
      (scanDeferredLoop t c dirty rel).chan.ifpq = c.ifpq ∧
      (scanDeferredLoop t c dirty rel).chan.ifmap = c.ifmap ∧
      (∀ k ∈ keys (scanDeferredLoop t c dirty rel).chan.dpq, k ∈ keys c.dpq) ∧
      (∀ k ∈ keys c.dpq, t < k.2 → k ∈ keys (scanDeferredLoop t c dirty rel).chan.dpq) := by
  fun_induction scanDeferredLoop t c dirty rel with
  | case1 c dirty rel h =>
    exact ⟨[], by simp, by simp, by simp, rfl, rfl, fun _ h => h, fun _ h _ => h⟩
  | case2 c dirty rel pq e h hl ih =>
    obtain ⟨ex, h1, h2, h3, h4, h5, h6, h8⟩ := ih
    refine ⟨e :: ex, by simp [h1], ?_, by simp [h3], h4, h5, ?_, ?_⟩
    · intro x hx
      rcases List.mem_cons.1 hx with rfl | hx
      · exact peekAndShift2_le h
      · exact h2 x hx
    · exact fun k hk => pas2_sub h k (h6 k hk)
    · exact fun k hk ht => h8 k (pas2_stays h k hk ht) ht
  | case3 c dirty rel pq e h hl =>
    exact ⟨[], by simp, by simp, by simp, rfl, rfl, pas2_sub h, pas2_stays h⟩

theorem scanInFlight_never_early (c : Chan) (t : Int) :
    ∀ e ∈ (scanInFlight c t).released, e.pri ≤ t := by
  obtain ⟨ex, h1, h2, _⟩ := scanInFlightLoop_gen t c false []
  unfold scanInFlight
  rw [h1]
  simpa using h2

theorem scanDeferred_never_early (c : Chan) (t : Int) :
    ∀ e ∈ (scanDeferred c t).released, e.pri ≤ t := by
  obtain ⟨ex, h1, h2, _⟩ := scanDeferredLoop_gen t c false []
  unfold scanDeferred
  rw [h1]
  simpa using h2

theorem scanInFlight_ready (c : Chan) (t : Int) :
    (scanInFlight c t).chan.ready = c.ready ++ (scanInFlight c t).released.map (·.id) := by
  obtain ⟨ex, h1, _, h3, _⟩ := scanInFlightLoop_gen t c false []
  unfold scanInFlight
  rw [h1, h3]
  simp

theorem scanDeferred_ready (c : Chan) (t : Int) :
    (scanDeferred c t).chan.ready = c.ready ++ (scanDeferred c t).released.map (·.id) := by
  obtain ⟨ex, h1, _, h3, _⟩ := scanDeferredLoop_gen t c false []
  unfold scanDeferred
  rw [h1, h3]
  simp

/-- the in-flight scan does not touch the deferred heap / map -/
theorem scanInFlight_frame (c : Chan) (t : Int) :
    (scanInFlight c t).chan.dpq = c.dpq ∧ (scanInFlight c t).chan.dmap = c.dmap := by
  obtain ⟨ex, _, _, _, h4, h5, _⟩ := scanInFlightLoop_gen t c false []
  exact ⟨h4, h5⟩

/-- the deferred scan does not touch the in-flight heap / map -/
theorem scanDeferred_frame (c : Chan) (t : Int) :
    (scanDeferred c t).chan.ifpq = c.ifpq ∧ (scanDeferred c t).chan.ifmap = c.ifmap := by
  obtain ⟨ex, _, _, _, h4, h5, _⟩ := scanDeferredLoop_gen t c false []
  exact ⟨h4, h5⟩

/-! ### F. UniqRands -/

theorem uniqLoop_spec (r : Nat → Nat) (n : Nat) :
    ∀ (k i maxval : Nat) (a : Array Nat), a.toList.Perm (List.range n) → a.size = n →
      i + maxval = n → k + i ≤ n →
      ∃ a', uniqLoop r k i maxval a = some a' ∧ a'.toList.Perm (List.range n) ∧ a'.size = n := by
  intro k
  induction k with
  | zero => intro i maxval a hp hs _ _; exact ⟨a, rfl, hp, hs⟩
  | succ k ih =>
    intro i maxval a hp hs him hki
    have hm : maxval ≠ 0 := by omega
    have hlt : r i % maxval < maxval := Nat.mod_lt _ (by omega)
    have hc : i < a.size ∧ r i % maxval + i < a.size := by omega
    unfold uniqLoop
    simp only [hm, if_false, hc, and_self, dite_true]
    apply ih
    · have := Array.swap_perm (xs := a) hc.1 hc.2
      rw [Array.perm_iff_toList_perm] at this
      exact this.trans hp
    · simpa using hs
    · omega
    · omega

theorem uniqRands_perm (q n : Nat) (r : Nat → Nat) :
    ∃ l, uniqRands q n r = some l ∧ l.length = min q n ∧ l.Nodup ∧ (∀ x ∈ l, x < n) ∧
      (n ≤ q → l.Perm (List.range n)) := by
  obtain ⟨a', h1, h2, h3⟩ := uniqLoop_spec r n (min q n) 0 n (Array.range n)
    (by simp [Array.toList_range]) (by simp) (by omega) (by omega)
  refine ⟨(a'.extract 0 (min q n)).toList, by simp [uniqRands, h1], ?_, ?_, ?_, ?_⟩
  · simp [h3]
  · rw [Array.toList_extract]
    simp only [List.extract_eq_take_drop, List.drop_zero, Nat.sub_zero]
    exact (List.take_sublist _ _).nodup (h2.nodup_iff.2 List.nodup_range)
  · intro x hx
    rw [Array.toList_extract] at hx
    simp only [List.extract_eq_take_drop, List.drop_zero, Nat.sub_zero] at hx
    have := h2.mem_iff.1 ((List.take_sublist _ _).subset hx)
    simpa using this
  · intro hnq
    rw [Array.toList_extract]
    simp only [List.extract_eq_take_drop, List.drop_zero, Nat.sub_zero]
    have : min q n = a'.toList.length := by simp [h3]; omega
    rw [this, List.take_length]
    exact h2

/-! ### helper facts about `lookup`, `erase`, `removeFromPQ` -/

theorem lookup_some {m : List InF} {id : Nat} {r : InF} (h : lookup m id = some r) :
    r ∈ m ∧ r.id = id := by
  unfold lookup at h
  have := List.find?_some h
  exact ⟨List.mem_of_find?_eq_some h, by simpa using this⟩

theorem lookup_none_iff {m : List InF} {id : Nat} :
    lookup m id = none ↔ id ∉ m.map (·.id) := by
  unfold lookup
  rw [List.find?_eq_none]
  simp only [List.mem_map, not_exists, not_and, beq_iff_eq]

theorem lookup_of_mem {m : List InF} {id : Nat} (h : id ∈ m.map (·.id)) :
    ∃ r, lookup m id = some r := by
  cases hl : lookup m id with
  | none => exact absurd h (lookup_none_iff.1 hl)
  | some r => exact ⟨r, rfl⟩

theorem lookup_of_mem_nodup {m : List InF} {r : InF} (hn : (m.map (·.id)).Nodup) (hr : r ∈ m) :
    lookup m r.id = some r := by
  induction m with
  | nil => cases hr
  | cons x xs ih =>
    simp only [List.map_cons, List.nodup_cons] at hn
    rcases List.mem_cons.1 hr with rfl | hr
    · simp [lookup]
    · have hne : x.id ≠ r.id := by
        intro he
        exact hn.1 (he ▸ List.mem_map.2 ⟨r, hr, rfl⟩)
      have := ih hn.2 hr
      unfold lookup at this ⊢
      simp [hne, this]

theorem erase_ids (m : List InF) (id : Nat) :
    (erase m id).map (·.id) = (m.map (·.id)).filter (· != id) := by
  unfold erase
  rw [List.filter_map]
  rfl

theorem erase_ids_nodup (m : List InF) (id : Nat) (hn : (m.map (·.id)).Nodup) :
    (erase m id).map (·.id) = (m.map (·.id)).erase id := by
  rw [erase_ids, hn.erase_eq_filter]

theorem heapIds_push (a : H) (id : Nat) (p : Int) :
    (heapIds (push a id p)).Perm (id :: heapIds a) := (push_keys a id p).map _

theorem mem_heapIds {a : H} {id : Nat} : id ∈ heapIds a ↔ ∃ p, (id, p) ∈ keys a := by
  unfold heapIds
  simp

theorem mem_keys {a : H} {k : Nat × Int} : k ∈ keys a ↔ ∃ e ∈ a, key e = k := by
  unfold keys
  simp

/-- under `IndexOK` the element found by id knows its own position -/
theorem find_index {a : H} {id : Nat} {e : E} (h : IndexOK a)
    (hf : a.find? (fun e => e.id == id) = some e) :
    ∃ k, ∃ hk : k < a.size, a[k] = e ∧ e.index = (k : Int) ∧ e.id = id := by
  obtain ⟨hp, k, hk, he, _⟩ := Array.find?_eq_some_iff_getElem.1 hf
  exact ⟨k, hk, he, he ▸ h k hk, by simpa using hp⟩

/-- whatever `removeFromPQ` returns holds no new keys (any array contents) -/
theorem removeFromPQ_sub {a b : H} {id : Nat} (hr : removeFromPQ a id = some b) :
    ∀ k ∈ keys b, k ∈ keys a := by
  unfold removeFromPQ at hr
  split at hr
  · cases hr; exact fun _ h => h
  · split at hr
    · cases hr; exact fun _ h => h
    · split at hr
      · cases hr
      · cases hrm : remove1 a _ with
        | none => rw [hrm] at hr; cases hr
        | some x =>
          obtain ⟨b', e'⟩ := x
          rw [hrm] at hr
          cases hr
          exact fun k hk => (remove1_keys hrm).1.mem_iff.1 (List.mem_cons_of_mem _ hk)

/-- under `IndexOK`, `removeFromPQ a id` removes only an entry of `id` -/
theorem removeFromPQ_keeps {a b : H} {id : Nat} (h : IndexOK a) (hr : removeFromPQ a id = some b)
    (k : Nat × Int) (hk : k ∈ keys a) (hne : k.1 ≠ id) : k ∈ keys b := by
  unfold removeFromPQ at hr
  split at hr
  · cases hr; exact hk
  · rename_i e hf
    obtain ⟨j, hj, he, hidx, hid⟩ := find_index h hf
    split at hr
    · cases hr; exact hk
    · split at hr
      · cases hr
      · have hj' : e.index.toNat = j := by omega
        rw [hj'] at hr
        cases hrm : remove1 a j with
        | none => rw [hrm] at hr; cases hr
        | some x =>
          obtain ⟨b', e'⟩ := x
          rw [hrm] at hr
          cases hr
          obtain ⟨hperm, _, hkey, _⟩ := remove1_keys hrm
          rcases List.mem_cons.1 (hperm.mem_iff.2 hk) with rfl | h'
          · rw [hkey, he] at hne
            exact absurd hid hne
          · exact h'

/-- under the heap invariant, removing an id that is stored succeeds and removes one entry of it -/
theorem removeFromPQ_spec (a : H) (id : Nat) (h : Inv a) (hid : id ∈ heapIds a) :
    ∃ b p, removeFromPQ a id = some b ∧ Inv b ∧ ((id, p) :: keys b).Perm (keys a) := by
  obtain ⟨p, hp⟩ := mem_heapIds.1 hid
  obtain ⟨x, hx, hkx⟩ := mem_keys.1 hp
  cases hf : a.find? (fun e => e.id == id) with
  | none =>
    have := Array.find?_eq_none.1 hf x hx
    simp only [key, Prod.mk.injEq] at hkx
    simp [hkx.1] at this
  | some e =>
    obtain ⟨j, hj, he, hidx, hid'⟩ := find_index h.2 hf
    obtain ⟨b, e', hrm⟩ := remove1_some a j hj
    have hj' : e.index.toNat = j := by omega
    have h1 : ¬ e.index = -1 := by omega
    have h2 : ¬ e.index < 0 := by omega
    refine ⟨b, e.pri, ?_, remove1_inv h hrm, ?_⟩
    · simp [removeFromPQ, hf, h1, h2, hj', hrm]
    · obtain ⟨hperm, _, hkey, _⟩ := remove1_keys hrm
      rw [hkey, he] at hperm
      simpa [key, hid'] using hperm

theorem touchDeadline_eq_min (now dts mt max : Int) :
    touchDeadline now dts mt max = min (now + mt) (dts + max) := by
  unfold touchDeadline
  split <;> omega

/-! ### A. the channel invariant -/

/-- the data invariant of a channel at rest (between API calls) -/
structure ChanInv (c : Chan) : Prop where
  ifInv : Inv c.ifpq
  dInv : Inv c.dpq
  ifIds : (heapIds c.ifpq).Perm (c.ifmap.map (·.id))
  ifNodup : (c.ifmap.map (·.id)).Nodup
  dIds : (heapIds c.dpq).Perm c.dmap
  dNodup : c.dmap.Nodup

theorem inv_empty : Inv (#[] : H) :=
  ⟨fun k hk => absurd hk (by simp), fun k hk => absurd hk (by simp)⟩

theorem inv_init : ChanInv {} where
  ifInv := inv_empty
  dInv := inv_empty
  ifIds := List.Perm.refl _
  ifNodup := List.nodup_nil
  dIds := List.Perm.refl _
  dNodup := List.nodup_nil

theorem heapIds_of_perm {a b : H} {id : Nat} {p : Int} (h : ((id, p) :: keys b).Perm (keys a)) :
    (id :: heapIds b).Perm (heapIds a) := h.map (fun x : Nat × Int => x.1)

/-- removing `id` from a heap-id list and from the (duplicate-free) key list it mirrors -/
theorem ids_remove {hs ms hb : List Nat} {id : Nat} (hperm : hs.Perm ms) (hn : ms.Nodup)
    (hrem : (id :: hb).Perm hs) : hb.Perm (ms.erase id) ∧ (ms.erase id).Nodup := by
  have hmem : id ∈ ms := (hrem.trans hperm).mem_iff.1 (List.mem_cons_self)
  exact ⟨((hrem.trans hperm).trans (List.perm_cons_erase hmem)).cons_inv, hn.erase id⟩

/-- an entry of `id` leaves the in-flight heap and `id` leaves the in-flight map -/
theorem chanInv_remove_if {c c' : Chan} (h : ChanInv c) {id : Nat} {p : Int}
    (hinv : Inv c'.ifpq) (hk : ((id, p) :: keys c'.ifpq).Perm (keys c.ifpq))
    (h2 : c'.ifmap = erase c.ifmap id) (h3 : c'.dpq = c.dpq) (h4 : c'.dmap = c.dmap) :
    ChanInv c' := by
  have hk' : (id :: heapIds c'.ifpq).Perm (heapIds c.ifpq) := heapIds_of_perm hk
  have := ids_remove h.ifIds h.ifNodup hk'
  refine ⟨hinv, h3 ▸ h.dInv, ?_, ?_, h3 ▸ h4 ▸ h.dIds, h4 ▸ h.dNodup⟩
  · rw [h2, erase_ids_nodup _ _ h.ifNodup]; exact this.1
  · rw [h2, erase_ids_nodup _ _ h.ifNodup]; exact this.2

/-- an entry of `id` leaves the deferred heap and `id` leaves the deferred key set -/
theorem chanInv_remove_d {c c' : Chan} (h : ChanInv c) {id : Nat} {p : Int}
    (hinv : Inv c'.dpq) (hk : ((id, p) :: keys c'.dpq).Perm (keys c.dpq))
    (h2 : c'.dmap = c.dmap.erase id) (h3 : c'.ifpq = c.ifpq) (h4 : c'.ifmap = c.ifmap) :
    ChanInv c' := by
  have hk' : (id :: heapIds c'.dpq).Perm (heapIds c.dpq) := heapIds_of_perm hk
  have := ids_remove h.dIds h.dNodup hk'
  exact ⟨h3 ▸ h.ifInv, hinv, h3 ▸ h4 ▸ h.ifIds, h4 ▸ h.ifNodup, h2 ▸ this.1, h2 ▸ this.2⟩

/-- an id of the in-flight map is stored in the in-flight heap -/
theorem ChanInv.heap_of_lookup {c : Chan} (h : ChanInv c) {id : Nat} {r : InF}
    (hl : lookup c.ifmap id = some r) : id ∈ heapIds c.ifpq := by
  obtain ⟨hr, hid⟩ := lookup_some hl
  exact h.ifIds.mem_iff.2 (List.mem_map.2 ⟨r, hr, hid⟩)

theorem startInFlight_inv (c : Chan) (now : Int) (id : Nat) (client timeout : Int)
    (h : ChanInv c) : ChanInv (startInFlight c now id client timeout).1 := by
  unfold startInFlight
  split
  · exact h
  · rename_i hn
    have hn' : id ∉ c.ifmap.map (·.id) := by
      apply lookup_none_iff.1
      simpa using hn
    refine ⟨push_inv _ _ _ h.ifInv, h.dInv, ?_, ?_, h.dIds, h.dNodup⟩
    · exact (heapIds_push _ _ _).trans (h.ifIds.cons id)
    · exact List.nodup_cons.2 ⟨hn', h.ifNodup⟩

theorem touch_inv (c : Chan) (now client : Int) (id : Nat) (mt max : Int) (h : ChanInv c) :
    ChanInv (touch c now client id mt max).1 ∧ (touch c now client id mt max).2 ≠ .panic := by
  unfold touch
  split
  · exact ⟨h, by simp⟩
  · rename_i r hl
    split
    · exact ⟨h, by simp⟩
    · obtain ⟨b, p, hb, hinv, hperm⟩ := removeFromPQ_spec c.ifpq id h.ifInv (h.heap_of_lookup hl)
      rw [hb]
      refine ⟨⟨push_inv _ _ _ hinv, h.dInv, ?_, h.ifNodup, h.dIds, h.dNodup⟩, by simp⟩
      exact ((heapIds_push _ _ _).trans (heapIds_of_perm hperm)).trans h.ifIds

theorem finish_inv (c : Chan) (client : Int) (id : Nat) (h : ChanInv c) :
    ChanInv (finish c client id).1 ∧ (finish c client id).2 ≠ .panic := by
  unfold finish
  split
  · exact ⟨h, by simp⟩
  · rename_i r hl
    split
    · exact ⟨h, by simp⟩
    · obtain ⟨b, p, hb, hinv, hperm⟩ := removeFromPQ_spec c.ifpq id h.ifInv (h.heap_of_lookup hl)
      rw [hb]
      exact ⟨chanInv_remove_if h hinv hperm rfl rfl rfl, by simp⟩

theorem startDeferred_inv (c : Chan) (now : Int) (id : Nat) (timeout : Int) (h : ChanInv c) :
    ChanInv (startDeferred c now id timeout).1 ∧ (startDeferred c now id timeout).2 ≠ .panic := by
  unfold startDeferred
  split
  · exact ⟨h, by simp⟩
  · rename_i hn
    have hn' : id ∉ c.dmap := by simpa using hn
    refine ⟨⟨h.ifInv, push_inv _ _ _ h.dInv, h.ifIds, h.ifNodup, ?_, ?_⟩, by simp⟩
    · exact (heapIds_push _ _ _).trans (h.dIds.cons id)
    · exact List.nodup_cons.2 ⟨hn', h.dNodup⟩

theorem requeue_inv (c : Chan) (now client : Int) (id : Nat) (timeout : Int) (h : ChanInv c) :
    ChanInv (requeue c now client id timeout).1 ∧ (requeue c now client id timeout).2 ≠ .panic := by
  unfold requeue
  split
  · exact ⟨h, by simp⟩
  · rename_i r hl
    split
    · exact ⟨h, by simp⟩
    · obtain ⟨b, p, hb, hinv, hperm⟩ := removeFromPQ_spec c.ifpq id h.ifInv (h.heap_of_lookup hl)
      rw [hb]
      dsimp only
      split
      · exact ⟨chanInv_remove_if h hinv hperm rfl rfl rfl, by simp⟩
      · exact startDeferred_inv _ _ _ _ (chanInv_remove_if h hinv hperm rfl rfl rfl)

/-! ### A + C. the scans under the invariant: invariant kept, nothing due left -/

theorem pas1_none {a : H} {t : Int} (ho : HeapOrd a) (h : peekAndShift1 a t = none) :
    ∀ k (hk : k < a.size), t < a[k].pri := by
  intro k hk
  have h0 : 0 < a.size := by omega
  have hr := root_min a ho k hk
  by_cases hle : a[0].pri ≤ t
  · obtain ⟨b, e, hs⟩ := (peekAndShift1_some_iff a t).2 ⟨h0, hle⟩
    rw [h] at hs; cases hs
  · omega

theorem pas2_none {a : H} {t : Int} (ho : HeapOrd a) (h : peekAndShift2 a t = none) :
    ∀ k (hk : k < a.size), t < a[k].pri := by
  intro k hk
  have h0 : 0 < a.size := by omega
  have hr := root_min a ho k hk
  by_cases hle : a[0].pri ≤ t
  · obtain ⟨b, e, hs⟩ := (peekAndShift2_some_iff a t).2 ⟨h0, hle⟩
    rw [h] at hs; cases hs
  · omega

theorem scanInFlightLoop_spec (t : Int) (c : Chan) (dirty : Bool) (rel : List E) (h : ChanInv c) :
    ∃ ex, (scanInFlightLoop t c dirty rel).released = rel ++ ex ∧
      (scanInFlightLoop t c dirty rel).dirty = (dirty || !ex.isEmpty) ∧
      ChanInv (scanInFlightLoop t c dirty rel).chan ∧
      (∀ k (hk : k < (scanInFlightLoop t c dirty rel).chan.ifpq.size),
        t < ((scanInFlightLoop t c dirty rel).chan.ifpq[k]).pri) ∧
      (ex.map key ++ keys (scanInFlightLoop t c dirty rel).chan.ifpq).Perm (keys c.ifpq) := by
  fun_induction scanInFlightLoop t c dirty rel with
  | case1 c dirty rel hp =>
    exact ⟨[], by simp, by simp, h, pas1_none h.ifInv.1 hp, List.Perm.refl _⟩
  | case2 c dirty rel pq e hp hl =>
    exfalso
    have h1 : key e ∈ keys c.ifpq :=
      (peekAndShift1_keys hp).1.mem_iff.1 List.mem_cons_self
    have h2 : e.id ∈ heapIds c.ifpq := mem_heapIds.2 ⟨e.pri, h1⟩
    exact lookup_none_iff.1 hl (h.ifIds.mem_iff.1 h2)
  | case3 c dirty rel pq e hp r hl ih =>
    have hk := (peekAndShift1_keys hp).1
    obtain ⟨ex, h1, h2, h3, h4, h5⟩ := ih
      (chanInv_remove_if (id := e.id) (p := e.pri) h (peekAndShift1_inv h.ifInv hp) hk rfl rfl rfl)
    refine ⟨e :: ex, by simp [h1], by simp [h2], h3, h4, ?_⟩
    exact (List.Perm.cons (key e) h5).trans hk

theorem scanDeferredLoop_spec (t : Int) (c : Chan) (dirty : Bool) (rel : List E) (h : ChanInv c) :
    ∃ ex, (scanDeferredLoop t c dirty rel).released = rel ++ ex ∧
      (scanDeferredLoop t c dirty rel).dirty = (dirty || !ex.isEmpty) ∧
      ChanInv (scanDeferredLoop t c dirty rel).chan ∧
      (∀ k (hk : k < (scanDeferredLoop t c dirty rel).chan.dpq.size),
        t < ((scanDeferredLoop t c dirty rel).chan.dpq[k]).pri) ∧
      (ex.map key ++ keys (scanDeferredLoop t c dirty rel).chan.dpq).Perm (keys c.dpq) := by
  fun_induction scanDeferredLoop t c dirty rel with
  | case1 c dirty rel hp =>
    exact ⟨[], by simp, by simp, h, pas2_none h.dInv.1 hp, List.Perm.refl _⟩
  | case2 c dirty rel pq e hp hl ih =>
    have hk := (peekAndShift2_keys hp).1
    obtain ⟨ex, h1, h2, h3, h4, h5⟩ := ih
      (chanInv_remove_d (id := e.id) (p := e.pri) h (peekAndShift2_inv h.dInv hp) hk rfl rfl rfl)
    refine ⟨e :: ex, by simp [h1], by simp [h2], h3, h4, ?_⟩
    exact (List.Perm.cons (key e) h5).trans hk
  | case3 c dirty rel pq e hp hl =>
    exfalso
    have h1 : key e ∈ keys c.dpq :=
      (peekAndShift2_keys hp).1.mem_iff.1 List.mem_cons_self
    have h2 : e.id ∈ heapIds c.dpq := mem_heapIds.2 ⟨e.pri, h1⟩
    exact hl (by simpa using h.dIds.mem_iff.1 h2)

theorem scanInFlight_inv (c : Chan) (t : Int) (h : ChanInv c) : ChanInv (scanInFlight c t).chan := by
  obtain ⟨_, _, _, h3, _⟩ := scanInFlightLoop_spec t c false [] h
  exact h3

theorem scanDeferred_inv (c : Chan) (t : Int) (h : ChanInv c) : ChanInv (scanDeferred c t).chan := by
  obtain ⟨_, _, _, h3, _⟩ := scanDeferredLoop_spec t c false [] h
  exact h3

theorem step_inv (max : Int) (c : Chan) (op : Op) (h : ChanInv c) : ChanInv (step max c op) := by
  cases op with
  | inflight now id client timeout => exact startInFlight_inv c now id client timeout h
  | touch now client id mt => exact (touch_inv c now client id mt max h).1
  | finish client id => exact (finish_inv c client id h).1
  | requeue now client id timeout => exact (requeue_inv c now client id timeout h).1
  | defer now id timeout => exact (startDeferred_inv c now id timeout h).1
  | scanIf t => exact scanInFlight_inv c t h
  | scanDef t => exact scanDeferred_inv c t h

theorem run_inv (max : Int) (c : Chan) (ops : List Op) (h : ChanInv c) :
    ChanInv (run max c ops) := by
  induction ops generalizing c with
  | nil => exact h
  | cons op ops ih => exact ih _ (step_inv max c op h)

/-- C: from a state satisfying the invariant, a scan at `t` leaves nothing due in the heap, and
released ∪ remaining = before -/
theorem scanInFlight_complete (c : Chan) (t : Int) (h : ChanInv c) :
    (∀ k (hk : k < (scanInFlight c t).chan.ifpq.size), t < ((scanInFlight c t).chan.ifpq[k]).pri) ∧
    ((scanInFlight c t).released.map key ++ keys (scanInFlight c t).chan.ifpq).Perm (keys c.ifpq) := by
  obtain ⟨ex, h1, _, _, h4, h5⟩ := scanInFlightLoop_spec t c false [] h
  unfold scanInFlight
  rw [h1]
  exact ⟨h4, by simpa using h5⟩

theorem scanDeferred_complete (c : Chan) (t : Int) (h : ChanInv c) :
    (∀ k (hk : k < (scanDeferred c t).chan.dpq.size), t < ((scanDeferred c t).chan.dpq[k]).pri) ∧
    ((scanDeferred c t).released.map key ++ keys (scanDeferred c t).chan.dpq).Perm (keys c.dpq) := by
  obtain ⟨ex, h1, _, _, h4, h5⟩ := scanDeferredLoop_spec t c false [] h
  unfold scanDeferred
  rw [h1]
  exact ⟨h4, by simpa using h5⟩

/-- under the invariant "dirty" means exactly "something was released" -/
theorem scanInFlight_dirty (c : Chan) (t : Int) (h : ChanInv c) :
    (scanInFlight c t).dirty = !(scanInFlight c t).released.isEmpty := by
  obtain ⟨ex, h1, h2, _⟩ := scanInFlightLoop_spec t c false [] h
  unfold scanInFlight
  rw [h1, h2]
  simp

theorem scanDeferred_dirty (c : Chan) (t : Int) (h : ChanInv c) :
    (scanDeferred c t).dirty = !(scanDeferred c t).released.isEmpty := by
  obtain ⟨ex, h1, h2, _⟩ := scanDeferredLoop_spec t c false [] h
  unfold scanDeferred
  rw [h1, h2]
  simp

/-! ### D. TOUCH -/

/-- (holds from any state; the invariant is not needed) -/
theorem touch_sets_deadline' (c : Chan) (now client : Int) (id : Nat) (mt max : Int)
    (hok : (touch c now client id mt max).2 = .ok) :
    ∃ r, lookup c.ifmap id = some r ∧ r.client = client ∧
      (id, min (now + mt) (r.dts + max)) ∈ keys (touch c now client id mt max).1.ifpq ∧
      (touch c now client id mt max).1.ifmap = c.ifmap := by
  unfold touch at hok ⊢
  split at hok
  · cases hok
  · rename_i r hl
    refine ⟨r, hl, ?_⟩
    split at hok
    · cases hok
    · rename_i hcl
      rw [if_neg hcl]
      split at hok
      · cases hok
      · rename_i pq hpq
        have := (push_keys pq id (touchDeadline now r.dts mt max)).mem_iff.2 List.mem_cons_self
        rw [touchDeadline_eq_min] at this
        simp only [touchDeadline_eq_min]
        exact ⟨by simpa using hcl, this, trivial⟩

theorem touch_sets_deadline (c : Chan) (now client : Int) (id : Nat) (mt max : Int)
    (_h : ChanInv c) (hok : (touch c now client id mt max).2 = .ok) :
    ∃ r, lookup c.ifmap id = some r ∧ r.client = client ∧
      (id, min (now + mt) (r.dts + max)) ∈ keys (touch c now client id mt max).1.ifpq ∧
      (touch c now client id mt max).1.ifmap = c.ifmap :=
  touch_sets_deadline' c now client id mt max hok

/-- every in-flight deadline is at most deliveryTS + max -/
def CapInv (max : Int) (c : Chan) : Prop :=
  ∀ r ∈ c.ifmap, ∀ p, (r.id, p) ∈ keys c.ifpq → p ≤ r.dts + max

theorem CapInv.mono {max : Int} {c c' : Chan} (hc : CapInv max c)
    (hm : ∀ r ∈ c'.ifmap, r ∈ c.ifmap) (hk : ∀ k ∈ keys c'.ifpq, k ∈ keys c.ifpq) :
    CapInv max c' := fun r hr p hp => hc r (hm r hr) p (hk _ hp)

theorem cap_startInFlight (max : Int) (c : Chan) (now : Int) (id : Nat) (client timeout : Int)
    (h : ChanInv c) (hc : CapInv max c) (ht : timeout ≤ max) :
    CapInv max (startInFlight c now id client timeout).1 := by
  unfold startInFlight
  split
  · exact hc
  · rename_i hn
    have hn' : id ∉ c.ifmap.map (·.id) := by
      apply lookup_none_iff.1
      simpa using hn
    intro r hr p hp
    simp only at hr hp
    have hp' := (push_keys _ _ _).mem_iff.1 hp
    rcases List.mem_cons.1 hr with rfl | hr
    · rcases List.mem_cons.1 hp' with he | hp'
      · simp only [Prod.mk.injEq] at he
        simp only
        omega
      · exact absurd (h.ifIds.mem_iff.1 (mem_heapIds.2 ⟨p, hp'⟩)) hn'
    · rcases List.mem_cons.1 hp' with he | hp'
      · simp only [Prod.mk.injEq] at he
        exact absurd (List.mem_map.2 ⟨r, hr, he.1⟩) hn'
      · exact hc r hr p hp'

theorem cap_touch (max : Int) (c : Chan) (now client : Int) (id : Nat) (mt : Int)
    (h : ChanInv c) (hc : CapInv max c) : CapInv max (touch c now client id mt max).1 := by
  unfold touch
  split
  · exact hc
  · rename_i r0 hl
    split
    · exact hc
    · split
      · exact hc
      · rename_i pq hpq
        intro r hr p hp
        simp only at hr hp
        rcases List.mem_cons.1 ((push_keys _ _ _).mem_iff.1 hp) with he | hp'
        · simp only [Prod.mk.injEq] at he
          have := lookup_of_mem_nodup h.ifNodup hr
          rw [he.1, hl] at this
          cases this
          rw [he.2, touchDeadline_eq_min]
          omega
        · exact hc r hr p (removeFromPQ_sub hpq _ hp')

theorem cap_finish (max : Int) (c : Chan) (client : Int) (id : Nat) (hc : CapInv max c) :
    CapInv max (finish c client id).1 := by
  unfold finish
  split
  · exact hc
  · split
    · exact hc
    · split
      · exact hc
      · rename_i pq hpq
        exact hc.mono (fun r hr => mem_erase_sub hr) (removeFromPQ_sub hpq)

theorem startDeferred_frame (c : Chan) (now : Int) (id : Nat) (timeout : Int) :
    (startDeferred c now id timeout).1.ifpq = c.ifpq ∧
      (startDeferred c now id timeout).1.ifmap = c.ifmap ∧
      (startDeferred c now id timeout).1.ready = c.ready := by
  unfold startDeferred
  split <;> simp

theorem cap_requeue (max : Int) (c : Chan) (now client : Int) (id : Nat) (timeout : Int)
    (hc : CapInv max c) : CapInv max (requeue c now client id timeout).1 := by
  unfold requeue
  split
  · exact hc
  · split
    · exact hc
    · split
      · exact hc
      · rename_i pq hpq
        split
        · exact hc.mono (fun r hr => mem_erase_sub hr) (removeFromPQ_sub hpq)
        · obtain ⟨h1, h2, _⟩ := startDeferred_frame
            { c with ifpq := pq, ifmap := erase c.ifmap id } now id timeout
          refine hc.mono ?_ ?_
          · rw [h2]; exact fun r hr => mem_erase_sub hr
          · rw [h1]; exact removeFromPQ_sub hpq

theorem cap_step (max : Int) (c : Chan) (op : Op) (h : ChanInv c) (hc : CapInv max c)
    (hop : ∀ now id client timeout, op = .inflight now id client timeout → timeout ≤ max) :
    CapInv max (step max c op) := by
  cases op with
  | inflight now id client timeout =>
    exact cap_startInFlight max c now id client timeout h hc (hop _ _ _ _ rfl)
  | touch now client id mt => exact cap_touch max c now client id mt h hc
  | finish client id => exact cap_finish max c client id hc
  | requeue now client id timeout => exact cap_requeue max c now client id timeout hc
  | defer now id timeout =>
    obtain ⟨h1, h2, _⟩ := startDeferred_frame c now id timeout
    exact hc.mono (by simp [step, h2]) (by simp [step, h1])
  | scanIf t =>
    obtain ⟨_, _, _, _, _, _, h6, h7, _⟩ := scanInFlightLoop_gen t c false []
    exact hc.mono h7 h6
  | scanDef t =>
    obtain ⟨h1, h2⟩ := scanDeferred_frame c t
    exact hc.mono (by simp [step, h2]) (by simp [step, h1])

theorem cap_run (max : Int) (c : Chan) (ops : List Op) (h : ChanInv c) (hc : CapInv max c)
    (hops : ∀ op ∈ ops, ∀ now id client timeout, op = .inflight now id client timeout →
      timeout ≤ max) : CapInv max (run max c ops) := by
  induction ops generalizing c with
  | nil => exact hc
  | cons op ops ih =>
    exact ih _ (step_inv max c op h)
      (cap_step max c op h hc (hops op List.mem_cons_self))
      (fun op' hop' => hops op' (List.mem_cons_of_mem _ hop'))

theorem cap_init (max : Int) : CapInv max {} := fun _ hr => absurd hr (by simp)

/-! ### E. requeue / defer and histories -/

theorem startDeferred_ok (c : Chan) (now : Int) (id : Nat) (d : Int)
    (hok : (startDeferred c now id d).2 = .ok) :
    (id, now + d) ∈ keys (startDeferred c now id d).1.dpq ∧
      (startDeferred c now id d).1.ready = c.ready := by
  refine ⟨?_, (startDeferred_frame c now id d).2.2⟩
  unfold startDeferred at hok ⊢
  split at hok
  · cases hok
  · rename_i hn
    rw [if_neg hn]
    exact (push_keys _ _ _).mem_iff.2 List.mem_cons_self

/-- the deferred heap only grows under `startDeferred` -/
theorem startDeferred_keeps (c : Chan) (now : Int) (id : Nat) (d : Int) :
    ∀ k ∈ keys c.dpq, k ∈ keys (startDeferred c now id d).1.dpq := by
  intro k hk
  unfold startDeferred
  split
  · exact hk
  · exact (push_keys _ _ _).mem_iff.2 (List.mem_cons_of_mem _ hk)

/-- what a successful `requeue` did -/
theorem requeue_ok_cases (c : Chan) (now client : Int) (id : Nat) (d : Int)
    (hok : (requeue c now client id d).2 = .ok) :
    ∃ pq, removeFromPQ c.ifpq id = some pq ∧
      ((d = 0 ∧ requeue c now client id d =
          ({ c with ifpq := pq, ifmap := erase c.ifmap id, ready := c.ready ++ [id] }, .ok)) ∨
       (d ≠ 0 ∧ requeue c now client id d =
          startDeferred { c with ifpq := pq, ifmap := erase c.ifmap id } now id d)) := by
  unfold requeue at hok ⊢
  split at hok
  · cases hok
  · split at hok
    · cases hok
    · rename_i hcl
      rw [if_neg hcl]
      split at hok
      · cases hok
      · rename_i pq hpq
        refine ⟨pq, hpq, ?_⟩
        by_cases hd : d = 0
        · exact Or.inl ⟨hd, by simp [hd]⟩
        · exact Or.inr ⟨hd, by simp [hd]⟩

theorem requeue_zero (c : Chan) (now client : Int) (id : Nat)
    (hok : (requeue c now client id 0).2 = .ok) :
    (requeue c now client id 0).1.ready = c.ready ++ [id] := by
  obtain ⟨pq, _, ⟨_, he⟩ | ⟨hd, _⟩⟩ := requeue_ok_cases c now client id 0 hok
  · rw [he]
  · exact absurd rfl hd

theorem requeue_delay (c : Chan) (now client : Int) (id : Nat) (d : Int) (hd : d ≠ 0)
    (hok : (requeue c now client id d).2 = .ok) :
    (id, now + d) ∈ keys (requeue c now client id d).1.dpq ∧
      (requeue c now client id d).1.ready = c.ready := by
  obtain ⟨pq, _, ⟨hd0, _⟩ | ⟨_, he⟩⟩ := requeue_ok_cases c now client id d hok
  · exact absurd hd0 hd
  · rw [he] at hok ⊢
    exact startDeferred_ok _ now id d hok

/-- the deferred heap only grows under `requeue`, and `ready` changes only for timeout 0 -/
theorem requeue_dpq_ready (c : Chan) (now client : Int) (id : Nat) (d : Int) :
    (∀ k ∈ keys c.dpq, k ∈ keys (requeue c now client id d).1.dpq) ∧
      (d ≠ 0 → (requeue c now client id d).1.ready = c.ready) := by
  unfold requeue
  split
  · exact ⟨fun _ h => h, fun _ => rfl⟩
  · split
    · exact ⟨fun _ h => h, fun _ => rfl⟩
    · split
      · exact ⟨fun _ h => h, fun _ => rfl⟩
      · rename_i pq hpq
        split
        · rename_i hd
          exact ⟨fun _ h => h, fun h => absurd hd h⟩
        · exact ⟨startDeferred_keeps { c with ifpq := pq, ifmap := erase c.ifmap id } now id d,
            fun _ => (startDeferred_frame _ now id d).2.2⟩

theorem touch_frame (c : Chan) (now client : Int) (id : Nat) (mt max : Int) :
    (touch c now client id mt max).1.dpq = c.dpq ∧ (touch c now client id mt max).1.ready = c.ready := by
  unfold touch
  split
  · exact ⟨rfl, rfl⟩
  · split
    · exact ⟨rfl, rfl⟩
    · split <;> exact ⟨rfl, rfl⟩

theorem finish_frame (c : Chan) (client : Int) (id : Nat) :
    (finish c client id).1.dpq = c.dpq ∧ (finish c client id).1.ready = c.ready := by
  unfold finish
  split
  · exact ⟨rfl, rfl⟩
  · split
    · exact ⟨rfl, rfl⟩
    · split <;> exact ⟨rfl, rfl⟩

theorem startInFlight_frame (c : Chan) (now : Int) (id : Nat) (client timeout : Int) :
    (startInFlight c now id client timeout).1.dpq = c.dpq ∧
      (startInFlight c now id client timeout).1.ready = c.ready := by
  unfold startInFlight
  split <;> exact ⟨rfl, rfl⟩

theorem deferred_stays_step (max : Int) (c : Chan) (id : Nat) (p : Int)
    (hin : (id, p) ∈ keys c.dpq) (op : Op) (hearly : ∀ t, op = .scanDef t → t < p) :
    (id, p) ∈ keys (step max c op).dpq := by
  cases op with
  | inflight now id' client timeout =>
    simp only [step, (startInFlight_frame c now id' client timeout).1]; exact hin
  | touch now client id' mt => simp only [step, (touch_frame c now client id' mt max).1]; exact hin
  | finish client id' => simp only [step, (finish_frame c client id').1]; exact hin
  | requeue now client id' timeout => exact (requeue_dpq_ready c now client id' timeout).1 _ hin
  | defer now id' timeout => exact startDeferred_keeps c now id' timeout _ hin
  | scanIf t => simp only [step, (scanInFlight_frame c t).1]; exact hin
  | scanDef t =>
    obtain ⟨_, _, _, _, _, _, _, h8⟩ := scanDeferredLoop_gen t c false []
    exact h8 _ hin (hearly t rfl)

/-- a deferred entry stays in the deferred heap through EVERY history whose deferred scans are all
earlier than its release time (any state, no invariant) -/
theorem deferred_stays (max : Int) (c : Chan) (id : Nat) (p : Int) (hin : (id, p) ∈ keys c.dpq)
    (ops : List Op) (hearly : ∀ t, Op.scanDef t ∈ ops → t < p) :
    (id, p) ∈ keys (run max c ops).dpq := by
  induction ops generalizing c with
  | nil => exact hin
  | cons op ops ih =>
    refine ih _ (deferred_stays_step max c id p hin op ?_)
      (fun t ht => hearly t (List.mem_cons_of_mem _ ht))
    intro t he
    exact hearly t (he ▸ List.mem_cons_self)

/-- only the scans and requeue-with-0 hand ids to `put` -/
theorem step_ready_other (max : Int) (c : Chan) (op : Op) (h1 : ∀ t, op ≠ .scanIf t)
    (h2 : ∀ t, op ≠ .scanDef t) (h3 : ∀ now cl id, op ≠ .requeue now cl id 0) :
    (step max c op).ready = c.ready := by
  cases op with
  | inflight now id client timeout => exact (startInFlight_frame c now id client timeout).2
  | touch now client id mt => exact (touch_frame c now client id mt max).2
  | finish client id => exact (finish_frame c client id).2
  | requeue now client id timeout =>
    apply (requeue_dpq_ready c now client id timeout).2
    intro hd
    exact h3 now client id (hd ▸ rfl)
  | defer now id timeout => exact (startDeferred_frame c now id timeout).2.2
  | scanIf t => exact absurd rfl (h1 t)
  | scanDef t => exact absurd rfl (h2 t)

/-- the ids a history hands to `put` beyond those already there: per step, exactly the released
entries of a scan, or the id of a requeue-with-0 that succeeded -/
theorem step_ready_scan (max : Int) (c : Chan) (t : Int) :
    (step max c (.scanIf t)).ready = c.ready ++ (scanInFlight c t).released.map (·.id) ∧
    (step max c (.scanDef t)).ready = c.ready ++ (scanDeferred c t).released.map (·.id) :=
  ⟨scanInFlight_ready c t, scanDeferred_ready c t⟩

theorem startInFlight_keeps (c : Chan) (now : Int) (id : Nat) (client timeout : Int) :
    ∀ k ∈ keys c.ifpq, k ∈ keys (startInFlight c now id client timeout).1.ifpq := by
  intro k hk
  unfold startInFlight
  split
  · exact hk
  · exact (push_keys _ _ _).mem_iff.2 (List.mem_cons_of_mem _ hk)

theorem touch_keeps (c : Chan) (now client : Int) (id' : Nat) (mt max : Int) (h : IndexOK c.ifpq)
    (k : Nat × Int) (hk : k ∈ keys c.ifpq) (hne : k.1 ≠ id') :
    k ∈ keys (touch c now client id' mt max).1.ifpq := by
  unfold touch
  split
  · exact hk
  · split
    · exact hk
    · split
      · exact hk
      · rename_i pq hpq
        exact (push_keys _ _ _).mem_iff.2
          (List.mem_cons_of_mem _ (removeFromPQ_keeps h hpq k hk hne))

theorem finish_keeps (c : Chan) (client : Int) (id' : Nat) (h : IndexOK c.ifpq)
    (k : Nat × Int) (hk : k ∈ keys c.ifpq) (hne : k.1 ≠ id') :
    k ∈ keys (finish c client id').1.ifpq := by
  unfold finish
  split
  · exact hk
  · split
    · exact hk
    · split
      · exact hk
      · rename_i pq hpq
        exact removeFromPQ_keeps h hpq k hk hne

theorem requeue_keeps (c : Chan) (now client : Int) (id' : Nat) (d : Int) (h : IndexOK c.ifpq)
    (k : Nat × Int) (hk : k ∈ keys c.ifpq) (hne : k.1 ≠ id') :
    k ∈ keys (requeue c now client id' d).1.ifpq := by
  unfold requeue
  split
  · exact hk
  · split
    · exact hk
    · split
      · exact hk
      · rename_i pq hpq
        split
        · exact removeFromPQ_keeps h hpq k hk hne
        · rw [(startDeferred_frame _ now id' d).1]
          exact removeFromPQ_keeps h hpq k hk hne

theorem inflight_stays_step (max : Int) (c : Chan) (h : IndexOK c.ifpq) (id : Nat) (p : Int)
    (hin : (id, p) ∈ keys c.ifpq) (op : Op) (hearly : ∀ t, op = .scanIf t → t < p)
    (hnot : (∀ now cl mt, op ≠ .touch now cl id mt) ∧ (∀ cl, op ≠ .finish cl id) ∧
      (∀ now cl d, op ≠ .requeue now cl id d)) :
    (id, p) ∈ keys (step max c op).ifpq := by
  cases op with
  | inflight now id' client timeout => exact startInFlight_keeps c now id' client timeout _ hin
  | touch now client id' mt =>
    exact touch_keeps c now client id' mt max h _ hin (fun he => hnot.1 now client mt (he ▸ rfl))
  | finish client id' =>
    exact finish_keeps c client id' h _ hin (fun he => hnot.2.1 client (he ▸ rfl))
  | requeue now client id' d =>
    exact requeue_keeps c now client id' d h _ hin (fun he => hnot.2.2 now client d (he ▸ rfl))
  | defer now id' timeout =>
    simp only [step, (startDeferred_frame c now id' timeout).1]; exact hin
  | scanIf t =>
    obtain ⟨_, _, _, _, _, _, _, _, h8⟩ := scanInFlightLoop_gen t c false []
    exact h8 _ hin (hearly t rfl)
  | scanDef t => simp only [step, (scanDeferred_frame c t).1]; exact hin

/-- an in-flight entry stays until a scan at/after its deadline or an operation naming its id -/
theorem inflight_stays (max : Int) (c : Chan) (h : ChanInv c) (id : Nat) (p : Int)
    (hin : (id, p) ∈ keys c.ifpq) (ops : List Op) (hearly : ∀ t, Op.scanIf t ∈ ops → t < p)
    (hnot : ∀ op ∈ ops, (∀ now cl mt, op ≠ .touch now cl id mt) ∧ (∀ cl, op ≠ .finish cl id) ∧
      (∀ now cl d, op ≠ .requeue now cl id d)) :
    (id, p) ∈ keys (run max c ops).ifpq := by
  induction ops generalizing c with
  | nil => exact hin
  | cons op ops ih =>
    refine ih _ (step_inv max c op h)
      (inflight_stays_step max c h.ifInv.2 id p hin op ?_ (hnot op List.mem_cons_self))
      (fun t ht => hearly t (List.mem_cons_of_mem _ ht))
      (fun op' hop' => hnot op' (List.mem_cons_of_mem _ hop'))
    intro t he
    exact hearly t (he ▸ List.mem_cons_self)

/-! ### non-vacuity: concrete instances

(`decide +kernel`: the heap operations are defined by well-founded recursion, which the kernel
evaluates but the elaborator's `decide` does not unfold.) -/

/-- a small history: two messages in flight, one touched, a scan that releases the other -/
example :
    let c := run 100 {} [.inflight 0 7 1 10, .inflight 1 8 1 50, .touch 5 1 8 20, .scanIf 12]
    keys c.ifpq = [(8, 25)] ∧ c.ready = [7] ∧ c.ifmap.map (·.id) = [8] := by decide +kernel

/-- the same by plain unfolding -/
example :
    keys (run 100 {} [.inflight 0 7 1 10, .touch 5 1 7 20]).ifpq = [(7, 25)] := by
  simp [run, step, startInFlight, lookup, touch, removeFromPQ, push, up, remove1, takeLast,
    touchDeadline, keys, key]

/-- touch hits the cap: now + msgTimeout = 95 + 60 is later than deliveryTS + max = 0 + 100 -/
example : touchDeadline 95 0 60 100 = 100 := by decide

example :
    keys (run 100 {} [.inflight 0 7 1 10, .touch 95 1 7 60]).ifpq = [(7, 100)] := by
  decide +kernel

/-- requeue with a delay goes through the deferred heap and comes out at its time, not before -/
example :
    let ops := [.inflight 0 7 1 10, .requeue 3 1 7 20]
    keys (run 100 {} ops).dpq = [(7, 23)] ∧
      (run 100 {} (ops ++ [.scanDef 22])).ready = [] ∧
      (run 100 {} (ops ++ [.scanDef 23])).ready = [7] := by decide +kernel

/-- the hypotheses of `inflight_stays` / `cap_run` are satisfiable on a history with content -/
example :
    (7, 10) ∈ keys (run 100 (run 100 {} [.inflight 0 7 1 10])
      [.inflight 1 8 1 50, .finish 1 8, .scanIf 9]).ifpq :=
  inflight_stays 100 _ (run_inv 100 _ _ inv_init) 7 10 (by decide +kernel)
    [.inflight 1 8 1 50, .finish 1 8, .scanIf 9] (by simp) (by simp)

example : uniqRands 20 3 (fun i => 7 * i + 2) = some [2, 0, 1] := by decide

example : (uniqRands 2 5 (fun i => 7 * i + 2)).map List.length = some 2 := by decide

end Nsq.Proofs.Timing
