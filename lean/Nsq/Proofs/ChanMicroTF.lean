/-
E2 / C04 — the timed micro-step model `Nsq.Model.ChanMicroT` in the F48 shape (`fixed = true`, /repo 88fd245:
`pushInFlightMessage` inserts into the in-flight map AND the deadline heap in one critical section).

Invariant `FInv` (round 9, audit A3 / A11; the plan (a)–(e) of docs/C04.md mechanised):
 (e) no heap push is ever pending;  (f) the heap's ids are the untimed model's heap, entry for entry;
 (d) the ids of the heap entries are pairwise distinct;  (b) an entry's key is its object's CURRENT `pri`;
 (c) an entry's id is in the in-flight map, or an answering goroutine (FIN / REQ / TOUCH between
     `popInFlightMessage` and `removeFromInFlightPQ`) holds it;
 (a) — every in-map id has an entry keyed with its current `pri` — follows from `MInv.orph`, (e), (f), (b).
`stepT_finv`: every micro-step of the fixed shape preserves it, whatever the schedule.
-/
import Nsq.Proofs.ChanMicroT
namespace Nsq.Proofs.ChanMicroTF
open Nsq.Model.ChanMicro Nsq.Model.ChanMicroT Nsq.Proofs.ChanMicro

/-! list helpers -/

theorem eraseK_fst (hk : List (Nat × Int)) (id : Nat) :
    (eraseK hk id).map Prod.fst = (hk.map Prod.fst).erase id := by
  induction hk with
  | nil => rfl
  | cons e l ih =>
    by_cases he : e.1 = id
    · simp [eraseK, he]
    · simp only [eraseK, he, ↓reduceIte, List.map_cons]
      rw [List.erase_cons_tail (by simpa using he), ih]

theorem mem_eraseK {hk : List (Nat × Int)} {id : Nat} {e : Nat × Int} (h : e ∈ eraseK hk id) : e ∈ hk := by
  induction hk with
  | nil => simp [eraseK] at h
  | cons x l ih =>
    by_cases hx : x.1 = id
    · simp only [eraseK, hx, ↓reduceIte] at h; exact List.mem_cons_of_mem _ h
    · simp only [eraseK, hx, ↓reduceIte, List.mem_cons] at h
      rcases h with h | h
      · exact h ▸ List.mem_cons_self
      · exact List.mem_cons_of_mem _ (ih h)

theorem erase_fst {hk : List (Nat × Int)} (hn : (hk.map Prod.fst).Nodup) {id : Nat} {m : Int}
    (hm : (id, m) ∈ hk) : (hk.erase (id, m)).map Prod.fst = (hk.map Prod.fst).erase id := by
  induction hk with
  | nil => cases hm
  | cons e l ih =>
    by_cases he : e = (id, m)
    · subst he; simp
    · have hml : (id, m) ∈ l := by
        rcases List.mem_cons.mp hm with h | h
        · exact absurd h.symm he
        · exact h
      rw [List.map_cons, List.nodup_cons] at hn
      have hne : ¬ e.1 = id := by
        intro h; apply hn.1; rw [h]; exact List.mem_map.mpr ⟨(id, m), hml, rfl⟩
      rw [List.erase_cons_tail (by simpa using he)]
      simp only [List.map_cons]
      rw [List.erase_cons_tail (by simpa using hne), ih hn.2 hml]

theorem minKey_none {hk : List (Nat × Int)} (h : minKey hk = none) : hk = [] := by
  cases hk with
  | nil => rfl
  | cons e l => cases hl : minKey l <;> simp [minKey, hl] at h

theorem minKey_le {hk : List (Nat × Int)} {m : Int} (h : minKey hk = some m) : ∀ e ∈ hk, m ≤ e.2 := by
  induction hk generalizing m with
  | nil => intro e he; cases he
  | cons x l ih =>
    intro e he
    cases hl : minKey l with
    | none =>
      have hnil : l = [] := minKey_none hl
      subst hnil
      have h2 : x.2 = m := by simpa [minKey] using h
      have : e = x := by simpa using he
      subst this; omega
    | some m' =>
      have h2 : (if x.2 ≤ m' then x.2 else m') = m := by simpa [minKey, hl] using h
      have hm' := ih hl
      rcases List.mem_cons.mp he with he | he
      · subst he; split at h2 <;> omega
      · have := hm' e he; split at h2 <;> omega

/-- two different pending continuations weigh together at most the whole list -/
theorem wsum_two {α : Type} [DecidableEq α] {w : α → Nat} {p q : α} {l : List α} (hp : p ∈ l) (hq : q ∈ l)
    (hne : q ≠ p) : w p + w q ≤ wsum w l := by
  have a := wsum_erase (w := w) hp
  have b := wsum_mem (w := w) ((List.mem_erase_of_ne hne).mpr hq)
  omega

/-! the invariant of the F48 shape -/

structure FInv (s : TS) : Prop where
  minv   : MInv s.ms
  nopush : ∀ id, Pend.push id ∉ s.ms.pend
  heapEq : s.hk.map Prod.fst = s.ms.heap
  nodup  : (s.hk.map Prod.fst).Nodup
  keyPri : ∀ e ∈ s.hk, s.pri.lookup e.1 = some e.2
  owned  : ∀ e ∈ s.hk, e.1 ∈ s.ms.map ∨ ∃ k a, Pend.ans k e.1 a ∈ s.ms.pend

theorem finv_init : FInv {} := by
  refine ⟨minv_init, ?_, rfl, ?_, ?_, ?_⟩ <;> simp

/-- an id with a heap entry is in no queue: it is in the map or in the hand of an answer -/
theorem entry_not_queued {s : TS} (h : FInv s) {e : Nat × Int} (he : e ∈ s.hk) (hm : e.1 ∉ s.ms.map) :
    e.1 ∉ s.ms.queue ∧ ∀ k, Pend.touchMap k e.1 ∉ s.ms.pend := by
  rcases h.owned e he with hmm | ⟨k, a, hp⟩
  · exact absurd hmm hm
  · refine ⟨(held_free h.minv hp (by simp [holdsW, isId])).1, ?_⟩
    intro k' hp'
    have h1 := h.minv.one e.1
    have h2 := wsum_two (w := holdsW e.1) hp hp' (by intro hc; cases hc)
    simp only [cnt, holdsW, isId] at h1 h2
    simp at h2
    omega

theorem no_entry_of {s : TS} (h : FInv s) {id : Nat} (hm : id ∉ s.ms.map)
    (hq : id ∈ s.ms.queue ∨ ∃ k, Pend.touchMap k id ∈ s.ms.pend) : id ∉ s.hk.map Prod.fst := by
  intro hin
  obtain ⟨e, he, rfl⟩ := List.mem_map.mp hin
  have := entry_not_queued h he hm
  rcases hq with hq | ⟨k, hk⟩
  · exact this.1 hq
  · exact this.2 k hk

/-- a step that leaves the heap alone -/
theorem finv_frame {s : TS} (h : FInv s) {ms1 : MS} (hm : MInv ms1) (hheap : ms1.heap = s.ms.heap)
    (hpush : ∀ id, Pend.push id ∈ ms1.pend → Pend.push id ∈ s.ms.pend)
    (hown : ∀ id, (id ∈ s.ms.map ∨ ∃ k a, Pend.ans k id a ∈ s.ms.pend) →
      (id ∈ ms1.map ∨ ∃ k a, Pend.ans k id a ∈ ms1.pend)) :
    FInv { s with ms := ms1 } := by
  refine ⟨hm, fun id hp => h.nopush id (hpush id hp), ?_, h.nodup, h.keyPri, fun e he => hown _ (h.owned e he)⟩
  show s.hk.map Prod.fst = ms1.heap
  rw [hheap]; exact h.heapEq

/-- the heap entry of `id` leaves (FIN / REQ / TOUCH finishing) -/
theorem finv_eraseK {s : TS} (h : FInv s) {ms1 : MS} {id : Nat} (hm : MInv ms1) (hheap : ms1.heap = s.ms.heap.erase id)
    (hmap : ms1.map = s.ms.map)
    (hpush : ∀ i, Pend.push i ∈ ms1.pend → Pend.push i ∈ s.ms.pend)
    (hans : ∀ i k a, i ≠ id → Pend.ans k i a ∈ s.ms.pend → Pend.ans k i a ∈ ms1.pend) :
    FInv { s with ms := ms1, hk := eraseK s.hk id } := by
  have hnd : ((eraseK s.hk id).map Prod.fst).Nodup := by rw [eraseK_fst]; exact h.nodup.erase _
  refine ⟨hm, fun i hp => h.nopush i (hpush i hp), ?_, hnd, fun e he => h.keyPri e (mem_eraseK he), ?_⟩
  · show (eraseK s.hk id).map Prod.fst = ms1.heap
    rw [hheap, eraseK_fst, h.heapEq]
  · intro e he
    show e.1 ∈ ms1.map ∨ ∃ k a, Pend.ans k e.1 a ∈ ms1.pend
    have hne : e.1 ≠ id := by
      have : e.1 ∈ (eraseK s.hk id).map Prod.fst := List.mem_map.mpr ⟨e, he, rfl⟩
      rw [eraseK_fst] at this
      exact (h.nodup.mem_erase_iff.mp this).1
    rcases h.owned e (mem_eraseK he) with a | ⟨k, a, hp⟩
    · exact Or.inl (hmap ▸ a)
    · exact Or.inr ⟨k, a, hans _ k a hne hp⟩

/-- the root entry leaves (the scan's `PeekAndShift`) -/
theorem finv_erase {s : TS} (h : FInv s) {ms1 : MS} {id : Nat} {m : Int} (hin : (id, m) ∈ s.hk) (hm : MInv ms1)
    (hheap : ms1.heap = s.ms.heap.erase id)
    (hmap : ∀ i, i ≠ id → i ∈ s.ms.map → i ∈ ms1.map)
    (hpush : ∀ i, Pend.push i ∈ ms1.pend → Pend.push i ∈ s.ms.pend)
    (hans : ∀ i k a, Pend.ans k i a ∈ s.ms.pend → Pend.ans k i a ∈ ms1.pend) (tl : List TEv) :
    FInv { s with ms := ms1, hk := s.hk.erase (id, m), tlog := tl } := by
  have hnd : ((s.hk.erase (id, m)).map Prod.fst).Nodup := by rw [erase_fst h.nodup hin]; exact h.nodup.erase _
  refine ⟨hm, fun i hp => h.nopush i (hpush i hp), ?_, hnd, fun e he => h.keyPri e (List.mem_of_mem_erase he), ?_⟩
  · show (s.hk.erase (id, m)).map Prod.fst = ms1.heap
    rw [hheap, erase_fst h.nodup hin, h.heapEq]
  · intro e he
    show e.1 ∈ ms1.map ∨ ∃ k a, Pend.ans k e.1 a ∈ ms1.pend
    have hne : e.1 ≠ id := by
      have : e.1 ∈ (s.hk.erase (id, m)).map Prod.fst := List.mem_map.mpr ⟨e, he, rfl⟩
      rw [erase_fst h.nodup hin] at this
      exact (h.nodup.mem_erase_iff.mp this).1
    rcases h.owned e (List.mem_of_mem_erase he) with a | ⟨k, a, hp⟩
    · exact Or.inl (hmap _ hne a)
    · exact Or.inr ⟨k, a, hans _ k a hp⟩

/-- map insert + heap insert in one critical section (F48) -/
theorem finv_push {s : TS} (h : FInv s) {ms2 : MS} {id : Nat} (d : Int) (hm : MInv ms2)
    (hfree : id ∉ s.hk.map Prod.fst)
    (hheap : ms2.heap = id :: s.ms.heap) (hmap : ms2.map = id :: s.ms.map)
    (hpush : ∀ i, Pend.push i ∈ ms2.pend → Pend.push i ∈ s.ms.pend)
    (hans : ∀ i k a, Pend.ans k i a ∈ s.ms.pend → Pend.ans k i a ∈ ms2.pend) :
    FInv { ms := ms2, pri := (id, d) :: s.pri, hk := (id, d) :: s.hk, tlog := .stamp id d :: s.tlog } := by
  refine ⟨hm, fun i hp => h.nopush i (hpush i hp), ?_, ?_, ?_, ?_⟩
  · show ((id, d) :: s.hk).map Prod.fst = ms2.heap
    rw [hheap, List.map_cons, h.heapEq]
  · show (((id, d) :: s.hk).map Prod.fst).Nodup
    rw [List.map_cons, List.nodup_cons]; exact ⟨hfree, h.nodup⟩
  · intro e he
    show ((id, d) :: s.pri).lookup e.1 = some e.2
    rcases List.mem_cons.mp he with he | he
    · subst he; simp
    · have hne : e.1 ≠ id := fun hc => hfree (hc ▸ List.mem_map.mpr ⟨e, he, rfl⟩)
      have : (e.1 == id) = false := by simpa using hne
      simp only [List.lookup_cons, this]
      exact h.keyPri e he
  · intro e he
    show e.1 ∈ ms2.map ∨ ∃ k a, Pend.ans k e.1 a ∈ ms2.pend
    rcases List.mem_cons.mp he with he | he
    · subst he; exact Or.inl (by rw [hmap]; exact List.mem_cons_self)
    · rcases h.owned e he with a | ⟨k, a, hp⟩
      · exact Or.inl (by rw [hmap]; exact List.mem_cons_of_mem _ a)
      · exact Or.inr ⟨k, a, hans _ k a hp⟩

/-! what the untimed steps do to map / heap / pending list -/

theorem step_put_frame (s : MS) (id : Nat) :
    (step s (.put id)).1.map = s.map ∧ (step s (.put id)).1.heap = s.heap ∧ (step s (.put id)).1.pend = s.pend := by
  simp only [step]; split <;> exact ⟨rfl, rfl, rfl⟩

theorem step_deferDue_frame (s : MS) (id : Nat) :
    (step s (.deferDue id)).1.map = s.map ∧ (step s (.deferDue id)).1.heap = s.heap ∧
    (step s (.deferDue id)).1.pend = s.pend := by
  simp only [step]; split <;> exact ⟨rfl, rfl, rfl⟩

theorem step_ansMapPop_frame (s : MS) (k id : Nat) (a : Ans) :
    (step s (.ansMapPop k id a)).1 = s ∨
    ((step s (.ansMapPop k id a)).1.map = s.map.erase id ∧ (step s (.ansMapPop k id a)).1.heap = s.heap ∧
     (step s (.ansMapPop k id a)).1.pend = Pend.ans k id a :: s.pend) := by
  simp only [step]
  split
  · split
    · exact Or.inr ⟨rfl, rfl, rfl⟩
    · exact Or.inl rfl
  · exact Or.inl rfl

theorem step_scanPut_frame (s : MS) (id : Nat) :
    (step s (.scanPut id)).1.map = s.map ∧ (step s (.scanPut id)).1.heap = s.heap ∧
    ((step s (.scanPut id)).1.pend = s.pend ∨ (step s (.scanPut id)).1.pend = s.pend.erase (Pend.scan id)) := by
  simp only [step]; split
  · exact ⟨rfl, rfl, Or.inr rfl⟩
  · exact ⟨rfl, rfl, Or.inl rfl⟩

theorem step_ansFinish_frame (s : MS) (k id : Nat) (a : Ans) (hp : Pend.ans k id a ∈ s.pend) :
    (step s (.ansFinish k id a)).2 = .ok ∧
    (step s (.ansFinish k id a)).1.map = s.map ∧ (step s (.ansFinish k id a)).1.heap = s.heap.erase id ∧
    ((step s (.ansFinish k id a)).1.pend = s.pend.erase (Pend.ans k id a) ∨
     (step s (.ansFinish k id a)).1.pend = Pend.touchMap k id :: s.pend.erase (Pend.ans k id a)) := by
  simp only [step, hp, ↓reduceIte]
  cases a with
  | fin => exact ⟨rfl, rfl, rfl, Or.inl rfl⟩
  | req d =>
    simp only []
    split <;> exact ⟨rfl, rfl, rfl, Or.inl rfl⟩
  | touch => exact ⟨rfl, rfl, rfl, Or.inr rfl⟩

theorem step_ansFinish_reject (s : MS) (k id : Nat) (a : Ans) (hp : Pend.ans k id a ∉ s.pend) :
    step s (.ansFinish k id a) = (s, .reject) := by
  simp only [step, hp, ↓reduceIte]

/-! the main preservation theorem -/

theorem finv_tlog {s : TS} (h : FInv s) (tl : List TEv) : FInv { s with tlog := tl } :=
  ⟨h.minv, h.nopush, h.heapEq, h.nodup, h.keyPri, h.owned⟩

theorem finv_plain {s : TS} (h : FInv s) (op : Op) : FInv (stepT true s (.plain op)).1 := by
  cases op with
  | put id =>
    rcases hst : step s.ms (.put id) with ⟨ms1, r⟩
    have e1 : ms1 = (step s.ms (.put id)).1 := by rw [hst]
    have fr := step_put_frame s.ms id
    simp only [stepT, timed, Bool.false_eq_true, ↓reduceIte, hst]
    rw [← e1] at fr
    exact finv_frame h (e1 ▸ step_minv h.minv _) fr.2.1 (fun i hi => fr.2.2 ▸ hi)
      (fun i hi => by rw [fr.1, fr.2.2]; exact hi)
  | deferDue id =>
    rcases hst : step s.ms (.deferDue id) with ⟨ms1, r⟩
    have e1 : ms1 = (step s.ms (.deferDue id)).1 := by rw [hst]
    have fr := step_deferDue_frame s.ms id
    simp only [stepT, timed, Bool.false_eq_true, ↓reduceIte, hst]
    rw [← e1] at fr
    exact finv_frame h (e1 ▸ step_minv h.minv _) fr.2.1 (fun i hi => fr.2.2 ▸ hi)
      (fun i hi => by rw [fr.1, fr.2.2]; exact hi)
  | scanPut id =>
    rcases hst : step s.ms (.scanPut id) with ⟨ms1, r⟩
    have e1 : ms1 = (step s.ms (.scanPut id)).1 := by rw [hst]
    have fr := step_scanPut_frame s.ms id
    simp only [stepT, timed, Bool.false_eq_true, ↓reduceIte, hst]
    rw [← e1] at fr
    refine finv_frame h (e1 ▸ step_minv h.minv _) fr.2.1 ?_ ?_
    · intro i hi
      rcases fr.2.2 with e | e
      · exact e ▸ hi
      · rw [e] at hi; exact List.mem_of_mem_erase hi
    · intro i hi
      rcases hi with a | ⟨k, a, hp⟩
      · exact Or.inl (fr.1 ▸ a)
      · refine Or.inr ⟨k, a, ?_⟩
        rcases fr.2.2 with e | e
        · exact e ▸ hp
        · rw [e]; exact (List.mem_erase_of_ne (by intro hc; cases hc)).mpr hp
  | ansMapPop k id a =>
    rcases hst : step s.ms (.ansMapPop k id a) with ⟨ms1, r⟩
    have e1 : ms1 = (step s.ms (.ansMapPop k id a)).1 := by rw [hst]
    have fr := step_ansMapPop_frame s.ms k id a
    simp only [stepT, timed, Bool.false_eq_true, ↓reduceIte, hst]
    rw [← e1] at fr
    rcases fr with e | ⟨hmap, hheap, hpend⟩
    · rw [e]; exact h
    · refine finv_frame h (e1 ▸ step_minv h.minv _) hheap ?_ ?_
      · intro i hi; rw [hpend] at hi
        rcases List.mem_cons.mp hi with hc | hi
        · cases hc
        · exact hi
      · intro i hi
        rcases hi with hm | ⟨k', a', hp⟩
        · by_cases hid : i = id
          · subst hid; exact Or.inr ⟨k, a, by rw [hpend]; exact List.mem_cons_self⟩
          · exact Or.inl (by rw [hmap]; exact (List.mem_erase_of_ne hid).mpr hm)
        · exact Or.inr ⟨k', a', by rw [hpend]; exact List.mem_cons_of_mem _ hp⟩
  | heapPush id =>
    have hrej : step s.ms (.heapPush id) = (s.ms, .reject) := by
      simp only [step, h.nopush id, ↓reduceIte]
    simp only [stepT, timed, Bool.false_eq_true, ↓reduceIte, hrej]
    exact h
  | ansFinish k id a =>
    by_cases hp : Pend.ans k id a ∈ s.ms.pend
    · have fr := step_ansFinish_frame s.ms k id a hp
      rcases hst : step s.ms (.ansFinish k id a) with ⟨ms1, r⟩
      have e1 : ms1 = (step s.ms (.ansFinish k id a)).1 := by rw [hst]
      have e2 : r = (step s.ms (.ansFinish k id a)).2 := by rw [hst]
      rw [← e1, ← e2] at fr
      obtain ⟨hr, hmap, hheap, hpend⟩ := fr
      subst hr
      simp only [stepT, timed, Bool.false_eq_true, ↓reduceIte, hst]
      refine finv_eraseK h (e1 ▸ step_minv h.minv _) hheap hmap ?_ ?_
      · intro i hi
        rcases hpend with e | e
        · rw [e] at hi; exact List.mem_of_mem_erase hi
        · rw [e] at hi
          rcases List.mem_cons.mp hi with hc | hi
          · cases hc
          · exact List.mem_of_mem_erase hi
      · intro i k' a' hne hp'
        have hmem : Pend.ans k' i a' ∈ s.ms.pend.erase (Pend.ans k id a) :=
          (List.mem_erase_of_ne (by intro hc; cases hc; exact hne rfl)).mpr hp'
        rcases hpend with e | e
        · rw [e]; exact hmem
        · rw [e]; exact List.mem_cons_of_mem _ hmem
    · have hrej := step_ansFinish_reject s.ms k id a hp
      simp only [stepT, timed, Bool.false_eq_true, ↓reduceIte, hrej]
      exact h
  | delMapPush k id => simp only [stepT, timed, ↓reduceIte]; exact h
  | touchMapPush k id => simp only [stepT, timed, ↓reduceIte]; exact h
  | scanPop id => simp only [stepT, timed, ↓reduceIte]; exact h

theorem finv_delMapPush {s : TS} (h : FInv s) (k id : Nat) (d : Int) :
    FInv (pushWith true s (.delMapPush k id) id d).1 := by
  unfold pushWith
  by_cases hq : id ∈ s.ms.queue
  · by_cases hm : id ∈ s.ms.map
    · have : step s.ms (.delMapPush k id) = (s.ms, .reject) := by simp only [step, hq, hm, ↓reduceIte]
      simp only [this]; exact h
    · rcases hst : step s.ms (.delMapPush k id) with ⟨ms1, r⟩
      have hst' := hst
      simp only [step, hq, hm, ↓reduceIte, Prod.mk.injEq] at hst'
      obtain ⟨e1, e2⟩ := hst'
      subst e2
      simp only [↓reduceIte]
      have hm1 : MInv ms1 := by have := step_minv h.minv (.delMapPush k id); rw [hst] at this; exact this
      have hpin : Pend.push id ∈ ms1.pend := by rw [← e1]; exact List.mem_cons_self
      have hm2 : MInv (step ms1 (.heapPush id)).1 := step_minv hm1 _
      have hs2 : (step ms1 (.heapPush id)).1 = { ms1 with heap := id :: ms1.heap, pend := ms1.pend.erase (Pend.push id) } := by
        simp only [step, hpin, ↓reduceIte]
      have hpend : (step ms1 (.heapPush id)).1.pend = s.ms.pend := by
        rw [hs2, ← e1]; simp
      refine finv_push h d hm2 (no_entry_of h hm (Or.inl hq)) ?_ ?_ ?_ ?_
      · rw [hs2, ← e1]
      · rw [hs2, ← e1]
      · intro i hi; rw [hpend] at hi; exact hi
      · intro i k' a' hp; rw [hpend]; exact hp
  · have : step s.ms (.delMapPush k id) = (s.ms, .reject) := by simp only [step, hq, ↓reduceIte]
    simp only [this]; exact h

theorem finv_touchMapPush {s : TS} (h : FInv s) (k id : Nat) (d : Int) :
    FInv (pushWith true s (.touchMapPush k id) id d).1 := by
  unfold pushWith
  by_cases hq : Pend.touchMap k id ∈ s.ms.pend
  · by_cases hm : id ∈ s.ms.map
    · have : step s.ms (.touchMapPush k id) = (s.ms, .reject) := by simp only [step, hq, hm, ↓reduceIte]
      simp only [this]; exact h
    · rcases hst : step s.ms (.touchMapPush k id) with ⟨ms1, r⟩
      have hst' := hst
      simp only [step, hq, hm, ↓reduceIte, Prod.mk.injEq] at hst'
      obtain ⟨e1, e2⟩ := hst'
      subst e2
      simp only [↓reduceIte]
      have hm1 : MInv ms1 := by have := step_minv h.minv (.touchMapPush k id); rw [hst] at this; exact this
      have hpin : Pend.push id ∈ ms1.pend := by rw [← e1]; exact List.mem_cons_self
      have hm2 : MInv (step ms1 (.heapPush id)).1 := step_minv hm1 _
      have hs2 : (step ms1 (.heapPush id)).1 = { ms1 with heap := id :: ms1.heap, pend := ms1.pend.erase (Pend.push id) } := by
        simp only [step, hpin, ↓reduceIte]
      have hpend : (step ms1 (.heapPush id)).1.pend = s.ms.pend.erase (Pend.touchMap k id) := by
        rw [hs2, ← e1]; simp
      refine finv_push h d hm2 (no_entry_of h hm (Or.inr ⟨k, hq⟩)) ?_ ?_ ?_ ?_
      · rw [hs2, ← e1]
      · rw [hs2, ← e1]
      · intro i hi; rw [hpend] at hi; exact List.mem_of_mem_erase hi
      · intro i k' a' hp; rw [hpend]; exact (List.mem_erase_of_ne (by intro hc; cases hc)).mpr hp
  · have : step s.ms (.touchMapPush k id) = (s.ms, .reject) := by simp only [step, hq, ↓reduceIte]
    simp only [this]; exact h

theorem isRoot_mem {hk : List (Nat × Int)} {id : Nat} {m : Int} (h : isRoot hk id m = true) :
    minKey hk = some m ∧ (id, m) ∈ hk := by
  simp only [isRoot, Bool.and_eq_true, beq_iff_eq, List.contains_iff_mem] at h
  exact h

theorem finv_scanPop {s : TS} (h : FInv s) (id : Nat) (t : Int) : FInv (stepT true s (.scanPop id t)).1 := by
  simp only [stepT]
  split
  · rename_i m d hmk hpr
    split
    · rename_i hg
      simp only [Bool.and_eq_true, decide_eq_true_eq] at hg
      have hin := (isRoot_mem hg.1).2
      have hheap : id ∈ s.ms.heap := by rw [← h.heapEq]; exact List.mem_map.mpr ⟨(id, m), hin, rfl⟩
      by_cases hm : id ∈ s.ms.map
      · have hst : step s.ms (.scanPop id) =
            ({ s.ms with heap := s.ms.heap.erase id, map := s.ms.map.erase id, pend := Pend.scan id :: s.ms.pend,
                         hist := Nsq.Model.Chan.Ev.timeout id (getA s.ms.owner id) :: s.ms.hist }, .ok) := by
          simp only [step, hheap, hm, ↓reduceIte]
        have hmi := step_minv h.minv (.scanPop id)
        rw [hst] at hmi
        simp only [hst]
        refine finv_erase h hin hmi rfl ?_ ?_ ?_ _
        · intro i hne hi; exact (List.mem_erase_of_ne hne).mpr hi
        · intro i hi
          rcases List.mem_cons.mp hi with hc | hi
          · cases hc
          · exact hi
        · intro i k a hp; exact List.mem_cons_of_mem _ hp
      · have hst : step s.ms (.scanPop id) = ({ s.ms with heap := s.ms.heap.erase id }, .fail) := by
          simp only [step, hheap, hm, ↓reduceIte]
        have hmi := step_minv h.minv (.scanPop id)
        rw [hst] at hmi
        simp only [hst]
        exact finv_erase h hin hmi rfl (fun i _ hi => hi) (fun i hi => hi) (fun i k a hp => hp) s.tlog
    · exact h
  · exact h

theorem finv_scanIdle {s : TS} (h : FInv s) (t : Int) : FInv (stepT true s (.scanIdle t)).1 := by
  simp only [stepT]
  split
  · exact h
  · split <;> exact h

/-- **every micro-step of the F48 shape preserves `FInv`** -/
theorem stepT_finv {s : TS} (h : FInv s) (op : TOp) : FInv (stepT true s op).1 := by
  cases op with
  | plain o => exact finv_plain h o
  | delMapPush k id now to => exact finv_delMapPush h k id _
  | touchMapPush k id now to => exact finv_touchMapPush h k id _
  | scanPop id t => exact finv_scanPop h id t
  | scanIdle t => exact finv_scanIdle h t

theorem runT_finv {s : TS} (h : FInv s) (ops : List TOp) : FInv (runT true s ops) := by
  induction ops generalizing s with
  | nil => exact h
  | cons op ops ih => exact ih (stepT_finv h op)

/-! consequences -/

/-- (a) every in-map id has a heap entry keyed with its object's current `pri` -/
theorem map_has_entry {s : TS} (h : FInv s) {id : Nat} (hm : id ∈ s.ms.map) :
    ∃ d, priOf s id = some d ∧ (id, d) ∈ s.hk := by
  rcases h.minv.orph id hm with hh | hp
  · rw [← h.heapEq] at hh
    obtain ⟨e, he, rfl⟩ := List.mem_map.mp hh
    exact ⟨e.2, h.keyPri e he, he⟩
  · exact absurd hp (h.nopush id)

/-- a scan that finds nothing due leaves nothing due -/
theorem scanIdle_complete {s : TS} (h : FInv s) {t : Int} (hi : (stepT true s (.scanIdle t)).2 = .ok) :
    ∀ id ∈ s.ms.map, ∀ d, priOf s id = some d → t < d := by
  intro id hm d hd
  obtain ⟨d', hd', hin⟩ := map_has_entry h hm
  have hdd : d' = d := by rw [hd] at hd'; exact (Option.some.inj hd').symm
  subst hdd
  simp only [stepT] at hi
  split at hi
  · rename_i hmk
    have := minKey_none hmk
    rw [this] at hin; cases hin
  · rename_i m hmk
    split at hi
    · rename_i hany
      obtain ⟨e, he, hcond⟩ := List.any_eq_true.mp hany
      simp only [Bool.and_eq_true, beq_iff_eq] at hcond
      have hk := h.keyPri e he
      have hpe : priOf s e.1 = some e.2 := hk
      rw [hpe] at hcond
      have hlt : t < e.2 := by simpa using hcond.2
      have hle := minKey_le hmk _ hin
      simp only at hle
      omega
    · cases hi

/-- the scan pops a stale entry (`PeekAndShift` returned an object that is no longer in the map) only while an
answering goroutine holds that message between `popInFlightMessage` and `removeFromInFlightPQ` -/
theorem stale_pop_has_answer {s : TS} (h : FInv s) {id : Nat} {t : Int}
    (hf : (stepT true s (.scanPop id t)).2 = .fail) : ∃ k a, Pend.ans k id a ∈ s.ms.pend := by
  simp only [stepT] at hf
  split at hf
  · rename_i m d hmk hpr
    split at hf
    · rename_i hg
      simp only [Bool.and_eq_true, decide_eq_true_eq] at hg
      have hin := (isRoot_mem hg.1).2
      by_cases hm : id ∈ s.ms.map
      · have hheap : id ∈ s.ms.heap := by rw [← h.heapEq]; exact List.mem_map.mpr ⟨(id, m), hin, rfl⟩
        have hst : (step s.ms (.scanPop id)).2 = .ok := by simp only [step, hheap, hm, ↓reduceIte]
        split at hf
        · cases hf
        · rename_i ms1 r hne hst2
          rw [hst2] at hst; simp only at hst; subst hst; simp only at hf; cases hf
      · rcases h.owned _ hin with a | a
        · exact absurd a hm
        · exact a
    · cases hf
  · cases hf

end Nsq.Proofs.ChanMicroTF
