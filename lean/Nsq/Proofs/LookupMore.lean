import Nsq.Model.LookupMore
import Nsq.Proofs.LookupTicks
import Nsq.Proofs.Names
/-! Helpers for `Nsq.Props.C16More`: the fixed shapes of the two layers of `Nsq.Model.LookupMore` are the base
model; names accepted by `validName` contain no command separator. -/
namespace Nsq.Proofs.LookupMore
open Nsq.Model.LookupSync

/-! ## refused commands: with F36 the layer is the base model -/

theorem commandR_fixed (objs dead : List Ref) (apply : List Key → List Key) (p : Peer) (o : Outcome3) :
    commandR true objs dead apply p o = command objs dead apply p o.collapse := by
  simp [commandR]

theorem mapOutcomes3_fixed (objs dead : List Ref) (apply : List Key → List Key) (ps : List Peer) (outs : List Outcome3) :
    mapOutcomes3 (commandR true objs dead apply) ps outs =
      mapOutcomes (command objs dead apply) ps (outs.map Outcome3.collapse) := by
  induction ps generalizing outs with
  | nil => simp [mapOutcomes3, mapOutcomes]
  | cons p ps ih =>
    cases outs with
    | nil =>
      have := ih []
      simp only [List.map_nil] at this
      simp [mapOutcomes3, mapOutcomes, commandR_fixed, Outcome3.collapse, this]
    | cons o os => simp [mapOutcomes3, mapOutcomes, commandR_fixed, ih]

theorem stepR_fixed (s : State) (st : StepR) : stepR true s st = step s st.collapse := by
  cases st with
  | base st => rfl
  | notify r outs => simp only [stepR, StepR.collapse, step, mapOutcomes3_fixed]
  | tick outs => simp only [stepR, StepR.collapse, step, mapOutcomes3_fixed]
  | addPeer a o => simp only [stepR, StepR.collapse, step, commandR_fixed]

theorem runR_fixed (s : State) (steps : List StepR) : runR true s steps = run s (steps.map StepR.collapse) := by
  induction steps generalizing s with
  | nil => rfl
  | cons st rest ih =>
    simp only [runR, List.map_cons, run, stepR_fixed]
    cases step s st.collapse with
    | none => rfl
    | some s' => exact ih s'

/-! ## deleter threads: with F22 every layer step is a base step or changes nothing -/

/-- every deleter thread holds a channel whose exit flag is set -/
def DelsDead (d : DelState) : Prop := ∀ r ∈ d.dels, r ∈ d.s.dead ∧ isTopic r = false

theorem dead_mono {s s' : State} {st : Step} (h : step s st = some s') : ∀ r ∈ s.dead, r ∈ s'.dead := by
  intro r hr
  cases st with
  | createTopic t =>
    simp only [step] at h
    split at h; · simp at h
    simp only [Option.some.injEq] at h; subst h; exact hr
  | createChan t c =>
    simp only [step] at h
    split at h; · simp at h
    split at h; · simp at h
    split at h; · simp at h
    simp only [Option.some.injEq] at h; subst h; exact hr
  | delBegin r0 =>
    simp only [step] at h
    split at h; · simp at h
    split at h; · simp at h
    simp only [Option.some.injEq] at h; subst h; exact List.mem_cons_of_mem _ hr
  | delUnlink r0 =>
    simp only [step] at h
    split at h; · simp at h
    split at h; · simp at h
    split at h; · simp at h
    simp only [Option.some.injEq] at h; subst h; exact hr
  | notify r0 outs =>
    simp only [step] at h
    split at h; · simp at h
    simp only [Option.some.injEq] at h; subst h; exact hr
  | tick outs => simp only [step, Option.some.injEq] at h; subst h; exact hr
  | lookupdDrop a => simp only [step, Option.some.injEq] at h; subst h; exact hr
  | addPeer a o =>
    simp only [step] at h
    split at h; · simp at h
    simp only [Option.some.injEq] at h; subst h; exact hr
  | removePeer a => simp only [step, Option.some.injEq] at h; subst h; exact hr

/-- the base-model states reachable from the initial state -/
def Reach (s : State) : Prop := ∃ steps, run State.init steps = some s

theorem reach_step {s s' : State} {st : Step} (hr : Reach s) (h : step s st = some s') : Reach s' := by
  obtain ⟨steps, hs⟩ := hr
  refine ⟨steps ++ [st], ?_⟩
  rw [Nsq.Proofs.LookupTicks.run_append, hs]
  simp [run, h]

theorem stepD_fixed_sim {d d' : DelState} {st : StepD} (hd : DelsDead d) (hr : Reach d.s)
    (h : stepD true d st = some d') : DelsDead d' ∧ Reach d'.s := by
  cases st with
  | base bst =>
    simp only [stepD, Option.map_eq_some_iff] at h
    obtain ⟨s', hs, rfl⟩ := h
    exact ⟨fun r hr' => ⟨dead_mono hs r (hd r hr').1, (hd r hr').2⟩, reach_step hr hs⟩
  | delStart r =>
    simp only [stepD] at h
    split at h; · simp at h
    rename_i hnt
    split at h; · simp at h
    rename_i hin
    have hnt' : isTopic r = false := by simpa using hnt
    split at h
    · rename_i hdead
      simp only [Option.some.injEq] at h; subst h
      refine ⟨?_, hr⟩
      intro x hx
      simp only [List.mem_cons] at hx
      rcases hx with rfl | hx
      · exact ⟨by simpa using hdead, hnt'⟩
      · exact hd x hx
    · rename_i hdead
      simp only [Option.some.injEq] at h; subst h
      refine ⟨?_, ?_⟩
      · intro x hx
        simp only [List.mem_cons] at hx
        rcases hx with rfl | hx
        · exact ⟨List.mem_cons_self, hnt'⟩
        · exact ⟨List.mem_cons_of_mem _ (hd x hx).1, (hd x hx).2⟩
      · apply reach_step hr (st := .delBegin r)
        simp only [step]
        have h1 : r ∈ d.s.objs := by simpa using hin
        have h2 : r ∉ d.s.dead := by simpa using hdead
        simp [h1, h2]
  | delFinish r =>
    simp only [stepD] at h
    split at h; · simp at h
    rename_i hmem
    simp only [if_true, Option.some.injEq] at h; subst h
    have hrd := hd r (by simpa using hmem)
    refine ⟨?_, ?_⟩
    · intro x hx
      exact hd x (List.mem_of_mem_erase hx)
    · by_cases hin : r ∈ d.s.objs
      · apply reach_step hr (st := .delUnlink r)
        simp only [step]
        simp [hin, hrd.1, hrd.2]
      · have : d.s.objs.erase r = d.s.objs := List.erase_of_not_mem hin
        simpa [this] using hr

theorem runD_fixed_reach {d d' : DelState} {steps : List StepD} (hd : DelsDead d) (hr : Reach d.s)
    (h : runD true d steps = some d') : Reach d'.s := by
  induction steps generalizing d with
  | nil => simp only [runD, Option.some.injEq] at h; subst h; exact hr
  | cons st rest ih =>
    simp only [runD] at h
    split at h
    · simp at h
    · rename_i d1 h1
      obtain ⟨hd1, hr1⟩ := stepD_fixed_sim hd hr h1
      exact ih hd1 hr1 h

theorem reach_init : Reach State.init := ⟨[], rfl⟩
theorem delsDead_init : DelsDead DelState.init := by intro r hr; simp [DelState.init] at hr

/-! ## valid names carry no command separator -/
open Nsq.Model.Names in
theorem accepting_no_sep : ∀ (s : Bytes) (q : Q), accepting (run q s) = true → ∀ c ∈ s, c ≠ 10 ∧ c ≠ 32
  | [], _, _ => by simp
  | b :: bs, q, h => by
    rw [Nsq.Proofs.Names.run_cons] at h
    intro c hc
    have hnd : Nsq.Model.Names.step q b ≠ .dead := by
      intro hdead
      rw [hdead, Nsq.Proofs.Names.run_dead] at h
      simp [accepting] at h
    simp only [List.mem_cons] at hc
    rcases hc with rfl | hc
    · constructor
      · rintro rfl
        apply hnd
        cases q with
        | start => simp [Nsq.Model.Names.step]; decide
        | base => simp [Nsq.Model.Names.step]; decide
        | suf k =>
          simp only [Nsq.Model.Names.step]
          split
          · rename_i he
            exact absurd (List.mem_of_getElem? he) (by decide)
          · rfl
        | dead => rfl
      · rintro rfl
        apply hnd
        cases q with
        | start => simp [Nsq.Model.Names.step]; decide
        | base => simp [Nsq.Model.Names.step]; decide
        | suf k =>
          simp only [Nsq.Model.Names.step]
          split
          · rename_i he
            exact absurd (List.mem_of_getElem? he) (by decide)
          · rfl
        | dead => rfl
    · exact accepting_no_sep bs (Nsq.Model.Names.step q b) h c hc

theorem validName_no_sep (s : String) (h : validName s = true) : '\n' ∉ s.toList ∧ ' ' ∉ s.toList := by
  simp only [validName, Bool.and_eq_true] at h
  obtain ⟨_, hv⟩ := h
  have hm : Nsq.Model.Names.regexMatch (Nsq.Model.Names.ascii s) = true := by
    unfold Nsq.Model.Names.isValidName at hv
    split at hv
    · simp at hv
    · exact hv
  have hs := accepting_no_sep _ _ hm
  constructor
  · intro hc
    have := hs 10 (by simp only [Nsq.Model.Names.ascii, List.mem_map]; exact ⟨'\n', hc, by decide⟩)
    exact this.1 rfl
  · intro hc
    have := hs 32 (by simp only [Nsq.Model.Names.ascii, List.mem_map]; exact ⟨' ', hc, by decide⟩)
    exact this.2 rfl

end Nsq.Proofs.LookupMore
