import Nsq.Model.ByteOps
import Nsq.Proofs.Wire
/-! Helper lemmas about the prelude `Nsq.Model.ByteOps` of the translator kind `bytes`
(used by `Nsq.Tie.WireFn`, `Nsq.Tie.GuidHex`). -/
namespace Nsq.Proofs.ByteOps
open Nsq.Model.ByteOps Nsq.Model.Wire Nsq.Proofs.Wire

theorem store_zero (dst src : Bytes) : store dst 0 src = src ++ dst.drop src.length := by
  simp [store]

/-- overwriting a whole array -/
theorem store_all (dst src : Bytes) (h : dst.length ≤ src.length) : store dst 0 src = src := by
  rw [store_zero, List.drop_eq_nil_of_le h, List.append_nil]

theorem store_fit (dst src : Bytes) (h : dst.length = src.length) : store dst 0 src = src :=
  store_all dst src (by omega)

/-- overwriting the tail `b` of `a ++ b` -/
theorem store_tail (a b src : Bytes) (n : Nat) (hn : n = a.length) (h : b.length ≤ src.length) :
    store (a ++ b) n src = a ++ src := by
  subst hn
  unfold store
  rw [List.take_left, List.drop_eq_nil_of_le (by simp; omega), List.append_nil]

/-- high bits are dropped: `PutUintNN` of a value reduced modulo `256^w` -/
theorem beBytes_mod (w v : Nat) : beBytes w (v % 256 ^ w) = beBytes w v := by
  induction w generalizing v with
  | zero => simp [beBytes]
  | succ w ih =>
    unfold beBytes
    have h1 : v % 256 ^ (w + 1) / 256 = (v / 256) % 256 ^ w := by
      rw [Nat.pow_succ, Nat.mul_comm, Nat.mod_mul_right_div_self]
    have h2 : v % 256 ^ (w + 1) % 256 = v % 256 := by
      rw [Nat.pow_succ, Nat.mul_comm]
      exact Nat.mod_mul_right_mod v 256 (256 ^ w)
    rw [h1, h2, ih]

theorem putBE_length (w : Nat) {n : Nat} (x : BitVec n) : (putBE w x).length = w := beBytes_length _ _

/-- `uint32(len(data)) + 4` rendered on 4 bytes is the model's `beBytes 4 (len + 4)` -/
theorem putBE_len_add (k c : Nat) :
    putBE 4 (BitVec.ofNat 32 k + BitVec.ofNat 32 c) = beBytes 4 (k + c) := by
  unfold putBE
  rw [BitVec.toNat_add, BitVec.toNat_ofNat, BitVec.toNat_ofNat, ← Nat.add_mod]
  exact beBytes_mod 4 (k + c)

theorem putBE_len (k : Nat) : putBE 4 (BitVec.ofNat 32 k) = beBytes 4 k := by
  unfold putBE
  rw [BitVec.toNat_ofNat]
  exact beBytes_mod 4 k

theorem slice_length (b : Bytes) (lo hi : Nat) (h : hi ≤ b.length) : (slice b lo hi).length = hi - lo := by
  simp [slice]; omega

end Nsq.Proofs.ByteOps
