import Nsq.Model.Aggregate
import Nsq.Proofs.AggregateSafe
/-!
How many upstream answers a fetch counts as failed: helper lemmas for the 200+warning / 502 rule.
-/
namespace Nsq.Proofs.AggregateFetch
open Nsq.Model.Aggregate Nsq.Proofs.AggregateSafe

theorem countFailed_le {α : Type} (l : List (Option α)) : countFailed l ≤ l.length :=
  List.length_filter_le _ _

theorem countFailed_eq_length {α : Type} (l : List (Option α)) :
    countFailed l = l.length ↔ ∀ x ∈ l, x = none := by
  induction l with
  | nil => simp [countFailed]
  | cons a rest ih =>
    have hle := countFailed_le rest
    cases a with
    | none =>
      simp only [countFailed, List.filter_cons, Option.isNone_none, if_true, List.length_cons,
        Nat.add_right_cancel_iff, List.mem_cons, forall_eq_or_imp, true_and] at *
      exact ih
    | some v =>
      simp only [countFailed, List.filter_cons, Option.isNone_some, Bool.false_eq_true, if_false,
        List.length_cons, List.mem_cons, forall_eq_or_imp, reduceCtorEq, false_and, iff_false] at *
      omega

theorem countFailed_cons_none {α : Type} (l : List (Option α)) :
    countFailed (none :: l) = countFailed l + 1 := by simp [countFailed]

theorem countFailed_cons_some {α : Type} (a : α) (l : List (Option α)) :
    countFailed (some a :: l) = countFailed l := by simp [countFailed]

theorem lookupdProducersGo_failed (fx : Fixes) (ls : List Lookupd) :
    ∀ acc failed ps f', lookupdProducersGo fx ls acc failed = .ok (ps, f') →
      f' = failed + countFailed (ls.map (·.nodes)) := by
  induction ls with
  | nil =>
    intro acc failed ps f' h
    simp only [lookupdProducersGo, Except.ok.injEq, Prod.mk.injEq] at h
    simp [countFailed, h.2.symm]
  | cons l rest ih =>
    intro acc failed ps f' h
    unfold lookupdProducersGo at h
    cases hn : l.nodes with
    | none =>
      simp only [hn] at h
      have := ih acc (failed + 1) ps f' h
      simp only [List.map_cons, hn, countFailed_cons_none]; omega
    | some pj =>
      simp only [hn] at h
      cases hd : unmarshalProducers fx pj with
      | error e => simp [hd] at h
      | ok dec =>
        simp only [hd] at h
        cases hm : mergeProducers fx l.addr dec acc with
        | error e => simp [hm] at h
        | ok acc' =>
          simp only [hm] at h
          have := ih acc' failed ps f' h
          simp only [List.map_cons, hn, countFailed_cons_some]; omega

theorem lookupdTopicProducersGo_failed (fx : Fixes) (ls : List Lookupd) :
    ∀ acc failed ps f', lookupdTopicProducersGo fx ls acc failed = .ok (ps, f') →
      f' = failed + countFailed (ls.map (·.lookup)) := by
  induction ls with
  | nil =>
    intro acc failed ps f' h
    simp only [lookupdTopicProducersGo, Except.ok.injEq, Prod.mk.injEq] at h
    simp [countFailed, h.2.symm]
  | cons l rest ih =>
    intro acc failed ps f' h
    unfold lookupdTopicProducersGo at h
    cases hn : l.lookup with
    | none =>
      simp only [hn] at h
      have := ih acc (failed + 1) ps f' h
      simp only [List.map_cons, hn, countFailed_cons_none]; omega
    | some pj =>
      simp only [hn] at h
      cases hd : unmarshalProducers fx pj with
      | error e => simp [hd] at h
      | ok dec =>
        simp only [hd] at h
        cases hm : mergeTopicProducers fx dec acc with
        | error e => simp [hm] at h
        | ok acc' =>
          simp only [hm] at h
          have := ih acc' failed ps f' h
          simp only [List.map_cons, hn, countFailed_cons_some]; omega

/-- The `/stats` answers GetNSQDStats gets from the producers. -/
def statsAnswers (w : World) (ps : List Producer) (sel selc : String) (incl : Bool) :
    List (Option (List (Option Topic))) :=
  ps.map (fun p => statsOf w p.addr sel (if sel == "" then "" else selc) incl)

theorem nsqdStatsGo_failed (fx : Fixes) (w : World) (sel selc : String) (incl : Bool) (ps : List Producer) :
    ∀ ts m failed ts' m' f', nsqdStatsGo fx w sel selc incl ps ts m failed = .ok (ts', m', f') →
      f' = failed + countFailed (statsAnswers w ps sel selc incl) := by
  induction ps with
  | nil =>
    intro ts m failed ts' m' f' h
    simp only [nsqdStatsGo, Except.ok.injEq, Prod.mk.injEq] at h
    simp [statsAnswers, countFailed, h.2.2.symm]
  | cons p rest ih =>
    intro ts m failed ts' m' f' h
    unfold nsqdStatsGo at h
    cases ha : statsOf w p.addr sel (if sel == "" then "" else selc) incl with
    | none =>
      simp only [ha] at h
      have := ih ts m (failed + 1) ts' m' f' h
      simp only [statsAnswers, List.map_cons, ha, countFailed_cons_none] at *; omega
    | some ans =>
      simp only [ha] at h
      cases ht : nodeAnswer fx p sel ans m with
      | error e => simp [ht] at h
      | ok r =>
        obtain ⟨tns, m1⟩ := r
        simp only [ht] at h
        have := ih (ts ++ tns) m1 failed ts' m' f' h
        simp only [statsAnswers, List.map_cons, ha, countFailed_cons_some] at *; omega

/-- GetNSQDStats: nothing usable iff every producer's answer failed (in particular with no producer
at all); otherwise the number of failures is reported. -/
theorem nsqdStats_rule (fx : Fixes) (w : World) (ps : List Producer) (sel selc : String) (incl : Bool)
    (r : Fetched (List TopicNode × ChanMap)) (h : nsqdStats fx w ps sel selc incl = .ok r) :
    (r = .allFailed ↔ ∀ a ∈ statsAnswers w ps sel selc incl, a = none) ∧
    (∀ x f, r = .got x f → f = countFailed (statsAnswers w ps sel selc incl) ∧ f < ps.length) := by
  unfold nsqdStats at h
  cases hgo : nsqdStatsGo fx w sel selc incl ps [] [] 0 with
  | error e => simp [hgo] at h
  | ok r0 =>
    obtain ⟨ts, m, f0⟩ := r0
    simp only [hgo] at h
    have hf := nsqdStatsGo_failed fx w sel selc incl ps [] [] 0 ts m f0 hgo
    simp only [Nat.zero_add] at hf
    have hlen : (statsAnswers w ps sel selc incl).length = ps.length := by simp [statsAnswers]
    have hle := countFailed_le (statsAnswers w ps sel selc incl)
    by_cases heq : f0 = ps.length
    · simp only [heq, beq_self_eq_true, if_true, Except.ok.injEq] at h
      subst h
      refine ⟨⟨fun _ => ?_, fun _ => rfl⟩, fun x f hx => by cases hx⟩
      exact (countFailed_eq_length _).1 (by omega)
    · have : (f0 == ps.length) = false := by simpa using heq
      simp only [this, Bool.false_eq_true, if_false, Except.ok.injEq] at h
      subst h
      refine ⟨⟨fun hx => (by cases hx), fun hall => ?_⟩, fun x f hx => ?_⟩
      · exact absurd ((countFailed_eq_length _).2 hall) (by omega)
      · simp only [Fetched.got.injEq] at hx
        omega

theorem lookupdProducers_rule (fx : Fixes) (ls : List Lookupd) (r : Fetched (List Producer))
    (h : lookupdProducers fx ls = .ok r) :
    (r = .allFailed ↔ ∀ l ∈ ls, l.nodes = none) ∧
    (∀ x f, r = .got x f → f = countFailed (ls.map (·.nodes)) ∧ f < ls.length) := by
  unfold lookupdProducers at h
  cases hgo : lookupdProducersGo fx ls [] 0 with
  | error e => simp [hgo] at h
  | ok r0 =>
    obtain ⟨ps, f0⟩ := r0
    simp only [hgo] at h
    have hf := lookupdProducersGo_failed fx ls [] 0 ps f0 hgo
    simp only [Nat.zero_add] at hf
    have hlen : (ls.map (·.nodes)).length = ls.length := by simp
    have hle := countFailed_le (ls.map (·.nodes))
    have hall : (∀ a ∈ ls.map (·.nodes), a = none) ↔ ∀ l ∈ ls, l.nodes = none := by simp
    by_cases heq : f0 = ls.length
    · simp only [heq, beq_self_eq_true, if_true, Except.ok.injEq] at h
      subst h
      refine ⟨⟨fun _ => ?_, fun _ => rfl⟩, fun x f hx => by cases hx⟩
      exact hall.1 ((countFailed_eq_length _).1 (by omega))
    · have : (f0 == ls.length) = false := by simpa using heq
      simp only [this, Bool.false_eq_true, if_false, Except.ok.injEq] at h
      subst h
      refine ⟨⟨fun hx => (by cases hx), fun hn => ?_⟩, fun x f hx => ?_⟩
      · exact absurd ((countFailed_eq_length _).2 (hall.2 hn)) (by omega)
      · simp only [Fetched.got.injEq] at hx
        omega

theorem lookupdTopicProducers_rule (fx : Fixes) (ls : List Lookupd) (r : Fetched (List Producer))
    (h : lookupdTopicProducers fx ls = .ok r) :
    (r = .allFailed ↔ ∀ l ∈ ls, l.lookup = none) ∧
    (∀ x f, r = .got x f → f = countFailed (ls.map (·.lookup)) ∧ f < ls.length) := by
  unfold lookupdTopicProducers at h
  cases hgo : lookupdTopicProducersGo fx ls [] 0 with
  | error e => simp [hgo] at h
  | ok r0 =>
    obtain ⟨ps, f0⟩ := r0
    simp only [hgo] at h
    have hf := lookupdTopicProducersGo_failed fx ls [] 0 ps f0 hgo
    simp only [Nat.zero_add] at hf
    have hlen : (ls.map (·.lookup)).length = ls.length := by simp
    have hle := countFailed_le (ls.map (·.lookup))
    have hall : (∀ a ∈ ls.map (·.lookup), a = none) ↔ ∀ l ∈ ls, l.lookup = none := by simp
    by_cases heq : f0 = ls.length
    · simp only [heq, beq_self_eq_true, if_true, Except.ok.injEq] at h
      subst h
      refine ⟨⟨fun _ => ?_, fun _ => rfl⟩, fun x f hx => by cases hx⟩
      exact hall.1 ((countFailed_eq_length _).1 (by omega))
    · have : (f0 == ls.length) = false := by simpa using heq
      simp only [this, Bool.false_eq_true, if_false, Except.ok.injEq] at h
      subst h
      refine ⟨⟨fun hx => (by cases hx), fun hn => ?_⟩, fun x f hx => ?_⟩
      · exact absurd ((countFailed_eq_length _).2 (hall.2 hn)) (by omega)
      · simp only [Fetched.got.injEq] at hx
        omega

/-- The same rule for the fetches that are a plain map over the upstream list. -/
theorem mapped_rule {α β : Type} (answers : List (Option α)) (n : Nat) (hn : answers.length = n)
    (g : List α → β) (r : Fetched β)
    (h : (if countFailed answers == n then Fetched.allFailed else .got (g (answers.filterMap id)) (countFailed answers)) = r) :
    (r = .allFailed ↔ ∀ a ∈ answers, a = none) ∧
    (∀ x f, r = .got x f → f = countFailed answers ∧ f < n) := by
  have hle := countFailed_le answers
  by_cases heq : countFailed answers = n
  · simp only [heq, beq_self_eq_true, if_true] at h
    subst h
    refine ⟨⟨fun _ => (countFailed_eq_length _).1 (by omega), fun _ => rfl⟩, fun x f hx => by cases hx⟩
  · have : (countFailed answers == n) = false := by simpa using heq
    simp only [this, Bool.false_eq_true, if_false] at h
    subst h
    refine ⟨⟨fun hx => (by cases hx), fun hall => ?_⟩, fun x f hx => ?_⟩
    · exact absurd ((countFailed_eq_length _).2 hall) (by omega)
    · simp only [Fetched.got.injEq] at hx
      omega

end Nsq.Proofs.AggregateFetch
