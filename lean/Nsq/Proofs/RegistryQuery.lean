import Nsq.Proofs.RegistryWF
/-! Every query answer of the model is the answer the plain registry `abs r` gives
(as a set, and without duplicates). -/
namespace Nsq.Proofs.RegistryQuery
open Nsq.Model.Registry Nsq.Model.Registry.AMap Nsq.Proofs.RegistryMap Nsq.Proofs.RegistryDB
open Nsq.Spec.RegistrySpec Nsq.Proofs.RegistryRefine Nsq.Proofs.RegistryWF

theorem nodup_map_of_inj_on {α β : Type} (f : α → β) (l : List α) (hn : l.Nodup)
    (hinj : ∀ a ∈ l, ∀ b ∈ l, f a = f b → a = b) : (l.map f).Nodup := by
  induction l with
  | nil => simp
  | cons x l ih =>
    simp only [List.map_cons, List.nodup_cons, List.mem_map, not_exists, not_and] at hn ⊢
    refine ⟨?_, ih hn.2 (fun a ha b hb => hinj a (List.mem_cons_of_mem _ ha) b (List.mem_cons_of_mem _ hb))⟩
    intro y hy hxy
    have := hinj y (List.mem_cons_of_mem _ hy) x List.mem_cons_self hxy
    subst this
    exact hn.1 hy

theorem nodup_findRegistrations (db : DB) (cat : Cat) (key sub : Name) (h : (mkeys db).Nodup) :
    (findRegistrations db cat key sub).Nodup := by
  unfold findRegistrations
  split
  · exact List.Pairwise.filter _ h
  · split <;> simp

/-! ### /topics and /channels -/

theorem isMatch_topic_star (k : Key) : isMatch k .topic star [] = true ↔ k = topicKey k.key := by
  cases k with
  | mk c a b =>
    simp only [isMatch, topicKey, Key.mk.injEq, Bool.and_eq_true, decide_eq_true_eq, Bool.or_eq_true,
      true_and, true_or, and_true]
    have : ¬ (([] : Name) = star) := by decide
    simp only [this, false_or]
    constructor
    · intro h; exact ⟨h.1.symm, h.2⟩
    · intro h; exact ⟨h.1.symm, h.2⟩

theorem isMatch_chan_star' (k : Key) (t : Name) (ht : t ≠ star) :
    isMatch k .channel t star = true ↔ k = chanKey t k.sub := by
  cases k with
  | mk c a b =>
    simp only [isMatch, chanKey, Key.mk.injEq, Bool.and_eq_true, decide_eq_true_eq, Bool.or_eq_true,
      true_or, and_true, ht, false_or]
    constructor
    · intro h; exact ⟨h.1.symm, h.2⟩
    · intro h; exact ⟨h.1.symm, h.2⟩

theorem mem_qTopics (r : Registry) (t : Name) : t ∈ qTopics r ↔ (abs r).topics t := by
  unfold qTopics Spec.topics
  simp only [List.mem_map, mem_findRegistrations, abs, isMatch_topic_star]
  constructor
  · intro ⟨k, ⟨hk, hm⟩, ht⟩
    rw [hm, ht] at hk; exact hk
  · intro h
    exact ⟨topicKey t, ⟨h, rfl⟩, rfl⟩

theorem nodup_qTopics (r : Registry) (h : WF r) : (qTopics r).Nodup := by
  unfold qTopics
  apply nodup_map_of_inj_on _ _ (nodup_findRegistrations _ _ _ _ h.db.1)
  intro a ha b hb hab
  rw [mem_findRegistrations, isMatch_topic_star] at ha hb
  rw [ha.2, hb.2, hab]

theorem mem_qChannels (r : Registry) (t c : Name) (ht : t ≠ star) :
    c ∈ qChannels r t ↔ (abs r).channels t c := by
  unfold qChannels Spec.channels
  simp only [List.mem_map, mem_findRegistrations, abs, isMatch_chan_star' _ _ ht]
  constructor
  · intro ⟨k, ⟨hk, hm⟩, hc⟩
    rw [hm, hc] at hk; exact hk
  · intro h
    exact ⟨chanKey t c, ⟨h, rfl⟩, rfl⟩

theorem nodup_qChannels (r : Registry) (t : Name) (ht : t ≠ star) (h : WF r) : (qChannels r t).Nodup := by
  unfold qChannels
  apply nodup_map_of_inj_on _ _ (nodup_findRegistrations _ _ _ _ h.db.1)
  intro a ha b hb hab
  rw [mem_findRegistrations, isMatch_chan_star' _ _ ht] at ha hb
  rw [ha.2, hb.2, hab]

/-! ### producers of one registration -/

theorem mem_producersOf (db : DB) (k : Key) (id : Nat) (tb : Tomb) (h : DBWF db) :
    (id, tb) ∈ producersOf db k ↔ getP db k id = some tb := by
  unfold producersOf getP
  cases hg : mget db k with
  | none => simp
  | some pm =>
    simp only [Option.bind_some]
    constructor
    · intro hm; exact mget_of_mem_nodup pm id tb (h.2 k pm hg) hm
    · intro hm; exact mget_mem pm id tb hm

theorem nodup_producersOf (db : DB) (k : Key) (h : DBWF db) : (mkeys (producersOf db k)).Nodup := by
  unfold producersOf
  cases hg : mget db k with
  | none => simp [mkeys]
  | some pm => exact h.2 k pm hg

theorem tombActive_abs (c : Conf) (r : Registry) (now : Int) (p : Nat) (t : Name) (tb : Tomb)
    (hg : getP r.db (topicKey t) p = some tb) :
    (abs r).tombActive c now p t ↔ isTombstoned tb c.tombLife now = true := by
  unfold Spec.tombActive isTombstoned
  simp only [abs, hg, Option.some.injEq, Bool.and_eq_true, decide_eq_true_eq]
  constructor
  · intro ⟨τ, h1, h2⟩; rw [h1]; exact ⟨rfl, h2⟩
  · intro ⟨h1, h2⟩
    refine ⟨tb.tombAt, ?_, h2⟩
    cases tb; simp_all

theorem recent_abs (c : Conf) (r : Registry) (now : Int) (p : Nat) :
    (abs r).recent c now p ↔ ∃ pr, mget r.peers p = some pr ∧ ¬ (now - pr.lastUpdate > c.inactive) := by
  unfold Spec.recent
  simp only [abs]
  constructor
  · intro ⟨pr, h1, h2⟩; exact ⟨pr, h1, by omega⟩
  · intro ⟨pr, h1, h2⟩; exact ⟨pr, h1, by omega⟩

/-! ### /lookup -/

theorem qLookup_none_iff (c : Conf) (r : Registry) (t : Name) (now : Int) (ht : t ≠ star) :
    qLookup c r t now = none ↔ ¬ (abs r).lookupFound t := by
  unfold qLookup Spec.lookupFound
  have hnf : needFilter t [] = false := by
    have : ¬ (([] : Name) = star) := by decide
    simp [needFilter, ht, this]
  simp only [abs]
  constructor
  · intro h hk
    split at h
    · rename_i he
      have : topicKey t ∈ findRegistrations r.db .topic t [] := by
        rw [mem_findRegistrations]; exact ⟨hk, (isMatch_exact _ _ _ _ hnf).mpr rfl⟩
      rw [List.isEmpty_iff] at he
      rw [he] at this; simp at this
    · simp at h
  · intro hk
    split
    · rfl
    · rename_i he
      exfalso; apply hk
      cases hl : findRegistrations r.db .topic t [] with
      | nil => simp [hl] at he
      | cons k ks =>
        have hm : k ∈ findRegistrations r.db .topic t [] := by rw [hl]; exact List.mem_cons_self
        rw [mem_findRegistrations, isMatch_exact _ _ _ _ hnf] at hm
        rw [← show k = topicKey t from hm.2]; exact hm.1

theorem mem_lookup_producers (c : Conf) (r : Registry) (t : Name) (now : Int) (a : LookupAns)
    (h : WF r) (ha : qLookup c r t now = some a) (p : Nat) (i : Info) :
    (p, i) ∈ a.producers ↔
      (abs r).producers c t now p ∧ ∃ pr, (abs r).peer p = some pr ∧ pr.info = i := by
  unfold qLookup at ha
  split at ha
  · simp at ha
  · simp only [Option.some.injEq] at ha
    rw [← ha]
    simp only [peerInfos, filterByActive, List.mem_filterMap, List.mem_filter, Option.map_eq_some_iff,
      Prod.mk.injEq]
    unfold Spec.producers
    constructor
    · intro ⟨e, ⟨hmem, hact⟩, pr, hpr, hp, hi⟩
      have hg : getP r.db (topicKey t) e.1 = some e.2 := (mem_producersOf _ _ _ _ h.db).mp hmem
      subst hp
      unfold activeB at hact
      simp only [hpr, Bool.not_eq_true', Bool.or_eq_false_iff, decide_eq_false_iff_not] at hact
      have hreg : (abs r).topicReg e.1 t := by simp [abs, hg]
      have hlive : (abs r).live e.1 := h.live _ (h.peerKnown (topicKey t) e.1 (by simp [hg]))
      refine ⟨⟨hreg, hlive, (recent_abs c r now e.1).mpr ⟨pr, hpr, hact.1⟩, ?_⟩, pr, hpr, hi⟩
      rw [tombActive_abs c r now e.1 t e.2 hg]
      simp [hact.2]
    · intro ⟨⟨hreg, _, hrec, htomb⟩, pr, hpr, hi⟩
      simp only [abs] at hreg hpr
      cases hg : getP r.db (topicKey t) p with
      | none => simp [hg] at hreg
      | some tb =>
        refine ⟨(p, tb), ⟨(mem_producersOf _ _ _ _ h.db).mpr hg, ?_⟩, pr, hpr, rfl, hi⟩
        unfold activeB
        simp only [hpr, Bool.not_eq_true', Bool.or_eq_false_iff, decide_eq_false_iff_not]
        obtain ⟨pr', hpr', hle⟩ := (recent_abs c r now p).mp hrec
        rw [hpr] at hpr'
        simp only [Option.some.injEq] at hpr'
        subst hpr'
        refine ⟨hle, ?_⟩
        rw [tombActive_abs c r now p t tb hg] at htomb
        simpa using htomb

theorem lookup_channels (c : Conf) (r : Registry) (t : Name) (now : Int) (a : LookupAns)
    (ha : qLookup c r t now = some a) : a.channels = qChannels r t := by
  unfold qLookup at ha
  split at ha
  · simp at ha
  · simp only [Option.some.injEq] at ha; rw [← ha]

theorem mkeys_filter_nodup {β : Type} (m : List (Nat × β)) (f : Nat × β → Bool) (h : (mkeys m).Nodup) :
    (mkeys (m.filter f)).Nodup := by
  induction m with
  | nil => simp [mkeys]
  | cons e m ih =>
    simp only [mkeys, List.map_cons, List.nodup_cons] at h
    simp only [List.filter_cons]
    split
    · simp only [mkeys, List.map_cons, List.nodup_cons]
      refine ⟨?_, ih h.2⟩
      intro hm
      apply h.1
      simp only [mkeys, List.mem_map, List.mem_filter] at hm ⊢
      obtain ⟨x, ⟨hx, _⟩, he⟩ := hm
      exact ⟨x, hx, he⟩
    · exact ih h.2

theorem mkeys_filter_nodup' {α β : Type} (m : List (α × β)) (f : α × β → Bool) (h : (mkeys m).Nodup) :
    ((m.filter f).map (·.1)).Nodup := by
  induction m with
  | nil => simp
  | cons e m ih =>
    simp only [mkeys, List.map_cons, List.nodup_cons] at h
    simp only [List.filter_cons]
    split
    · simp only [List.map_cons, List.nodup_cons]
      refine ⟨?_, ih h.2⟩
      intro hm
      apply h.1
      simp only [List.mem_map, List.mem_filter] at hm ⊢
      obtain ⟨x, ⟨hx, _⟩, he⟩ := hm
      exact ⟨x, hx, he⟩
    · exact ih h.2

theorem nodup_peerInfos (r : Registry) (pm : PMap) (h : (mkeys pm).Nodup) :
    ((peerInfos r pm).map (·.1)).Nodup := by
  unfold peerInfos
  induction pm with
  | nil => simp
  | cons e pm ih =>
    simp only [mkeys, List.map_cons, List.nodup_cons] at h
    simp only [List.filterMap_cons]
    cases hg : mget r.peers e.1 with
    | none => simp only [Option.map_none]; exact ih h.2
    | some pr =>
      simp only [Option.map_some, List.map_cons, List.nodup_cons]
      refine ⟨?_, ih h.2⟩
      intro hm
      apply h.1
      simp only [List.mem_map, List.mem_filterMap, Option.map_eq_some_iff] at hm
      obtain ⟨x, ⟨y, hy, pr', _, hx⟩, he⟩ := hm
      simp only [mkeys, List.mem_map]
      refine ⟨y, hy, ?_⟩
      rw [← he, ← hx]

theorem nodup_lookup_producers (c : Conf) (r : Registry) (t : Name) (now : Int) (a : LookupAns)
    (h : WF r) (ha : qLookup c r t now = some a) : (a.producers.map (·.1)).Nodup := by
  unfold qLookup at ha
  split at ha
  · simp at ha
  · simp only [Option.some.injEq] at ha
    rw [← ha]
    apply nodup_peerInfos
    exact mkeys_filter_nodup _ _ (nodup_producersOf _ _ h.db)


/-! ### /nodes -/

theorem mget_producersOf (db : DB) (k : Key) (id : Nat) : mget (producersOf db k) id = getP db k id := by
  unfold producersOf getP
  cases mget db k <;> simp

theorem tombFlag_iff (c : Conf) (r : Registry) (id : Nat) (t : Name) (now : Int) :
    tombFlag c r id t now = true ↔ (abs r).tombActive c now id t := by
  unfold tombFlag
  rw [mget_producersOf]
  cases hg : getP r.db (topicKey t) id with
  | none => simp [Spec.tombActive, abs, hg]
  | some tb => simp only; exact (tombActive_abs c r now id t tb hg).symm

theorem mem_nodeTopics (c : Conf) (r : Registry) (id : Nat) (now : Int) (h : WF r) (t : Name) (b : Bool) :
    (t, b) ∈ nodeTopics c r id now ↔
      (abs r).nodeTopic id t ∧ (b = true ↔ (abs r).tombActive c now id t) := by
  unfold nodeTopics Spec.nodeTopic
  simp only [List.mem_map, List.mem_filter, mem_lookupRegistrations_iff _ _ _ h.db.1, isMatch_topic_star,
    Prod.mk.injEq]
  constructor
  · intro ⟨k, ⟨hk, hm⟩, ht, hb⟩
    rw [hm, ht] at hk
    refine ⟨hk, ?_⟩
    rw [← hb, ht]; exact tombFlag_iff c r id t now
  · intro ⟨hk, hb⟩
    refine ⟨topicKey t, ⟨hk, rfl⟩, rfl, ?_⟩
    have := tombFlag_iff c r id t now
    simp only [topicKey]
    cases b <;> cases hf : tombFlag c r id t now <;> simp_all

theorem nodup_nodeTopics (c : Conf) (r : Registry) (id : Nat) (now : Int) (h : WF r) :
    ((nodeTopics c r id now).map (·.1)).Nodup := by
  unfold nodeTopics
  rw [List.map_map]
  apply nodup_map_of_inj_on
  · apply List.Pairwise.filter
    unfold lookupRegistrations
    exact mkeys_filter_nodup' _ _ h.db.1
  · intro a ha b hb hab
    simp only [List.mem_filter, isMatch_topic_star] at ha hb
    simp only [Function.comp] at hab
    rw [ha.2, hb.2, hab]

theorem mem_qNodes (c : Conf) (r : Registry) (now : Int) (h : WF r) (n : NodeAns) :
    n ∈ qNodes c r now ↔
      (abs r).nodes c now n.id ∧ (∃ pr, (abs r).peer n.id = some pr ∧ pr.info = n.info) ∧
        n.topics = nodeTopics c r n.id now := by
  unfold qNodes Spec.nodes
  simp only [filterByActive, List.mem_filterMap, List.mem_filter, Option.map_eq_some_iff]
  constructor
  · intro ⟨e, ⟨hmem, hact⟩, pr, hpr, hn⟩
    have hg : getP r.db clientKey e.1 = some e.2 := (mem_producersOf _ _ _ _ h.db).mp hmem
    unfold activeB at hact
    simp only [hpr, Bool.not_eq_true', Bool.or_eq_false_iff, decide_eq_false_iff_not] at hact
    rw [← hn]
    refine ⟨⟨by simp [abs, hg], (recent_abs c r now e.1).mpr ⟨pr, hpr, hact.1⟩⟩, ⟨pr, hpr, rfl⟩, rfl⟩
  · intro ⟨⟨hlive, hrec⟩, ⟨pr, hpr, hi⟩, htop⟩
    simp only [abs] at hlive hpr
    cases hg : getP r.db clientKey n.id with
    | none => simp [hg] at hlive
    | some tb =>
      refine ⟨(n.id, tb), ⟨(mem_producersOf _ _ _ _ h.db).mpr hg, ?_⟩, pr, hpr, ?_⟩
      · unfold activeB
        simp only [hpr, Bool.not_eq_true', Bool.or_eq_false_iff, decide_eq_false_iff_not]
        obtain ⟨pr', hpr', hle⟩ := (recent_abs c r now n.id).mp hrec
        rw [hpr] at hpr'
        simp only [Option.some.injEq] at hpr'
        subst hpr'
        refine ⟨hle, ?_⟩
        have hnt : tb.tombstoned = false := by
          cases htb : tb.tombstoned with
          | false => rfl
          | true =>
            have := h.tombTopicOnly clientKey n.id tb hg htb
            simp [clientKey] at this
        simp [isTombstoned, hnt]
      · cases n; simp_all

theorem nodup_qNodes (c : Conf) (r : Registry) (now : Int) (h : WF r) : ((qNodes c r now).map (·.id)).Nodup := by
  unfold qNodes
  have hn := mkeys_filter_nodup _ (activeB r c.inactive 0 now) (nodup_producersOf r.db clientKey h.db)
  simp only [filterByActive]
  generalize List.filter (activeB r c.inactive 0 now) (producersOf r.db clientKey) = pm at hn
  induction pm with
  | nil => simp
  | cons e pm ih =>
    simp only [mkeys, List.map_cons, List.nodup_cons] at hn
    simp only [List.filterMap_cons]
    cases hg : mget r.peers e.1 with
    | none => simp only [Option.map_none]; exact ih hn.2
    | some pr =>
      simp only [Option.map_some, List.map_cons, List.nodup_cons]
      refine ⟨?_, ih hn.2⟩
      intro hm
      apply hn.1
      simp only [List.mem_map, List.mem_filterMap, Option.map_eq_some_iff] at hm
      obtain ⟨x, ⟨y, hy, pr', _, hx⟩, he⟩ := hm
      simp only [mkeys, List.mem_map]
      refine ⟨y, hy, ?_⟩
      rw [← he, ← hx]

end Nsq.Proofs.RegistryQuery
