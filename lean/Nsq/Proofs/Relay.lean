import Nsq.Model.Relay
/-!
Helper lemmas for the relay clause of C20 (`Nsq.Model.Relay`).
-/
namespace Nsq.Proofs.Relay
open Nsq.Model.Relay

namespace Http
open Nsq.Model.Relay.Http

/-- everything `sendAll` emits -/
theorem sendAll_mem (post : Bool) (body : Bytes) (resp : Nat → Option Nat) (as : List Nat) :
    ∀ o ∈ (sendAll post body resp as).1, ∃ a ∈ as, o = Out.request a body (accepts post (resp a)) := by
  induction as with
  | nil => intro o ho; simp [sendAll] at ho
  | cons a as ih =>
    intro o ho
    unfold sendAll at ho
    by_cases hacc : accepts post (resp a) = true
    · simp only [hacc, if_true] at ho
      cases ho with
      | head => exact ⟨a, List.mem_cons_self .., by rw [hacc]⟩
      | tail _ ho =>
        obtain ⟨b, hb, e⟩ := ih o ho
        exact ⟨b, List.mem_cons_of_mem _ hb, e⟩
    · simp only [hacc] at ho
      simp at ho
      have : accepts post (resp a) = false := by simpa using hacc
      exact ⟨a, List.mem_cons_self .., by rw [ho, this]⟩

/-- `sendAll` reports success iff every address accepted, and then it has asked every address -/
theorem sendAll_ok (post : Bool) (body : Bytes) (resp : Nat → Option Nat) (as : List Nat) :
    (sendAll post body resp as).2 = true ↔ ∀ a ∈ as, accepts post (resp a) = true := by
  induction as with
  | nil => simp [sendAll]
  | cons a as ih =>
    unfold sendAll
    by_cases hacc : accepts post (resp a) = true
    · simp only [hacc, if_true]; rw [ih]; simp [hacc]
    · simp only [hacc]; simp [hacc]

theorem sendAll_all (post : Bool) (body : Bytes) (resp : Nat → Option Nat) (as : List Nat)
    (h : (sendAll post body resp as).2 = true) :
    ∀ a ∈ as, Out.request a body true ∈ (sendAll post body resp as).1 := by
  induction as with
  | nil => intro a ha; cases ha
  | cons a as ih =>
    unfold sendAll at h ⊢
    by_cases hacc : accepts post (resp a) = true
    · simp only [hacc, if_true] at h ⊢
      intro b hb
      cases hb with
      | head => exact List.mem_cons_self ..
      | tail _ hb => exact List.mem_cons_of_mem _ (ih h b hb)
    · simp only [hacc] at h; simp at h

/-- a rejected request is the last thing `sendAll` does and makes it fail -/
theorem sendAll_reject (post : Bool) (body : Bytes) (resp : Nat → Option Nat) (as : List Nat) (a : Nat) (b : Bytes)
    (h : Out.request a b false ∈ (sendAll post body resp as).1) : (sendAll post body resp as).2 = false := by
  induction as with
  | nil => simp [sendAll] at h
  | cons x xs ih =>
    unfold sendAll at h ⊢
    by_cases hacc : accepts post (resp x) = true
    · simp only [hacc, if_true] at h ⊢
      cases h with
      | tail _ h => exact ih h
    · simp only [hacc]; simp

theorem sendAll_no_fin (post : Bool) (body : Bytes) (resp : Nat → Option Nat) (as : List Nat) (id : Nat) :
    Out.fin id ∉ (sendAll post body resp as).1 ∧ Out.req id ∉ (sendAll post body resp as).1 := by
  constructor <;> intro h <;> obtain ⟨a, _, e⟩ := sendAll_mem post body resp as _ h <;> cases e

/-- explicit result of `step`, case by case -/
theorem step_sampled (c : Cfg) (counter : Nat) (m : Msg) (pick : Nat) (resp : Nat → Option Nat)
    (hs : c.sampling = true) : step c counter m true pick resp = (counter, [Out.fin m.id]) := by
  simp [step, handle, hs]

theorem step_all (c : Cfg) (counter : Nat) (m : Msg) (so : Bool) (pick : Nat) (resp : Nat → Option Nat)
    (hs : ¬(c.sampling = true ∧ so = true)) (hm : c.mode = .all) :
    step c counter m so pick resp =
      (counter, (sendAll c.post m.body resp (List.range c.naddr)).1 ++
        [if (sendAll c.post m.body resp (List.range c.naddr)).2 then Out.fin m.id else Out.req m.id]) := by
  unfold step handle
  rw [if_neg hs, if_pos hm]
  cases h : (sendAll c.post m.body resp (List.range c.naddr)).2 <;> simp

theorem step_rr (c : Cfg) (counter : Nat) (m : Msg) (so : Bool) (pick : Nat) (resp : Nat → Option Nat)
    (hs : ¬(c.sampling = true ∧ so = true)) (hm : c.mode = .roundRobin) (hn : c.naddr ≠ 0) :
    step c counter m so pick resp =
      (counter + 1, [Out.request ((counter + 1) % c.naddr) m.body (accepts c.post (resp ((counter + 1) % c.naddr))),
        if accepts c.post (resp ((counter + 1) % c.naddr)) then Out.fin m.id else Out.req m.id]) := by
  unfold step handle
  rw [if_neg hs, if_neg (by rw [hm]; decide), if_pos hm, if_neg hn]
  cases h : accepts c.post (resp ((counter + 1) % c.naddr)) <;> simp

theorem step_rr_zero (c : Cfg) (counter : Nat) (m : Msg) (so : Bool) (pick : Nat) (resp : Nat → Option Nat)
    (hs : ¬(c.sampling = true ∧ so = true)) (hm : c.mode = .roundRobin) (hn : c.naddr = 0) :
    step c counter m so pick resp = (counter + 1, [Out.panic]) := by
  unfold step handle
  rw [if_neg hs, if_neg (by rw [hm]; decide), if_pos hm, if_pos hn]

theorem step_hp (c : Cfg) (counter : Nat) (m : Msg) (so : Bool) (pick : Nat) (resp : Nat → Option Nat)
    (hs : ¬(c.sampling = true ∧ so = true)) (hm : c.mode = .hostPool) :
    step c counter m so pick resp =
      (counter, [Out.request pick m.body (accepts c.post (resp pick)),
        if accepts c.post (resp pick) then Out.fin m.id else Out.req m.id]) := by
  unfold step handle
  rw [if_neg hs, if_neg (by rw [hm]; decide), if_neg (by rw [hm]; decide)]
  cases h : accepts c.post (resp pick) <;> simp

end Http
end Nsq.Proofs.Relay
