import Nsq.Proofs.AdminGate
/-!
Interpreter lemmas for the two judgements added for audit items C18 / C19 of round 7:
`canWrite` (state-changing by effect) and `reaches` (a well-formed request with an admin identity gets to
the action). Helpers for `Nsq.Props.C17`.
-/
namespace Nsq.Proofs.AdminReach
open Nsq.Model.AdminGate Nsq.Proofs.AdminGate

/-- Does a run show a write to the outside? -/
def writeObs (tbl : List (String × Bool)) (obs : List Obs) : Bool := obs.any (Obs.isWrite tbl)

theorem doEff_noWrite (tbl : List (String × Bool)) (env : Env) (st : St) (e : Eff)
    (h : e.isWrite tbl = false) :
    (doEff env st e).obs.any (Obs.isWrite tbl) = st.obs.any (Obs.isWrite tbl) := by
  cases e <;> simp_all [doEff, Eff.isWrite, Obs.isWrite]

/-- A skeleton without a writing effect on any path performs no write, in any environment. -/
theorem noWrite_runSt (tbl : List (String × Bool)) (env : Env) :
    ∀ (sk : Skel) (st : St), canWrite tbl sk = false →
      writeObs tbl (runSt env sk st).2 = st.obs.any (Obs.isWrite tbl) := by
  intro sk
  induction sk with
  | ret code => intro st _; simp [runSt, writeObs]
  | unknown w => intro st h; simp [canWrite] at h
  | eff e k ih =>
    intro st h
    simp only [canWrite, Bool.or_eq_false_iff] at h
    simp only [runSt]
    rw [ih _ h.2, doEff_noWrite tbl env st e h.1]
  | ite c t e iht ihe =>
    intro st h
    simp only [canWrite, Bool.or_eq_false_iff] at h
    unfold runSt
    by_cases hev : evalCond env st c = true
    · simpa [hev] using iht st h.1
    · simpa [hev] using ihe st h.2

theorem noWrite_run (tbl : List (String × Bool)) (env : Env) (sk : Skel) (h : canWrite tbl sk = false) :
    writeObs tbl (run env sk).2 = false := by
  simpa [run] using noWrite_runSt tbl env sk {} h

/-- What "well-formed request with an admin identity" means for the interpreter. -/
structure WellFormed (env : Env) (V : List String) : Prop where
  admin : isAdmin env.conf env.req = true
  body : env.bodyOk = true
  valid : ∀ s ∈ V, env.otherCond s = false

theorem mem_filter_ne {a x : String} {as : List String} (h : x ∈ as) (hne : x ≠ a) :
    x ∈ as.filter (· != a) := by
  simp [List.mem_filter, h, hne]

/-- The lifting: every run of a well-formed admin request through a skeleton judged `reaches` ends 200 or 502. -/
theorem reaches_runSt (env : Env) (V : List String) (wf : WellFormed env V) :
    ∀ (sk : Skel) (st : St) (en : Bool) (rem : Option (List String)),
      reaches V en rem sk = true → (en = true → st.err = .none) →
      (∀ as, rem = some as → env.req.action ∈ as) →
      (runSt env sk st).1 = 200 ∨ (runSt env sk st).1 = 502 := by
  intro sk
  induction sk with
  | ret code =>
    intro st en rem h _ _
    simpa [reaches, runSt] using h
  | unknown w => intro st en rem h _ _; simp [reaches] at h
  | eff e k ih =>
    intro st en rem h hen hrem
    cases e with
    | decodeBody =>
      simp only [reaches] at h
      exact ih _ true rem h (fun _ => by simp [doEff, wf.body]) hrem
    | readBody =>
      simp only [reaches] at h
      exact ih _ true rem h (fun _ => by simp [doEff, wf.body]) hrem
    | upstream n =>
      simp only [reaches] at h
      exact ih _ false rem h (fun hh => by cases hh) hrem
    | upstreamMany n =>
      simp only [reaches] at h
      exact ih _ false rem h (fun hh => by cases hh) hrem
    | localCall n =>
      simp only [reaches] at h
      exact ih _ false rem h (fun hh => by cases hh) hrem
    | notify a =>
      simp only [reaches] at h
      exact ih _ en rem h (fun hh => by simpa [doEff] using hen hh) hrem
    | configWrite =>
      simp only [reaches] at h
      exact ih _ en rem h (fun hh => by simpa [doEff] using hen hh) hrem
    | pureCall n =>
      simp only [reaches] at h
      exact ih _ en rem h (fun hh => by simpa [doEff] using hen hh) hrem
  | ite c t e iht ihe =>
    intro st en rem h hen hrem
    unfold runSt
    -- the generic case: both branches are judged
    have both : reaches V en rem t = true ∧ reaches V en rem e = true →
        ((if evalCond env st c = true then runSt env t st else runSt env e st).1 = 200 ∨
         (if evalCond env st c = true then runSt env t st else runSt env e st).1 = 502) := by
      intro hb
      by_cases hev : evalCond env st c = true
      · simpa [hev] using iht st en rem hb.1 hen hrem
      · simpa [hev] using ihe st en rem hb.2 hen hrem
    cases c with
    | notAdmin =>
      simp only [reaches] at h
      have : evalCond env st .notAdmin = false := by simp [evalCond, wf.admin]
      simpa [this] using ihe st en rem h hen hrem
    | errNotNil =>
      cases en with
      | true =>
        simp only [reaches] at h
        have : evalCond env st .errNotNil = false := by simp [evalCond, hen rfl]
        simpa [this] using ihe st true rem h hen hrem
      | false =>
        simp only [reaches, Bool.and_eq_true] at h
        exact both h
    | errNotPartial =>
      cases en with
      | true =>
        simp only [reaches] at h
        have : evalCond env st .errNotPartial = false := by simp [evalCond, hen rfl]
        simpa [this] using ihe st true rem h hen hrem
      | false =>
        simp only [reaches, Bool.and_eq_true] at h
        exact both h
    | other s =>
      simp only [reaches] at h
      by_cases hs : V.contains s = true
      · simp only [hs, if_true] at h
        have : evalCond env st (.other s) = false := by
          simp only [evalCond]; exact wf.valid s (by simpa using hs)
        simpa [this] using ihe st en rem h hen hrem
      · simp only [hs, Bool.false_eq_true, if_false, Bool.and_eq_true] at h
        exact both h
    | actionIs a =>
      cases rem with
      | none =>
        simp only [reaches, Bool.and_eq_true] at h
        exact both h
      | some as =>
        simp only [reaches, Bool.and_eq_true, Bool.or_eq_true, Bool.not_eq_true'] at h
        have hact := hrem as rfl
        by_cases hev : evalCond env st (.actionIs a) = true
        · have heq : env.req.action = a := by simpa [evalCond] using hev
          have hin : as.contains a = true := by simpa [← heq] using hact
          rcases h.1 with h1 | h1
          · rw [hin] at h1; cases h1
          · simpa [hev] using iht st en (some [a]) h1 hen
              (fun as' has' => by cases has'; simp [heq])
        · have hne : env.req.action ≠ a := by simpa [evalCond] using hev
          have hmem := mem_filter_ne hact hne
          rcases h.2 with h2 | h2
          · have : as.filter (· != a) = [] := by simpa using h2
            rw [this] at hmem; cases hmem
          · simpa [hev] using ihe st en (some (as.filter (· != a))) h2 hen
              (fun as' has' => by cases has'; exact hmem)
    | cidrSet => simp only [reaches, Bool.and_eq_true] at h; exact both h
    | notInNet => simp only [reaches, Bool.and_eq_true] at h; exact both h
    | methodIs m => simp only [reaches, Bool.and_eq_true] at h; exact both h
    | optIs o => simp only [reaches, Bool.and_eq_true] at h; exact both h
    | paramNonEmpty p => simp only [reaches, Bool.and_eq_true] at h; exact both h
    | bodyFieldNonEmpty f => simp only [reaches, Bool.and_eq_true] at h; exact both h
    | lookupdMode => simp only [reaches, Bool.and_eq_true] at h; exact both h
    | notifyOn => simp only [reaches, Bool.and_eq_true] at h; exact both h
    | identityDep t => simp only [reaches, Bool.and_eq_true] at h; exact both h

theorem adminReaches_run (env : Env) (handler : String) (sk : Skel)
    (h : adminReaches handler sk = true) (wf : WellFormed env (validOf handler).others)
    (hact : ∀ as, (validOf handler).actions = some as → env.req.action ∈ as) :
    (run env sk).1 = 200 ∨ (run env sk).1 = 502 := by
  unfold adminReaches at h
  exact reaches_runSt env _ wf sk {} false _ h (fun hh => by cases hh) hact

end Nsq.Proofs.AdminReach
