/-
E2 — liveness toolkit for the channel model: infinite schedules, the location of one message id
along a schedule, the allowed transitions of that location under ANY step (frame lemmas, no
invariant needed) and a small "unless + fairness ⇒ leads-to" lemma.
Used by `Nsq.Props.C01Live`.
-/
import Nsq.Proofs.Chan
import Nsq.Proofs.ChanScan
namespace Nsq.Proofs.ChanLive
open Nsq.Model.Chan Nsq.Proofs.Chan

/-- where message `id` is on the channel (`none` = the channel does not own it) -/
def locOf (c : Chan) (id : Nat) : Option Loc := (findE c.msgs id).map (·.loc)

/-! ### `findE` under the list updates of the model -/

theorem findE_cons_ne {x : Entry} {l : List Entry} {id : Nat} (h : x.id ≠ id) : findE (x :: l) id = findE l id := by
  simp [findE, h]

theorem findE_cons_eq {x : Entry} {l : List Entry} : findE (x :: l) x.id = some x := by
  simp [findE]

theorem findE_setE_ne {l : List Entry} {id id' a : Nat} {loc : Loc} (h : id' ≠ id) :
    findE (setE l id' a loc) id = findE l id := by
  induction l with
  | nil => rfl
  | cons x l ih =>
    simp only [setE, List.map_cons] at ih ⊢
    by_cases hx : x.id = id'
    · have : x.id ≠ id := by omega
      simp only [hx, beq_self_eq_true, ↓reduceIte]
      rw [findE_cons_ne (by simpa [hx] using this), findE_cons_ne this]
      exact ih
    · have hb : (x.id == id') = false := by simpa using hx
      simp only [hb, Bool.false_eq_true, ↓reduceIte]
      by_cases hy : x.id = id
      · subst hy; rw [findE_cons_eq, findE_cons_eq]
      · rw [findE_cons_ne hy, findE_cons_ne hy]; exact ih

theorem findE_setE_eq {l : List Entry} {id a : Nat} {loc : Loc} {e : Entry} (h : findE l id = some e) :
    findE (setE l id a loc) id = some { e with att := a, loc := loc } := by
  induction l with
  | nil => simp [findE] at h
  | cons x l ih =>
    simp only [setE, List.map_cons] at ih ⊢
    by_cases hx : x.id = id
    · subst hx
      rw [findE_cons_eq] at h
      cases h
      simp only [beq_self_eq_true, ↓reduceIte]
      exact findE_cons_eq (x := { e with att := a, loc := loc })
    · have hb : (x.id == id) = false := by simpa using hx
      rw [findE_cons_ne hx] at h
      simp only [hb, Bool.false_eq_true, ↓reduceIte]
      rw [findE_cons_ne hx]
      exact ih h

theorem findE_removeE_ne {l : List Entry} {id id' : Nat} (h : id' ≠ id) : findE (removeE l id') id = findE l id := by
  induction l with
  | nil => rfl
  | cons x l ih =>
    simp only [removeE, List.filter_cons] at ih ⊢
    by_cases hx : x.id = id'
    · have : x.id ≠ id := by omega
      simp only [hx, bne_self_eq_false, Bool.false_eq_true, ↓reduceIte]
      rw [findE_cons_ne this]; exact ih
    · have hb : (x.id != id') = true := by simpa using hx
      simp only [hb, ↓reduceIte]
      by_cases hy : x.id = id
      · subst hy; rw [findE_cons_eq, findE_cons_eq]
      · rw [findE_cons_ne hy, findE_cons_ne hy]; exact ih

theorem findE_removeE_eq {l : List Entry} {id : Nat} : findE (removeE l id) id = none := by
  simp [findE, removeE, List.find?_eq_none]

/-! ### the location under the primitives -/

theorem locOf_enqueue_ne (c : Chan) {x id : Nat} (h : x ≠ id) : locOf (enqueue c x) id = locOf c id := by
  unfold enqueue locOf
  by_cases h1 : c.memLen < c.memCap
  · simp [h1]
  · by_cases h2 : c.ephemeral = true
    · simp only [h1, h2, ↓reduceIte]; rw [findE_removeE_ne h]
    · simp [h1, h2]

theorem locOf_enqueue_eq (c : Chan) (id : Nat) : locOf (enqueue c id) id = locOf c id ∨ locOf (enqueue c id) id = none := by
  unfold enqueue locOf
  by_cases h1 : c.memLen < c.memCap
  · simp [h1]
  · by_cases h2 : c.ephemeral = true
    · right; simp only [h1, h2, ↓reduceIte]; rw [findE_removeE_eq]; rfl
    · simp [h1, h2]

theorem locOf_enqueue_eq' {c : Chan} {id : Nat} (h : locOf c id = some .queued) :
    locOf (enqueue c id) id = some .queued ∨ locOf (enqueue c id) id = none := by
  rcases locOf_enqueue_eq c id with h' | h'
  · left; rw [h', h]
  · exact Or.inr h'

theorem timeoutOne_ne (c : Chan) {x id : Nat} (h : x ≠ id) : locOf (timeoutOne c x) id = locOf c id := by
  unfold timeoutOne
  split
  · split
    · rw [locOf_enqueue_ne _ h]; simp only [locOf]; rw [findE_setE_ne h]
    · rfl
  · rfl

theorem timeoutOne_eq (c : Chan) (id : Nat) :
    ((∃ k p d, locOf c id = some (.inflight k p d)) ∧
      (locOf (timeoutOne c id) id = some .queued ∨ locOf (timeoutOne c id) id = none)) ∨
    ((¬ ∃ k p d, locOf c id = some (.inflight k p d)) ∧ timeoutOne c id = c) := by
  unfold timeoutOne
  cases hf : findE c.msgs id with
  | none => right; simp [locOf, hf]
  | some e =>
    cases hl : e.loc with
    | inflight k p d =>
      left
      refine ⟨⟨k, p, d, by simp [locOf, hf, hl]⟩, ?_⟩
      simp only [hl]
      apply locOf_enqueue_eq'
      simp only [locOf]; rw [findE_setE_eq hf]; rfl
    | queued => right; simp [locOf, hf, hl]
    | deferred p => right; simp [locOf, hf, hl]

theorem deferDueOne_ne (c : Chan) {x id : Nat} (h : x ≠ id) : locOf (deferDueOne c x) id = locOf c id := by
  unfold deferDueOne
  split
  · split
    · rw [locOf_enqueue_ne _ h]; simp only [locOf]; rw [findE_setE_ne h]
    · rfl
  · rfl

theorem deferDueOne_eq (c : Chan) (id : Nat) :
    ((∃ p, locOf c id = some (.deferred p)) ∧
      (locOf (deferDueOne c id) id = some .queued ∨ locOf (deferDueOne c id) id = none)) ∨
    ((¬ ∃ p, locOf c id = some (.deferred p)) ∧ deferDueOne c id = c) := by
  unfold deferDueOne
  cases hf : findE c.msgs id with
  | none => right; simp [locOf, hf]
  | some e =>
    cases hl : e.loc with
    | deferred p =>
      left
      refine ⟨⟨p, by simp [locOf, hf, hl]⟩, ?_⟩
      simp only [hl]
      apply locOf_enqueue_eq'
      simp only [locOf]; rw [findE_setE_eq hf]; rfl
    | queued => right; simp [locOf, hf, hl]
    | inflight k p d => right; simp [locOf, hf, hl]

/-! ### the transition graph of one message's location -/

/-- the moves a message can make in one step: `none → queued | deferred` (fan-out),
`queued → in flight | none` (delivery; sampling / Empty / overflow of an ephemeral queue),
`in flight → anything` (FIN, REQ, timeout, TOUCH, Empty), `deferred → queued | none`. -/
def trans : Option Loc → Option Loc → Bool
  | none, some .queued => true
  | none, some (.deferred _) => true
  | some .queued, some (.inflight ..) => true
  | some .queued, none => true
  | some (.inflight ..), _ => true
  | some (.deferred _), some .queued => true
  | some (.deferred _), none => true
  | _, _ => false

/-- `a` stays, or moves along an allowed edge; the edge `queued → in flight` only with `D`
(instantiated below with "a delivery event for this id was recorded") -/
def Move (D : Prop) (a b : Option Loc) : Prop :=
  b = a ∨ (trans a b = true ∧ (a = some .queued → b ≠ none → D))

theorem Move.mono {D D' : Prop} {a b : Option Loc} (f : D → D') (h : Move D a b) : Move D' a b := by
  rcases h with h | ⟨h1, h2⟩
  · exact Or.inl h
  · exact Or.inr ⟨h1, fun x y => f (h2 x y)⟩

/-- the in-flight scan's relation: unchanged, or in flight → queued | dropped -/
def RelIF (a b : Option Loc) : Prop :=
  b = a ∨ ((∃ k p d, a = some (.inflight k p d)) ∧ (b = some .queued ∨ b = none))

def RelDF (a b : Option Loc) : Prop :=
  b = a ∨ ((∃ p, a = some (.deferred p)) ∧ (b = some .queued ∨ b = none))

theorem RelIF.trans' {a b c : Option Loc} (h1 : RelIF a b) (h2 : RelIF b c) : RelIF a c := by
  rcases h1 with rfl | ⟨ha, hb⟩
  · exact h2
  · rcases h2 with rfl | ⟨⟨k, p, d, hb'⟩, _⟩
    · exact Or.inr ⟨ha, hb⟩
    · rcases hb with hb | hb <;> rw [hb] at hb' <;> cases hb'

theorem RelDF.trans' {a b c : Option Loc} (h1 : RelDF a b) (h2 : RelDF b c) : RelDF a c := by
  rcases h1 with rfl | ⟨ha, hb⟩
  · exact h2
  · rcases h2 with rfl | ⟨⟨p, hb'⟩, _⟩
    · exact Or.inr ⟨ha, hb⟩
    · rcases hb with hb | hb <;> rw [hb] at hb' <;> cases hb'

theorem timeoutOne_rel (c : Chan) (x id : Nat) : RelIF (locOf c id) (locOf (timeoutOne c x) id) := by
  by_cases h : x = id
  · subst h
    rcases timeoutOne_eq c x with ⟨h1, h2⟩ | ⟨_, h2⟩
    · exact Or.inr ⟨h1, h2⟩
    · left; rw [h2]
  · left; exact timeoutOne_ne c h

theorem deferDueOne_rel (c : Chan) (x id : Nat) : RelDF (locOf c id) (locOf (deferDueOne c x) id) := by
  by_cases h : x = id
  · subst h
    rcases deferDueOne_eq c x with ⟨h1, h2⟩ | ⟨_, h2⟩
    · exact Or.inr ⟨h1, h2⟩
    · left; rw [h2]
  · left; exact deferDueOne_ne c h

theorem foldl_timeoutOne_rel (l : List Nat) (c : Chan) (id : Nat) : RelIF (locOf c id) (locOf (l.foldl timeoutOne c) id) := by
  induction l generalizing c with
  | nil => left; rfl
  | cons x l ih => exact (timeoutOne_rel c x id).trans' (ih (timeoutOne c x))

theorem foldl_deferDueOne_rel (l : List Nat) (c : Chan) (id : Nat) : RelDF (locOf c id) (locOf (l.foldl deferDueOne c) id) := by
  induction l generalizing c with
  | nil => left; rfl
  | cons x l ih => exact (deferDueOne_rel c x id).trans' (ih (deferDueOne c x))

/-- a due in-flight message is released by the fold of the scan -/
theorem foldl_timeoutOne_releases (l : List Nat) (c : Chan) (id : Nat) (hm : id ∈ l)
    (hl : ∃ k p d, locOf c id = some (.inflight k p d)) :
    locOf (l.foldl timeoutOne c) id = some .queued ∨ locOf (l.foldl timeoutOne c) id = none := by
  induction l generalizing c with
  | nil => cases hm
  | cons x l ih =>
    simp only [List.foldl_cons]
    by_cases h : x = id
    · subst h
      rcases timeoutOne_eq c x with ⟨_, h2⟩ | ⟨h1, _⟩
      · rcases foldl_timeoutOne_rel l (timeoutOne c x) x with h3 | ⟨⟨k, p, d, h3⟩, _⟩
        · rw [h3]; exact h2
        · rcases h2 with h2 | h2 <;> rw [h2] at h3 <;> cases h3
      · exact absurd hl h1
    · have hm' : id ∈ l := by
        rcases List.mem_cons.1 hm with h' | h'
        · exact absurd h'.symm h
        · exact h'
      exact ih (timeoutOne c x) hm' (by rw [timeoutOne_ne c h]; exact hl)

theorem foldl_deferDueOne_releases (l : List Nat) (c : Chan) (id : Nat) (hm : id ∈ l)
    (hl : ∃ p, locOf c id = some (.deferred p)) :
    locOf (l.foldl deferDueOne c) id = some .queued ∨ locOf (l.foldl deferDueOne c) id = none := by
  induction l generalizing c with
  | nil => cases hm
  | cons x l ih =>
    simp only [List.foldl_cons]
    by_cases h : x = id
    · subst h
      rcases deferDueOne_eq c x with ⟨_, h2⟩ | ⟨h1, _⟩
      · rcases foldl_deferDueOne_rel l (deferDueOne c x) x with h3 | ⟨⟨p, h3⟩, _⟩
        · rw [h3]; exact h2
        · rcases h2 with h2 | h2 <;> rw [h2] at h3 <;> cases h3
      · exact absurd hl h1
    · have hm' : id ∈ l := by
        rcases List.mem_cons.1 hm with h' | h'
        · exact absurd h'.symm h
        · exact h'
      exact ih (deferDueOne c x) hm' (by rw [deferDueOne_ne c h]; exact hl)

theorem RelIF.move {D : Prop} {a b : Option Loc} (h : RelIF a b) : Move D a b := by
  rcases h with h | ⟨⟨k, p, d, rfl⟩, _⟩
  · exact Or.inl h
  · right; exact ⟨by simp [trans], fun h => by cases h⟩

theorem RelDF.move {D : Prop} {a b : Option Loc} (h : RelDF a b) : Move D a b := by
  rcases h with h | ⟨⟨p, rfl⟩, hb⟩
  · exact Or.inl h
  · right; exact ⟨by rcases hb with rfl | rfl <;> simp [trans], fun h => by cases h⟩


/-! ### every step moves the location of every message along the graph -/

theorem move_none {D : Prop} (a : Option Loc) : Move D a none := by
  cases a with
  | none => exact Or.inl rfl
  | some l => right; exact ⟨by cases l <;> rfl, fun _ h => absurd rfl h⟩

theorem move_of_inflight {D : Prop} {a b : Option Loc} {k : Nat} {p d : Int} (h : a = some (.inflight k p d)) : Move D a b := by
  subst h; right; exact ⟨by cases b <;> rfl, fun h => by cases h⟩

theorem findE_none_of_hasId {l : List Entry} {x : Nat} (h : hasId l x = false) : findE l x = none := by
  simp only [findE, List.find?_eq_none]
  intro e he
  have := (hasId_false.1 h) e he
  simpa using this

theorem move_enqueue {D : Prop} {a : Option Loc} {c' : Chan} {x id : Nat} (h1 : x ≠ id → Move D a (locOf c' id))
    (h2 : x = id → locOf c' id = some .queued ∧ Move D a (some .queued)) : Move D a (locOf (enqueue c' x) id) := by
  by_cases h : x = id
  · subst h
    obtain ⟨hq, hm⟩ := h2 rfl
    rcases locOf_enqueue_eq' hq with h' | h'
    · rw [h']; exact hm
    · rw [h']; exact move_none a
  · rw [locOf_enqueue_ne _ h]; exact h1 h


theorem finChanPart_move {D : Prop} {c c' : Chan} {k x : Nat} (hp : finChanPart c k x = some c') (id : Nat) :
    Move D (locOf c id) (locOf c' id) := by
  unfold finChanPart at hp
  cases hf : findE c.msgs x with
  | none => simp [hf] at hp
  | some e =>
    simp only [hf] at hp
    cases hl : e.loc with
    | queued => simp [hl] at hp
    | deferred p => simp [hl] at hp
    | inflight k' p d =>
      simp only [hl] at hp
      by_cases hk : k' = k
      · simp only [hk, ↓reduceIte, Option.some.injEq] at hp
        subst hp
        by_cases h : x = id
        · subst h
          exact move_of_inflight (k := k') (p := p) (d := d) (by simp [locOf, hf, hl])
        · left; simp only [locOf]; rw [findE_removeE_ne h]
      · simp [hk] at hp

theorem doDeliver_move (c : Chan) (cl : Client) (k x : Nat) (t : Int) (id : Nat) :
    Move (∃ att, (doDeliver c cl k x t).1.hist = Ev.deliver k id att :: c.hist)
      (locOf c id) (locOf (doDeliver c cl k x t).1 id) := by
  unfold doDeliver
  cases hf : findE c.msgs x with
  | none => exact Or.inl rfl
  | some e =>
    simp only []
    by_cases hq : isQueued e = true
    · simp only [hq, Bool.not_true, Bool.false_eq_true, ↓reduceIte]
      by_cases h : x = id
      · subst h
        right
        have hl : e.loc = .queued := by
          unfold isQueued at hq; cases hl : e.loc <;> simp [hl] at hq; rfl
        refine ⟨?_, fun _ _ => ⟨e.att + 1, rfl⟩⟩
        simp only [locOf, hf, findE_setE_eq hf, Option.map_some, hl]
        rfl
      · left; simp only [locOf]; rw [findE_setE_ne h]
    · simp only [hq, Bool.not_false, ↓reduceIte]; exact Or.inl rfl

/-- ANY step (atomic or micro, accepted or rejected) moves the location of ANY message id along the
graph `trans`, and the edge `queued → in flight` is taken only together with a `deliver` event -/
theorem step_move (conf : Conf) (c : Chan) (op : Op) (id : Nat) :
    Move (∃ k att, (step conf c op).1.hist = Ev.deliver k id att :: c.hist)
      (locOf c id) (locOf (step conf c op).1 id) := by
  cases op with
  | put x env =>
    simp only [step]
    split
    · exact Or.inl rfl
    · rename_i hrej
      have hh : hasId c.msgs x = false := by
        cases hh : hasId c.msgs x
        · rfl
        · exfalso; apply hrej; simp [hh]
      apply move_enqueue
      · intro hne; left; simp only [locOf]; rw [findE_cons_ne (by simpa using hne)]
      · intro he; subst he
        have hn : locOf c x = none := by simp only [locOf, findE_none_of_hasId hh, Option.map_none]
        rw [hn]
        exact ⟨by simp [locOf, findE], Or.inr ⟨rfl, fun h => by cases h⟩⟩
  | putDeferred x pri env =>
    simp only [step]
    split
    · exact Or.inl rfl
    · rename_i hrej
      have hh : hasId c.msgs x = false := by
        cases hh : hasId c.msgs x
        · rfl
        · exfalso; apply hrej; simp [hh]
      by_cases he : x = id
      · subst he
        have hn : locOf c x = none := by simp only [locOf, findE_none_of_hasId hh, Option.map_none]
        rw [hn]; right; exact ⟨by simp [locOf, findE, trans], fun h => by cases h⟩
      · left; simp only [locOf]; rw [findE_cons_ne (by simpa using he)]
  | addClient k mt sample => simp only [step]; split <;> exact Or.inl rfl
  | removeClient k => simp only [step]; split <;> exact Or.inl rfl
  | rdy k n =>
    simp only [step]
    split
    · exact Or.inl rfl
    · split
      · exact Or.inl rfl
      · split <;> exact Or.inl rfl
  | cls k =>
    simp only [step]
    split
    · exact Or.inl rfl
    · split <;> exact Or.inl rfl
  | deliver k x now =>
    simp only [step]
    split
    · exact Or.inl rfl
    · split
      · exact Or.inl rfl
      · exact (doDeliver_move c _ k x now id).mono (fun ⟨a, h⟩ => ⟨k, a, h⟩)
  | guard k =>
    simp only [step]
    split
    · exact Or.inl rfl
    · split <;> exact Or.inl rfl
  | deliverArmed k x now =>
    simp only [step]
    split
    · exact Or.inl rfl
    · split
      · exact Or.inl rfl
      · exact (doDeliver_move c _ k x now id).mono (fun ⟨a, h⟩ => ⟨k, a, h⟩)
  | sampleDrop k x =>
    simp only [step]
    split
    · exact Or.inl rfl
    · split
      · exact Or.inl rfl
      · split
        · exact Or.inl rfl
        · cases hf : findE c.msgs x with
          | none => exact Or.inl rfl
          | some e =>
            simp only []
            by_cases hq : isQueued e = true
            · simp only [hq, Bool.not_true, Bool.false_eq_true, ↓reduceIte]
              by_cases h : x = id
              · subst h
                have hl : e.loc = .queued := by
                  unfold isQueued at hq; cases hl : e.loc <;> simp [hl] at hq; rfl
                right
                simp only [locOf, hf, findE_removeE_eq, Option.map_some, Option.map_none, hl]
                exact ⟨rfl, fun _ h => absurd rfl h⟩
              · left; simp only [locOf]; rw [findE_removeE_ne h]
            · simp only [hq, Bool.not_false, ↓reduceIte]; exact Or.inl rfl
  | fin k x =>
    simp only [step]
    split
    · exact Or.inl rfl
    · cases hp : finChanPart c k x with
      | none => exact Or.inl rfl
      | some c' =>
        simp only []
        show Move _ (locOf c id) (locOf c' id)
        exact finChanPart_move hp id
  | finChan k x =>
    simp only [step]
    split
    · exact Or.inl rfl
    · cases hp : finChanPart c k x with
      | none => exact Or.inl rfl
      | some c' =>
        simp only []
        show Move _ (locOf c id) (locOf c' id)
        exact finChanPart_move hp id
  | finClient k => simp only [step]; split <;> exact Or.inl rfl
  | req k x delay now =>
    simp only [step]
    split
    · exact Or.inl rfl
    · cases hf : findE c.msgs x with
      | none => exact Or.inl rfl
      | some e =>
        simp only []
        cases hl : e.loc with
        | queued => exact Or.inl rfl
        | deferred p => exact Or.inl rfl
        | inflight k' p d =>
          simp only []
          by_cases hk : k' = k
          · by_cases h : x = id
            · subst h
              exact move_of_inflight (k := k') (p := p) (d := d) (by simp [locOf, hf, hl])
            · simp only [hk, ne_eq, not_true_eq_false, ↓reduceIte]
              split
              · apply move_enqueue
                · intro _; left; simp only [locOf]; rw [findE_setE_ne h]
                · intro h'; exact absurd h' h
              · left; simp only [locOf]; rw [findE_setE_ne h]
          · simp only [ne_eq, hk, not_false_eq_true, ↓reduceIte]; exact Or.inl rfl
  | touch k x now =>
    simp only [step]
    split
    · exact Or.inl rfl
    · cases hf : findE c.msgs x with
      | none => exact Or.inl rfl
      | some e =>
        simp only []
        cases hl : e.loc with
        | queued => exact Or.inl rfl
        | deferred p => exact Or.inl rfl
        | inflight k' p d =>
          simp only []
          by_cases hk : k' = k
          · by_cases h : x = id
            · subst h
              exact move_of_inflight (k := k') (p := p) (d := d) (by simp [locOf, hf, hl])
            · simp only [hk, ne_eq, not_true_eq_false, ↓reduceIte]
              left; simp only [locOf]; rw [findE_setE_ne h]
          · simp only [ne_eq, hk, not_false_eq_true, ↓reduceIte]; exact Or.inl rfl
  | scanInFlight t => simp only [step]; exact (foldl_timeoutOne_rel _ c id).move
  | scanDeferred t => simp only [step]; exact (foldl_deferDueOne_rel _ c id).move
  | pause => exact Or.inl rfl
  | unpause => exact Or.inl rfl
  | empty => simp only [step]; exact move_none _
  | resplit m d => simp only [step]; split <;> exact Or.inl rfl

/-! ### infinite schedules and the leads-to lemma -/

/-- an infinite run of the channel model: any operation at any time (rejected observations
stutter) -/
structure Exec (conf : Conf) where
  ops  : Nat → Op
  st   : Nat → Chan
  next : ∀ n, st (n + 1) = (step conf (st n) (ops n)).1

/-- `P unless Q` along the indices, plus "infinitely often `P` fails or the step towards `Q` is
taken" (weak fairness of the step class that `P` enables) gives `P leads-to Q`. -/
theorem leadsto {P Q : Nat → Prop} (hun : ∀ m, P m → P (m + 1) ∨ Q (m + 1))
    (hfair : ∀ n, ∃ m, n ≤ m ∧ (¬ P m ∨ Q (m + 1))) {n : Nat} (hp : P n) : ∃ m, n < m ∧ Q m := by
  obtain ⟨m, hnm, hm⟩ := hfair n
  have key : ∀ d, P (n + d) ∨ ∃ j, n < j ∧ j ≤ n + d ∧ Q j := by
    intro d
    induction d with
    | zero => exact Or.inl hp
    | succ d ih =>
      rcases ih with h | ⟨j, h1, h2, h3⟩
      · rcases hun _ h with h' | h'
        · exact Or.inl h'
        · exact Or.inr ⟨n + d + 1, by omega, by omega, h'⟩
      · exact Or.inr ⟨j, h1, by omega, h3⟩
  obtain ⟨d, rfl⟩ : ∃ d, m = n + d := ⟨m - n, by omega⟩
  rcases key d with h | ⟨j, h1, _, h3⟩
  · rcases hm with hm | hm
    · exact absurd h hm
    · exact ⟨n + d + 1, by omega, hm⟩
  · exact ⟨j, h1, h3⟩

end Nsq.Proofs.ChanLive
