import Nsq.Model.Meta
/-! Helper lemmas and invariants for C06 (`Nsq.Props.C06`). -/
namespace Nsq.Proofs.Meta
open Nsq.Model.FS Nsq.Model.Meta

variable {β : Type}

theorem eq_dropLast_of_getLast? {α} (l : List α) (a : α) (h : l.getLast? = some a) :
    l = l.dropLast ++ [a] := by
  have hne : l ≠ [] := by intro h0; simp [h0] at h
  have := List.dropLast_concat_getLast hne
  rw [List.getLast?_eq_some_getLast hne] at h
  simp at h
  rw [h] at this
  exact this.symm

/-! ## Invariant A: nsqd.dat, the temporary file, and the order of snapshots -/

def midPhase (ph : Phase) : Bool :=
  ph == .snapped || ph == .opened || ph == .partialW || ph == .written || ph == .synced

structure InvA (cd : Codec β) (s : Sys β) : Prop where
  datEq : s.fs.dat = s.renamed.getLast?.map cd.marshal
  sub : s.renamed.Sublist s.taken
  subMid : ∀ p, s.persist = some p → midPhase p.phase = true → s.renamed.Sublist s.taken.dropLast
  last : ∀ p, s.persist = some p → p.phase ≠ .reading → s.taken.getLast? = some p.done
  tmpFull : ∀ p, s.persist = some p → (p.phase = .written ∨ p.phase = .synced) →
    s.fs.tmp p.tmp = some (cd.marshal p.done)
  renLast : ∀ p, s.persist = some p → p.phase = .renamedP → s.renamed.getLast? = some p.done
  deadNoPersist : s.alive = false → s.persist = none

theorem invA_init (cd : Codec β) : InvA cd (Sys.init : Sys β) := by
  constructor <;> simp [Sys.init, FS.empty]

theorem invA_pstep {cd : Codec β} {s s' : Sys β} {ps : PStep} (h : InvA cd s) (ha : s.alive = true)
    (hs : pstep cd s ps = some s') : InvA cd s' := by
  cases ps with
  | beginNotify =>
    simp only [pstep] at hs
    split at hs; · simp at hs
    split at hs; · simp at hs
    simp at hs; subst hs
    constructor <;> simp_all [h.datEq, h.sub, midPhase]
  | beginHandler i =>
    simp only [pstep] at hs
    split at hs; · simp at hs
    split at hs; · simp at hs
    simp at hs; subst hs
    constructor <;> simp_all [h.datEq, h.sub, midPhase]
  | read =>
    simp only [pstep] at hs
    split at hs; · simp at hs
    rename_i p hp
    split at hs; · simp at hs
    rename_i hph
    simp at hph
    split at hs
    · simp at hs; subst hs
      constructor
      · exact h.datEq
      · exact h.sub
      · intro q hq hm; simp at hq; subst hq; simp [midPhase, hph] at hm
      · intro q hq hn; simp at hq; subst hq; simp [hph] at hn
      · intro q hq hn; simp at hq; subst hq; simp [hph] at hn
      · intro q hq hn; simp at hq; subst hq; simp [hph] at hn
      · simp [ha]
    · simp at hs; subst hs
      constructor
      · exact h.datEq
      · exact h.sub.trans (List.sublist_append_left _ _)
      · intro q hq hm; simp at hq; subst hq; simpa using h.sub
      · intro q hq hn; simp at hq; subst hq; simp
      · intro q hq hn; simp at hq; subst hq; simp at hn
      · intro q hq hn; simp at hq; subst hq; simp at hn
      · simp [ha]
  | openTmp r =>
    simp only [pstep] at hs
    split at hs; · simp at hs
    rename_i p hp
    split at hs; · simp at hs
    rename_i hph
    simp at hph
    simp at hs; subst hs
    constructor
    · simpa [FS.dat_setTmp] using h.datEq
    · exact h.sub
    · intro q hq hm; exact h.subMid p hp (by simp [midPhase, hph])
    · intro q hq hn; simp at hq; subst hq; exact h.last p hp (by simp [hph])
    · intro q hq hn; simp at hq; subst hq; simp at hn
    · intro q hq hn; simp at hq; subst hq; simp at hn
    · simp [ha]
  | writePart k =>
    simp only [pstep] at hs
    split at hs; · simp at hs
    rename_i p hp
    split at hs; · simp at hs
    rename_i hph
    simp at hs; subst hs
    have hmid : midPhase p.phase = true := by
      simp only [midPhase]; rcases Classical.not_and_iff_not_or_not.mp hph with h1 | h1 <;> simp at h1 <;> simp [h1]
    have hnr : p.phase ≠ .reading := by
      intro hr; simp [midPhase, hr] at hmid
    constructor
    · simpa [FS.dat_setTmp] using h.datEq
    · exact h.sub
    · intro q hq hm; exact h.subMid p hp hmid
    · intro q hq hn; simp at hq; subst hq; exact h.last p hp hnr
    · intro q hq hn; simp at hq; subst hq; simp at hn
    · intro q hq hn; simp at hq; subst hq; simp at hn
    · simp [ha]
  | writeRest =>
    simp only [pstep] at hs
    split at hs; · simp at hs
    rename_i p hp
    split at hs; · simp at hs
    rename_i hph
    simp at hs; subst hs
    have hmid : midPhase p.phase = true := by
      simp only [midPhase]; rcases Classical.not_and_iff_not_or_not.mp hph with h1 | h1 <;> simp at h1 <;> simp [h1]
    have hnr : p.phase ≠ .reading := by
      intro hr; simp [midPhase, hr] at hmid
    constructor
    · simpa [FS.dat_setTmp] using h.datEq
    · exact h.sub
    · intro q hq hm; exact h.subMid p hp hmid
    · intro q hq hn; simp at hq; subst hq; exact h.last p hp hnr
    · intro q hq hn; simp at hq; subst hq; simp [FS.tmp_setTmp]
    · intro q hq hn; simp at hq; subst hq; simp at hn
    · simp [ha]
  | sync =>
    simp only [pstep] at hs
    split at hs; · simp at hs
    rename_i p hp
    split at hs; · simp at hs
    rename_i hph
    simp at hph
    simp at hs; subst hs
    constructor
    · exact h.datEq
    · exact h.sub
    · intro q hq hm; exact h.subMid p hp (by simp [midPhase, hph])
    · intro q hq hn; simp at hq; subst hq; exact h.last p hp (by simp [hph])
    · intro q hq hn; simp at hq; subst hq; exact h.tmpFull p hp (Or.inl hph)
    · intro q hq hn; simp at hq; subst hq; simp at hn
    · simp [ha]
  | rename =>
    simp only [pstep] at hs
    split at hs; · simp at hs
    rename_i p hp
    split at hs; · simp at hs
    rename_i hph
    simp at hph
    simp at hs; subst hs
    have htmp := h.tmpFull p hp (Or.inr hph)
    have hlast := h.last p hp (by simp [hph])
    have hsub := h.subMid p hp (by simp [midPhase, hph])
    have htk : s.taken = s.taken.dropLast ++ [p.done] := eq_dropLast_of_getLast? _ _ hlast
    constructor
    · simp [FS.dat_renameTmp _ _ _ htmp]
    · show (s.renamed ++ [p.done]).Sublist s.taken
      rw [htk]; exact List.Sublist.append hsub (List.Sublist.refl _)
    · intro q hq hm; simp at hq; subst hq; simp [midPhase] at hm
    · intro q hq hn; simp at hq; subst hq; exact hlast
    · intro q hq hn; simp at hq; subst hq; simp at hn
    · intro q hq hn; simp at hq; subst hq; simp
    · simp [ha]
  | finish =>
    simp only [pstep] at hs
    split at hs; · simp at hs
    rename_i p hp
    split at hs; · simp at hs
    simp at hs; subst hs
    constructor
    · exact h.datEq
    · exact h.sub
    · intro q hq; simp at hq
    · intro q hq; simp at hq
    · intro q hq; simp at hq
    · intro q hq; simp at hq
    · simp

theorem invA_step {cd : Codec β} {fix : Bool} {s s' : Sys β} {st : Step} (h : InvA cd s)
    (hs : step cd fix s st = some s') : InvA cd s' := by
  cases st with
  | start =>
    simp only [step] at hs
    split at hs
    · simp at hs; subst hs
      exact ⟨h.datEq, h.sub, h.subMid, h.last, h.tmpFull, h.renLast, h.deadNoPersist⟩
    · rename_i hal
      have hnp := h.deadNoPersist (by simpa using hal)
      split at hs
      · simp at hs; subst hs
        constructor <;> simp [boot, h.datEq, h.sub]
      · split at hs
        · simp at hs; subst hs
          constructor <;> simp [boot, h.datEq, h.sub]
        · simp at hs; subst hs
          exact ⟨h.datEq, h.sub, h.subMid, h.last, h.tmpFull, h.renLast, h.deadNoPersist⟩
  | kill =>
    simp only [step] at hs
    split at hs
    · simp at hs; subst hs
      constructor <;> simp [h.datEq, h.sub]
    · simp at hs
  | exitBegin =>
    simp only [step] at hs
    split at hs; · simp at hs
    rename_i hal
    simp at hs; subst hs
    exact ⟨h.datEq, h.sub, h.subMid, h.last, h.tmpFull, h.renLast, fun hd => by simp at hd; simp [hd] at hal⟩
  | exitEnd =>
    simp only [step] at hs
    split at hs
    · simp at hs; subst hs
      constructor <;> simp [h.datEq, h.sub]
    · simp at hs
  | mem ms =>
    simp only [step] at hs
    split at hs; · simp at hs
    split at hs; · simp at hs
    split at hs; · simp at hs
    rename_i hal _ _ _ _
    simp at hs; subst hs
    exact ⟨h.datEq, h.sub, h.subMid, h.last, h.tmpFull, h.renLast, fun hd => by simp at hd; simp [hd] at hal⟩
  | persist ps =>
    simp only [step] at hs
    split at hs; · simp at hs
    rename_i hal
    exact invA_pstep h (by simpa using hal) hs

/-- an invariant that holds initially and is preserved by every step holds in every reachable state -/
theorem reach_induct {cd : Codec β} {fix : Bool} (P : Sys β → Prop) (h0 : P Sys.init)
    (hstep : ∀ s s' st, P s → step cd fix s st = some s' → P s') :
    ∀ s, Reach cd fix s → P s := by
  intro s ⟨steps, hr⟩
  suffices h : ∀ (steps : List Step) (s0 : Sys β), P s0 → run cd fix s0 steps = some s → P s from
    h steps _ h0 hr
  intro steps
  induction steps with
  | nil => intro s0 h0 hr; simp [run] at hr; subst hr; exact h0
  | cons st rest ih =>
    intro s0 h0 hr
    simp only [run] at hr
    split at hr
    · simp at hr
    · rename_i s1 h1
      exact ih s1 (hstep _ _ _ h0 h1) hr

theorem reach_invA {cd : Codec β} {fix : Bool} {s : Sys β} (h : Reach cd fix s) : InvA cd s :=
  reach_induct (InvA cd) (invA_init cd) (fun _ _ _ hi hs => invA_step hi hs) s h

end Nsq.Proofs.Meta
