import Nsq.Model.Identify
/-! Lemmas about the field-by-field IDENTIFY model (`Nsq.Model.Identify`). -/
namespace Nsq.Proofs.Identify
open Nsq.Model.Identify Nsq.Model.ProtoV2 Nsq.Model.Names Nsq.Model

/-- `SetOutputBuffer` = the timeout switch, then the size switch (the two setters of `ProtoV2`),
with the partial effect spelled out. -/
theorem setOutputBufferP_eq (conf : Conf) (sz t dS dT : Int) :
    setOutputBufferP conf sz t dS dT =
      match setObTimeout conf t dT with
      | none => (sz, t, false)
      | some t' =>
        match setObSize conf sz dS with
        | none => (sz, t', false)
        | some sz' => (sz', if dS = -1 then 0 else t', true) := by
  unfold setOutputBufferP setObTimeout setObSize
  by_cases h1 : dT = -1
  · by_cases h2 : dS = -1
    · simp [h1, h2]
    · by_cases h3 : dS = 0
      · simp [h1, h3]
      · by_cases h4 : dS ≥ 64 ∧ dS ≤ conf.maxObSize
        · simp [h1, h2, h3, h4]
        · simp [h1, h2, h3, h4]
  · by_cases h0 : dT = 0
    · by_cases h2 : dS = -1
      · simp [h0, h2]
      · by_cases h3 : dS = 0
        · simp [h0, h3]
        · by_cases h4 : dS ≥ 64 ∧ dS ≤ conf.maxObSize
          · simp [h0, h2, h3, h4]
          · simp [h0, h2, h3, h4]
    · by_cases hr : dT ≥ conf.minObtMs ∧ dT ≤ conf.maxObtMs
      · by_cases h2 : dS = -1
        · simp [h1, h0, hr, h2]
        · by_cases h3 : dS = 0
          · simp [h1, h0, hr, h3]
          · by_cases h4 : dS ≥ 64 ∧ dS ≤ conf.maxObSize
            · simp [h1, h0, hr, h2, h3, h4]
            · simp [h1, h0, hr, h2, h3, h4]
      · simp [h1, h0, hr]

/-- The sequence succeeds exactly when `ProtoV2.applyIdentify` does, with the same connection state;
the metadata is the client's in every case. -/
theorem identifySeq_agrees (conf : Conf) (c : Client) (x : IdFull) :
    (identifySeq conf c x).1.info = x.info ∧
    match applyIdentify conf c.conn x.d with
    | some s' => identifySeq conf c x = (⟨x.info, s'⟩, true)
    | none => (identifySeq conf c x).2 = false := by
  unfold identifySeq applyIdentify
  cases hhb : setHeartbeat conf c.conn.hbNs x.d.heartbeat with
  | none => simp
  | some hb =>
    simp only []
    rw [setOutputBufferP_eq]
    cases ht : setObTimeout conf c.conn.obtNs x.d.outBufTimeout with
    | none => simp
    | some t =>
      simp only []
      cases hs : setObSize conf c.conn.obSize x.d.outBufSize with
      | none => simp
      | some sz =>
        simp only []
        by_cases hsr : x.d.sampleRate < 0 ∨ x.d.sampleRate > 99
        · simp [hsr]
        · simp only [hsr, if_false]
          cases hm : setMsgTimeout conf c.conn.msgTimeoutNs x.d.msgTimeout with
          | none => simp
          | some mt => simp [withOb]

def replyOf : Outcome → Reply
  | .badBody _ => .err .E_BAD_BODY
  | .ok _ => .ok
  | .failed _ => .err .E_IDENTIFY_FAILED
  | .doc _ _ _ => .json

def upgrades : Outcome → Bool
  | .doc _ _ n => n.tlsv1 || n.snappy || n.deflate
  | _ => false

def clientOf : Outcome → Client
  | .badBody c => c | .ok c => c | .failed c => c | .doc c _ _ => c

/-- The coarse C09 model of IDENTIFY (`ProtoV2.identify`: reply class, connection state, whether an
upgrade follows) is the projection of the field-by-field model. -/
theorem identify_agrees (conf : Conf) (nc : NConf) (s : ConnState) (b : Broker) (rest body r : Bytes)
    (x : IdFull) (info : Meta) (hst : s.st = .init) (hb : readBody conf.maxBodySize rest = .ok body r)
    (hd : conf.decode body = some x.d) :
    (identify conf s b rest).reply = some (replyOf (identifyFull conf nc ⟨info, s⟩ x)) ∧
    ((identify conf s b rest).ctl = .upgraded ↔ upgrades (identifyFull conf nc ⟨info, s⟩ x) = true) ∧
    (replyOf (identifyFull conf nc ⟨info, s⟩ x) ≠ .err .E_BAD_BODY →
      (identify conf s b rest).st = (clientOf (identifyFull conf nc ⟨info, s⟩ x)).conn) := by
  have hag := identifySeq_agrees conf ⟨info, s⟩ x
  unfold identify identifyFull
  simp only [hst, ne_eq, not_true_eq_false, if_false, hb, hd]
  cases ha : applyIdentify conf s x.d with
  | none =>
    simp only [ha] at hag
    simp [hag.2, fatal, replyOf, upgrades]
  | some s' =>
    simp only [ha] at hag
    simp only [hag.2, Bool.true_eq_false, if_false]
    by_cases hfn : x.d.featureNegotiation = true
    · simp only [hfn, Bool.not_true, Bool.false_eq_true, if_false]
      by_cases hboth : ((negotiate conf nc x).deflate && (negotiate conf nc x).snappy) = true
      · have hb2 : ((conf.deflateEnabled && x.d.deflate) && (conf.snappyEnabled && x.d.snappy)) = true := by
          simpa [negotiate] using hboth
        simp [hboth, hb2, fatal, replyOf, upgrades, clientOf]
      · have hb2 : ((conf.deflateEnabled && x.d.deflate) && (conf.snappyEnabled && x.d.snappy)) = false := by
          simpa [negotiate] using hboth
        simp only [hboth, hb2, Bool.false_eq_true, if_false]
        by_cases hup : ((conf.tlsConfigured && x.d.tlsv1) || (conf.snappyEnabled && x.d.snappy)
            || (conf.deflateEnabled && x.d.deflate)) = true
        · simp only [hup, if_true]
          refine ⟨rfl, ?_, fun _ => rfl⟩
          simp only [upgrades, negotiate, true_iff]
          exact hup
        · simp only [hup, Bool.false_eq_true, if_false, done]
          refine ⟨rfl, ?_, fun _ => rfl⟩
          simp only [upgrades, negotiate]
          constructor
          · intro h; cases h
          · intro h; exact absurd h hup
    · have hfn' : x.d.featureNegotiation = false := by simpa using hfn
      simp [hfn', done, replyOf, upgrades, clientOf]

/-! ## Ranges -/

def HbOK (conf : Conf) (d : Int) : Prop := d = -1 ∨ d = 0 ∨ (1000 ≤ d ∧ d ≤ conf.maxHeartbeatMs)
def ObtOK (conf : Conf) (d : Int) : Prop := d = -1 ∨ d = 0 ∨ (conf.minObtMs ≤ d ∧ d ≤ conf.maxObtMs)
def ObsOK (conf : Conf) (d : Int) : Prop := d = -1 ∨ d = 0 ∨ (64 ≤ d ∧ d ≤ conf.maxObSize)
def SrOK (d : Int) : Prop := 0 ≤ d ∧ d ≤ 99
def MtOK (conf : Conf) (d : Int) : Prop := d = 0 ∨ (1000 ≤ d ∧ d ≤ conf.maxMsgTimeoutMs)

/-- Every negotiable value of the IDENTIFY body is within its documented range. -/
def InRange (conf : Conf) (d : IdentifyData) : Prop :=
  HbOK conf d.heartbeat ∧ ObtOK conf d.outBufTimeout ∧ ObsOK conf d.outBufSize ∧ SrOK d.sampleRate ∧
  MtOK conf d.msgTimeout

theorem setHeartbeat_isSome (conf : Conf) (cur d : Int) : (setHeartbeat conf cur d).isSome = true ↔ HbOK conf d := by
  unfold setHeartbeat HbOK
  by_cases h1 : d = -1
  · simp [h1]
  · by_cases h2 : d = 0
    · simp [h2]
    · by_cases h3 : d ≥ 1000 ∧ d ≤ conf.maxHeartbeatMs
      · simp [h1, h2, h3]
      · simp [h1, h2, h3]

theorem setObTimeout_isSome (conf : Conf) (cur d : Int) : (setObTimeout conf cur d).isSome = true ↔ ObtOK conf d := by
  unfold setObTimeout ObtOK
  by_cases h1 : d = -1
  · simp [h1]
  · by_cases h2 : d = 0
    · simp [h2]
    · by_cases h3 : d ≥ conf.minObtMs ∧ d ≤ conf.maxObtMs
      · simp [h1, h2, h3]
      · simp [h1, h2, h3]

theorem setObSize_isSome (conf : Conf) (cur d : Int) : (setObSize conf cur d).isSome = true ↔ ObsOK conf d := by
  unfold setObSize ObsOK
  by_cases h1 : d = -1
  · simp [h1]
  · by_cases h2 : d = 0
    · simp [h2]
    · by_cases h3 : d ≥ 64 ∧ d ≤ conf.maxObSize
      · simp [h1, h2, h3]
      · simp [h1, h2, h3]

theorem setMsgTimeout_isSome (conf : Conf) (cur d : Int) : (setMsgTimeout conf cur d).isSome = true ↔ MtOK conf d := by
  unfold setMsgTimeout MtOK
  by_cases h2 : d = 0
  · simp [h2]
  · by_cases h3 : d ≥ 1000 ∧ d ≤ conf.maxMsgTimeoutMs
    · simp [h2, h3]
    · simp [h2, h3]

theorem applyIdentify_isSome (conf : Conf) (s : ConnState) (d : IdentifyData) :
    (applyIdentify conf s d).isSome = true ↔ InRange conf d := by
  unfold applyIdentify InRange
  rw [← setHeartbeat_isSome conf s.hbNs, ← setObTimeout_isSome conf s.obtNs, ← setObSize_isSome conf s.obSize,
    ← setMsgTimeout_isSome conf s.msgTimeoutNs]
  cases setHeartbeat conf s.hbNs d.heartbeat with
  | none => simp
  | some hb =>
    cases setObTimeout conf s.obtNs d.outBufTimeout with
    | none => simp
    | some t =>
      cases setObSize conf s.obSize d.outBufSize with
      | none => simp
      | some sz =>
        by_cases hsr : d.sampleRate < 0 ∨ d.sampleRate > 99
        · simp only [hsr, if_true, Option.isSome_none, Bool.false_eq_true, Option.isSome_some, true_and, false_iff]
          unfold SrOK; omega
        · simp only [hsr, if_false]
          have : SrOK d.sampleRate := by unfold SrOK; omega
          cases setMsgTimeout conf s.msgTimeoutNs d.msgTimeout with
          | none => simp
          | some mt => simp [this]

/-- IDENTIFY is rejected with `E_BAD_BODY` exactly when some value is out of range. -/
theorem seq_ok_iff (conf : Conf) (c : Client) (x : IdFull) :
    (identifySeq conf c x).2 = true ↔ InRange conf x.d := by
  rw [← applyIdentify_isSome conf c.conn]
  have h := (identifySeq_agrees conf c x).2
  cases ha : applyIdentify conf c.conn x.d with
  | none => simp only [ha] at h; simp [h]
  | some s' => simp only [ha] at h; simp [h]

/-! ## What the document says -/

theorem clampLevel_bounds (max want : Int) (deflate : Bool) (h1 : 1 ≤ max) :
    1 ≤ clampLevel max deflate want ∧ clampLevel max deflate want ≤ max := by
  unfold clampLevel
  by_cases hd : (deflate && decide (want > 0)) = true
  · have hw : want > 0 := by
      have := (Bool.and_eq_true _ _ ▸ hd).2
      simpa using this
    simp only [hd, if_true]
    split <;> omega
  · simp only [hd, Bool.false_eq_true, if_false]
    split <;> omega

theorem clampLevel_granted (max want : Int) (h1 : 1 ≤ want) (h2 : want ≤ max) :
    clampLevel max true want = want := by
  unfold clampLevel
  have : (true && decide (want > 0)) = true := by simp; omega
  simp only [this, if_true]
  split <;> omega

theorem clampLevel_default (max want : Int) (deflate : Bool) (h : deflate = false ∨ want ≤ 0) :
    clampLevel max deflate want = if max < 6 then max else 6 := by
  unfold clampLevel
  have : (deflate && decide (want > 0)) = false := by
    rcases h with h | h
    · simp [h]
    · simp; intro _; omega
  simp [this]

theorem msgTimeout_echo (conf : Conf) (cur d mt : Int) (h : setMsgTimeout conf cur d = some mt) :
    (d = 0 ∧ mt = cur) ∨ (d ≠ 0 ∧ Int.tdiv mt 1000000 = d) := by
  unfold setMsgTimeout at h
  by_cases h0 : d = 0
  · simp [h0] at h; exact Or.inl ⟨h0, h.symm⟩
  · simp only [h0, if_false] at h
    split at h
    · simp at h; subst h; exact Or.inr ⟨h0, by rw [Int.mul_tdiv_cancel _ (by decide)]⟩
    · cases h

theorem applyIdentify_msgTimeout (conf : Conf) (s s' : ConnState) (d : IdentifyData)
    (h : applyIdentify conf s d = some s') :
    setMsgTimeout conf s.msgTimeoutNs d.msgTimeout = some s'.msgTimeoutNs := by
  unfold applyIdentify at h
  cases h1 : setHeartbeat conf s.hbNs d.heartbeat with
  | none => simp [h1] at h
  | some hb =>
    cases h2 : setObTimeout conf s.obtNs d.outBufTimeout with
    | none => simp [h1, h2] at h
    | some t =>
      cases h3 : setObSize conf s.obSize d.outBufSize with
      | none => simp [h1, h2, h3] at h
      | some sz =>
        by_cases hsr : d.sampleRate < 0 ∨ d.sampleRate > 99
        · simp [h1, h2, h3, hsr] at h
        · cases h4 : setMsgTimeout conf s.msgTimeoutNs d.msgTimeout with
          | none => simp [h1, h2, h3, hsr, h4] at h
          | some mt =>
            simp only [h1, h2, h3, hsr, h4, if_false, Option.some.injEq] at h
            rw [← h]

end Nsq.Proofs.Identify
