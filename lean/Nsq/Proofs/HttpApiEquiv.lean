import Nsq.Proofs.HttpApi
import Nsq.Proofs.Mpub
import Nsq.Proofs.Base10
/-! HTTP publish endpoints against the TCP publish commands of `Nsq.Model.ProtoV2`. -/
namespace Nsq.Proofs.HttpApiEquiv
open Nsq.Model.HttpApi Nsq.Model.ProtoV2 Nsq.Model.Names Nsq.Model.Base10 Nsq.Model
open Nsq.Proofs.ProtoV2 Nsq.Proofs.HttpApi Nsq.Spec.ProtoSpec

/-- The HTTP server and the TCP server of one nsqd read the same options; no auth; TLS not
required; max-req-timeout within [0, 2^63-1) ns, max-msg-size non-negative. -/
structure Linked (conf : Conf) (hc : HConf) : Prop where
  msg : hc.maxMsgSize = conf.maxMsgSize
  body : hc.maxBodySize = conf.maxBodySize
  req : hc.maxReqTimeoutMs = conf.maxReqTimeoutNs / 1000000
  auth : conf.authGate = none
  msgNonneg : 0 ≤ conf.maxMsgSize
  reqNonneg : 0 ≤ conf.maxReqTimeoutNs
  reqBelowSat : conf.maxReqTimeoutNs < maxI64

/-- What a TCP client puts after the command line: 4-byte size, body (then whatever follows). -/
def wire (body rest : Bytes) : Bytes := Mpub.be32 body.length ++ (body ++ rest)

theorem readBody_wire (limit : Int) (body rest : Bytes) (hlen : body.length < 2147483648) :
    readBody limit (wire body rest) =
      if (body.length : Int) ≤ 0 then .bad else if (body.length : Int) > limit then .bad else .ok body rest := by
  unfold readBody wire
  rw [Nsq.Proofs.Mpub.readLen_be32 _ _ hlen]
  simp only
  split
  · rfl
  · split
    · rfl
    · have h3 : ¬ ((body.length : Int) < 0) := by omega
      simp only [h3, if_false, Int.toNat_natCast]
      simp

attribute [irreducible] wire

/-- The request carries its complete body: the declared length is the real one, or there is none. -/
def Complete (rq : Request) : Prop := rq.contentLength = rq.body.length ∨ rq.contentLength = -1

theorem pubData_small (hc : HConf) (rq : Request) (h0 : 0 ≤ hc.maxMsgSize) (h : (rq.body.length : Int) ≤ hc.maxMsgSize) :
    pubData hc rq = rq.body := by
  unfold pubData
  apply List.take_of_length_le
  omega

theorem pubData_big (hc : HConf) (rq : Request) (h0 : 0 ≤ hc.maxMsgSize) (h : (rq.body.length : Int) > hc.maxMsgSize) :
    ((pubData hc rq).length : Int) = hc.maxMsgSize + 1 := by
  unfold pubData
  rw [List.length_take]
  omega

/-- Size part of `/pub`: the three size answers collapse to "1 ≤ |body| ≤ max-msg-size". -/
theorem doPUB_sizes (hc : HConf) (b : Broker) (rq : Request) (h0 : 0 ≤ hc.maxMsgSize) (hc' : Complete rq) :
    (¬ (1 ≤ rq.body.length ∧ (rq.body.length : Int) ≤ hc.maxMsgSize) →
      (doPUB hc b rq).1.status ≠ .s200 ∧ (doPUB hc b rq).2 = b) ∧
    ((1 ≤ rq.body.length ∧ (rq.body.length : Int) ≤ hc.maxMsgSize) →
      doPUB hc b rq =
        match topicFromQuery rq.rawQuery with
        | .error e => resp .s400 e b
        | .ok t =>
          match deferArg hc ((parseQuery rq.rawQuery).getD []) with
          | none => resp .s400 "INVALID_DEFER" (getTopic b t)
          | some d => resp .s200 "OK" (publish b t [⟨rq.body, d⟩])) := by
  constructor
  · intro h
    unfold doPUB
    by_cases hbig : (rq.body.length : Int) > hc.maxMsgSize
    · have := pubData_big hc rq h0 hbig
      unfold pubData at this
      split
      · simp [resp]
      · simp [this, resp]
    · have hsm := pubData_small hc rq h0 (by omega)
      unfold pubData at hsm
      have hempty : rq.body = [] := by
        cases hb : rq.body with
        | nil => rfl
        | cons x xs => rw [hb] at h hbig; simp at h hbig; omega
      split
      · simp [resp]
      · rw [hsm, hempty]
        simp only [List.length_nil, List.isEmpty_nil, if_true]
        split
        · simp [resp]
        · simp [resp]
  · rintro ⟨h1, h2⟩
    have hsm := pubData_small hc rq h0 h2
    unfold pubData at hsm
    unfold doPUB
    have hcl : ¬ rq.contentLength > hc.maxMsgSize := by
      rcases hc' with h | h <;> omega
    have hne : ¬ ((rq.body.length : Int) = hc.maxMsgSize + 1) := by omega
    have hnil : rq.body.isEmpty = false := by
      cases hb : rq.body with
      | nil => rw [hb] at h1; simp at h1
      | cons x xs => rfl
    simp only [hcl, if_false, hsm, hne, hnil, Bool.false_eq_true]
    rfl

theorem digitsVal_digits : ∀ (d : Bytes) (n : Nat), (∀ c ∈ d, IsDigit c) → digitsVal d n = some (decVal d n)
  | [], n, _ => by simp [digitsVal, decVal]
  | c :: cs, n, h => by
    unfold digitsVal decVal
    have hc := h c (List.mem_cons_self)
    unfold IsDigit at hc
    simp only [hc, and_self, if_true]
    exact digitsVal_digits cs _ (fun x hx => h x (List.mem_cons_of_mem _ hx))

/-- `ParseInt` on a canonical decimal (digits only, at least one). -/
theorem parseInt64_digits (d : Bytes) (hd : d ≠ []) (hall : ∀ c ∈ d, IsDigit c) :
    parseInt64 d = if (decVal d 0 : Int) ≤ maxI64 then some (decVal d 0 : Int) else none := by
  cases d with
  | nil => exact absurd rfl hd
  | cons c cs =>
    have hc := hall c (List.mem_cons_self)
    unfold IsDigit at hc
    have h43 : c ≠ 43 := by
      intro h; subst h; simp at hc
    have h45 : c ≠ 45 := by
      intro h; subst h; simp at hc
    unfold parseInt64
    simp only [h43, h45, if_false]
    rw [digitsVal_digits _ _ hall]

/-- For every canonical decimal `d`: `/pub?defer=d` accepts the delay exactly when `DPUB … d`
does, and with the same value in nanoseconds. -/
theorem defer_equiv (conf : Conf) (hc : HConf) (hl : Linked conf hc) (d : Bytes) (hd : d ≠ [])
    (hall : ∀ c ∈ d, IsDigit c) :
    (match parseInt64 d with
     | none => none
     | some di => if di < 0 ∨ di > hc.maxReqTimeoutMs then none else some (di * 1000000)) =
    (match byteToBase10 d with
     | none => none
     | some ms =>
       if msToDuration ms < 0 ∨ msToDuration ms > conf.maxReqTimeoutNs then none else some (msToDuration ms)) := by
  rw [parseInt64_digits d hd hall]
  have hreq := hl.req
  have h0 := hl.reqNonneg
  have hs := hl.reqBelowSat
  unfold maxI64 at *
  cases hb : byteToBase10 d with
  | none =>
    have : ¬ (decVal d 0 ≤ maxU64) := by
      intro hle
      have := (Nsq.Proofs.Base10.byteToBase10_iff d (decVal d 0)).mpr ⟨hall, rfl, hle⟩
      rw [hb] at this; cases this
    unfold maxU64 at this
    have h2 : ¬ ((decVal d 0 : Int) ≤ 9223372036854775807) := by omega
    simp [h2]
  | some ms =>
    obtain ⟨_, hval, hle⟩ := (Nsq.Proofs.Base10.byteToBase10_iff d ms).mp hb
    subst hval
    unfold maxU64 at hle
    unfold msToDuration maxI64
    simp only
    by_cases hbig : decVal d 0 > 9223372036854
    · simp only [hbig, if_true]
      have hr : ¬ ((9223372036854775807 : Int) < 0 ∨ (9223372036854775807 : Int) > conf.maxReqTimeoutNs) → False := by
        intro h; omega
      by_cases hfit : (decVal d 0 : Int) ≤ 9223372036854775807
      · simp only [hfit, if_true]
        have h1 : ((decVal d 0 : Int) < 0 ∨ (decVal d 0 : Int) > hc.maxReqTimeoutMs) := by right; omega
        have h2 : ((9223372036854775807 : Int) < 0 ∨ (9223372036854775807 : Int) > conf.maxReqTimeoutNs) := by
          right; omega
        simp [h1, h2] <;> omega
      · have h2 : ((9223372036854775807 : Int) < 0 ∨ (9223372036854775807 : Int) > conf.maxReqTimeoutNs) := by
          right; omega
        simp [hfit, h2] <;> omega
    · simp only [hbig, if_false]
      have hfit : (decVal d 0 : Int) ≤ 9223372036854775807 := by omega
      simp only [hfit, if_true]
      by_cases hrange : (decVal d 0 : Int) > hc.maxReqTimeoutMs
      · have h1 : ((decVal d 0 : Int) < 0 ∨ (decVal d 0 : Int) > hc.maxReqTimeoutMs) := Or.inr hrange
        have h2 : ((decVal d 0 : Int) * 1000000 < 0 ∨ (decVal d 0 : Int) * 1000000 > conf.maxReqTimeoutNs) := by
          right; omega
        simp [h1, h2] <;> omega
      · have h1 : ¬ ((decVal d 0 : Int) < 0 ∨ (decVal d 0 : Int) > hc.maxReqTimeoutMs) := by omega
        have h2 : ¬ ((decVal d 0 : Int) * 1000000 < 0 ∨ (decVal d 0 : Int) * 1000000 > conf.maxReqTimeoutNs) := by
          omega
        simp [h1, h2] <;> omega


theorem topicFromQuery_of (q : Bytes) (kv : List (Bytes × Bytes)) (t : Bytes)
    (hq : parseQuery q = some kv) (ht : qget kv kTopic = some t) :
    topicFromQuery q = if isValidName t then .ok t else .error "INVALID_TOPIC" := by
  unfold topicFromQuery
  simp only [hq, ht]

/-- Body-size acceptance shared by both sides. -/
def SizeOk (maxMsg : Int) (body : Bytes) : Prop := 1 ≤ body.length ∧ (body.length : Int) ≤ maxMsg

instance (maxMsg : Int) (body : Bytes) : Decidable (SizeOk maxMsg body) :=
  inferInstanceAs (Decidable (1 ≤ body.length ∧ (body.length : Int) ≤ maxMsg))

/-- `pubBody` on a well-formed wire image. -/
theorem pubBody_wire (conf : Conf) (s : ConnState) (b : Broker) (t : Bytes) (dn : Int) (body rest : Bytes)
    (hauth : conf.authGate = none) (hlen : body.length < 2147483648) :
    pubBody conf s b t dn (wire body rest) =
      if SizeOk conf.maxMsgSize body then
        done (some .ok) s (publish b t [⟨body, dn⟩]) rest [.enq t [⟨body, dn⟩]]
      else fatal .E_BAD_MESSAGE s b := by
  have hrb := readBody_wire conf.maxMsgSize body rest hlen
  generalize wire body rest = w at hrb ⊢
  rw [pubBody, hrb, hauth]
  by_cases h1 : (body.length : Int) ≤ 0
  · have : ¬ SizeOk conf.maxMsgSize body := by unfold SizeOk; omega
    rw [if_pos h1, if_neg this]
  · rw [if_neg h1]
    by_cases h2 : (body.length : Int) > conf.maxMsgSize
    · have : ¬ SizeOk conf.maxMsgSize body := by unfold SizeOk; omega
      rw [if_pos h2, if_neg this]
    · have : SizeOk conf.maxMsgSize body := by unfold SizeOk; omega
      rw [if_neg h2, if_pos this]

/-- `/pub` when the query has a topic argument: the whole decision in one formula. -/
theorem doPUB_char (hc : HConf) (b : Broker) (rq : Request) (kv : List (Bytes × Bytes)) (t : Bytes)
    (h0 : 0 ≤ hc.maxMsgSize) (hcomp : Complete rq)
    (hq : parseQuery rq.rawQuery = some kv) (ht : qget kv kTopic = some t) :
    (SizeOk hc.maxMsgSize rq.body ∧ isValidName t = true →
      doPUB hc b rq = match deferArg hc kv with
        | none => resp .s400 "INVALID_DEFER" (getTopic b t)
        | some d => resp .s200 "OK" (publish b t [⟨rq.body, d⟩])) ∧
    (¬ (SizeOk hc.maxMsgSize rq.body ∧ isValidName t = true) →
      (doPUB hc b rq).1.status ≠ .s200 ∧ (doPUB hc b rq).2 = b) := by
  obtain ⟨hbad, hgood⟩ := doPUB_sizes hc b rq h0 hcomp
  unfold SizeOk
  constructor
  · rintro ⟨hsz, hv⟩
    rw [hgood hsz, topicFromQuery_of _ _ _ hq ht, if_pos hv, hq]
    rfl
  · intro h
    by_cases hsz : 1 ≤ rq.body.length ∧ (rq.body.length : Int) ≤ hc.maxMsgSize
    · have hv : ¬ isValidName t = true := fun hv => h ⟨hsz, hv⟩
      rw [hgood hsz, topicFromQuery_of _ _ _ hq ht, if_neg hv]
      exact ⟨by simp [resp], rfl⟩
    · exact hbad hsz

/-- `/pub?topic=t` (no defer) against `PUB t` with the same body. -/
theorem pub_equiv (conf : Conf) (hc : HConf) (hl : Linked conf hc) (s : ConnState) (b : Broker) (rq : Request)
    (kv : List (Bytes × Bytes)) (cmd t : Bytes) (tl : List Bytes) (rest : Bytes)
    (hq : parseQuery rq.rawQuery = some kv) (ht : qget kv kTopic = some t) (hnd : qget kv kDefer = none)
    (hcomp : Complete rq) (hlen : rq.body.length < 2147483648) :
    ((doPUB hc b rq).1.status = .s200 ↔ (pub conf s b (cmd :: t :: tl) (wire rq.body rest)).reply = some .ok) ∧
    ((doPUB hc b rq).1.status = .s200 →
      (doPUB hc b rq).2 = (pub conf s b (cmd :: t :: tl) (wire rq.body rest)).broker) ∧
    ((doPUB hc b rq).1.status ≠ .s200 →
      Untouched b (doPUB hc b rq).2 ∧ Untouched b (pub conf s b (cmd :: t :: tl) (wire rq.body rest)).broker) := by
  have h0 : 0 ≤ hc.maxMsgSize := by rw [hl.msg]; exact hl.msgNonneg
  obtain ⟨hgood, hbad⟩ := doPUB_char hc b rq kv t h0 hcomp hq ht
  have hd : deferArg hc kv = some 0 := by unfold deferArg; rw [hnd]
  have htcp : pub conf s b (cmd :: t :: tl) (wire rq.body rest) =
      if !isValidName t then fatal .E_BAD_TOPIC s b
      else pubBody conf s b t 0 (wire rq.body rest) := rfl
  rw [htcp, pubBody_wire conf s b t 0 rq.body rest hl.auth hlen, ← hl.msg]
  by_cases hv : isValidName t = true
  · have hnv : ¬ ((!isValidName t) = true) := by rw [hv]; simp
    rw [if_neg hnv]
    by_cases hsz : SizeOk hc.maxMsgSize rq.body
    · rw [if_pos hsz, hgood ⟨hsz, hv⟩, hd]
      simp [resp, done]
    · rw [if_neg hsz]
      obtain ⟨h1, h2⟩ := hbad (fun h => hsz h.1)
      refine ⟨⟨fun h => absurd h h1, fun h => by simp [fatal] at h⟩, fun h => absurd h h1,
        fun _ => ⟨by rw [h2]; exact Or.inl rfl, Or.inl rfl⟩⟩
  · have hnv : ((!isValidName t) = true) := by simpa using hv
    rw [if_pos hnv]
    obtain ⟨h1, h2⟩ := hbad (fun h => hv h.2)
    refine ⟨⟨fun h => absurd h h1, fun h => by simp [fatal] at h⟩, fun h => absurd h h1,
      fun _ => ⟨by rw [h2]; exact Or.inl rfl, Or.inl rfl⟩⟩

/-- `/pub?topic=t&defer=d` against `DPUB t d` for a canonical decimal `d`. -/
theorem dpub_equiv (conf : Conf) (hc : HConf) (hl : Linked conf hc) (s : ConnState) (b : Broker) (rq : Request)
    (kv : List (Bytes × Bytes)) (cmd t d : Bytes) (tl : List Bytes) (rest : Bytes)
    (hq : parseQuery rq.rawQuery = some kv) (ht : qget kv kTopic = some t) (hdq : qget kv kDefer = some d)
    (hd : d ≠ []) (hall : ∀ c ∈ d, IsDigit c)
    (hcomp : Complete rq) (hlen : rq.body.length < 2147483648) :
    ((doPUB hc b rq).1.status = .s200 ↔ (dpub conf s b (cmd :: t :: d :: tl) (wire rq.body rest)).reply = some .ok) ∧
    ((doPUB hc b rq).1.status = .s200 →
      (doPUB hc b rq).2 = (dpub conf s b (cmd :: t :: d :: tl) (wire rq.body rest)).broker) ∧
    ((doPUB hc b rq).1.status ≠ .s200 →
      Untouched b (doPUB hc b rq).2 ∧ Untouched b (dpub conf s b (cmd :: t :: d :: tl) (wire rq.body rest)).broker) := by
  have h0 : 0 ≤ hc.maxMsgSize := by rw [hl.msg]; exact hl.msgNonneg
  obtain ⟨hgood, hbad⟩ := doPUB_char hc b rq kv t h0 hcomp hq ht
  have hde := defer_equiv conf hc hl d hd hall
  have hdarg : deferArg hc kv =
      (match parseInt64 d with
       | none => none
       | some di => if di < 0 ∨ di > hc.maxReqTimeoutMs then none else some (di * 1000000)) := by
    unfold deferArg; rw [hdq]; rfl
  rw [hde] at hdarg
  have htcp : dpub conf s b (cmd :: t :: d :: tl) (wire rq.body rest) =
      if !isValidName t then fatal .E_BAD_TOPIC s b
      else match byteToBase10 d with
        | none => fatal .E_INVALID s b
        | some ms =>
          if msToDuration ms < 0 ∨ msToDuration ms > conf.maxReqTimeoutNs then fatal .E_INVALID s b
          else pubBody conf s b t (msToDuration ms) (wire rq.body rest) := rfl
  rw [htcp]
  by_cases hv : isValidName t = true
  · have hnv : ¬ ((!isValidName t) = true) := by rw [hv]; simp
    rw [if_neg hnv]
    by_cases hsz : SizeOk hc.maxMsgSize rq.body
    · rw [hgood ⟨hsz, hv⟩, hdarg]
      have hsz' : SizeOk conf.maxMsgSize rq.body := by rw [← hl.msg]; exact hsz
      cases hb10 : byteToBase10 d with
      | none =>
        refine ⟨⟨fun h => by simp [resp] at h, fun h => by simp [fatal] at h⟩, fun h => by simp [resp] at h,
          fun _ => ⟨untouched_getTopic _ _ hv, Or.inl rfl⟩⟩
      | some ms =>
        simp only
        by_cases hr : msToDuration ms < 0 ∨ msToDuration ms > conf.maxReqTimeoutNs
        · rw [if_pos hr, if_pos hr]
          refine ⟨⟨fun h => by simp [resp] at h, fun h => by simp [fatal] at h⟩, fun h => by simp [resp] at h,
            fun _ => ⟨untouched_getTopic _ _ hv, Or.inl rfl⟩⟩
        · rw [if_neg hr, if_neg hr, pubBody_wire conf s b t _ rq.body rest hl.auth hlen, if_pos hsz']
          simp [resp, done]
    · obtain ⟨h1, h2⟩ := hbad (fun h => hsz h.1)
      have hsz' : ¬ SizeOk conf.maxMsgSize rq.body := by rw [← hl.msg]; exact hsz
      have key : (fun X : Step => X.reply ≠ some .ok ∧ Untouched b X.broker)
          (match byteToBase10 d with
          | none => fatal .E_INVALID s b
          | some ms =>
            if msToDuration ms < 0 ∨ msToDuration ms > conf.maxReqTimeoutNs then fatal .E_INVALID s b
            else pubBody conf s b t (msToDuration ms) (wire rq.body rest)) := by
        cases byteToBase10 d with
        | none => exact ⟨by simp [fatal], Or.inl rfl⟩
        | some ms =>
          simp only
          by_cases hr : msToDuration ms < 0 ∨ msToDuration ms > conf.maxReqTimeoutNs
          · rw [if_pos hr]; exact ⟨by simp [fatal], Or.inl rfl⟩
          · rw [if_neg hr, pubBody_wire conf s b t _ rq.body rest hl.auth hlen, if_neg hsz']
            exact ⟨by simp [fatal], Or.inl rfl⟩
      obtain ⟨r1, r2⟩ := key
      exact ⟨⟨fun h => absurd h h1, fun h => absurd h r1⟩, fun h => absurd h h1,
        fun _ => ⟨by rw [h2]; exact Or.inl rfl, r2⟩⟩
  · have hnv : ((!isValidName t) = true) := by simpa using hv
    rw [if_pos hnv]
    obtain ⟨h1, h2⟩ := hbad (fun h => hv h.2)
    exact ⟨⟨fun h => absurd h h1, fun h => by simp [fatal] at h⟩, fun h => absurd h h1,
      fun _ => ⟨by rw [h2]; exact Or.inl rfl, Or.inl rfl⟩⟩


/-! ## Binary `/mpub` against `MPUB` -/

/-- What a TCP client sends after `MPUB t\n`: the size of the batch, then the batch. -/
def mwire (batch : Bytes) : Bytes := Mpub.be32 batch.length ++ batch

theorem readLen_mwire (batch : Bytes) (hlen : batch.length < 2147483648) :
    readLen (mwire batch) = some ((batch.length : Int), batch) :=
  Nsq.Proofs.Mpub.readLen_be32 _ _ hlen

/-- `MPUB t` followed by exactly one size-prefixed batch. -/
theorem mpub_mwire (conf : Conf) (s : ConnState) (b : Broker) (cmd t : Bytes) (tl : List Bytes) (batch : Bytes)
    (hauth : conf.authGate = none) (hv : isValidName t = true) (hlen : batch.length < 2147483648) :
    mpub conf s b (cmd :: t :: tl) (mwire batch) =
      if (batch.length : Int) ≤ 0 then fatal .E_BAD_BODY s (getTopic b t)
      else if (batch.length : Int) > conf.maxBodySize then fatal .E_BAD_BODY s (getTopic b t)
      else match Mpub.readMPUB conf.maxMsgSize conf.maxBodySize batch with
        | .err c => fatal c s (getTopic b t)
        | .panic => panicStep s (getTopic b t)
        | .ok bodies r2 => done (some .ok) s (publish b t (toMsgs bodies)) r2 [.enq t (toMsgs bodies)] := by
  have hrl := readLen_mwire batch hlen
  generalize mwire batch = w at hrl ⊢
  rw [mpub]
  simp only [hv, Bool.not_true, Bool.false_eq_true, if_false, hauth, hrl, Int.toNat_natCast, List.take_length,
    List.drop_length, List.append_nil]
  rfl

attribute [irreducible] mwire

theorem doMPUB_binary (hc : HConf) (b : Broker) (rq : Request) (kv : List (Bytes × Bytes)) (t : Bytes)
    (hq : parseQuery rq.rawQuery = some kv) (ht : qget kv kTopic = some t) (hbin : binaryMode kv = true)
    (hv : isValidName t = true) (hcl : ¬ rq.contentLength > hc.maxBodySize)
    (hfit : (rq.body.length : Int) ≤ hc.maxBodySize) :
    doMPUB hc b rq =
      match Mpub.readMPUB hc.maxMsgSize hc.maxBodySize rq.body with
      | .err c => resp .s413 (codeTail c) (getTopic b t)
      | .panic => resp .s500 "INTERNAL_ERROR" (getTopic b t)
      | .ok bodies _ => resp .s200 "OK" (publish b t (toMsgs bodies)) := by
  have htake : rq.body.take hc.maxBodySize.toNat = rq.body := by
    apply List.take_of_length_le; omega
  rw [doMPUB, if_neg hcl, topicFromQuery_of _ _ _ hq ht, if_pos hv]
  simp only [hq, Option.getD_some, hbin, if_true, htake]
  rfl

/-- Binary `/mpub?topic=t&binary=true` with body `batch` against `MPUB t` + size + `batch`: accepted
together, rejected together, same queue afterwards. The request either declares its length or is
within max-body-size (the chunked oversize case is the open finding F10). -/
theorem mpub_binary_equiv (conf : Conf) (hc : HConf) (hl : Linked conf hc) (s : ConnState) (b : Broker)
    (rq : Request) (kv : List (Bytes × Bytes)) (cmd t : Bytes) (tl : List Bytes)
    (hq : parseQuery rq.rawQuery = some kv) (ht : qget kv kTopic = some t) (hbin : binaryMode kv = true)
    (hcomp : rq.contentLength = rq.body.length ∨ (rq.contentLength = -1 ∧ (rq.body.length : Int) ≤ hc.maxBodySize))
    (hlen : rq.body.length < 2147483648) :
    ((doMPUB hc b rq).1.status = .s200 ↔ (mpub conf s b (cmd :: t :: tl) (mwire rq.body)).reply = some .ok) ∧
    ((doMPUB hc b rq).1.status = .s200 →
      (doMPUB hc b rq).2 = (mpub conf s b (cmd :: t :: tl) (mwire rq.body)).broker) ∧
    ((doMPUB hc b rq).1.status ≠ .s200 →
      Untouched b (doMPUB hc b rq).2 ∧ Untouched b (mpub conf s b (cmd :: t :: tl) (mwire rq.body)).broker) := by
  by_cases hv : isValidName t = true
  · rw [mpub_mwire conf s b cmd t tl rq.body hl.auth hv hlen]
    have hU := untouched_getTopic b t hv
    by_cases hbig : (rq.body.length : Int) > hc.maxBodySize
    · -- declared and too big: 413 / E_BAD_BODY
      have hcl : rq.contentLength > hc.maxBodySize := by
        rcases hcomp with h | ⟨_, h⟩ <;> omega
      have hh : doMPUB hc b rq = resp .s413 "BODY_TOO_BIG" b := by rw [doMPUB, if_pos hcl]
      have hbig' : (rq.body.length : Int) > conf.maxBodySize := by rw [← hl.body]; exact hbig
      rw [hh]
      by_cases h0 : (rq.body.length : Int) ≤ 0
      · rw [if_pos h0]
        exact ⟨⟨fun h => by simp [resp] at h, fun h => by simp [fatal] at h⟩, fun h => by simp [resp] at h,
          fun _ => ⟨Or.inl rfl, hU⟩⟩
      · rw [if_neg h0, if_pos hbig']
        exact ⟨⟨fun h => by simp [resp] at h, fun h => by simp [fatal] at h⟩, fun h => by simp [resp] at h,
          fun _ => ⟨Or.inl rfl, hU⟩⟩
    · have hcl : ¬ rq.contentLength > hc.maxBodySize := by
        rcases hcomp with h | ⟨h, _⟩ <;> omega
      have hbig' : ¬ (rq.body.length : Int) > conf.maxBodySize := by rw [← hl.body]; exact hbig
      rw [doMPUB_binary hc b rq kv t hq ht hbin hv hcl (by omega), hl.msg, hl.body]
      by_cases h0 : (rq.body.length : Int) ≤ 0
      · rw [if_pos h0]
        have hnil : rq.body = [] := by
          cases hb : rq.body with
          | nil => rfl
          | cons x xs => rw [hb] at h0; simp at h0; omega
        have hr : Mpub.readMPUB conf.maxMsgSize conf.maxBodySize rq.body = .err .E_BAD_BODY := by
          rw [hnil]; rfl
        rw [hr]
        exact ⟨⟨fun h => by simp [resp] at h, fun h => by simp [fatal] at h⟩, fun h => by simp [resp] at h,
          fun _ => ⟨hU, hU⟩⟩
      · rw [if_neg h0, if_neg hbig']
        cases hr : Mpub.readMPUB conf.maxMsgSize conf.maxBodySize rq.body with
        | err c =>
          exact ⟨⟨fun h => by simp [resp] at h, fun h => by simp [fatal] at h⟩, fun h => by simp [resp] at h,
            fun _ => ⟨hU, hU⟩⟩
        | panic => exact absurd hr (readMPUB_ne_panic _ _ _)
        | ok bodies r2 => simp [resp, done]
  · have hv' : isValidName t = false := by simpa using hv
    have htcp : mpub conf s b (cmd :: t :: tl) (mwire rq.body) = fatal .E_BAD_TOPIC s b := by
      rw [mpub]; simp only [hv', Bool.not_false, if_true]
    have hh : (doMPUB hc b rq).1.status ≠ .s200 ∧ (doMPUB hc b rq).2 = b := by
      rw [doMPUB]
      split
      · exact ⟨by simp [resp], rfl⟩
      · rw [topicFromQuery_of _ _ _ hq ht, if_neg hv]
        exact ⟨by simp [resp], rfl⟩
    rw [htcp]
    exact ⟨⟨fun h => absurd h hh.1, fun h => by simp [fatal] at h⟩, fun h => absurd h hh.1,
      fun _ => ⟨by rw [hh.2]; exact Or.inl rfl, Or.inl rfl⟩⟩

end Nsq.Proofs.HttpApiEquiv
