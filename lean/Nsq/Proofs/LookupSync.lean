import Nsq.Model.LookupSync
/-! Helper lemmas for C16 (`Nsq.Props.C16`): membership in the lookupd registration list, and what
`connectCallback` registers. -/
namespace Nsq.Proofs.LookupSync
open Nsq.Model.LookupSync

theorem mem_ins (k x : Key) (l : List Key) : k ∈ ins x l ↔ k = x ∨ k ∈ l := by
  unfold ins
  split
  · rename_i h
    constructor
    · intro hk; exact Or.inr hk
    · rintro (rfl | hk)
      · simpa using h
      · exact hk
  · simp

theorem mem_register (k : Key) (t c : String) (regs : List Key) :
    k ∈ register t c regs ↔ k = (t, c) ∨ k = (t, "") ∨ k ∈ regs := by
  unfold register
  split
  · rename_i h; subst h; simp [mem_ins]
  · simp [mem_ins]

theorem mem_unregister (k : Key) (t c : String) (regs : List Key) :
    k ∈ unregister t c regs ↔ k ∈ regs ∧ (if c = "" then k.1 ≠ t else k ≠ (t, c)) := by
  unfold unregister
  split <;> simp

theorem mem_applyRegisters (k : Key) (cmds regs : List Key) :
    k ∈ applyRegisters cmds regs ↔ k ∈ regs ∨ ∃ x ∈ cmds, k = x ∨ k = (x.1, "") := by
  unfold applyRegisters
  induction cmds generalizing regs with
  | nil => simp
  | cons x xs ih =>
    simp only [List.foldl_cons]
    rw [ih, mem_register]
    constructor
    · rintro ((h | h | h) | ⟨y, hy, h⟩)
      · exact Or.inr ⟨x, by simp, Or.inl (by simpa using h)⟩
      · exact Or.inr ⟨x, by simp, Or.inr h⟩
      · exact Or.inl h
      · exact Or.inr ⟨y, by simp [hy], h⟩
    · rintro (h | ⟨y, hy, h⟩)
      · exact Or.inl (Or.inr (Or.inr h))
      · rcases List.mem_cons.mp hy with rfl | hy'
        · rcases h with h | h
          · exact Or.inl (Or.inl (by simpa using h))
          · exact Or.inl (Or.inr (Or.inl h))
        · exact Or.inr ⟨y, hy', h⟩

theorem isTopic_iff (r : Ref) : isTopic r = true ↔ r.chan = "" := by simp [isTopic]

/-- a topic of that name is in the map and not exiting -/
def TopicLive (objs dead : List Ref) (t : String) : Prop :=
  ∃ T ∈ objs, T.chan = "" ∧ T.topic = t ∧ T ∉ dead

/-- an object of that name is in the maps and not exiting (for a channel: in a topic that is) -/
def NameLive (objs dead : List Ref) (k : Key) : Prop :=
  TopicLive objs dead k.1 ∧ (k.2 = "" ∨ ∃ r ∈ objs, r.topic = k.1 ∧ r.chan = k.2 ∧ r ∉ dead)

theorem nameLive_iff (objs dead : List Ref) (t c : String) :
    nameLive objs dead t c = true ↔ NameLive objs dead (t, c) := by
  simp only [nameLive, NameLive, TopicLive, Bool.and_eq_true, List.any_eq_true, Bool.or_eq_true, beq_iff_eq,
    Bool.not_eq_true', isTopic]
  constructor
  · rintro ⟨⟨T, hT, ⟨h1, h2⟩, h3⟩, h⟩
    refine ⟨⟨T, hT, h1, h2, by simpa using h3⟩, ?_⟩
    rcases h with h | ⟨r, hr, ⟨h4, h5⟩, h6⟩
    · exact Or.inl h
    · exact Or.inr ⟨r, hr, h4, h5, by simpa using h6⟩
  · rintro ⟨⟨T, hT, h1, h2, h3⟩, h⟩
    refine ⟨⟨T, hT, ⟨h1, h2⟩, by simpa using h3⟩, ?_⟩
    rcases h with h | ⟨r, hr, h4, h5, h6⟩
    · exact Or.inl h
    · exact Or.inr ⟨r, hr, ⟨h4, h5⟩, by simpa using h6⟩

theorem mem_callbackCmds (x : Key) (objs dead : List Ref) :
    x ∈ callbackCmds objs dead ↔ ∃ T ∈ objs, T.chan = "" ∧ T ∉ dead ∧ x.1 = T.topic ∧
      ((x.2 = "" ∧ ∀ r ∈ objs, r.chan ≠ "" → r.topic = T.topic → r ∈ dead) ∨
       (∃ r ∈ objs, r.chan ≠ "" ∧ r.topic = T.topic ∧ r ∉ dead ∧ x.2 = r.chan)) := by
  unfold callbackCmds
  simp only [List.mem_flatMap, List.mem_filter]
  constructor
  · rintro ⟨T, ⟨hT, hc⟩, hx⟩
    simp [isTopic] at hc
    refine ⟨T, hT, hc.1, hc.2, ?_⟩
    split at hx
    · rename_i hemp
      simp at hx
      subst hx
      refine ⟨rfl, Or.inl ⟨rfl, ?_⟩⟩
      intro r hr hne heq
      apply Classical.byContradiction
      intro hnd
      have : r ∈ objs.filter (fun r => !isTopic r && r.topic == T.topic && !dead.contains r) := by
        simp [List.mem_filter, hr, isTopic, hne, heq, hnd]
      rw [List.isEmpty_iff] at hemp
      rw [hemp] at this
      simp at this
    · simp only [List.mem_map, List.mem_filter] at hx
      obtain ⟨r, ⟨hr, hcond⟩, rfl⟩ := hx
      simp [isTopic] at hcond
      exact ⟨rfl, Or.inr ⟨r, hr, hcond.1.1, hcond.1.2, hcond.2, rfl⟩⟩
  · rintro ⟨T, hT, hc, hd, hx1, hx⟩
    refine ⟨T, ⟨hT, by simp [isTopic, hc, hd]⟩, ?_⟩
    rcases hx with ⟨hx2, hno⟩ | ⟨r, hr, hrc, hrt, hrd, hx2⟩
    · have hemp : (objs.filter (fun r => !isTopic r && r.topic == T.topic && !dead.contains r)).isEmpty = true := by
        simp [List.isEmpty_iff, List.filter_eq_nil_iff, isTopic]
        intro r hr hne heq
        exact hno r hr hne heq
      simp only [hemp, if_true]
      simp
      exact Prod.ext hx1 hx2
    · have hmem : r ∈ objs.filter (fun r => !isTopic r && r.topic == T.topic && !dead.contains r) := by
        simp [List.mem_filter, hr, isTopic, hrc, hrt, hrd]
      have hne : (objs.filter (fun r => !isTopic r && r.topic == T.topic && !dead.contains r)).isEmpty = false := by
        cases h : (objs.filter (fun r => !isTopic r && r.topic == T.topic && !dead.contains r)) with
        | nil => rw [h] at hmem; simp at hmem
        | cons a b => simp
      rw [hne]
      simp only [Bool.false_eq_true, if_false, List.mem_map]
      refine ⟨r, hmem, ?_⟩
      exact Prod.ext hx1.symm hx2.symm

/-- every channel in the maps lives in a topic that is in the maps -/
def ChanHasTopic (objs : List Ref) : Prop :=
  ∀ r ∈ objs, r.chan ≠ "" → ∃ T ∈ objs, T.chan = "" ∧ T.topic = r.topic

/-- `connectCallback` registers exactly the names that are live (as a set of keys): exiting topics (with all their
channels) and exiting channels are skipped. -/
theorem mem_callbackRegs (objs dead : List Ref) (k : Key) :
    k ∈ callbackRegs objs dead ↔ NameLive objs dead k := by
  unfold callbackRegs
  rw [mem_applyRegisters]
  simp only [List.not_mem_nil, false_or]
  constructor
  · rintro ⟨x, hx, hk⟩
    rw [mem_callbackCmds] at hx
    obtain ⟨T, hT, hTc, hTd, hx1, hx2⟩ := hx
    have htl : TopicLive objs dead x.1 := ⟨T, hT, hTc, hx1.symm, hTd⟩
    rcases hk with rfl | rfl
    · refine ⟨htl, ?_⟩
      rcases hx2 with ⟨h2, _⟩ | ⟨r, hr, _, hrt, hrd, h2⟩
      · exact Or.inl h2
      · exact Or.inr ⟨r, hr, by rw [hrt, hx1], h2.symm, hrd⟩
    · exact ⟨htl, Or.inl rfl⟩
  · rintro ⟨⟨T, hT, hTc, hTt, hTd⟩, hch⟩
    by_cases hc : k.2 = ""
    · by_cases hno : ∀ r ∈ objs, r.chan ≠ "" → r.topic = T.topic → r ∈ dead
      · refine ⟨(T.topic, ""), ?_, Or.inl (Prod.ext hTt.symm hc)⟩
        rw [mem_callbackCmds]
        exact ⟨T, hT, hTc, hTd, rfl, Or.inl ⟨rfl, hno⟩⟩
      · have hno' : ∃ r, r ∈ objs ∧ r.chan ≠ "" ∧ r.topic = T.topic ∧ r ∉ dead := by
          apply Classical.byContradiction
          intro hcon
          apply hno
          intro r hr hrc hrt
          apply Classical.byContradiction
          intro hrd
          exact hcon ⟨r, hr, hrc, hrt, hrd⟩
        obtain ⟨r, hr, hrc, hrt, hrd⟩ := hno'
        refine ⟨(T.topic, r.chan), ?_, Or.inr (Prod.ext hTt.symm hc)⟩
        rw [mem_callbackCmds]
        exact ⟨T, hT, hTc, hTd, rfl, Or.inr ⟨r, hr, hrc, hrt, hrd, rfl⟩⟩
    · rcases hch with h | ⟨r, hr, hrt, hrc, hrd⟩
      · exact absurd h hc
      · refine ⟨(T.topic, r.chan), ?_, Or.inl (Prod.ext hTt.symm hrc.symm)⟩
        rw [mem_callbackCmds]
        exact ⟨T, hT, hTc, hTd, rfl, Or.inr ⟨r, hr, by rw [hrc]; exact hc, by rw [hrt, hTt], hrd, rfl⟩⟩

end Nsq.Proofs.LookupSync
