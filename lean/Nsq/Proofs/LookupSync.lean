import Nsq.Model.LookupSync
/-! Helper lemmas for C16 (`Nsq.Props.C16`): membership in the lookupd registration list, and what
`connectCallback` registers. -/
namespace Nsq.Proofs.LookupSync
open Nsq.Model.LookupSync

theorem mem_ins (k x : Key) (l : List Key) : k ∈ ins x l ↔ k = x ∨ k ∈ l := by
  unfold ins
  split
  · rename_i h
    constructor
    · intro hk; exact Or.inr hk
    · rintro (rfl | hk)
      · simpa using h
      · exact hk
  · simp

theorem mem_register (k : Key) (t c : String) (regs : List Key) :
    k ∈ register t c regs ↔ k = (t, c) ∨ k = (t, "") ∨ k ∈ regs := by
  unfold register
  split
  · rename_i h; subst h; simp [mem_ins]
  · simp [mem_ins]

theorem mem_unregister (k : Key) (t c : String) (regs : List Key) :
    k ∈ unregister t c regs ↔ k ∈ regs ∧ (if c = "" then k.1 ≠ t else k ≠ (t, c)) := by
  unfold unregister
  split <;> simp

theorem mem_applyRegisters (k : Key) (cmds regs : List Key) :
    k ∈ applyRegisters cmds regs ↔ k ∈ regs ∨ ∃ x ∈ cmds, k = x ∨ k = (x.1, "") := by
  unfold applyRegisters
  induction cmds generalizing regs with
  | nil => simp
  | cons x xs ih =>
    simp only [List.foldl_cons]
    rw [ih, mem_register]
    constructor
    · rintro ((h | h | h) | ⟨y, hy, h⟩)
      · exact Or.inr ⟨x, by simp, Or.inl (by simpa using h)⟩
      · exact Or.inr ⟨x, by simp, Or.inr h⟩
      · exact Or.inl h
      · exact Or.inr ⟨y, by simp [hy], h⟩
    · rintro (h | ⟨y, hy, h⟩)
      · exact Or.inl (Or.inr (Or.inr h))
      · rcases List.mem_cons.mp hy with rfl | hy'
        · rcases h with h | h
          · exact Or.inl (Or.inl (by simpa using h))
          · exact Or.inl (Or.inr (Or.inl h))
        · exact Or.inr ⟨y, hy', h⟩

theorem isTopic_iff (r : Ref) : isTopic r = true ↔ r.chan = "" := by simp [isTopic]

theorem mem_callbackCmds (x : Key) (objs : List Ref) :
    x ∈ callbackCmds objs ↔ ∃ T ∈ objs, T.chan = "" ∧ x.1 = T.topic ∧
      ((x.2 = "" ∧ ∀ r ∈ objs, r.chan ≠ "" → r.topic ≠ T.topic) ∨
       (∃ r ∈ objs, r.chan ≠ "" ∧ r.topic = T.topic ∧ x.2 = r.chan)) := by
  unfold callbackCmds
  simp only [List.mem_flatMap, List.mem_filter, isTopic_iff]
  constructor
  · rintro ⟨T, ⟨hT, hc⟩, hx⟩
    refine ⟨T, hT, hc, ?_⟩
    split at hx
    · rename_i hemp
      simp at hx
      subst hx
      refine ⟨rfl, Or.inl ⟨rfl, ?_⟩⟩
      intro r hr hne heq
      have : r ∈ objs.filter (fun r => !isTopic r && r.topic == T.topic) := by
        simp [List.mem_filter, hr, isTopic, hne, heq]
      rw [List.isEmpty_iff] at hemp
      rw [hemp] at this
      simp at this
    · simp only [List.mem_map, List.mem_filter] at hx
      obtain ⟨r, ⟨hr, hcond⟩, rfl⟩ := hx
      simp [isTopic] at hcond
      exact ⟨rfl, Or.inr ⟨r, hr, hcond.1, hcond.2, rfl⟩⟩
  · rintro ⟨T, hT, hc, hx1, hx⟩
    refine ⟨T, ⟨hT, hc⟩, ?_⟩
    rcases hx with ⟨hx2, hno⟩ | ⟨r, hr, hrc, hrt, hx2⟩
    · have hemp : (objs.filter (fun r => !isTopic r && r.topic == T.topic)).isEmpty = true := by
        simp [List.isEmpty_iff, List.filter_eq_nil_iff, isTopic]
        intro r hr hne
        exact hno r hr hne
      simp only [hemp, if_true]
      simp
      exact Prod.ext hx1 hx2
    · have hmem : r ∈ objs.filter (fun r => !isTopic r && r.topic == T.topic) := by
        simp [List.mem_filter, hr, isTopic, hrc, hrt]
      have hne : (objs.filter (fun r => !isTopic r && r.topic == T.topic)).isEmpty = false := by
        cases h : (objs.filter (fun r => !isTopic r && r.topic == T.topic)) with
        | nil => rw [h] at hmem; simp at hmem
        | cons a b => simp
      rw [hne]
      simp only [Bool.false_eq_true, if_false, List.mem_map]
      refine ⟨r, hmem, ?_⟩
      exact Prod.ext hx1.symm hx2.symm

/-- every channel in the maps lives in a topic that is in the maps -/
def ChanHasTopic (objs : List Ref) : Prop :=
  ∀ r ∈ objs, r.chan ≠ "" → ∃ T ∈ objs, T.chan = "" ∧ T.topic = r.topic

/-- `connectCallback` registers exactly the objects in the maps (as a set of keys). -/
theorem mem_callbackRegs (objs : List Ref) (hs : ChanHasTopic objs) (k : Key) :
    k ∈ callbackRegs objs ↔ ∃ r ∈ objs, r.key = k := by
  unfold callbackRegs
  rw [mem_applyRegisters]
  simp only [List.not_mem_nil, false_or]
  constructor
  · rintro ⟨x, hx, hk⟩
    rw [mem_callbackCmds] at hx
    obtain ⟨T, hT, hTc, hx1, hx2⟩ := hx
    rcases hk with rfl | rfl
    · rcases hx2 with ⟨h2, _⟩ | ⟨r, hr, _, hrt, h2⟩
      · exact ⟨T, hT, by simp [Ref.key, hTc, ← hx1, ← h2]⟩
      · exact ⟨r, hr, by simp [Ref.key, hrt, ← hx1, ← h2]⟩
    · exact ⟨T, hT, by simp [Ref.key, hTc, hx1]⟩
  · rintro ⟨r, hr, rfl⟩
    by_cases hc : r.chan = ""
    · by_cases hno : ∀ x ∈ objs, x.chan ≠ "" → x.topic ≠ r.topic
      · refine ⟨(r.topic, ""), ?_, Or.inl (by simp [Ref.key, hc])⟩
        rw [mem_callbackCmds]
        exact ⟨r, hr, hc, rfl, Or.inl ⟨rfl, hno⟩⟩
      · have hno' : ∃ x, x ∈ objs ∧ x.chan ≠ "" ∧ x.topic = r.topic := by
          apply Classical.byContradiction
          intro hcon
          apply hno
          intro x hx hxc hxt
          exact hcon ⟨x, hx, hxc, hxt⟩
        obtain ⟨x, hx, hxc, hxt⟩ := hno'
        refine ⟨(r.topic, x.chan), ?_, Or.inr (by simp [Ref.key, hc])⟩
        rw [mem_callbackCmds]
        exact ⟨r, hr, hc, rfl, Or.inr ⟨x, hx, hxc, hxt, rfl⟩⟩
    · obtain ⟨T, hT, hTc, hTt⟩ := hs r hr hc
      refine ⟨(T.topic, r.chan), ?_, Or.inl (by simp [Ref.key, hTt])⟩
      rw [mem_callbackCmds]
      exact ⟨T, hT, hTc, rfl, Or.inr ⟨r, hr, hc, hTt.symm, rfl⟩⟩

end Nsq.Proofs.LookupSync
